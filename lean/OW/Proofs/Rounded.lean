import OW.Num
import OW.Kernels.Basic
import OW.Proofs.RealNum
import Mathlib.Algebra.Order.Floor.Ring
import Mathlib.Tactic.Ring
import Mathlib.Tactic.Linarith
import Mathlib.Tactic.NormNum
import Mathlib.Tactic.Positivity
/-!
# Rounded arithmetic over ℝ: a third instance of `Num`

The numeric theorems of this framework are stated at `α := ℝ` (exact arithmetic); Lean's `Float` is opaque. This file closes part
of that gap for INEQUALITY statements: it models floating-point arithmetic as "compute the exact real result, then round it with a
monotone, odd, idempotent function `rnd` that fixes 0", and instantiates the kernels' arithmetic interface `Num` at the type
`RNum R` of numbers representable under the rounding `R`. A kernel written `{α} [Num α]` therefore runs unchanged over `RNum R`
and a theorem proved `∀ R : Rounding` holds for every arithmetic of that shape.

**Interpretation.** IEEE-754 binary64 with round-to-nearest-even — and equally round-toward-zero — restricted to computations in
which no overflow to ±∞ and no NaN occurs, is one such `Rounding`: `rnd x` = the float nearest to `x`; it is monotone, odd,
fixes every float (so is idempotent) and fixes 0. (Subnormals and underflow to 0 are included: they are monotone roundings too.
Signed zeros are identified.) Lean's `Float` cannot be unfolded, so that instance is an interpretation, not a Lean term; two
concrete instances are constructed here as non-vacuity witnesses: the identity (`Rounding.exact`) and truncation toward zero to a
grid of multiples of `1/s` (`Rounding.trunc s`).

What is modelled per operation (`RNum R` is the subtype of representable reals):
* `a + b`, `a - b`, `a * b`, `a / b` = `rnd` of the exact result (correct rounding, as IEEE-754 requires; Go does not fuse
  `x*y + z` on amd64, and the translator's "no FMA" assumption is the same one);
* `sqrt` = `rnd ∘ Real.sqrt` (IEEE requires correct rounding); `exp pow log log10 tanh cos` = `rnd` of the real function — an
  IDEALISATION (libm is faithful to < 1 ulp but not correctly rounded, nor guaranteed monotone); theorems that go through these say so;
* `-a`, `|a|`, `min`, `max`, comparisons, `==` are exact; `floor`/`ceil` = `rnd ⌊a⌋` (exact for IEEE: the floor of a float is a float);
* a literal `c` in the kernel source = `rnd c` (Go rounds a constant once); `Rep R c` (`rnd c = c`) is carried as a hypothesis where a
  theorem needs the literal to be exact (e.g. `1`, `100`, `0.5`; true for binary64).
-/
namespace OW

/-- A rounding function on ℝ: monotone, odd, idempotent, fixing 0. -/
structure Rounding where
  rnd : ℝ → ℝ
  mono : Monotone rnd
  rnd_zero : rnd 0 = 0
  rnd_neg : ∀ x, rnd (-x) = -rnd x
  idem : ∀ x, rnd (rnd x) = rnd x

namespace Rounding
variable (R : Rounding)

/-- `x` is representable: a fixed point of the rounding -/
def Rep (x : ℝ) : Prop := R.rnd x = x

theorem rep_rnd (x : ℝ) : R.Rep (R.rnd x) := R.idem x
theorem rep_zero : R.Rep 0 := R.rnd_zero
theorem rep_neg {x : ℝ} (h : R.Rep x) : R.Rep (-x) := by unfold Rep at *; rw [R.rnd_neg, h]

/-- `rnd x ≤ rnd y` from `x ≤ y` -/
theorem rnd_le_rnd {x y : ℝ} (h : x ≤ y) : R.rnd x ≤ R.rnd y := R.mono h
theorem rnd_nonneg {x : ℝ} (h : 0 ≤ x) : 0 ≤ R.rnd x := by simpa [R.rnd_zero] using R.mono h
theorem rnd_nonpos {x : ℝ} (h : x ≤ 0) : R.rnd x ≤ 0 := by simpa [R.rnd_zero] using R.mono h
/-- a representable lower bound survives rounding -/
theorem le_rnd {c x : ℝ} (hc : R.Rep c) (h : c ≤ x) : c ≤ R.rnd x := by
  have := R.mono h; rwa [hc] at this
/-- a representable upper bound survives rounding -/
theorem rnd_le {c x : ℝ} (hc : R.Rep c) (h : x ≤ c) : R.rnd x ≤ c := by
  have := R.mono h; rwa [hc] at this
/-- strict order of rounded values reflects to the exact values -/
theorem lt_of_rnd_lt {x y : ℝ} (h : R.rnd x < R.rnd y) : x < y := by
  by_contra hc; exact absurd (R.mono (not_lt.mp hc)) (not_le.mpr h)
theorem rnd_eq_zero_of_eq_zero {x : ℝ} (h : x = 0) : R.rnd x = 0 := by rw [h, R.rnd_zero]

/-- the identity rounding: exact arithmetic -/
def exact : Rounding where
  rnd := id
  mono := monotone_id
  rnd_zero := rfl
  rnd_neg := fun _ => rfl
  idem := fun _ => rfl

/-- truncation toward zero onto the grid of multiples of `1/s` (IEEE "round toward zero" on a fixed-point grid) -/
noncomputable def truncFn (s : ℕ) (x : ℝ) : ℝ := if 0 ≤ x then (⌊x * s⌋ : ℝ) / s else (⌈x * s⌉ : ℝ) / s

theorem truncFn_grid (s : ℕ) (hs : 0 < s) (n : ℤ) : truncFn s ((n : ℝ) / s) = (n : ℝ) / s := by
  have hs' : (s : ℝ) ≠ 0 := Nat.cast_ne_zero.mpr (Nat.pos_iff_ne_zero.mp hs)
  unfold truncFn
  rw [div_mul_cancel₀ _ hs', Int.floor_intCast, Int.ceil_intCast]
  split_ifs <;> rfl

theorem truncFn_nonneg (s : ℕ) {x : ℝ} (h : 0 ≤ x) : 0 ≤ truncFn s x := by
  unfold truncFn; rw [if_pos h]
  exact div_nonneg (by exact_mod_cast Int.floor_nonneg.mpr (by positivity)) (Nat.cast_nonneg s)

theorem truncFn_nonpos (s : ℕ) {x : ℝ} (h : x < 0) : truncFn s x ≤ 0 := by
  unfold truncFn; rw [if_neg (not_le.mpr h)]
  apply div_nonpos_of_nonpos_of_nonneg _ (Nat.cast_nonneg s)
  have : ⌈x * (s : ℝ)⌉ ≤ 0 := Int.ceil_le.mpr (by
    have : x * (s : ℝ) ≤ 0 := mul_nonpos_of_nonpos_of_nonneg h.le (Nat.cast_nonneg s)
    simpa using this)
  exact_mod_cast this

/-- truncation to multiples of `1/s`, `s > 0` -/
noncomputable def trunc (s : ℕ) (hs : 0 < s) : Rounding where
  rnd := truncFn s
  mono := by
    have hs0 : (0 : ℝ) ≤ s := Nat.cast_nonneg s
    intro x y hxy
    by_cases hx : 0 ≤ x
    · have hy : 0 ≤ y := hx.trans hxy
      simp only [truncFn, if_pos hx, if_pos hy]
      apply div_le_div_of_nonneg_right _ hs0
      exact_mod_cast Int.floor_le_floor (mul_le_mul_of_nonneg_right hxy hs0)
    · by_cases hy : 0 ≤ y
      · exact (truncFn_nonpos s (not_le.mp hx)).trans (truncFn_nonneg s hy)
      · simp only [truncFn, if_neg hx, if_neg hy]
        apply div_le_div_of_nonneg_right _ hs0
        exact_mod_cast Int.ceil_le_ceil (mul_le_mul_of_nonneg_right hxy hs0)
  rnd_zero := by simp [truncFn]
  rnd_neg := by
    intro x
    have hs' : (0 : ℝ) < s := Nat.cast_pos.mpr hs
    rcases lt_trichotomy x 0 with h | h | h
    · simp only [truncFn, if_pos (neg_nonneg.mpr h.le), if_neg (not_le.mpr h), neg_mul, Int.floor_neg, Int.cast_neg, neg_div]
    · subst h; simp [truncFn]
    · simp only [truncFn, if_neg (not_le.mpr (neg_lt_zero.mpr h)), if_pos h.le, neg_mul, Int.ceil_neg, Int.cast_neg, neg_div]
  idem := by
    intro x
    by_cases hx : 0 ≤ x
    · have h : truncFn s x = (⌊x * s⌋ : ℝ) / s := by simp only [truncFn, if_pos hx]
      rw [h]; exact truncFn_grid s hs _
    · have h : truncFn s x = (⌈x * s⌉ : ℝ) / s := by simp only [truncFn, if_neg hx]
      rw [h]; exact truncFn_grid s hs _

theorem trunc_rnd (s : ℕ) (hs : 0 < s) (x : ℝ) : (trunc s hs).rnd x = truncFn s x := rfl

/-- every multiple of `1/s` is representable under `trunc s` -/
theorem trunc_rep_grid (s : ℕ) (hs : 0 < s) (n : ℤ) : (trunc s hs).Rep ((n : ℝ) / s) := truncFn_grid s hs n

/-- every integer is representable under `trunc s` -/
theorem trunc_rep_int (s : ℕ) (hs : 0 < s) (n : ℤ) : (trunc s hs).Rep (n : ℝ) := by
  have hs' : (s : ℝ) ≠ 0 := Nat.cast_ne_zero.mpr (Nat.pos_iff_ne_zero.mp hs)
  have := trunc_rep_grid s hs (n * s)
  rwa [Int.cast_mul, Int.cast_natCast, mul_div_assoc, div_self hs', mul_one] at this

/-- the truncating rounding is not the identity: `trunc 10` sends 0.25 to 0.2 -/
theorem trunc_nontrivial : (trunc 10 (by norm_num)).rnd (1 / 4) = 1 / 5 := by
  rw [trunc_rnd]; unfold truncFn
  rw [if_pos (by norm_num)]
  have : ⌊(1 / 4 : ℝ) * ((10 : ℕ) : ℝ)⌋ = 2 := by
    rw [Int.floor_eq_iff]; norm_num
  rw [this]; norm_num

/-- rounding AWAY from zero onto the grid of multiples of `1/s` (monotone, odd, idempotent: a legitimate `Rounding`, the mirror
image of `trunc`; used for counter-examples where a rounded-up quotient or literal matters) -/
noncomputable def awayFn (s : ℕ) (x : ℝ) : ℝ := if 0 ≤ x then (⌈x * s⌉ : ℝ) / s else (⌊x * s⌋ : ℝ) / s

theorem awayFn_grid (s : ℕ) (hs : 0 < s) (n : ℤ) : awayFn s ((n : ℝ) / s) = (n : ℝ) / s := by
  have hs' : (s : ℝ) ≠ 0 := Nat.cast_ne_zero.mpr (Nat.pos_iff_ne_zero.mp hs)
  unfold awayFn
  rw [div_mul_cancel₀ _ hs', Int.floor_intCast, Int.ceil_intCast]
  split_ifs <;> rfl

theorem awayFn_nonneg (s : ℕ) {x : ℝ} (h : 0 ≤ x) : 0 ≤ awayFn s x := by
  unfold awayFn; rw [if_pos h]
  exact div_nonneg (by exact_mod_cast Int.ceil_nonneg (by positivity)) (Nat.cast_nonneg s)

theorem awayFn_nonpos (s : ℕ) {x : ℝ} (h : x < 0) : awayFn s x ≤ 0 := by
  unfold awayFn; rw [if_neg (not_le.mpr h)]
  apply div_nonpos_of_nonpos_of_nonneg _ (Nat.cast_nonneg s)
  have : ⌊x * (s : ℝ)⌋ ≤ 0 := Int.floor_nonpos (mul_nonpos_of_nonpos_of_nonneg h.le (Nat.cast_nonneg s))
  exact_mod_cast this

/-- rounding away from zero to multiples of `1/s`, `s > 0` -/
noncomputable def away (s : ℕ) (hs : 0 < s) : Rounding where
  rnd := awayFn s
  mono := by
    have hs0 : (0 : ℝ) ≤ s := Nat.cast_nonneg s
    intro x y hxy
    by_cases hx : 0 ≤ x
    · have hy : 0 ≤ y := hx.trans hxy
      simp only [awayFn, if_pos hx, if_pos hy]
      apply div_le_div_of_nonneg_right _ hs0
      exact_mod_cast Int.ceil_le_ceil (mul_le_mul_of_nonneg_right hxy hs0)
    · by_cases hy : 0 ≤ y
      · exact (awayFn_nonpos s (not_le.mp hx)).trans (awayFn_nonneg s hy)
      · simp only [awayFn, if_neg hx, if_neg hy]
        apply div_le_div_of_nonneg_right _ hs0
        exact_mod_cast Int.floor_le_floor (mul_le_mul_of_nonneg_right hxy hs0)
  rnd_zero := by simp [awayFn]
  rnd_neg := by
    intro x
    rcases lt_trichotomy x 0 with h | h | h
    · simp only [awayFn, if_pos (neg_nonneg.mpr h.le), if_neg (not_le.mpr h), neg_mul, Int.ceil_neg, Int.cast_neg, neg_div]
    · subst h; simp [awayFn]
    · simp only [awayFn, if_neg (not_le.mpr (neg_lt_zero.mpr h)), if_pos h.le, neg_mul, Int.floor_neg, Int.cast_neg, neg_div]
  idem := by
    intro x
    by_cases hx : 0 ≤ x
    · have h : awayFn s x = (⌈x * s⌉ : ℝ) / s := by simp only [awayFn, if_pos hx]
      rw [h]; exact awayFn_grid s hs _
    · have h : awayFn s x = (⌊x * s⌋ : ℝ) / s := by simp only [awayFn, if_neg hx]
      rw [h]; exact awayFn_grid s hs _

theorem away_rnd (s : ℕ) (hs : 0 < s) (x : ℝ) : (away s hs).rnd x = awayFn s x := rfl
theorem away_rep_grid (s : ℕ) (hs : 0 < s) (n : ℤ) : (away s hs).Rep ((n : ℝ) / s) := awayFn_grid s hs n
theorem away_rep_int (s : ℕ) (hs : 0 < s) (n : ℤ) : (away s hs).Rep (n : ℝ) := by
  have hs' : (s : ℝ) ≠ 0 := Nat.cast_ne_zero.mpr (Nat.pos_iff_ne_zero.mp hs)
  have := away_rep_grid s hs (n * s)
  rwa [Int.cast_mul, Int.cast_natCast, mul_div_assoc, div_self hs', mul_one] at this
/-- on the integer grid, rounding away from zero of a non-negative real is its ceiling -/
theorem away_one_nonneg {x : ℝ} (h : 0 ≤ x) : (away 1 Nat.one_pos).rnd x = (⌈x⌉ : ℝ) := by
  rw [away_rnd]; unfold awayFn; rw [if_pos h]; simp
theorem away_one_neg {x : ℝ} (h : x < 0) : (away 1 Nat.one_pos).rnd x = (⌊x⌋ : ℝ) := by
  rw [away_rnd]; unfold awayFn; rw [if_neg (not_le.mpr h)]; simp

/-- truncation never raises a non-negative value -/
theorem trunc_le (s : ℕ) (hs : 0 < s) {y : ℝ} (hy : 0 ≤ y) : (trunc s hs).rnd y ≤ y := by
  have hs' : (0 : ℝ) < s := Nat.cast_pos.mpr hs
  rw [trunc_rnd]; unfold truncFn; rw [if_pos hy, div_le_iff₀ hs']
  exact Int.floor_le _

/-- rounding away from zero never lowers a non-negative value -/
theorem le_away (s : ℕ) (hs : 0 < s) {y : ℝ} (hy : 0 ≤ y) : y ≤ (away s hs).rnd y := by
  have hs' : (0 : ℝ) < s := Nat.cast_pos.mpr hs
  rw [away_rnd]; unfold awayFn; rw [if_pos hy, le_div_iff₀ hs']
  exact Int.le_ceil _

end Rounding

/-- the numbers representable under `R` (the "floats" of the rounding) -/
structure RNum (R : Rounding) where
  val : ℝ
  rep : R.rnd val = val

namespace RNum
variable {R : Rounding}

@[ext] theorem ext {a b : RNum R} (h : a.val = b.val) : a = b := by
  cases a; cases b; simp only at h; subst h; rfl

/-- round a real into `RNum R` -/
def round (R : Rounding) (x : ℝ) : RNum R := ⟨R.rnd x, R.idem x⟩
/-- a representable real as an `RNum R` -/
def ofRep (x : ℝ) (h : R.Rep x) : RNum R := ⟨x, h⟩

@[simp] theorem round_val (x : ℝ) : (round R x).val = R.rnd x := rfl
@[simp] theorem ofRep_val (x : ℝ) (h : R.Rep x) : (ofRep x h).val = x := rfl

theorem rep' (a : RNum R) : R.Rep a.val := a.rep

private theorem rep_min (a b : RNum R) : R.rnd (min a.val b.val) = min a.val b.val := by
  rcases min_choice a.val b.val with h | h <;> rw [h] <;> [exact a.rep; exact b.rep]
private theorem rep_max (a b : RNum R) : R.rnd (max a.val b.val) = max a.val b.val := by
  rcases max_choice a.val b.val with h | h <;> rw [h] <;> [exact a.rep; exact b.rep]
private theorem rep_abs (a : RNum R) : R.rnd |a.val| = |a.val| := by
  rcases abs_choice a.val with h | h <;> rw [h] <;> [exact a.rep; exact R.rep_neg a.rep]

noncomputable instance instNum (R : Rounding) : Num (RNum R) where
  add := fun a b => round R (a.val + b.val)
  sub := fun a b => round R (a.val - b.val)
  mul := fun a b => round R (a.val * b.val)
  div := fun a b => round R (a.val / b.val)
  neg := fun a => ⟨-a.val, R.rep_neg a.rep⟩
  lt := fun a b => a.val < b.val
  le := fun a b => a.val ≤ b.val
  ofScientific := fun m s e => round R (OfScientific.ofScientific m s e : ℝ)
  default := ⟨0, R.rnd_zero⟩
  decLt := fun _ _ => Classical.propDecidable _
  decLe := fun _ _ => Classical.propDecidable _
  feq := fun a b => @decide (a.val = b.val) (Classical.propDecidable _)
  zero := ⟨0, R.rnd_zero⟩
  one := round R 1
  ofNat := fun n => round R (n : ℝ)
  ofInt := fun n => round R (n : ℝ)
  exp := fun a => round R (Real.exp a.val)
  pow := fun a b => round R (a.val ^ b.val)
  log := fun a => round R (Real.log a.val)
  log10 := fun a => round R (Real.logb 10 a.val)
  tanh := fun a => round R (Real.tanh a.val)
  cos := fun a => round R (Real.cos a.val)
  sqrt := fun a => round R (Real.sqrt a.val)
  abs := fun a => ⟨|a.val|, rep_abs a⟩
  floor := fun a => round R (⌊a.val⌋ : ℝ)
  ceil := fun a => round R (⌈a.val⌉ : ℝ)
  toInt := fun a => if 0 ≤ a.val then ⌊a.val⌋ else ⌈a.val⌉
  isNaN := fun _ => false
  nan := ⟨0, R.rnd_zero⟩
  gmin := fun a b => ⟨min a.val b.val, rep_min a b⟩
  gmax := fun a b => ⟨max a.val b.val, rep_max a b⟩

/-! ### unfolding lemmas: every operation of `RNum R` in terms of `val` -/

@[simp] theorem add_val (a b : RNum R) : (a + b).val = R.rnd (a.val + b.val) := rfl
@[simp] theorem sub_val (a b : RNum R) : (a - b).val = R.rnd (a.val - b.val) := rfl
@[simp] theorem mul_val (a b : RNum R) : (a * b).val = R.rnd (a.val * b.val) := rfl
@[simp] theorem div_val (a b : RNum R) : (a / b).val = R.rnd (a.val / b.val) := rfl
@[simp] theorem neg_val (a : RNum R) : (-a).val = -a.val := rfl
@[simp] theorem lt_iff (a b : RNum R) : a < b ↔ a.val < b.val := Iff.rfl
@[simp] theorem le_iff (a b : RNum R) : a ≤ b ↔ a.val ≤ b.val := Iff.rfl
@[simp] theorem gt_iff (a b : RNum R) : a > b ↔ b.val < a.val := Iff.rfl
@[simp] theorem ge_iff (a b : RNum R) : a ≥ b ↔ b.val ≤ a.val := Iff.rfl
@[simp] theorem zero_val : (Num.zero : RNum R).val = 0 := rfl
@[simp] theorem one_val : (Num.one : RNum R).val = R.rnd 1 := rfl
@[simp] theorem nan_val : (Num.nan : RNum R).val = 0 := rfl
@[simp] theorem default_val : (default : RNum R).val = 0 := rfl
@[simp] theorem ofNat_val (n : Nat) : (@OfNat.ofNat (RNum R) n (Num.instOfNat n)).val = R.rnd (n : ℝ) := rfl
@[simp] theorem ofScientific_val (m : Nat) (s : Bool) (e : Nat) :
    (OfScientific.ofScientific m s e : RNum R).val = R.rnd (OfScientific.ofScientific m s e : ℝ) := rfl
@[simp] theorem gmin_val (a b : RNum R) : (Num.gmin a b).val = min a.val b.val := rfl
@[simp] theorem gmax_val (a b : RNum R) : (Num.gmax a b).val = max a.val b.val := rfl
@[simp] theorem abs_val (a : RNum R) : (Num.abs a).val = |a.val| := rfl
@[simp] theorem exp_val (a : RNum R) : (Num.exp a).val = R.rnd (Real.exp a.val) := rfl
@[simp] theorem pow_val (a b : RNum R) : (Num.pow a b).val = R.rnd (a.val ^ b.val) := rfl
@[simp] theorem log_val (a : RNum R) : (Num.log a).val = R.rnd (Real.log a.val) := rfl
@[simp] theorem tanh_val (a : RNum R) : (Num.tanh a).val = R.rnd (Real.tanh a.val) := rfl
@[simp] theorem sqrt_val (a : RNum R) : (Num.sqrt a).val = R.rnd (Real.sqrt a.val) := rfl
@[simp] theorem floor_val (a : RNum R) : (Num.floor a).val = R.rnd (⌊a.val⌋ : ℝ) := rfl
@[simp] theorem ceil_val (a : RNum R) : (Num.ceil a).val = R.rnd (⌈a.val⌉ : ℝ) := rfl
@[simp] theorem isNaN_eq (a : RNum R) : Num.isNaN a = false := rfl
@[simp] theorem feq_iff (a b : RNum R) : (Num.feq a b = true) ↔ a.val = b.val := by simp [Num.feq]
theorem feq_false_iff (a b : RNum R) : (Num.feq a b = false) ↔ a.val ≠ b.val := by
  rw [Ne, ← feq_iff, Bool.not_eq_true]

/-- the literal `0.0` of the kernels -/
@[simp] theorem sci_zero_val : (OfScientific.ofScientific 0 true 1 : RNum R).val = 0 := by
  rw [ofScientific_val]; norm_num [R.rnd_zero]
@[simp] theorem nat_zero_val : (@OfNat.ofNat (RNum R) 0 (Num.instOfNat 0)).val = 0 := by
  rw [ofNat_val, Nat.cast_zero, R.rnd_zero]

/-- `m.MinFloat64` on values -/
theorem pmin_val (a b : RNum R) : (Num.pmin a b).val = min a.val b.val := by
  unfold Num.pmin; split_ifs with h
  · exact (min_eq_right (le_of_lt h)).symm
  · exact (min_eq_left (not_lt.mp h)).symm
/-- `m.MaxFloat64` on values -/
theorem pmax_val (a b : RNum R) : (Num.pmax a b).val = max a.val b.val := by
  unfold Num.pmax; split_ifs with h
  · exact (max_eq_left (le_of_lt h)).symm
  · exact (max_eq_right (not_lt.mp h)).symm

/-! ### basic order facts of the rounded operations (⊕ ⊖ ⊗ ⊘ are `+ - * /` of `RNum R`) -/

/-- `0 ≤ a → 0 ≤ b → 0 ≤ a ⊕ b` -/
theorem add_nonneg {a b : RNum R} (ha : 0 ≤ a.val) (hb : 0 ≤ b.val) : 0 ≤ (a + b).val :=
  R.rnd_nonneg (by rw [← add_zero (0:ℝ)]; exact add_le_add ha hb)
/-- `0 ≤ a → 0 ≤ b → 0 ≤ a ⊗ b` -/
theorem mul_nonneg {a b : RNum R} (ha : 0 ≤ a.val) (hb : 0 ≤ b.val) : 0 ≤ (a * b).val :=
  R.rnd_nonneg (_root_.mul_nonneg ha hb)
/-- `0 ≤ a → 0 ≤ b → 0 ≤ a ⊘ b` (also for `b = 0`, where ℝ gives 0 and IEEE gives +∞ or NaN — excluded by the interpretation) -/
theorem div_nonneg {a b : RNum R} (ha : 0 ≤ a.val) (hb : 0 ≤ b.val) : 0 ≤ (a / b).val :=
  R.rnd_nonneg (_root_.div_nonneg ha hb)
/-- `b ≤ a → 0 ≤ a ⊖ b` -/
theorem sub_nonneg {a b : RNum R} (h : b.val ≤ a.val) : 0 ≤ (a - b).val :=
  R.rnd_nonneg (by linarith)
/-- `a ≤ b → a ⊖ b ≤ 0` -/
theorem sub_nonpos {a b : RNum R} (h : a.val ≤ b.val) : (a - b).val ≤ 0 :=
  R.rnd_nonpos (by linarith)
/-- `a ≤ b → a ⊖ c ≤ b ⊖ c` -/
theorem sub_le_sub_right {a b : RNum R} (h : a.val ≤ b.val) (c : RNum R) : (a - c).val ≤ (b - c).val :=
  R.rnd_le_rnd (by linarith)
/-- `b ≤ c → a ⊖ c ≤ a ⊖ b` -/
theorem sub_le_sub_left {b c : RNum R} (h : b.val ≤ c.val) (a : RNum R) : (a - c).val ≤ (a - b).val :=
  R.rnd_le_rnd (by linarith)
/-- `a ≤ b → c ≤ d → a ⊕ c ≤ b ⊕ d` -/
theorem add_le_add {a b c d : RNum R} (h1 : a.val ≤ b.val) (h2 : c.val ≤ d.val) : (a + c).val ≤ (b + d).val :=
  R.rnd_le_rnd (by linarith)
/-- `0 ≤ c → a ≤ b → a ⊗ c ≤ b ⊗ c` -/
theorem mul_le_mul_right {a b c : RNum R} (hc : 0 ≤ c.val) (h : a.val ≤ b.val) : (a * c).val ≤ (b * c).val :=
  R.rnd_le_rnd (mul_le_mul_of_nonneg_right h hc)
/-- `0 ≤ c → a ≤ b → c ⊗ a ≤ c ⊗ b` -/
theorem mul_le_mul_left {a b c : RNum R} (hc : 0 ≤ c.val) (h : a.val ≤ b.val) : (c * a).val ≤ (c * b).val :=
  R.rnd_le_rnd (mul_le_mul_of_nonneg_left h hc)
/-- a product with a factor in `[0,1]` does not exceed the other (non-negative) factor: `0 ≤ a`, `f ≤ 1` ⇒ `a ⊗ f ≤ a` -/
theorem mul_le_of_le_one {a f : RNum R} (ha : 0 ≤ a.val) (hf : f.val ≤ 1) : (a * f).val ≤ a.val :=
  R.rnd_le a.rep (by nlinarith)
/-- `0 ≤ a`, `0 ≤ b` ⇒ `a ≤ a ⊕ b` (an addend is a representable lower bound of the rounded sum) -/
theorem le_add_right {a b : RNum R} (hb : 0 ≤ b.val) : a.val ≤ (a + b).val :=
  R.le_rnd a.rep (by linarith)
/-- `0 ≤ b` ⇒ `a ⊖ b ≤ a` -/
theorem sub_le_self {a b : RNum R} (hb : 0 ≤ b.val) : (a - b).val ≤ a.val :=
  R.rnd_le a.rep (by linarith)
/-- `0 ≤ a`, `0 < b`, `a ≤ b` ⇒ `a ⊘ b ≤ rnd 1` (and `≤ 1` when 1 is representable) -/
theorem div_le_one {a b : RNum R} (hb : 0 < b.val) (h : a.val ≤ b.val) (h1 : R.Rep 1) : (a / b).val ≤ 1 :=
  R.rnd_le h1 ((_root_.div_le_one hb).mpr h)

/-- rounded subtraction is exact at equality: `a ⊖ a = 0` -/
theorem sub_self_val (a : RNum R) : (a - a).val = 0 := by rw [sub_val, sub_self, R.rnd_zero]
/-- `a ⊗ 0 = 0` -/
theorem mul_zero_val {a b : RNum R} (hb : b.val = 0) : (a * b).val = 0 := by rw [mul_val, hb, mul_zero, R.rnd_zero]
theorem zero_mul_val {a b : RNum R} (ha : a.val = 0) : (a * b).val = 0 := by rw [mul_val, ha, zero_mul, R.rnd_zero]
/-- `a ⊕ 0 = a` (the sum is representable) -/
theorem add_zero_val {a b : RNum R} (hb : b.val = 0) : (a + b).val = a.val := by rw [add_val, hb, add_zero, a.rep]
theorem zero_add_val {a b : RNum R} (ha : a.val = 0) : (a + b).val = b.val := by rw [add_val, ha, zero_add, b.rep]

/-- a non-negative literal stays non-negative after rounding -/
theorem sci_nonneg (m : Nat) (s : Bool) (e : Nat) : 0 ≤ (OfScientific.ofScientific m s e : RNum R).val := by
  rw [ofScientific_val]
  apply R.rnd_nonneg
  show (0:ℝ) ≤ ((OfScientific.ofScientific m s e : ℚ) : ℝ)
  have : (0 : ℚ) ≤ OfScientific.ofScientific m s e := by
    show (0:ℚ) ≤ Rat.ofScientific m s e
    cases s
    · rw [Rat.ofScientific_false_def]; positivity
    · rw [Rat.ofScientific_true_def, Rat.mkRat_eq_div]; positivity
  exact_mod_cast this
theorem ofNat_nonneg (n : Nat) : 0 ≤ (@OfNat.ofNat (RNum R) n (Num.instOfNat n)).val := by
  rw [ofNat_val]; exact R.rnd_nonneg (Nat.cast_nonneg n)

end RNum

/-! ### series helpers (type-generic) -/
namespace Rounded

/-- a fact about every timestep of a loop `out[t] = f(in[t])` holds along the whole series -/
theorem forall₂_map {ι ο : Type} (f : ι → ο) (P : ι → ο → Prop) (h : ∀ x, P x (f x)) (xs : List ι) :
    List.Forall₂ P xs (xs.map f) := by
  induction xs with
  | nil => exact List.Forall₂.nil
  | cons x xs ih => exact List.Forall₂.cons (h x) ih

/-- the untouched (constant) output series of an early return satisfies a per-timestep fact that the constant satisfies -/
theorem forall₂_replicate {ι ο : Type} (c : ο) (P : ι → ο → Prop) (h : ∀ x, P x c) (xs : List ι) (n : Nat)
    (hn : n = xs.length) : List.Forall₂ P xs (List.replicate n c) := by
  subst hn
  induction xs with
  | nil => exact List.Forall₂.nil
  | cons x xs ih => exact List.Forall₂.cons (h x) ih

/-- an invariant of the loop state and a per-timestep fact about (input, output) lift from one step to every run of `scan` -/
theorem scan_inv {σ ι ο : Type} (step : σ → ι → σ × ο) (Inv : σ → Prop) (Ok : ι → Prop) (Q : ι → ο → Prop)
    (hstep : ∀ s x, Inv s → Ok x → Inv (step s x).1 ∧ Q x (step s x).2) :
    ∀ (xs : List ι) (s : σ), Inv s → (∀ x ∈ xs, Ok x) →
      Inv (scan step s xs).1 ∧ List.Forall₂ Q xs (scan step s xs).2 := by
  intro xs
  induction xs with
  | nil => intro s hs _; exact ⟨hs, List.Forall₂.nil⟩
  | cons x xs ih =>
    intro s hs hok
    obtain ⟨h1, h2⟩ := hstep s x hs (hok x (List.mem_cons_self ..))
    obtain ⟨i1, i2⟩ := ih (step s x).1 h1 (fun y hy => hok y (List.mem_cons_of_mem _ hy))
    exact ⟨i1, List.Forall₂.cons h2 i2⟩

/-- every output of a pointwise-related run satisfies what the relation implies -/
theorem forall₂_right {ι ο : Type} {Q : ι → ο → Prop} {P : ο → Prop} (h : ∀ x o, Q x o → P o) :
    ∀ {xs : List ι} {os : List ο}, List.Forall₂ Q xs os → ∀ o ∈ os, P o := by
  intro xs os hf
  induction hf with
  | nil => intro o ho; cases ho
  | cons hr _ ih =>
    intro o ho
    rcases List.mem_cons.mp ho with rfl | ho
    · exact h _ _ hr
    · exact ih o ho

/-- a product `c ⊗ f ⊗ x` with `c, f ∈ [0,1]` and `x ≥ 0` lies in `[0, x]` (`1` representable) -/
theorem frac_mul_bounds {R : Rounding} (h1 : R.Rep 1) (c f x : RNum R) (hc0 : 0 ≤ c.val) (hc1 : c.val ≤ 1) (hf0 : 0 ≤ f.val)
    (hf1 : f.val ≤ 1) (hx : 0 ≤ x.val) : 0 ≤ (c * f * x).val ∧ (c * f * x).val ≤ x.val := by
  have hcf0 : 0 ≤ (c * f).val := RNum.mul_nonneg hc0 hf0
  have hcf1 : (c * f).val ≤ 1 := by rw [RNum.mul_val]; exact R.rnd_le h1 (by nlinarith)
  refine ⟨RNum.mul_nonneg hcf0 hx, ?_⟩
  rw [RNum.mul_val]; exact R.rnd_le x.rep (by nlinarith)

/-- `fraction ≤ rnd 1` ⇒ `1 ⊖ fraction ≥ 0` (the literal `1` is `rnd 1`) -/
theorem one_sub_nonneg_of_le_rnd_one {R : Rounding} (f : RNum R) (h : f.val ≤ R.rnd 1) : 0 ≤ ((1 : RNum R) - f).val := by
  rw [RNum.sub_val, RNum.ofNat_val, Nat.cast_one]; exact R.rnd_nonneg (by linarith)

/-- a computed fraction `≤ 1` is `≤ rnd 1` (it is representable), so `1 ⊖ fraction ≥ 0` -/
theorem one_sub_nonneg_of_le_one {R : Rounding} (f : RNum R) (h : f.val ≤ 1) : 0 ≤ ((1 : RNum R) - f).val :=
  one_sub_nonneg_of_le_rnd_one f (by have := R.rnd_le_rnd h; rwa [f.rep] at this)

/-- the grid rounding used by the non-vacuity examples: multiples of 1/10, truncation toward zero -/
noncomputable abbrev T10 : Rounding := Rounding.trunc 10 (by norm_num)
/-- an integer as a number of that grid -/
noncomputable def t10 (n : ℤ) : RNum T10 := RNum.ofRep (n : ℝ) (Rounding.trunc_rep_int 10 (by norm_num) n)
/-- its value -/
theorem t10_val (n : ℤ) : (t10 n).val = n := rfl

end Rounded
end OW
