import OW.Proofs.NdC01Foot
/-!
Helper lemmas for C01: sequences of writes through several views of one or several storages, and what a read through any
view returns afterwards ("all interleavings of reads and writes": reads do not change the heap, so an interleaving is a
sequence of writes with reads placed after arbitrary prefixes).
-/
namespace OW.Nd

section
variable {α : Type}

/-- one `Set` request: through array `arr`, at index `loc`, value `val` -/
structure WriteOp (α : Type) where
  arr : Arr
  loc : Idx
  val : α

/-- perform the writes in order -/
def setMany (h : Heap α) : List (WriteOp α) → R (Heap α)
  | [] => .ok h
  | op :: rest => do
    let h' ← set h op.arr op.loc op.val
    setMany h' rest

/-- do `op` and a read through `b` at `j` touch the same storage cell? -/
def sameCell (op : WriteOp α) (b : Arr) (j : Idx) : Prop :=
  b.sid = op.arr.sid ∧ b.base + addr b.v j = op.arr.base + addr op.arr.v op.loc

instance (op : WriteOp α) (b : Arr) (j : Idx) : Decidable (sameCell op b j) := by
  unfold sameCell; exact inferInstance

/-- what a read returns after the writes, given what it returned before: the value of the LAST write to the same cell -/
def readBack (ops : List (WriteOp α)) (b : Arr) (j : Idx) (before : R α) : R α :=
  ops.foldl (fun r op => if sameCell op b j then .ok op.val else r) before

theorem readBack_cons (op : WriteOp α) (ops : List (WriteOp α)) (b : Arr) (j : Idx) (before : R α) :
    readBack (op :: ops) b j before = readBack ops b j (if sameCell op b j then .ok op.val else before) := rfl

/-- one write, then a read through any array of any storage -/
theorem get_after_set {h : Heap α} {a b : Arr} (ga : Geo a.v) (gb : Geo b.v) (oka : ArrOK h a) (okb : ArrOK h b)
    {loc j : Idx} (hloc : InBounds loc a.v.dims) (hj : InBounds j b.v.dims) (x : α) :
    get (setStore h a.sid (a.base + addr a.v loc).toNat x) b j =
      if sameCell ⟨a, loc, x⟩ b j then .ok x else get h b j := by
  obtain ⟨y, cy, gy⟩ := get_addr gb okb hj
  obtain ⟨z, cz, gz⟩ := get_addr gb (okb.sameShape (sameShape_setStore h a.sid (a.base + addr a.v loc).toNat x)) hj
  rw [gz, gy]
  rw [cell_setStore, cy] at cz
  have na := oka.base_nonneg
  have nb := okb.base_nonneg
  have ba := (addr_bounds ga hloc).1
  have bb := (addr_bounds gb hj).1
  by_cases e : sameCell ⟨a, loc, x⟩ b j
  · have c : b.sid = a.sid ∧ (b.base + addr b.v j).toNat = (a.base + addr a.v loc).toNat := ⟨e.1, by rw [e.2]⟩
    simp only [c, and_self, if_true, Option.map_some, Option.some.injEq] at cz
    subst cz
    rw [if_pos e]
  · have c : ¬ (b.sid = a.sid ∧ (b.base + addr b.v j).toNat = (a.base + addr a.v loc).toNat) := by
      intro c; apply e; exact ⟨c.1, by have := c.2; show b.base + addr b.v j = a.base + addr a.v loc; omega⟩
    simp only [c, if_false, Option.some.injEq] at cz
    subst cz
    rw [if_neg e]

/-- **a sequence of writes through arbitrary views, then a read through any view** -/
theorem setMany_readBack : ∀ (ops : List (WriteOp α)) (h : Heap α),
    (∀ op ∈ ops, Geo op.arr.v ∧ ArrOK h op.arr ∧ InBounds op.loc op.arr.v.dims) →
    ∃ h', setMany h ops = .ok h' ∧ SameShape h h' ∧
      ∀ (b : Arr) (j : Idx), Geo b.v → ArrOK h b → InBounds j b.v.dims →
        get h' b j = readBack ops b j (get h b j)
  | [], h, _ => ⟨h, rfl, SameShape.refl h, fun _ _ _ _ _ => rfl⟩
  | op :: rest, h, hops => by
    obtain ⟨ga, oka, hloc⟩ := hops op List.mem_cons_self
    have hset := set_addr ga oka hloc op.val
    have hsh := sameShape_setStore h op.arr.sid (op.arr.base + addr op.arr.v op.loc).toNat op.val
    obtain ⟨h', hm, hsh', hrd⟩ := setMany_readBack rest _ (fun o ho =>
      let ⟨g, ok, ib⟩ := hops o (List.mem_cons_of_mem _ ho)
      ⟨g, ok.sameShape hsh, ib⟩)
    refine ⟨h', ?_, hsh.trans hsh', fun b j gb okb hj => ?_⟩
    · simp only [setMany, hset, bind, Except.bind]
      exact hm
    · rw [hrd b j gb (okb.sameShape hsh) hj, readBack_cons, get_after_set ga gb oka okb hloc hj op.val]

end
end OW.Nd
