import OW.Proofs.C08H5
import OW.Props.C01
import OW.Props.C02
/-!
Helper lemmas for `OW/Props/C08Slice.lean`: `Load` with a selection = `Slice` (OW/Nd) of the loaded full array.
Bridges between the ℕ-world of the file model (`cartesian`, `ravelN`, `CoordIn`) and the ℤ-world of the n-d array
model (`rowMajor`, `ravel`, `unravel`, `InBounds`, `affine`, `SliceOK`).
-/
namespace OW.Proofs.C08H5
open OW.Nd OW.Sim.H5

/-- per dimension (offset, stride, count): the selected indices -/
def tripCoords (T : List (Nat × Nat × Nat)) : List (List Nat) :=
  T.map (fun t => (List.range t.2.2).map (fun k => t.1 + k * t.2.1))

/-- the file coordinate of element `i` of the selection -/
def tripPt (T : List (Nat × Nat × Nat)) (i : List Nat) : List Nat :=
  List.zipWith (fun t x => t.1 + x * t.2.1) T i

theorem tripCoords_lengths (T : List (Nat × Nat × Nat)) : (tripCoords T).map List.length = T.map (·.2.2) := by
  simp [tripCoords]

theorem cartesian_trip_getElem? : ∀ (T : List (Nat × Nat × Nat)) (i : List Nat), CoordIn i (T.map (·.2.2)) →
    (cartesian (tripCoords T))[ravelN i (T.map (·.2.2))]? = some (tripPt T i) := by
  intro T
  induction T with
  | nil => intro i hi; cases i <;> simp_all [CoordIn, tripCoords, tripPt, cartesian, ravelN]
  | cons t T ih =>
    intro i hi
    cases i with
    | nil => simp [CoordIn] at hi
    | cons i0 is =>
      simp only [List.map_cons, CoordIn] at hi
      obtain ⟨h0, hr⟩ := hi
      have hP : (cartesian (tripCoords T)).length = prodN (T.map (·.2.2)) := by
        rw [cartesian_length, tripCoords_lengths]
      simp only [tripCoords, List.map_cons, cartesian, ravelN]
      rw [flatMap_getElem?_uniform _ (prodN (T.map (·.2.2))) _
        (by intro x _; simp only [List.length_map]; exact hP) i0 (ravelN is (T.map (·.2.2)))
        (by simpa using h0) (ravelN_lt is _ hr)]
      have := ih is hr
      simp only [tripCoords] at this
      simp [this, tripPt]

abbrev castL (l : List Nat) : Idx := l.map (fun c => ((c : Nat) : Int))

theorem uintsToInts_eq_castL (s : List Nat) : uintsToInts s = castL s := rfl

theorem ravel_castL : ∀ (c s : List Nat), c.length = s.length → ravel (castL c) (castL s) = (ravelN c s : Int) := by
  intro c
  induction c with
  | nil => intro s h; cases s <;> simp_all [ravel, ravelN, castL]
  | cons x xs ih =>
    intro s h
    cases s with
    | nil => simp at h
    | cons e es =>
      have := ih es (by simpa using h)
      simp only [castL, List.map_cons, ravel, ravelN] at this ⊢
      rw [this, product_cast]
      push_cast
      rfl

theorem inBounds_castL : ∀ (c s : List Nat), InBounds (castL c) (castL s) ↔ CoordIn c s := by
  intro c
  induction c with
  | nil => intro s; cases s <;> simp [InBounds, CoordIn, castL]
  | cons x xs ih =>
    intro s
    cases s with
    | nil => simp [InBounds, CoordIn, castL]
    | cons e es =>
      have := ih es
      simp only [castL, List.map_cons, InBounds, CoordIn] at this ⊢
      rw [this]
      constructor
      · rintro ⟨_, h2, h3⟩; exact ⟨by exact_mod_cast h2, h3⟩
      · rintro ⟨h2, h3⟩; exact ⟨by omega, by exact_mod_cast h2, h3⟩

/-- an in-bounds ℤ index is the cast of a ℕ coordinate -/
theorem inBounds_exists_cast : ∀ (i : Idx) (s : List Nat), InBounds i (castL s) → ∃ c, i = castL c ∧ CoordIn c s := by
  intro i
  induction i with
  | nil => intro s h; cases s <;> simp_all [InBounds, castL, CoordIn]
  | cons x xs ih =>
    intro s h
    cases s with
    | nil => simp [InBounds, castL] at h
    | cons e es =>
      simp only [castL, List.map_cons, InBounds] at h
      obtain ⟨h1, h2, h3⟩ := h
      obtain ⟨c, hc, hci⟩ := ih es h3
      refine ⟨x.toNat :: c, ?_, ?_⟩
      · simp only [castL, List.map_cons, List.cons.injEq]
        exact ⟨(Int.toNat_of_nonneg h1).symm, hc⟩
      · exact ⟨by omega, hci⟩

theorem affine_castL : ∀ (T : List (Nat × Nat × Nat)) (i : List Nat), i.length = T.length →
    affine (T.map (fun t => ((t.1 : Nat) : Int))) (castL i) (T.map (fun t => ((t.2.1 : Nat) : Int))) =
      castL (tripPt T i) := by
  intro T
  induction T with
  | nil => intro i h; cases i <;> simp_all [affine, tripPt, castL]
  | cons t T ih =>
    intro i h
    cases i with
    | nil => simp at h
    | cons x xs =>
      have := ih xs (by simpa using h)
      simp only [castL, tripPt, List.map_cons, affine, List.zipWith_cons_cons] at this ⊢
      rw [this]
      push_cast
      rfl

/-- the slice request `(offsets, counts, strides)` is in bounds when every dimension selects ≥ 1 index inside its
extent -/
theorem sliceOK_trip : ∀ (T : List (Nat × Nat × Nat)) (s : List Nat), T.length = s.length →
    (∀ t ∈ T, 1 ≤ t.2.1 ∧ t.2.2 ≠ 0) →
    (List.zip (T.map (fun t => (t.1, t.2.1, t.2.2, 1))) s).all
      (fun (p : (Nat × Nat × Nat × Nat) × Nat) => dimWithin p.1.1 p.1.2.1 p.1.2.2.1 p.1.2.2.2 p.2) = true →
    SliceOK (castL s) (T.map (fun t => ((t.1 : Nat) : Int))) (T.map (fun t => ((t.2.2 : Nat) : Int)))
      (T.map (fun t => ((t.2.1 : Nat) : Int))) := by
  intro T
  induction T with
  | nil => intro s h _ _; cases s <;> simp_all [SliceOK, castL]
  | cons t T ih =>
    intro s h ht hw
    cases s with
    | nil => simp at h
    | cons e es =>
      simp only [List.map_cons, List.zip_cons_cons, List.all_cons, Bool.and_eq_true, dimWithin,
        decide_eq_true_eq] at hw
      obtain ⟨hw0, hw⟩ := hw
      obtain ⟨h1, h2⟩ := ht t (by simp)
      have := ih es (by simpa using h) (fun u hu => ht u (List.mem_cons_of_mem _ hu)) hw
      simp only [castL, List.map_cons, SliceOK_cons]
      refine ⟨by omega, by omega, by omega, ?_, this⟩
      have hc : ((t.2.2 : Nat) : Int) - 1 = ((t.2.2 - 1 : Nat) : Int) := by omega
      rw [hc]
      have : ((t.1 + (t.2.2 - 1) * t.2.1 + (1 - 1) : Nat) : Int) < (e : Int) := by exact_mod_cast hw0
      push_cast at this ⊢
      omega

/-- start / step of a `Slice` entry as Go reads them (`nil`: 0 / 1) -/
def selStart : SelDim → Int
  | some (a :: _) => a
  | _ => 0
def selStep : SelDim → Int
  | some [_, _, st] => st
  | _ => 1

theorem trip_start_step : ∀ (sel : Sel) (s : List Nat), sel.length = s.length → (∀ x ∈ sel, SelDimOK x) →
    sel.map selStart = (trip sel s).map (fun t => ((t.1 : Nat) : Int)) ∧
    sel.map selStep = (trip sel s).map (fun t => ((t.2.1 : Nat) : Int)) := by
  intro sel
  induction sel with
  | nil => intro s _ _; cases s <;> simp [trip]
  | cons x xs ih =>
    intro s hl hok
    cases s with
    | nil => simp at hl
    | cons e es =>
      obtain ⟨i1, i2⟩ := ih es (by simpa using hl) (fun y hy => hok y (List.mem_cons_of_mem _ hy))
      have hx := hok x (by simp)
      simp only [trip, List.zipWith_cons_cons, List.map_cons] at i1 i2 ⊢
      rw [i1, i2]
      match x, hx with
      | none, _ => simp [selStart, selStep, triple]
      | some [a, b, st], ⟨ha, hs⟩ =>
        simp only [selStart, selStep, triple]
        constructor
        · rw [Int.toNat_of_nonneg ha]
        · rw [Int.toNat_of_nonneg (by omega)]

section
variable {α : Type}
/-- a list of reads, given pointwise -/
theorem getAll_pointwise {h : Heap α} {b : Arr} : ∀ (l : List Idx) (vals : List α), l.length = vals.length →
    (∀ (j : Nat) (i : Idx) (x : α), l[j]? = some i → vals[j]? = some x → Nd.get h b i = .ok x) →
    NdC02.getAll h b l = .ok vals
  | [], [], _, _ => rfl
  | [], _ :: _, hl, _ => by simp at hl
  | _ :: _, [], hl, _ => by simp at hl
  | i :: is, x :: xs, hl, hp => by
    have h0 := hp 0 i x (by simp) (by simp)
    have ih := getAll_pointwise is xs (by simpa using hl)
      (fun j i' x' h1 h2 => hp (j + 1) i' x' (by simpa using h1) (by simpa using h2))
    simp [NdC02.getAll, h0, ih, bind, Except.bind, pure, Except.pure]
end

end OW.Proofs.C08H5
