import OW.Proofs.FindRoot
/-!
Additions to the `FindRoot` lemmas made for the audit of C18:

* versions of the loop lemmas that do not mention the evaluation log, so that the theorems about the RESULT need no
  hypothesis on the initial guess once one iteration runs (`iterate_post_b`, `iterate_width_b`, `iterate_no_conv_b`);
* `SecantNondeg`: "whenever an iteration goes on to evaluate `f` at the secant trial, the secant denominator
  `maxDelta − minDelta` is not zero" — the non-degeneracy under which the ℝ run and the float64 run of the code take
  the same path (for `0/0` ℝ gives 0, hence a clamped point inside the bracket, while float64 gives NaN and the code
  evaluates `f(NaN)`).
-/
namespace OW.Proofs.FindRoot
open OW OW.Fn

/-- the trial loop, non-returning case, without the evaluation log -/
theorem trialLoop_inr_b {f : ℝ → ℝ} {tol conv x lo hi : ℝ} :
    ∀ (ts : List ℝ) (s s' : Inner ℝ), BInv f lo hi s.b → trialLoop f tol conv x s ts = .inr s' →
      BInv f lo hi s'.b ∧ Nested s.b s'.b ∧ (conv ≤ 0 → s'.hit = s.hit) := by
  intro ts
  induction ts with
  | nil =>
    intro s s' hb h
    simp only [trialLoop] at h
    cases h
    exact ⟨hb, Nested.refl _, fun _ => rfl⟩
  | cons t ts ih =>
    intro s s' hb h
    simp only [trialLoop] at h
    cases hstep : trialStep f tol conv x s t with
    | inl r => rw [hstep] at h; cases h
    | inr s1 =>
      rw [hstep] at h
      obtain ⟨hb1, hn1, _, _, hhit1⟩ := trialStep_inr hb hstep
      obtain ⟨hb2, hn2, hhit2⟩ := ih s1 s' hb1 h
      refine ⟨hb2, hn1.trans hn2, fun hc => ?_⟩
      rw [hhit2 hc, hhit1]
      have : ¬ |x - t| < conv := by
        intro hh; have := abs_nonneg (x - t); linarith
      rw [if_neg this]

/-- the trial loop, returning case, without the evaluation log -/
theorem trialLoop_inl_b {f : ℝ → ℝ} {tol conv x lo hi : ℝ} :
    ∀ (ts : List ℝ) (s s' : Inner ℝ) (rx rd : ℝ), BInv f lo hi s.b → (∀ t ∈ ts, lo ≤ t ∧ t ≤ hi) →
      trialLoop f tol conv x s ts = .inl (rx, rd, s') →
      rd = f rx ∧ |rd| < tol ∧ (lo ≤ rx ∧ rx ≤ hi) ∧ BInv f lo hi s'.b := by
  intro ts
  induction ts with
  | nil =>
    intro s s' rx rd _ _ h
    simp only [trialLoop] at h
    cases h
  | cons t ts ih =>
    intro s s' rx rd hb hts h
    simp only [trialLoop] at h
    cases hstep : trialStep f tol conv x s t with
    | inl r =>
      rw [hstep] at h
      cases h
      obtain ⟨rfl, rfl, htol, hb', _⟩ := trialStep_inl hstep
      exact ⟨rfl, htol, hts rx (List.mem_cons_self ..), by rw [hb']; exact hb⟩
    | inr s1 =>
      rw [hstep] at h
      obtain ⟨hb1, _, _, _, _⟩ := trialStep_inr hb hstep
      exact ih s1 s' rx rd hb1 (fun u hu => hts u (List.mem_cons_of_mem _ hu)) h

/-- halving, without the evaluation log -/
theorem trialLoop_halve_b {f : ℝ → ℝ} {tol conv x lo hi : ℝ} (rest : List ℝ) (s s' : Inner ℝ)
    (hb : BInv f lo hi s.b) (h : trialLoop f tol conv x s (halvingX s.b :: rest) = .inr s') :
    s'.b.maxX - s'.b.minX ≤ (s.b.maxX - s.b.minX) / 2 := by
  simp only [trialLoop] at h
  cases hstep : trialStep f tol conv x s (halvingX s.b) with
  | inl r => rw [hstep] at h; cases h
  | inr s1 =>
    rw [hstep] at h
    have hhalf := trialStep_halve hb hstep
    obtain ⟨hb1, _, _, _, _⟩ := trialStep_inr hb hstep
    obtain ⟨_, hn, _⟩ := trialLoop_inr_b rest s1 s' hb1 h
    have := hn.1; have := hn.2
    linarith

/-- what holds of every result of the iteration loop WITHOUT any hypothesis on the current point `x` (the initial
guess): the bracket invariant, `delta = f x`, the meaning of the tolerance exit — and, as soon as one iteration runs
(or if the current point is in the interval), the returned point lies in the interval. -/
structure PostB (f : ℝ → ℝ) (lo hi tol : ℝ) (r : Res ℝ) : Prop where
  binv : BInv f lo hi r.b
  val : r.delta = f r.x
  tol : r.exit = .tol → |r.delta| < tol

theorem iterate_post_b {f : ℝ → ℝ} {f' : Option (ℝ → ℝ)} {tol conv lo hi : ℝ} :
    ∀ (fuel : Nat) (x delta : ℝ) (b : Bracket ℝ) (ev dev : List ℝ) (r : Res ℝ),
      BInv f lo hi b → delta = f x → iterate f f' tol conv fuel x delta b ev dev = r →
      PostB f lo hi tol r ∧ ((1 ≤ fuel ∨ (lo ≤ x ∧ x ≤ hi)) → lo ≤ r.x ∧ r.x ≤ hi) := by
  intro fuel
  induction fuel with
  | zero =>
    intro x delta b ev dev r hb hd hr
    simp only [iterate] at hr
    subst hr
    refine ⟨⟨hb, hd, fun h => by cases h⟩, fun h => ?_⟩
    rcases h with h | h
    · omega
    · exact h
  | succ n ih =>
    intro x delta b ev dev r hb hd hr
    simp only [iterate] at hr
    have hts := trials_in hb f' x delta
    split at hr
    · rename_i rx rd s' hloop
      obtain ⟨h1, h2, h3, h4⟩ := trialLoop_inl_b _ { b := b, hit := 0, evals := ev } _ _ _ hb hts hloop
      subst hr
      exact ⟨⟨h4, h1, fun _ => h2⟩, fun _ => h3⟩
    · rename_i s' hloop
      obtain ⟨h1, _, _⟩ := trialLoop_inr_b _ { b := b, hit := 0, evals := ev } _ hb hloop
      obtain ⟨p1, p2, _, _⟩ := pick_spec h1
      have hpx : lo ≤ (pick s'.b).1 ∧ (pick s'.b).1 ≤ hi := ⟨le_trans h1.lo_le p2.1, le_trans p2.2 h1.le_hi⟩
      split at hr
      · subst hr
        exact ⟨⟨h1, p1, fun h => by cases h⟩, fun _ => hpx⟩
      · obtain ⟨q1, q2⟩ := ih _ _ _ _ _ _ h1 p1 hr
        exact ⟨q1, fun _ => q2 (Or.inr hpx)⟩

/-- `iterate_width` without the evaluation log -/
theorem iterate_width_b {f : ℝ → ℝ} {f' : Option (ℝ → ℝ)} {tol conv lo hi : ℝ} :
    ∀ (fuel : Nat) (x delta : ℝ) (b : Bracket ℝ) (ev dev : List ℝ) (r : Res ℝ),
      BInv f lo hi b → iterate f f' tol conv fuel x delta b ev dev = r → r.exit = .fuel →
      r.b.maxX - r.b.minX ≤ (b.maxX - b.minX) / 2 ^ fuel := by
  intro fuel
  induction fuel with
  | zero =>
    intro x delta b ev dev r _ hr _
    simp only [iterate] at hr
    subst hr
    simp only [pow_zero, div_one]
    exact le_refl _
  | succ n ih =>
    intro x delta b ev dev r hb hr
    simp only [iterate] at hr
    obtain ⟨rest, hrest⟩ := trialXs_head f' x delta b
    split at hr
    · subst hr; intro h; cases h
    · rename_i s' hloop
      obtain ⟨h1, _, _⟩ := trialLoop_inr_b _ { b := b, hit := 0, evals := ev } _ hb hloop
      have hhalf : s'.b.maxX - s'.b.minX ≤ (b.maxX - b.minX) / 2 := by
        rw [hrest] at hloop
        exact trialLoop_halve_b (secantX b :: rest) { b := b, hit := 0, evals := ev } s' hb hloop
      split at hr
      · subst hr; intro h; cases h
      · intro hexit
        have := ih _ _ _ _ _ _ h1 hr hexit
        refine le_trans this ?_
        rw [pow_succ', ← div_div]
        have h2n : (0 : ℝ) < 2 ^ n := by positivity
        exact div_le_div_of_nonneg_right hhalf (le_of_lt h2n)

/-- `iterate_no_conv` without the evaluation log -/
theorem iterate_no_conv_b {f : ℝ → ℝ} {f' : Option (ℝ → ℝ)} {tol conv lo hi : ℝ} (hc : conv ≤ 0) :
    ∀ (fuel : Nat) (x delta : ℝ) (b : Bracket ℝ) (ev dev : List ℝ) (r : Res ℝ),
      BInv f lo hi b → iterate f f' tol conv fuel x delta b ev dev = r → r.exit ≠ .conv := by
  intro fuel
  induction fuel with
  | zero =>
    intro x delta b ev dev r _ hr
    simp only [iterate] at hr
    subst hr
    intro h; cases h
  | succ n ih =>
    intro x delta b ev dev r hb hr
    simp only [iterate] at hr
    obtain ⟨rest, hrest⟩ := trialXs_head f' x delta b
    split at hr
    · subst hr; intro h; cases h
    · rename_i s' hloop
      obtain ⟨h1, _, h4⟩ := trialLoop_inr_b _ { b := b, hit := 0, evals := ev } _ hb hloop
      have hhit : s'.hit = 0 := h4 hc
      split at hr
      · rename_i hh
        rw [hhit, hrest] at hh
        simp at hh
      · exact ih _ _ _ _ _ _ h1 hr

/-- **Non-degenerate secants along a run.** At every iteration: if the halving trial does not return (so that the code
goes on to evaluate `f` at the secant trial), the secant denominator `maxDelta − minDelta` is not zero; and the same
holds for the rest of the run. This is the hypothesis `maxDelta ≠ minDelta` "at every iteration" in the form in which
it matters: the quotient is computed at every iteration, but `f` is only called on it when the halving trial did not
return. -/
def SecantNondeg (f : ℝ → ℝ) (f' : Option (ℝ → ℝ)) (tol conv : ℝ) : Nat → ℝ → ℝ → Bracket ℝ → List ℝ → Prop
  | 0, _, _, _, _ => True
  | fuel + 1, x, delta, b, ev =>
    ((∃ s', trialStep f tol conv x { b := b, hit := 0, evals := ev } (halvingX b) = .inr s') → b.minDelta ≠ b.maxDelta) ∧
    (match trialLoop f tol conv x { b := b, hit := 0, evals := ev } (trialXs f' x delta b) with
     | .inl _ => True
     | .inr s =>
       if s.hit == (trialXs f' x delta b).length then True
       else SecantNondeg f f' tol conv fuel (pick s.b).1 (pick s.b).2 s.b s.evals)

end OW.Proofs.FindRoot
