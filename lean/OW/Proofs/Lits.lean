import OW.Proofs.RealNum
/-! Numerals written in a `[Num α]` kernel are `@OfNat.ofNat α n (Num.instOfNat n)`; at `ℝ` they are the ordinary numerals.
These are stated as rewrite rules (not simp lemmas: together with `Nat.cast_ofNat` the simp lemma
`RealNum.ofNat_eq` loops on numerals ≥ 2, so proof files that use `simp` with such numerals erase it locally). -/
namespace OW.Lits

theorem lit0 : (@OfNat.ofNat ℝ 0 (Num.instOfNat 0)) = (0 : ℝ) := Nat.cast_zero
theorem lit1 : (@OfNat.ofNat ℝ 1 (Num.instOfNat 1)) = (1 : ℝ) := Nat.cast_one
theorem lit2 : (@OfNat.ofNat ℝ 2 (Num.instOfNat 2)) = (2 : ℝ) := Nat.cast_ofNat

theorem getD_of_lt {α : Type} (l : List α) (d : α) {i : Nat} (h : i < l.length) : l.getD i d = l[i] := by
  simp [List.getD_eq_getElem?_getD, List.getElem?_eq_getElem h]

end OW.Lits
