import OW.Util.FindRoot
import OW.Proofs.RealNum
import Mathlib.Tactic.Linarith
import Mathlib.Tactic.NormNum
import Mathlib.Tactic.Ring
import Mathlib.Order.Monotone.Basic
import Mathlib.Order.Interval.Set.Basic
/-! Helper lemmas about the `FindRoot` model over ℝ (exact arithmetic). -/
namespace OW.Proofs.FindRoot
open OW OW.Fn

/-- Bracket invariant relative to an enclosing interval `[lo, hi]` (the initial bracket). -/
structure BInv (f : ℝ → ℝ) (lo hi : ℝ) (b : Bracket ℝ) : Prop where
  le : b.minX ≤ b.maxX
  lo_le : lo ≤ b.minX
  le_hi : b.maxX ≤ hi
  dmin : b.minDelta = f b.minX
  dmax : b.maxDelta = f b.maxX
  smin : b.minDelta ≤ 0
  smax : 0 ≤ b.maxDelta

def Nested (b b' : Bracket ℝ) : Prop := b.minX ≤ b'.minX ∧ b'.maxX ≤ b.maxX

def EvalsIn (lo hi : ℝ) (l : List ℝ) : Prop := ∀ e ∈ l, lo ≤ e ∧ e ≤ hi

theorem Nested.refl (b : Bracket ℝ) : Nested b b := ⟨le_refl _, le_refl _⟩
theorem Nested.trans {a b c : Bracket ℝ} (h1 : Nested a b) (h2 : Nested b c) : Nested a c :=
  ⟨le_trans h1.1 h2.1, le_trans h2.2 h1.2⟩

theorem halvingX_eq (b : Bracket ℝ) : halvingX b = b.maxX - (b.maxX - b.minX) / 2 := by
  unfold halvingX
  norm_num
  ring

/-- the unclamped secant point -/
noncomputable def secantRaw (b : Bracket ℝ) : ℝ :=
  b.maxX - (b.maxX - b.minX) * b.maxDelta / (b.maxDelta - b.minDelta)

theorem secantX_eq (b : Bracket ℝ) :
    secantX b = if secantRaw b < b.minX then b.minX else if b.maxX < secantRaw b then b.maxX else secantRaw b := rfl

theorem secantX_mem (b : Bracket ℝ) (h : b.minX ≤ b.maxX) : b.minX ≤ secantX b ∧ secantX b ≤ b.maxX := by
  rw [secantX_eq]
  split_ifs with h1 h2
  · exact ⟨le_refl _, h⟩
  · exact ⟨h, le_refl _⟩
  · exact ⟨not_lt.mp h1, not_lt.mp h2⟩

/-- With a genuine quotient (`minDelta < maxDelta`) the secant point lies in the bracket, so the clamp is inactive. -/
theorem secantRaw_mem (b : Bracket ℝ) (h : b.minX ≤ b.maxX) (h1 : b.minDelta ≤ 0) (h2 : 0 ≤ b.maxDelta)
    (hd : b.minDelta < b.maxDelta) : b.minX ≤ secantRaw b ∧ secantRaw b ≤ b.maxX := by
  unfold secantRaw
  have hpos : 0 < b.maxDelta - b.minDelta := by linarith
  have hw : 0 ≤ b.maxX - b.minX := by linarith
  have hq0 : 0 ≤ (b.maxX - b.minX) * b.maxDelta / (b.maxDelta - b.minDelta) :=
    div_nonneg (mul_nonneg hw h2) (le_of_lt hpos)
  have hq1 : (b.maxX - b.minX) * b.maxDelta / (b.maxDelta - b.minDelta) ≤ b.maxX - b.minX := by
    rw [div_le_iff₀ hpos]
    nlinarith
  constructor <;> linarith

theorem secantX_eq_raw (b : Bracket ℝ) (h : b.minX ≤ b.maxX) (h1 : b.minDelta ≤ 0) (h2 : 0 ≤ b.maxDelta)
    (hd : b.minDelta < b.maxDelta) : secantX b = secantRaw b := by
  have hm := secantRaw_mem b h h1 h2 hd
  rw [secantX_eq, if_neg (not_lt.mpr hm.1), if_neg (not_lt.mpr hm.2)]

theorem trialXs_head (f' : Option (ℝ → ℝ)) (x delta : ℝ) (b : Bracket ℝ) :
    ∃ rest, trialXs f' x delta b = halvingX b :: secantX b :: rest := by
  unfold trialXs
  cases f' with
  | none => exact ⟨[], rfl⟩
  | some d =>
    simp only
    split_ifs
    · exact ⟨[_], rfl⟩
    · exact ⟨[], rfl⟩
    · exact ⟨[], rfl⟩

theorem trialXs_mem (f' : Option (ℝ → ℝ)) (x delta : ℝ) (b : Bracket ℝ) (h : b.minX ≤ b.maxX) :
    ∀ t ∈ trialXs f' x delta b, b.minX ≤ t ∧ t ≤ b.maxX := by
  have hh : b.minX ≤ halvingX b ∧ halvingX b ≤ b.maxX := by
    rw [halvingX_eq]; constructor <;> linarith
  have hs := secantX_mem b h
  intro t ht
  unfold trialXs at ht
  cases f' with
  | none =>
    simp only [List.mem_cons, List.not_mem_nil, or_false] at ht
    rcases ht with rfl | rfl
    · exact hh
    · exact hs
  | some d =>
    simp only at ht
    split_ifs at ht with h1 h2
    · simp only [List.cons_append, List.nil_append, List.mem_cons, List.not_mem_nil, or_false] at ht
      rcases ht with rfl | rfl | rfl
      · exact hh
      · exact hs
      · exact ⟨le_of_lt h2.1, le_of_lt h2.2⟩
    all_goals
      simp only [List.mem_cons, List.not_mem_nil, or_false] at ht
      rcases ht with rfl | rfl
      · exact hh
      · exact hs

/-- what one trial does -/
theorem trialStep_spec (f : ℝ → ℝ) (tol conv x : ℝ) (s : Inner ℝ) (t : ℝ) :
    (|f t| < tol ∧ trialStep f tol conv x s t = .inl (t, f t, { s with evals := t :: s.evals })) ∨
    (¬ |f t| < tol ∧ ∃ s', trialStep f tol conv x s t = .inr s' ∧ s'.evals = t :: s.evals ∧
      s'.hit = (if |x - t| < conv then s.hit + 1 else s.hit) ∧
      ((f t < 0 ∧ s.b.minX < t ∧ t ≤ s.b.maxX ∧ s'.b = { s.b with minX := t, minDelta := f t }) ∨
       (¬ f t < 0 ∧ t < s.b.maxX ∧ s.b.minX ≤ t ∧ s'.b = { s.b with maxX := t, maxDelta := f t }) ∨
       (s'.b = s.b ∧ ((f t < 0 ∧ ¬ (s.b.minX < t ∧ t ≤ s.b.maxX)) ∨ (¬ f t < 0 ∧ ¬ (t < s.b.maxX ∧ s.b.minX ≤ t)))))) := by
  unfold trialStep
  simp only [RealNum.abs_eq]
  by_cases h : |f t| < tol
  · left; exact ⟨h, by rw [if_pos h]⟩
  · right
    refine ⟨h, ?_⟩
    rw [if_neg h]
    have e0 : ((0.0 : ℝ)) = 0 := by norm_num
    by_cases h2 : f t < 0
    · have h2' : f t < (0.0 : ℝ) := by rw [e0]; exact h2
      by_cases h3 : s.b.minX < t ∧ t ≤ s.b.maxX
      · exact ⟨_, rfl, rfl, rfl, Or.inl ⟨h2, h3.1, h3.2, by simp [h2', h3]⟩⟩
      · exact ⟨_, rfl, rfl, rfl, Or.inr (Or.inr ⟨by simp [h2', h3], Or.inl ⟨h2, h3⟩⟩)⟩
    · have h2' : ¬ f t < (0.0 : ℝ) := by rw [e0]; exact h2
      by_cases h3 : t < s.b.maxX ∧ s.b.minX ≤ t
      · exact ⟨_, rfl, rfl, rfl, Or.inr (Or.inl ⟨h2, h3.1, h3.2, by simp [h2', h3]⟩)⟩
      · exact ⟨_, rfl, rfl, rfl, Or.inr (Or.inr ⟨by simp [h2', h3], Or.inr ⟨h2, h3⟩⟩)⟩


/-- a non-returning trial keeps the invariant, only shrinks the bracket, and logs the trial -/
theorem trialStep_inr {f : ℝ → ℝ} {tol conv x lo hi : ℝ} {s s' : Inner ℝ} {t : ℝ}
    (hb : BInv f lo hi s.b) (h : trialStep f tol conv x s t = .inr s') :
    BInv f lo hi s'.b ∧ Nested s.b s'.b ∧ s'.evals = t :: s.evals ∧ ¬ |f t| < tol ∧
      s'.hit = (if |x - t| < conv then s.hit + 1 else s.hit) := by
  rcases trialStep_spec f tol conv x s t with ⟨_, h'⟩ | ⟨hnt, s'', h', hev, hhit, hcase⟩
  · rw [h'] at h; cases h
  · rw [h'] at h
    cases h
    refine ⟨?_, ?_, hev, hnt, hhit⟩
    · rcases hcase with ⟨hneg, h1, h2, hb'⟩ | ⟨hpos, h1, h2, hb'⟩ | ⟨hb', _⟩
      · rw [hb']
        exact ⟨h2, le_trans hb.lo_le (le_of_lt h1), hb.le_hi, rfl, hb.dmax, le_of_lt hneg, hb.smax⟩
      · rw [hb']
        exact ⟨h2, hb.lo_le, le_trans (le_of_lt h1) hb.le_hi, hb.dmin, rfl, hb.smin, not_lt.mp hpos⟩
      · rw [hb']; exact hb
    · rcases hcase with ⟨_, h1, h2, hb'⟩ | ⟨_, h1, h2, hb'⟩ | ⟨hb', _⟩
      · rw [hb']; exact ⟨le_of_lt h1, le_refl _⟩
      · rw [hb']; exact ⟨le_refl _, le_of_lt h1⟩
      · rw [hb']; exact Nested.refl _

theorem trialStep_inl {f : ℝ → ℝ} {tol conv x : ℝ} {s s' : Inner ℝ} {t rx rd : ℝ}
    (h : trialStep f tol conv x s t = .inl (rx, rd, s')) :
    rx = t ∧ rd = f t ∧ |f t| < tol ∧ s'.b = s.b ∧ s'.evals = t :: s.evals := by
  rcases trialStep_spec f tol conv x s t with ⟨ht, h'⟩ | ⟨_, s'', h', _⟩
  · rw [h'] at h
    cases h
    exact ⟨rfl, rfl, ht, rfl, rfl⟩
  · rw [h'] at h; cases h

/-- the halving trial, when it does not return, at least halves the bracket -/
theorem trialStep_halve {f : ℝ → ℝ} {tol conv x lo hi : ℝ} {s s' : Inner ℝ}
    (hb : BInv f lo hi s.b) (h : trialStep f tol conv x s (halvingX s.b) = .inr s') :
    s'.b.maxX - s'.b.minX ≤ (s.b.maxX - s.b.minX) / 2 := by
  have hle := hb.le
  rcases trialStep_spec f tol conv x s (halvingX s.b) with ⟨_, h'⟩ | ⟨_, s'', h', _, _, hcase⟩
  · rw [h'] at h; cases h
  · rw [h'] at h
    cases h
    rw [halvingX_eq] at hcase
    rcases hcase with ⟨_, _, _, hb'⟩ | ⟨_, _, _, hb'⟩ | ⟨hb', hc⟩
    · rw [hb']; simp only; linarith
    · rw [hb']; simp only; linarith
    · rw [hb']
      rcases hc with ⟨_, hn⟩ | ⟨_, hn⟩
      · have : ¬ (s.b.minX < s.b.maxX - (s.b.maxX - s.b.minX) / 2) := by
          intro hh; exact hn ⟨hh, by linarith⟩
        linarith [not_lt.mp this]
      · have : ¬ (s.b.maxX - (s.b.maxX - s.b.minX) / 2 < s.b.maxX) := by
          intro hh; exact hn ⟨hh, by linarith⟩
        linarith [not_lt.mp this]

theorem evalsIn_cons {lo hi t : ℝ} {l : List ℝ} (ht : lo ≤ t ∧ t ≤ hi) (hl : EvalsIn lo hi l) : EvalsIn lo hi (t :: l) := by
  intro e he
  rcases List.mem_cons.mp he with rfl | he
  · exact ht
  · exact hl e he

/-- the trial loop, non-returning case -/
theorem trialLoop_inr {f : ℝ → ℝ} {tol conv x lo hi : ℝ} :
    ∀ (ts : List ℝ) (s s' : Inner ℝ), BInv f lo hi s.b → EvalsIn lo hi s.evals → (∀ t ∈ ts, lo ≤ t ∧ t ≤ hi) →
      trialLoop f tol conv x s ts = .inr s' →
      BInv f lo hi s'.b ∧ Nested s.b s'.b ∧ EvalsIn lo hi s'.evals ∧ (conv ≤ 0 → s'.hit = s.hit) := by
  intro ts
  induction ts with
  | nil =>
    intro s s' hb hev _ h
    simp only [trialLoop] at h
    cases h
    exact ⟨hb, Nested.refl _, hev, fun _ => rfl⟩
  | cons t ts ih =>
    intro s s' hb hev hts h
    simp only [trialLoop] at h
    cases hstep : trialStep f tol conv x s t with
    | inl r => rw [hstep] at h; cases h
    | inr s1 =>
      rw [hstep] at h
      obtain ⟨hb1, hn1, hev1, _, hhit1⟩ := trialStep_inr hb hstep
      have hev1' : EvalsIn lo hi s1.evals := by
        rw [hev1]; exact evalsIn_cons (hts t (List.mem_cons_self ..)) hev
      obtain ⟨hb2, hn2, hev2, hhit2⟩ := ih s1 s' hb1 hev1' (fun u hu => hts u (List.mem_cons_of_mem _ hu)) h
      refine ⟨hb2, hn1.trans hn2, hev2, fun hc => ?_⟩
      rw [hhit2 hc, hhit1]
      have : ¬ |x - t| < conv := by
        intro hh; have := abs_nonneg (x - t); linarith
      rw [if_neg this]

/-- the trial loop, returning case -/
theorem trialLoop_inl {f : ℝ → ℝ} {tol conv x lo hi : ℝ} :
    ∀ (ts : List ℝ) (s s' : Inner ℝ) (rx rd : ℝ), BInv f lo hi s.b → EvalsIn lo hi s.evals → (∀ t ∈ ts, lo ≤ t ∧ t ≤ hi) →
      trialLoop f tol conv x s ts = .inl (rx, rd, s') →
      rd = f rx ∧ |rd| < tol ∧ (lo ≤ rx ∧ rx ≤ hi) ∧ BInv f lo hi s'.b ∧ Nested s.b s'.b ∧ EvalsIn lo hi s'.evals := by
  intro ts
  induction ts with
  | nil =>
    intro s s' rx rd _ _ _ h
    simp only [trialLoop] at h
    cases h
  | cons t ts ih =>
    intro s s' rx rd hb hev hts h
    simp only [trialLoop] at h
    cases hstep : trialStep f tol conv x s t with
    | inl r =>
      rw [hstep] at h
      cases h
      obtain ⟨rfl, rfl, htol, hb', hev'⟩ := trialStep_inl hstep
      have htin := hts rx (List.mem_cons_self ..)
      refine ⟨rfl, htol, htin, ?_, ?_, ?_⟩
      · rw [hb']; exact hb
      · rw [hb']; exact Nested.refl _
      · rw [hev']; exact evalsIn_cons htin hev
    | inr s1 =>
      rw [hstep] at h
      obtain ⟨hb1, hn1, hev1, _, _⟩ := trialStep_inr hb hstep
      have hev1' : EvalsIn lo hi s1.evals := by
        rw [hev1]; exact evalsIn_cons (hts t (List.mem_cons_self ..)) hev
      obtain ⟨h1, h2, h3, h4, h5, h6⟩ := ih s1 s' rx rd hb1 hev1' (fun u hu => hts u (List.mem_cons_of_mem _ hu)) h
      exact ⟨h1, h2, h3, h4, hn1.trans h5, h6⟩

/-- when the list starts with the halving trial and the loop does not return, the bracket has at least halved -/
theorem trialLoop_halve {f : ℝ → ℝ} {tol conv x lo hi : ℝ} (rest : List ℝ) (s s' : Inner ℝ)
    (hb : BInv f lo hi s.b) (hev : EvalsIn lo hi s.evals) (hts : ∀ t ∈ halvingX s.b :: rest, lo ≤ t ∧ t ≤ hi)
    (h : trialLoop f tol conv x s (halvingX s.b :: rest) = .inr s') :
    s'.b.maxX - s'.b.minX ≤ (s.b.maxX - s.b.minX) / 2 := by
  simp only [trialLoop] at h
  cases hstep : trialStep f tol conv x s (halvingX s.b) with
  | inl r => rw [hstep] at h; cases h
  | inr s1 =>
    rw [hstep] at h
    have hhalf := trialStep_halve hb hstep
    obtain ⟨hb1, _, hev1, _, _⟩ := trialStep_inr hb hstep
    have hev1' : EvalsIn lo hi s1.evals := by
      rw [hev1]; exact evalsIn_cons (hts _ (List.mem_cons_self ..)) hev
    obtain ⟨_, hn, _, _⟩ := trialLoop_inr rest s1 s' hb1 hev1' (fun u hu => hts u (List.mem_cons_of_mem _ hu)) h
    have := hn.1; have := hn.2
    linarith

/-- the point chosen after the trial loop is a bracket end with its stored value -/
theorem pick_spec {f : ℝ → ℝ} {lo hi : ℝ} {b : Bracket ℝ} (hb : BInv f lo hi b) :
    (pick b).2 = f (pick b).1 ∧ (b.minX ≤ (pick b).1 ∧ (pick b).1 ≤ b.maxX) ∧
      |(pick b).2| ≤ |b.minDelta| ∧ |(pick b).2| ≤ b.maxDelta := by
  unfold pick
  simp only [RealNum.abs_eq]
  split_ifs with h
  · exact ⟨hb.dmin, ⟨le_refl _, hb.le⟩, le_refl _, h⟩
  · refine ⟨hb.dmax, ⟨hb.le, le_refl _⟩, ?_, ?_⟩
    · rw [abs_of_nonneg hb.smax]; exact le_of_lt (not_le.mp h)
    · rw [abs_of_nonneg hb.smax]


/-- what holds of every result of the iteration loop (no monotonicity needed) -/
structure Post (f : ℝ → ℝ) (lo hi tol : ℝ) (r : Res ℝ) : Prop where
  binv : BInv f lo hi r.b
  val : r.delta = f r.x
  xin : lo ≤ r.x ∧ r.x ≤ hi
  evals : EvalsIn lo hi r.evals
  tol : r.exit = .tol → |r.delta| < tol

theorem trials_in {f : ℝ → ℝ} {lo hi : ℝ} {b : Bracket ℝ} (hb : BInv f lo hi b) (f' : Option (ℝ → ℝ)) (x delta : ℝ) :
    ∀ t ∈ trialXs f' x delta b, lo ≤ t ∧ t ≤ hi := by
  intro t ht
  have := trialXs_mem f' x delta b hb.le t ht
  exact ⟨le_trans hb.lo_le this.1, le_trans this.2 hb.le_hi⟩

theorem iterate_post {f : ℝ → ℝ} {f' : Option (ℝ → ℝ)} {tol conv lo hi : ℝ} :
    ∀ (fuel : Nat) (x delta : ℝ) (b : Bracket ℝ) (ev dev : List ℝ) (r : Res ℝ),
      BInv f lo hi b → delta = f x → (lo ≤ x ∧ x ≤ hi) → EvalsIn lo hi ev →
      iterate f f' tol conv fuel x delta b ev dev = r → Post f lo hi tol r := by
  intro fuel
  induction fuel with
  | zero =>
    intro x delta b ev dev r hb hd hx hev hr
    simp only [iterate] at hr
    subst hr
    exact ⟨hb, hd, hx, hev, fun h => by cases h⟩
  | succ n ih =>
    intro x delta b ev dev r hb hd hx hev hr
    simp only [iterate] at hr
    have hts := trials_in hb f' x delta
    split at hr
    · rename_i rx rd s' hloop
      obtain ⟨h1, h2, h3, h4, _, h6⟩ := trialLoop_inl _ { b := b, hit := 0, evals := ev } _ _ _ hb hev hts hloop
      subst hr
      exact ⟨h4, h1, h3, h6, fun _ => h2⟩
    · rename_i s' hloop
      obtain ⟨h1, _, h3, _⟩ := trialLoop_inr _ { b := b, hit := 0, evals := ev } _ hb hev hts hloop
      obtain ⟨p1, p2, _, _⟩ := pick_spec h1
      have hpx : lo ≤ (pick s'.b).1 ∧ (pick s'.b).1 ≤ hi := ⟨le_trans h1.lo_le p2.1, le_trans p2.2 h1.le_hi⟩
      split at hr
      · subst hr
        exact ⟨h1, p1, hpx, h3, fun h => by cases h⟩
      · exact ih _ _ _ _ _ _ h1 p1 hpx h3 hr

/-- after `fuel` completed iterations the bracket is at most `width / 2^fuel` wide -/
theorem iterate_width {f : ℝ → ℝ} {f' : Option (ℝ → ℝ)} {tol conv lo hi : ℝ} :
    ∀ (fuel : Nat) (x delta : ℝ) (b : Bracket ℝ) (ev dev : List ℝ) (r : Res ℝ),
      BInv f lo hi b → EvalsIn lo hi ev →
      iterate f f' tol conv fuel x delta b ev dev = r → r.exit = .fuel →
      r.b.maxX - r.b.minX ≤ (b.maxX - b.minX) / 2 ^ fuel := by
  intro fuel
  induction fuel with
  | zero =>
    intro x delta b ev dev r _ _ hr _
    simp only [iterate] at hr
    subst hr
    simp only [pow_zero, div_one]
    exact le_refl _
  | succ n ih =>
    intro x delta b ev dev r hb hev hr
    simp only [iterate] at hr
    have hts := trials_in hb f' x delta
    obtain ⟨rest, hrest⟩ := trialXs_head f' x delta b
    split at hr
    · subst hr; intro h; cases h
    · rename_i s' hloop
      obtain ⟨h1, _, h3, _⟩ := trialLoop_inr _ { b := b, hit := 0, evals := ev } _ hb hev hts hloop
      have hhalf : s'.b.maxX - s'.b.minX ≤ (b.maxX - b.minX) / 2 := by
        rw [hrest] at hloop hts
        exact trialLoop_halve (secantX b :: rest) { b := b, hit := 0, evals := ev } s' hb hev hts hloop
      split at hr
      · subst hr; intro h; cases h
      · intro hexit
        have := ih _ _ _ _ _ _ h1 h3 hr hexit
        refine le_trans this ?_
        rw [pow_succ', ← div_div]
        have h2n : (0 : ℝ) < 2 ^ n := by positivity
        exact div_le_div_of_nonneg_right hhalf (le_of_lt h2n)

/-- unless it returned on the tolerance test, after at least one iteration the result is the `pick` of the final bracket -/
theorem iterate_pick {f : ℝ → ℝ} {f' : Option (ℝ → ℝ)} {tol conv : ℝ} :
    ∀ (fuel : Nat) (x delta : ℝ) (b : Bracket ℝ) (ev dev : List ℝ) (r : Res ℝ),
      (fuel = 0 → (x, delta) = pick b) →
      iterate f f' tol conv fuel x delta b ev dev = r → r.exit ≠ .tol →
      (r.x, r.delta) = pick r.b := by
  intro fuel
  induction fuel with
  | zero =>
    intro x delta b ev dev r h0 hr _
    simp only [iterate] at hr
    subst hr
    exact h0 rfl
  | succ n ih =>
    intro x delta b ev dev r _ hr
    simp only [iterate] at hr
    split at hr
    · subst hr; intro h; exact absurd rfl h
    · split at hr
      · subst hr; intro _; rfl
      · intro hexit
        exact ih _ _ _ _ _ _ (fun _ => rfl) hr hexit

/-- with the convergence-limit test disabled (`conv ≤ 0`) that exit is never taken -/
theorem iterate_no_conv {f : ℝ → ℝ} {f' : Option (ℝ → ℝ)} {tol conv lo hi : ℝ} (hc : conv ≤ 0) :
    ∀ (fuel : Nat) (x delta : ℝ) (b : Bracket ℝ) (ev dev : List ℝ) (r : Res ℝ),
      BInv f lo hi b → EvalsIn lo hi ev →
      iterate f f' tol conv fuel x delta b ev dev = r → r.exit ≠ .conv := by
  intro fuel
  induction fuel with
  | zero =>
    intro x delta b ev dev r _ _ hr
    simp only [iterate] at hr
    subst hr
    intro h; cases h
  | succ n ih =>
    intro x delta b ev dev r hb hev hr
    simp only [iterate] at hr
    have hts := trials_in hb f' x delta
    obtain ⟨rest, hrest⟩ := trialXs_head f' x delta b
    split at hr
    · subst hr; intro h; cases h
    · rename_i s' hloop
      obtain ⟨h1, _, h3, h4⟩ := trialLoop_inr _ { b := b, hit := 0, evals := ev } _ hb hev hts hloop
      have hhit : s'.hit = 0 := h4 hc
      split at hr
      · rename_i hh
        rw [hhit, hrest] at hh
        simp at hh
      · exact ih _ _ _ _ _ _ h1 h3 hr


/-! ### the wrapper `findRoot` -/

section wrapper
variable {f : ℝ → ℝ} {f' : Option (ℝ → ℝ)} {x0 lo hi tol conv : ℝ} {n : Nat}

/-- Without a bracketed root the Go code panics ("Invalid range"); with one it runs the iteration loop. -/
theorem findRoot_eq (h1 : f lo ≤ 0) (h2 : 0 ≤ f hi) :
    findRoot f f' x0 lo hi tol conv n =
      .ok (iterate f f' tol conv n x0 (f x0) ⟨lo, f lo, hi, f hi⟩ [lo, hi, x0] []) := by
  unfold findRoot
  simp only [RealNum.ofNat_eq, Nat.cast_zero]
  rw [if_neg (by rintro (h | h) <;> linarith)]

theorem init_binv (hle : lo ≤ hi) (h1 : f lo ≤ 0) (h2 : 0 ≤ f hi) : BInv f lo hi ⟨lo, f lo, hi, f hi⟩ :=
  ⟨hle, le_refl _, le_refl _, rfl, rfl, h1, h2⟩

theorem init_evals (hle : lo ≤ hi) (hx0 : lo ≤ x0 ∧ x0 ≤ hi) : EvalsIn lo hi [lo, hi, x0] := by
  intro e he
  simp only [List.mem_cons, List.not_mem_nil, or_false] at he
  rcases he with rfl | rfl | rfl
  · exact ⟨le_refl _, hle⟩
  · exact ⟨hle, le_refl _⟩
  · exact hx0

theorem post (hle : lo ≤ hi) (h1 : f lo ≤ 0) (h2 : 0 ≤ f hi) (hx0 : lo ≤ x0 ∧ x0 ≤ hi) {r : Res ℝ}
    (hr : findRoot f f' x0 lo hi tol conv n = .ok r) : Post f lo hi tol r := by
  rw [findRoot_eq h1 h2] at hr
  cases hr
  exact iterate_post _ _ _ _ _ _ _ (init_binv hle h1 h2) rfl hx0 (init_evals hle hx0) rfl

end wrapper

theorem trialStep_accept (f : ℝ → ℝ) (tol conv x : ℝ) (s : Inner ℝ) (t : ℝ) (h : |f t| < tol) :
    trialStep f tol conv x s t = .inl (t, f t, { s with evals := t :: s.evals }) := by
  rcases trialStep_spec f tol conv x s t with ⟨_, h'⟩ | ⟨hn, _⟩
  · exact h'
  · exact absurd h hn


end OW.Proofs.FindRoot
