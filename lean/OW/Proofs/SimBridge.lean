import OW.Proofs.SimWriter
import OW.Proofs.SimGraph
/-!
C07: every run of the writer-protocol transition system (OW/Sim/Writer.lean) projects to a schedule of main-loop and
writer actions that the data-level theorem accepts (`SafeComplete`). Core Lean only.

Projection: `spawn g` ↦ `run g` (the main loop spawns W(g) right after `runGeneration(g)`), `links g` ↦ `links g`,
`wdone g` ↦ `write g`, `purge h k` ↦ `purge k`; the channel operations move no data.
-/
set_option linter.unusedSectionVars false

namespace OW.Sim.Writer
open OW.Sim

def project : Label → List Act
  | .spawn g => [.run g]
  | .links g => [.links g]
  | .wdone g => [.write g]
  | .purge _ k => [.purge k]
  | _ => []

/-- a finite run of the transition system -/
inductive Run (G : Nat) : State → List Label → State → Prop where
  | nil (s : State) : Run G s [] s
  | cons {s s' s'' : State} {l : Label} {ls : List Label} : step G s l = some s' → Run G s' ls s'' → Run G s (l :: ls) s''

/-- the schedule progress that corresponds to a protocol state -/
structure SimRel (G : Nat) (s : State) (p : Prog) : Prop where
  ran : p.ran = spawned G s.mpc
  linked : p.linked = applied G s.mpc
  written : ∀ k, p.written k = decide (0 < s.writes k)
  purged : ∀ k, p.purged k = decide (0 < s.purges k)

theorem simrel_init (G : Nat) : SimRel G init Prog.init :=
  ⟨rfl, rfl, fun k => by simp [init, Prog.init], fun k => by simp [init, Prog.init]⟩

/-- channel operations and pc-only steps leave the schedule progress unchanged -/
theorem step_frame {G : Nat} {s s' : State} {l : Label} (h : step G s l = some s') (hp : project l = []) :
    s'.writes = s.writes ∧ s'.purges = s.purges ∧ spawned G s'.mpc = spawned G s.mpc ∧
      applied G s'.mpc = applied G s.mpc := by
  cases l with
  | spawn g => simp [project] at hp
  | links g => simp [project] at hp
  | wdone g => simp [project] at hp
  | purge a b => simp [project] at hp
  | wstart g =>
    simp only [step] at h; split at h
    · cases h; exact ⟨rfl, rfl, rfl, rfl⟩
    · cases h
  | sent g =>
    simp only [step] at h; split at h
    · cases h; exact ⟨rfl, rfl, rfl, rfl⟩
    · cases h
  | resent a b =>
    simp only [step] at h; split at h
    · cases h; exact ⟨rfl, rfl, rfl, rfl⟩
    · cases h
  | recv r k c =>
    simp only [step] at h; split at h
    · split at h
      · rename_i s1 heq
        cases h
        cases c with
        | own =>
          simp only [takeFrom] at heq; split at heq
          · cases heq; exact ⟨rfl, rfl, rfl, rfl⟩
          · cases heq
        | bouncer b =>
          simp only [takeFrom] at heq; split at heq
          · cases heq; exact ⟨rfl, rfl, rfl, rfl⟩
          · cases heq
        | main =>
          simp only [takeFrom] at heq; split at heq
          · rename_i hm; cases heq
            refine ⟨rfl, rfl, ?_, ?_⟩
            · show spawned G .final = spawned G s.mpc; rw [hm]; rfl
            · show applied G .final = applied G s.mpc; rw [hm]; rfl
          · cases heq
      · cases h
    · cases h
  | mrecv k c =>
    simp only [step] at h; split at h
    · rename_i hm
      split at h
      · rename_i s1 heq
        cases h
        have e1 : spawned G (if k + 1 = G then MPc.exited else MPc.hold k) = spawned G s.mpc := by
          rw [hm]; split <;> rfl
        have e2 : applied G (if k + 1 = G then MPc.exited else MPc.hold k) = applied G s.mpc := by
          rw [hm]; split <;> rfl
        cases c with
        | own =>
          simp only [takeFrom] at heq; split at heq
          · cases heq; exact ⟨rfl, rfl, e1, e2⟩
          · cases heq
        | bouncer b =>
          simp only [takeFrom] at heq; split at heq
          · cases heq; exact ⟨rfl, rfl, e1, e2⟩
          · cases heq
        | main =>
          simp only [takeFrom] at heq; split at heq
          · rename_i hm'; rw [hm] at hm'; cases hm'
          · cases heq
      · cases h
    · cases h

theorem progRun_single (G : Nat) (p p' : Prog) (a : Act) (h : progStep G p a = some p') : progRun G p [a] = some p' := by
  simp [progRun, h]

/-- one protocol transition = the projected schedule actions are allowed, and the correspondence is kept -/
theorem sim_step {G : Nat} {s s' : State} {w : Nat} {hd : Option (Nat × WPc)} {p : Prog} {l : Label}
    (I : InvP G s w hd) (R : SimRel G s p) (h : step G s l = some s') :
    ∃ p', progRun G p (project l) = some p' ∧ SimRel G s' p' := by
  cases l with
  | spawn g =>
    simp only [step] at h; split at h
    · rename_i hc; obtain ⟨hm, hg, _⟩ := hc; cases h
      have hr : p.ran = g := by rw [R.ran, hm]; rfl
      have hl : p.linked = g := by rw [R.linked, hm]; rfl
      refine ⟨{ p with ran := g + 1 }, progRun_single _ _ _ _ ?_, ⟨rfl, ?_, R.written, R.purged⟩⟩
      · simp only [progStep]; rw [if_pos ⟨hr.symm, hl, hg⟩]
      · show p.linked = applied G (.links g); rw [hl]; rfl
    · cases h
  | links g =>
    simp only [step] at h; split at h
    · rename_i hm; cases h
      have hgG : g < G := by have := I.mok; rw [hm] at this; exact this
      have hr : p.ran = g + 1 := by rw [R.ran, hm]; rfl
      have hl : p.linked = g := by rw [R.linked, hm]; rfl
      refine ⟨{ p with linked := g + 1 }, progRun_single _ _ _ _ ?_, ⟨?_, ?_, R.written, R.purged⟩⟩
      · simp only [progStep]; rw [if_pos ⟨hr.symm, hl⟩]
      · show p.ran = spawned G (if g + 1 < G then MPc.run (g + 1) else MPc.final)
        rw [hr]; split
        · rfl
        · simp [spawned]; omega
      · show g + 1 = applied G (if g + 1 < G then MPc.run (g + 1) else MPc.final)
        split
        · rfl
        · simp [applied]; omega
    · cases h
  | wdone g =>
    simp only [step] at h; split at h
    · rename_i hc; cases h
      have := holder_of_active I hc.2 trivial
      subst this
      obtain ⟨h1, _, h3⟩ := I.hok
      obtain ⟨e, _⟩ := h3
      subst e
      have hw0 : s.writes g = 0 := by rw [I.writes g]; simp
      have hp0 : ¬ (0 < s.purges g) := fun a => by have := (I.purges g a).1; omega
      refine ⟨{ p with written := upd p.written g true }, progRun_single _ _ _ _ ?_, ⟨R.ran, R.linked, ?_, R.purged⟩⟩
      · simp only [progStep]
        rw [if_pos ⟨by rw [R.ran]; exact h1, by rw [R.written, hw0]; simp, by rw [R.purged]; simp [hp0]⟩]
      · intro k
        show upd p.written g true k = decide (0 < upd s.writes g (s.writes g + 1) k)
        by_cases e : k = g
        · simp [upd, e]
        · simp only [upd, e, if_false]; exact R.written k
    · cases h
  | purge a k =>
    simp only [step] at h; split at h
    · rename_i hc; cases h
      have := holder_of_active I hc.2 trivial
      subst this
      obtain ⟨h1, _, h3⟩ := I.hok
      obtain ⟨e, hwa⟩ := h3
      have hsa := spawned_le_applied G s.mpc
      have hw1 : s.writes k = 1 := by rw [I.writes k]; simp; omega
      refine ⟨{ p with purged := upd p.purged k true }, progRun_single _ _ _ _ ?_, ⟨R.ran, R.linked, R.written, ?_⟩⟩
      · simp only [progStep]
        rw [if_pos ⟨by rw [R.written, hw1]; simp, by rw [R.linked]; omega⟩]
      · intro k'
        show upd p.purged k true k' = decide (0 < upd s.purges k (s.purges k + 1) k')
        by_cases e' : k' = k
        · simp [upd, e']
        · simp only [upd, e', if_false]; exact R.purged k'
    · cases h
  | wstart g =>
    obtain ⟨a, b, c, d⟩ := step_frame h rfl
    exact ⟨p, rfl, ⟨by rw [c]; exact R.ran, by rw [d]; exact R.linked, by rw [a]; exact R.written, by rw [b]; exact R.purged⟩⟩
  | sent g =>
    obtain ⟨a, b, c, d⟩ := step_frame h rfl
    exact ⟨p, rfl, ⟨by rw [c]; exact R.ran, by rw [d]; exact R.linked, by rw [a]; exact R.written, by rw [b]; exact R.purged⟩⟩
  | resent x y =>
    obtain ⟨a, b, c, d⟩ := step_frame h rfl
    exact ⟨p, rfl, ⟨by rw [c]; exact R.ran, by rw [d]; exact R.linked, by rw [a]; exact R.written, by rw [b]; exact R.purged⟩⟩
  | recv x y z =>
    obtain ⟨a, b, c, d⟩ := step_frame h rfl
    exact ⟨p, rfl, ⟨by rw [c]; exact R.ran, by rw [d]; exact R.linked, by rw [a]; exact R.written, by rw [b]; exact R.purged⟩⟩
  | mrecv x y =>
    obtain ⟨a, b, c, d⟩ := step_frame h rfl
    exact ⟨p, rfl, ⟨by rw [c]; exact R.ran, by rw [d]; exact R.linked, by rw [a]; exact R.written, by rw [b]; exact R.purged⟩⟩

theorem sim_run {G : Nat} {s s'' : State} {ls : List Label} (hr : Run G s ls s'') :
    ∀ (p : Prog), Inv G s → SimRel G s p →
      ∃ p'', progRun G p (ls.flatMap project) = some p'' ∧ SimRel G s'' p'' ∧ Inv G s'' := by
  induction hr with
  | nil s => intro p hI R; exact ⟨p, rfl, R, hI⟩
  | cons hs _ ih =>
    intro p hI R
    obtain ⟨w, hd, I⟩ := hI
    obtain ⟨p1, h1, R1⟩ := sim_step I R hs
    obtain ⟨p2, h2, R2, I2⟩ := ih p1 (inv_step ⟨w, hd, I⟩ hs) R1
    refine ⟨p2, ?_, R2, I2⟩
    rw [List.flatMap_cons, progRun_append, h1]
    exact h2

/-- every complete run of the writer protocol (from the initial state to a state in which the main goroutine has
exited) projects to a schedule that respects the data-level protocol and is complete -/
theorem run_safeComplete {G : Nat} (hG : 1 ≤ G) {s : State} {ls : List Label} (hr : Run G init ls s)
    (he : s.mpc = .exited) : SafeComplete G (ls.flatMap project) := by
  obtain ⟨p, hp, R, hI⟩ := sim_run hr Prog.init (inv_init hG) (simrel_init G)
  have ht := exited_terminal hI he
  refine ⟨p, hp, by rw [R.ran, he]; rfl, by rw [R.linked, he]; rfl, ?_⟩
  intro k hk
  simp only [terminal, he, decide_true, Bool.true_and, List.all_eq_true, List.mem_range] at ht
  have := ht k hk
  simp only [Bool.and_eq_true, decide_eq_true_eq] at this
  rw [R.written, this.1.2]; simp

end OW.Sim.Writer
