import OW.Proofs.SimGraph
/-!
C07 — footprints of the main loop's actions on the generation objects (`SimState.gens`).

`OW/Sim/Graph.lean` treats `write g` (a writer goroutine's `WriteData` of generation `g`) as ONE atomic action although
the real goroutine runs concurrently with the main loop. This is justified by what the main loop touches while a writer
is at work (`writer_no_conflict`: the main loop is then at `run i` with `i > g`, or at `links i` with `i ≥ g`):
* `run i` changes `gens m k` only for `k = i` (`run_footprint`);
* `links i` changes `gens m k` only for the destination generations of the links it applies — all `> i` — and LOADS a
  source generation that is not cached; in every state a protocol-respecting schedule reaches, generation `i` is cached
  and the links still to be applied have source generation `≥ i`, so nothing `≤ i` is touched (`links_footprint`,
  `links_footprint_reachable`).
Hence the generation object a writer reads is not written by the main loop during the whole write, and every
interleaving of the write's reads with those main-loop actions gives what the atomic action gives (C05 T1).
-/
namespace OW.Sim
variable {α : Type} [Num α]

/-! ### `run i` -/

theorem runModelGen_gens (run : RunFn α) (g : Graph α) (i : Nat) (s : SimState α) (m' m k : Nat) (hk : k ≠ i) :
    (runModelGen run g i s m').gens m k = s.gens m k := by
  unfold runModelGen getGeneration
  cases h : s.gens m' i with
  | some d =>
    simp only []
    split
    · rfl
    · simp [upd2, hk]
  | none =>
    simp only []
    split
    · simp [upd2, hk]
    · simp [upd2, hk]

theorem foldl_runModelGen_gens (run : RunFn α) (g : Graph α) (i m k : Nat) (hk : k ≠ i) :
    ∀ (l : List Nat) (s : SimState α), (l.foldl (runModelGen run g i) s).gens m k = s.gens m k := by
  intro l
  induction l with
  | nil => intro s; rfl
  | cons a rest ih =>
    intro s
    simp only [List.foldl_cons]
    rw [ih, runModelGen_gens run g i s a m k hk]

/-- **footprint of `run i`**: the generation objects of every other generation are untouched (in particular those of
the generations `< i` a writer may be writing or purging) -/
theorem run_footprint (run : RunFn α) (g : Graph α) (i : Nat) (s : SimState α) (m k : Nat) (hk : k ≠ i) :
    (exec run g s (.run i)).gens m k = s.gens m k :=
  foldl_runModelGen_gens run g i m k hk _ s

/-! ### `links i` -/

/-- one link touches the destination generation object (adds to its inputs) and, when it is not cached, loads the
source generation object; nothing else -/
theorem applyLink_gens (g : Graph α) (s : SimState α) (l : Link) (m k : Nat)
    (hd : ¬ (l.destModel = m ∧ l.destGen = k))
    (hs : l.srcModel = m ∧ l.srcGen = k → (s.gens m k).isSome = true) :
    (applyLink g s l).gens m k = s.gens m k := by
  have hd' : ¬ (m = l.destModel ∧ k = l.destGen) := fun h => hd ⟨h.1.symm, h.2.symm⟩
  unfold applyLink getGeneration
  cases h1 : s.gens l.srcModel l.srcGen with
  | some d1 =>
    simp only []
    cases h2 : s.gens l.destModel l.destGen with
    | some d2 => simp [upd2, hd']
    | none => simp [upd2, hd']
  | none =>
    have hne : ¬ (m = l.srcModel ∧ k = l.srcGen) := by
      intro h
      have := hs ⟨h.1.symm, h.2.symm⟩
      rw [h.1, h.2, h1] at this
      simp at this
    simp only []
    cases h2 : upd2 s.gens l.srcModel l.srcGen (some (loadGeneration g l.srcModel l.srcGen)) l.destModel l.destGen with
    | some d2 => simp [upd2, hd', hne]
    | none => simp [upd2, hd', hne]

theorem processLinksFrom_gens (g : Graph α) (i m k : Nat) :
    ∀ (ls : List Link) (s : SimState α),
      (∀ l ∈ ls, ¬ (l.destModel = m ∧ l.destGen = k)) →
      (∀ l ∈ ls, l.srcModel = m ∧ l.srcGen = k → (s.gens m k).isSome = true) →
      (processLinksFrom g i ls s).gens m k = s.gens m k := by
  intro ls
  induction ls with
  | nil => intro s _ _; rfl
  | cons l rest ih =>
    intro s hd hs
    simp only [processLinksFrom]
    split
    · rfl
    · have h1 := applyLink_gens g s l m k (hd l (List.mem_cons_self ..)) (hs l (List.mem_cons_self ..))
      rw [ih (applyLink g s l) (fun l' hl' => hd l' (List.mem_cons_of_mem _ hl'))
        (fun l' hl' hsrc => by rw [h1]; exact hs l' (List.mem_cons_of_mem _ hl') hsrc), h1]

/-- **footprint of `links i`**: if the links still to be applied have source generation `≥ i` (the cursor invariant) and
generation `i` is cached for every model (it has just run), the generation objects of ALL generations `≤ i` are
untouched: the loop only adds to inputs of generations `> i`. -/
theorem links_footprint (run : RunFn α) {g : Graph α} (hv : ValidGraph g) (i : Nat) (s : SimState α)
    (hcur : ∀ l ∈ g.links.drop s.nextLink, i ≤ l.srcGen)
    (hloaded : ∀ m, m < g.models.length → (s.gens m i).isSome = true) (m k : Nat) (hk : k ≤ i) :
    (exec run g s (.links i)).gens m k = s.gens m k := by
  show (processLinksFrom g i (g.links.drop s.nextLink) s).gens m k = s.gens m k
  apply processLinksFrom_gens
  · intro l hl hdst
    have hlg : l ∈ g.links := List.mem_of_mem_drop hl
    have h1 := (hv.link hlg).1
    have h2 := hcur l hl
    omega
  · intro l hl hsrc
    have hlg : l ∈ g.links := List.mem_of_mem_drop hl
    have h2 := hcur l hl
    have hki : k = i := by omega
    have hm : m < g.models.length := by rw [← hsrc.1]; exact (hv.link hlg).2.2.1
    rw [hki]
    exact hloaded m hm

/-- … and the two hypotheses hold whenever `links i` is the next action of a protocol-respecting schedule: in every
state `s` reached by such a schedule (`SInv`), if the protocol admits `links i` now, then `links i` leaves the
generation objects of all generations `≤ i` untouched. -/
theorem links_footprint_reachable (run : RunFn α) {g : Graph α} (hv : ValidGraph g) {p p' : Prog} {s : SimState α}
    {i : Nat} (h : SInv run g p s) (hs : progStep g.genCount p (.links i) = some p') (m k : Nat) (hk : k ≤ i) :
    (exec run g s (.links i)).gens m k = s.gens m k := by
  simp only [progStep] at hs
  split at hs
  · rename_i hc
    obtain ⟨hran, hlinked⟩ := hc
    obtain ⟨pre, post, hsplit, _, hpost, hI⟩ := h.ex
    apply links_footprint run hv i s
    · intro l hl
      have : g.links.drop s.nextLink = post := by
        rw [hI.cursor, hsplit, List.drop_left']
        rfl
      rw [this] at hl
      have := hpost l hl
      omega
    · intro m' hm'
      have hnp : p.purged i = false := by
        cases hpi : p.purged i with
        | false => rfl
        | true => have := (h.pinv.pw i hpi).2; omega
      obtain ⟨d, hd, _⟩ := hI.fin m' i hm' (by omega) hnp
      rw [hd]; rfl
    · exact hk
  · cases hs

/-- `run i` admitted by the protocol: same statement, for all generations `< i` (immediate from `run_footprint`) -/
theorem run_footprint_lt (run : RunFn α) (g : Graph α) (i : Nat) (s : SimState α) (m k : Nat) (hk : k < i) :
    (exec run g s (.run i)).gens m k = s.gens m k :=
  run_footprint run g i s m k (by omega)

end OW.Sim
