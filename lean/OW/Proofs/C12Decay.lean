import OW.Proofs.C12Scan
import OW.Kernels.ConstituentDecay
import OW.Kernels.InstreamCoarseSediment
import OW.Kernels.StorageTrapAll
import Mathlib.Tactic.NormNum
import Mathlib.Tactic.LinearCombination
/-!
C12 helpers: `constituentDecay`, `instreamCoarseSediment`, `storageTrapAll` over ℝ.
-/
namespace OW.C12
open OW OW.Kernels

/-- the half-life block: decayed + remaining = stored; the reported rate × Δt is the decayed mass (Δt ≠ 0 is the
divisor of `decayedAmount/deltaT`; `halflife > 0` on the branch that divides by it); all parts non-negative. -/
theorem decay_facts (hl dt s : ℝ) (hdt : dt ≠ 0) :
    (ConstituentDecay.decay hl dt s).1 + (ConstituentDecay.decay hl dt s).2.2 = s ∧
    (ConstituentDecay.decay hl dt s).2.1 * dt = (ConstituentDecay.decay hl dt s).1 ∧
    (0 ≤ dt → 0 ≤ s → 0 ≤ (ConstituentDecay.decay hl dt s).1 ∧ 0 ≤ (ConstituentDecay.decay hl dt s).2.1 ∧
      0 ≤ (ConstituentDecay.decay hl dt s).2.2) := by
  unfold ConstituentDecay.decay
  split_ifs with h
  · realnum
    have h2 : ((2.0 : ℝ)) = 2 := by norm_num
    rw [h2]
    generalize hf : (2:ℝ) ^ (-dt / hl) = f
    refine ⟨by ring, div_mul_cancel₀ _ hdt, fun a b => ?_⟩
    have hfpos : 0 < f := by rw [← hf]; exact Real.rpow_pos_of_pos (by norm_num) _
    have hfle : f ≤ 1 := by
      rw [← hf]
      apply Real.rpow_le_one_of_one_le_of_nonpos (by norm_num)
      apply div_nonpos_of_nonpos_of_nonneg (by linarith) (le_of_lt h)
    have h1 : 0 ≤ (1 - f) * s := mul_nonneg (by linarith) b
    exact ⟨h1, div_nonneg h1 a, mul_nonneg b (le_of_lt hfpos)⟩
  · realnum
    have h0 : ((0.0 : ℝ)) = 0 := by norm_num
    rw [h0]
    exact ⟨by ring, by ring, fun _ b => ⟨le_refl _, le_refl _, b⟩⟩

/-- one step of the decay model -/
theorem decay_step (hl dt s il ll qi q v : ℝ) (hdt : dt ≠ 0) :
    s + (il * dt + ll * dt) =
      (ConstituentDecay.step hl dt s (il, ll, qi, q, v)).1 +
      ((ConstituentDecay.step hl dt s (il, ll, qi, q, v)).2.outflowLoad * dt +
       (ConstituentDecay.step hl dt s (il, ll, qi, q, v)).2.decayedLoad * dt +
       (ConstituentDecay.step hl dt s (il, ll, qi, q, v)).2.flushed) ∧
    ((ConstituentDecay.step hl dt s (il, ll, qi, q, v)).2.flushed ≠ 0 → q * dt + v < 0.01) ∧
    (0 ≤ dt → 0 ≤ s → 0 ≤ il → 0 ≤ ll → 0 ≤ q → 0 ≤ v →
      0 ≤ (ConstituentDecay.step hl dt s (il, ll, qi, q, v)).1 ∧
      0 ≤ (ConstituentDecay.step hl dt s (il, ll, qi, q, v)).2.outflowLoad ∧
      0 ≤ (ConstituentDecay.step hl dt s (il, ll, qi, q, v)).2.decayedLoad ∧
      0 ≤ (ConstituentDecay.step hl dt s (il, ll, qi, q, v)).2.flushed) := by
  obtain ⟨d1, d2, d3⟩ := decay_facts hl dt s hdt
  unfold ConstituentDecay.step
  simp only []
  generalize ConstituentDecay.decay hl dt s = d at d1 d2 d3 ⊢
  obtain ⟨da, dl, s1⟩ := d
  simp only [] at d1 d2 d3 ⊢
  have h0 : ((0.0 : ℝ)) = 0 := by norm_num
  split_ifs with h
  · simp only [ConstituentDecay.minimumVolume] at h
    realnum
    rw [h0]
    refine ⟨by linarith, fun _ => h, fun a b c e f g => ?_⟩
    obtain ⟨n1, n2, n3⟩ := d3 a b
    have := mul_nonneg c a
    have := mul_nonneg e a
    exact ⟨le_refl _, le_refl _, n2, by linarith⟩
  · simp only [ConstituentDecay.minimumVolume] at h
    realnum
    have hwv : (0:ℝ) < q * dt + v := by
      have : (0.01:ℝ) ≤ q * dt + v := not_lt.mp h
      norm_num at this; linarith
    have hne : q * dt + v ≠ 0 := ne_of_gt hwv
    generalize hc : (s1 + il * dt + ll * dt) / (q * dt + v) = conc
    have key : conc * (q * dt + v) = s1 + il * dt + ll * dt := by
      rw [← hc]; exact div_mul_cancel₀ _ hne
    refine ⟨by linarith, fun hf => absurd rfl hf, fun a b c e f g => ?_⟩
    obtain ⟨n1, n2, n3⟩ := d3 a b
    have hwm : 0 ≤ s1 + il * dt + ll * dt := by
      have := mul_nonneg c a
      have := mul_nonneg e a
      linarith
    have hconc : 0 ≤ conc := by rw [← hc]; exact div_nonneg hwm (le_of_lt hwv)
    refine ⟨?_, mul_nonneg hconc f, n2, le_refl _⟩
    have : s1 + il * dt + ll * dt - conc * q * dt = conc * v := by linear_combination (-1 : ℝ) * key
    rw [this]; exact mul_nonneg hconc g

theorem decay_run (hl dt s0 : ℝ) (xs : List (ℝ × ℝ × ℝ × ℝ × ℝ)) (hdt : dt ≠ 0) :
    s0 + (xs.map fun x => x.1 * dt + x.2.1 * dt).sum =
      (ConstituentDecay.run hl dt s0 xs).1 +
        ((ConstituentDecay.run hl dt s0 xs).2.map fun o => o.outflowLoad * dt + o.decayedLoad * dt + o.flushed).sum ∧
    List.Forall₂ (fun x o => o.flushed ≠ 0 → x.2.2.2.1 * dt + x.2.2.2.2 < 0.01) xs
      (ConstituentDecay.run hl dt s0 xs).2 := by
  have h := scan_budget (ConstituentDecay.step hl dt) (fun _ => True) (fun _ => True) id
    (fun x => x.1 * dt + x.2.1 * dt) (fun o => o.outflowLoad * dt + o.decayedLoad * dt + o.flushed)
    (fun x o => o.flushed ≠ 0 → x.2.2.2.1 * dt + x.2.2.2.2 < 0.01)
    (by
      rintro s ⟨il, ll, qi, q, v⟩ _ _
      exact ⟨trivial, (decay_step hl dt s il ll qi q v hdt).1, (decay_step hl dt s il ll qi q v hdt).2.1⟩)
    xs s0 trivial (fun _ _ => trivial)
  exact ⟨h.2.1, h.2.2⟩

theorem decay_run_nonneg (hl dt s0 : ℝ) (xs : List (ℝ × ℝ × ℝ × ℝ × ℝ)) (hdt : 0 < dt) (hs : 0 ≤ s0)
    (hx : ∀ x ∈ xs, 0 ≤ x.1 ∧ 0 ≤ x.2.1 ∧ 0 ≤ x.2.2.2.1 ∧ 0 ≤ x.2.2.2.2) :
    0 ≤ (ConstituentDecay.run hl dt s0 xs).1 ∧
    ∀ o ∈ (ConstituentDecay.run hl dt s0 xs).2, 0 ≤ o.outflowLoad ∧ 0 ≤ o.decayedLoad ∧ 0 ≤ o.flushed := by
  have h := scan_budget (ConstituentDecay.step hl dt) (fun s => 0 ≤ s)
    (fun x => 0 ≤ x.1 ∧ 0 ≤ x.2.1 ∧ 0 ≤ x.2.2.2.1 ∧ 0 ≤ x.2.2.2.2) (fun _ => 0) (fun _ => 0) (fun _ => 0)
    (fun _ o => 0 ≤ o.outflowLoad ∧ 0 ≤ o.decayedLoad ∧ 0 ≤ o.flushed)
    (by
      rintro s ⟨il, ll, qi, q, v⟩ hs ⟨a, b, c, d⟩
      obtain ⟨n1, n2, n3, n4⟩ := (decay_step hl dt s il ll qi q v (ne_of_gt hdt)).2.2 (le_of_lt hdt) hs a b c d
      exact ⟨n1, by simp, n2, n3, n4⟩)
    xs s0 hs hx
  exact ⟨h.1, forall₂_imp_forall_right
    (P := fun (o : ConstituentDecay.Out ℝ) => 0 ≤ o.outflowLoad ∧ 0 ≤ o.decayedLoad ∧ 0 ≤ o.flushed) (fun _ _ h => h) h.2.2⟩

/-! ### coarse sediment -/

theorem coarse_step (dt cs sm a b c : ℝ) :
    cs + sm + (a + b + c) * dt =
      (InstreamCoarseSediment.step dt (cs, sm) (a, b, c)).1.1 + (InstreamCoarseSediment.step dt (cs, sm) (a, b, c)).1.2 +
        (InstreamCoarseSediment.step dt (cs, sm) (a, b, c)).2.loadDownstream * dt ∧
    (InstreamCoarseSediment.step dt (cs, sm) (a, b, c)).1.1 =
      cs + (InstreamCoarseSediment.step dt (cs, sm) (a, b, c)).2.deposited ∧
    (InstreamCoarseSediment.step dt (cs, sm) (a, b, c)).2.loadDownstream = 0 ∧
    (InstreamCoarseSediment.step dt (cs, sm) (a, b, c)).1.2 = 0 ∧
    (0 ≤ dt → 0 ≤ cs → 0 ≤ sm → 0 ≤ a → 0 ≤ b → 0 ≤ c →
      0 ≤ (InstreamCoarseSediment.step dt (cs, sm) (a, b, c)).1.1 ∧
      0 ≤ (InstreamCoarseSediment.step dt (cs, sm) (a, b, c)).2.deposited) := by
  unfold InstreamCoarseSediment.step
  simp only []
  realnum
  have h0 : ((0.0 : ℝ)) = 0 := by norm_num
  rw [h0]
  refine ⟨by ring, trivial, rfl, rfl, fun h1 h2 h3 h4 h5 h6 => ?_⟩
  have := mul_nonneg (add_nonneg (add_nonneg h4 h5) h6) h1
  exact ⟨by linarith, by linarith⟩

theorem coarse_run (dt : ℝ) (st : ℝ × ℝ) (xs : List (ℝ × ℝ × ℝ)) :
    st.1 + st.2 + (xs.map fun x => (x.1 + x.2.1 + x.2.2) * dt).sum =
      (InstreamCoarseSediment.run dt st xs).1.1 + (InstreamCoarseSediment.run dt st xs).1.2 +
        ((InstreamCoarseSediment.run dt st xs).2.map fun o => o.loadDownstream * dt).sum ∧
    List.Forall₂ (fun _ o => o.loadDownstream = 0) xs (InstreamCoarseSediment.run dt st xs).2 := by
  have h := scan_budget (InstreamCoarseSediment.step dt) (fun _ => True) (fun _ => True) (fun s => s.1 + s.2)
    (fun x => (x.1 + x.2.1 + x.2.2) * dt) (fun o => o.loadDownstream * dt)
    (fun _ o => o.loadDownstream = 0)
    (by
      rintro ⟨cs, sm⟩ ⟨a, b, c⟩ _ _
      obtain ⟨h1, _, h3, _⟩ := coarse_step dt cs sm a b c
      exact ⟨trivial, h1, h3⟩)
    xs st trivial (fun _ _ => trivial)
  exact ⟨h.2.1, h.2.2⟩

theorem coarse_run_nonneg (dt : ℝ) (st : ℝ × ℝ) (xs : List (ℝ × ℝ × ℝ)) (hdt : 0 ≤ dt) (h1 : 0 ≤ st.1) (h2 : 0 ≤ st.2)
    (hx : ∀ x ∈ xs, 0 ≤ x.1 ∧ 0 ≤ x.2.1 ∧ 0 ≤ x.2.2) :
    0 ≤ (InstreamCoarseSediment.run dt st xs).1.1 ∧ 0 ≤ (InstreamCoarseSediment.run dt st xs).1.2 ∧
    ∀ o ∈ (InstreamCoarseSediment.run dt st xs).2, 0 ≤ o.loadDownstream ∧ 0 ≤ o.deposited := by
  have h := scan_budget (InstreamCoarseSediment.step dt) (fun s => 0 ≤ s.1 ∧ 0 ≤ s.2)
    (fun x => 0 ≤ x.1 ∧ 0 ≤ x.2.1 ∧ 0 ≤ x.2.2) (fun _ => 0) (fun _ => 0) (fun _ => 0)
    (fun _ o => 0 ≤ o.loadDownstream ∧ 0 ≤ o.deposited)
    (by
      rintro ⟨cs, sm⟩ ⟨a, b, c⟩ ⟨hs1, hs2⟩ ⟨ha, hb, hc⟩
      obtain ⟨_, _, e3, e4, e5⟩ := coarse_step dt cs sm a b c
      obtain ⟨n1, n2⟩ := e5 hdt hs1 hs2 ha hb hc
      exact ⟨⟨n1, by rw [e4]⟩, by simp, by rw [e3], n2⟩)
    xs st ⟨h1, h2⟩ hx
  exact ⟨h.1.1, h.1.2, forall₂_imp_forall_right
    (P := fun (o : InstreamCoarseSediment.Out ℝ) => 0 ≤ o.loadDownstream ∧ 0 ≤ o.deposited) (fun _ _ h => h) h.2.2⟩

/-! ### trap-all (no Δt: the budget is in the units of the inflow series) -/

theorem trapAll_budget (inflow : List ℝ) (s0 : ℝ) (t : List ℝ) (h : StorageTrapAll.trapped inflow s0 = some t) :
    inflow.sum + s0 = t.sum + 0 ∧ t.length = inflow.length := by
  cases inflow with
  | nil => simp [StorageTrapAll.trapped] at h
  | cons x xs =>
    simp only [StorageTrapAll.trapped, Option.some.injEq] at h
    subst h
    realnum
    simp only [List.sum_cons, List.length_cons]
    exact ⟨by ring, trivial⟩

theorem trapAll_nonneg (inflow : List ℝ) (s0 : ℝ) (t : List ℝ) (h : StorageTrapAll.trapped inflow s0 = some t)
    (hs : 0 ≤ s0) (hx : ∀ x ∈ inflow, 0 ≤ x) : ∀ y ∈ t, 0 ≤ y := by
  cases inflow with
  | nil => simp [StorageTrapAll.trapped] at h
  | cons x xs =>
    simp only [StorageTrapAll.trapped, Option.some.injEq] at h
    subst h
    realnum
    intro y hy
    rcases List.mem_cons.mp hy with rfl | hy
    · have := hx x (List.mem_cons_self ..); linarith
    · exact hx y (List.mem_cons_of_mem _ hy)

end OW.C12
