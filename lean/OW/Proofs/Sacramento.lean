import OW.Proofs.Surm
import OW.Kernels.Sacramento
/-!
C10 for Sacramento — the part that does not depend on the drainage-and-percolation loop: the channel stage of one
time step (components, non-negativity of runoff / baseflow / the channel evaporation e4) and the unit hydrograph.
-/
namespace OW.RR.Sacramento
open OW OW.Kernels.Sacramento

theorem sciZero : (@OfScientific.ofScientific ℝ (instNumReal.toOfScientific) 0 true 1) = 0 := by
  rw [OW.RR.Surm.sci]; norm_num

/-- runoff = surfaceRunoff + baseflow, exactly, for every step (any parameters, state, inputs) -/
theorem step_components (p : Params ℝ) (c : Consts ℝ) (st : State ℝ) (x : ℝ × ℝ) :
    (step p c st x).2.runoff = (step p c st x).2.surfaceRunoff + (step p c st x).2.baseflow := by
  exact (sub_add_cancel (channel p c st.qq x.2 _).qf (channel p c st.qq x.2 _).bf).symm

/-- the reported actual evapotranspiration is the sum of its five parts -/
theorem step_aet_parts (p : Params ℝ) (c : Consts ℝ) (st : State ℝ) (x : ℝ × ℝ) :
    (step p c st x).2.actualET =
      (step p c st x).2.e1 + (step p c st x).2.e2 + (step p c st x).2.e3 + (step p c st x).2.e4 +
        (step p c st x).2.e5 := rfl

/-- channel stage: for PET ≥ 0 and sarva ≥ 0, total runoff ≥ 0, baseflow ≥ 0 and e4 ≥ 0 (the evaporation taken
from the channel), whatever the stores and the drainage loop did. -/
theorem channel_nonneg (p : Params ℝ) (c : Consts ℝ) (qq : List ℝ) (evapt : ℝ) (v2 : Inner ℝ) (hpet : 0 ≤ evapt)
    (hsarva : 0 ≤ p.sarva) :
    0 ≤ (channel p c qq evapt v2).qf ∧ 0 ≤ (channel p c qq evapt v2).bf ∧ 0 ≤ (channel p c qq evapt v2).e4 := by
  simp only [channel, RealNum.gmax_eq, RealNum.gmin_eq, sciZero]
  generalize convolve _ c.dro = flwsf
  generalize v2.flobf * (1.0 - p.pctim - p.adimp) / (1.0 + p.side) = flwbf0
  have hb : 0 ≤ (if flwbf0 < 0 then (0 : ℝ) else flwbf0) := by
    split_ifs with h
    · exact le_refl _
    · exact not_lt.mp h
  generalize (if flwbf0 < 0 then (0 : ℝ) else flwbf0) = flwbf at hb ⊢
  set qf1 := max 0 (flwbf + flwsf - p.ssout) with hqf1
  have h1 : 0 ≤ qf1 := le_max_left _ _
  have he : 0 ≤ evapt * p.sarva := mul_nonneg hpet hsarva
  have h4 : 0 ≤ min (evapt * p.sarva) qf1 := le_min he h1
  have h5 : min (evapt * p.sarva) qf1 ≤ qf1 := min_le_right _ _
  have hq : 0 ≤ qf1 - min (evapt * p.sarva) qf1 := by linarith
  refine ⟨hq, ?_, h4⟩
  apply mul_nonneg _ hq
  split_ifs with h
  · exact div_nonneg hb h.le
  · exact le_refl _

theorem step_channel_nonneg (p : Params ℝ) (c : Consts ℝ) (st : State ℝ) (x : ℝ × ℝ) (hpet : 0 ≤ x.2)
    (hsarva : 0 ≤ p.sarva) :
    0 ≤ (step p c st x).2.runoff ∧ 0 ≤ (step p c st x).2.baseflow ∧ 0 ≤ (step p c st x).2.e4 :=
  channel_nonneg p c st.qq x.2 _ hpet hsarva

/-- the unit hydrograph is normalised: non-negative proportions with a positive sum give non-negative weights
that sum to one (the divisor is the sum, proved non-zero from the hypothesis) -/
theorem uh_normalised (p : Params ℝ) (h1 : 0 ≤ p.uh1) (h2 : 0 ≤ p.uh2) (h3 : 0 ≤ p.uh3) (h4 : 0 ≤ p.uh4)
    (h5 : 0 ≤ p.uh5) (hs : 0 < p.uh1 + p.uh2 + p.uh3 + p.uh4 + p.uh5) :
    (makeUnitHydrograph p).sum = 1 ∧ ∀ d ∈ makeUnitHydrograph p, 0 ≤ d := by
  simp only [makeUnitHydrograph, sciZero, zero_add]
  set s := p.uh1 + p.uh2 + p.uh3 + p.uh4 + p.uh5 with hsd
  refine ⟨?_, ?_⟩
  · simp only [List.sum_cons, List.sum_nil, add_zero]
    rw [← add_div, ← add_div, ← add_div, ← add_div]
    have : p.uh1 + (p.uh2 + (p.uh3 + (p.uh4 + p.uh5))) = s := by rw [hsd]; ring
    rw [this]
    exact div_self hs.ne'
  · intro d hd
    simp only [List.mem_cons, List.not_mem_nil, or_false] at hd
    rcases hd with rfl | rfl | rfl | rfl | rfl <;> exact div_nonneg ‹_› hs.le

end OW.RR.Sacramento
