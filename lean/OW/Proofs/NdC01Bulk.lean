import OW.Proofs.NdC01Slice
import OW.Proofs.NdC01Seq
/-!
Helper definitions and lemmas for C01, visibility of the bulk writes and histories that interleave
`Set | Apply | ApplySlice | CopyFrom`.

* `visible_of_footprint`: from a cell-level footprint (which cells hold what afterwards, all others unchanged) to what a
  `Get` through any other array returns afterwards;
* `WOp`, `runOp`, `runOps`: a write request of any of the four kinds, performed with the model's own operations;
* `WOp.targets` / `WOp.hit` / `stepRead` / `readBackOps`: the reference reading of a history — the value written by the
  LAST operation that addressed the cell, a copied value being what the source read at that moment (by the same rule);
* congruence of `readBackOps` in the initial reader on valid reads (`readBackOps_congr`);
* `apply1_eq_apply`: `Apply1` on a 1-D view is `Apply` along axis 0.
-/
namespace OW.Nd
open OW.NdC02 (rowMajor)

section
variable {α : Type}

/-! ### from a cell-level footprint to reads through any view -/

/-- A heap change `h → h'` with a cell-level footprint on the storage of `a` — every written item `i` (with value `x`,
`W i x`) has a non-negative address `pa i` whose cell holds `x` afterwards, every cell that is not such an address is
unchanged — read through ANY `Geo` array `b` satisfying the window conditions, at an in-bounds `j`:
the read returns `x` if it addresses the cell of an item written with `x`, and what it returned before if it addresses no
written cell (other storage, or other address). -/
theorem visible_of_footprint {ι : Type} {h h' : Heap α} {a b : Arr} (oka : ArrOK h a) (gb : Geo b.v) (okb : ArrOK h b)
    (hsh : SameShape h h') {j : Idx} (hj : InBounds j b.v.dims) (W : ι → α → Prop) (pa : ι → Int)
    (hin : ∀ i x, W i x → 0 ≤ pa i ∧ cell h' a.sid (a.base + pa i).toNat = some x)
    (hout : ∀ t q : Nat, (t ≠ a.sid ∨ ∀ i x, W i x → q ≠ (a.base + pa i).toNat) → cell h' t q = cell h t q) :
    (∀ i x, W i x → b.sid = a.sid → b.base + addr b.v j = a.base + pa i → get h' b j = .ok x) ∧
    ((b.sid ≠ a.sid ∨ ∀ i x, W i x → b.base + addr b.v j ≠ a.base + pa i) → get h' b j = get h b j) := by
  obtain ⟨y, cy, gy⟩ := get_addr gb okb hj
  obtain ⟨z, cz, gz⟩ := get_addr gb (okb.sameShape hsh) hj
  have nb := okb.base_nonneg
  have na := oka.base_nonneg
  have bb := (addr_bounds gb hj).1
  refine ⟨fun i x hw hsid e => ?_, fun hm => ?_⟩
  · obtain ⟨_, hc⟩ := hin i x hw
    rw [hsid, e, hc] at cz
    injection cz with cz
    rw [gz, cz]
  · rw [gz, gy]
    have key : cell h' b.sid (b.base + addr b.v j).toNat = cell h b.sid (b.base + addr b.v j).toNat := by
      apply hout
      rcases hm with h1 | h2
      · exact Or.inl h1
      · refine Or.inr (fun i x hw => ?_)
        have h3 := h2 i x hw
        have h4 := (hin i x hw).1
        omega
    rw [cz, cy] at key
    injection key with key
    rw [key]

/-! ### write requests of the four kinds -/

/-- what a write request puts into a cell: a given value, or element `i` of a source array (as read when the request is
performed) -/
inductive Src (α : Type) where
  | const (x : α) : Src α
  | elem (src : Arr) (i : Idx) : Src α

/-- the value of a `Src` under a reader `rd` (what `Get` returns through each array at each index) -/
def Src.eval (rd : Arr → Idx → R α) : Src α → R α
  | .const x => .ok x
  | .elem s i => rd s i

/-- one write request: `Set(loc, x)`, `Apply(loc, d, step, vals)`, `ApplySlice(loc, step, src)`, `CopyFrom(src)`, each
through its own array `a` -/
inductive WOp (α : Type) where
  | set (a : Arr) (loc : Idx) (x : α) : WOp α
  | apply (a : Arr) (loc : Idx) (d : Nat) (step : Int) (vals : List α) : WOp α
  | applySlice (a : Arr) (loc : Idx) (step : Option Idx) (src : Arr) : WOp α
  | copyFrom (a : Arr) (src : Arr) : WOp α

/-- perform one request with the model's own operation -/
def runOp (h : Heap α) : WOp α → R (Heap α)
  | .set a loc x => Nd.set h a loc x
  | .apply a loc d step vals => Nd.apply h a loc (d : Int) step vals
  | .applySlice a loc step src => Nd.applySlice h a loc step src
  | .copyFrom a src => Nd.copyFrom h a src

/-- perform the requests in order -/
def runOps (h : Heap α) : List (WOp α) → R (Heap α)
  | [] => .ok h
  | op :: rest => do
    let h' ← runOp h op
    runOps h' rest

/-- the array a request writes through -/
def WOp.dst : WOp α → Arr
  | .set a _ _ => a
  | .apply a _ _ _ _ => a
  | .applySlice a _ _ _ => a
  | .copyFrom a _ => a

/-- the indices (of the destination array) a request addresses, each with what is written there -/
def WOp.targets : WOp α → List (Idx × Src α)
  | .set _ loc x => [(loc, .const x)]
  | .apply _ loc d step vals => (runPairs loc d (loc[d]?.getD 0) step 0 vals).map (fun w => (w.1, .const w.2))
  | .applySlice a loc step src =>
    (rowMajor src.v.dims).map (fun i => (affine loc i (stepOr a.v.dims.length step), .elem src i))
  | .copyFrom a src => (rowMajor a.v.dims).map (fun i => (i, .elem src i))

/-- the hypotheses of the footprint theorems (`set_footprint`, `apply_footprint` or — no values — `apply_empty`,
`applySlice_footprint`, `copyFrom_footprint`) for one request in heap `h` -/
def WOp.OK (h : Heap α) : WOp α → Prop
  | .set a loc _ => Reach a.v ∧ ArrOK h a ∧ InBounds loc a.v.dims
  | .apply a loc d step vals => Reach a.v ∧ ArrOK h a ∧ InBounds loc a.v.dims ∧
      ((vals = [] ∧ d < a.v.dims.length) ∨
        ∃ D l, a.v.dims[d]? = some D ∧ loc[d]? = some l ∧ vals ≠ [] ∧ 1 ≤ step ∧
          l + ((vals.length : Int) - 1) * step < D)
  | .applySlice a loc step src => Reach a.v ∧ ArrOK h a ∧ Reach src.v ∧ ArrOK h src ∧ src.sid ≠ a.sid ∧
      SliceOK a.v.dims loc src.v.dims (stepOr a.v.dims.length step)
  | .copyFrom a src => Reach a.v ∧ ArrOK h a ∧ Reach src.v ∧ ArrOK h src ∧ src.sid ≠ a.sid ∧ src.v.dims = a.v.dims

theorem WOp.OK.sameShape {h h' : Heap α} (s : SameShape h h') : ∀ {op : WOp α}, op.OK h → op.OK h'
  | .set _ _ _, ⟨r, ok, ib⟩ => ⟨r, ok.sameShape s, ib⟩
  | .apply _ _ _ _ _, ⟨r, ok, ib, rest⟩ => ⟨r, ok.sameShape s, ib, rest⟩
  | .applySlice _ _ _ _, ⟨r, ok, rs, oks, rest⟩ => ⟨r, ok.sameShape s, rs, oks.sameShape s, rest⟩
  | .copyFrom _ _, ⟨r, ok, rs, oks, rest⟩ => ⟨r, ok.sameShape s, rs, oks.sameShape s, rest⟩

/-- does a read through `b` at `j` address the cell of target index `t` of the request? (same storage is tested in `hit`) -/
def WOp.sameAddr (op : WOp α) (b : Arr) (j : Idx) (t : Idx × Src α) : Bool :=
  decide (b.base + addr b.v j = op.dst.base + addr op.dst.v t.1)

/-- what the request wrote into the cell that a read through `b` at `j` addresses, if it addressed that cell -/
def WOp.hit (op : WOp α) (b : Arr) (j : Idx) : Option (Src α) :=
  if b.sid = op.dst.sid then (op.targets.find? (op.sameAddr b j)).map Prod.snd else none

/-- the reader after one request, from the reader before it -/
def stepRead (op : WOp α) (rd : Arr → Idx → R α) (b : Arr) (j : Idx) : R α :=
  match op.hit b j with
  | some s => s.eval rd
  | none => rd b j

/-- the reader after a history: for each cell, the value of the LAST request that addressed it (a copied value being
what the reader of that moment returned for the source element), else the initial reader -/
def readBackOps (ops : List (WOp α)) (rd0 : Arr → Idx → R α) : Arr → Idx → R α :=
  ops.foldl (fun rd op => stepRead op rd) rd0

theorem readBackOps_cons (op : WOp α) (ops : List (WOp α)) (rd0 : Arr → Idx → R α) :
    readBackOps (op :: ops) rd0 = readBackOps ops (stepRead op rd0) := rfl

/-- a read the theorems speak about: through a reachable array satisfying the window conditions, at an in-bounds index -/
def RdOK (h : Heap α) (b : Arr) (j : Idx) : Prop := Reach b.v ∧ ArrOK h b ∧ InBounds j b.v.dims

theorem RdOK.sameShape {h h' : Heap α} {b : Arr} {j : Idx} (s : SameShape h h') (r : RdOK h b j) : RdOK h' b j :=
  ⟨r.1, r.2.1.sameShape s, r.2.2⟩

/-- `stepRead` from its two clauses -/
theorem stepRead_eq {op : WOp α} {b : Arr} {j : Idx} {rd : Arr → Idx → R α} {r : R α}
    (hitC : ∀ t ∈ op.targets, b.sid = op.dst.sid → b.base + addr b.v j = op.dst.base + addr op.dst.v t.1 →
      r = t.2.eval rd)
    (missC : (b.sid ≠ op.dst.sid ∨ ∀ t ∈ op.targets, b.base + addr b.v j ≠ op.dst.base + addr op.dst.v t.1) →
      r = rd b j) : r = stepRead op rd b j := by
  unfold stepRead WOp.hit
  by_cases hsid : b.sid = op.dst.sid
  · rw [if_pos hsid]
    cases hf : op.targets.find? (op.sameAddr b j) with
    | none =>
      simp only [Option.map_none]
      apply missC
      refine Or.inr (fun t ht e => ?_)
      have := List.find?_eq_none.mp hf t ht
      simp [WOp.sameAddr, e] at this
    | some t =>
      simp only [Option.map_some]
      have hp := List.find?_some hf
      simp only [WOp.sameAddr, decide_eq_true_eq] at hp
      exact hitC t (List.mem_of_find?_eq_some hf) hsid hp
  · rw [if_neg hsid]
    exact missC (Or.inl hsid)

/-- a copied element that a valid request reads is itself a valid read -/
theorem hit_elem_ok {h : Heap α} {op : WOp α} (ok : op.OK h) {b : Arr} {j : Idx} {s : Arr} {i : Idx}
    (hh : op.hit b j = some (.elem s i)) : RdOK h s i := by
  unfold WOp.hit at hh
  split at hh
  · cases hf : op.targets.find? (op.sameAddr b j) with
    | none => rw [hf] at hh; cases hh
    | some t =>
      rw [hf] at hh
      simp only [Option.map_some, Option.some.injEq] at hh
      have hm := List.mem_of_find?_eq_some hf
      cases op with
      | set a loc x =>
        simp only [WOp.targets, List.mem_singleton] at hm
        subst hm; cases hh
      | apply a loc d step vals =>
        simp only [WOp.targets, List.mem_map] at hm
        obtain ⟨w, _, rfl⟩ := hm
        cases hh
      | applySlice a loc step src =>
        simp only [WOp.targets, List.mem_map] at hm
        obtain ⟨i', hi', rfl⟩ := hm
        injection hh with e1 e2
        subst e1 e2
        obtain ⟨_, _, rs, oks, _, _⟩ := ok
        exact ⟨rs, oks, OW.NdC02.rowMajor_inBounds (reach_geo rs).pos_dims _ hi'⟩
      | copyFrom a src =>
        simp only [WOp.targets, List.mem_map] at hm
        obtain ⟨i', hi', rfl⟩ := hm
        injection hh with e1 e2
        subst e1 e2
        obtain ⟨ra, _, rs, oks, _, hshape⟩ := ok
        exact ⟨rs, oks, by rw [hshape]; exact OW.NdC02.rowMajor_inBounds (reach_geo ra).pos_dims _ hi'⟩
  · cases hh

/-- readers that agree on valid reads agree on valid reads after one valid request -/
theorem stepRead_congr {h : Heap α} {op : WOp α} (ok : op.OK h) {rd rd' : Arr → Idx → R α}
    (e : ∀ b j, RdOK h b j → rd b j = rd' b j) (b : Arr) (j : Idx) (r : RdOK h b j) :
    stepRead op rd b j = stepRead op rd' b j := by
  unfold stepRead
  cases hh : op.hit b j with
  | none => exact e b j r
  | some s =>
    cases s with
    | const x => rfl
    | elem s i => exact e s i (hit_elem_ok ok hh)

/-- …and after any history of valid requests -/
theorem readBackOps_congr {h : Heap α} : ∀ (ops : List (WOp α)), (∀ op ∈ ops, op.OK h) →
    ∀ {rd rd' : Arr → Idx → R α}, (∀ b j, RdOK h b j → rd b j = rd' b j) →
      ∀ b j, RdOK h b j → readBackOps ops rd b j = readBackOps ops rd' b j
  | [], _, _, _, e, b, j, r => e b j r
  | op :: rest, hops, rd, rd', e, b, j, r => by
    rw [readBackOps_cons, readBackOps_cons]
    exact readBackOps_congr rest (fun o ho => hops o (List.mem_cons_of_mem _ ho))
      (fun b j r => stepRead_congr (hops op List.mem_cons_self) e b j r) b j r

/-! ### histories of `Set` only: `setMany` / `readBack` of OW/Proofs/NdC01Seq.lean -/

/-- a `Set` request of `NdC01Seq` as a `WOp` -/
def WriteOp.toWOp (w : WriteOp α) : WOp α := .set w.arr w.loc w.val

theorem runOps_sets : ∀ (ws : List (WriteOp α)) (h : Heap α), runOps h (ws.map WriteOp.toWOp) = setMany h ws
  | [], _ => rfl
  | w :: rest, h => by
    simp only [List.map_cons, runOps, setMany, runOp, WriteOp.toWOp]
    cases Nd.set h w.arr w.loc w.val with
    | error m => rfl
    | ok h' => exact runOps_sets rest h'

theorem stepRead_set (w : WriteOp α) (rd : Arr → Idx → R α) (b : Arr) (j : Idx) :
    stepRead w.toWOp rd b j = if sameCell w b j then .ok w.val else rd b j := by
  unfold stepRead WOp.hit
  by_cases c : sameCell w b j
  · have c1 : b.sid = w.toWOp.dst.sid := c.1
    rw [if_pos c, if_pos c1]
    simp [WriteOp.toWOp, WOp.targets, WOp.sameAddr, WOp.dst, c.2, Src.eval]
  · rw [if_neg c]
    by_cases c1 : b.sid = w.toWOp.dst.sid
    · have c2 : ¬ b.base + addr b.v j = w.arr.base + addr w.arr.v w.loc := fun e => c ⟨c1, e⟩
      rw [if_pos c1]
      simp [WriteOp.toWOp, WOp.targets, WOp.sameAddr, WOp.dst, c2]
    · rw [if_neg c1]

theorem readBackOps_sets (ws : List (WriteOp α)) (b : Arr) (j : Idx) : ∀ rd : Arr → Idx → R α,
    readBackOps (ws.map WriteOp.toWOp) rd b j = readBack ws b j (rd b j) := by
  induction ws with
  | nil => intro rd; rfl
  | cons w rest ih =>
    intro rd
    rw [List.map_cons, readBackOps_cons, ih, readBack_cons, stepRead_set]

/-! ### `Apply1` on a 1-D view is `Apply` along axis 0 -/

/-- the loop of `Apply1` is a sequence of `Set`s at `[loc + i·step]` (unconditionally) -/
theorem apply1Go_eq (a : Arr) (loc step : Int) : ∀ (xs : List α) (h : Heap α) (i : Int),
    apply1.go a loc step h i xs = setSeq h a (runPairs [loc] 0 loc step i xs)
  | [], _, _ => rfl
  | x :: xs, h, i => by
    simp only [apply1.go, runPairs, setSeq, runLoc, set1, List.set_cons_zero]
    cases Nd.set h a [loc + i * step] x with
    | error m => rfl
    | ok h' => exact apply1Go_eq a loc step xs h' (i + 1)

theorem apply1_eq_setSeq (h : Heap α) (a : Arr) (loc step : Int) (vals : List α) :
    apply1 h a loc step vals = setSeq h a (runPairs [loc] 0 loc step 0 vals) :=
  apply1Go_eq a loc step vals h 0

end
end OW.Nd
