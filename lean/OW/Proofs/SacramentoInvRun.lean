import OW.Proofs.SacramentoInvStep
/-!
C10 for Sacramento, part 4 — definitions and helper lemmas for whole runs: admissible inputs, the oracle's storage
term `held`, the state a call of the model starts from (`stateOfRow`), and the one-step theorem in the shapes
`RR.scan_budget_le` wants.
-/
namespace OW.RR.Sac
open OW OW.Kernels

/-- admissible input of one step: rain ≥ 0, 0 ≤ PET ≤ uztwm + lztwm -/
def InOk (p : Sacramento.Params ℝ) (x : ℝ × ℝ) : Prop := 0 ≤ x.1 ∧ 0 ≤ x.2 ∧ x.2 ≤ p.uztwm + p.lztwm

/-- … and the PET bound under which e5 is non-negative -/
def InOkPet (p : Sacramento.Params ℝ) (x : ℝ × ℝ) : Prop := InOk p x ∧ PetOk p x.2

/-- PET ≤ lztwm is enough for both PET conditions -/
theorem inOkPet_of_le_lztwm (p : Sacramento.Params ℝ) (hp : ParamsOk p) (x : ℝ × ℝ) (hr : 0 ≤ x.1) (hE0 : 0 ≤ x.2)
    (hE : x.2 ≤ p.lztwm) : InOkPet p x :=
  ⟨⟨hr, hE0, by linarith [hp.uztwm]⟩, petOk_of_le_lztwm p hp x.2 hE⟩


theorem uhStor_nonneg (p : Sacramento.Params ℝ) (hp : ParamsOk p) (st : Sacramento.State ℝ) (hs : SacInv p st) :
    0 ≤ uhStor st.qq (Sacramento.consts p).dro := by
  obtain ⟨a, q1, q2, q3, q4, hqq, hq1, hq2, hq3, hq4⟩ := hs.qq
  obtain ⟨d0, d1, d2, d3, d4, hdro, hd0, hd1, hd2, hd3, hd4, -⟩ := dro_spec p hp
  rw [hqq, hdro]
  simp only [uhStor]
  have := mul_nonneg hq1 (by linarith : 0 ≤ d1 + d2 + d3 + d4)
  have := mul_nonneg hq2 (by linarith : 0 ≤ d2 + d3 + d4)
  have := mul_nonneg hq3 (by linarith : 0 ≤ d3 + d4)
  have := mul_nonneg hq4 hd4
  linarith

/-- the water held by a state satisfying the invariant is non-negative -/
theorem stor_nonneg (p : Sacramento.Params ℝ) (hp : ParamsOk p) (st : Sacramento.State ℝ) (hs : SacInv p st) :
    0 ≤ stor p st := by
  unfold stor wSt
  have hf : 0 ≤ 1 - p.pctim - p.adimp := by linarith [hp.area]
  have h1 := mul_nonneg hf (by linarith [hs.tw0, hs.fw0, hs.lt0, hs.s0, hs.p0] :
    0 ≤ st.uztwc + st.uzfwc + st.lztwc + st.alzfsc + st.alzfpc)
  have h2 := mul_nonneg hp.adimp0 hs.a0
  have h3 := uhStor_nonneg p hp st hs
  linarith

/-- the storage term of the C10 oracle (harness oracle_C10.go, `held`): pervious stores × (1 − pctim − adimp) with the
lower free-water stores counted (1+side)-fold, additional impervious store × adimp — computed from the REPORTED state
row [UprTensionWater, UprFreeWater, LwrTensionWater, LwrPrimaryFreeWater, LwrSupplFreeWater, AdditionalImperviousStore] -/
noncomputable def held (p : Sacramento.Params ℝ) (st : Sacramento.State ℝ) : ℝ :=
  (1 - p.pctim - p.adimp) * (st.uztwc + st.uzfwc + st.lztwc + (st.lzfpc + st.lzfsc) * (1 + p.side)) +
    p.adimp * st.adimc

/-- water held = the oracle's storage term + the water in transit in the unit-hydrograph buffer (which the code drops
at the end of a call and which is zero at its start) -/
theorem stor_eq_held (p : Sacramento.Params ℝ) (st : Sacramento.State ℝ) (hs : SacInv p st) :
    stor p st = held p st + uhStor st.qq (Sacramento.consts p).dro := by
  unfold stor held wSt
  rw [add_mul, hs.cp, hs.cs]
  ring


/-- the one-step theorem in the shape `RR.scan_budget_le` wants -/
theorem hstep (p : Sacramento.Params ℝ) (hp : ParamsOk p) (s : Sacramento.State ℝ) (x : ℝ × ℝ) (hs : SacInv p s)
    (hx : InOk p x) :
    SacInv p (Sacramento.step p (Sacramento.consts p) s x).1 ∧
    (Sacramento.step p (Sacramento.consts p) s x).2.runoff + (Sacramento.step p (Sacramento.consts p) s x).2.actualET +
        stor p (Sacramento.step p (Sacramento.consts p) s x).1 ≤ x.1 + stor p s ∧
    OutOk (Sacramento.step p (Sacramento.consts p) s x).2 := by
  obtain ⟨h1, h2, h3, -⟩ := step_spec p hp s x hs hx.1 hx.2.1 hx.2.2
  exact ⟨h1, h2, h3⟩

theorem hstepPet (p : Sacramento.Params ℝ) (hp : ParamsOk p) (s : Sacramento.State ℝ) (x : ℝ × ℝ)
    (hs : SacInv p s) (hx : InOkPet p x) :
    SacInv p (Sacramento.step p (Sacramento.consts p) s x).1 ∧
    (Sacramento.step p (Sacramento.consts p) s x).2.runoff + (Sacramento.step p (Sacramento.consts p) s x).2.actualET +
        stor p (Sacramento.step p (Sacramento.consts p) s x).1 ≤ x.1 + stor p s ∧
    (OutOk (Sacramento.step p (Sacramento.consts p) s x).2 ∧
      0 ≤ (Sacramento.step p (Sacramento.consts p) s x).2.e5 ∧
      0 ≤ (Sacramento.step p (Sacramento.consts p) s x).2.actualET) := by
  obtain ⟨h1, h2, h3, h4⟩ := step_spec p hp s x hs hx.1.1 hx.1.2.1 hx.1.2.2
  exact ⟨h1, h2, h3, h4 hx.2⟩


/-- the state a call starts from, built from the state row exactly as `Sacramento.model.run` does -/
noncomputable def stateOfRow (p : Sacramento.Params ℝ) (s0 s1 s2 s3 s4 s5 : ℝ) : Sacramento.State ℝ :=
  ⟨s0, s1, s2, s3, s4, s5, s4 * (1.0 + p.side), s3 * (1.0 + p.side), zeros 5⟩

/-- what the invariant asks of a state row -/
structure RowInv (p : Sacramento.Params ℝ) (s0 s1 s2 s3 s4 s5 : ℝ) : Prop where
  tw0 : 0 ≤ s0
  tw1 : s0 ≤ p.uztwm
  fw0 : 0 ≤ s1
  fw1 : s1 ≤ p.uzfwm
  lt0 : 0 ≤ s2
  lt1 : s2 ≤ p.lztwm
  p0 : 0 ≤ s3
  p1 : s3 ≤ p.lzfpm
  s0' : 0 ≤ s4
  s1' : s4 ≤ p.lzfsm
  a0 : 0 ≤ s5
  a1 : 4 * (s5 - s0) ≤ 5 * p.lztwm
  u : s1 * p.uztwm ≤ s0 * p.uzfwm

theorem one_lit : (1.0 : ℝ) = 1 := by norm_num

theorem zeros5 : (zeros 5 : List ℝ) = [0, 0, 0, 0, 0] := rfl

theorem stateOfRow_inv (p : Sacramento.Params ℝ) (hp : ParamsOk p) (s0 s1 s2 s3 s4 s5 : ℝ)
    (h : RowInv p s0 s1 s2 s3 s4 s5) : SacInv p (stateOfRow p s0 s1 s2 s3 s4 s5) := by
  have hside : 0 ≤ 1 + p.side := by linarith [hp.side0]
  unfold stateOfRow
  rw [one_lit]
  exact ⟨h.tw0, h.tw1, h.fw0, h.fw1, h.lt0, h.lt1, mul_nonneg h.s0' hside,
    mul_le_mul_of_nonneg_right h.s1' hside, mul_nonneg h.p0 hside, mul_le_mul_of_nonneg_right h.p1 hside,
    rfl, rfl, h.a0, h.a1, h.u, ⟨0, 0, 0, 0, 0, zeros5, le_refl _, le_refl _, le_refl _, le_refl _⟩⟩

/-- at the start of a call nothing is in transit: water held = the oracle's storage term -/
theorem stateOfRow_stor (p : Sacramento.Params ℝ) (hp : ParamsOk p) (s0 s1 s2 s3 s4 s5 : ℝ)
    (h : RowInv p s0 s1 s2 s3 s4 s5) :
    stor p (stateOfRow p s0 s1 s2 s3 s4 s5) = held p (stateOfRow p s0 s1 s2 s3 s4 s5) := by
  rw [stor_eq_held p _ (stateOfRow_inv p hp s0 s1 s2 s3 s4 s5 h)]
  obtain ⟨d0, d1, d2, d3, d4, hdro, -⟩ := dro_spec p hp
  have : (stateOfRow p s0 s1 s2 s3 s4 s5).qq = [0, 0, 0, 0, 0] := zeros5
  rw [this, hdro]
  simp only [uhStor]
  ring


theorem zeroRow_inv (p : Sacramento.Params ℝ) (hp : ParamsOk p) : RowInv p 0 0 0 0 0 0 := by
  have := hp.lztwm_pos
  refine ⟨le_refl _, hp.uztwm.le, le_refl _, hp.uzfwm.le, le_refl _, this.le, le_refl _, hp.lzfpm.le, le_refl _,
    hp.lzfsm.le, le_refl _, by linarith, by simp⟩

theorem zeroRow_held (p : Sacramento.Params ℝ) : held p (stateOfRow p 0 0 0 0 0 0) = 0 := by
  unfold held stateOfRow
  simp


end OW.RR.Sac
