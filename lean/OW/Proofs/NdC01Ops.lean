import OW.Proofs.NdC01
/-!
Helper lemmas for C01, continued: `get` / `set` in closed form for reachable `ArrOK` arrays, shape preservation of
`set`, and the window conditions of the constructors.
-/
namespace OW.Nd

section
variable {α : Type}

/-- `Get` on a reachable `ArrOK` array at an in-bounds index: never panics, returns the addressed storage cell -/
theorem get_eq {h : Heap α} {a : Arr} (hr : Reach a.v) (ok : ArrOK h a) {i : Idx} (hi : InBounds i a.v.dims) :
    ∃ p x, a.v.index i = .ok p ∧ 0 ≤ p ∧ p < product a.v.orig ∧
      cell h a.sid (a.base + p).toNat = some x ∧ get h a i = .ok x := by
  obtain ⟨p, hp, h0, hlt⟩ := index_inbounds (reach_geo hr) hi
  obtain ⟨x, hc, hrd⟩ := readAt_eq ok h0 hlt
  refine ⟨p, x, hp, h0, hlt, hc, ?_⟩
  unfold get
  simp only [hp, bind, Except.bind]
  exact hrd

/-- `Set` on a reachable `ArrOK` array at an in-bounds index: never panics, updates the addressed storage cell -/
theorem set_eq {h : Heap α} {a : Arr} (hr : Reach a.v) (ok : ArrOK h a) {i : Idx} (hi : InBounds i a.v.dims)
    (x : α) :
    ∃ p, a.v.index i = .ok p ∧ 0 ≤ p ∧ p < product a.v.orig ∧
      set h a i x = .ok (setStore h a.sid (a.base + p).toNat x) := by
  obtain ⟨p, hp, h0, hlt⟩ := index_inbounds (reach_geo hr) hi
  refine ⟨p, hp, h0, hlt, ?_⟩
  unfold set
  simp only [hp, bind, Except.bind]
  exact writeAt_eq ok h0 hlt x

/-- whatever `writeAt` does when it does not panic, it is one `setStore` -/
theorem writeAt_setStore {h h' : Heap α} {a : Arr} {p : Int} {x : α} (hw : writeAt h a p x = .ok h') :
    ∃ pos, h' = setStore h a.sid pos x := by
  unfold writeAt at hw
  cases e : storeOf h a.sid with
  | error m => simp [e, bind, Except.bind] at hw
  | ok s =>
    simp only [e, bind, Except.bind, pure, Except.pure] at hw
    split at hw
    · split at hw
      · split at hw
        · injection hw with hw; exact ⟨_, hw.symm⟩
        · cases hw
      · cases hw
    · split at hw
      · injection hw with hw; exact ⟨_, hw.symm⟩
      · cases hw

/-- `Set` never changes the number or the lengths of the storages (no hypotheses) -/
theorem set_sameShape {h h' : Heap α} {a : Arr} {loc : Idx} {x : α} (hs : set h a loc x = .ok h') :
    SameShape h h' := by
  unfold set at hs
  cases e : a.v.index loc with
  | error m => simp [e, bind, Except.bind] at hs
  | ok p =>
    simp only [e, bind, Except.bind] at hs
    obtain ⟨pos, rfl⟩ := writeAt_setStore hs
    exact sameShape_setStore h a.sid pos x

/-! ### constructors -/

theorem reach_root {dims : Idx} (hne : dims ≠ []) (hpos : Pos dims) : Reach (rootView dims 0) :=
  .root hne hpos (root_eq dims 0 hne)

/-- `arrayFromSlice` on storage `sid` (Go back-end): a reachable array satisfying the window conditions, provided the
storage holds at least `Π dims` elements (which the Go code does not check) -/
theorem arrOK_fromStore {h : Heap α} {sid : Nat} {s : List α} {dims : Idx} (hne : dims ≠ []) (hpos : Pos dims)
    (hs : h[sid]? = some s) (hfit : product dims ≤ s.length) :
    ∃ a, fromStore h sid dims = .ok a ∧ a = ⟨rootView dims 0, sid, 0, s.length, false⟩ ∧ Reach a.v ∧ ArrOK h a := by
  refine ⟨⟨rootView dims 0, sid, 0, s.length, false⟩, ?_, rfl, reach_root hne hpos, ?_⟩
  · simp [fromStore, storeOf, hs, root_eq dims 0 hne, bind, Except.bind, pure, Except.pure]
  · exact ⟨⟨s, hs, by simp⟩, Int.le_refl 0, hfit, by simp⟩

/-- `New<T>CArray` on the caller's buffer `sid` (C back-end): as `arrOK_fromStore`, with the `1<<30` bound of the
C array type -/
theorem arrOK_fromC {h : Heap α} {sid : Nat} {s : List α} {dims : Idx} (hne : dims ≠ []) (hpos : Pos dims)
    (hs : h[sid]? = some s) (hfit : product dims ≤ s.length) (hbig : product dims ≤ 1073741824) :
    ∃ a, fromC h sid dims = .ok a ∧ a = ⟨rootView dims 0, sid, 0, s.length, true⟩ ∧ Reach a.v ∧ ArrOK h a := by
  refine ⟨⟨rootView dims 0, sid, 0, s.length, true⟩, ?_, rfl, reach_root hne hpos, ?_⟩
  · simp [fromC, storeOf, hs, root_eq dims 0 hne, bind, Except.bind, pure, Except.pure]
  · exact ⟨⟨s, hs, by simp⟩, Int.le_refl 0, hfit, fun _ => hbig⟩

/-- `NewArray(dims)`: allocates storage number `len(heap)` with `Π dims` zeros; the result is a reachable array
satisfying the window conditions; existing storages are untouched -/
theorem arrOK_newArray (zero : α) (h : Heap α) {dims : Idx} (hne : dims ≠ []) (hpos : Pos dims) :
    ∃ a, newArray zero h dims = .ok (h ++ [List.replicate (product dims).toNat zero], a) ∧
      a = ⟨rootView dims 0, h.length, 0, (product dims).toNat, false⟩ ∧ Reach a.v ∧
      ArrOK (h ++ [List.replicate (product dims).toNat zero]) a := by
  have hp := product_pos hpos
  have hs : (h ++ [List.replicate (product dims).toNat zero])[h.length]? =
      some (List.replicate (product dims).toNat zero) := by simp
  obtain ⟨a, ha, rfl, hr, hok⟩ := arrOK_fromStore hne hpos hs (by simp)
  refine ⟨_, ?_, ?_, hr, hok⟩
  · have : ¬ product dims < 0 := by omega
    simp only [newArray, this, if_false, alloc, ha, bind, Except.bind, pure, Except.pure]
  · simp

end
end OW.Nd
