import OW.Proofs.HotStart
import OW.Kernels.Storage
/-!
Hot-start lemmas for the Storage (reservoir water balance) kernel, C06. The kernel threads the list of branch tags through
its loops; `*_tags` show that the tags never influence a number, `steps_append`/`run_append` split the timestep loop.
Core Lean only.
-/
set_option linter.unusedSimpArgs false
set_option linter.unusedVariables false
namespace OW.Proofs.StorageHot
open OW OW.Kernels.Storage
variable {α : Type} [Num α]

/-- forget the branch tags of an accepted trial -/
def eA (a : Accepted α) : Accepted α := { a with tags := [] }
/-- forget the branch tags of the sub-step loop state -/
def eL (s : Loop α) : Loop α := { s with tags := [] }

theorem map_bind_congr {β γ δ : Type} (x : Except String β) (f g : β → Except String γ) (e : γ → δ)
    (h : ∀ b, (f b).map e = (g b).map e) : (x >>= f).map e = (x >>= g).map e := by
  cases x with
  | error _ => rfl
  | ok b => exact h b

/-- the branch tags do not influence what the trial loop computes -/
theorem trial_tags (t : Tables α) (inflow demand netFlux volume estOutflow area : α) :
    ∀ (fuel : Nat) (sub : α) (tags tags' : List String),
      (trial t inflow demand netFlux volume estOutflow area fuel sub tags).map eA =
      (trial t inflow demand netFlux volume estOutflow area fuel sub tags').map eA := by
  intro fuel
  induction fuel with
  | zero => intro sub tags tags'; rfl
  | succ n ih =>
    intro sub tags tags'
    simp only [trial]
    split
    · split
      · rfl
      · exact ih _ _ _
    · apply map_bind_congr; intro avgArea
      apply map_bind_congr; intro estOutflowAfter
      split
      · split
        · rfl
        · split
          · rfl
          · exact ih _ _ _
      · split
        · rfl
        · exact ih _ _ _

theorem map_eq_cases {β δ : Type} {x y : Except String β} {e : β → δ} (h : x.map e = y.map e) :
    (∃ err, x = .error err ∧ y = .error err) ∨ (∃ a b, x = .ok a ∧ y = .ok b ∧ e a = e b) := by
  cases x with
  | error ex =>
    cases y with
    | error ey => left; exact ⟨ex, rfl, by simp [Except.map] at h; rw [h]⟩
    | ok b => simp [Except.map] at h
  | ok a =>
    cases y with
    | error ey => simp [Except.map] at h
    | ok b => right; exact ⟨a, b, rfl, rfl, by simpa [Except.map] using h⟩

theorem map_bind_congr2 {β γ δ ε : Type} (x y : Except String β) (f g : β → Except String γ) (e : γ → δ) (eb : β → ε)
    (hxy : x.map eb = y.map eb)
    (h : ∀ b b', eb b = eb b' → (f b).map e = (g b').map e) : (x >>= f).map e = (y >>= g).map e := by
  rcases map_eq_cases hxy with ⟨err, rfl, rfl⟩ | ⟨a, b, rfl, rfl, hab⟩
  · rfl
  · exact h a b hab

/-- one accepted sub-step: the tags carried in the loop state do not influence the numbers -/
theorem outerBody_tags (t : Tables α) (fi : Nat) (inflow demand rps pps netFlux : α) (s s' : Loop α) (h : eL s = eL s') :
    (outerBody t false fi inflow demand rps pps netFlux s).map eL =
    (outerBody t false fi inflow demand rps pps netFlux s').map eL := by
  obtain ⟨tr, sub, vol, ov, rv, ev, tg, trc⟩ := s
  obtain ⟨tr', sub', vol', ov', rv', ev', tg', trc'⟩ := s'
  simp only [eL, Loop.mk.injEq] at h
  obtain ⟨rfl, rfl, rfl, rfl, rfl, rfl, _, rfl⟩ := h
  simp only [outerBody]
  apply map_bind_congr; intro estOutflow
  apply map_bind_congr; intro area
  apply map_bind_congr2 _ _ _ _ eL eA (trial_tags t inflow demand netFlux vol estOutflow area fi _ tg tg')
  intro a a' haa
  obtain ⟨a1, a2, a3, a4, a5, a6, a7, a8⟩ := a
  obtain ⟨b1, b2, b3, b4, b5, b6, b7, b8⟩ := a'
  simp only [eA, Accepted.mk.injEq] at haa
  obtain ⟨rfl, rfl, rfl, rfl, rfl, rfl, rfl, _⟩ := haa
  simp only
  split
  · rfl
  · simp [Except.map, pure, Except.pure, eL]

/-- the sub-step loop of one timestep -/
theorem outer_tags (t : Tables α) (fi : Nat) (inflow demand rps pps netFlux : α) :
    ∀ (fo : Nat) (s s' : Loop α), eL s = eL s' →
      (outer t false fi inflow demand rps pps netFlux fo s).map eL =
      (outer t false fi inflow demand rps pps netFlux fo s').map eL := by
  intro fo
  induction fo with
  | zero => intro s s' _; rfl
  | succ n ih =>
    intro s s' h
    have htr : s.timeRemaining = s'.timeRemaining := by
      have := congrArg Loop.timeRemaining h; simpa [eL] using this
    simp only [outer]
    rw [htr]
    split
    · rcases map_eq_cases (outerBody_tags t fi inflow demand rps pps netFlux s s' h) with
        ⟨err, e1, e2⟩ | ⟨a, b, e1, e2, hab⟩
      · rw [e1, e2]
      · rw [e1, e2]; exact ih a b hab
    · simp only [Except.map]; exact congrArg Except.ok h

/-- forget the tags of a timestep / of a run of timesteps -/
def eS {β : Type} (r : α × List String × β) : α × β := (r.1, r.2.2)

theorem step_tags (t : Tables α) (fo fi : Nat) (deltaT volume : α) (tags tags' : List String) (i : StepIn α) :
    (step t false fo fi deltaT volume tags i).map eS = (step t false fo fi deltaT volume tags' i).map eS := by
  obtain ⟨rainfall, pet, inflow, demand⟩ := i
  simp only [step]
  apply map_bind_congr2 _ _ _ _ eS eL
  · apply outer_tags; rfl
  · intro b b' hbb
    obtain ⟨b1, b2, b3, b4, b5, b6, b7, b8⟩ := b
    obtain ⟨c1, c2, c3, c4, c5, c6, c7, c8⟩ := b'
    simp only [eL, Loop.mk.injEq] at hbb
    obtain ⟨rfl, rfl, rfl, rfl, rfl, rfl, _, rfl⟩ := hbb
    rfl

theorem steps_tags (t : Tables α) (fo fi : Nat) (deltaT : α) :
    ∀ (xs : List (StepIn α)) (volume : α) (tags tags' : List String),
      (steps t false fo fi deltaT volume tags xs).map eS = (steps t false fo fi deltaT volume tags' xs).map eS := by
  intro xs
  induction xs with
  | nil => intro v tg tg'; rfl
  | cons x xs ih =>
    intro v tg tg'
    simp only [steps]
    apply map_bind_congr2 _ _ _ _ eS eS (step_tags t fo fi deltaT v tg tg' x)
    intro b b' hbb
    obtain ⟨v1, tg1, o1⟩ := b
    obtain ⟨v2, tg2, o2⟩ := b'
    simp only [eS, Prod.mk.injEq] at hbb
    obtain ⟨rfl, rfl⟩ := hbb
    simp only
    apply map_bind_congr2 _ _ _ _ eS eS (ih v1 tg1 tg2)
    intro c c' hcc
    obtain ⟨w1, th1, p1⟩ := c
    obtain ⟨w2, th2, p2⟩ := c'
    simp only [eS, Prod.mk.injEq] at hcc
    obtain ⟨rfl, rfl⟩ := hcc
    rfl

/-- the timestep loop over a concatenation -/
theorem steps_append (t : Tables α) (keep : Bool) (fo fi : Nat) (deltaT : α) :
    ∀ (xs ys : List (StepIn α)) (volume : α) (tags : List String),
      steps t keep fo fi deltaT volume tags (xs ++ ys) =
        (steps t keep fo fi deltaT volume tags xs >>= fun r =>
          steps t keep fo fi deltaT r.1 r.2.1 ys >>= fun r' => pure (r'.1, r'.2.1, r.2.2 ++ r'.2.2)) := by
  intro xs
  induction xs with
  | nil =>
    intro ys v tg
    simp only [List.nil_append, steps, pure, Except.pure, bind, Except.bind]
    cases steps t keep fo fi deltaT v tg ys <;> rfl
  | cons x xs ih =>
    intro ys v tg
    simp only [List.cons_append, steps, ih]
    cases step t keep fo fi deltaT v tg x with
    | error e => rfl
    | ok r =>
      obtain ⟨v1, tg1, o1⟩ := r
      simp only [bind, Except.bind, pure, Except.pure]
      cases steps t keep fo fi deltaT v1 tg1 xs with
      | error e => rfl
      | ok r2 =>
        obtain ⟨v2, tg2, o2⟩ := r2
        simp only
        cases steps t keep fo fi deltaT v2 tg2 ys with
        | error e => rfl
        | ok r3 => rfl

/-- forget the tags of a whole run -/
def eR (r : RunOut α) : RunOut α := { r with tags := [] }

/-- **Storage, hot start at the level of `storageWaterBalance`**: running `xs ++ ys` from a volume equals running `xs`,
then `ys` from the volume left by `xs` — outputs concatenate; final volume, level and area agree (branch tags aside). -/
theorem run_append (t : Tables α) (fo fi : Nat) (deltaT v0 : α) (xs ys : List (StepIn α)) (r₁ r₂ : RunOut α)
    (h₁ : run t false fo fi deltaT v0 xs = .ok r₁) (h₂ : run t false fo fi deltaT r₁.volume ys = .ok r₂) :
    ∃ r, run t false fo fi deltaT v0 (xs ++ ys) = .ok r ∧ r.outs = r₁.outs ++ r₂.outs ∧ r.volume = r₂.volume ∧
      r.level = r₂.level ∧ r.area = r₂.area := by
  simp only [run] at h₁ h₂ ⊢
  rw [steps_append]
  cases hs1 : steps t false fo fi deltaT v0 [] xs with
  | error e => rw [hs1] at h₁; simp [bind, Except.bind] at h₁
  | ok q1 =>
    obtain ⟨v1, tg1, o1⟩ := q1
    rw [hs1] at h₁
    simp only [bind, Except.bind, pure, Except.pure] at h₁ h₂ ⊢
    cases hl1 : cappedPiecewise t v1 t.levels with
    | error e => rw [hl1] at h₁; simp at h₁
    | ok lv1 =>
      rw [hl1] at h₁
      simp only at h₁
      cases ha1 : cappedPiecewise t v1 t.areas with
      | error e => rw [ha1] at h₁; simp at h₁
      | ok ar1 =>
        rw [ha1] at h₁
        simp only [Except.ok.injEq] at h₁
        subst h₁
        simp only at h₂
        rcases map_eq_cases (steps_tags t fo fi deltaT ys v1 [] tg1) with ⟨err, e1, e2⟩ | ⟨c, c', e1, e2, hcc⟩
        · rw [e1] at h₂; simp at h₂
        · rw [e1] at h₂
          rw [e2]
          obtain ⟨w1, th1, p1⟩ := c
          obtain ⟨w2, th2, p2⟩ := c'
          simp only [eS, Prod.mk.injEq] at hcc
          obtain ⟨rfl, rfl⟩ := hcc
          simp only at h₂ ⊢
          cases hl2 : cappedPiecewise t w1 t.levels with
          | error e => rw [hl2] at h₂; simp at h₂
          | ok lv2 =>
            rw [hl2] at h₂
            simp only at h₂
            cases ha2 : cappedPiecewise t w1 t.areas with
            | error e => rw [ha2] at h₂; simp at h₂
            | ok ar2 =>
              rw [ha2] at h₂
              simp only [Except.ok.injEq] at h₂
              subst h₂
              exact ⟨_, rfl, rfl, rfl, rfl, rfl⟩
theorem steps_length (t : Tables α) (keep : Bool) (fo fi : Nat) (deltaT : α) :
    ∀ (xs : List (StepIn α)) (v : α) (tg : List String) (r : α × List String × List (StepOut α)),
      steps t keep fo fi deltaT v tg xs = .ok r → r.2.2.length = xs.length := by
  intro xs
  induction xs with
  | nil => intro v tg r h; simp only [steps, pure, Except.pure, Except.ok.injEq] at h; subst h; rfl
  | cons x xs ih =>
    intro v tg r h
    simp only [steps, bind, Except.bind] at h
    cases hs : step t keep fo fi deltaT v tg x with
    | error e => rw [hs] at h; simp at h
    | ok q =>
      obtain ⟨v1, tg1, o1⟩ := q
      rw [hs] at h
      simp only at h
      cases hr : steps t keep fo fi deltaT v1 tg1 xs with
      | error e => rw [hr] at h; simp at h
      | ok q2 =>
        obtain ⟨v2, tg2, o2⟩ := q2
        rw [hr] at h
        simp only [pure, Except.pure, Except.ok.injEq] at h
        subst h
        simp only [List.length_cons, ih v1 tg1 _ hr]

/-- the outputs of the first part of a run are a prefix of the outputs of the whole run -/
theorem run_prefix (t : Tables α) (keep : Bool) (fo fi : Nat) (deltaT v0 : α) (xs ys : List (StepIn α)) (r r₁ : RunOut α)
    (h : run t keep fo fi deltaT v0 (xs ++ ys) = .ok r) (h₁ : run t keep fo fi deltaT v0 xs = .ok r₁) :
    r.outs.take xs.length = r₁.outs := by
  simp only [run] at h h₁
  rw [steps_append] at h
  cases hs1 : steps t keep fo fi deltaT v0 [] xs with
  | error e => rw [hs1] at h₁; simp [bind, Except.bind] at h₁
  | ok q1 =>
    have hlen := steps_length t keep fo fi deltaT xs v0 [] q1 hs1
    obtain ⟨v1, tg1, o1⟩ := q1
    rw [hs1] at h h₁
    simp only [bind, Except.bind, pure, Except.pure] at h h₁
    cases hs2 : steps t keep fo fi deltaT v1 tg1 ys with
    | error e => rw [hs2] at h; simp at h
    | ok q2 =>
      obtain ⟨v2, tg2, o2⟩ := q2
      rw [hs2] at h
      simp only at h
      have e1 : r₁.outs = o1 := by
        revert h₁
        cases cappedPiecewise t v1 t.levels with
        | error e => simp
        | ok lv =>
          cases cappedPiecewise t v1 t.areas with
          | error e => simp
          | ok ar => simp only [Except.ok.injEq]; intro h; subst h; rfl
      have e2 : r.outs = o1 ++ o2 := by
        revert h
        cases cappedPiecewise t v2 t.levels with
        | error e => simp
        | ok lv =>
          cases cappedPiecewise t v2 t.areas with
          | error e => simp
          | ok ar => simp only [Except.ok.injEq]; intro h; subst h; rfl
      rw [e1, e2]
      exact take_append_len hlen
end OW.Proofs.StorageHot
