import OW.Proofs.RRScan
import OW.Kernels.Surm
import Mathlib.Tactic.NormNum
import Mathlib.Tactic.Set
import Mathlib.Tactic.Positivity
import Mathlib.Analysis.SpecialFunctions.Exp
/-!
C10 for SURM: the one-step theorem (state invariant, components, non-negativity, water budget) and its lift to runs.
Recipe: name every intermediate of the loop body with its bounds, one linear finish.
-/
namespace OW.RR.Surm
open OW OW.Kernels.Surm

/-- `OfScientific` literals of the `Num ℝ` instance are the ordinary real literals -/
theorem sci (m : ℕ) (s : Bool) (e : ℕ) :
    @OfScientific.ofScientific ℝ (instNumReal.toOfScientific) m s e = (OfScientific.ofScientific m s e : ℝ) := rfl

/-- physically meaningful parameter ranges (fractions in [0,1], capacities in mm). `smax ≥ 10` is needed:
the ET term `min(10·sms/smax, pet)` exceeds the store when `smax < 10`. -/
structure ParamsOk (p : Params ℝ) : Prop where
  bfac0 : 0 ≤ p.bfac
  bfac1 : p.bfac ≤ 1
  coeff0 : 0 ≤ p.coeff
  dseep0 : 0 ≤ p.dseep
  dseep1 : p.dseep ≤ 1
  fc0 : 0 ≤ p.fcFrac
  fimp0 : 0 ≤ p.fimp
  fimp1 : p.fimp ≤ 1
  rfac0 : 0 ≤ p.rfac
  rfac1 : p.rfac ≤ 1
  smax10 : 10 ≤ p.smax
  thres0 : 0 ≤ p.thres

/-- stores within bounds -/
def Inv (p : Params ℝ) (s : State ℝ) : Prop := 0 ≤ s.sms ∧ s.sms ≤ p.smax ∧ 0 ≤ s.gw

/-- water held per unit catchment area (the stores belong to the pervious fraction) -/
def stor (p : Params ℝ) (s : State ℝ) : ℝ := (1 - p.fimp) * (s.sms + s.gw)

/-- what every step's outputs satisfy -/
def OutOk (o : Out ℝ) : Prop :=
  o.runoff = o.quickflow + o.baseflow ∧ 0 ≤ o.runoff ∧ 0 ≤ o.quickflow ∧ 0 ≤ o.baseflow ∧ 0 ≤ o.store

/-- the only divisor of the loop body -/
theorem divisors_pos (p : Params ℝ) (hp : ParamsOk p) : 0 < p.smax := by linarith [hp.smax10]

theorem step_spec (p : Params ℝ) (hp : ParamsOk p) (s : State ℝ) (x : ℝ × ℝ) (hs : Inv p s)
    (hx : 0 ≤ x.1 ∧ 0 ≤ x.2) :
    Inv p (step p s x).1 ∧
    (step p s x).2.runoff + stor p (step p s x).1 ≤ x.1 + stor p s ∧
    OutOk (step p s x).2 := by
  obtain ⟨rain, pet⟩ := x
  obtain ⟨hs0, hs1, hg0⟩ := hs
  obtain ⟨hr, hpet⟩ := hx
  simp only at hr hpet
  have hsmax : 0 < p.smax := divisors_pos p hp
  have hfperv0 : 0 ≤ 1 - p.fimp := by linarith [hp.fimp1]
  simp only [Inv, stor, OutOk, step, RealNum.gmax_eq, RealNum.gmin_eq, RealNum.exp_eq, RealNum.ofNat_eq]
  norm_num only
  -- infiltration
  set inf := min (p.coeff * Real.exp (-p.sq * s.sms / p.smax)) rain with hinf
  have hinf0 : 0 ≤ inf := le_min (mul_nonneg hp.coeff0 (Real.exp_pos _).le) hr
  have hinf1 : inf ≤ rain := min_le_right _ _
  set sms1 := s.sms + inf with hsms1
  -- saturation excess and the clip are the same amount
  set satx := max (sms1 - p.smax) 0 with hsatx
  set sms2 := (if p.smax < sms1 then p.smax else sms1) with hsms2
  have hsat : satx = sms1 - sms2 ∧ 0 ≤ sms2 ∧ sms2 ≤ p.smax := by
    rw [hsatx, hsms2]
    split_ifs with h
    · rw [max_eq_left (by linarith)]; exact ⟨by ring, hsmax.le, le_refl _⟩
    · rw [max_eq_right (by linarith)]; exact ⟨by ring, by linarith, by linarith⟩
  obtain ⟨hsat1, hsms20, hsms21⟩ := hsat
  have hsatx0 : 0 ≤ satx := le_max_right _ _
  -- evapotranspiration
  set et := max (min (10 * sms2 / p.smax) pet) 0 with het
  have het0 : 0 ≤ et := le_max_right _ _
  have het1 : et ≤ sms2 := by
    refine max_le (le_trans (min_le_left _ _) ?_) hsms20
    rw [div_le_iff₀ hsmax]
    nlinarith [hp.smax10]
  set sms3 := sms2 - et with hsms3
  -- recharge
  set m := max (sms3 - p.fcFrac * p.smax) 0 with hm
  have hm0 : 0 ≤ m := le_max_right _ _
  have hm1 : m ≤ sms3 := max_le (by nlinarith [hp.fc0]) (by linarith)
  set rch := p.rfac * m with hrch
  have hrch0 : 0 ≤ rch := mul_nonneg hp.rfac0 hm0
  have hrch1 : rch ≤ m := by nlinarith [hp.rfac1]
  set gw1 := s.gw + rch with hgw1
  -- seepage and baseflow
  set gw2 := max (gw1 - p.dseep * gw1) 0 with hgw2
  have hgw20 : 0 ≤ gw2 := le_max_right _ _
  have hgw21 : gw2 ≤ gw1 := max_le (by nlinarith [hp.dseep0]) (by linarith)
  set bf0 := p.bfac * gw2 with hbf0
  have hbf00 : 0 ≤ bf0 := mul_nonneg hp.bfac0 hgw20
  have hbf01 : bf0 ≤ gw2 := by nlinarith [hp.bfac1]
  set gw3 := max (gw2 - bf0) 0 with hgw3
  have hgw3e : gw3 = gw2 - bf0 := max_eq_left (by linarith)
  -- impervious part
  set imp := max (rain - p.thres) 0 with himp
  have himp0 : 0 ≤ imp := le_max_right _ _
  have himp1 : imp ≤ rain := max_le (by linarith [hp.thres0]) hr
  have hq1 : 0 ≤ imp * p.fimp := mul_nonneg himp0 hp.fimp0
  have hq2 : imp * p.fimp ≤ rain * p.fimp := mul_le_mul_of_nonneg_right himp1 hp.fimp0
  have hq3 : 0 ≤ (1 - p.fimp) * (rain - inf) := mul_nonneg hfperv0 (by linarith)
  have hq4 : 0 ≤ satx * (1 - p.fimp) := mul_nonneg hsatx0 hfperv0
  have hq5 : 0 ≤ bf0 * (1 - p.fimp) := mul_nonneg hbf00 hfperv0
  have key : imp * p.fimp + ((1 - p.fimp) * (rain - inf) + satx * (1 - p.fimp)) + bf0 * (1 - p.fimp) +
      (1 - p.fimp) * (sms3 - rch + gw3) =
      rain + (1 - p.fimp) * (s.sms + s.gw) - (rain - imp) * p.fimp - (1 - p.fimp) * (et + (gw1 - gw2)) := by
    rw [hgw3e, hsat1, hsms3, hgw1, hsms1]; ring
  have hloss : 0 ≤ (1 - p.fimp) * (et + (gw1 - gw2)) := mul_nonneg hfperv0 (by linarith)
  have hloss2 : 0 ≤ (rain - imp) * p.fimp := mul_nonneg (by linarith) hp.fimp0
  exact ⟨⟨by linarith, by linarith, by linarith⟩, by linarith, trivial, by linarith, by linarith, by linarith,
    by linarith⟩
