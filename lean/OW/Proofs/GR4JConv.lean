import OW.Proofs.GR4JSpec
import Mathlib.Algebra.BigOperators.Intervals
/-!
C15, specification side: the day-by-day unit-hydrograph bookkeeping of OW/Spec/GR4J.lean (`uhDay`: pending
deliveries) IS the discrete convolution of the paper,
  Q(t) = Σ_{k=1}^{t+1} UH(k) · x(t−k+1)   (+ what was already pending for day t at the start),
so the state-carrying form used to compare with the code adds nothing to the published equations.
-/
namespace OW.RR.GR4J
open OW

/-- the deliveries of a run of `uhDay` over a series of inputs, and the final pending vector -/
noncomputable def uhRun (ord : ℕ → ℝ) (pend : List ℝ) (xs : List ℝ) : List ℝ × List ℝ :=
  scan (fun p x => ((Spec.GR4J.uhDay ord p x).2, (Spec.GR4J.uhDay ord p x).1)) pend xs

/-- discrete convolution Σ_{i=0}^{t} ord(t−i+1) · x_i -/
noncomputable def conv (ord : ℕ → ℝ) (xs : List ℝ) (t : ℕ) : ℝ :=
  ∑ i ∈ Finset.range (t + 1), ord (t - i + 1) * xs.getD i 0

theorem uhDay_length (ord : ℕ → ℝ) (pend : List ℝ) (x : ℝ) : (Spec.GR4J.uhDay ord pend x).2.length = pend.length := by
  simp [Spec.GR4J.uhDay]

theorem uhDay_fst (ord : ℕ → ℝ) (pend : List ℝ) (x : ℝ) :
    (Spec.GR4J.uhDay ord pend x).1 = pend.getD 0 0 + x * ord 1 := by
  simp only [Spec.GR4J.uhDay, numZero]

/-- one day later, what is pending for `t` days ahead is what was pending for `t+1` days ahead plus today's
input times ordinate `t+2` (for every t, also beyond the vector: both sides vanish there) -/
theorem uhDay_pending (ord : ℕ → ℝ) (pend : List ℝ) (x : ℝ) (hord : ∀ k, pend.length < k → ord k = 0) (t : ℕ) :
    (Spec.GR4J.uhDay ord pend x).2.getD t 0 = pend.getD (t + 1) 0 + x * ord (t + 2) := by
  simp only [Spec.GR4J.uhDay, numZero]
  by_cases ht : t < pend.length
  · rw [List.getD_eq_getElem?_getD, List.getElem?_eq_getElem (by simpa using ht), Option.getD_some]
    simp only [List.getElem_map, List.getElem_range]
  · rw [List.getD_eq_getElem?_getD, List.getElem?_eq_none (by simpa using not_lt.mp ht), Option.getD_none,
      List.getD_eq_getElem?_getD, List.getElem?_eq_none (by omega), Option.getD_none, hord (t + 2) (by omega)]
    ring

theorem conv_cons (ord : ℕ → ℝ) (x : ℝ) (rest : List ℝ) (t : ℕ) :
    conv ord (x :: rest) (t + 1) = x * ord (t + 2) + conv ord rest t := by
  unfold conv
  rw [Finset.sum_range_succ']
  simp only [List.getD_cons_zero, List.getD_cons_succ, Nat.sub_zero]
  rw [add_comm]
  congr 1
  · ring
  · apply Finset.sum_congr rfl
    intro i hi
    have : i ≤ t := Nat.lt_succ_iff.mp (Finset.mem_range.mp hi)
    have e : t + 1 - (i + 1) + 1 = t - i + 1 := by omega
    rw [e]

/-- **Convolution.** Day t of a run delivers what was pending for day t at the start plus
Σ_{i≤t} ord(t−i+1)·x_i — the convolution of the inputs with the ordinates — provided the ordinates vanish beyond
the length of the pending vector (which `UH1_beyond`/`UH2_beyond` prove for the published ordinates). -/
theorem uhRun_convolution (ord : ℕ → ℝ) (xs : List ℝ) :
    ∀ (pend : List ℝ), (∀ k, pend.length < k → ord k = 0) → ∀ t, t < xs.length →
      (uhRun ord pend xs).2.getD t 0 = pend.getD t 0 + conv ord xs t := by
  induction xs with
  | nil => intro pend _ t ht; simp at ht
  | cons x rest ih =>
    intro pend hord t ht
    cases t with
    | zero =>
      simp only [uhRun, scan, List.getD_cons_zero, uhDay_fst, conv, Finset.sum_range_one, Nat.sub_zero, zero_add]
      ring
    | succ t =>
      have hlen := uhDay_length ord pend x
      have h := ih (Spec.GR4J.uhDay ord pend x).2 (by rw [hlen]; exact hord) t (by simpa using ht)
      simp only [uhRun, scan, List.getD_cons_succ] at h ⊢
      rw [h, uhDay_pending ord pend x hord t, conv_cons]
      ring

end OW.RR.GR4J
