import OW.Proofs.Sacramento
import OW.Kernels.Sacramento
/-!
C10 for Sacramento, part 1 — named pieces of the kernel model (`OW/Kernels/Sacramento.lean`, frozen) and the proof
that the kernel IS their composition (every `…_eq` below is `rfl`: the pieces are the kernel's own sub-expressions,
cut out verbatim, so that each zone can be reasoned about separately without unfolding the whole time step).

Zones of one pass of the drainage-and-percolation loop (`incBody`):
  * `bfOut`/`bfKeep`      baseflow released by / content kept in one lower-zone free-water store
  * `percVal`             percolation demand limited by the upper free water and the lower-zone air space
  * `perctwOf`/`percfwOf` split of the percolation between lower tension water and lower free water
  * `fracpOf`, `fwS`/`fwP` split of the free-water share between supplemental and primary (with the two spills)
  * `uzPart`              the whole `if uprFreeWater > 0 { … }` block
  * `fillUz`/`fillSf`     filling of the upper free water by the rain increment, surface runoff
  * `ratioOf`/`addroOf`   saturation ratio of the additional impervious area and its runoff
-/
namespace OW.RR.Sac
open OW OW.Kernels.Sacramento

section Mirror
variable {α : Type} [Num α]

/-! ### zones of `incBody` -/

def bfOut (x d : α) : α := if (0.0 : α) < x then x * d else 0.0
def bfKeep (x : α) : α := if (0.0 : α) < x then x else 0.0

def lzairOf (p : Params α) (c : Consts α) (lztwc s2 p2 : α) : α :=
  p.lztwm - lztwc + c.alzfsm - s2 + c.alzfpm - p2

def percDemand (p : Params α) (c : Consts α) (dinc uzfwc lztwc s2 p2 : α) : α :=
  (c.pbase * dinc * uzfwc) / p.uzfwm *
    (1.0 + (p.zperc * Num.pow (1.0 - (p2 + s2 + lztwc) / (c.alzfpm + c.alzfsm + p.lztwm)) p.rexp))

def percVal (p : Params α) (c : Consts α) (dinc uzfwc lztwc s2 p2 : α) : α :=
  if (0.0 : α) < lzairOf p c lztwc s2 p2 then
    Num.gmin (lzairOf p c lztwc s2 p2) (Num.gmin uzfwc (percDemand p c dinc uzfwc lztwc s2 p2))
  else 0.0

def uzAfterPerc (p : Params α) (c : Consts α) (dinc uzfwc lztwc s2 p2 : α) : α :=
  if (0.0 : α) < lzairOf p c lztwc s2 p2 then uzfwc - percVal p c dinc uzfwc lztwc s2 p2 else uzfwc

def lzair2Of (c : Consts α) (s2 p2 : α) : α := c.alzfsm - s2 + c.alzfpm - p2

def perctw0Of (p : Params α) (perc lztwc : α) : α := Num.gmin (perc * (1.0 - p.pfree)) (p.lztwm - lztwc)

def perctwOf (p : Params α) (c : Consts α) (perc lztwc s2 p2 : α) : α :=
  if lzair2Of c s2 p2 < perc - perctw0Of p perc lztwc then
    perctw0Of p perc lztwc + (perc - perctw0Of p perc lztwc) - lzair2Of c s2 p2
  else perctw0Of p perc lztwc

def percfwOf (p : Params α) (c : Consts α) (perc lztwc s2 p2 : α) : α :=
  if lzair2Of c s2 p2 < perc - perctw0Of p perc lztwc then lzair2Of c s2 p2 else perc - perctw0Of p perc lztwc

def ratlpOf (c : Consts α) (p2 : α) : α := 1.0 - p2 / c.alzfpm
def ratlsOf (c : Consts α) (s2 : α) : α := 1.0 - s2 / c.alzfsm

def fracpOf (c : Consts α) (hpl s2 p2 : α) : α :=
  Num.gmin 1.0 (hpl * (ratlpOf c p2 + ratlpOf c p2) / (ratlpOf c p2 + ratlsOf c s2))

def percs0Of (c : Consts α) (fracp percfw s2 : α) : α := Num.gmin (c.alzfsm - s2) (percfw * (1.0 - fracp))

/-- supplemental store after the split (alzfsc5 of the kernel) -/
def fwS (c : Consts α) (fracp percfw s2 p2 : α) : α :=
  let percs0 := percs0Of c fracp percfw s2
  let alzfsc3 := s2 + percs0
  let percs := if c.alzfsm < alzfsc3 then percs0 - alzfsc3 + c.alzfsm else percs0
  let alzfsc4 := if c.alzfsm < alzfsc3 then c.alzfsm else alzfsc3
  let alzfpc3 := p2 + percfw - percs
  if c.alzfpm < alzfpc3 then alzfsc4 + alzfpc3 - c.alzfpm else alzfsc4

/-- primary store after the split (alzfpc4 of the kernel) -/
def fwP (c : Consts α) (fracp percfw s2 p2 : α) : α :=
  let percs0 := percs0Of c fracp percfw s2
  let alzfsc3 := s2 + percs0
  let percs := if c.alzfsm < alzfsc3 then percs0 - alzfsc3 + c.alzfsm else percs0
  let alzfpc3 := p2 + percfw - percs
  if c.alzfpm < alzfpc3 then c.alzfpm else alzfpc3

/-- the `if uprFreeWater > VERY_SMALL { … }` block: (uzfwc, floin, lztwc, alzfsc, alzfpc, tags) -/
def uzPart (p : Params α) (c : Consts α) (dinc duz hpl uzfwc floin lztwc s2 p2 : α) :
    α × α × α × α × α × List String :=
  if (0.0 : α) < uzfwc then
    let perc := percVal p c dinc uzfwc lztwc s2 p2
    let uzfwc1 := uzAfterPerc p c dinc uzfwc lztwc s2 p2
    let percfw := percfwOf p c perc lztwc s2 p2
    let fracp := fracpOf c hpl s2 p2
    let percs0 := percs0Of c fracp percfw s2
    if (0.0 : α) < percfw then
      (uzfwc1 - duz * uzfwc1, floin + duz * uzfwc1, lztwc + perctwOf p c perc lztwc s2 p2,
        fwS c fracp percfw s2 p2, fwP c fracp percfw s2 p2,
        ["uzfw", "percfw"] ++ (if (0.0 : α) < lzairOf p c lztwc s2 p2 then ["lzair"] else ["lz_full"]) ++
        (if lzair2Of c s2 p2 < perc - perctw0Of p perc lztwc then ["percfw_excess"] else []) ++
        (if c.alzfsm < s2 + percs0 then ["spill_s"] else []) ++
        (if c.alzfpm < p2 + percfw - (if c.alzfsm < s2 + percs0 then percs0 - (s2 + percs0) + c.alzfsm else percs0)
          then ["spill_p"] else []) ++
        (if (1.0 : α) < hpl * (ratlpOf c p2 + ratlpOf c p2) / (ratlpOf c p2 + ratlsOf c s2)
          then ["fracp_clamped"] else []))
    else
      (uzfwc1 - duz * uzfwc1, floin + duz * uzfwc1, lztwc + perctwOf p c perc lztwc s2 p2, s2, p2,
        ["uzfw", "no_percfw"] ++ (if (0.0 : α) < lzairOf p c lztwc s2 p2 then ["lzair"] else ["lz_full"]) ++
        (if lzair2Of c s2 p2 < perc - perctw0Of p perc lztwc then ["percfw_excess"] else []))
  else (uzfwc, floin, lztwc, s2, p2, ["uzfw_empty"])

def pavIOf (p : Params α) (pinc uzfwc3 : α) : α := pinc - p.uzfwm + uzfwc3

def fillUz (p : Params α) (pinc uzfwc3 : α) : α :=
  if (0.0 : α) < pinc then (if pavIOf p pinc uzfwc3 ≤ 0 then uzfwc3 + pinc else p.uzfwm) else uzfwc3

def fillSf (p : Params α) (pinc flosf uzfwc3 : α) : α :=
  if (0.0 : α) < pinc then (if pavIOf p pinc uzfwc3 ≤ 0 then flosf else flosf + pavIOf p pinc uzfwc3) else flosf

def ratioOf (p : Params α) (uztwc adimc : α) : α :=
  if (adimc - uztwc) / p.lztwm < 0 then 0 else (adimc - uztwc) / p.lztwm

def addroOf (p : Params α) (uztwc pinc adimc uzfwc3 : α) : α :=
  let addro0 := pinc * ratioOf p uztwc adimc * ratioOf p uztwc adimc
  if (0.0 : α) < pinc then
    (if pavIOf p pinc uzfwc3 ≤ 0 then addro0 else addro0 + pavIOf p pinc uzfwc3 * (1.0 - addro0 / pinc))
  else addro0

/-- lower-zone free-water contents after the baseflow of one pass -/
def s2Of (dlzs : α) (v : Inner α) : α := bfKeep v.alzfsc - bfOut v.alzfsc dlzs
def p2Of (dlzp : α) (v : Inner α) : α := bfKeep v.alzfpc - bfOut v.alzfpc dlzp

/-- the `uz` tuple of one pass on the loop variables `v` -/
def uzOf (p : Params α) (c : Consts α) (dinc duz dlzp dlzs hpl : α) (v : Inner α) :
    α × α × α × α × α × List String :=
  uzPart p c dinc duz hpl v.uzfwc v.floin v.lztwc (s2Of dlzs v) (p2Of dlzp v)

variable (p : Params α) (c : Consts α) (uztwc pinc dinc duz dlzp dlzs hpl : α) (v : Inner α)

theorem incBody_alzfpc : (incBody p c uztwc pinc dinc duz dlzp dlzs hpl v).alzfpc =
    (uzOf p c dinc duz dlzp dlzs hpl v).2.2.2.2.1 := rfl
theorem incBody_alzfsc : (incBody p c uztwc pinc dinc duz dlzp dlzs hpl v).alzfsc =
    (uzOf p c dinc duz dlzp dlzs hpl v).2.2.2.1 := rfl
theorem incBody_lztwc : (incBody p c uztwc pinc dinc duz dlzp dlzs hpl v).lztwc =
    (uzOf p c dinc duz dlzp dlzs hpl v).2.2.1 := rfl
theorem incBody_floin : (incBody p c uztwc pinc dinc duz dlzp dlzs hpl v).floin =
    (uzOf p c dinc duz dlzp dlzs hpl v).2.1 := rfl
theorem incBody_uzfwc : (incBody p c uztwc pinc dinc duz dlzp dlzs hpl v).uzfwc =
    fillUz p pinc (uzOf p c dinc duz dlzp dlzs hpl v).1 := rfl
theorem incBody_flosf : (incBody p c uztwc pinc dinc duz dlzp dlzs hpl v).flosf =
    fillSf p pinc v.flosf (uzOf p c dinc duz dlzp dlzs hpl v).1 := rfl
theorem incBody_flobf : (incBody p c uztwc pinc dinc duz dlzp dlzs hpl v).flobf =
    v.flobf + bfOut v.alzfpc dlzp + bfOut v.alzfsc dlzs := rfl
theorem incBody_adimc : (incBody p c uztwc pinc dinc duz dlzp dlzs hpl v).adimc =
    v.adimc + pinc - addroOf p uztwc pinc v.adimc (uzOf p c dinc duz dlzp dlzs hpl v).1 := rfl
theorem incBody_roimp : (incBody p c uztwc pinc dinc duz dlzp dlzs hpl v).roimp =
    v.roimp + addroOf p uztwc pinc v.adimc (uzOf p c dinc duz dlzp dlzs hpl v).1 * p.adimp := rfl

/-! ### one pass of the `ii` loop -/

def nincOf (adj pav uzfwc : α) : Int := Num.toInt (Num.floor ((uzfwc * adj + pav) * 0.2)) + 1

def rateOf (n : Int) (adj k dinc : α) : α := if n = 1 ∧ (1.0 : α) ≤ adj then k else fracRate k dinc

def iiTags (adj : α) (n : Int) (v : Inner α) : Inner α :=
  { v with tags := v.tags ++ (if n = 1 ∧ (1.0 : α) ≤ adj then ["rates_direct"] else ["rates_pow"]) ++
                (if n = 1 then ["ninc=1"] else if n ≤ 0 then ["ninc<=0"] else ["ninc>1"]) }

theorem iiBody_eq (adj pav : α) : iiBody p c uztwc hpl adj pav v =
    incLoop p c uztwc (pav * (1.0 / Num.ofInt (nincOf adj pav v.uzfwc)))
      (1.0 / Num.ofInt (nincOf adj pav v.uzfwc) * adj)
      (rateOf (nincOf adj pav v.uzfwc) adj p.uzk (1.0 / Num.ofInt (nincOf adj pav v.uzfwc) * adj))
      (rateOf (nincOf adj pav v.uzfwc) adj p.lzpk (1.0 / Num.ofInt (nincOf adj pav v.uzfwc) * adj))
      (rateOf (nincOf adj pav v.uzfwc) adj p.lzsk (1.0 / Num.ofInt (nincOf adj pav v.uzfwc) * adj))
      hpl (nincOf adj pav v.uzfwc).toNat (iiTags adj (nincOf adj pav v.uzfwc) v) := rfl

/-! ### zones of `step` before the loop -/

def e1aOf (p : Params α) (uztwc evapt : α) : α := if (0.0 : α) < p.uztwm then evapt * uztwc / p.uztwm else 0.0
def e1bOf (p : Params α) (uztwc evapt : α) : α :=
  if uztwc < e1aOf p uztwc evapt then uztwc else e1aOf p uztwc evapt
def uztwc1Of (p : Params α) (uztwc evapt : α) : α :=
  if uztwc < e1aOf p uztwc evapt then 0.0 else uztwc - e1aOf p uztwc evapt
def e2aOf (p : Params α) (uztwc uzfwc evapt : α) : α :=
  if uztwc < e1aOf p uztwc evapt then Num.gmin (evapt - e1bOf p uztwc evapt) uzfwc else 0.0
def uzfwc1Of (p : Params α) (uztwc uzfwc evapt : α) : α :=
  if uztwc < e1aOf p uztwc evapt then uzfwc - e2aOf p uztwc uzfwc evapt else uzfwc

def a1Of (p : Params α) (uztwc1 : α) : α := if (0.0 : α) < p.uztwm then uztwc1 / p.uztwm else 1.0
def b1Of (p : Params α) (uzfwc1 : α) : α := if (0.0 : α) < p.uzfwm then uzfwc1 / p.uzfwm else 1.0
def uztwc2Of (p : Params α) (uztwc1 uzfwc1 : α) : α :=
  if a1Of p uztwc1 < b1Of p uzfwc1 then p.uztwm * ((uztwc1 + uzfwc1) / (p.uztwm + p.uzfwm)) else uztwc1
def uzfwc2Of (p : Params α) (uztwc1 uzfwc1 : α) : α :=
  if a1Of p uztwc1 < b1Of p uzfwc1 then p.uzfwm * ((uztwc1 + uzfwc1) / (p.uztwm + p.uzfwm)) else uzfwc1

def e3aOf (p : Params α) (evapt e1b e2a lztwc : α) : α :=
  if (0.0 : α) < p.uztwm + p.lztwm then
    Num.gmin ((evapt - e1b - e2a) * lztwc / (p.uztwm + p.lztwm)) lztwc else 0.0
def e5aOf (p : Params α) (evapt e1b e2a adimc uztwc2 : α) : α :=
  if (0.0 : α) < p.uztwm + p.lztwm then
    Num.gmin (e1b + (evapt - e1b - e2a) * (adimc - e1b - uztwc2) / (p.uztwm + p.lztwm)) adimc else 0.0

def a3Of (p : Params α) (lztwc1 : α) : α := if (0.0 : α) < p.lztwm then lztwc1 / p.lztwm else 1.0
def b3Of (p : Params α) (c : Consts α) (lztwc1 alzfsc alzfpc : α) : α :=
  if (0.0 : α) < c.alzfpm + c.alzfsm - c.saved + p.lztwm then
    (alzfpc + alzfsc - c.saved + lztwc1) / (c.alzfpm + c.alzfsm - c.saved + p.lztwm) else 1.0
def delOf (p : Params α) (c : Consts α) (lztwc1 alzfsc alzfpc : α) : α :=
  (b3Of p c lztwc1 alzfsc alzfpc - a3Of p lztwc1) * p.lztwm
def lztwc2Of (p : Params α) (c : Consts α) (lztwc1 alzfsc alzfpc : α) : α :=
  if a3Of p lztwc1 < b3Of p c lztwc1 alzfsc alzfpc then lztwc1 + delOf p c lztwc1 alzfsc alzfpc else lztwc1
def alzfsc0Of (p : Params α) (c : Consts α) (lztwc1 alzfsc alzfpc : α) : α :=
  if a3Of p lztwc1 < b3Of p c lztwc1 alzfsc alzfpc then alzfsc - delOf p c lztwc1 alzfsc alzfpc else alzfsc
def alzfpc1Of (p : Params α) (c : Consts α) (lztwc1 alzfsc alzfpc : α) : α :=
  if a3Of p lztwc1 < b3Of p c lztwc1 alzfsc alzfpc then
    (if alzfsc0Of p c lztwc1 alzfsc alzfpc < 0 then alzfpc + alzfsc0Of p c lztwc1 alzfsc alzfpc else alzfpc)
  else alzfpc
def alzfsc1Of (p : Params α) (c : Consts α) (lztwc1 alzfsc alzfpc : α) : α :=
  if a3Of p lztwc1 < b3Of p c lztwc1 alzfsc alzfpc then
    (if alzfsc0Of p c lztwc1 alzfsc alzfpc < 0 then 0.0 else alzfsc0Of p c lztwc1 alzfsc alzfpc)
  else alzfsc0Of p c lztwc1 alzfsc alzfpc

def pav0Of (p : Params α) (pliq uztwc2 : α) : α := pliq + uztwc2 - p.uztwm
def adimc2Of (p : Params α) (pliq uztwc2 adimc1 : α) : α :=
  if pav0Of p pliq uztwc2 < 0 then adimc1 + pliq else adimc1 + p.uztwm - uztwc2
def uztwc3Of (p : Params α) (pliq uztwc2 : α) : α :=
  if pav0Of p pliq uztwc2 < 0 then uztwc2 + pliq else p.uztwm
def pavOf (p : Params α) (pliq uztwc2 : α) : α :=
  if pav0Of p pliq uztwc2 < 0 then 0.0 else pav0Of p pliq uztwc2

def adjOf (pav : α) : α :=
  if pav ≤ 5.08 then 1.0 else if pav < 25.4 then 0.5 * Num.sqrt (pav / 25.4) else 1.0 - 12.7 / pav
def hplOf (c : Consts α) : α := c.alzfpm / (c.alzfpm + c.alzfsm)

/-- the one or two `ii` passes of a time step -/
def loopsOf (p : Params α) (c : Consts α) (uztwc3 pav : α) (v0 : Inner α) : Inner α :=
  if pav ≤ 5.08 then iiBody p c uztwc3 (hplOf c) (adjOf pav) pav v0
  else iiBody p c uztwc3 (hplOf c) (1.0 - adjOf pav) 0.0 (iiBody p c uztwc3 (hplOf c) (adjOf pav) pav v0)

/-- everything a time step computes before the drainage loop -/
structure Pre (α : Type) where
  e1b : α
  e2a : α
  uztwc2 : α
  uzfwc2 : α
  e3a : α
  e5a : α
  lztwc2 : α
  alzfsc1 : α
  alzfpc1 : α
  adimc2 : α
  uztwc3 : α
  pav : α

def preOf (p : Params α) (c : Consts α) (st : State α) (x : α × α) : Pre α :=
  let e1b := e1bOf p st.uztwc x.2
  let e2a := e2aOf p st.uztwc st.uzfwc x.2
  let uztwc1 := uztwc1Of p st.uztwc x.2
  let uzfwc1 := uzfwc1Of p st.uztwc st.uzfwc x.2
  let uztwc2 := uztwc2Of p uztwc1 uzfwc1
  let uzfwc2 := uzfwc2Of p uztwc1 uzfwc1
  let e3a := e3aOf p x.2 e1b e2a st.lztwc
  let e5a := e5aOf p x.2 e1b e2a st.adimc uztwc2
  let lztwc1 := st.lztwc - e3a
  ⟨e1b, e2a, uztwc2, uzfwc2, e3a, e5a,
    lztwc2Of p c lztwc1 st.alzfsc st.alzfpc, alzfsc1Of p c lztwc1 st.alzfsc st.alzfpc,
    alzfpc1Of p c lztwc1 st.alzfsc st.alzfpc,
    adimc2Of p x.1 uztwc2 (st.adimc - e5a), uztwc3Of p x.1 uztwc2, pavOf p x.1 uztwc2⟩

/-- the loop variables at the start of the drainage loop -/
def v0Of (p : Params α) (c : Consts α) (st : State α) (x : α × α) : Inner α :=
  ⟨(preOf p c st x).alzfpc1, (preOf p c st x).alzfsc1, (preOf p c st x).uzfwc2, (preOf p c st x).lztwc2,
    (preOf p c st x).adimc2, 0.0, 0.0, 0.0, x.1 * p.pctim, []⟩

/-- the loop variables after the drainage loop -/
def v2Of (p : Params α) (c : Consts α) (st : State α) (x : α × α) : Inner α :=
  loopsOf p c (preOf p c st x).uztwc3 (preOf p c st x).pav (v0Of p c st x)

def chOf (p : Params α) (c : Consts α) (st : State α) (x : α × α) : Channel α :=
  channel p c st.qq x.2 (v2Of p c st x)

variable (st : State α) (x : α × α)

theorem step_uztwc : (step p c st x).1.uztwc = (preOf p c st x).uztwc3 := rfl
theorem step_uzfwc : (step p c st x).1.uzfwc = (v2Of p c st x).uzfwc := rfl
theorem step_lztwc : (step p c st x).1.lztwc = (v2Of p c st x).lztwc := rfl
theorem step_lzfpc : (step p c st x).1.lzfpc = (chOf p c st x).lzfpc := rfl
theorem step_lzfsc : (step p c st x).1.lzfsc = (chOf p c st x).lzfsc := rfl
theorem step_adimc : (step p c st x).1.adimc = (v2Of p c st x).adimc := rfl
theorem step_alzfsc : (step p c st x).1.alzfsc = (v2Of p c st x).alzfsc := rfl
theorem step_alzfpc : (step p c st x).1.alzfpc = (v2Of p c st x).alzfpc := rfl
theorem step_qq : (step p c st x).1.qq = (chOf p c st x).qq := rfl
theorem step_runoff : (step p c st x).2.runoff = (chOf p c st x).qf := rfl
theorem step_baseflow : (step p c st x).2.baseflow = (chOf p c st x).bf := rfl
theorem step_surface : (step p c st x).2.surfaceRunoff = (chOf p c st x).qf - (chOf p c st x).bf := rfl
theorem step_impervious : (step p c st x).2.imperviousRunoff = (v2Of p c st x).roimp := rfl
theorem step_e1 : (step p c st x).2.e1 = (preOf p c st x).e1b * (1 - p.adimp - p.pctim) := rfl
theorem step_e2 : (step p c st x).2.e2 = (preOf p c st x).e2a * (1 - p.adimp - p.pctim) := rfl
theorem step_e3 : (step p c st x).2.e3 = (preOf p c st x).e3a * (1 - p.adimp - p.pctim) := rfl
theorem step_e4 : (step p c st x).2.e4 = (chOf p c st x).e4 := rfl
theorem step_e5 : (step p c st x).2.e5 = (preOf p c st x).e5a * p.adimp := rfl

end Mirror

end OW.RR.Sac
