import OW.Proofs.HotStart
/-!
N-way splits for hot-start continuity (C06): from the two-way statements `HotStart` / `HotStartWhen` to a run cut into
any number ≥ 1 of consecutive blocks. Core Lean only, any `Num α`; derived ONCE by induction on the list of blocks.

A split period is a NON-EMPTY list of blocks `b :: bs`; each block is a list of input series (the same number of series in
every block, all series of a block equally long — different blocks may have different lengths, also 0).
* `catBlocks b bs` — the uninterrupted period: series by series, the blocks appended in order
  (`catBlocks_getD`: its i-th series is the flattening of the i-th series of the blocks);
* `runBlocks km p b bs st` — the split run: block after block, each call starting from the state row returned by the
  previous one; outputs concatenated series by series, final state row = that of the last call; fails as soon as a call fails;
* `CutsOk km C p b bs st` — the side condition `C p (state row at the start of a block) (state row handed to the next
  block)` holds at EVERY cut of the split run (for the `HotStartWhen` models).
-/
namespace OW

/-- the uninterrupted period of a split into the blocks `b :: bs`: series by series, the blocks appended in order -/
def catBlocks {β} : List (List β) → List (List (List β)) → List (List β)
  | b, [] => b
  | b, b' :: bs => catSeries b (catBlocks b' bs)

/-- every block has `k` series, and all series of a block have the same length (the i-th block has length `ns[i]`) -/
def BlocksOk {β} (k : Nat) : List Nat → List (List (List β)) → Prop
  | [], [] => True
  | n :: ns, b :: bs => b.length = k ∧ AllLen n b ∧ BlocksOk k ns bs
  | _, _ => False

/-- the split run over the blocks `b :: bs`: one call per block, each starting from the state row the previous call returned;
outputs concatenated series by series, final states those of the last call (branch tags appended) -/
def runBlocks {α} (km : KModel α) (p : List α) : List (List α) → List (List (List α)) → List α → KRes α
  | b, [], st => km.run p b st
  | b, b' :: bs, st =>
    match km.run p b st with
    | .error e => .error e
    | .ok o₁ =>
      match runBlocks km p b' bs o₁.states with
      | .error e => .error e
      | .ok o₂ => .ok { outputs := catSeries o₁.outputs o₂.outputs, states := o₂.states, tags := o₁.tags ++ o₂.tags }

/-- the side condition `C` holds at every cut of the split run over `b :: bs` from `st`: for each block but the last, if its
call succeeds then `C p (state row the call started from) (state row it returns)`, and so on from the returned row -/
def CutsOk {α} (km : KModel α) (C : List α → List α → List α → Prop) (p : List α) :
    List (List α) → List (List (List α)) → List α → Prop
  | _, [], _ => True
  | b, b' :: bs, st => ∀ o₁, km.run p b st = .ok o₁ → C p st o₁.states ∧ CutsOk km C p b' bs o₁.states

/-- **N-way hot-start continuity**: if the split run over any non-empty list of blocks succeeds, the one-call run over the
concatenated blocks succeeds, with the same (concatenated) outputs and the same final state row. -/
def HotStartN {α} (km : KModel α) : Prop :=
  ∀ (p : List α) (b : List (List α)) (bs : List (List (List α))) (st : List α) (k : Nat) (ns : List Nat) (o : KOut α),
    BlocksOk k ns (b :: bs) → runBlocks km p b bs st = .ok o →
    ∃ o', km.run p (catBlocks b bs) st = .ok o' ∧ o'.outputs = o.outputs ∧ o'.states = o.states

/-- `HotStartN` for splits whose every cut satisfies the side condition `C` (`CutsOk`) -/
def HotStartWhenN {α} (km : KModel α) (C : List α → List α → List α → Prop) : Prop :=
  ∀ (p : List α) (b : List (List α)) (bs : List (List (List α))) (st : List α) (k : Nat) (ns : List Nat) (o : KOut α),
    BlocksOk k ns (b :: bs) → CutsOk km C p b bs st → runBlocks km p b bs st = .ok o →
    ∃ o', km.run p (catBlocks b bs) st = .ok o' ∧ o'.outputs = o.outputs ∧ o'.states = o.states

/-! ### shape of a concatenation -/

theorem catSeries_length {β} (a b : List (List β)) (h : a.length = b.length) : (catSeries a b).length = a.length := by
  simp [catSeries, List.length_zipWith, h]

theorem catSeries_allLen {β} {n m : Nat} {a b : List (List β)} (ha : AllLen n a) (hb : AllLen m b) :
    AllLen (n + m) (catSeries a b) := by
  induction a generalizing b with
  | nil => intro s hs; simp [catSeries] at hs
  | cons x xs ih =>
    cases b with
    | nil => intro s hs; simp [catSeries] at hs
    | cons y ys =>
      intro s hs
      simp only [catSeries, List.zipWith_cons_cons, List.mem_cons] at hs
      rcases hs with rfl | hs
      · rw [List.length_append, ha x List.mem_cons_self, hb y List.mem_cons_self]
      · exact ih (fun u hu => ha u (List.mem_cons_of_mem _ hu)) (fun u hu => hb u (List.mem_cons_of_mem _ hu)) s hs

/-- the concatenation of well-shaped blocks has `k` series, each of length the sum of the block lengths -/
theorem catBlocks_shape {β} (k : Nat) (ns : List Nat) (b : List (List β)) (bs : List (List (List β)))
    (h : BlocksOk k ns (b :: bs)) : (catBlocks b bs).length = k ∧ AllLen ns.sum (catBlocks b bs) := by
  induction bs generalizing b ns with
  | nil =>
    match ns, h with
    | [n], ⟨hk, hn, _⟩ => exact ⟨hk, by simpa [catBlocks] using hn⟩
    | _ :: _ :: _, ⟨_, _, hf⟩ => exact absurd hf (by simp [BlocksOk])
  | cons b' bs ih =>
    match ns, h with
    | [_], ⟨_, _, hf⟩ => exact absurd hf (by simp [BlocksOk])
    | n :: n' :: ns', ⟨hk, hn, hrest⟩ =>
      obtain ⟨hk', hn'⟩ := ih (n' :: ns') b' hrest
      refine ⟨?_, ?_⟩
      · show (catSeries b (catBlocks b' bs)).length = k
        rw [catSeries_length _ _ (by rw [hk, hk']), hk]
      · show AllLen (n :: n' :: ns').sum (catSeries b (catBlocks b' bs))
        rw [List.sum_cons]
        exact catSeries_allLen hn hn'

/-- the i-th series of a series-wise concatenation (blocks with the same number of series) -/
theorem catSeries_getD {β} (b c : List (List β)) (hlen : b.length = c.length) (i : Nat) :
    (catSeries b c).getD i [] = b.getD i [] ++ c.getD i [] := by
  induction b generalizing c i with
  | nil =>
    cases c with
    | nil => simp [catSeries]
    | cons _ _ => simp at hlen
  | cons x xs ihx =>
    cases c with
    | nil => simp at hlen
    | cons y ys =>
      cases i with
      | zero => simp [catSeries]
      | succ j =>
        have := ihx ys (by simpa using hlen) j
        simpa [catSeries] using this

/-- what `catBlocks` is, series by series: the i-th series of the uninterrupted period is the i-th series of the first block,
then of the second block, … (blocks with the same number of series) -/
theorem catBlocks_getD {β} (k : Nat) (ns : List Nat) (b : List (List β)) (bs : List (List (List β)))
    (h : BlocksOk k ns (b :: bs)) (i : Nat) :
    (catBlocks b bs).getD i [] = ((b :: bs).map (fun blk => blk.getD i [])).flatten := by
  induction bs generalizing b ns with
  | nil => simp [catBlocks]
  | cons b' bs ih =>
    match ns, h with
    | [_], ⟨_, _, hf⟩ => exact absurd hf (by simp [BlocksOk])
    | n :: n' :: ns', ⟨hk, hn, hrest⟩ =>
      have hk' := (catBlocks_shape k (n' :: ns') b' bs hrest).1
      have e := ih (n' :: ns') b' hrest
      show (catSeries b (catBlocks b' bs)).getD i [] = _
      rw [List.map_cons, List.flatten_cons, ← e]
      exact catSeries_getD b (catBlocks b' bs) (by rw [hk, hk']) i

/-! ### the induction -/

/-- **two-way ⇒ N-way, with a side condition at every cut.** -/
theorem HotStartWhen.toN {α} {km : KModel α} {C : List α → List α → List α → Prop} (h : HotStartWhen km C) :
    HotStartWhenN km C := by
  intro p b bs
  induction bs generalizing b with
  | nil =>
    intro st k ns o _ _ hr
    exact ⟨o, hr, rfl, rfl⟩
  | cons b' bs ih =>
    intro st k ns o hok hcut hr
    match ns, hok with
    | [_], ⟨_, _, hf⟩ => exact absurd hf (by simp [BlocksOk])
    | n :: n' :: ns', ⟨hk, hn, hrest⟩ =>
      simp only [runBlocks] at hr
      cases h₁ : km.run p b st with
      | error e => rw [h₁] at hr; simp at hr
      | ok o₁ =>
        rw [h₁] at hr
        simp only at hr
        obtain ⟨hc, hcut'⟩ := hcut o₁ h₁
        cases hrest' : runBlocks km p b' bs o₁.states with
        | error e => rw [hrest'] at hr; simp at hr
        | ok o₂ =>
          rw [hrest'] at hr
          simp only [Except.ok.injEq] at hr
          subst hr
          obtain ⟨o₂', hrun₂, hout₂, hst₂⟩ := ih b' o₁.states k (n' :: ns') o₂ hrest hcut' hrest'
          obtain ⟨hk', hn'⟩ := catBlocks_shape k (n' :: ns') b' bs hrest
          obtain ⟨o', hrun, hout, hst⟩ := h p b (catBlocks b' bs) st n (n' :: ns').sum o₁ o₂' (by rw [hk, hk']) hn hn' h₁ hrun₂ hc
          exact ⟨o', hrun, by rw [hout, hout₂], by rw [hst, hst₂]⟩

/-- no side condition: every cut is fine -/
theorem cutsOk_true {α} (km : KModel α) (p : List α) (b : List (List α)) (bs : List (List (List α))) (st : List α) :
    CutsOk km (fun _ _ _ => True) p b bs st := by
  induction bs generalizing b st with
  | nil => trivial
  | cons b' bs ih => exact fun o₁ _ => ⟨trivial, ih b' o₁.states⟩

/-- a side condition that holds for this parameter column whatever the state rows are holds at every cut -/
theorem cutsOk_of_param {α} (km : KModel α) {C : List α → List α → List α → Prop} (p : List α)
    (hC : ∀ st s, C p st s) (b : List (List α)) (bs : List (List (List α))) (st : List α) : CutsOk km C p b bs st := by
  induction bs generalizing b st with
  | nil => trivial
  | cons b' bs ih => exact fun o₁ _ => ⟨hC _ _, ih b' o₁.states⟩

/-- **two-way ⇒ N-way.** -/
theorem HotStart.toN {α} {km : KModel α} (h : HotStart km) : HotStartN km := by
  intro p b bs st k ns o hok hr
  exact ((hotStart_iff_when km).mp h).toN p b bs st k ns o hok (cutsOk_true km p b bs st) hr

/-- a two-way split is the N-way statement for two blocks -/
theorem HotStartN.two {α} {km : KModel α} (h : HotStartN km) : HotStart km := by
  intro p a b st n₁ n₂ o₁ o₂ hl ha hb h₁ h₂
  have hr : runBlocks km p a [b] st =
      .ok { outputs := catSeries o₁.outputs o₂.outputs, states := o₂.states, tags := o₁.tags ++ o₂.tags } := by
    simp only [runBlocks, h₁, h₂]
  obtain ⟨o', hrun, hout, hst⟩ := h p a [b] st a.length [n₁, n₂] _ ⟨rfl, ha, hl.symm, hb, trivial⟩ hr
  exact ⟨o', hrun, hout, hst⟩

end OW
