import OW.Kernels.Climate
import OW.Proofs.RealNum
import Mathlib.Tactic.Linarith
import Mathlib.Tactic.Positivity
import Mathlib.Tactic.NormNum
import Mathlib.Tactic.Ring
import Mathlib.Analysis.SpecialFunctions.Log.Base
import Mathlib.Analysis.SpecialFunctions.Pow.Real
import Mathlib.Analysis.Complex.ExponentialBounds
/-!
Helper lemmas for C20: the two Goff-Gratch branches of `vaporPressure` at `α := ℝ` in closed form, and the elementary
inequalities used for their monotonicity.
-/
namespace OW.Proofs.Climate
open OW OW.Kernels.Climate

theorem ofNat_lit (n : Nat) [n.AtLeastTwo] : (@OfNat.ofNat ℝ n (Num.instOfNat n)) = (OfNat.ofNat n : ℝ) := by
  rw [RealNum.ofNat_eq]

theorem zero_lit : (@OfNat.ofNat ℝ 0 (Num.instOfNat 0)) = 0 := by
  rw [RealNum.ofNat_eq]; exact Nat.cast_zero

theorem one_lit : (@OfNat.ofNat ℝ 1 (Num.instOfNat 1)) = 1 := by
  rw [RealNum.ofNat_eq]; exact Nat.cast_one

theorem log10_eq (x : ℝ) : Num.log10 x = Real.logb 10 x := by
  show Real.logb (@OfNat.ofNat ℝ 10 (Num.instOfNat 10)) x = _
  rw [ofNat_lit 10]

/-- exponent of the ice branch as a function of `z = 273.16 / (T + 273.16)` -/
noncomputable def expIce (z : ℝ) : ℝ :=
  -9.09718 * (z - 1) + -3.56654 * Real.logb 10 z + 0.876793 * (1 - 1 / z) + Real.logb 10 0.0060273

/-- exponent of the water branch as a function of `z = 373.16 / (T + 273.16)` -/
noncomputable def expWater (z : ℝ) : ℝ :=
  (z - 1) * -7.90298 + Real.logb 10 z * 5.02808 + ((10:ℝ) ^ ((1 - 1 / z) * 11.344) - 1) * -0.00000013816
    + ((10:ℝ) ^ (-3.49149 * (z - 1)) - 1) * 0.0081328

theorem vp_ice (t : ℝ) (h : ¬ 0 < t) :
    vaporPressure t = 101.325 * (10:ℝ) ^ expIce (273.16 / (t + 273.16)) := by
  unfold vaporPressure expIce
  simp only [RealNum.pow_eq, log10_eq, zero_lit, one_lit, ofNat_lit 10]
  rw [if_neg h]

theorem vp_water (t : ℝ) (h : 0 < t) :
    vaporPressure t = 101.325 * (10:ℝ) ^ expWater (373.16 / (t + 273.16)) := by
  unfold vaporPressure expWater
  simp only [RealNum.pow_eq, log10_eq, zero_lit, one_lit, ofNat_lit 10]
  rw [if_pos h]

theorem one_lt_log_ten : 1 < Real.log 10 := by
  rw [Real.lt_log_iff_exp_lt (by norm_num)]
  have := Real.exp_one_lt_three
  linarith

/-- `log₁₀ a − log₁₀ b ≤ a − b` for `1 ≤ b ≤ a` -/
theorem logb_sub_le {a b : ℝ} (hb : 1 ≤ b) (hab : b ≤ a) : Real.logb 10 a - Real.logb 10 b ≤ a - b := by
  have hbpos : 0 < b := by linarith
  have hapos : 0 < a := by linarith
  have h1 : Real.logb 10 a - Real.logb 10 b = Real.log (a / b) / Real.log 10 := by
    unfold Real.logb
    rw [Real.log_div (ne_of_gt hapos) (ne_of_gt hbpos)]
    ring
  have h2 : Real.log (a / b) ≤ a / b - 1 := Real.log_le_sub_one_of_pos (by positivity)
  have h3 : a / b - 1 ≤ a - b := by
    rw [div_sub_one (ne_of_gt hbpos), div_le_iff₀ hbpos]
    nlinarith
  have h4 : 0 ≤ Real.log (a / b) := Real.log_nonneg (by rw [le_div_iff₀ hbpos]; linarith)
  have hl := one_lt_log_ten
  rw [h1]
  calc Real.log (a / b) / Real.log 10 ≤ Real.log (a / b) / 1 :=
        div_le_div_of_nonneg_left h4 (by norm_num) hl.le
    _ = Real.log (a / b) := by ring
    _ ≤ a - b := le_trans h2 h3

/-- the ice exponent is strictly decreasing in `z` on `z ≥ 1` -/
theorem expIce_strictAnti {z1 z2 : ℝ} (h2 : 1 ≤ z2) (h : z2 < z1) : expIce z1 < expIce z2 := by
  unfold expIce
  have hz2 : 0 < z2 := by linarith
  have hz1 : 0 < z1 := by linarith
  have hl : Real.logb 10 z2 < Real.logb 10 z1 := Real.logb_lt_logb (by norm_num) hz2 h
  have hinv : 1 / z2 - 1 / z1 ≤ z1 - z2 := by
    rw [div_sub_div _ _ (ne_of_gt hz2) (ne_of_gt hz1), div_le_iff₀ (by positivity)]
    have : 1 ≤ z2 * z1 := by nlinarith
    nlinarith
  nlinarith

/-- the water exponent is strictly decreasing in `z` on `z ≥ 1` -/
theorem expWater_strictAnti {z1 z2 : ℝ} (h2 : 1 ≤ z2) (h : z2 < z1) : expWater z1 < expWater z2 := by
  unfold expWater
  have hz2 : 0 < z2 := by linarith
  have hz1 : 0 < z1 := by linarith
  have hl : Real.logb 10 z1 - Real.logb 10 z2 ≤ z1 - z2 := logb_sub_le h2 h.le
  have hinv : 1 / z1 ≤ 1 / z2 := one_div_le_one_div_of_le hz2 h.le
  have hP : (10:ℝ) ^ ((1 - 1 / z2) * 11.344) ≤ (10:ℝ) ^ ((1 - 1 / z1) * 11.344) := by
    apply Real.rpow_le_rpow_of_exponent_le (by norm_num)
    nlinarith
  have hQ : (10:ℝ) ^ (-3.49149 * (z1 - 1)) ≤ (10:ℝ) ^ (-3.49149 * (z2 - 1)) := by
    apply Real.rpow_le_rpow_of_exponent_le (by norm_num)
    nlinarith
  nlinarith

end OW.Proofs.Climate
