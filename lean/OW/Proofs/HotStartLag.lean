import OW.Proofs.HotStart
import OW.Proofs.Lag
/-!
Hot-start continuity of the `Lag` kernel: the delay buffer is the state row, and lagging `a ++ b` from a buffer equals
lagging `a`, then lagging `b` from the buffer left by `a`. Pure list theory (core Lean only).
-/
set_option linter.unusedSimpArgs false
set_option linter.unusedSectionVars false
namespace OW.Proofs.Lag
open OW OW.Kernels.Lag

variable {α : Type} [Inhabited α]

theorem ext_getD {l₁ l₂ : List α} (hlen : l₁.length = l₂.length)
    (h : ∀ i, i < l₁.length → l₁.getD i default = l₂.getD i default) : l₁ = l₂ := by
  apply List.ext_getElem hlen
  intro i h1 h2
  have := h i h1
  simpa [List.getD_eq_getElem?_getD, List.getElem?_eq_getElem h1, List.getElem?_eq_getElem h2] using this

theorem getD_append' (l₁ l₂ : List α) (k : Nat) (d : α) :
    (l₁ ++ l₂).getD k d = if k < l₁.length then l₁.getD k d else l₂.getD (k - l₁.length) d := by
  simp only [List.getD_eq_getElem?_getD]
  by_cases h : k < l₁.length
  · rw [if_pos h, List.getElem?_append_left h]
  · rw [if_neg h, List.getElem?_append_right (by omega)]

/-- `lagCore` over a concatenated inflow = `lagCore` over the first part, then over the second part from the buffer
the first part left. Any lag ≥ 0, any part lengths (shorter or longer than the lag), any buffer with at least `lag` cells. -/
theorem lagCore_append (lag : Nat) (ia ib lagged : List α) (za zb zab : List α)
    (hza : za.length = ia.length) (hzb : zb.length = ib.length) (hzab : zab.length = (ia ++ ib).length)
    (hlen : lag ≤ lagged.length) :
    (lagCore lag (ia ++ ib) lagged zab).outflow =
        (lagCore lag ia lagged za).outflow ++ (lagCore lag ib (lagCore lag ia lagged za).lagged zb).outflow ∧
    (lagCore lag (ia ++ ib) lagged zab).lagged = (lagCore lag ib (lagCore lag ia lagged za).lagged zb).lagged := by
  obtain ⟨hoW, gW⟩ := lagCore_outflow lag (ia ++ ib) lagged zab hzab
  obtain ⟨hoA, gA⟩ := lagCore_outflow lag ia lagged za hza
  obtain ⟨hlA, lA⟩ := lagCore_lagged lag ia lagged za hlen
  obtain ⟨hoB, gB⟩ := lagCore_outflow lag ib (lagCore lag ia lagged za).lagged zb hzb
  obtain ⟨hlB, lB⟩ := lagCore_lagged lag ib (lagCore lag ia lagged za).lagged zb (by rw [hlA]; exact hlen)
  obtain ⟨hlW, lW⟩ := lagCore_lagged lag (ia ++ ib) lagged zab hlen
  constructor
  · apply ext_getD
    · rw [hoW, List.length_append, List.length_append, hoA, hoB]
    · intro i hi
      rw [hoW] at hi
      rw [gW i hi, getD_append' (lagCore lag ia lagged za).outflow, hoA, getD_append' ia ib]
      simp only [List.length_append] at hi
      by_cases h1 : i < ia.length
      · rw [if_pos h1, gA i h1]
        by_cases h2 : i < lag
        · rw [if_pos h2, if_pos h2]
        · rw [if_neg h2, if_neg h2, if_pos (by omega)]
      · rw [if_neg h1, gB _ (by omega)]
        by_cases h2 : i < lag
        · rw [if_pos h2, if_pos (by omega), lA, if_pos (by omega)]
          have e : i - ia.length + ia.length = i := by omega
          rw [e, if_pos h2]
        · rw [if_neg h2]
          by_cases h3 : i - ia.length < lag
          · rw [if_pos h3, lA, if_pos h3]
            have e : i - ia.length + ia.length = i := by omega
            rw [e, if_neg h2, if_pos (by omega)]
          · rw [if_neg h3, if_neg (by omega)]
            congr 1; omega
  · apply ext_getD
    · rw [hlW, hlB, hlA]
    · intro j _
      rw [lW, lB]
      simp only [List.length_append]
      by_cases h1 : j < lag
      · rw [if_pos h1, if_pos h1]
        by_cases h2 : j + ib.length < lag
        · rw [if_pos h2, lA, if_pos h2]
          by_cases h3 : j + ib.length + ia.length < lag
          · rw [if_pos h3, if_pos (by omega)]
            congr 1; omega
          · rw [if_neg h3, if_neg (by omega), getD_append', if_pos (by omega)]
            congr 1; omega
        · rw [if_neg h2, if_neg (by omega), getD_append', if_neg (by omega)]
          congr 1; omega
      · rw [if_neg h1, if_neg h1, lA, if_neg h1]

/-- the whole kernel (`run`): same statement including the lag-0 path and the failure paths -/
theorem run_append {α : Type} [Num α] (tl : α) (ia ib st : List α) (r₁ r₂ : Out α)
    (h₁ : run tl ia st = .ok r₁) (h₂ : run tl ib r₁.lagged = .ok r₂) :
    run tl (ia ++ ib) st = .ok ⟨r₁.outflow ++ r₂.outflow, r₂.lagged⟩ := by
  unfold run at h₁ h₂ ⊢
  simp only at h₁ h₂ ⊢
  by_cases h0 : (Num.toInt tl == 0) = true
  · simp only [h0, if_true, Except.ok.injEq] at h₁ h₂ ⊢
    subst h₁; subst h₂; rfl
  · simp only [h0, Bool.false_eq_true, if_false] at h₁ h₂ ⊢
    by_cases hneg : Num.toInt tl < 0
    · simp [hneg] at h₁
    · simp only [hneg, if_false] at h₁ h₂ ⊢
      by_cases hs : st.length < (Num.toInt tl).toNat
      · simp [hs] at h₁
      · simp only [hs, Bool.false_eq_true, if_false, Except.ok.injEq] at h₁ ⊢
        subst h₁
        have hl : (lagCore (Num.toInt tl).toNat ia st (zeros ia.length)).lagged.length = st.length :=
          (lagCore_lagged _ ia st _ (by omega)).1
        rw [hl] at h₂
        simp only [hs, Bool.false_eq_true, if_false, Except.ok.injEq] at h₂
        subst h₂
        obtain ⟨e1, e2⟩ := lagCore_append (Num.toInt tl).toNat ia ib st (zeros ia.length) (zeros ib.length)
          (zeros (ia ++ ib).length) (by simp [zeros]) (by simp [zeros]) (by simp [zeros]) (by omega)
        rw [← e1, ← e2]
end OW.Proofs.Lag
