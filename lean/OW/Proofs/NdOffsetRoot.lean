import OW.Proofs.NdC03Prog
/-!
Offset roots: views whose root is `View.root dims st` with `st ≥ 0` — what `Reshape` of a contiguous C-backed view with
`Start > 0` returns (`cAliasArr`): the same pointer, a root view whose `Start` is the old view's `Start`.
Such views are not `Reach` (`Reach.root` has `Start = 0`), so the frozen C01/C02 theorems do not mention them.

This file:
* `ReachOff st v` — like `Reach`, but the root may start at `st ≥ 0`; `reachOff_iff`: `ReachOff st v` iff the view with
  its `Start` reduced by `st` (`shiftV v (-st)`) is `Reach`;
* `unshift st c` — the array with the view shifted back by `st` over the window moved forward by `st`
  (`base + st`, `len - st`): it denotes the same cells (`readAt_unshift`, `writeAt_unshift`: `Impl[p + st]` of the one is
  `Impl[p]` of the other, as long as `p + st` is below the `1 << 30` bound of the C array type);
* `Norm c c'` — `c'` is `c` itself or its `unshift` (`Sh st c c'`, C-backed only), the NORMAL FORM of `c`;
* the transfer lemmas: every operation of the program fragment of `NdC03Prog` on `c` equals the same operation on its
  normal form `c'` (which is in the domain of the frozen theorems): `get`, `set`, `slice`, `getAll`, `setAll`,
  `unroll`, `extremum`, `apply`, `contiguous` here; the two-array operations in `NdOffsetBulk.lean`.
-/
namespace OW.NdOff
open OW.Nd OW.NdC02 OW.NdC03

/-! ### shifting the start of a view -/

/-- the view with `Start` moved by `d` -/
def shiftV (v : View) (d : Int) : View := { v with start := v.start + d }

@[simp] theorem shiftV_orig (v : View) (d : Int) : (shiftV v d).orig = v.orig := rfl
@[simp] theorem shiftV_dims (v : View) (d : Int) : (shiftV v d).dims = v.dims := rfl
@[simp] theorem shiftV_start (v : View) (d : Int) : (shiftV v d).start = v.start + d := rfl
@[simp] theorem shiftV_offset (v : View) (d : Int) : (shiftV v d).offset = v.offset := rfl
@[simp] theorem shiftV_step (v : View) (d : Int) : (shiftV v d).step = v.step := rfl
@[simp] theorem shiftV_offStep (v : View) (d : Int) : (shiftV v d).offStep = v.offStep := rfl
@[simp] theorem shiftV_size (v : View) (d : Int) : (shiftV v d).size = v.size := rfl
@[simp] theorem shiftV_ndims (v : View) (d : Int) : (shiftV v d).ndims = v.ndims := rfl
@[simp] theorem shiftV_newIndex (v : View) (d x : Int) : (shiftV v d).newIndex x = v.newIndex x := rfl

theorem shiftV_zero (v : View) : shiftV v 0 = v := by
  cases v; simp [shiftV]

theorem shiftV_shiftV (v : View) (a b : Int) : shiftV (shiftV v a) b = shiftV v (a + b) := by
  cases v; simp [shiftV, Int.add_assoc]

theorem shiftV_neg_cancel (v : View) (d : Int) : shiftV (shiftV v (-d)) d = v := by
  rw [shiftV_shiftV]; simp [shiftV_zero]

theorem shiftV_cancel_neg (v : View) (d : Int) : shiftV (shiftV v d) (-d) = v := by
  rw [shiftV_shiftV]; simp [shiftV_zero]

/-- `Index` of the shifted view is `Index` plus the shift -/
theorem shiftV_index (v : View) (d : Int) (loc : Idx) : (shiftV v d).index loc = (v.index loc).map (· + d) := by
  unfold View.index
  simp only [shiftV_offStep, shiftV_start]
  cases View.indexAux loc v.offStep with
  | error e => rfl
  | ok r =>
    simp only [bind, Except.bind, pure, Except.pure, Except.map]
    congr 1; omega

/-- `SliceInto` commutes with the shift -/
theorem shiftV_sliceInto (v : View) (d : Int) (loc dims : Idx) (step : Option Idx) :
    (shiftV v d).sliceInto loc dims step = (v.sliceInto loc dims step).map (shiftV · d) := by
  unfold View.sliceInto
  simp only [shiftV_offStep, shiftV_start, shiftV_step, shiftV_offset, shiftV_orig]
  cases dotProduct loc v.offStep with
  | error e => rfl
  | ok dp =>
    cases step with
    | none =>
      simp only [bind, Except.bind, pure, Except.pure]
      cases multiply v.step v.offset with
      | error e => rfl
      | ok os =>
        simp only [Except.map, shiftV]
        congr 2; omega
    | some s =>
      simp only [bind, Except.bind, pure, Except.pure]
      cases multiply v.step s with
      | error e => rfl
      | ok st =>
        simp only
        cases multiply st v.offset with
        | error e => rfl
        | ok os =>
          simp only [Except.map, shiftV]
          congr 2; omega

theorem shiftV_contigLoop (v : View) (d : Int) : ∀ (n : Nat) (co : Int) (must : Bool),
    (shiftV v d).contigLoop n co must = v.contigLoop n co must
  | 0, _, _ => rfl
  | n + 1, co, must => by
    unfold View.contigLoop
    simp only [shiftV_dims, shiftV_step, shiftV_offset, shiftV_orig]
    cases v.dims[n]? with
    | none => rfl
    | some dd =>
      simp only
      split
      · rfl
      · rfl
      · rename_i heq
        cases v.orig[n]? with
        | none => rfl
        | some od => exact shiftV_contigLoop v d n _ _

/-- `Contiguous()` does not look at `Start` -/
theorem shiftV_contiguous (v : View) (d : Int) : (shiftV v d).contiguous = v.contiguous := by
  unfold View.contiguous
  exact shiftV_contigLoop v d _ _ _

theorem shiftV_root (dims : Idx) (st d : Int) : View.root dims (st + d) = (View.root dims st).map (shiftV · d) := by
  unfold View.root
  cases offsets dims with
  | error e => rfl
  | ok off =>
    simp only [bind, Except.bind, pure, Except.pure]
    cases multiply (uniform dims.length 1) off with
    | error e => rfl
    | ok os => rfl

theorem shiftV_rootView (dims : Idx) (st d : Int) : shiftV (rootView dims st) d = rootView dims (st + d) := rfl

/-! ### the vocabulary -/

/-- `ReachOff st v`: `v` is the metadata of a root of extents ≥ 1 that starts at address `st ≥ 0`, or of an in-bounds
slice of such a view. `ReachOff 0` is `Reach` (`reachOff_zero`). -/
inductive ReachOff : Int → View → Prop
  | root {dims : Idx} {st : Int} {v : View} (hne : dims ≠ []) (hpos : Pos dims) (hst : 0 ≤ st)
      (h : View.root dims st = .ok v) : ReachOff st v
  | slice {st : Int} {v w : View} {loc dims : Idx} {step : Option Idx} (hv : ReachOff st v)
      (ok : SliceOK v.dims loc dims (stepOr v.dims.length step))
      (h : v.sliceInto loc dims step = .ok w) : ReachOff st w

theorem ReachOff.nonneg {st : Int} {v : View} (h : ReachOff st v) : 0 ≤ st := by
  induction h with
  | root _ _ hst _ => exact hst
  | slice _ _ _ ih => exact ih

/-- **translation (views).** an offset-root view with its `Start` reduced by the root offset is a `Reach` view -/
theorem ReachOff.shift {st : Int} {v : View} (h : ReachOff st v) : Reach (shiftV v (-st)) := by
  induction h with
  | @root dims st v hne hpos hst h =>
    refine Reach.root hne hpos ?_
    have := shiftV_root dims st (-st)
    rw [h] at this
    simpa [Except.map] using this
  | @slice st v w loc dims step _ ok h ih =>
    refine Reach.slice ih ok ?_
    rw [shiftV_sliceInto, h]; rfl

theorem Reach.toOff {v : View} (h : Reach v) {st : Int} (hst : 0 ≤ st) : ReachOff st (shiftV v st) := by
  induction h with
  | @root dims v hne hpos h =>
    refine ReachOff.root hne hpos hst ?_
    have := shiftV_root dims 0 st
    rw [h] at this
    simpa [Except.map] using this
  | @slice v w loc dims step _ ok h ih =>
    refine ReachOff.slice ih ok ?_
    rw [shiftV_sliceInto, h]; rfl

theorem reachOff_iff {st : Int} {v : View} : ReachOff st v ↔ 0 ≤ st ∧ Reach (shiftV v (-st)) := by
  constructor
  · intro h; exact ⟨h.nonneg, h.shift⟩
  · rintro ⟨h0, h⟩
    have := Reach.toOff h h0
    rwa [shiftV_neg_cancel] at this

theorem reachOff_zero {v : View} : ReachOff 0 v ↔ Reach v := by
  rw [reachOff_iff]; simp [shiftV_zero]

/-- the root view `Reshape` of a contiguous C-backed view builds is an offset root -/
theorem reachOff_rootView {s : Idx} (hs : s ≠ []) (hp : Pos s) {st : Int} (hst : 0 ≤ st) : ReachOff st (rootView s st) :=
  .root hs hp hst (root_eq s st hs)

/-! ### arrays: the normal form -/

section
variable {α : Type}

/-- the view shifted back by `st` over the window moved forward by `st` -/
def unshift (st : Int) (c : Arr) : Arr :=
  { v := shiftV c.v (-st), sid := c.sid, base := c.base + st, len := c.len - st, isC := c.isC }

/-- **translation (cells), reads.** `Impl[p + st]` of a C-backed array is `Impl[p]` of its `unshift`, for
`0 ≤ p`, `p + st < 1 << 30` -/
theorem readAt_unshift (h : Heap α) {c : Arr} {st p : Int} (hC : c.isC = true) (hst : 0 ≤ st) (p0 : 0 ≤ p)
    (p1 : p + st < 1073741824) : readAt h c (p + st) = readAt h (unshift st c) p := by
  have e : c.base + st + p = c.base + (p + st) := by omega
  unfold readAt
  simp only [unshift, hC, if_true, e]
  cases storeOf h c.sid with
  | error m => rfl
  | ok s =>
    simp only [bind, Except.bind]
    rw [if_pos (⟨by omega, p1⟩ : 0 ≤ p + st ∧ p + st < 1073741824),
      if_pos (⟨p0, by omega⟩ : 0 ≤ p ∧ p < 1073741824)]

/-- **translation (cells), writes.** -/
theorem writeAt_unshift (h : Heap α) {c : Arr} {st p : Int} (hC : c.isC = true) (hst : 0 ≤ st) (p0 : 0 ≤ p)
    (p1 : p + st < 1073741824) (x : α) : writeAt h c (p + st) x = writeAt h (unshift st c) p x := by
  have e : c.base + st + p = c.base + (p + st) := by omega
  unfold writeAt
  simp only [unshift, hC, if_true, e]
  cases storeOf h c.sid with
  | error m => rfl
  | ok s =>
    simp only [bind, Except.bind]
    rw [if_pos (⟨by omega, p1⟩ : 0 ≤ p + st ∧ p + st < 1073741824),
      if_pos (⟨p0, by omega⟩ : 0 ≤ p ∧ p < 1073741824)]

/-- `c'` is the `unshift` by `st ≥ 0` of the C-backed array `c`, and the addresses `st + [0, Π OriginalDims)` stay below the
`1 << 30` bound of the C array type -/
structure Sh (st : Int) (c c' : Arr) : Prop where
  isC : c.isC = true
  nonneg : 0 ≤ st
  eq : c' = unshift st c
  bound : st + product c.v.orig ≤ 1073741824

/-- `c'` is the normal form of `c`: `c` itself, or its `unshift` -/
def Norm (c c' : Arr) : Prop := c' = c ∨ ∃ st, Sh st c c'

theorem Norm.refl (c : Arr) : Norm c c := Or.inl rfl

theorem Sh.view {st : Int} {c c' : Arr} (s : Sh st c c') : c.v = shiftV c'.v st := by
  rw [s.eq]; simp [unshift, shiftV_neg_cancel]

theorem Norm.dims {c c' : Arr} (n : Norm c c') : c.v.dims = c'.v.dims := by
  rcases n with rfl | ⟨st, s⟩
  · rfl
  · rw [s.eq]; rfl

theorem Norm.orig {c c' : Arr} (n : Norm c c') : c.v.orig = c'.v.orig := by
  rcases n with rfl | ⟨st, s⟩
  · rfl
  · rw [s.eq]; rfl

theorem Norm.isC {c c' : Arr} (n : Norm c c') : c.isC = c'.isC := by
  rcases n with rfl | ⟨st, s⟩
  · rfl
  · rw [s.eq]; rfl

theorem Norm.sid {c c' : Arr} (n : Norm c c') : c.sid = c'.sid := by
  rcases n with rfl | ⟨st, s⟩
  · rfl
  · rw [s.eq]; rfl

theorem Norm.size {c c' : Arr} (n : Norm c c') : c.v.size = c'.v.size := by
  unfold View.size; rw [n.dims]

theorem Norm.contiguous {c c' : Arr} (n : Norm c c') : c.v.contiguous = c'.v.contiguous := by
  rcases n with rfl | ⟨st, s⟩
  · rfl
  · rw [s.view, shiftV_contiguous]

theorem Norm.newIndex {c c' : Arr} (n : Norm c c') (x : Int) : c.v.newIndex x = c'.v.newIndex x := by
  unfold View.newIndex View.ndims; rw [n.dims]

/-- a Go-backed array is its own normal form -/
theorem Norm.eq_of_go {c c' : Arr} (n : Norm c c') (hgo : c.isC = false) : c' = c := by
  rcases n with e | ⟨st, s⟩
  · exact e
  · rw [s.isC] at hgo; cases hgo

/-! ### element access -/

/-- **transfer: `Get`.** at an in-bounds index, `Get` through an array and through its normal form read the same cell -/
theorem get_norm (h : Heap α) {c c' : Arr} (n : Norm c c') (g : Geo c'.v) {i : Idx} (hi : InBounds i c'.v.dims) :
    Nd.get h c i = Nd.get h c' i := by
  rcases n with rfl | ⟨st, s⟩
  · rfl
  · obtain ⟨p, hp, p0, p1⟩ := index_inbounds g hi
    have hb := s.bound
    have ho : c.v.orig = c'.v.orig := by rw [s.eq]; rfl
    unfold Nd.get
    rw [s.view, shiftV_index, hp]
    simp only [Except.map, bind, Except.bind]
    rw [readAt_unshift h s.isC s.nonneg p0 (by rw [ho] at hb; omega), ← s.eq]

/-- **transfer: `Set`.** -/
theorem set_norm (h : Heap α) {c c' : Arr} (n : Norm c c') (g : Geo c'.v) {i : Idx} (hi : InBounds i c'.v.dims) (x : α) :
    Nd.set h c i x = Nd.set h c' i x := by
  rcases n with rfl | ⟨st, s⟩
  · rfl
  · obtain ⟨p, hp, p0, p1⟩ := index_inbounds g hi
    have hb := s.bound
    have ho : c.v.orig = c'.v.orig := by rw [s.eq]; rfl
    unfold Nd.set
    rw [s.view, shiftV_index, hp]
    simp only [Except.map, bind, Except.bind]
    rw [writeAt_unshift h s.isC s.nonneg p0 (by rw [ho] at hb; omega), ← s.eq]

/-- **transfer: `Slice`.** slicing commutes with taking the normal form (for EVERY request) -/
theorem slice_norm {c c' : Arr} (n : Norm c c') (loc dims : Idx) (step : Option Idx) :
    (∀ e, Nd.slice c' loc dims step = .error e → Nd.slice c loc dims step = .error e) ∧
    (∀ w', Nd.slice c' loc dims step = .ok w' → ∃ w, Nd.slice c loc dims step = .ok w ∧ Norm w w' ∧
      w.sid = c.sid ∧ w.base = c.base ∧ w'.sid = c'.sid ∧ w'.base = c'.base) := by
  rcases n with rfl | ⟨st, s⟩
  · refine ⟨fun e he => he, fun w' hw => ⟨w', hw, Norm.refl _, ?_⟩⟩
    obtain ⟨w, _, rfl⟩ := slice_eq hw
    exact ⟨rfl, rfl, rfl, rfl⟩
  · have hv := s.view
    unfold Nd.slice
    rw [hv, shiftV_sliceInto]
    cases hw : c'.v.sliceInto loc dims step with
    | error e =>
      refine ⟨fun e' he => ?_, fun w' he => ?_⟩
      · simpa [Except.map, bind, Except.bind] using he
      · simp [bind, Except.bind] at he
    | ok w =>
      refine ⟨fun e' he => by simp [bind, Except.bind, pure, Except.pure] at he, fun w' he => ?_⟩
      simp only [bind, Except.bind, pure, Except.pure, Except.ok.injEq] at he
      subst he
      refine ⟨{ c with v := shiftV w st }, rfl, Or.inr ⟨st, s.isC, s.nonneg, ?_, ?_⟩, rfl, rfl, rfl, rfl⟩
      · rw [s.eq]; simp [unshift, shiftV_cancel_neg]
      · have := (sliceInto_orig hw).1
        show st + product (shiftV w st).orig ≤ _
        rw [shiftV_orig, this, ← n_orig_aux s]
        exact s.bound
where
  n_orig_aux {st : Int} {c c' : Arr} (s : Sh st c c') : c.v.orig = c'.v.orig := by rw [s.eq]; rfl

/-- sequential `Get` over in-bounds indices -/
theorem getAll_norm (h : Heap α) {c c' : Arr} (n : Norm c c') (g : Geo c'.v) :
    ∀ (l : List Idx), (∀ i ∈ l, InBounds i c'.v.dims) → getAll h c l = getAll h c' l
  | [], _ => rfl
  | i :: is, hl => by
    simp only [getAll]
    rw [get_norm h n g (hl i List.mem_cons_self),
      getAll_norm h n g is (fun j hj => hl j (List.mem_cons_of_mem _ hj))]

/-- sequential `Set` over in-bounds indices -/
theorem setAll_norm {c c' : Arr} (n : Norm c c') (g : Geo c'.v) :
    ∀ (l : List Idx) (xs : List α) (h : Heap α), (∀ i ∈ l, InBounds i c'.v.dims) → setAll h c l xs = setAll h c' l xs
  | [], _, _, _ => by simp [setAll]
  | _ :: _, [], _, _ => by simp [setAll]
  | i :: is, x :: xs, h, hl => by
    simp only [setAll]
    rw [set_norm h n g (hl i List.mem_cons_self)]
    cases Nd.set h c' i x with
    | error e => rfl
    | ok h' => exact setAll_norm n g is xs h' (fun j hj => hl j (List.mem_cons_of_mem _ hj))

/-- a loop over in-bounds indices whose body agrees at every in-bounds index -/
theorem foldIdx_congr {σ : Type} {body body' : σ → Idx → R σ} {P : Idx → Prop}
    (hb : ∀ s i, P i → body s i = body' s i) :
    ∀ (l : List Idx) (s : σ), (∀ i ∈ l, P i) → foldIdx body l s = foldIdx body' l s
  | [], _, _ => rfl
  | i :: is, s, hl => by
    simp only [foldIdx]
    rw [hb s i (hl i List.mem_cons_self)]
    cases body' s i with
    | error e => rfl
    | ok s' => exact foldIdx_congr hb is s' (fun j hj => hl j (List.mem_cons_of_mem _ hj))

/-! ### single-array bulk operations -/

/-- the gather path of `Unroll` is the sequential `Get` over the row-major indices (extents ≥ 1, non-empty shape) -/
theorem unrollGather_eq' (h : Heap α) {a : Arr} (hp : Pos a.v.dims) (hne : a.v.dims ≠ []) :
    unrollGather h a = getAll h a (rowMajor a.v.dims) := by
  have := NdC02.product_pos hp
  have hsz : ¬ product a.v.dims < 0 := by omega
  have hg := gather_eq (h := h) hp (product a.v.dims).toNat 0 (by omega)
  unfold unrollGather
  simp only [View.size, if_neg hsz, offsets_ok hne, bind, Except.bind]
  exact hg

theorem unrollGather_norm (h : Heap α) {c c' : Arr} (n : Norm c c') (g : Geo c'.v) :
    unrollGather h c = unrollGather h c' := by
  have hd := n.dims
  rw [unrollGather_eq' h (by rw [hd]; exact g.pos_dims) (by rw [hd]; exact g.dims_ne),
    unrollGather_eq' h g.pos_dims g.dims_ne, hd]
  exact getAll_norm h n g _ (rowMajor_inBounds g.pos_dims)

/-- **transfer: `Unroll`.** -/
theorem unroll_norm (h : Heap α) {c c' : Arr} (n : Norm c c') (g : Geo c'.v) : Nd.unroll h c = Nd.unroll h c' := by
  rcases n with rfl | ⟨st, s⟩
  · rfl
  · have hC' : c'.isC = true := by rw [s.eq]; exact s.isC
    rw [unroll_gather (Or.inl s.isC), unroll_gather (Or.inl hC'), unrollGather_norm h (Or.inr ⟨st, s⟩) g]

/-- `Maximum()` / `Minimum()` unfolded to reads (extents ≥ 1) -/
theorem extremum_unfold (better : α → α → Bool) (h : Heap α) {a : Arr} (hp : Pos a.v.dims) :
    extremum better h a = (do
      let res ← Nd.get h a (uniform a.v.dims.length 0)
      (getAll h a (rowMajor a.v.dims)).map (fun vals => vals.foldl (fun res v => if better v res then v else res) res)) := by
  show (do
    let res ← Nd.get h a (uniform a.v.dims.length 0)
    forIdx a.v.dims (keepBody h a (fun res v => if better v res then v else res)) (product a.v.dims).toNat
      (uniform a.v.dims.length 0) res) = _
  cases Nd.get h a (uniform a.v.dims.length 0) with
  | error e => rfl
  | ok res =>
    simp only [bind, Except.bind]
    rw [forIdx_rowMajor hp, foldIdx_keepBody]

/-- **transfer: `Maximum()` / `Minimum()`.** -/
theorem extremum_norm (better : α → α → Bool) (h : Heap α) {c c' : Arr} (n : Norm c c') (g : Geo c'.v) :
    extremum better h c = extremum better h c' := by
  have hd := n.dims
  rw [extremum_unfold better h (by rw [hd]; exact g.pos_dims), extremum_unfold better h g.pos_dims, hd,
    get_norm h n g (inBounds_zeros g.pos_dims), getAll_norm h n g _ (rowMajor_inBounds g.pos_dims)]

/-- **transfer: `Apply`** (an in-bounds run) -/
theorem apply_norm (h : Heap α) {c c' : Arr} (n : Norm c c') (g : Geo c'.v) {loc : Idx} {dim step : Int}
    {vals : List α} (h0 : 0 ≤ dim) (h1 : dim < c'.v.dims.length)
    (hok : SliceOK c'.v.dims loc (applyDims c' dim vals.length) (applySteps c' dim step)) :
    Nd.apply h c loc dim step vals = Nd.apply h c' loc dim step vals := by
  rcases n with rfl | ⟨st, s⟩
  · rfl
  · have n : Norm c c' := Or.inr ⟨st, s⟩
    have hC' : c'.isC = true := by rw [s.eq]; exact s.isC
    have hll : loc.length = c'.v.dims.length := hok.lengths.1
    have hl : loc[dim.toNat]? = some loc[dim.toNat] := List.getElem?_eq_getElem (by omega)
    rw [apply_c_spec s.isC h0 (by rw [n.dims]; exact h1) hl, apply_c_spec hC' h0 h1 hl]
    exact setAll_norm n g _ vals h (runIdxs_inBounds h0 h1 hl hok vals.length 0 (by omega))

end
end OW.NdOff
