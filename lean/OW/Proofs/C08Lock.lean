import OW.Sim.LockCheck
/-!
Helper lemmas for the lock-discipline theorem of C08 (core Lean only): what `verify G ctx = true` says about one
function, and the induction along a call path.
-/
namespace OW.Proofs.C08Lock
open OW.Sim.LockCheck

/-- the facts `verifyAt` checks for function `i` -/
structure Ok (G : Graph) (ctx : List Nat) (i : Nat) (f : Fn) (c : Nat) : Prop where
  ctx_eq : ctx[i]? = some c
  regular : f.irregular = false
  entry : f.exported = true → c = 0
  lib : ∀ l ∈ f.lib, need l.2 ≤ eff c f
  calls : ∀ j ∈ f.calls, ∀ cj, ctx[j]? = some cj → cj ≤ eff c f
  range : ∀ j ∈ f.calls, ctx[j]? = none → G.length ≤ j

theorem ok_of_verifyAt {G : Graph} {ctx : List Nat} {i : Nat} {f : Fn} (hf : G[i]? = some f)
    (h : verifyAt G ctx i = true) : ∃ c, Ok G ctx i f c := by
  unfold verifyAt at h
  rw [hf] at h
  cases hc : ctx[i]? with
  | none => rw [hc] at h; simp at h
  | some c =>
    rw [hc] at h
    simp only [Bool.and_eq_true, Bool.not_eq_true', Bool.or_eq_true, beq_iff_eq, List.all_eq_true,
      decide_eq_true_eq] at h
    obtain ⟨⟨⟨h1, h2⟩, h3⟩, h4⟩ := h
    refine ⟨c, hc, h1, ?_, h3, ?_, ?_⟩
    · intro he
      rcases h2 with h2 | h2
      · rw [he] at h2; exact absurd h2 (by simp)
      · exact h2
    · intro j hj cj hcj
      have := h4 j hj
      rw [hcj] at this
      simpa using this
    · intro j hj hn
      have := h4 j hj
      rw [hn] at this
      simpa using this

theorem ok_of_verify {G : Graph} {ctx : List Nat} (h : verify G ctx = true) {i : Nat} {f : Fn}
    (hf : G[i]? = some f) : ∃ c, Ok G ctx i f c := by
  have hi : i < G.length := by
    rcases List.getElem?_eq_some_iff.mp hf with ⟨hi, _⟩
    exact hi
  unfold verify at h
  rw [List.all_eq_true] at h
  exact ok_of_verifyAt hf (h i (List.mem_range.mpr hi))

/-- along a call path the guaranteed strength never exceeds what the functions on the path actually hold -/
theorem path_need {G : Graph} {ctx : List Nat} (h : verify G ctx = true) :
    ∀ (p : List Nat) (i s c : Nat), IsPath G (i :: p) → ctx[i]? = some c → c ≤ s →
      ∀ k f, (i :: p).getLast? = some k → G[k]? = some f →
        ∀ l ∈ f.lib, need l.2 ≤ max s (heldRank G (i :: p)) := by
  intro p
  induction p with
  | nil =>
    intro i s c _ hc hcs k f hk hf l hl
    simp only [List.getLast?_singleton, Option.some.injEq] at hk
    subst hk
    obtain ⟨c', ok⟩ := ok_of_verify h hf
    have : c' = c := by
      have := ok.ctx_eq; rw [hc] at this; exact (Option.some.inj this).symm
    subst this
    have hl' := ok.lib l hl
    simp only [heldRank, rankAt, hf, eff] at hl' ⊢
    omega
  | cons j rest ih =>
    intro i s c hp hc hcs k f hk hf l hl
    obtain ⟨⟨fi, hfi, hj⟩, hrest⟩ := hp
    obtain ⟨c', ok⟩ := ok_of_verify h hfi
    have : c' = c := by
      have := ok.ctx_eq; rw [hc] at this; exact (Option.some.inj this).symm
    subst this
    -- the callee exists (the rest of the path starts there), so it has a bound
    have hjlt : j < G.length := by
      cases rest with
      | nil => exact hrest
      | cons j2 r2 =>
        obtain ⟨⟨fj, hfj, _⟩, _⟩ := hrest
        exact (List.getElem?_eq_some_iff.mp hfj).1
    obtain ⟨fj, hfj⟩ : ∃ fj, G[j]? = some fj := ⟨G[j], List.getElem?_eq_getElem hjlt⟩
    obtain ⟨cj, okj⟩ := ok_of_verify h hfj
    have hle : cj ≤ eff c' fi := ok.calls j hj cj okj.ctx_eq
    have hk' : (j :: rest).getLast? = some k := by
      simpa [List.getLast?_cons_cons] using hk
    have := ih j (max s fi.lock.rank) cj hrest okj.ctx_eq (by simp only [eff] at hle; omega) k f hk' hf l hl
    simp only [heldRank, rankAt, hfi] at this ⊢
    omega

end OW.Proofs.C08Lock
