import OW.Proofs.GR4JSpec
import Mathlib.Analysis.SpecialFunctions.Trigonometric.DerivHyp
import Mathlib.Analysis.Calculus.Deriv.MeanValue
/-!
C10 for GR4J: bounds of the production store, percolation and routing store; unit-hydrograph stores as water in
transit; the one-step accounting identity; invariants, "no water created" and the closed balance.
-/
namespace OW.RR.GR4J
open OW OW.Kernels.GR4J

theorem tanh_nonneg {w : ℝ} (hw : 0 ≤ w) : 0 ≤ Real.tanh w := by
  rw [Real.tanh_eq_sinh_div_cosh]
  exact div_nonneg (Real.sinh_nonneg_iff.mpr hw) (Real.cosh_pos w).le

theorem sinh_le_mul_cosh {w : ℝ} (hw : 0 ≤ w) : Real.sinh w ≤ w * Real.cosh w := by
  have hmono : MonotoneOn (fun x : ℝ => x * Real.cosh x - Real.sinh x) (Set.Ici 0) := by
    apply monotoneOn_of_deriv_nonneg (convex_Ici 0)
    · fun_prop
    · fun_prop
    · intro x hx
      rw [interior_Ici, Set.mem_Ioi] at hx
      have h := ((hasDerivAt_id x).mul (Real.hasDerivAt_cosh x)).sub (Real.hasDerivAt_sinh x)
      have hd : deriv (fun x : ℝ => x * Real.cosh x - Real.sinh x) x = x * Real.sinh x := by
        have h' : HasDerivAt (fun x : ℝ => x * Real.cosh x - Real.sinh x)
            (1 * Real.cosh x + id x * Real.sinh x - Real.cosh x) x := h
        rw [h'.deriv]; simp
      rw [hd]
      exact mul_nonneg hx.le (Real.sinh_nonneg_iff.mpr hx.le)
  have := hmono (Set.mem_Ici.mpr le_rfl) (Set.mem_Ici.mpr hw) hw
  simp only [Real.cosh_zero, Real.sinh_zero, mul_one, sub_self] at this
  linarith

theorem tanh_le_self {w : ℝ} (hw : 0 ≤ w) : Real.tanh w ≤ w := by
  rw [Real.tanh_eq_sinh_div_cosh, div_le_iff₀ (Real.cosh_pos w)]
  exact sinh_le_mul_cosh hw

/-! ### production store -/

/-- What the production branch guarantees for a store within [0, x1] and non-negative rainfall/PET:
Ps, Es, Pr ≥ 0, the updated store stays within [0, x1], and the accounting term `Ps + Pr − Es` is the net
rainfall `P − E` (rainfall branch) or `−Es` (evaporation branch). -/
theorem production_spec (x1 S P E : ℝ) (hx1 : 0 < x1) (hS0 : 0 ≤ S) (hS1 : S ≤ x1) (hP : 0 ≤ P) (hE : 0 ≤ E) :
    0 ≤ (production x1 S P E).1 ∧ 0 ≤ (production x1 S P E).2.1 ∧ 0 ≤ (production x1 S P E).2.2 ∧
    0 ≤ S - (production x1 S P E).2.1 + (production x1 S P E).1 ∧
    S - (production x1 S P E).2.1 + (production x1 S P E).1 ≤ x1 ∧
    (production x1 S P E).1 + (production x1 S P E).2.2 - (production x1 S P E).2.1 ≤ P ∧
    (E = 0 → (production x1 S P E).1 + (production x1 S P E).2.2 - (production x1 S P E).2.1 = P) := by
  rw [production_real]
  obtain ⟨s, rfl⟩ : ∃ s, S = s * x1 := ⟨S / x1, by field_simp⟩
  have hs0 : 0 ≤ s := by
    by_contra h
    have : s * x1 < 0 := mul_neg_of_neg_of_pos (not_le.mp h) hx1
    linarith
  have hs1 : s ≤ 1 := by
    by_contra h
    have : 1 * x1 < s * x1 := mul_lt_mul_of_pos_right (not_le.mp h) hx1
    linarith
  rw [mul_div_cancel_right₀ s hx1.ne']
  by_cases h : E < P
  · simp only [if_pos h]
    set w := cap ((P - E) / x1) with hw
    have hw0 : 0 ≤ w := cap_nonneg (div_nonneg (by linarith) hx1.le)
    have hw1 : w * x1 ≤ P - E := by
      have := (cap_le : cap ((P - E) / x1) ≤ (P - E) / x1)
      rw [le_div_iff₀ hx1] at this
      exact this
    set t := Real.tanh w with ht
    have ht0 : 0 ≤ t := tanh_nonneg hw0
    have ht1 : t ≤ 1 := (Real.tanh_lt_one w).le
    have htw : t ≤ w := tanh_le_self hw0
    have hden : 0 < 1 + s * t := by nlinarith
    have hps0 : 0 ≤ x1 * (1 - s ^ 2) * t / (1 + s * t) :=
      div_nonneg (mul_nonneg (mul_nonneg hx1.le (by nlinarith)) ht0) hden.le
    have hps1 : x1 * (1 - s ^ 2) * t / (1 + s * t) ≤ x1 * t := by
      rw [div_le_iff₀ hden]
      have : 0 ≤ x1 * t * (s * t + s ^ 2) := by positivity
      nlinarith
    have hps2 : x1 * (1 - s ^ 2) * t / (1 + s * t) ≤ x1 - s * x1 := by
      rw [div_le_iff₀ hden]
      have : 0 ≤ x1 * ((1 - s) * (1 - t)) := mul_nonneg hx1.le (mul_nonneg (by linarith) (by linarith))
      nlinarith
    have hxt : x1 * t ≤ P - E := by nlinarith
    refine ⟨hps0, le_refl _, by linarith, by nlinarith, by linarith, by linarith, ?_⟩
    intro hE0; subst hE0; ring
  · simp only [if_neg h]
    set w := cap ((E - P) / x1) with hw
    have hw0 : 0 ≤ w := cap_nonneg (div_nonneg (by linarith) hx1.le)
    set t := Real.tanh w with ht
    have ht0 : 0 ≤ t := tanh_nonneg hw0
    have ht1 : t ≤ 1 := (Real.tanh_lt_one w).le
    have hden : 0 < 1 + (1 - s) * t := by nlinarith
    have hes0 : 0 ≤ s * x1 * (2 - s) * t / (1 + (1 - s) * t) :=
      div_nonneg (mul_nonneg (mul_nonneg (mul_nonneg hs0 hx1.le) (by linarith)) ht0) hden.le
    have hes1 : s * x1 * (2 - s) * t / (1 + (1 - s) * t) ≤ s * x1 := by
      rw [div_le_iff₀ hden]
      have : 0 ≤ s * x1 * (1 - t) := mul_nonneg (mul_nonneg hs0 hx1.le) (by linarith)
      nlinarith
    refine ⟨le_refl _, hes0, le_refl _, by linarith, by linarith, by linarith, ?_⟩
    intro hE0
    have hP0 : P = 0 := by linarith
    have hw' : w = 0 := by rw [hw, hE0, hP0]; simp [cap_zero]
    have ht' : t = 0 := by rw [ht, hw', Real.tanh_zero]
    rw [ht', hP0]; simp

end OW.RR.GR4J
