import OW.Proofs.GR4JSpec
import Mathlib.Analysis.SpecialFunctions.Trigonometric.DerivHyp
import Mathlib.Analysis.Calculus.Deriv.MeanValue
/-!
C10 for GR4J: bounds of the production store, percolation and routing store; unit-hydrograph stores as water in
transit; the one-step accounting identity; invariants, "no water created" and the closed balance.
-/
namespace OW.RR.GR4J
open OW OW.Kernels.GR4J

theorem tanh_nonneg {w : ℝ} (hw : 0 ≤ w) : 0 ≤ Real.tanh w := by
  rw [Real.tanh_eq_sinh_div_cosh]
  exact div_nonneg (Real.sinh_nonneg_iff.mpr hw) (Real.cosh_pos w).le

theorem sinh_le_mul_cosh {w : ℝ} (hw : 0 ≤ w) : Real.sinh w ≤ w * Real.cosh w := by
  have hmono : MonotoneOn (fun x : ℝ => x * Real.cosh x - Real.sinh x) (Set.Ici 0) := by
    apply monotoneOn_of_deriv_nonneg (convex_Ici 0)
    · fun_prop
    · fun_prop
    · intro x hx
      rw [interior_Ici, Set.mem_Ioi] at hx
      have h := ((hasDerivAt_id x).mul (Real.hasDerivAt_cosh x)).sub (Real.hasDerivAt_sinh x)
      have hd : deriv (fun x : ℝ => x * Real.cosh x - Real.sinh x) x = x * Real.sinh x := by
        have h' : HasDerivAt (fun x : ℝ => x * Real.cosh x - Real.sinh x)
            (1 * Real.cosh x + id x * Real.sinh x - Real.cosh x) x := h
        rw [h'.deriv]; simp
      rw [hd]
      exact mul_nonneg hx.le (Real.sinh_nonneg_iff.mpr hx.le)
  have := hmono (Set.mem_Ici.mpr le_rfl) (Set.mem_Ici.mpr hw) hw
  simp only [Real.cosh_zero, Real.sinh_zero, mul_one, sub_self] at this
  linarith

theorem tanh_le_self {w : ℝ} (hw : 0 ≤ w) : Real.tanh w ≤ w := by
  rw [Real.tanh_eq_sinh_div_cosh, div_le_iff₀ (Real.cosh_pos w)]
  exact sinh_le_mul_cosh hw

/-! ### production store -/

/-- What the production branch guarantees for a store within [0, x1] and non-negative rainfall/PET:
Ps, Es, Pr ≥ 0, the updated store stays within [0, x1], and the accounting term `Ps + Pr − Es` is the net
rainfall `P − E` (rainfall branch) or `−Es` (evaporation branch). -/
theorem production_spec (x1 S P E : ℝ) (hx1 : 0 < x1) (hS0 : 0 ≤ S) (hS1 : S ≤ x1) (hP : 0 ≤ P) (hE : 0 ≤ E) :
    0 ≤ (production x1 S P E).1 ∧ 0 ≤ (production x1 S P E).2.1 ∧ 0 ≤ (production x1 S P E).2.2 ∧
    0 ≤ S - (production x1 S P E).2.1 + (production x1 S P E).1 ∧
    S - (production x1 S P E).2.1 + (production x1 S P E).1 ≤ x1 ∧
    (production x1 S P E).1 + (production x1 S P E).2.2 - (production x1 S P E).2.1 ≤ P ∧
    (E = 0 → (production x1 S P E).1 + (production x1 S P E).2.2 - (production x1 S P E).2.1 = P) := by
  rw [production_real]
  obtain ⟨s, rfl⟩ : ∃ s, S = s * x1 := ⟨S / x1, by field_simp⟩
  have hs0 : 0 ≤ s := by
    by_contra h
    have : s * x1 < 0 := mul_neg_of_neg_of_pos (not_le.mp h) hx1
    linarith
  have hs1 : s ≤ 1 := by
    by_contra h
    have : 1 * x1 < s * x1 := mul_lt_mul_of_pos_right (not_le.mp h) hx1
    linarith
  rw [mul_div_cancel_right₀ s hx1.ne']
  by_cases h : E < P
  · simp only [if_pos h]
    set w := cap ((P - E) / x1) with hw
    have hw0 : 0 ≤ w := cap_nonneg (div_nonneg (by linarith) hx1.le)
    have hw1 : w * x1 ≤ P - E := by
      have := (cap_le : cap ((P - E) / x1) ≤ (P - E) / x1)
      rw [le_div_iff₀ hx1] at this
      exact this
    set t := Real.tanh w with ht
    have ht0 : 0 ≤ t := tanh_nonneg hw0
    have ht1 : t ≤ 1 := (Real.tanh_lt_one w).le
    have htw : t ≤ w := tanh_le_self hw0
    have hden : 0 < 1 + s * t := by nlinarith
    have hps0 : 0 ≤ x1 * (1 - s ^ 2) * t / (1 + s * t) :=
      div_nonneg (mul_nonneg (mul_nonneg hx1.le (by nlinarith)) ht0) hden.le
    have hps1 : x1 * (1 - s ^ 2) * t / (1 + s * t) ≤ x1 * t := by
      rw [div_le_iff₀ hden]
      have : 0 ≤ x1 * t * (s * t + s ^ 2) := by positivity
      nlinarith
    have hps2 : x1 * (1 - s ^ 2) * t / (1 + s * t) ≤ x1 - s * x1 := by
      rw [div_le_iff₀ hden]
      have : 0 ≤ x1 * ((1 - s) * (1 - t)) := mul_nonneg hx1.le (mul_nonneg (by linarith) (by linarith))
      nlinarith
    have hxt : x1 * t ≤ P - E := by nlinarith
    refine ⟨hps0, le_refl _, by linarith, by nlinarith, by linarith, by linarith, ?_⟩
    intro hE0; subst hE0; ring
  · simp only [if_neg h]
    set w := cap ((E - P) / x1) with hw
    have hw0 : 0 ≤ w := cap_nonneg (div_nonneg (by linarith) hx1.le)
    set t := Real.tanh w with ht
    have ht0 : 0 ≤ t := tanh_nonneg hw0
    have ht1 : t ≤ 1 := (Real.tanh_lt_one w).le
    have hden : 0 < 1 + (1 - s) * t := by nlinarith
    have hes0 : 0 ≤ s * x1 * (2 - s) * t / (1 + (1 - s) * t) :=
      div_nonneg (mul_nonneg (mul_nonneg (mul_nonneg hs0 hx1.le) (by linarith)) ht0) hden.le
    have hes1 : s * x1 * (2 - s) * t / (1 + (1 - s) * t) ≤ s * x1 := by
      rw [div_le_iff₀ hden]
      have : 0 ≤ s * x1 * (1 - t) := mul_nonneg (mul_nonneg hs0 hx1.le) (by linarith)
      nlinarith
    refine ⟨le_refl _, hes0, le_refl _, by linarith, by linarith, by linarith, ?_⟩
    intro hE0
    have hP0 : P = 0 := by linarith
    have hw' : w = 0 := by rw [hw, hE0, hP0]; simp only [sub_self, zero_div, cap_zero]
    have ht' : t = 0 := by rw [ht, hw', Real.tanh_zero]
    rw [ht', hP0]; norm_num

/-! ### percolation and routing store -/

theorem percolation_real (x1 s : ℝ) :
    percolation x1 s = s * (1 - (1 + (4 / 9 * (s / x1)) ^ 4) ^ (-((1 : ℝ) / 4))) := by
  simp only [percolation, RealNum.pow_eq, RealNum.ofNat_eq]
  norm_num only
  simp only [rpow_four]
  ring_nf

/-- 0 ≤ Perc ≤ S for S ≥ 0 (any x1: the bracket lies in [0,1)) -/
theorem percolation_spec (x1 s : ℝ) (hs : 0 ≤ s) : 0 ≤ percolation x1 s ∧ percolation x1 s ≤ s := by
  rw [percolation_real]
  have hy : (1 : ℝ) ≤ 1 + (4 / 9 * (s / x1)) ^ 4 := by
    have : 0 ≤ (4 / 9 * (s / x1)) ^ 4 := by positivity
    linarith
  have h1 : (1 + (4 / 9 * (s / x1)) ^ 4) ^ (-((1 : ℝ) / 4)) ≤ 1 :=
    Real.rpow_le_one_of_one_le_of_nonpos hy (by norm_num)
  have h0 : 0 ≤ (1 + (4 / 9 * (s / x1)) ^ 4) ^ (-((1 : ℝ) / 4)) := Real.rpow_nonneg (by linarith) _
  constructor <;> nlinarith

theorem routingOutflow_real (x3 r : ℝ) :
    routingOutflow x3 r = r - r / (1 + (r / x3) ^ 4) ^ ((1 : ℝ) / 4) := by
  simp only [routingOutflow, RealNum.pow_eq, RealNum.ofNat_eq]
  norm_num only
  simp only [rpow_four]
  ring_nf

/-- for R ≥ 0 and x3 > 0: 0 ≤ Qr ≤ R and the store left, R − Qr, is below the capacity x3;
the divisor (1 + (R/x3)⁴)^(1/4) is ≥ 1 -/
theorem routing_spec (x3 r : ℝ) (hx3 : 0 < x3) (hr : 0 ≤ r) :
    0 ≤ routingOutflow x3 r ∧ routingOutflow x3 r ≤ r ∧ r - routingOutflow x3 r ≤ x3 ∧
    1 ≤ (1 + (r / x3) ^ 4) ^ ((1 : ℝ) / 4) := by
  rw [routingOutflow_real]
  have hu : 0 ≤ r / x3 := div_nonneg hr hx3.le
  have hy : (1 : ℝ) ≤ 1 + (r / x3) ^ 4 := by
    have : 0 ≤ (r / x3) ^ 4 := by positivity
    linarith
  have hz1 : 1 ≤ (1 + (r / x3) ^ 4) ^ ((1 : ℝ) / 4) := Real.one_le_rpow hy (by norm_num)
  have hzu : r / x3 ≤ (1 + (r / x3) ^ 4) ^ ((1 : ℝ) / 4) := by
    have h1 : ((r / x3) ^ 4) ^ ((1 : ℝ) / 4) ≤ (1 + (r / x3) ^ 4) ^ ((1 : ℝ) / 4) :=
      Real.rpow_le_rpow (by positivity) (by linarith) (by norm_num)
    have h2 : ((r / x3) ^ 4) ^ ((1 : ℝ) / 4) = r / x3 := by
      have := Real.pow_rpow_inv_natCast hu (by norm_num : (4 : ℕ) ≠ 0)
      rw [show ((1 : ℝ) / 4) = ((4 : ℕ) : ℝ)⁻¹ by norm_num]
      exact this
    linarith
  set z := (1 + (r / x3) ^ 4) ^ ((1 : ℝ) / 4) with hz
  have hzpos : 0 < z := by linarith
  have hq : r / z ≤ r := div_le_self hr hz1
  have hq0 : 0 ≤ r / z := div_nonneg hr hzpos.le
  have hq3 : r / z ≤ x3 := by
    rw [div_le_iff₀ hzpos]
    have : r = (r / x3) * x3 := by field_simp
    nlinarith
  exact ⟨by linarith, by linarith, by linarith, hz1⟩

/-! ### unit-hydrograph stores: water in transit -/

theorem addUH_sum (pr f : ℝ) : ∀ (q uh : List ℝ), q.length = uh.length →
    (addUH pr f q uh).sum = q.sum + pr * f * uh.sum
  | [], [], _ => by simp [addUH]
  | [], _ :: _, h => by simp at h
  | _ :: _, [], h => by simp at h
  | a :: q, u :: uh, h => by
    have ih := addUH_sum pr f q uh (by simpa using h)
    simp only [addUH, List.zipWith_cons_cons, List.sum_cons] at ih ⊢
    rw [ih]; ring

theorem addUH_nonneg (pr f : ℝ) (hpf : 0 ≤ pr * f) (q uh : List ℝ) (hq : ∀ x ∈ q, 0 ≤ x) (hu : ∀ x ∈ uh, 0 ≤ x) :
    ∀ x ∈ addUH pr f q uh, 0 ≤ x := by
  intro x hx
  simp only [addUH, List.mem_iff_getElem, List.length_zipWith] at hx
  obtain ⟨i, hi, rfl⟩ := hx
  rw [List.getElem_zipWith]
  have h1 := hq _ (List.getElem_mem (show i < q.length by omega))
  have h2 := hu _ (List.getElem_mem (show i < uh.length by omega))
  have := mul_nonneg hpf h2
  linarith

/-- what leaves the vector today plus what stays in it is what was in it -/
theorem head_add_shift_sum (a : List ℝ) (ha : 0 < a.length) : head0 a + (shift a).sum = a.sum := by
  cases a with
  | nil => simp at ha
  | cons x xs => simp [head0, shift, sciZero]

theorem shift_nonneg (a : List ℝ) (ha : ∀ x ∈ a, 0 ≤ x) : ∀ x ∈ shift a, 0 ≤ x := by
  intro x hx
  simp only [shift, List.mem_append, List.mem_singleton] at hx
  rcases hx with hx | hx
  · exact ha x (List.mem_of_mem_tail hx)
  · rw [hx, sciZero]

theorem head0_nonneg (a : List ℝ) (ha : ∀ x ∈ a, 0 ≤ x) : 0 ≤ head0 a := by
  cases a with
  | nil => simp [head0, sciZero]
  | cons x xs => simpa [head0] using ha x (List.mem_cons_self ..)

/-! ### one day: invariant and accounting identity -/

/-- documented parameter ranges used by the C10 theorems: capacities and time base positive (the divisors) -/
structure ParamsOk (x1 x3 x4 : ℝ) : Prop where
  x1pos : 0 < x1
  x3pos : 0 < x3
  x4pos : 0 < x4

/-- stores within bounds, water in transit non-negative, UH vectors of the model's own lengths -/
def Inv (x1 x3 x4 : ℝ) (st : State ℝ) : Prop :=
  0 ≤ st.S ∧ st.S ≤ x1 ∧ 0 ≤ st.R ∧ st.R ≤ x3 ∧ (∀ q ∈ st.q1, 0 ≤ q) ∧ (∀ q ∈ st.q9, 0 ≤ q) ∧ Shaped x4 st

/-- water held: production store + routing store + water in transit in the two unit hydrographs -/
def stor (st : State ℝ) : ℝ := st.S + st.R + st.q1.sum + st.q9.sum

theorem split_sum : (@OfScientific.ofScientific ℝ (instNumReal.toOfScientific) 9 true 1) +
    (@OfScientific.ofScientific ℝ (instNumReal.toOfScientific) 1 true 1) = 1 := by
  rw [OW.RR.Surm.sci, OW.RR.Surm.sci]; norm_num

theorem nine_nonneg : 0 ≤ (@OfScientific.ofScientific ℝ (instNumReal.toOfScientific) 9 true 1) := by
  rw [OW.RR.Surm.sci]; norm_num
theorem one_nonneg : 0 ≤ (@OfScientific.ofScientific ℝ (instNumReal.toOfScientific) 1 true 1) := by
  rw [OW.RR.Surm.sci]; norm_num

theorem ite_pos_eq_max (t : ℝ) [Decidable (0 < t)] : (if 0 < t then t else 0) = max 0 t := by
  split_ifs with h
  · exact (max_eq_right h.le).symm
  · exact (max_eq_left (not_lt.mp h)).symm

theorem clip_eq_max (r : ℝ) [Decidable (r < 0)] : (if r < 0 then 0 else r) = max 0 r := (max_clip r).symm

theorem step_master (x1 x2 x3 x4 : ℝ) (hp : ParamsOk x1 x3 x4) (st : State ℝ) (hst : Inv x1 x3 x4 st)
    (pe : ℝ × ℝ) (hpe : 0 ≤ pe.1 ∧ 0 ≤ pe.2) :
    Inv x1 x3 x4 (step x1 x2 x3 (uh1 x4 ⌈x4⌉₊) (uh2 x4 ⌈2 * x4⌉₊) st pe).1 ∧
    0 ≤ (step x1 x2 x3 (uh1 x4 ⌈x4⌉₊) (uh2 x4 ⌈2 * x4⌉₊) st pe).2.qr ∧
    0 ≤ (step x1 x2 x3 (uh1 x4 ⌈x4⌉₊) (uh2 x4 ⌈2 * x4⌉₊) st pe).2.qd ∧
    (step x1 x2 x3 (uh1 x4 ⌈x4⌉₊) (uh2 x4 ⌈2 * x4⌉₊) st pe).2.runoff =
      (step x1 x2 x3 (uh1 x4 ⌈x4⌉₊) (uh2 x4 ⌈2 * x4⌉₊) st pe).2.qr +
      (step x1 x2 x3 (uh1 x4 ⌈x4⌉₊) (uh2 x4 ⌈2 * x4⌉₊) st pe).2.qd ∧
    ∃ a b c : ℝ,
      (step x1 x2 x3 (uh1 x4 ⌈x4⌉₊) (uh2 x4 ⌈2 * x4⌉₊) st pe).2.runoff +
        stor (step x1 x2 x3 (uh1 x4 ⌈x4⌉₊) (uh2 x4 ⌈2 * x4⌉₊) st pe).1 = stor st + a + b + c ∧
      a ≤ pe.1 ∧ (pe.2 = 0 → a = pe.1) ∧ (x2 ≤ 0 → b ≤ 0 ∧ c ≤ 0) ∧ (x2 = 0 → b = 0 ∧ c = 0) ∧
      b ≤ max 0 (step x1 x2 x3 (uh1 x4 ⌈x4⌉₊) (uh2 x4 ⌈2 * x4⌉₊) st pe).2.ech ∧
      c ≤ max 0 (step x1 x2 x3 (uh1 x4 ⌈x4⌉₊) (uh2 x4 ⌈2 * x4⌉₊) st pe).2.ech ∧
      (0 ≤ x2 → 0 ≤ (step x1 x2 x3 (uh1 x4 ⌈x4⌉₊) (uh2 x4 ⌈2 * x4⌉₊) st pe).2.ech ∧
        b = (step x1 x2 x3 (uh1 x4 ⌈x4⌉₊) (uh2 x4 ⌈2 * x4⌉₊) st pe).2.ech ∧
        c = (step x1 x2 x3 (uh1 x4 ⌈x4⌉₊) (uh2 x4 ⌈2 * x4⌉₊) st pe).2.ech) ∧
      (step x1 x2 x3 (uh1 x4 ⌈x4⌉₊) (uh2 x4 ⌈2 * x4⌉₊) st pe).2.ech ≤
        (step x1 x2 x3 (uh1 x4 ⌈x4⌉₊) (uh2 x4 ⌈2 * x4⌉₊) st pe).2.qd := by
  obtain ⟨hS0, hS1, hR0, hR1, hq1, hq9, hsh9, hsh1⟩ := hst
  obtain ⟨hP, hE⟩ := hpe
  have hx4 := hp.x4pos
  have hn1 : 0 < ⌈x4⌉₊ := Nat.ceil_pos.mpr hx4
  have hn2 : 0 < ⌈2 * x4⌉₊ := Nat.ceil_pos.mpr (by linarith)
  obtain ⟨p1, p2, p3, p4, p5, p6, p7⟩ := production_spec x1 st.S pe.1 pe.2 hp.x1pos hS0 hS1 hP hE
  simp only [Inv, stor, step, Shaped]
  set prod := production x1 st.S pe.1 pe.2 with hprod
  set s1 := st.S - prod.2.1 + prod.1 with hs1
  obtain ⟨c1, c2⟩ := percolation_spec x1 s1 p4
  set perc := percolation x1 s1 with hperc
  set pr := perc + prod.2.2 with hpr
  have hpr0 : 0 ≤ pr := by linarith
  -- unit hydrographs
  have hl9 : st.q9.length = (uh1 x4 ⌈x4⌉₊).length := by rw [uh1_length, hsh9]
  have hl1 : st.q1.length = (uh2 x4 ⌈2 * x4⌉₊).length := by rw [uh2_length, hsh1]
  have hsum9 := addUH_sum pr 0.9 st.q9 _ hl9
  have hsum1 := addUH_sum pr 0.1 st.q1 _ hl1
  rw [uh1_sum x4 hx4, mul_one] at hsum9
  rw [uh2_sum x4 hx4, mul_one] at hsum1
  have hnn9 := addUH_nonneg pr 0.9 (mul_nonneg hpr0 nine_nonneg) st.q9 _ hq9 (uh1_nonneg x4 hx4)
  have hnn1 := addUH_nonneg pr 0.1 (mul_nonneg hpr0 one_nonneg) st.q1 _ hq1 (uh2_nonneg x4 hx4)
  have hlen9 := addUH_length pr 0.9 st.q9 _ hl9
  have hlen1 := addUH_length pr 0.1 st.q1 _ hl1
  set q9a := addUH pr 0.9 st.q9 (uh1 x4 ⌈x4⌉₊) with hq9a
  set q1a := addUH pr 0.1 st.q1 (uh2 x4 ⌈2 * x4⌉₊) with hq1a
  have hhs9 := head_add_shift_sum q9a (by omega)
  have hhs1 := head_add_shift_sum q1a (by omega)
  have hQ9 := head0_nonneg q9a hnn9
  have hQ1 := head0_nonneg q1a hnn1
  set Q9 := head0 q9a with hQ9d
  set Q1 := head0 q1a with hQ1d
  -- routing
  have hpow : 0 ≤ Num.pow (st.R / x3) (3.5 : ℝ) := by
    rw [RealNum.pow_eq]; exact Real.rpow_nonneg (div_nonneg hR0 hp.x3pos.le) _
  set ech := x2 * Num.pow (st.R / x3) (3.5 : ℝ) with hech
  have hech0 : x2 ≤ 0 → ech ≤ 0 := fun h => mul_nonpos_of_nonpos_of_nonneg h hpow
  have hech1 : x2 = 0 → ech = 0 := fun h => by rw [hech, h, zero_mul]
  simp only [sciZero, numZero, clip_eq_max, ite_pos_eq_max]
  set r2 := max 0 (st.R + Q9 + ech) with hr2
  have hr20 : 0 ≤ r2 := le_max_left _ _
  obtain ⟨g1, g2, g3, _⟩ := routing_spec x3 r2 hp.x3pos hr20
  set qr := routingOutflow x3 r2 with hqr
  set qd := max 0 (Q1 + ech) with hqd
  have hqd0 : 0 ≤ qd := le_max_left _ _
  have hb0 : x2 ≤ 0 → r2 - st.R - Q9 ≤ 0 := by
    intro h; have := hech0 h
    have : r2 ≤ st.R + Q9 := max_le (by linarith) (by linarith)
    linarith
  have hb1 : x2 = 0 → r2 - st.R - Q9 = 0 := by
    intro h; have := hech1 h; rw [hr2, max_eq_right (by linarith)]; linarith
  have hc0 : x2 ≤ 0 → qd - Q1 ≤ 0 := by
    intro h; have := hech0 h
    have : qd ≤ Q1 := max_le hQ1 (by linarith)
    linarith
  have hc1 : x2 = 0 → qd - Q1 = 0 := by
    intro h; have := hech1 h; rw [hqd, max_eq_right (by linarith)]; linarith
  have hbm : r2 - st.R - Q9 ≤ max 0 ech := by
    have h1 : (0 : ℝ) ≤ max 0 ech := le_max_left _ _
    have h2 : ech ≤ max 0 ech := le_max_right _ _
    have : r2 ≤ st.R + Q9 + max 0 ech := max_le (by linarith) (by linarith)
    linarith
  have hcm : qd - Q1 ≤ max 0 ech := by
    have h1 : (0 : ℝ) ≤ max 0 ech := le_max_left _ _
    have h2 : ech ≤ max 0 ech := le_max_right _ _
    have : qd ≤ Q1 + max 0 ech := max_le (by linarith) (by linarith)
    linarith
  have hpos : 0 ≤ x2 → 0 ≤ ech ∧ r2 - st.R - Q9 = ech ∧ qd - Q1 = ech := by
    intro h
    have he : 0 ≤ ech := mul_nonneg h hpow
    refine ⟨he, ?_, ?_⟩
    · rw [hr2, max_eq_right (by linarith)]; ring
    · rw [hqd, max_eq_right (by linarith)]; ring
  refine ⟨⟨by linarith, by linarith, by linarith, by linarith, shift_nonneg _ hnn1, shift_nonneg _ hnn9, ?_, ?_⟩,
    g1, hqd0, trivial, prod.1 + prod.2.2 - prod.2.1, r2 - st.R - Q9, qd - Q1, ?_, p6, p7,
    fun h => ⟨hb0 h, hc0 h⟩, fun h => ⟨hb1 h, hc1 h⟩, hbm, hcm, hpos, ?_⟩
  · rw [shift_length _ (by omega), hlen9, hsh9]
  · rw [shift_length _ (by omega), hlen1, hsh1]
  · have e9 : (shift q9a).sum = st.q9.sum + pr * 0.9 - Q9 := by linarith
    have e1 : (shift q1a).sum = st.q1.sum + pr * 0.1 - Q1 := by linarith
    rw [e9, e1]
    have := split_sum
    have hsplit : pr * 0.9 + pr * 0.1 = pr := by rw [← mul_add, split_sum, mul_one]
    linarith
  · have : Q1 + ech ≤ qd := le_max_right _ _
    linarith

/-! ### whole runs -/

/-- what every day's outputs satisfy -/
def OutOk (o : Out ℝ) : Prop := 0 ≤ o.runoff ∧ o.runoff = o.qr + o.qd ∧ 0 ≤ o.qr ∧ 0 ≤ o.qd

theorem step_budget (x1 x2 x3 x4 : ℝ) (hp : ParamsOk x1 x3 x4) (hx2 : x2 ≤ 0) (st : State ℝ) (pe : ℝ × ℝ)
    (hst : Inv x1 x3 x4 st) (hpe : 0 ≤ pe.1 ∧ 0 ≤ pe.2) :
    Inv x1 x3 x4 (step x1 x2 x3 (uh1 x4 ⌈x4⌉₊) (uh2 x4 ⌈2 * x4⌉₊) st pe).1 ∧
    (step x1 x2 x3 (uh1 x4 ⌈x4⌉₊) (uh2 x4 ⌈2 * x4⌉₊) st pe).2.runoff +
      stor (step x1 x2 x3 (uh1 x4 ⌈x4⌉₊) (uh2 x4 ⌈2 * x4⌉₊) st pe).1 ≤ pe.1 + stor st ∧
    OutOk (step x1 x2 x3 (uh1 x4 ⌈x4⌉₊) (uh2 x4 ⌈2 * x4⌉₊) st pe).2 := by
  obtain ⟨h1, h2, h3, h4, a, b, c, h5, h6, _, h8, _⟩ := step_master x1 x2 x3 x4 hp st hst pe hpe
  obtain ⟨hb, hc⟩ := h8 hx2
  exact ⟨h1, by linarith, by linarith, h4, h2, h3⟩

/-- **any exchange coefficient**: the one-day budget with the water IMPORTED by a positive groundwater exchange on the
right-hand side. The exchange term `ech = x2·(R/x3)^3.5` enters twice (routing store and direct branch), so at most
`2·max(0, ech)` is imported per day. -/
theorem step_budget_exchange (x1 x2 x3 x4 : ℝ) (hp : ParamsOk x1 x3 x4) (st : State ℝ) (pe : ℝ × ℝ)
    (hst : Inv x1 x3 x4 st) (hpe : 0 ≤ pe.1 ∧ 0 ≤ pe.2) :
    Inv x1 x3 x4 (step x1 x2 x3 (uh1 x4 ⌈x4⌉₊) (uh2 x4 ⌈2 * x4⌉₊) st pe).1 ∧
    ((step x1 x2 x3 (uh1 x4 ⌈x4⌉₊) (uh2 x4 ⌈2 * x4⌉₊) st pe).2.runoff -
        2 * max 0 (step x1 x2 x3 (uh1 x4 ⌈x4⌉₊) (uh2 x4 ⌈2 * x4⌉₊) st pe).2.ech) +
      stor (step x1 x2 x3 (uh1 x4 ⌈x4⌉₊) (uh2 x4 ⌈2 * x4⌉₊) st pe).1 ≤ pe.1 + stor st ∧
    OutOk (step x1 x2 x3 (uh1 x4 ⌈x4⌉₊) (uh2 x4 ⌈2 * x4⌉₊) st pe).2 := by
  obtain ⟨h1, h2, h3, h4, a, b, c, h5, h6, _, _, _, hb, hc, _⟩ := step_master x1 x2 x3 x4 hp st hst pe hpe
  exact ⟨h1, by linarith, by linarith, h4, h2, h3⟩

/-- **gaining catchment, zero PET**: for `x2 ≥ 0` the one-day balance closes exactly once the imported water
`2·ech` (`ech ≥ 0`) is counted as an input. -/
theorem step_closed_exchange (x1 x2 x3 x4 : ℝ) (hp : ParamsOk x1 x3 x4) (hx2 : 0 ≤ x2) (st : State ℝ) (pe : ℝ × ℝ)
    (hst : Inv x1 x3 x4 st) (hpe : 0 ≤ pe.1 ∧ pe.2 = 0) :
    Inv x1 x3 x4 (step x1 x2 x3 (uh1 x4 ⌈x4⌉₊) (uh2 x4 ⌈2 * x4⌉₊) st pe).1 ∧
    ((step x1 x2 x3 (uh1 x4 ⌈x4⌉₊) (uh2 x4 ⌈2 * x4⌉₊) st pe).2.runoff -
        2 * (step x1 x2 x3 (uh1 x4 ⌈x4⌉₊) (uh2 x4 ⌈2 * x4⌉₊) st pe).2.ech) +
      stor (step x1 x2 x3 (uh1 x4 ⌈x4⌉₊) (uh2 x4 ⌈2 * x4⌉₊) st pe).1 = pe.1 + stor st := by
  obtain ⟨h1, _, _, _, a, b, c, h5, _, h7, _, _, _, _, hpos, _⟩ :=
    step_master x1 x2 x3 x4 hp st hst pe ⟨hpe.1, by rw [hpe.2]⟩
  obtain ⟨_, hb, hc⟩ := hpos hx2
  have := h7 hpe.2
  exact ⟨h1, by linarith⟩

/-- the exchange term reaches the outlet the same day through the direct branch: `ech ≤ Qd ≤ runoff` (any x2) -/
theorem step_runoff_ge_ech (x1 x2 x3 x4 : ℝ) (hp : ParamsOk x1 x3 x4) (st : State ℝ) (pe : ℝ × ℝ)
    (hst : Inv x1 x3 x4 st) (hpe : 0 ≤ pe.1 ∧ 0 ≤ pe.2) :
    (step x1 x2 x3 (uh1 x4 ⌈x4⌉₊) (uh2 x4 ⌈2 * x4⌉₊) st pe).2.ech ≤
      (step x1 x2 x3 (uh1 x4 ⌈x4⌉₊) (uh2 x4 ⌈2 * x4⌉₊) st pe).2.runoff := by
  obtain ⟨_, h2, _, h4, _, _, _, _, _, _, _, _, _, _, _, hq⟩ := step_master x1 x2 x3 x4 hp st hst pe hpe
  linarith

/-- without any hypothesis on x2: the invariant and the output facts (a positive x2 imports groundwater, so
only the budget needs x2 ≤ 0) -/
theorem step_inv (x1 x2 x3 x4 : ℝ) (hp : ParamsOk x1 x3 x4) (st : State ℝ) (pe : ℝ × ℝ)
    (hst : Inv x1 x3 x4 st) (hpe : 0 ≤ pe.1 ∧ 0 ≤ pe.2) :
    Inv x1 x3 x4 (step x1 x2 x3 (uh1 x4 ⌈x4⌉₊) (uh2 x4 ⌈2 * x4⌉₊) st pe).1 ∧
    (0 : ℝ) + 0 ≤ 0 + 0 ∧
    OutOk (step x1 x2 x3 (uh1 x4 ⌈x4⌉₊) (uh2 x4 ⌈2 * x4⌉₊) st pe).2 := by
  obtain ⟨h1, h2, h3, h4, _⟩ := step_master x1 x2 x3 x4 hp st hst pe hpe
  exact ⟨h1, le_refl _, by linarith, h4, h2, h3⟩

theorem step_closed (x1 x3 x4 : ℝ) (hp : ParamsOk x1 x3 x4) (st : State ℝ) (pe : ℝ × ℝ)
    (hst : Inv x1 x3 x4 st) (hpe : 0 ≤ pe.1 ∧ pe.2 = 0) :
    Inv x1 x3 x4 (step x1 0 x3 (uh1 x4 ⌈x4⌉₊) (uh2 x4 ⌈2 * x4⌉₊) st pe).1 ∧
    (step x1 0 x3 (uh1 x4 ⌈x4⌉₊) (uh2 x4 ⌈2 * x4⌉₊) st pe).2.runoff +
      stor (step x1 0 x3 (uh1 x4 ⌈x4⌉₊) (uh2 x4 ⌈2 * x4⌉₊) st pe).1 = pe.1 + stor st := by
  obtain ⟨h1, _, _, _, a, b, c, h5, _, h7, _, h9, _⟩ :=
    step_master x1 0 x3 x4 hp st hst pe ⟨hpe.1, by rw [hpe.2]⟩
  obtain ⟨hb, hc⟩ := h9 rfl
  have := h7 hpe.2
  exact ⟨h1, by linarith⟩

theorem stor_nonneg (x1 x3 x4 : ℝ) (st : State ℝ) (h : Inv x1 x3 x4 st) : 0 ≤ stor st := by
  obtain ⟨h1, _, h3, _, h5, h6, _⟩ := h
  have := List.sum_nonneg h5
  have := List.sum_nonneg h6
  unfold stor; linarith

/-- the model's own initial state satisfies the invariant and holds no water -/
theorem init_inv (x1 x3 x4 : ℝ) (hp : ParamsOk x1 x3 x4) :
    Inv x1 x3 x4 (initState x4).1 ∧ stor (initState x4).1 = 0 := by
  have h1 := init_n1 x4 hp.x4pos
  have h2 := init_n2 x4 hp.x4pos
  have hz : ∀ n : ℕ, ∀ q ∈ (zeros n : List ℝ), q = 0 := by
    intro n q hq; exact (List.mem_replicate.mp hq).2
  have hs : ∀ n : ℕ, (zeros n : List ℝ).sum = 0 := by
    intro n; exact List.sum_eq_zero (hz n)
  refine ⟨⟨?_, ?_, ?_, ?_, ?_, ?_, ?_, ?_⟩, ?_⟩
  · show (0 : ℝ) ≤ (0.0 : ℝ); rw [sciZero]
  · show (0.0 : ℝ) ≤ x1; rw [sciZero]; exact hp.x1pos.le
  · show (0 : ℝ) ≤ (0.0 : ℝ); rw [sciZero]
  · show (0.0 : ℝ) ≤ x3; rw [sciZero]; exact hp.x3pos.le
  · intro q hq; exact (hz _ q hq).ge
  · intro q hq; exact (hz _ q hq).ge
  · show (zeros (initState x4).2.1).length = _
    rw [h1]; exact List.length_replicate
  · show (zeros (initState x4).2.2).length = _
    rw [h2]; exact List.length_replicate
  · show (0.0 : ℝ) + (0.0 : ℝ) + (zeros _ : List ℝ).sum + (zeros _ : List ℝ).sum = 0
    rw [hs, hs, sciZero]; norm_num

end OW.RR.GR4J
