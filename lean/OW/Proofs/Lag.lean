import OW.Kernels.Lag
/-! Loop lemmas for the `Lag` model: pure list theory, core Lean only (`omega`, `simp`). -/
namespace OW.Proofs.Lag
open OW OW.Kernels.Lag

variable {α : Type}

theorem getD_set (l : List α) (i j : Nat) (a d : α) :
    (l.set i a).getD j d = if i = j ∧ j < l.length then a else l.getD j d := by
  simp only [List.getD_eq_getElem?_getD, List.getElem?_set]
  by_cases hij : i = j
  · subst hij
    by_cases hl : i < l.length
    · simp [hl]
    · simp [hl]
  · simp [hij]

/-- a loop of `set`s preserves the length -/
theorem forLoop_length (body : Nat → List α → List α) (hbody : ∀ i l, (body i l).length = l.length) :
    ∀ (n i : Nat) (l : List α), (forLoop body n i l).length = l.length := by
  intro n
  induction n with
  | zero => intro i l; rfl
  | succ n ih => intro i l; simp only [forLoop]; rw [ih, hbody]

/-- a loop writing array-independent values at consecutive positions `off + i`:
`for i := i0; i < i0+n; i++ { l[off+i] = v i }` -/
theorem forLoop_write (off : Nat) (v : Nat → α) (d : α) :
    ∀ (n i0 : Nat) (l : List α) (j : Nat),
      (forLoop (fun i (l : List α) => l.set (off + i) (v i)) n i0 l).getD j d =
        if off + i0 ≤ j ∧ j < off + i0 + n ∧ j < l.length then v (j - off) else l.getD j d := by
  intro n
  induction n with
  | zero =>
    intro i0 l j
    simp only [forLoop]
    rw [if_neg]; omega
  | succ n ih =>
    intro i0 l j
    simp only [forLoop]
    rw [ih, List.length_set, getD_set]
    by_cases h1 : off + i0 = j
    · subst h1
      by_cases hl : off + i0 < l.length
      · rw [if_neg (by omega), if_pos ⟨rfl, hl⟩, if_pos (by omega)]
        congr 1; omega
      · rw [if_neg (by omega), if_neg (by omega), if_neg (by omega)]
    · by_cases h2 : off + (i0 + 1) ≤ j ∧ j < off + (i0 + 1) + n ∧ j < l.length
      · rw [if_pos h2, if_pos (by omega)]
      · rw [if_neg h2, if_neg (by omega), if_neg (by omega)]

/-- the in-place shift `for i := T + k0; …; i++ { l[i-T] = l[i] }` (reads the array it writes) -/
theorem forLoop_shift (T : Nat) (d : α) :
    ∀ (n i0 : Nat) (l : List α) (j : Nat), T ≤ i0 →
      (forLoop (fun i (l : List α) => l.set (i - T) (l.getD i d)) n i0 l).getD j d =
        if i0 - T ≤ j ∧ j < i0 - T + n then l.getD (j + T) d else l.getD j d := by
  intro n
  induction n with
  | zero =>
    intro i0 l j _
    simp only [forLoop]
    rw [if_neg]; omega
  | succ n ih =>
    intro i0 l j hT
    simp only [forLoop]
    rw [ih _ _ _ (by omega), getD_set, getD_set]
    by_cases h1 : i0 - T = j
    · -- the cell written in this iteration; it is not touched again
      have hA : ¬ (i0 + 1 - T ≤ j ∧ j < i0 + 1 - T + n) := by omega
      have hB : i0 - T ≤ j ∧ j < i0 - T + (n + 1) := by omega
      rw [if_neg hA, if_pos hB]
      by_cases hl : j < l.length
      · rw [if_pos ⟨h1, hl⟩]; congr 1; omega
      · have hC : ¬ (i0 - T = j ∧ j < l.length) := by omega
        rw [if_neg hC]
        simp only [List.getD_eq_getElem?_getD]
        rw [List.getElem?_eq_none (by omega), List.getElem?_eq_none (by omega)]
    · by_cases hA : i0 + 1 - T ≤ j ∧ j < i0 + 1 - T + n
      · have hB : i0 - T ≤ j ∧ j < i0 - T + (n + 1) := by omega
        have hC : ¬ (i0 - T = j + T ∧ j + T < l.length) := by omega
        rw [if_pos hA, if_pos hB, if_neg hC]
      · have hB : ¬ (i0 - T ≤ j ∧ j < i0 - T + (n + 1)) := by omega
        have hC : ¬ (i0 - T = j ∧ j < l.length) := by omega
        rw [if_neg hA, if_neg hB, if_neg hC]

theorem getD_zeros [Num α] (n j : Nat) (d : α) : (zeros n : List α).getD j d = if j < n then Num.zero else d := by
  unfold zeros
  simp only [List.getD_eq_getElem?_getD, List.getElem?_replicate]
  by_cases h : j < n <;> simp [h]


theorem write0_eq (v : Nat → α) : (fun i (l : List α) => l.set i (v i)) = (fun i (l : List α) => l.set (0 + i) (v i)) := by
  funext i l; rw [Nat.zero_add]

theorem set_length_body (w : Nat → Nat) (v : Nat → List α → α) :
    ∀ i (l : List α), ((fun i (l : List α) => l.set (w i) (v i l)) i l).length = l.length := by
  intro i l; simp

/-- the outflow series written by `lagCore` -/
theorem lagCore_outflow [Inhabited α] (lag : Nat) (inflow lagged out0 : List α) (hout : out0.length = inflow.length) :
    (lagCore lag inflow lagged out0).outflow.length = inflow.length ∧
    ∀ i, i < inflow.length → (lagCore lag inflow lagged out0).outflow.getD i default =
      if i < lag then lagged.getD i default else inflow.getD (i - lag) default := by
  have hof : (lagCore lag inflow lagged out0).outflow =
      forLoop (fun i (o : List α) => o.set i (inflow.getD (i - lag) default)) (inflow.length - lag) lag
        (forLoop (fun i (o : List α) => o.set i (lagged.getD i default)) (Nat.min lag inflow.length) 0 out0) := by
    unfold lagCore
    simp only
    split <;> rfl
  rw [hof]
  constructor
  · rw [forLoop_length _ (fun i l => by simp), forLoop_length _ (fun i l => by simp), hout]
  · intro i hi
    rw [write0_eq (fun i => inflow.getD (i - lag) default), forLoop_write,
      write0_eq (fun i => lagged.getD i default), forLoop_write]
    rw [forLoop_length _ (fun i l => by simp)]
    simp only [Nat.zero_add, Nat.sub_zero]
    by_cases hlag : i < lag
    · have h1 : ¬ (lag ≤ i ∧ i < lag + (inflow.length - lag) ∧ i < out0.length) := by omega
      have h2 : 0 ≤ i ∧ i < Nat.min lag inflow.length ∧ i < out0.length := by
        refine ⟨Nat.zero_le _, ?_, by omega⟩
        exact Nat.lt_min.mpr ⟨hlag, hi⟩
      rw [if_neg h1, if_pos h2, if_pos hlag]
    · have h1 : lag ≤ i ∧ i < lag + (inflow.length - lag) ∧ i < out0.length := by omega
      rw [if_pos h1, if_neg hlag]

/-- the buffer left by `lagCore`, cell by cell: the last `lag` elements of `buffer ++ inflow`, extra cells untouched -/
theorem lagCore_lagged [Inhabited α] (lag : Nat) (inflow lagged out0 : List α) (hlen : lag ≤ lagged.length) :
    (lagCore lag inflow lagged out0).lagged.length = lagged.length ∧
    ∀ j, (lagCore lag inflow lagged out0).lagged.getD j default =
      if j < lag then
        (if j + inflow.length < lag then lagged.getD (j + inflow.length) default
         else inflow.getD (j + inflow.length - lag) default)
      else lagged.getD j default := by
  by_cases hT : inflow.length < lag
  · have hlg : (lagCore lag inflow lagged out0).lagged =
        forLoop (fun i (l : List α) => l.set (lag - inflow.length + i) (inflow.getD i default)) inflow.length 0
          (forLoop (fun i (l : List α) => l.set (i - inflow.length) (l.getD i default)) (lag - inflow.length) inflow.length lagged) := by
      unfold lagCore
      simp only [if_pos hT]
    rw [hlg]
    constructor
    · rw [forLoop_length _ (fun i l => by simp), forLoop_length _ (fun i l => by simp)]
    · intro j
      rw [forLoop_write, forLoop_shift _ _ _ _ _ _ (Nat.le_refl _), forLoop_length _ (fun i l => by simp)]
      simp only [Nat.add_zero, Nat.sub_self, Nat.zero_add]
      by_cases hj : j < lag
      · rw [if_pos hj]
        by_cases hjt : j + inflow.length < lag
        · have h1 : ¬ (lag - inflow.length ≤ j ∧ j < lag - inflow.length + inflow.length ∧ j < lagged.length) := by omega
          have h2 : 0 ≤ j ∧ j < lag - inflow.length := by omega
          rw [if_neg h1, if_pos h2, if_pos hjt]
        · have h1 : lag - inflow.length ≤ j ∧ j < lag - inflow.length + inflow.length ∧ j < lagged.length := by omega
          rw [if_pos h1, if_neg hjt]
          congr 1; omega
      · have h1 : ¬ (lag - inflow.length ≤ j ∧ j < lag - inflow.length + inflow.length ∧ j < lagged.length) := by omega
        have h2 : ¬ (0 ≤ j ∧ j < lag - inflow.length) := by omega
        rw [if_neg h1, if_neg h2, if_neg hj]
  · have hlg : (lagCore lag inflow lagged out0).lagged =
        forLoop (fun i (l : List α) => l.set i (inflow.getD (inflow.length - lag + i) default)) lag 0 lagged := by
      unfold lagCore
      simp only [if_neg hT]
    rw [hlg]
    constructor
    · rw [forLoop_length _ (fun i l => by simp)]
    · intro j
      rw [write0_eq (fun i => inflow.getD (inflow.length - lag + i) default), forLoop_write]
      simp only [Nat.zero_add, Nat.sub_zero]
      by_cases hj : j < lag
      · have h1 : 0 ≤ j ∧ j < lag ∧ j < lagged.length := by omega
        have h2 : ¬ (j + inflow.length < lag) := by omega
        rw [if_pos h1, if_pos hj, if_neg h2]
        congr 1; omega
      · have h1 : ¬ (0 ≤ j ∧ j < lag ∧ j < lagged.length) := by omega
        rw [if_neg h1, if_neg hj]

end OW.Proofs.Lag
