import OW.Kernels.StorageRouting
import OW.Proofs.RealNum
import OW.Proofs.Lits
import OW.Proofs.FindRoot
import Mathlib.Tactic.Linarith
import Mathlib.Tactic.Ring
import Mathlib.Tactic.NormNum
import Mathlib.Tactic.FieldSimp
import Mathlib.Analysis.SpecialFunctions.Pow.Real
/-! Helper lemmas about the `StorageRouting` model over ℝ. -/
namespace OW.Proofs.StorageRouting
open OW OW.Lits OW.Kernels.StorageRouting

attribute [-simp] OW.RealNum.ofNat_eq

theorem z0 : (0.0 : ℝ) = 0 := by norm_num
theorem o1 : (1.0 : ℝ) = 1 := by norm_num

theorem mbl_eq : (massBalanceLimit : ℝ) = 1 / 1000 := by unfold massBalanceLimit; norm_num
theorem mbl_pos : (0 : ℝ) < massBalanceLimit := by rw [mbl_eq]; norm_num
theorem conv_eq : (convergenceLimit : ℝ) = 0 := by unfold convergenceLimit; norm_num

/-- over ℝ nothing is NaN: `runRouting` never panics -/
theorem runRouting_real (c : Ctx ℝ) (q : ℝ) : runRouting c q = .ok (rr c q) := by
  unfold runRouting
  simp only [RealNum.isNaN_eq, Bool.false_eq_true, if_false]

theorem massBalanceFn_real (c : Ctx ℝ) (q : ℝ) : massBalanceFn c q = (rr c q).massBalance := by
  unfold massBalanceFn
  rw [runRouting_real]

theorem nef_eq (c : Ctx ℝ) : netEvaporationFlux c = min c.initialFluxMax (c.area * c.netEvapRate) := rfl

theorem newStorage_eq (c : Ctx ℝ) :
    newStorage c = max (c.storage + (c.inflow + c.lateral - netEvaporationFlux c) * c.duration) 0 := by
  unfold newStorage
  rw [RealNum.gmax_eq, z0]

theorem newStorage_nonneg (c : Ctx ℝ) : 0 ≤ newStorage c := by
  rw [newStorage_eq]; exact le_max_right _ _

theorem rr_sIndex (c : Ctx ℝ) (q : ℝ) : (rr c q).sIndex = sIndex c q := rfl

theorem rr_outflow (c : Ctx ℝ) (q : ℝ) : (rr c q).outflow = max 0 (newStorage c - sIndex c q) / c.duration := by
  unfold rr
  simp only [RealNum.gmax_eq]
  rw [lit0]

theorem rr_massBalance (c : Ctx ℝ) (q : ℝ) (hb : c.bias < 0.999) :
    (rr c q).massBalance =
      (q - c.bias * (c.inflow + c.lateral)) * c.duration / (1 - c.bias) + sIndex c q - newStorage c := by
  unfold rr
  simp only [if_pos hb, o1]

theorem rr_outflow_nonneg (c : Ctx ℝ) (q : ℝ) (hd : 0 < c.duration) : 0 ≤ (rr c q).outflow := by
  rw [rr_outflow]; exact div_nonneg (le_max_left _ _) (le_of_lt hd)

/-- **balance on every exit that reports `SIndex`**: reported storage + outflow volume = the larger of the water
present and the index storage (exact; the divisor `duration` is non-zero) -/
theorem sindex_exit_balance (c : Ctx ℝ) (q : ℝ) (hd : 0 < c.duration) :
    (rr c q).sIndex + (rr c q).outflow * c.duration = max (newStorage c) (sIndex c q) := by
  rw [rr_sIndex, rr_outflow, div_mul_cancel₀ _ (ne_of_gt hd)]
  rcases le_total (newStorage c) (sIndex c q) with h | h
  · rw [max_eq_left (by linarith), max_eq_right h]; ring
  · rw [max_eq_right (by linarith), max_eq_left h]; ring


/-- the full-drain outflow and storage -/
noncomputable def drainOutflow (c : Ctx ℝ) : ℝ := max 0 (c.initialFluxMax - netEvaporationFlux c + c.lateral)
noncomputable def drainStorage (c : Ctx ℝ) : ℝ :=
  max (c.storage + (c.inflow + c.lateral - netEvaporationFlux c - drainOutflow c) * c.duration) 0

/-- the exits of the second half of `calcOutflow` -/
theorem solve_cases (c : Ctx ℝ) (prevQi minQI mx : ℝ) (r : CO ℝ) (h : solve c prevQi minQI mx = .ok r) :
    (r = ⟨mx, drainOutflow c, drainStorage c, "full-drain-at-maxqi"⟩ ∧ (rr c mx).massBalance < massBalanceLimit) ∨
    (massBalanceLimit ≤ (rr c mx).massBalance ∧
      ((minQI < prevQi ∧ prevQi < mx ∧ |(rr c prevQi).massBalance| < massBalanceLimit ∧
          r = ⟨prevQi, (rr c prevQi).outflow, (rr c prevQi).sIndex, "prev-qi"⟩) ∨
       ((prevQi ≤ minQI ∨ mx ≤ prevQi) ∧ |(rr c ((minQI + mx) / 2)).massBalance| < massBalanceLimit ∧
          r = ⟨(minQI + mx) / 2, (rr c ((minQI + mx) / 2)).outflow, (rr c ((minQI + mx) / 2)).sIndex, "mid-qi"⟩) ∨
       (∃ fr, OW.Fn.findRoot (massBalanceFn c) (some (slopeOfMassBalance c)) minQI minQI mx massBalanceLimit
            convergenceLimit maxIterations = .ok fr ∧
          r = ⟨fr.x, (rr c fr.x).outflow, (rr c fr.x).sIndex, "root"⟩))) := by
  unfold solve at h
  simp only [runRouting_real, RealNum.isNaN_eq, RealNum.abs_eq, RealNum.gmax_eq, z0] at h
  by_cases h1 : (rr c mx).massBalance < massBalanceLimit
  · left
    rw [if_pos h1] at h
    cases h
    exact ⟨rfl, h1⟩
  · right
    refine ⟨not_lt.mp h1, ?_⟩
    rw [if_neg h1] at h
    have half : ∀ a : ℝ, a * 0.5 = a / 2 := by intro a; norm_num; ring
    by_cases hreset : prevQi ≤ minQI ∨ mx ≤ prevQi
    · have hr : (decide (prevQi ≤ minQI) || decide (mx ≤ prevQi)) = true := by
        simp only [Bool.or_eq_true, decide_eq_true_eq]; exact hreset
      simp only [hr, if_true, half] at h
      by_cases h2 : |(rr c ((minQI + mx) / 2)).massBalance| < massBalanceLimit
      · rw [if_pos h2] at h
        cases h
        exact Or.inr (Or.inl ⟨hreset, h2, rfl⟩)
      · rw [if_neg h2] at h
        right; right
        cases hf : OW.Fn.findRoot (massBalanceFn c) (some (slopeOfMassBalance c)) minQI minQI mx massBalanceLimit
            convergenceLimit maxIterations with
        | error e => rw [hf] at h; cases h
        | ok fr =>
          rw [hf] at h
          simp only [List.any_eq_true, Bool.false_eq_true, and_false, exists_false, if_false] at h
          cases h
          exact ⟨fr, rfl, rfl⟩
    · have hr : (decide (prevQi ≤ minQI) || decide (mx ≤ prevQi)) = false := by
        simp only [Bool.or_eq_false_iff, decide_eq_false_iff_not]
        exact ⟨fun a => hreset (Or.inl a), fun a => hreset (Or.inr a)⟩
      simp only [hr, Bool.false_eq_true, if_false] at h
      have hin : minQI < prevQi ∧ prevQi < mx := by
        constructor
        · exact not_le.mp (fun a => hreset (Or.inl a))
        · exact not_le.mp (fun a => hreset (Or.inr a))
      by_cases h2 : |(rr c prevQi).massBalance| < massBalanceLimit
      · rw [if_pos h2] at h
        cases h
        exact Or.inl ⟨hin.1, hin.2, h2, rfl⟩
      · rw [if_neg h2] at h
        right; right
        cases hf : OW.Fn.findRoot (massBalanceFn c) (some (slopeOfMassBalance c)) minQI minQI mx massBalanceLimit
            convergenceLimit maxIterations with
        | error e => rw [hf] at h; cases h
        | ok fr =>
          rw [hf] at h
          simp only [List.any_eq_true, Bool.false_eq_true, and_false, exists_false, if_false] at h
          cases h
          exact ⟨fr, rfl, rfl⟩

/-- the exits of `calcOutflow` -/
theorem calcOutflow_cases (inflow lateral bias prevQi po prevStorage ner area dead dur rp rc ql kl ko : ℝ) (r : CO ℝ)
    (h : calcOutflow inflow lateral bias prevQi po prevStorage ner area dead dur rp rc ql kl ko = .ok r) :
    let c := mkCtx inflow lateral bias prevStorage ner area dead dur rp rc ql kl ko
    let minQI := bias * (inflow + lateral)
    (r = ⟨minQI, 0, newStorage c, "zero-at-minqi"⟩ ∧ massBalanceLimit ≤ (rr c minQI).massBalance) ∨
    (r = ⟨minQI, (rr c minQI).outflow, (rr c minQI).sIndex, "balanced-at-minqi"⟩ ∧
      (rr c minQI).massBalance < massBalanceLimit ∧ -massBalanceLimit ≤ (rr c minQI).massBalance) ∨
    (r = ⟨minQI, 0, newStorage c, "zero-maxqi-le-minqi"⟩ ∧ (rr c minQI).massBalance < -massBalanceLimit ∧
      maxQI c minQI ≤ minQI) ∨
    ((rr c minQI).massBalance < -massBalanceLimit ∧ minQI < maxQI c minQI ∧ solve c prevQi minQI (maxQI c minQI) = .ok r) := by
  intro c minQI
  unfold calcOutflow at h
  simp only [runRouting_real, RealNum.isNaN_eq, Bool.or_self, Bool.false_eq_true, if_false, z0] at h
  by_cases h1 : massBalanceLimit ≤ (rr c minQI).massBalance
  · left
    rw [if_pos h1] at h
    cases h
    exact ⟨rfl, h1⟩
  · rw [if_neg h1] at h
    by_cases h2 : -massBalanceLimit ≤ (rr c minQI).massBalance
    · right; left
      rw [if_pos h2] at h
      cases h
      exact ⟨rfl, not_le.mp h1, h2⟩
    · rw [if_neg h2] at h
      by_cases h3 : maxQI c minQI ≤ minQI
      · right; right; left
        rw [if_pos h3] at h
        cases h
        exact ⟨rfl, not_le.mp h2, h3⟩
      · right; right; right
        rw [if_neg h3] at h
        exact ⟨not_le.mp h2, not_le.mp h3, h⟩


/-! ### water balance -/

/-- water present at the end of the step before any outflow: `prevStorage + (inflow + lateral − netEvaporationFlux)·Δt` -/
noncomputable def avail (c : Ctx ℝ) : ℝ := c.storage + (c.inflow + c.lateral - netEvaporationFlux c) * c.duration

/-- balance error of a reported (outflow, storage) pair: `storage' − (prevStorage + (inflow + lateral − netEvap − outflow)·Δt)` -/
noncomputable def balanceErr (c : Ctx ℝ) (r : CO ℝ) : ℝ := r.storage - (avail c - r.outflow * c.duration)

theorem balanceErr_eq (c : Ctx ℝ) (r : CO ℝ) :
    balanceErr c r = r.storage - (c.storage + (c.inflow + c.lateral - netEvaporationFlux c - r.outflow) * c.duration) := by
  unfold balanceErr avail; ring

section ctx
variable (inflow lateral bias prevStorage ner area dead dur rp rc ql kl ko : ℝ)

theorem mkCtx_ifm (hp : 0 ≤ prevStorage) :
    (mkCtx inflow lateral bias prevStorage ner area dead dur rp rc ql kl ko).initialFluxMax = prevStorage / dur + inflow := by
  unfold mkCtx
  simp only [RealNum.gmax_eq, z0, max_eq_right hp]

/-- `(initialFluxMax − netEvaporationFlux + lateral)·Δt` is exactly the water present (previous storage ≥ 0) -/
theorem flux_eq_avail (hd : 0 < dur) (hp : 0 ≤ prevStorage) :
    let c := mkCtx inflow lateral bias prevStorage ner area dead dur rp rc ql kl ko
    (c.initialFluxMax - netEvaporationFlux c + c.lateral) * c.duration = avail c := by
  intro c
  have h1 : c.initialFluxMax = prevStorage / dur + inflow := mkCtx_ifm _ _ _ _ _ _ _ _ _ _ _ _ _ hp
  have h2 : c.duration = dur := rfl
  have h3 : c.storage = prevStorage := rfl
  have h4 : c.inflow = inflow := rfl
  unfold avail
  rw [h1, h2, h3, h4]
  field_simp
  ring

/-- the evaporation taken never exceeds what is present, so the water present is non-negative (it is at least the
lateral inflow volume) and `newStorage` is not clipped -/
theorem avail_nonneg (hd : 0 < dur) (hp : 0 ≤ prevStorage) (hl : 0 ≤ lateral) :
    let c := mkCtx inflow lateral bias prevStorage ner area dead dur rp rc ql kl ko
    0 ≤ avail c ∧ newStorage c = avail c ∧ 0 ≤ c.initialFluxMax - netEvaporationFlux c + c.lateral := by
  intro c
  have hflux := flux_eq_avail inflow lateral bias prevStorage ner area dead dur rp rc ql kl ko hd hp
  simp only at hflux
  have hnef : netEvaporationFlux c ≤ c.initialFluxMax := by rw [nef_eq]; exact min_le_left _ _
  have hlat : c.lateral = lateral := rfl
  have hdur : c.duration = dur := rfl
  have h0 : 0 ≤ c.initialFluxMax - netEvaporationFlux c + c.lateral := by rw [hlat]; linarith
  have ha : 0 ≤ avail c := by
    rw [← hflux, hdur]; exact mul_nonneg h0 (le_of_lt hd)
  refine ⟨ha, ?_, h0⟩
  rw [newStorage_eq]
  exact max_eq_left ha

end ctx

/-- on an exit that reports `SIndex(q)` with `q ≥ minQI` the balance error is `max 0 (SIndex − water present)`,
which is at most the mass-balance residual at `q` -/
theorem sindex_exit_err (c : Ctx ℝ) (q : ℝ) (tag : String) (hd : 0 < c.duration) (hns : newStorage c = avail c)
    (hb : c.bias < 0.999) (hq : c.bias * (c.inflow + c.lateral) ≤ q) :
    let r : CO ℝ := ⟨q, (rr c q).outflow, (rr c q).sIndex, tag⟩
    0 ≤ balanceErr c r ∧ balanceErr c r = max 0 (sIndex c q - avail c) ∧ balanceErr c r ≤ max 0 (rr c q).massBalance := by
  intro r
  have hbal := sindex_exit_balance c q hd
  have herr : balanceErr c r = max 0 (sIndex c q - avail c) := by
    unfold balanceErr
    show (rr c q).sIndex - (avail c - (rr c q).outflow * c.duration) = _
    have : (rr c q).sIndex - (avail c - (rr c q).outflow * c.duration) =
        ((rr c q).sIndex + (rr c q).outflow * c.duration) - avail c := by ring
    rw [this, hbal, hns]
    rcases le_total (avail c) (sIndex c q) with h | h
    · rw [max_eq_right h, max_eq_right (by linarith)]
    · rw [max_eq_left h, max_eq_left (by linarith)]; ring
  refine ⟨by rw [herr]; exact le_max_left _ _, herr, ?_⟩
  rw [herr, rr_massBalance c q hb, hns]
  have hb1 : (0 : ℝ) < 1 - c.bias := by
    have : (0.999 : ℝ) < 1 := by norm_num
    linarith
  have hterm : 0 ≤ (q - c.bias * (c.inflow + c.lateral)) * c.duration / (1 - c.bias) :=
    div_nonneg (mul_nonneg (by linarith) (le_of_lt hd)) (le_of_lt hb1)
  apply max_le_max (le_refl _)
  linarith


/-! ### non-negativity of the index storage -/

theorem sIndex_eq (c : Ctx ℝ) (q : ℝ) :
    sIndex c q = if q ≤ 0 then c.deadStorage
      else if (c.routingPower ≤ 1 ∧ q < c.qlimit) ∨ (1 < c.routingPower ∧ c.qlimit < q) then c.klimit * q + c.deadStorage
      else c.routingConstant * q ^ c.routingPower - c.koffset + c.deadStorage := by
  unfold sIndex linearZone
  simp only [z0, o1, RealNum.pow_eq]

/-- `SIndex ≥ dead storage ≥ 0` for every index flow, provided the offset of the power branch does not exceed the
power-law storage at the switch-over flow (`koffset ≤ k·Qlimit^m` for `m ≤ 1`, `koffset = 0` for `m > 1`) -/
theorem sIndex_nonneg (c : Ctx ℝ) (hkl : 0 ≤ c.klimit) (hrc : 0 ≤ c.routingConstant)
    (hql : 0 ≤ c.qlimit) (hrp : 0 ≤ c.routingPower)
    (hko1 : c.routingPower ≤ 1 → c.koffset ≤ c.routingConstant * c.qlimit ^ c.routingPower)
    (hko2 : 1 < c.routingPower → c.koffset ≤ 0) (q : ℝ) : c.deadStorage ≤ sIndex c q := by
  rw [sIndex_eq]
  split_ifs with h1 h2
  · exact le_refl _
  · have hq : 0 < q := not_le.mp h1
    have := mul_nonneg hkl (le_of_lt hq)
    linarith
  · have hq : 0 < q := not_le.mp h1
    have hpow : 0 ≤ q ^ c.routingPower := Real.rpow_nonneg (le_of_lt hq) _
    rcases le_or_gt c.routingPower 1 with hle | hgt
    · -- power zone for m ≤ 1 is q ≥ Qlimit
      have hqq : c.qlimit ≤ q := by
        by_contra hcon
        exact h2 (Or.inl ⟨hle, not_le.mp hcon⟩)
      have hmono : c.qlimit ^ c.routingPower ≤ q ^ c.routingPower := Real.rpow_le_rpow hql hqq hrp
      have := hko1 hle
      have := mul_le_mul_of_nonneg_left hmono hrc
      linarith
    · have := hko2 hgt
      have := mul_nonneg hrc hpow
      linarith


/-- what the prologue of `storageRouting` guarantees about `Klimit`, `Qlimit`, `Koffset` for parameters of the region
`bias ≥ 0`, `k > 0`, `0 < m ≤ 1`, `Δt > 0`: exactly the hypotheses of `sIndex_nonneg` (the offset is the one that makes
the linear extension meet the power law at `Qlimit`: `k·Qlimit^m = Klimit·Qlimit/m ≥ Koffset`) -/
theorem setup_facts (bias k x dt : ℝ) (hb : 0 ≤ bias) (hk : 0 < k) (hx0 : 0 < x) (hx1 : x ≤ 1) (hdt : 0 < dt) :
    let su := setup bias k x dt
    0 ≤ su.klimit ∧ 0 ≤ su.qlimit ∧ 0 ≤ su.x ∧ su.x ≤ 1 ∧ su.koffset ≤ k * su.qlimit ^ su.x ∧ 0 ≤ su.bias ∧
      (bias < 0.999 → su.bias < 0.999) := by
  intro su
  have e001 : (0.001 : ℝ) = 1 / 1000 := by norm_num
  by_cases hA : |bias| < 0.001
  · have hsu : su = ⟨0, x, k, 0, 0⟩ := by
      show setup bias k x dt = _
      unfold setup
      simp only [RealNum.abs_eq, if_pos hA, z0, o1, if_neg (not_lt.mpr hx1)]
    rw [hsu]
    refine ⟨le_of_lt hk, le_refl _, le_of_lt hx0, hx1, ?_, le_refl _, fun _ => by norm_num⟩
    simp only
    have : (0 : ℝ) ^ x = 0 := Real.zero_rpow (ne_of_gt hx0)
    rw [this, mul_zero]
  · by_cases hB : |x - 1| < 0.001
    · have hsu : su = ⟨bias, 1, k, 0, 0⟩ := by
        show setup bias k x dt = _
        unfold setup
        simp only [RealNum.abs_eq, if_neg hA, o1, z0, if_pos hB]
      rw [hsu]
      refine ⟨le_of_lt hk, le_refl _, by norm_num, le_refl _, ?_, hb, fun h => h⟩
      simp only
      rw [Real.rpow_one, mul_zero]
    · -- the general branch: x < 1 strictly (|x-1| ≥ 0.001 and x ≤ 1), bias ≥ 0.001 > 0
      have hbpos : 0 < bias := by
        rw [abs_of_nonneg hb] at hA
        rw [e001] at hA
        linarith [not_lt.mp hA]
      have hxlt : x < 1 := by
        rw [e001] at hB
        have := not_lt.mp hB
        rcases lt_or_eq_of_le hx1 with h | h
        · exact h
        · rw [h, sub_self, abs_zero] at this; linarith
      have hsu : su = ⟨bias, x, dt / bias, (dt / bias / (x * k)) ^ (1 / (x - 1)),
          (dt / bias / (x * k)) ^ (1 / (x - 1)) * (dt / bias) * (1 - x) / x⟩ := by
        show setup bias k x dt = _
        unfold setup
        simp only [RealNum.abs_eq, if_neg hA, o1, z0, if_neg hB, if_pos hxlt, RealNum.pow_eq]
      rw [hsu]
      simp only
      have hkl : 0 < dt / bias := div_pos hdt hbpos
      have ha : 0 < dt / bias / (x * k) := div_pos hkl (mul_pos hx0 hk)
      set a := dt / bias / (x * k) with hadef
      set Q := a ^ (1 / (x - 1)) with hQ
      have hQpos : 0 < Q := Real.rpow_pos_of_pos ha _
      have hne : x - 1 ≠ 0 := by linarith
      have hQx1 : Q ^ (x - 1) = a := by
        rw [hQ, ← Real.rpow_mul (le_of_lt ha), one_div, inv_mul_cancel₀ hne, Real.rpow_one]
      have hQx : Q ^ x = a * Q := by
        have : x = (x - 1) + 1 := by ring
        rw [this, Real.rpow_add hQpos, Real.rpow_one, hQx1]
      refine ⟨le_of_lt hkl, le_of_lt hQpos, le_of_lt hx0, hx1, ?_, hb, fun h => h⟩
      rw [hQx]
      have hka : k * (a * Q) = Q * (dt / bias) / x := by
        rw [hadef]; field_simp
      rw [hka]
      have hnn : 0 ≤ Q * (dt / bias) / x := div_nonneg (mul_nonneg (le_of_lt hQpos) (le_of_lt hkl)) (le_of_lt hx0)
      have : Q * (dt / bias) * (1 - x) / x = (Q * (dt / bias) / x) * (1 - x) := by ring
      rw [this]
      have h1x : 1 - x ≤ 1 := by linarith
      nlinarith


/-! ### totality over ℝ: `calcOutflow` never panics when FindRoot is entered with a bracketed root, which it always is -/

theorem findRoot_ok_of_bracket (c : Ctx ℝ) (minQI mx : ℝ) (h1 : (rr c minQI).massBalance ≤ 0) (h2 : 0 ≤ (rr c mx).massBalance) :
    ∃ fr, OW.Fn.findRoot (massBalanceFn c) (some (slopeOfMassBalance c)) minQI minQI mx massBalanceLimit
      convergenceLimit maxIterations = .ok fr := by
  unfold OW.Fn.findRoot
  simp only [massBalanceFn_real]
  rw [if_neg]
  · exact ⟨_, rfl⟩
  · rw [lit0]
    rintro (h | h) <;> linarith

theorem solve_ok (c : Ctx ℝ) (prevQi minQI mx : ℝ) (hmin : (rr c minQI).massBalance ≤ 0) :
    ∃ r, solve c prevQi minQI mx = .ok r := by
  unfold solve
  simp only [runRouting_real, RealNum.isNaN_eq, RealNum.abs_eq]
  by_cases h1 : (rr c mx).massBalance < massBalanceLimit
  · rw [if_pos h1]; exact ⟨_, rfl⟩
  · rw [if_neg h1]
    have h2 : 0 ≤ (rr c mx).massBalance := le_trans (le_of_lt mbl_pos) (not_lt.mp h1)
    obtain ⟨fr, hfr⟩ := findRoot_ok_of_bracket c minQI mx hmin h2
    simp only [hfr, List.any_eq_true, Bool.false_eq_true, and_false, exists_false, if_false]
    split_ifs <;> exact ⟨_, rfl⟩

theorem calcOutflow_ok (inflow lateral bias prevQi po prevStorage ner area dead dur rp rc ql kl ko : ℝ) :
    ∃ r, calcOutflow inflow lateral bias prevQi po prevStorage ner area dead dur rp rc ql kl ko = .ok r := by
  unfold calcOutflow
  simp only [runRouting_real, RealNum.isNaN_eq, Bool.or_self, Bool.false_eq_true, if_false]
  split_ifs with h1 h2 h3
  · exact ⟨_, rfl⟩
  · exact ⟨_, rfl⟩
  · exact ⟨_, rfl⟩
  · apply solve_ok
    have := not_le.mp h2
    linarith [mbl_pos]


/-- the prologue for zero bias and `m ≤ 1` -/
theorem setup_zero_bias (bias k x dt : ℝ) (hb : |bias| < 0.001) (hx : x ≤ 1) : setup bias k x dt = ⟨0, x, k, 0, 0⟩ := by
  unfold setup
  simp only [RealNum.abs_eq, if_pos hb, z0, o1, if_neg (not_lt.mpr hx)]


end OW.Proofs.StorageRouting
