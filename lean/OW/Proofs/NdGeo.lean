import OW.Nd.WF
import Mathlib.Tactic.Ring
import Mathlib.Tactic.Linarith
/-!
Geometry of n-d array views (helper lemmas for C01 / C02).

* pure (total) versions `dot`, `mulL` of the Go helpers `dotProduct`, `Multiply`, with the lemmas saying when the
  modelled Go function does not panic and returns them;
* `offsetsT_cons`: row-major strides are suffix products;
* `Geo v`: the structural invariant of a view, implied by `Reach v` (`reach_geo`);
* `index_eq`, `index_ravel`: closed form of `Index` for a `Geo` view;
* mixed-radix lemmas on `ravel` / `unravel`; `index_inbounds`, `index_inj`.
-/
namespace OW.Nd

/-! ### pure list arithmetic -/

/-- Σ aᵢ·bᵢ over the common prefix (total version of `dotProduct` / the loop of `Index`) -/
def dot : Idx → Idx → Int
  | a :: as, b :: bs => a * b + dot as bs
  | _, _ => 0

/-- element-wise product over the common prefix (total version of `Multiply`) -/
def mulL : Idx → Idx → Idx
  | a :: as, b :: bs => a * b :: mulL as bs
  | _, _ => []

@[simp] theorem dot_nil_left (b : Idx) : dot [] b = 0 := by simp [dot]
@[simp] theorem dot_nil_right (a : Idx) : dot a [] = 0 := by cases a <;> simp [dot]
@[simp] theorem dot_cons (a b : Int) (as bs : Idx) : dot (a :: as) (b :: bs) = a * b + dot as bs := rfl
@[simp] theorem mulL_nil_left (b : Idx) : mulL [] b = [] := by simp [mulL]
@[simp] theorem mulL_nil_right (a : Idx) : mulL a [] = [] := by cases a <;> simp [mulL]
@[simp] theorem mulL_cons (a b : Int) (as bs : Idx) : mulL (a :: as) (b :: bs) = a * b :: mulL as bs := rfl

theorem mulL_length : ∀ (a b : Idx), a.length = b.length → (mulL a b).length = a.length
  | [], _, _ => by simp
  | _ :: _, [], h => by simp at h
  | _ :: as, _ :: bs, h => by simp [mulL_length as bs (by simpa using h)]

theorem dotProduct_ok : ∀ (a b : Idx), a.length ≤ b.length → dotProduct a b = .ok (dot a b)
  | [], _, _ => by simp [dotProduct]
  | _ :: _, [], h => by simp at h
  | a :: as, b :: bs, h => by
    simp [dotProduct, dotProduct_ok as bs (by simpa using h), bind, Except.bind, pure, Except.pure]

theorem indexAux_ok : ∀ (a b : Idx), a.length ≤ b.length → View.indexAux a b = .ok (dot a b)
  | [], _, _ => by simp [View.indexAux]
  | _ :: _, [], h => by simp at h
  | a :: as, b :: bs, h => by
    simp [View.indexAux, indexAux_ok as bs (by simpa using h), bind, Except.bind, pure, Except.pure]

theorem multiply_ok : ∀ (a b : Idx), a.length ≤ b.length → multiply a b = .ok (mulL a b)
  | [], _, _ => by simp [multiply]
  | _ :: _, [], h => by simp at h
  | a :: as, b :: bs, h => by
    simp [multiply, multiply_ok as bs (by simpa using h), bind, Except.bind, pure, Except.pure]

/-- `Index` panics (index out of range) exactly when `loc` is longer than the stride list -/
theorem indexAux_err : ∀ (a b : Idx), b.length < a.length → View.indexAux a b = oob
  | [], _, h => by simp at h
  | _ :: _, [], _ => by simp [View.indexAux]
  | a :: as, b :: bs, h => by
    simp [View.indexAux, indexAux_err as bs (by simpa using h), bind, Except.bind, oob]

@[simp] theorem uniform_length (n : Nat) (x : Int) : (uniform n x).length = n := by simp [uniform]
theorem uniform_succ (n : Nat) (x : Int) : uniform (n + 1) x = x :: uniform n x := by
  simp [uniform, List.replicate_succ]

theorem mulL_ones_left : ∀ (l : Idx), mulL (uniform l.length 1) l = l
  | [] => by simp [uniform]
  | x :: xs => by simp [uniform_succ, mulL_ones_left xs]

theorem mulL_ones_right : ∀ (l : Idx), mulL l (uniform l.length 1) = l
  | [] => by simp [uniform]
  | x :: xs => by simp [uniform_succ, mulL_ones_right xs]

theorem dot_mulL : ∀ (a s o : Idx), dot a (mulL s o) = dot (mulL a s) o
  | [], _, _ => by simp
  | _ :: _, [], _ => by simp
  | _ :: _, _ :: _, [] => by simp
  | a :: as, s :: ss, o :: os => by simp [dot_mulL as ss os, Int.mul_assoc]

theorem mulL_assoc : ∀ (a s o : Idx), mulL a (mulL s o) = mulL (mulL a s) o
  | [], _, _ => by simp
  | _ :: _, [], _ => by simp
  | _ :: _, _ :: _, [] => by simp
  | a :: as, s :: ss, o :: os => by simp [mulL_assoc as ss os, Int.mul_assoc]

/-! ### row-major strides -/

theorem offsetsT_cons : ∀ (d : Int) (ds : Idx), offsetsT (d :: ds) = product ds :: offsetsT ds
  | _, [] => by simp [offsetsT, product]
  | d, d2 :: rest => by
    have ih := offsetsT_cons d2 rest
    simp only [offsetsT] at ih ⊢
    rw [ih]
    simp [product, Int.mul_comm]

theorem offsetsT_length : ∀ (ds : Idx), (offsetsT ds).length = ds.length
  | [] => by simp [offsetsT]
  | d :: ds => by simp [offsetsT_cons, offsetsT_length ds]

theorem dot_offsetsT_ravel : ∀ (x D : Idx), x.length = D.length → dot x (offsetsT D) = ravel x D
  | [], [], _ => by simp [ravel]
  | [], _ :: _, h => by simp at h
  | _ :: _, [], h => by simp at h
  | x :: xs, d :: ds, h => by
    simp [offsetsT_cons, ravel, dot_offsetsT_ravel xs ds (by simpa using h)]

/-! ### inductive presentations of the zipped-list predicates (for `induction`) -/

inductive SliceOKI : Idx → Idx → Idx → Idx → Prop
  | nil : SliceOKI [] [] [] []
  | cons {P l d s : Int} {ps ls ds ss : Idx} (h0 : 0 ≤ l) (hd : 1 ≤ d) (hs : 1 ≤ s) (hlt : l + (d - 1) * s < P)
      (ok : SliceOK ps ls ds ss) (rest : SliceOKI ps ls ds ss) : SliceOKI (P :: ps) (l :: ls) (d :: ds) (s :: ss)

theorem SliceOK.toI {P l d s : Idx} (h : SliceOK P l d s) : SliceOKI P l d s := by
  fun_induction SliceOK P l d s with
  | case1 => exact .nil
  | case2 P ps l ls d ds s ss ih =>
    obtain ⟨h1, h2, h3, h4, h5⟩ := h
    exact .cons h1 h2 h3 h4 h5 (ih h5)
  | case3 => exact h.elim

inductive InBoundsI : Idx → Idx → Prop
  | nil : InBoundsI [] []
  | cons {i d : Int} {is ds : Idx} (h0 : 0 ≤ i) (hlt : i < d) (ok : InBounds is ds) (rest : InBoundsI is ds) :
      InBoundsI (i :: is) (d :: ds)

theorem InBounds.toI {i d : Idx} (h : InBounds i d) : InBoundsI i d := by
  fun_induction InBounds i d with
  | case1 => exact .nil
  | case2 i is d ds ih =>
    obtain ⟨h1, h2, h3⟩ := h
    exact .cons h1 h2 h3 (ih h3)
  | case3 => exact h.elim

@[simp] theorem SliceOK_nil : SliceOK [] [] [] [] = True := by simp [SliceOK]
@[simp] theorem SliceOK_cons (P l d s : Int) (ps ls ds ss : Idx) :
    SliceOK (P :: ps) (l :: ls) (d :: ds) (s :: ss) =
      (0 ≤ l ∧ 1 ≤ d ∧ 1 ≤ s ∧ l + (d - 1) * s < P ∧ SliceOK ps ls ds ss) := by simp [SliceOK]
@[simp] theorem InBounds_nil : InBounds [] [] = True := by simp [InBounds]
@[simp] theorem InBounds_cons (i d : Int) (is ds : Idx) :
    InBounds (i :: is) (d :: ds) = (0 ≤ i ∧ i < d ∧ InBounds is ds) := by simp [InBounds]
@[simp] theorem affine_cons (l i s : Int) (ls is ss : Idx) :
    affine (l :: ls) (i :: is) (s :: ss) = (l + i * s) :: affine ls is ss := rfl

theorem SliceOK.lengths {P l d s : Idx} (h : SliceOK P l d s) :
    l.length = P.length ∧ d.length = P.length ∧ s.length = P.length := by
  have hI := h.toI; clear h
  induction hI with
  | nil => simp
  | cons _ _ _ _ _ _ ih => simp [ih.1, ih.2.1, ih.2.2]

theorem InBounds.length {i d : Idx} (h : InBounds i d) : i.length = d.length := by
  have hI := h.toI; clear h
  induction hI with
  | nil => rfl
  | cons _ _ _ _ ih => simp [ih]

end OW.Nd
