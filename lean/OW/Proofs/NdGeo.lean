import OW.Nd.WF
import Mathlib.Tactic.Ring
import Mathlib.Tactic.Linarith
/-!
Geometry of n-d array views (helper lemmas for C01 / C02).

* pure (total) versions `dot`, `mulL` of the Go helpers `dotProduct`, `Multiply`, with the lemmas saying when the
  modelled Go function does not panic and returns them;
* `offsetsT_cons`: row-major strides are suffix products;
* `Geo v`: the structural invariant of a view, implied by `Reach v` (`reach_geo`);
* `index_eq`, `index_ravel`: closed form of `Index` for a `Geo` view;
* mixed-radix lemmas on `ravel` / `unravel`; `index_inbounds`, `index_inj`.
-/
namespace OW.Nd

/-! ### pure list arithmetic -/

/-- Σ aᵢ·bᵢ over the common prefix (total version of `dotProduct` / the loop of `Index`) -/
def dot : Idx → Idx → Int
  | a :: as, b :: bs => a * b + dot as bs
  | _, _ => 0

/-- element-wise product over the common prefix (total version of `Multiply`) -/
def mulL : Idx → Idx → Idx
  | a :: as, b :: bs => a * b :: mulL as bs
  | _, _ => []

@[simp] theorem dot_nil_left (b : Idx) : dot [] b = 0 := by simp [dot]
@[simp] theorem dot_nil_right (a : Idx) : dot a [] = 0 := by cases a <;> simp [dot]
@[simp] theorem dot_cons (a b : Int) (as bs : Idx) : dot (a :: as) (b :: bs) = a * b + dot as bs := rfl
@[simp] theorem mulL_nil_left (b : Idx) : mulL [] b = [] := by simp [mulL]
@[simp] theorem mulL_nil_right (a : Idx) : mulL a [] = [] := by cases a <;> simp [mulL]
@[simp] theorem mulL_cons (a b : Int) (as bs : Idx) : mulL (a :: as) (b :: bs) = a * b :: mulL as bs := rfl

theorem mulL_length : ∀ (a b : Idx), a.length = b.length → (mulL a b).length = a.length
  | [], _, _ => by simp
  | _ :: _, [], h => by simp at h
  | _ :: as, _ :: bs, h => by simp [mulL_length as bs (by simpa using h)]

theorem dotProduct_ok : ∀ (a b : Idx), a.length ≤ b.length → dotProduct a b = .ok (dot a b)
  | [], _, _ => by simp [dotProduct]
  | _ :: _, [], h => by simp at h
  | a :: as, b :: bs, h => by
    simp [dotProduct, dotProduct_ok as bs (by simpa using h), bind, Except.bind, pure, Except.pure]

theorem indexAux_ok : ∀ (a b : Idx), a.length ≤ b.length → View.indexAux a b = .ok (dot a b)
  | [], _, _ => by simp [View.indexAux]
  | _ :: _, [], h => by simp at h
  | a :: as, b :: bs, h => by
    simp [View.indexAux, indexAux_ok as bs (by simpa using h), bind, Except.bind, pure, Except.pure]

theorem multiply_ok : ∀ (a b : Idx), a.length ≤ b.length → multiply a b = .ok (mulL a b)
  | [], _, _ => by simp [multiply]
  | _ :: _, [], h => by simp at h
  | a :: as, b :: bs, h => by
    simp [multiply, multiply_ok as bs (by simpa using h), bind, Except.bind, pure, Except.pure]

/-- `Index` panics (index out of range) exactly when `loc` is longer than the stride list -/
theorem indexAux_err : ∀ (a b : Idx), b.length < a.length → View.indexAux a b = oob
  | [], _, h => by simp at h
  | _ :: _, [], _ => by simp [View.indexAux]
  | a :: as, b :: bs, h => by
    simp [View.indexAux, indexAux_err as bs (by simpa using h), bind, Except.bind, oob]

@[simp] theorem uniform_length (n : Nat) (x : Int) : (uniform n x).length = n := by simp [uniform]
theorem uniform_succ (n : Nat) (x : Int) : uniform (n + 1) x = x :: uniform n x := by
  simp [uniform, List.replicate_succ]

theorem mulL_ones_left : ∀ (l : Idx), mulL (uniform l.length 1) l = l
  | [] => by simp [uniform]
  | x :: xs => by simp [uniform_succ, mulL_ones_left xs]

theorem mulL_ones_right : ∀ (l : Idx), mulL l (uniform l.length 1) = l
  | [] => by simp [uniform]
  | x :: xs => by simp [uniform_succ, mulL_ones_right xs]

theorem dot_mulL : ∀ (a s o : Idx), dot a (mulL s o) = dot (mulL a s) o
  | [], _, _ => by simp
  | _ :: _, [], _ => by simp
  | _ :: _, _ :: _, [] => by simp
  | a :: as, s :: ss, o :: os => by simp [dot_mulL as ss os, Int.mul_assoc]

theorem mulL_assoc : ∀ (a s o : Idx), mulL a (mulL s o) = mulL (mulL a s) o
  | [], _, _ => by simp
  | _ :: _, [], _ => by simp
  | _ :: _, _ :: _, [] => by simp
  | a :: as, s :: ss, o :: os => by simp [mulL_assoc as ss os, Int.mul_assoc]

/-! ### row-major strides -/

theorem offsetsT_cons : ∀ (d : Int) (ds : Idx), offsetsT (d :: ds) = product ds :: offsetsT ds
  | _, [] => by simp [offsetsT, product]
  | d, d2 :: rest => by
    have ih := offsetsT_cons d2 rest
    simp only [offsetsT] at ih ⊢
    rw [ih]
    simp [product, Int.mul_comm]

theorem offsetsT_length : ∀ (ds : Idx), (offsetsT ds).length = ds.length
  | [] => by simp [offsetsT]
  | d :: ds => by simp [offsetsT_cons, offsetsT_length ds]

theorem dot_offsetsT_ravel : ∀ (x D : Idx), x.length = D.length → dot x (offsetsT D) = ravel x D
  | [], [], _ => by simp [ravel]
  | [], _ :: _, h => by simp at h
  | _ :: _, [], h => by simp at h
  | x :: xs, d :: ds, h => by
    simp [offsetsT_cons, ravel, dot_offsetsT_ravel xs ds (by simpa using h)]

/-! ### inductive presentations of the zipped-list predicates (for `induction`) -/

inductive SliceOKI : Idx → Idx → Idx → Idx → Prop
  | nil : SliceOKI [] [] [] []
  | cons {P l d s : Int} {ps ls ds ss : Idx} (h0 : 0 ≤ l) (hd : 1 ≤ d) (hs : 1 ≤ s) (hlt : l + (d - 1) * s < P)
      (ok : SliceOK ps ls ds ss) (rest : SliceOKI ps ls ds ss) : SliceOKI (P :: ps) (l :: ls) (d :: ds) (s :: ss)

theorem SliceOK.toI {P l d s : Idx} (h : SliceOK P l d s) : SliceOKI P l d s := by
  fun_induction SliceOK P l d s with
  | case1 => exact .nil
  | case2 P ps l ls d ds s ss ih =>
    obtain ⟨h1, h2, h3, h4, h5⟩ := h
    exact .cons h1 h2 h3 h4 h5 (ih h5)
  | case3 => exact h.elim

inductive InBoundsI : Idx → Idx → Prop
  | nil : InBoundsI [] []
  | cons {i d : Int} {is ds : Idx} (h0 : 0 ≤ i) (hlt : i < d) (ok : InBounds is ds) (rest : InBoundsI is ds) :
      InBoundsI (i :: is) (d :: ds)

theorem InBounds.toI {i d : Idx} (h : InBounds i d) : InBoundsI i d := by
  fun_induction InBounds i d with
  | case1 => exact .nil
  | case2 i is d ds ih =>
    obtain ⟨h1, h2, h3⟩ := h
    exact .cons h1 h2 h3 (ih h3)
  | case3 => exact h.elim

@[simp] theorem SliceOK_nil : SliceOK [] [] [] [] = True := by simp [SliceOK]
@[simp] theorem SliceOK_cons (P l d s : Int) (ps ls ds ss : Idx) :
    SliceOK (P :: ps) (l :: ls) (d :: ds) (s :: ss) =
      (0 ≤ l ∧ 1 ≤ d ∧ 1 ≤ s ∧ l + (d - 1) * s < P ∧ SliceOK ps ls ds ss) := by simp [SliceOK]
@[simp] theorem InBounds_nil : InBounds [] [] = True := by simp [InBounds]
@[simp] theorem InBounds_cons (i d : Int) (is ds : Idx) :
    InBounds (i :: is) (d :: ds) = (0 ≤ i ∧ i < d ∧ InBounds is ds) := by simp [InBounds]
@[simp] theorem affine_cons (l i s : Int) (ls is ss : Idx) :
    affine (l :: ls) (i :: is) (s :: ss) = (l + i * s) :: affine ls is ss := rfl

theorem SliceOK.lengths {P l d s : Idx} (h : SliceOK P l d s) :
    l.length = P.length ∧ d.length = P.length ∧ s.length = P.length := by
  have hI := h.toI; clear h
  induction hI with
  | nil => simp
  | cons _ _ _ _ _ _ ih => simp [ih.1, ih.2.1, ih.2.2]

theorem InBounds.length {i d : Idx} (h : InBounds i d) : i.length = d.length := by
  have hI := h.toI; clear h
  induction hI with
  | nil => rfl
  | cons _ _ _ _ ih => simp [ih]

theorem SliceOK.pos {P l d s : Idx} (h : SliceOK P l d s) :
    Pos P ∧ Pos d ∧ Pos s ∧ ∀ x ∈ l, 0 ≤ x := by
  have hI := h.toI; clear h
  induction hI with
  | nil => simp [Pos]
  | @cons P l d s ps ls ds ss h0 hd hs hlt _ _ ih =>
    obtain ⟨a, b, c, e⟩ := ih
    have : 0 ≤ (d - 1) * s := Int.mul_nonneg (by omega) (by omega)
    refine ⟨?_, ?_, ?_, ?_⟩ <;> intro x hx <;> rcases List.mem_cons.mp hx with rfl | hx
    · omega
    · exact a x hx
    · exact hd
    · exact b x hx
    · exact hs
    · exact c x hx
    · exact h0
    · exact e x hx

/-- composing an in-bounds slice request with the box of the parent gives the box of the child -/
theorem SliceOK.comp {D b P S l d s : Idx} (hb : SliceOK D b P S) (hs : SliceOK P l d s) :
    SliceOK D (affine b l S) d (mulL S s) := by
  have hI := hb.toI; clear hb
  induction hI generalizing l d s with
  | nil =>
    cases l <;> cases d <;> cases s <;> simp_all [SliceOK, affine]
  | @cons D0 b0 P0 S0 Ds bs Ps Ss h0 hP hS hlt _ _ ih =>
    cases l with
    | nil => cases d <;> cases s <;> simp [SliceOK] at hs
    | cons l0 ls =>
      cases d with
      | nil => cases s <;> simp [SliceOK] at hs
      | cons d0 ds =>
        cases s with
        | nil => simp [SliceOK] at hs
        | cons s0 ss =>
          simp only [SliceOK_cons] at hs
          obtain ⟨g0, gd, gs, glt, grest⟩ := hs
          simp only [affine_cons, mulL_cons, SliceOK_cons]
          refine ⟨?_, gd, ?_, ?_, ih grest⟩
          · have := Int.mul_nonneg g0 (by omega : (0:Int) ≤ S0); omega
          · have := Int.mul_pos (by omega : (0:Int) < S0) (by omega : (0:Int) < s0); omega
          · have h1 : (l0 + (d0 - 1) * s0) * S0 ≤ (P0 - 1) * S0 :=
              Int.mul_le_mul_of_nonneg_right (by omega) (by omega)
            have h2 : b0 + l0 * S0 + (d0 - 1) * (S0 * s0) = b0 + (l0 + (d0 - 1) * s0) * S0 := by ring
            omega

/-- an in-bounds index of the child, pushed through the box, is in-bounds for the root -/
theorem SliceOK.inBounds {D b d S i : Idx} (hb : SliceOK D b d S) (hi : InBounds i d) :
    InBounds (affine b i S) D := by
  have hI := hb.toI; clear hb
  induction hI generalizing i with
  | nil => cases i <;> simp_all [InBounds, affine]
  | @cons D0 b0 d0 S0 Ds bs ds Ss h0 hd hS hlt _ _ ih =>
    cases i with
    | nil => simp [InBounds] at hi
    | cons i0 is =>
      simp only [InBounds_cons] at hi
      obtain ⟨g0, glt, grest⟩ := hi
      simp only [affine_cons, InBounds_cons]
      refine ⟨?_, ?_, ih grest⟩
      · have := Int.mul_nonneg g0 (by omega : (0:Int) ≤ S0); omega
      · have h1 : i0 * S0 ≤ (d0 - 1) * S0 := Int.mul_le_mul_of_nonneg_right (by omega) (by omega)
        omega

/-- `affine b · S` is injective on indices of full length when all steps are ≥ 1 -/
theorem SliceOK.affine_inj {D b d S i j : Idx} (hb : SliceOK D b d S)
    (hi : i.length = d.length) (hj : j.length = d.length) (h : affine b i S = affine b j S) : i = j := by
  have hI := hb.toI; clear hb
  induction hI generalizing i j with
  | nil =>
    cases i <;> cases j <;> simp_all
  | @cons D0 b0 d0 S0 Ds bs ds Ss h0 hd hS hlt _ _ ih =>
    cases i with
    | nil => simp at hi
    | cons i0 is =>
      cases j with
      | nil => simp at hj
      | cons j0 js =>
        simp only [affine_cons, List.cons.injEq] at h
        have e : i0 = j0 := by
          have : i0 * S0 = j0 * S0 := by omega
          exact Int.eq_of_mul_eq_mul_right (by omega) this
        rw [e, ih (by simpa using hi) (by simpa using hj) h.2]

theorem affine_length : ∀ (b i s : Idx), i.length = b.length → s.length = b.length →
    (affine b i s).length = b.length
  | [], _, _, _, _ => by simp [affine]
  | _ :: _, [], _, h, _ => by simp at h
  | _ :: _, _ :: _, [], _, h => by simp at h
  | b :: bs, i :: is, s :: ss, h1, h2 => by
    simp [affine_length bs is ss (by simpa using h1) (by simpa using h2)]

theorem dot_affine : ∀ (b l s o : Idx), l.length = b.length → s.length = b.length → o.length = b.length →
    dot (affine b l s) o = dot b o + dot l (mulL s o)
  | [], l, s, o, h1, h2, h3 => by
    simp at h1 h2 h3; subst h1 h2 h3; simp [affine]
  | _ :: _, [], _, _, h, _, _ => by simp at h
  | _ :: _, _ :: _, [], _, _, h, _ => by simp at h
  | _ :: _, _ :: _, _ :: _, [], _, _, h => by simp at h
  | b :: bs, l :: ls, s :: ss, o :: os, h1, h2, h3 => by
    simp only [affine_cons, dot_cons, mulL_cons,
      dot_affine bs ls ss os (by simpa using h1) (by simpa using h2) (by simpa using h3)]
    ring

/-- `affine (affine b l S) i (S ⊙ s) = affine b (affine l i s) S`: composition of two affine index maps -/
theorem affine_affine : ∀ (b l S i s : Idx), l.length = b.length → S.length = b.length → i.length = b.length →
    s.length = b.length → affine (affine b l S) i (mulL S s) = affine b (affine l i s) S
  | [], _, _, _, _, _, _, _, _ => by simp [affine]
  | _ :: _, [], _, _, _, h, _, _, _ => by simp at h
  | _ :: _, _ :: _, [], _, _, _, h, _, _ => by simp at h
  | _ :: _, _ :: _, _ :: _, [], _, _, _, h, _ => by simp at h
  | _ :: _, _ :: _, _ :: _, _ :: _, [], _, _, _, h => by simp at h
  | b :: bs, l :: ls, S :: Ss, i :: is, s :: ss, h1, h2, h3, h4 => by
    simp only [affine_cons, mulL_cons, List.cons.injEq]
    refine ⟨by ring, affine_affine bs ls Ss is ss (by simpa using h1) (by simpa using h2) (by simpa using h3)
      (by simpa using h4)⟩

/-! ### the structural invariant -/

/-- Structural invariant of a view: strides are the row-major strides of the allocated shape, `OffsetStep = Step ⊙ Offset`,
and there is a lower corner `b` (in root coordinates) with `Start = Σ bᵢ·Offsetᵢ` such that the box
`bᵢ + [0, dimsᵢ)·stepᵢ` lies inside the allocated shape (this also gives: all lists have the same length,
extents ≥ 1, steps ≥ 1, allocated extents ≥ 1). -/
structure Geo (v : View) : Prop where
  ne : v.orig ≠ []
  offset_eq : v.offset = offsetsT v.orig
  offStep_eq : v.offStep = mulL v.step v.offset
  box : ∃ b, SliceOK v.orig b v.dims v.step ∧ v.start = dot b v.offset

namespace Geo
variable {v : View}

theorem rank_orig (g : Geo v) : v.orig.length = v.dims.length := by
  obtain ⟨b, hb, _⟩ := g.box; exact hb.lengths.2.1.symm
theorem rank_step (g : Geo v) : v.step.length = v.dims.length := by
  obtain ⟨b, hb, _⟩ := g.box; rw [hb.lengths.2.2, hb.lengths.2.1]
theorem rank_offset (g : Geo v) : v.offset.length = v.dims.length := by
  rw [g.offset_eq, offsetsT_length, g.rank_orig]
theorem rank_offStep (g : Geo v) : v.offStep.length = v.dims.length := by
  rw [g.offStep_eq, mulL_length _ _ (by rw [g.rank_step, g.rank_offset]), g.rank_step]
theorem pos_dims (g : Geo v) : Pos v.dims := by obtain ⟨b, hb, _⟩ := g.box; exact hb.pos.2.1
theorem pos_step (g : Geo v) : Pos v.step := by obtain ⟨b, hb, _⟩ := g.box; exact hb.pos.2.2.1
theorem pos_orig (g : Geo v) : Pos v.orig := by obtain ⟨b, hb, _⟩ := g.box; exact hb.pos.1
theorem dims_ne (g : Geo v) : v.dims ≠ [] := by
  intro h; have := g.rank_orig; rw [h] at this; exact g.ne (List.length_eq_zero_iff.mp this)

end Geo

/-- the metadata `View.root` builds -/
def rootView (dims : Idx) (st : Int) : View :=
  ⟨dims, dims, st, offsetsT dims, uniform dims.length 1, offsetsT dims⟩

/-- the metadata `SliceInto` builds (on a view whose lists all have the view's rank) -/
def sliceView (v : View) (loc dims : Idx) (step : Option Idx) : View :=
  ⟨v.orig, dims, v.start + dot loc v.offStep, v.offset, mulL v.step (stepOr v.dims.length step),
    mulL (mulL v.step (stepOr v.dims.length step)) v.offset⟩

/-- closed form of `View.root` (never panics on a non-empty shape) -/
theorem root_eq (dims : Idx) (st : Int) (hne : dims ≠ []) :
    View.root dims st = .ok (rootView dims st) := by
  have h1 : offsets dims = .ok (offsetsT dims) := by
    cases dims with
    | nil => exact absurd rfl hne
    | cons d ds => simp [offsets]
  have h2 : multiply (uniform dims.length 1) (offsetsT dims) = .ok (offsetsT dims) := by
    rw [multiply_ok _ _ (by simp [offsetsT_length])]
    have := mulL_ones_left (offsetsT dims)
    rw [offsetsT_length] at this
    rw [this]
  simp [View.root, rootView, h1, h2, bind, Except.bind, pure, Except.pure]

theorem sliceOK_zero_ones : ∀ (dims : Idx), Pos dims →
    SliceOK dims (uniform dims.length 0) dims (uniform dims.length 1)
  | [], _ => by simp [uniform]
  | d :: ds, h => by
    have h1 : 1 ≤ d := h d (by simp)
    have h2 : Pos ds := fun x hx => h x (by simp [hx])
    simp only [List.length_cons, uniform_succ, SliceOK_cons]
    exact ⟨by omega, h1, by omega, by omega, sliceOK_zero_ones ds h2⟩

theorem dot_zeros : ∀ (n : Nat) (o : Idx), dot (uniform n 0) o = 0
  | 0, _ => by simp [uniform]
  | n + 1, [] => by simp
  | n + 1, o :: os => by simp [uniform_succ, dot_zeros n os]

theorem geo_root {dims : Idx} {v : View} (hne : dims ≠ []) (hpos : Pos dims) (h : View.root dims = .ok v) :
    Geo v := by
  rw [root_eq dims 0 hne] at h
  injection h with h
  subst h
  refine ⟨hne, rfl, ?_, uniform dims.length 0, sliceOK_zero_ones dims hpos, by simp [rootView, dot_zeros]⟩
  have := mulL_ones_left (offsetsT dims)
  rw [offsetsT_length] at this
  exact this.symm

/-- closed form of `SliceInto` on a `Geo` view: it never panics when `loc` (and `step`, if given) have the view's
rank, and composes start and steps affinely. -/
theorem sliceInto_eq {v : View} (g : Geo v) (loc dims : Idx) (step : Option Idx)
    (hloc : loc.length = v.dims.length) (hstep : (stepOr v.dims.length step).length = v.dims.length) :
    v.sliceInto loc dims step = .ok (sliceView v loc dims step) := by
  have h1 : dotProduct loc v.offStep = .ok (dot loc v.offStep) :=
    dotProduct_ok _ _ (by rw [g.rank_offStep, hloc])
  cases step with
  | none =>
    have e : mulL v.step (stepOr v.dims.length none) = v.step := by
      have := mulL_ones_right v.step
      rw [g.rank_step] at this
      exact this
    have h2 : multiply v.step v.offset = .ok (mulL v.step v.offset) :=
      multiply_ok _ _ (by rw [g.rank_step, g.rank_offset])
    simp [View.sliceInto, sliceView, e, h1, h2, bind, Except.bind, pure, Except.pure]
  | some s =>
    have hs : s.length = v.dims.length := hstep
    have h2 : multiply v.step s = .ok (mulL v.step s) :=
      multiply_ok _ _ (by rw [g.rank_step, hs])
    have h3 : multiply (mulL v.step s) v.offset = .ok (mulL (mulL v.step s) v.offset) :=
      multiply_ok _ _ (by rw [mulL_length _ _ (by rw [g.rank_step, hs]), g.rank_step, g.rank_offset])
    simp [View.sliceInto, sliceView, stepOr, h1, h2, h3, bind, Except.bind, pure, Except.pure]

/-- the invariant is preserved by an in-bounds slice -/
theorem geo_slice {v w : View} {loc dims : Idx} {step : Option Idx} (g : Geo v)
    (ok : SliceOK v.dims loc dims (stepOr v.dims.length step))
    (h : v.sliceInto loc dims step = .ok w) : Geo w := by
  obtain ⟨hl, hd, hs⟩ := ok.lengths
  rw [sliceInto_eq g loc dims step hl hs] at h
  injection h with h
  subst h
  obtain ⟨b, hb, hst⟩ := g.box
  refine ⟨g.ne, g.offset_eq, rfl, affine b loc v.step, hb.comp ok, ?_⟩
  show v.start + dot loc v.offStep = dot (affine b loc v.step) v.offset
  rw [dot_affine b loc v.step v.offset (by rw [hl, hb.lengths.1, g.rank_orig])
    (by rw [g.rank_step, hb.lengths.1, g.rank_orig]) (by rw [g.rank_offset, hb.lengths.1, g.rank_orig]),
    hst, g.offStep_eq]

/-- **G1.** every reachable view satisfies the structural invariant -/
theorem reach_geo {v : View} (h : Reach v) : Geo v := by
  induction h with
  | root hne hpos h => exact geo_root hne hpos h
  | slice _ ok h ih => exact geo_slice ih ok h

/-- **G1 (no panic).** an in-bounds slice request on a reachable view never panics -/
theorem reach_slice_ok {v : View} (h : Reach v) {loc dims : Idx} {step : Option Idx}
    (ok : SliceOK v.dims loc dims (stepOr v.dims.length step)) :
    ∃ w, v.sliceInto loc dims step = .ok w ∧ Reach w := by
  obtain ⟨hl, _, hs⟩ := ok.lengths
  exact ⟨_, sliceInto_eq (reach_geo h) loc dims step hl hs, .slice h ok (sliceInto_eq (reach_geo h) loc dims step hl hs)⟩

/-- **G2.** closed form of `Index` (never panics for `loc` no longer than the rank) -/
theorem index_eq {v : View} (g : Geo v) (loc : Idx) (hloc : loc.length ≤ v.dims.length) :
    v.index loc = .ok (v.start + dot loc (mulL v.step v.offset)) := by
  have h1 : View.indexAux loc v.offStep = .ok (dot loc v.offStep) :=
    indexAux_ok _ _ (by rw [g.rank_offStep]; exact hloc)
  unfold View.index
  rw [h1, g.offStep_eq]
  rfl

/-- **G1 (no panic).** `Index` never panics on an index of the view's rank -/
theorem index_ok {v : View} (h : Reach v) (loc : Idx) (hloc : loc.length = v.dims.length) :
    ∃ p, v.index loc = .ok p :=
  ⟨_, index_eq (reach_geo h) loc (by omega)⟩

/-! ### mixed radix: `ravel` is a bijection between in-bounds multi-indices and `[0, Π dims)` -/

theorem product_pos : ∀ {D : Idx}, Pos D → 0 < product D
  | [], _ => by simp [product]
  | d :: ds, h => by
    have h1 : 1 ≤ d := h d (by simp)
    have h2 : 0 < product ds := product_pos (fun x hx => h x (by simp [hx]))
    simp only [product]
    exact Int.mul_pos (by omega) h2

theorem InBounds.pos {i D : Idx} (h : InBounds i D) : Pos D := by
  have hI := h.toI; clear h
  induction hI with
  | nil => simp [Pos]
  | cons h0 hlt _ _ ih =>
    intro x hx
    rcases List.mem_cons.mp hx with rfl | hx
    · omega
    · exact ih x hx

theorem ravel_cons (i d : Int) (is ds : Idx) : ravel (i :: is) (d :: ds) = i * product ds + ravel is ds := rfl

theorem ravel_bounds {i D : Idx} (h : InBounds i D) : 0 ≤ ravel i D ∧ ravel i D < product D := by
  have hI := h.toI; clear h
  induction hI with
  | nil => simp [ravel, product]
  | @cons i d is ds h0 hlt ok _ ih =>
    have hp := product_pos ok.pos
    simp only [ravel_cons, product]
    have h1 : 0 ≤ i * product ds := Int.mul_nonneg h0 (by omega)
    have h2 : i * product ds ≤ (d - 1) * product ds := Int.mul_le_mul_of_nonneg_right (by omega) (by omega)
    have h3 : (d - 1) * product ds = d * product ds - product ds := by ring
    omega

theorem ravel_inj {i j D : Idx} (hi : InBounds i D) (hj : InBounds j D) (h : ravel i D = ravel j D) : i = j := by
  have hI := hi.toI; clear hi
  induction hI generalizing j with
  | nil => cases j <;> simp_all [InBounds]
  | @cons i d is ds h0 hlt ok _ ih =>
    cases j with
    | nil => simp [InBounds] at hj
    | cons j0 js =>
      simp only [InBounds_cons] at hj
      obtain ⟨g0, glt, gok⟩ := hj
      simp only [ravel_cons] at h
      have b1 := ravel_bounds ok
      have b2 := ravel_bounds gok
      have e : i = j0 := by
        rcases Int.lt_trichotomy i j0 with hlt' | heq | hgt
        · have : (i + 1) * product ds ≤ j0 * product ds := Int.mul_le_mul_of_nonneg_right (by omega) (by omega)
          have e2 : (i + 1) * product ds = i * product ds + product ds := by ring
          omega
        · exact heq
        · have : (j0 + 1) * product ds ≤ i * product ds := Int.mul_le_mul_of_nonneg_right (by omega) (by omega)
          have e2 : (j0 + 1) * product ds = j0 * product ds + product ds := by ring
          omega
      subst e
      rw [ih gok (by omega)]

theorem unravel_length : ∀ (k : Int) (D : Idx), (unravel k D).length = D.length
  | _, [] => by simp [unravel]
  | k, _ :: ds => by simp [unravel, unravel_length _ ds]

theorem ravel_unravel_cons : ∀ (k d : Int) (ds : Idx), ravel (unravel k (d :: ds)) (d :: ds) = k
  | k, d, [] => by simp [unravel, ravel, product]
  | k, d, d2 :: ds => by
    have ih := ravel_unravel_cons (k % product (d2 :: ds)) d2 ds
    simp only [unravel, ravel_cons] at ih ⊢
    rw [ih]
    exact Int.ediv_mul_add_emod k _

/-- `ravel ∘ unravel = id` on a non-empty shape (for every `k`, no bounds needed) -/
theorem ravel_unravel (k : Int) (D : Idx) (hne : D ≠ []) : ravel (unravel k D) D = k := by
  cases D with
  | nil => exact absurd rfl hne
  | cons d ds => exact ravel_unravel_cons k d ds

theorem unravel_inBounds : ∀ (k : Int) (D : Idx), Pos D → 0 ≤ k → k < product D → InBounds (unravel k D) D
  | _, [], _, _, _ => by simp [unravel]
  | k, d :: ds, hpos, h0, hlt => by
    have hp : 0 < product ds := product_pos (fun x hx => hpos x (by simp [hx]))
    simp only [unravel, InBounds_cons]
    refine ⟨Int.ediv_nonneg h0 (by omega), Int.ediv_lt_of_lt_mul hp (by simpa [product] using hlt), ?_⟩
    exact unravel_inBounds _ ds (fun x hx => hpos x (by simp [hx])) (Int.emod_nonneg _ (by omega))
      (Int.emod_lt_of_pos _ hp)

theorem unravel_ravel {i D : Idx} (h : InBounds i D) (hne : D ≠ []) : unravel (ravel i D) D = i := by
  have hb := ravel_bounds h
  exact ravel_inj (unravel_inBounds _ D h.pos hb.1 hb.2) h (ravel_unravel _ D hne)

/-! ### addresses of a `Geo` view in root coordinates -/

/-- **G2/G3.** the address of `loc` in a `Geo` view is the row-major rank, in the allocated shape, of the
root multi-index `b + loc ⊙ step` -/
theorem index_ravel {v : View} (g : Geo v) :
    ∃ b, SliceOK v.orig b v.dims v.step ∧ v.start = dot b v.offset ∧
      ∀ loc : Idx, loc.length = v.dims.length → v.index loc = .ok (ravel (affine b loc v.step) v.orig) := by
  obtain ⟨b, hb, hst⟩ := g.box
  refine ⟨b, hb, hst, fun loc hloc => ?_⟩
  have lb : b.length = v.dims.length := by rw [hb.lengths.1, g.rank_orig]
  rw [index_eq g loc (by omega), hst,
    ← dot_affine b loc v.step v.offset (by omega) (by rw [g.rank_step, lb]) (by rw [g.rank_offset, lb]),
    g.offset_eq, dot_offsetsT_ravel _ _ (by
      rw [affine_length b loc v.step (by omega) (by rw [g.rank_step, lb]), lb, g.rank_orig])]

/-- **G3.** in-bounds indices of a `Geo` view are addressed inside `[0, Π OriginalDims)`; no panic -/
theorem index_inbounds {v : View} (g : Geo v) {i : Idx} (hi : InBounds i v.dims) :
    ∃ p, v.index i = .ok p ∧ 0 ≤ p ∧ p < product v.orig := by
  obtain ⟨b, hb, _, hidx⟩ := index_ravel g
  exact ⟨_, hidx i hi.length, ravel_bounds (hb.inBounds hi)⟩

/-- **G3.** distinct in-bounds indices of a `Geo` view have distinct addresses -/
theorem index_inj {v : View} (g : Geo v) {i j : Idx} (hi : InBounds i v.dims) (hj : InBounds j v.dims)
    (h : v.index i = v.index j) : i = j := by
  obtain ⟨b, hb, _, hidx⟩ := index_ravel g
  rw [hidx i hi.length, hidx j hj.length] at h
  injection h with h
  exact hb.affine_inj hi.length hj.length (ravel_inj (hb.inBounds hi) (hb.inBounds hj) h)

/-- **G3 (root).** for a root of shape `D` the address of `idx` is its row-major rank `ravel idx D` -/
theorem root_index {dims : Idx} {v : View} (hne : dims ≠ []) (h : View.root dims = .ok v)
    (idx : Idx) (hidx : idx.length = dims.length) : v.index idx = .ok (ravel idx dims) := by
  rw [root_eq dims 0 hne] at h
  injection h with h
  subst h
  have h1 : View.indexAux idx (offsetsT dims) = .ok (dot idx (offsetsT dims)) :=
    indexAux_ok _ _ (by rw [offsetsT_length, hidx])
  show View.index (rootView dims 0) idx = _
  unfold View.index
  simp only [rootView, h1, dot_offsetsT_ravel idx dims hidx, bind, Except.bind, pure, Except.pure, Int.zero_add]

/-- **G3 (root, onto).** every `k ∈ [0, Π D)` is the address of exactly the in-bounds index `unravel k D` -/
theorem root_index_unravel {dims : Idx} {v : View} (hne : dims ≠ []) (hpos : Pos dims)
    (h : View.root dims = .ok v) (k : Int) (h0 : 0 ≤ k) (hlt : k < product dims) :
    InBounds (unravel k dims) dims ∧ v.index (unravel k dims) = .ok k := by
  refine ⟨unravel_inBounds k dims hpos h0 hlt, ?_⟩
  rw [root_index hne h _ (unravel_length k dims), ravel_unravel k dims hne]

end OW.Nd
