import OW.Kernels.Basic
/-!
Generic lemmas for hot-start continuity (C06) and causality (C14) of kernel models. Core Lean only; they hold
over ANY `Num α` (also `Float`): the statements are structural (the forward loop is a `scan`), no arithmetic law is used.
-/
namespace OW

/-- series-wise concatenation of two blocks of input/output series -/
def catSeries {β} (a b : List (List β)) : List (List β) := List.zipWith (· ++ ·) a b

/-- all series of a block have length `n` -/
def AllLen {β} (n : Nat) (xs : List (List β)) : Prop := ∀ s ∈ xs, s.length = n

/-- **Hot-start continuity of a kernel model**: running a period in one call equals running its two parts
consecutively, the second part starting from the final states of the first; outputs concatenate, final states agree.
(`n₁`, `n₂` = lengths of the two parts; all input series of a part have the same length, as in the real arrays.) -/
def HotStart {α} (km : KModel α) : Prop :=
  ∀ (p : List α) (a b : List (List α)) (st : List α) (n₁ n₂ : Nat) (o₁ o₂ : KOut α),
    a.length = b.length → AllLen n₁ a → AllLen n₂ b →
    km.run p a st = .ok o₁ → km.run p b o₁.states = .ok o₂ →
    ∃ o, km.run p (catSeries a b) st = .ok o ∧ o.outputs = catSeries o₁.outputs o₂.outputs ∧ o.states = o₂.states

/-- `HotStart` restricted to splits that satisfy a side condition `C p st o₁.states` on the parameter column, the
initial state row and the state row handed from the first call to the second (used for the models where the
unrestricted statement is false; the condition says exactly what must not happen at the split point). -/
def HotStartWhen {α} (km : KModel α) (C : List α → List α → List α → Prop) : Prop :=
  ∀ (p : List α) (a b : List (List α)) (st : List α) (n₁ n₂ : Nat) (o₁ o₂ : KOut α),
    a.length = b.length → AllLen n₁ a → AllLen n₂ b →
    km.run p a st = .ok o₁ → km.run p b o₁.states = .ok o₂ → C p st o₁.states →
    ∃ o, km.run p (catSeries a b) st = .ok o ∧ o.outputs = catSeries o₁.outputs o₂.outputs ∧ o.states = o₂.states

theorem hotStart_iff_when {α} (km : KModel α) : HotStart km ↔ HotStartWhen km (fun _ _ _ => True) :=
  ⟨fun h p a b st n₁ n₂ o₁ o₂ hl ha hb h₁ h₂ _ => h p a b st n₁ n₂ o₁ o₂ hl ha hb h₁ h₂,
   fun h p a b st n₁ n₂ o₁ o₂ hl ha hb h₁ h₂ => h p a b st n₁ n₂ o₁ o₂ hl ha hb h₁ h₂ trivial⟩

theorem HotStartWhen.mono {α} {km : KModel α} {C D : List α → List α → List α → Prop} (h : HotStartWhen km C)
    (hd : ∀ p st s, D p st s → C p st s) : HotStartWhen km D :=
  fun p a b st n₁ n₂ o₁ o₂ hl ha hb h₁ h₂ hc => h p a b st n₁ n₂ o₁ o₂ hl ha hb h₁ h₂ (hd _ _ _ hc)

/-- **Causality**: outputs up to the end of the first part do not depend on the later inputs.
Consequence of `HotStart` whenever both runs succeed. -/
theorem causal_of_hotStart {α} (km : KModel α) (h : HotStart km)
    (p : List α) (a b : List (List α)) (st : List α) (n₁ n₂ : Nat) (o₁ o₂ : KOut α)
    (hl : a.length = b.length) (ha : AllLen n₁ a) (hb : AllLen n₂ b)
    (h₁ : km.run p a st = .ok o₁) (h₂ : km.run p b o₁.states = .ok o₂)
    (hout : AllLen n₁ o₁.outputs) (hlen : o₁.outputs.length = o₂.outputs.length) :
    ∃ o, km.run p (catSeries a b) st = .ok o ∧ o.outputs.map (·.take n₁) = o₁.outputs := by
  obtain ⟨o, ho, hoo, _⟩ := h p a b st n₁ n₂ o₁ o₂ hl ha hb h₁ h₂
  refine ⟨o, ho, ?_⟩
  rw [hoo]
  unfold catSeries
  generalize o₁.outputs = x at hout hlen
  generalize o₂.outputs = y at hlen
  induction x generalizing y with
  | nil => simp
  | cons s ss ih =>
    cases y with
    | nil => simp at hlen
    | cons t ts =>
      simp only [List.zipWith_cons_cons, List.map_cons]
      have hs : s.length = n₁ := hout s List.mem_cons_self
      rw [ih (fun u hu => hout u (List.mem_cons_of_mem _ hu)) ts (by simpa using hlen)]
      congr 1
      rw [← hs]; simp

/-- **Causality (truncation form)**: whenever the run over the whole period and the run over its first part both
succeed, the outputs of the whole run restricted to the first `n₁` steps are the outputs of the truncated run — whatever the
later inputs `b` are. (Consequently two runs whose inputs agree on the first `n₁` steps have the same first `n₁` outputs.) -/
def Causal {α} (km : KModel α) : Prop :=
  ∀ (p : List α) (a b : List (List α)) (st : List α) (n₁ n₂ : Nat) (o o₁ : KOut α),
    a.length = b.length → AllLen n₁ a → AllLen n₂ b →
    km.run p (catSeries a b) st = .ok o → km.run p a st = .ok o₁ →
    o.outputs.map (·.take n₁) = o₁.outputs

/-- changing the later inputs: two continuations `b`, `b'` of the same first part give the same first `n₁` outputs -/
theorem Causal.change {α} {km : KModel α} (h : Causal km) (p : List α) (a b b' : List (List α)) (st : List α)
    (n₁ n₂ n₂' : Nat) (o o' o₁ : KOut α) (hl : a.length = b.length) (hl' : a.length = b'.length)
    (ha : AllLen n₁ a) (hb : AllLen n₂ b) (hb' : AllLen n₂' b')
    (hr : km.run p (catSeries a b) st = .ok o) (hr' : km.run p (catSeries a b') st = .ok o')
    (h₁ : km.run p a st = .ok o₁) :
    o.outputs.map (·.take n₁) = o'.outputs.map (·.take n₁) := by
  rw [h p a b st n₁ n₂ o o₁ hl ha hb hr h₁, h p a b' st n₁ n₂' o' o₁ hl' ha hb' hr' h₁]

theorem take_append_len {β} {l₁ l₂ : List β} {n : Nat} (h : l₁.length = n) : (l₁ ++ l₂).take n = l₁ := by
  subst h; simp

theorem zeros_length {α} [Num α] (n : Nat) : (zeros n : List α).length = n := by simp [zeros]

/-! ### zip of concatenations, for kernels that zip their input series -/

theorem zip_append_eq {β γ} (a₁ a₂ : List β) (b₁ b₂ : List γ) (h : a₁.length = b₁.length) :
    (a₁ ++ a₂).zip (b₁ ++ b₂) = a₁.zip b₁ ++ a₂.zip b₂ := by
  exact List.zip_append h

theorem zip3_append {β γ δ} (a₁ a₂ : List β) (b₁ b₂ : List γ) (c₁ c₂ : List δ)
    (h₁ : a₁.length = b₁.length) (h₂ : a₁.length = c₁.length) :
    zip3 (a₁ ++ a₂) (b₁ ++ b₂) (c₁ ++ c₂) = zip3 a₁ b₁ c₁ ++ zip3 a₂ b₂ c₂ := by
  induction a₁ generalizing b₁ c₁ with
  | nil =>
    cases b₁ <;> cases c₁ <;> simp_all [zip3]
  | cons x xs ih =>
    cases b₁ with
    | nil => simp at h₁
    | cons y ys =>
      cases c₁ with
      | nil => simp at h₂
      | cons z zs =>
        simp only [List.cons_append, zip3]
        rw [ih ys zs (by simpa using h₁) (by simpa using h₂)]

theorem zip4_append {β γ δ ε} (a₁ a₂ : List β) (b₁ b₂ : List γ) (c₁ c₂ : List δ) (d₁ d₂ : List ε)
    (h₁ : a₁.length = b₁.length) (h₂ : a₁.length = c₁.length) (h₃ : a₁.length = d₁.length) :
    zip4 (a₁ ++ a₂) (b₁ ++ b₂) (c₁ ++ c₂) (d₁ ++ d₂) = zip4 a₁ b₁ c₁ d₁ ++ zip4 a₂ b₂ c₂ d₂ := by
  induction a₁ generalizing b₁ c₁ d₁ with
  | nil =>
    cases b₁ <;> cases c₁ <;> cases d₁ <;> simp_all [zip4]
  | cons x xs ih =>
    cases b₁ with
    | nil => simp at h₁
    | cons y ys =>
      cases c₁ with
      | nil => simp at h₂
      | cons z zs =>
        cases d₁ with
        | nil => simp at h₃
        | cons w ws =>
          simp only [List.cons_append, zip4]
          rw [ih ys zs ws (by simpa using h₁) (by simpa using h₂) (by simpa using h₃)]

theorem zip5_append {β γ δ ε ζ} (a₁ a₂ : List β) (b₁ b₂ : List γ) (c₁ c₂ : List δ) (d₁ d₂ : List ε) (e₁ e₂ : List ζ)
    (h₁ : a₁.length = b₁.length) (h₂ : a₁.length = c₁.length) (h₃ : a₁.length = d₁.length)
    (h₄ : a₁.length = e₁.length) :
    zip5 (a₁ ++ a₂) (b₁ ++ b₂) (c₁ ++ c₂) (d₁ ++ d₂) (e₁ ++ e₂) = zip5 a₁ b₁ c₁ d₁ e₁ ++ zip5 a₂ b₂ c₂ d₂ e₂ := by
  induction a₁ generalizing b₁ c₁ d₁ e₁ with
  | nil =>
    cases b₁ <;> cases c₁ <;> cases d₁ <;> cases e₁ <;> simp_all [zip5]
  | cons x xs ih =>
    cases b₁ with
    | nil => simp at h₁
    | cons y ys =>
      cases c₁ with
      | nil => simp at h₂
      | cons z zs =>
        cases d₁ with
        | nil => simp at h₃
        | cons w ws =>
          cases e₁ with
          | nil => simp at h₄
          | cons v vs =>
            simp only [List.cons_append, zip5]
            rw [ih ys zs ws vs (by simpa using h₁) (by simpa using h₂) (by simpa using h₃) (by simpa using h₄)]

/-- two members of a block with `AllLen` have equal length -/
theorem AllLen.eq {β} {n : Nat} {xs : List (List β)} (h : AllLen n xs) {s t : List β} (hs : s ∈ xs) (ht : t ∈ xs) :
    s.length = t.length := by rw [h s hs, h t ht]

/-! ### lengths of zips of equally long series -/

theorem zip3_length {β γ δ} (a : List β) (b : List γ) (c : List δ) (h₁ : a.length = b.length) (h₂ : a.length = c.length) :
    (zip3 a b c).length = a.length := by
  induction a generalizing b c with
  | nil => cases b <;> cases c <;> simp_all [zip3]
  | cons x xs ih =>
    cases b with
    | nil => simp at h₁
    | cons y ys =>
      cases c with
      | nil => simp at h₂
      | cons z zs => simp only [zip3, List.length_cons, ih ys zs (by simpa using h₁) (by simpa using h₂)]

theorem zip4_length {β γ δ ε} (a : List β) (b : List γ) (c : List δ) (d : List ε)
    (h₁ : a.length = b.length) (h₂ : a.length = c.length) (h₃ : a.length = d.length) :
    (zip4 a b c d).length = a.length := by
  induction a generalizing b c d with
  | nil => cases b <;> cases c <;> cases d <;> simp_all [zip4]
  | cons x xs ih =>
    cases b with
    | nil => simp at h₁
    | cons y ys =>
      cases c with
      | nil => simp at h₂
      | cons z zs =>
        cases d with
        | nil => simp at h₃
        | cons w ws =>
          simp only [zip4, List.length_cons, ih ys zs ws (by simpa using h₁) (by simpa using h₂) (by simpa using h₃)]

theorem zip5_length {β γ δ ε ζ} (a : List β) (b : List γ) (c : List δ) (d : List ε) (e : List ζ)
    (h₁ : a.length = b.length) (h₂ : a.length = c.length) (h₃ : a.length = d.length) (h₄ : a.length = e.length) :
    (zip5 a b c d e).length = a.length := by
  induction a generalizing b c d e with
  | nil => cases b <;> cases c <;> cases d <;> cases e <;> simp_all [zip5]
  | cons x xs ih =>
    cases b with
    | nil => simp at h₁
    | cons y ys =>
      cases c with
      | nil => simp at h₂
      | cons z zs =>
        cases d with
        | nil => simp at h₃
        | cons w ws =>
          cases e with
          | nil => simp at h₄
          | cons v vs =>
            simp only [zip5, List.length_cons,
              ih ys zs ws vs (by simpa using h₁) (by simpa using h₂) (by simpa using h₃) (by simpa using h₄)]

theorem zip_length_eq {β γ} (a : List β) (b : List γ) (h : a.length = b.length) : (a.zip b).length = a.length := by
  simp [List.length_zip, h]

/-- `scan` over a concatenation, in the form used by the per-model proofs -/
theorem scan_append' {σ ι ο : Type} (step : σ → ι → σ × ο) (s : σ) (a b : List ι) :
    (scan step s (a ++ b)).1 = (scan step (scan step s a).1 b).1 ∧
    (scan step s (a ++ b)).2 = (scan step s a).2 ++ (scan step (scan step s a).1 b).2 := by
  rw [scan_append]; exact ⟨rfl, rfl⟩

theorem scan_append_fst {σ ι ο : Type} (step : σ → ι → σ × ο) (s : σ) (a b : List ι) :
    (scan step s (a ++ b)).1 = (scan step (scan step s a).1 b).1 := (scan_append' step s a b).1

theorem scan_append_snd {σ ι ο : Type} (step : σ → ι → σ × ο) (s : σ) (a b : List ι) :
    (scan step s (a ++ b)).2 = (scan step s a).2 ++ (scan step (scan step s a).1 b).2 := (scan_append' step s a b).2

theorem map_append_scan {σ ι ο τ : Type} (f : ο → τ) (step : σ → ι → σ × ο) (s : σ) (a b : List ι) :
    (scan step s (a ++ b)).2.map f = (scan step s a).2.map f ++ (scan step (scan step s a).1 b).2.map f := by
  rw [(scan_append' step s a b).2, List.map_append]

theorem zeros_add {α} [Num α] (m n : Nat) : (zeros (m + n) : List α) = zeros m ++ zeros n := by
  simp [zeros, List.replicate_append_replicate]

end OW
