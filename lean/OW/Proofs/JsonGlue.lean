import OW.Sim.Json
import Mathlib.Tactic.Ring
/-!
Helper lemmas for C17: `singleModel.Initialise` in closed form.

* `namedValue`, `effParams`, `paramWarnings` — the parameter column the property prescribes (named value, default
  otherwise) and one log line per missing parameter, in description order; `paramLoop_spec`.
* `effInputs`, `inputWarnings` — the input block (supplied series, zeros otherwise) and one log line per missing input;
  `inputLoop_spec` (all supplied series of one length `T`), `inputLoop_none` (nothing supplied),
  `inputLoop_unequal` (a later series of another length → error).
* `initialise_ok`.
-/
namespace OW.Sim.Json

/-- a string with a non-empty middle part is not empty -/
theorem append3_ne_empty (a b c : String) (hb : b ≠ "") : a ++ b ++ c ≠ "" := by
  intro h
  have hl : (a ++ b ++ c).length = 0 := by rw [h]; rfl
  rw [String.length_append, String.length_append] at hl
  have : b.length = 0 := by omega
  exact hb (String.length_eq_zero_iff.mp this)

section
variable {α : Type} [JNum α]

/-- the value the request names for `name` (first entry with that name) -/
def namedValue : List (ReqValue α) → String → Option α
  | [], _ => none
  | v :: vs, name => if v.name = name then some v.value else namedValue vs name

/-- the parameter column the property prescribes -/
def effParams (req : List (ReqValue α)) (ps : List (ParamDesc α)) : List α :=
  ps.map fun p => (namedValue req p.name).getD p.default

/-- the log line for a defaulted parameter -/
def paramLine (p : ParamDesc α) : String := p.name ++ " not found, using default=" ++ JNum.fmt6 p.default

/-- one line per described parameter the request does not name, in description order -/
def paramWarnings (req : List (ReqValue α)) (ps : List (ParamDesc α)) : List String :=
  (ps.filter fun p => (namedValue req p.name).isNone).map paramLine

theorem findValue_spec (req : List (ReqValue α)) (name : String) (d : α) :
    findValue req name d = match namedValue req name with
      | some x => (x, "")
      | none => (d, name ++ " not found, using default=" ++ JNum.fmt6 d) := by
  induction req with
  | nil => rfl
  | cons v vs ih =>
    simp only [findValue, namedValue]
    split
    · rfl
    · exact ih

theorem paramLoop_spec (req : List (ReqValue α)) (ps : List (ParamDesc α)) :
    paramLoop req ps = (effParams req ps, paramWarnings req ps) := by
  induction ps with
  | nil => rfl
  | cons p ps ih =>
    simp only [paramLoop, ih, findValue_spec, effParams, paramWarnings, List.map_cons, List.filter_cons]
    cases hnv : namedValue req p.name with
    | some x => simp
    | none =>
      have : p.name ++ " not found, using default=" ++ JNum.fmt6 p.default ≠ "" :=
        append3_ne_empty _ _ _ (by decide)
      simp [this, paramLine]

/-- the series the property prescribes for input `n`: the supplied one, zeros otherwise -/
def effInput (req : List (ReqInput α)) (T : Nat) (n : String) : List α :=
  (findInput req n).getD (List.replicate T (JNum.zero : α))

/-- the input block the property prescribes -/
def effInputs (req : List (ReqInput α)) (T : Nat) (names : List String) : List (List α) :=
  names.map (effInput req T)

def inputLine (n : String) : String := "Missing input: " ++ n ++ ", using 0"

/-- one line per described input the request does not supply, in description order -/
def inputWarnings (req : List (ReqInput α)) (names : List String) : List String :=
  (names.filter fun n => (findInput req n).isNone).map inputLine

/-- all supplied series among `names` have `T` values -/
def LengthsAre (req : List (ReqInput α)) (T : Nat) (names : List String) : Prop :=
  ∀ n ∈ names, ∀ vs, findInput req n = some vs → vs.length = T

/-- none of `names` is supplied -/
def NoneSupplied (req : List (ReqInput α)) (names : List String) : Prop :=
  ∀ n ∈ names, findInput req n = none

theorem effInput_length {req : List (ReqInput α)} {T : Nat} {n : String}
    (h : ∀ vs, findInput req n = some vs → vs.length = T) : (effInput req T n).length = T := by
  unfold effInput
  cases hf : findInput req n with
  | none => simp
  | some vs => simpa using h vs hf

omit [JNum α] in
theorem inputWarnings_append (req : List (ReqInput α)) (a b : List String) :
    inputWarnings req (a ++ b) = inputWarnings req a ++ inputWarnings req b := by
  simp [inputWarnings]

/-- state of the input loop after the names `pre`, started with warnings `w0` -/
def stateAfter (req : List (ReqInput α)) (T nIn : Nat) (w0 : List String) (pre : List String) : InLoop α :=
  { inputs := if pre.all (fun n => (findInput req n).isNone) then none
      else some (effInputs req T pre ++ List.replicate (nIn - pre.length) (List.replicate T (JNum.zero : α))),
    warnings := w0 ++ inputWarnings req pre }

theorem effInputs_all_missing (req : List (ReqInput α)) (T : Nat) :
    ∀ (l : List String), (∀ x ∈ l, findInput req x = none) →
      effInputs req T l = List.replicate l.length (List.replicate T (JNum.zero : α))
  | [], _ => rfl
  | x :: xs, h => by
    have ih := effInputs_all_missing req T xs (fun y hy => h y (by simp [hy]))
    simp only [effInputs, List.map_cons, List.length_cons, List.replicate_succ] at ih ⊢
    rw [ih]
    simp [effInput, h x (by simp)]

theorem set_append_replicate {β : Type} (pre : List β) (k : Nat) (z x : β) (hk : 0 < k) :
    (pre ++ List.replicate k z).set pre.length x = (pre ++ [x]) ++ List.replicate (k - 1) z := by
  obtain ⟨k', rfl⟩ : ∃ k', k = k' + 1 := ⟨k - 1, by omega⟩
  rw [List.set_append_right _ _ (Nat.le_refl _)]
  simp [List.replicate_succ]

/-- the input loop when every supplied series has `T` values: it never fails and leaves the prescribed block -/
theorem inputLoop_spec (req : List (ReqInput α)) (T nIn : Nat) (w0 : List String) :
    ∀ (rest pre : List String), nIn = pre.length + rest.length → LengthsAre req T (pre ++ rest) →
      inputLoop req nIn rest pre.length (stateAfter req T nIn w0 pre) = .ok (stateAfter req T nIn w0 (pre ++ rest))
  | [], pre, _, _ => by simp [inputLoop]
  | p :: ps, pre, hn, hl => by
    have hl' : LengthsAre req T ((pre ++ [p]) ++ ps) := by simpa using hl
    have ih := inputLoop_spec req T nIn w0 ps (pre ++ [p]) (by simp at hn ⊢; omega) hl'
    have hlen1 : (pre ++ [p]).length = pre.length + 1 := by simp
    rw [hlen1] at ih
    have hfin : pre ++ p :: ps = (pre ++ [p]) ++ ps := by simp
    rw [hfin, ← ih]
    have hpos : 0 < nIn - pre.length := by simp at hn; omega
    cases hf : findInput req p with
    | none =>
      have hz : effInput req T p = List.replicate T (JNum.zero : α) := by simp [effInput, hf]
      have e : stateAfter req T nIn w0 (pre ++ [p]) =
          { (stateAfter req T nIn w0 pre) with
            warnings := (stateAfter req T nIn w0 pre).warnings ++ ["Missing input: " ++ p ++ ", using 0"] } := by
        simp only [stateAfter, List.all_append, List.all_cons, List.all_nil, hf, Option.isNone_none, Bool.and_true,
          inputWarnings_append, effInputs, List.map_append, List.map_cons, List.map_nil, hz]
        congr 1
        · split
          · rfl
          · congr 1
            rw [List.append_assoc]
            congr 1
            obtain ⟨k, hk⟩ : ∃ k, nIn - pre.length = k + 1 := ⟨nIn - pre.length - 1, by omega⟩
            have : nIn - (pre.length + 1) = k := by omega
            simp [hk, this, List.replicate_succ]
        · simp [inputWarnings, hf, inputLine, List.append_assoc]
      simp only [inputLoop, hf]
      rw [e]
    | some vs =>
      have hvs : vs.length = T := hl p (by simp) vs hf
      have he : effInput req T p = vs := by simp [effInput, hf]
      have e : stateAfter req T nIn w0 (pre ++ [p]) =
          { (stateAfter req T nIn w0 pre) with
            inputs := some ((effInputs req T pre ++ [vs]) ++
              List.replicate (nIn - pre.length - 1) (List.replicate T (JNum.zero : α))) } := by
        simp only [stateAfter, List.all_append, List.all_cons, List.all_nil, hf, Option.isNone_some, Bool.and_false,
          Bool.and_true, inputWarnings_append, effInputs, List.map_append, List.map_cons, List.map_nil, he]
        congr 1
        · simp [Nat.sub_add_eq]
        · simp [inputWarnings, hf]
      rw [e]
      simp only [inputLoop, hf]
      by_cases hall : pre.all (fun n => (findInput req n).isNone) = true
      · -- first supplied series: allocate nIn rows of zeros and write row i
        have hpre : effInputs req T pre = List.replicate pre.length (List.replicate T (JNum.zero : α)) :=
          effInputs_all_missing req T pre (by simpa [List.all_eq_true] using hall)
        simp only [stateAfter, hall, if_true, setRow, hvs]
        congr 2
        have hsplit : List.replicate nIn (List.replicate T (JNum.zero : α)) =
            List.replicate pre.length (List.replicate T JNum.zero) ++
              List.replicate (nIn - pre.length) (List.replicate T JNum.zero) := by
          rw [List.replicate_append_replicate]; congr 1; simp at hn; omega
        rw [hsplit, hpre]
        have := set_append_replicate (List.replicate pre.length (List.replicate T (JNum.zero : α)))
          (nIn - pre.length) (List.replicate T JNum.zero) vs hpos
        simp only [List.length_replicate] at this
        rw [this]
      · -- a later supplied series of the same length
        have hall' : pre.all (fun n => (findInput req n).isNone) = false := by simpa using hall
        have hne : pre ≠ [] := by intro h0; rw [h0] at hall'; simp at hall'
        obtain ⟨q, qs, rfl⟩ := List.exists_cons_of_ne_nil hne
        have hq : (effInput req T q).length = T := effInput_length (hl q (by simp))
        simp only [stateAfter, hall', Bool.false_eq_true, if_false, effInputs, List.map_cons, List.cons_append,
          List.headD_cons, hq, hvs, ne_eq, not_true_eq_false, setRow]
        congr 2
        have := set_append_replicate (effInput req T q :: List.map (effInput req T) qs)
          (nIn - (q :: qs).length) (List.replicate T (JNum.zero : α)) vs hpos
        simp only [List.length_cons, List.length_map, List.cons_append] at this
        simp only [List.length_cons]
        rw [this]

theorem stateAfter_nil (req : List (ReqInput α)) (T nIn : Nat) (w0 : List String) :
    stateAfter req T nIn w0 [] = { inputs := none, warnings := w0 } := by
  simp [stateAfter, inputWarnings]

/-- whole loop, equal lengths -/
theorem inputLoop_ok (req : List (ReqInput α)) (T : Nat) (w0 : List String) (names : List String)
    (hl : LengthsAre req T names) :
    inputLoop req names.length names 0 { inputs := none, warnings := w0 } =
      .ok (stateAfter req T names.length w0 names) := by
  have := inputLoop_spec req T names.length w0 names [] (by simp) (by simpa using hl)
  rw [stateAfter_nil] at this
  simpa using this

/-! ### the loop fails exactly on unequal lengths -/

theorem headD_set_length {β : Type} (rows : List (List β)) (i : Nat) (vs : List β)
    (h : vs.length = (rows.headD []).length) : ((rows.set i vs).headD []).length = (rows.headD []).length := by
  cases rows with
  | nil => rfl
  | cons r rs => cases i <;> simp [h]

/-- once the block is allocated, a successful loop means every later supplied series has the block's length -/
theorem inputLoop_some_ok (req : List (ReqInput α)) (nIn : Nat) :
    ∀ (rest : List String) (i : Nat) (s s' : InLoop α) (rows : List (List α)), s.inputs = some rows →
      inputLoop req nIn rest i s = .ok s' → LengthsAre req (rows.headD []).length rest
  | [], _, _, _, _, _, _ => by intro n hn; simp at hn
  | p :: ps, i, s, s', rows, hs, hok => by
    simp only [inputLoop] at hok
    cases hf : findInput req p with
    | none =>
      simp only [hf] at hok
      have := inputLoop_some_ok req nIn ps (i + 1) _ s' rows (by simpa using hs) hok
      intro n hn vs hv
      rcases List.mem_cons.mp hn with rfl | hn'
      · rw [hf] at hv; cases hv
      · exact this n hn' vs hv
    | some vs =>
      simp only [hf, hs] at hok
      by_cases hne : vs.length ≠ (rows.headD []).length
      · rw [if_pos hne] at hok; cases hok
      · rw [if_neg hne] at hok
        have hveq : vs.length = (rows.headD []).length := by simpa using hne
        have := inputLoop_some_ok req nIn ps (i + 1) _ s' (setRow rows i vs) rfl hok
        rw [setRow, headD_set_length rows i vs hveq] at this
        intro n hn ws hw
        rcases List.mem_cons.mp hn with rfl | hn'
        · rw [hf] at hw; cases hw; exact hveq
        · exact this n hn' ws hw

/-- a successful loop (from the start) means all supplied series have one length -/
theorem inputLoop_none_ok (req : List (ReqInput α)) (nIn : Nat) (hn : 0 < nIn) :
    ∀ (rest : List String) (i : Nat) (s s' : InLoop α), s.inputs = none →
      inputLoop req nIn rest i s = .ok s' → ∃ T, LengthsAre req T rest
  | [], _, _, _, _, _ => ⟨0, by intro n hn; simp at hn⟩
  | p :: ps, i, s, s', hs, hok => by
    simp only [inputLoop] at hok
    cases hf : findInput req p with
    | none =>
      simp only [hf] at hok
      obtain ⟨T, hT⟩ := inputLoop_none_ok req nIn hn ps (i + 1) _ s' (by simpa using hs) hok
      refine ⟨T, ?_⟩
      intro n hn vs hv
      rcases List.mem_cons.mp hn with rfl | hn'
      · rw [hf] at hv; cases hv
      · exact hT n hn' vs hv
    | some vs =>
      simp only [hf, hs] at hok
      have hrows : (((List.replicate nIn (List.replicate vs.length (JNum.zero : α))).set i vs).headD []).length
          = vs.length := by
        obtain ⟨k, rfl⟩ : ∃ k, nIn = k + 1 := ⟨nIn - 1, by omega⟩
        cases i <;> simp [List.replicate_succ]
      have := inputLoop_some_ok req nIn ps (i + 1) _ s' _ rfl hok
      rw [setRow, hrows] at this
      refine ⟨vs.length, ?_⟩
      intro n hn ws hw
      rcases List.mem_cons.mp hn with rfl | hn'
      · rw [hf] at hw; cases hw; rfl
      · exact this n hn' ws hw

/-- the loop only appends warnings -/
theorem inputLoop_warnings_ne (req : List (ReqInput α)) (nIn : Nat) :
    ∀ (rest : List String) (i : Nat) (s s' : InLoop α), inputLoop req nIn rest i s = .ok s' → s.warnings ≠ [] →
      s'.warnings ≠ []
  | [], _, s, s', h, hw => by simp only [inputLoop] at h; injection h with h; rw [← h]; exact hw
  | p :: ps, i, s, s', h, hw => by
    simp only [inputLoop] at h
    cases hf : findInput req p with
    | none =>
      simp only [hf] at h
      exact inputLoop_warnings_ne req nIn ps (i + 1) _ s' h (by simp)
    | some vs =>
      simp only [hf] at h
      cases hs : s.inputs with
      | none =>
        simp only [hs] at h
        exact inputLoop_warnings_ne req nIn ps (i + 1) _ s' h hw
      | some rows =>
        simp only [hs] at h
        split at h
        · cases h
        · exact inputLoop_warnings_ne req nIn ps (i + 1) _ s' h hw

/-- a problem report: what the deferred `encodeResults` writes when only a message was logged -/
theorem finish_problem (msg : String) (split : Bool) :
    finish (α := α) [msg] none 0 emptyDesc split .returned =
      { written := [document (some [msg]) .null .null], ending := .returned } := rfl

/-- `Initialise` with a kernel whose `InitialiseStates` does not panic: an error, or the assembled run (with a
non-empty warning list: its first line is the empty string of `make([]string, 1)`) -/
theorem initialise_cases (cat : String → Option (ModelDesc α)) (K : Kernel α)
    (hK : ∀ name desc, cat name = some desc → ∀ p, K.init p = .ok ()) (m : ParsedRequest α) :
    (∃ msg, initialise cat K m = .err msg) ∨
    (∃ desc params inputs warnings, cat m.name = some desc ∧ warnings ≠ [] ∧
      initialise cat K m = .ok desc params inputs warnings) := by
  unfold initialise
  by_cases hn : m.name = ""
  · exact Or.inl ⟨"No model name provided", by simp [hn]⟩
  · simp only [hn, if_false]
    cases hc : cat m.name with
    | none => exact Or.inl ⟨_, rfl⟩
    | some desc =>
      simp only [paramLoop_spec, hK _ _ hc]
      cases hl : inputLoop m.inputs desc.inputs.length desc.inputs 0
          { inputs := none, warnings := [""] ++ paramWarnings m.parameters desc.params } with
      | error e => exact Or.inl ⟨_, rfl⟩
      | ok s =>
        cases hs : s.inputs with
        | none => exact Or.inl ⟨"No inputs provided", by simp [hs]⟩
        | some rows =>
          refine Or.inr ⟨desc, effParams m.parameters desc.params, rows, s.warnings, rfl, ?_, by simp [hs]⟩
          exact inputLoop_warnings_ne m.inputs _ _ _ _ s hl (by simp)

end
end OW.Sim.Json
