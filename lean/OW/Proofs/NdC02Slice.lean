import OW.Proofs.NdC01Slice
import OW.Proofs.NdC02Zip
/-!
Helper lemmas for C02, Part C: `ApplySlice` / `CopyFrom` against the sequential reference `setAll`.
Leaf file: builds on agentG's closed forms (`OW/Proofs/NdC01Slice.lean`: `applySlice_eq`, `copyLoop_eq`, `setSeq_eq`).
-/
namespace OW.NdC02
open OW.Nd

section
variable {α : Type}

/-- agentG's `setSeq` over zipped pairs is the sequential reference `setAll` -/
theorem setSeq_zip (a : Arr) : ∀ (l : List Idx) (xs : List α) (h : Heap α), setSeq h a (l.zip xs) = setAll h a l xs
  | [], _, _ => by simp [setSeq, setAll]
  | _ :: _, [], _ => by simp [setSeq, setAll]
  | i :: is, x :: xs, h => by
    simp only [List.zip_cons_cons, setSeq, setAll]
    cases Nd.set h a i x with
    | error m => rfl
    | ok h' => exact setSeq_zip a is xs h'

/-- `ApplySlice`, on every path, is the element loop `copyLoop` on the destination sub-array, which is the sequential
`Set` of the source's row-major elements (read in the pre-state) over the sub-array's row-major indices -/
theorem applySlice_loop {h : Heap α} {a src : Arr} (g : Geo a.v) (ok : ArrOK h a) (gs : Geo src.v) (oks : ArrOK h src)
    (hsid : src.sid ≠ a.sid) {loc : Idx} {step : Option Idx}
    (okS : SliceOK a.v.dims loc src.v.dims (stepOr a.v.dims.length step)) {vals : List α}
    (hv : getAll h src (rowMajor src.v.dims) = .ok vals) :
    slice a loc src.v.dims step = .ok (dstSlice a loc src.v.dims step) ∧
    Geo (dstSlice a loc src.v.dims step).v ∧
    applySlice h a loc step src = copyLoop h (dstSlice a loc src.v.dims step) src src.v.dims ∧
    applySlice h a loc step src = setAll h (dstSlice a loc src.v.dims step) (rowMajor src.v.dims) vals := by
  obtain ⟨hl1, _, hl3⟩ := okS.lengths
  have hsl := sliceInto_eq g loc src.v.dims step hl1 hl3
  have gS : Geo (dstSlice a loc src.v.dims step).v := geo_slice g okS hsl
  have okSl : ArrOK h (dstSlice a loc src.v.dims step) := ⟨ok.store, ok.base_nonneg, ok.fits, ok.cfits⟩
  have hslice : slice a loc src.v.dims step = .ok (dstSlice a loc src.v.dims step) := by
    simp only [slice, hsl, bind, Except.bind, pure, Except.pure, dstSlice]
  have hloop := copyLoop_eq (dst := dstSlice a loc src.v.dims step) gs hsid oks rfl hv
  have hseq := setSeq_eq gS ((rowMajor src.v.dims).zip vals) h okSl
    (fun w hw => rowMajor_inBounds gs.pos_dims _ (List.of_mem_zip hw).1)
  have hall := applySlice_eq g ok gs oks hsid okS hv
  have hsid' : (dstSlice a loc src.v.dims step).sid = a.sid := rfl
  rw [hsid'] at hseq
  refine ⟨hslice, gS, ?_, ?_⟩
  · rw [hall, hloop, hseq]
  · rw [hall, ← hseq, setSeq_zip]

/-- the slice `CopyFrom` takes of its receiver is the receiver itself -/
theorem dstSlice_self {a : Arr} (g : Geo a.v) : dstSlice a (a.v.newIndex 0) a.v.dims none = a := by
  have h1 : mulL a.v.step (uniform a.v.dims.length 1) = a.v.step := by
    have := mulL_ones_right a.v.step
    rwa [g.rank_step] at this
  have e : sliceView a.v (a.v.newIndex 0) a.v.dims none = a.v := by
    simp only [sliceView, View.newIndex, View.ndims, stepOr, dot_zeros, h1, ← g.offStep_eq, Int.add_zero]
  simp only [dstSlice, e]

end
end OW.NdC02
