import OW.Proofs.ClimateFreezing
/-!
Verified numerics for C20: at 40 °C the Goff-Gratch saturation pressure used by `calcVaporPressure` (7.37777… kPa) EXCEEDS the
Magnus saturation pressure `0.6108·exp(17.27·40/277.3)` (7.37561… kPa) that `calcDewPoint` inverts, so that at RH = 100 % the
dew point comes out above the dry bulb. Margin 1.27·10⁻⁴ in log₁₀; every transcendental is enclosed by a rational through exact
integer-power comparisons (as in `OW.Proofs.ClimateFreezing`):
  log₁₀ z ≥ 81/1064 (z = 373.16/313.16),  log₁₀ e ≤ 271/624,  log₁₀(0.6108/101.325) ≤ −2666/1201,
  10^1.825 ≤ 67,  10^(−97/145) ≥ 0.2143.
-/
namespace OW.Proofs.Climate
open OW OW.Kernels.Climate

/-- a lower bound of the water exponent from enclosures of its three transcendental terms -/
theorem expWater_lower (z l P Q : ℝ) (hl : l ≤ Real.logb 10 z) (hP : (10:ℝ) ^ ((1 - 1 / z) * 11.344) ≤ P)
    (hQ : Q ≤ (10:ℝ) ^ (-3.49149 * (z - 1))) :
    (z - 1) * -7.90298 + l * 5.02808 + (P - 1) * -0.00000013816 + (Q - 1) * 0.0081328 ≤ expWater z := by
  unfold expWater
  nlinarith

set_option exponentiation.threshold 8000 in
/-- log₁₀ e ≤ 271/624  (0.4342948… vs 0.4342944819…) -/
theorem logb_exp_one_upper : Real.logb 10 (Real.exp 1) ≤ (271:ℝ) / 624 := by
  have h := logb_le_div_of_pow_le (x := Real.exp 1) (Real.exp_pos 1) 271 624 (by norm_num) (by
    have h1 : Real.exp 1 ^ 624 ≤ (2.7182818286:ℝ) ^ 624 :=
      pow_le_pow_left₀ (Real.exp_pos 1).le Real.exp_one_lt_d9.le 624
    refine le_trans h1 ?_
    norm_num)
  simp only [Nat.cast_ofNat] at h
  exact h

/-- `exp a ≤ 10^((271/624)·a)` for `a ≥ 0` -/
theorem exp_le_rpow_ten (a : ℝ) (ha : 0 ≤ a) : Real.exp a ≤ (10:ℝ) ^ ((271:ℝ) / 624 * a) := by
  have h1 : Real.exp 1 ≤ (10:ℝ) ^ ((271:ℝ) / 624) := by
    rw [← Real.logb_le_iff_le_rpow (by norm_num) (Real.exp_pos 1)]
    exact logb_exp_one_upper
  rw [← Real.exp_one_rpow a, Real.rpow_mul (by norm_num)]
  exact Real.rpow_le_rpow (Real.exp_pos 1).le h1 ha

set_option exponentiation.threshold 8000 in
/-- log₁₀ (373.16/313.16) ≥ 81/1064 -/
theorem logb_z40_lower : (81:ℝ) / 1064 ≤ Real.logb 10 (373.16 / (40 + 273.16)) := by
  have e : (373.16:ℝ) / (40 + 273.16) = 9329 / 7829 := by norm_num
  have := div_le_logb_of_pow_le (x := (373.16:ℝ) / (40 + 273.16)) (by norm_num) 81 1064 (by norm_num)
    (by rw [e, div_pow, le_div_iff₀ (by positivity)]; norm_num)
  simp only [Nat.cast_ofNat] at this
  exact this

set_option exponentiation.threshold 8000 in
/-- 0.6108 / 101.325 ≤ 10^(−2666/1201) -/
theorem ratio_le_rpow : (0.6108:ℝ) / 101.325 ≤ (10:ℝ) ^ (-((2666:ℝ) / 1201)) := by
  have := le_rpow_ten_neg_of_pow_le (x := (0.6108:ℝ) / 101.325) (y := -((2666:ℝ) / 1201)) (by norm_num) 2666 1201
    (by norm_num) (by simp only [Nat.cast_ofNat]; exact le_refl _)
    (by
      have e : (0.6108:ℝ) / 101.325 = 6108 / 1013250 := by norm_num
      rw [e, div_pow, div_mul_eq_mul_div, div_le_one (by positivity)]
      norm_num)
  exact this

/-- **Goff-Gratch exceeds Magnus at 40 °C** -/
theorem magnus_lt_goffGratch_40 :
    0.6108 * Real.exp (17.27 * 40 / (40 + 237.3)) < vaporPressure (40:ℝ) := by
  rw [vp_water 40 (by norm_num)]
  -- enclosures of the terms of expWater at z = 373.16/313.16
  have hP : (10:ℝ) ^ ((1 - 1 / ((373.16:ℝ) / (40 + 273.16))) * 11.344) ≤ 67 := by
    apply rpow_ten_le_of_pow_le (by norm_num) 73 40 (by norm_num)
    · norm_num
    · norm_num
  have hQ : (0.2143:ℝ) ≤ (10:ℝ) ^ (-3.49149 * ((373.16:ℝ) / (40 + 273.16) - 1)) := by
    apply le_rpow_ten_neg_of_pow_le (by norm_num) 97 145 (by norm_num)
    · norm_num
    · norm_num
  have hE := expWater_lower _ _ _ _ logb_z40_lower hP hQ
  -- the Magnus side as a power of ten
  have ha : (0:ℝ) ≤ 17.27 * 40 / (40 + 237.3) := by norm_num
  have hM := exp_le_rpow_ten _ ha
  have hR := ratio_le_rpow
  have h1 : 0.6108 * Real.exp (17.27 * 40 / (40 + 237.3))
      ≤ 101.325 * ((10:ℝ) ^ (-((2666:ℝ) / 1201)) * (10:ℝ) ^ ((271:ℝ) / 624 * (17.27 * 40 / (40 + 237.3)))) := by
    have hpos : (0:ℝ) < Real.exp (17.27 * 40 / (40 + 237.3)) := Real.exp_pos _
    have hR' : (0.6108:ℝ) ≤ 101.325 * (10:ℝ) ^ (-((2666:ℝ) / 1201)) := by
      rw [div_le_iff₀ (by norm_num)] at hR; linarith
    have h10 : (0:ℝ) < (10:ℝ) ^ (-((2666:ℝ) / 1201)) := Real.rpow_pos_of_pos (by norm_num) _
    calc 0.6108 * Real.exp (17.27 * 40 / (40 + 237.3))
        ≤ (101.325 * (10:ℝ) ^ (-((2666:ℝ) / 1201))) * Real.exp (17.27 * 40 / (40 + 237.3)) :=
          mul_le_mul_of_nonneg_right hR' hpos.le
      _ ≤ (101.325 * (10:ℝ) ^ (-((2666:ℝ) / 1201))) * (10:ℝ) ^ ((271:ℝ) / 624 * (17.27 * 40 / (40 + 237.3))) :=
          mul_le_mul_of_nonneg_left hM (by positivity)
      _ = _ := by ring
  rw [← Real.rpow_add (by norm_num)] at h1
  refine lt_of_le_of_lt h1 ?_
  apply mul_lt_mul_of_pos_left _ (by norm_num)
  apply Real.rpow_lt_rpow_of_exponent_lt (by norm_num)
  refine lt_of_lt_of_le ?_ hE
  norm_num

end OW.Proofs.Climate
