import OW.Proofs.JsonNest
import OW.Proofs.NdC02Contig
/-!
Helper lemmas for C17: the n-d array plumbing of `encodeResults` in closed form.

The arrays of `encodeResults` are fresh Go-backed ROOT arrays over an exactly fitting storage, reshaped and sliced by
rows; extents may be 0 (no states, zero time steps), so the lemmas here do not go through `Geo` (which needs extents
≥ 1) but compute directly:
* `contiguous_rootView`, `unroll_root`, `reshape_root` — a root array is contiguous, unrolls to its whole window and
  reshapes (to any shape of the same size) into a root array on the same window;
* `jsa_rank1`, `jsa_rank2` — `JsonSafeArray` of rank-1 / rank-2 root arrays;
* `row_reshape` — `outputArray.Slice([i,0],[1,T],[1,1]).MustReshape([T])` is the root array on row `i`'s window.
-/
namespace OW.Sim.Json
open OW.Nd

/-! ### lists -/

theorem range_map_getD {β γ : Type} (l : List β) (d : β) (f : β → γ) :
    (List.range l.length).map (fun i => f (l.getD i d)) = l.map f := by
  apply List.ext_getElem (by simp)
  intro i h1 h2
  simp only [List.length_map, List.length_range] at h1
  simp [List.getD_eq_getElem?_getD, List.getElem?_eq_getElem h1]

/-- general form of `ravel_decrement` (no positivity needed): the last index has rank `Π dims − 1` -/
theorem ravel_decrement' : ∀ (d : Idx), ravel (decrement d) d = product d - 1
  | [] => by simp [decrement, ravel, product]
  | x :: xs => by
    have ih := ravel_decrement' xs
    simp only [decrement, List.map_cons, ravel, product] at ih ⊢
    rw [ih]
    have : (x - 1) * product xs + (product xs - 1) = x * product xs - 1 := by
      rw [Int.sub_mul]; omega
    exact this

/-! ### root views -/

theorem rootView_regular (dims : Idx) (st : Int) : Regular (rootView dims st) := by
  refine ⟨by simp [rootView], by simp [rootView, offsetsT_length], ?_⟩
  have := mulL_ones_left (offsetsT dims)
  rw [offsetsT_length] at this
  exact this.symm

theorem loopState_root : ∀ (dims : Idx),
    NdC02.loopState dims dims (uniform dims.length 1) (offsetsT dims) = some (product dims, false)
  | [] => by simp [NdC02.loopState, product]
  | d :: ds => by
    rw [List.length_cons, uniform_succ, offsetsT_cons]
    simp only [NdC02.loopState, loopState_root ds]
    have h1 : ¬ (d > 1 ∧ (false = true ∨ (1 : Int) > 1 ∨ product ds > product ds)) := by
      intro ⟨_, h⟩; rcases h with h | h | h
      · cases h
      · omega
      · omega
    rw [if_neg h1]
    simp [product, Int.mul_comm]

/-- a root view (any extents, also 0) is contiguous -/
theorem contiguous_rootView (dims : Idx) (st : Int) : (rootView dims st).contiguous = .ok true := by
  have hb := NdC02.contigLoop_bridge (rootView dims st) rfl (by simp [rootView]) (by simp [rootView, offsetsT_length])
    dims.length (Nat.le_refl _) 1 false (by simp [rootView, NdC02.loopState])
  unfold View.contiguous
  show (rootView dims st).contigLoop dims.length 1 false = _
  rw [hb]
  show Except.ok (NdC02.loopState dims dims (uniform dims.length 1) (offsetsT dims)).isSome = _
  rw [loopState_root]
  rfl

theorem rootView_index' (s : Idx) (st : Int) (idx : Idx) (hl : idx.length = s.length) :
    (rootView s st).index idx = .ok (st + ravel idx s) := by
  unfold View.index
  have h1 : View.indexAux idx (offsetsT s) = .ok (dot idx (offsetsT s)) :=
    indexAux_ok _ _ (by rw [offsetsT_length, hl])
  simp only [rootView, h1, dot_offsetsT_ravel idx s hl, bind, Except.bind, pure, Except.pure]

section
variable {α : Type}

/-- Go-backed root array of shape `dims` on the window `[base, base+len)` of storage `sid` -/
def rootArr (dims : Idx) (sid : Nat) (base len : Int) : Arr := ⟨rootView dims 0, sid, base, len, false⟩

/-- `Unroll()` of a Go-backed root array: the first `Π dims` cells of its window, aliased -/
theorem unroll_root {h : Heap α} {dims : Idx} {sid : Nat} {base len : Int} {s : List α}
    (hs : h[sid]? = some s) (h0 : 0 ≤ product dims) (hcap : base + product dims ≤ s.length) :
    unroll h (rootArr dims sid base len) = .ok (.alias sid base (product dims)) := by
  unfold unroll
  have hidx : (rootView dims 0).index (decrement (rootView dims 0).dims) = .ok (0 + (product dims - 1)) := by
    show (rootView dims 0).index (decrement dims) = _
    rw [rootView_index' dims 0 (decrement dims) (by simp [decrement]), ravel_decrement']
  have c : (0 : Int) ≤ (rootView dims 0).start ∧ (rootView dims 0).start ≤ 0 + (product dims - 1) + 1 ∧
      0 + (product dims - 1) + 1 ≤ (s.length : Int) - base := by
    simp only [rootView]; omega
  simp only [rootArr, contiguous_rootView, hidx, subslice, capOf, storeOf, hs, bind, Except.bind,
    pure, Except.pure, Bool.false_eq_true, if_false, if_true, c, and_self]
  simp only [rootView]
  congr 2 <;> omega

/-- `Reshape(newShape)` of a Go-backed root array to any non-empty shape of the same size: a root array of the new
shape on the same window (no copy) -/
theorem reshape_root {h : Heap α} {dims newShape : Idx} {sid : Nat} {base len : Int} {s : List α}
    (hs : h[sid]? = some s) (hd : dims ≠ []) (hne : newShape ≠ [])
    (h0 : 0 ≤ product dims) (hcap : base + product dims ≤ s.length)
    (hsz : product newShape = product dims) :
    reshape h (rootArr dims sid base len) newShape =
      .ok (h, .inr (rootArr newShape sid base (product dims))) := by
  obtain ⟨d, ds, rfl⟩ := List.exists_cons_of_ne_nil hd
  have hu := unroll_root (len := len) hs h0 hcap
  unfold reshape
  have hsize : ¬ (product newShape ≠ (rootArr (d :: ds) sid base len).v.size) := by
    simp [View.size, rootArr, rootView, hsz]
  simp only [bind, Except.bind, pure, Except.pure]
  rw [if_neg hsize]
  have hm : maximum (rootArr (d :: ds) sid base len).v.dims =
      .ok (ds.foldl (fun r x => if r > x then r else x) d) := rfl
  have hc : (rootArr (d :: ds) sid base len).v.contiguous = .ok true := contiguous_rootView _ _
  have hC : (rootArr (d :: ds) sid base len).isC = false := rfl
  simp only [hm, hc, hC, hu, implOf, root_eq newShape 0 hne]
  by_cases h1 : newShape.length = 1
  · simp [h1, rootArr]
  · simp [h1, rootArr]

theorem mustReshape_root {h : Heap α} {dims newShape : Idx} {sid : Nat} {base len : Int} {s : List α}
    (hs : h[sid]? = some s) (hd : dims ≠ []) (hne : newShape ≠ [])
    (h0 : 0 ≤ product dims) (hcap : base + product dims ≤ s.length)
    (hsz : product newShape = product dims) :
    mustReshape h (rootArr dims sid base len) newShape = .ok (h, rootArr newShape sid base (product dims)) := by
  unfold mustReshape
  simp only [reshape_root hs hd hne h0 hcap hsz, bind, Except.bind, pure, Except.pure]

/-- element access of a Go-backed root array inside its window -/
theorem get_root {h : Heap α} {dims : Idx} {sid : Nat} {base len : Int} {s : List α} (hs : h[sid]? = some s)
    (idx : Idx) (hl : idx.length = dims.length) (h0 : 0 ≤ ravel idx dims) (h1 : ravel idx dims < len)
    (_hb : 0 ≤ base) {x : α} (hx : s[(base + ravel idx dims).toNat]? = some x) :
    Nd.get h (rootArr dims sid base len) idx = .ok x := by
  unfold Nd.get
  simp only [rootArr, rootView_index' dims 0 idx hl, readAt, storeOf, hs, bind, Except.bind, pure, Except.pure,
    Bool.false_eq_true, if_false, Int.zero_add, h0, h1, and_self, if_true, hx]

end

section
variable {α : Type} [JNum α]

/-- `JsonSafeArray` of a rank-1 Go-backed root array on the window `[base, base+n)`: the converted cells -/
theorem jsa_rank1 {h : Heap α} {sid : Nat} {s : List α} (hs : h[sid]? = some s) (base n : Nat)
    (hfit : base + n ≤ s.length) :
    jsonSafeArray h (rootArr [(n : Int)] sid base n) 0 = .ok (((s.drop base).take n).map jsonSafeValue) := by
  have spec := jsonSafeArrayF_spec h 0 1 (rootArr [(n : Int)] sid base n) 0
    (fun t => (s.getD (base + (t.headD 0).toNat) JNum.zero)) (rootView_regular _ _) (by simp [rootArr, rootView])
    (by omega) (by simp [rootArr, rootView]) (by
      intro tail hb
      simp only [rootArr, rootView, List.drop_zero] at hb
      obtain ⟨i, rfl⟩ : ∃ i, tail = [i] := by
        match tail, hb with
        | [i], _ => exact ⟨i, rfl⟩
      simp only [InBounds_cons, InBounds_nil, and_true] at hb
      simp only [uniform, List.replicate_zero, List.nil_append, List.headD_cons]
      have hr : ravel [i] [(n : Int)] = i := by simp [ravel, product]
      apply get_root (dims := [(n : Int)]) hs [i] rfl (by rw [hr]; omega) (by rw [hr]; omega) (by omega)
      rw [hr]
      have : ((base : Int) + i).toNat = base + i.toNat := by omega
      rw [this, List.getD_eq_getElem?_getD, List.getElem?_eq_getElem (by omega)]
      rfl)
  unfold jsonSafeArray
  have : (rootArr [(n : Int)] sid base n).v.ndims = 1 := rfl
  rw [this]
  have e0 : ((0 : Nat) : Int) = 0 := rfl
  rw [e0] at spec
  rw [spec]
  simp only [rootArr, rootView, List.drop_zero, nest, Int.toNat_natCast, List.headD_cons]
  congr 1
  apply List.ext_getElem (by simp; omega)
  intro i h1 h2
  simp only [List.length_map, List.length_range] at h1
  simp only [List.getElem_map, List.getElem_range, List.getElem_take, List.getElem_drop]
  rw [List.getD_eq_getElem?_getD, List.getElem?_eq_getElem (by omega)]
  rfl

/-! ### `results.States` -/

omit [JNum α] in
theorem mapInsert_new (ks : List String) (vs : List (JVal α)) (k : String) (v : JVal α) (hk : k ∉ ks) :
    mapInsert ks vs k v = (ks ++ [k], vs ++ [v]) := by
  unfold mapInsert
  rw [List.idxOf?_eq_none_iff.mpr hk]

omit [JNum α] in
theorem fromStore_fresh (vals : List α) (dims : Idx) (hne : dims ≠ []) :
    fromStore ([vals] : Heap α) 0 dims = .ok (rootArr dims 0 0 vals.length) := by
  simp [fromStore, storeOf, root_eq dims 0 hne, rootArr, bind, Except.bind, pure, Except.pure]

omit [JNum α] in
theorem take_drop_succ' (s : List α) (i n : Nat) (hi : i < s.length) :
    (s.drop i).take (n + 1) = s[i] :: (s.drop (i + 1)).take n := by
  rw [List.drop_eq_getElem_cons hi, List.take_succ_cons]

/-- the split-states loop: one entry per state name, values from the state row in order -/
theorem stateLoop_spec {h : Heap α} {sid : Nat} {s : List α} (hs : h[sid]? = some s) (W : Nat) (hW : W ≤ s.length) :
    ∀ (rest : List String) (i : Nat) (ks : List String) (vs : List (JVal α)),
      i + rest.length ≤ W → (ks ++ rest).Nodup →
      encodeStates.loop h (rootArr [(W : Int)] sid 0 W) i ks vs rest =
        .ok (ks ++ rest, vs ++ ((s.drop i).take rest.length).map jsonSafeValue)
  | [], i, ks, vs, _, _ => by simp [encodeStates.loop]
  | state :: rest, i, ks, vs, hi, hnd => by
    have hi' : i < s.length := by simp at hi; omega
    have hr : ravel [(i : Int)] [(W : Int)] = i := by simp [ravel, product]
    have hget : Nd.get h (rootArr [(W : Int)] sid 0 W) [(i : Int)] = .ok s[i] :=
      get_root (dims := [(W : Int)]) hs [(i : Int)] rfl (by rw [hr]; omega) (by rw [hr]; simp at hi; omega)
        (Int.le_refl 0) (by rw [hr]; simp [List.getElem?_eq_getElem hi'])
    have hnew : state ∉ ks := by
      intro hmem
      have := List.nodup_append.mp hnd
      exact this.2.2 state hmem state (by simp) rfl
    have hnd' : ((ks ++ [state]) ++ rest).Nodup := by simpa using hnd
    have ih := stateLoop_spec hs W hW rest (i + 1) (ks ++ [state]) (vs ++ [jsonSafeValue s[i]])
      (by simp at hi ⊢; omega) hnd'
    simp only [encodeStates.loop, hget, mapInsert_new ks vs state _ hnew, bind, Except.bind]
    rw [ih]
    simp [take_drop_succ' s i rest.length hi']

/-- **States in closed form.** The state row `states` is reported as an object keyed by the state names when the
outputs are split and the row is exactly as wide as the list of names, else as the plain array — all values, each through
`JsonSafeValue`. Never panics (also for an empty row). -/
theorem encodeStates_spec (states : List α) (names : List String) (split : Bool) (hnd : names.Nodup) :
    encodeStates states names split =
      .ok (if split = true ∧ states.length = names.length then .obj names (states.map jsonSafeValue)
           else .arr (states.map jsonSafeValue)) := by
  have hs : ([states] : Heap α)[0]? = some states := rfl
  have hp : product [(1 : Int), (states.length : Int)] = states.length := by simp [product]
  have hmr := mustReshape_root (h := [states]) (dims := [1, (states.length : Int)])
    (newShape := [(states.length : Int)]) (sid := 0) (base := 0) (len := states.length) hs (by simp) (by simp)
    (by rw [hp]; omega) (by rw [hp]; omega) (by simp [product])
  rw [hp] at hmr
  unfold encodeStates
  simp only [alloc, List.nil_append, List.length_nil, fromStore_fresh states _ (by simp : [(1 : Int), (states.length : Int)] ≠ []),
    bind, Except.bind, pure, Except.pure]
  have hdims : (rootArr [(1 : Int), (states.length : Int)] 0 0 states.length).v.dims.drop 1 = [(states.length : Int)] := rfl
  rw [hdims, hmr]
  simp only []
  have hlen : (rootArr [(states.length : Int)] 0 0 states.length).v.len 0 = .ok (states.length : Int) := rfl
  rw [hlen]
  simp only []
  by_cases hc : split = true ∧ states.length = names.length
  · have hc' : split = true ∧ (states.length : Int) = (names.length : Int) := ⟨hc.1, by omega⟩
    rw [if_pos hc', if_pos hc]
    have := stateLoop_spec (h := [states]) (sid := 0) hs states.length (Nat.le_refl _) names 0 [] []
      (by omega) (by simpa using hnd)
    rw [this]
    simp only [List.nil_append, List.drop_zero, ← hc.2, List.take_length]
  · have hc' : ¬ (split = true ∧ (states.length : Int) = (names.length : Int)) := by
      intro ⟨h1, h2⟩; exact hc ⟨h1, by omega⟩
    rw [if_neg hc', if_neg hc]
    have := jsa_rank1 (h := [states]) (sid := 0) hs 0 states.length (by omega)
    simp only [Nat.cast_zero] at this
    rw [this]
    simp

/-! ### `results.Outputs` -/

/-- the view of `outputArray.Slice([i,0], [1,T], [1,1])` on a root array of shape `[nO, T]` -/
def rowView (nO T i : Nat) : View :=
  { orig := [(nO : Int), (T : Int)], dims := [1, (T : Int)], start := (i : Int) * (T : Int),
    offset := [(T : Int), 1], step := [1, 1], offStep := [(T : Int), 1] }

theorem slice_row (nO T i : Nat) (sid : Nat) (len : Int) :
    slice (rootArr [(nO : Int), (T : Int)] sid 0 len) [(i : Int), 0] [1, (T : Int)] (some [1, 1]) =
      .ok ⟨rowView nO T i, sid, 0, len, false⟩ := by
  simp [slice, View.sliceInto, rootArr, rootView, rowView, offsetsT, dotProduct, multiply, uniform, bind,
    Except.bind, pure, Except.pure]

theorem contiguous_rowView (nO T i : Nat) : (rowView nO T i).contiguous = .ok true := by
  have hb := NdC02.contigLoop_bridge (rowView nO T i) rfl rfl rfl 2 (Nat.le_refl _) 1 false
    (by simp [rowView, NdC02.loopState])
  unfold View.contiguous
  show (rowView nO T i).contigLoop 2 1 false = _
  rw [hb]
  simp [rowView, NdC02.loopState]

omit [JNum α] in
/-- `outputArray.Slice([i,0],[1,T],[1,1]).MustReshape([T])`: the rank-1 root array on the window of row `i` -/
theorem row_reshape {h : Heap α} {sid : Nat} {s : List α} (hs : h[sid]? = some s) (nO T i : Nat) (len : Int)
    (hrow : i * T + T ≤ s.length) :
    mustReshape h ⟨rowView nO T i, sid, 0, len, false⟩ [(T : Int)] =
      .ok (h, rootArr [(T : Int)] sid ((i * T : Nat) : Int) T) := by
  have hc := contiguous_rowView nO T i
  have hidx : (rowView nO T i).index (decrement (rowView nO T i).dims) = .ok ((i : Int) * T + (T - 1)) := by
    simp [rowView, View.index, View.indexAux, decrement, bind, Except.bind, pure, Except.pure]
  have hcap : (0 : Int) ≤ (i : Int) * T ∧ (i : Int) * T ≤ (i : Int) * T + (T - 1) + 1 ∧
      (i : Int) * T + (T - 1) + 1 ≤ (s.length : Int) - 0 := by
    have h1 : ((i * T + T : Nat) : Int) ≤ (s.length : Int) := by exact_mod_cast hrow
    have h2 : (0 : Int) ≤ (i : Int) * T := Int.mul_nonneg (Int.natCast_nonneg _) (Int.natCast_nonneg _)
    push_cast at h1
    omega
  have hu : unroll h ⟨rowView nO T i, sid, 0, len, false⟩ = .ok (.alias sid ((i : Int) * T) T) := by
    unfold unroll
    simp only [hc, hidx, subslice, capOf, storeOf, hs, bind, Except.bind, pure, Except.pure, Bool.false_eq_true,
      if_false, if_true]
    have hst : (rowView nO T i).start = (i : Int) * T := rfl
    rw [hst, if_pos hcap]
    simp only []
    congr 2 <;> omega
  unfold mustReshape reshape
  have hsize : ¬ (product [(T : Int)] ≠ (⟨rowView nO T i, sid, 0, len, false⟩ : Arr).v.size) := by
    simp [View.size, rowView, product]
  simp only [bind, Except.bind, pure, Except.pure]
  rw [if_neg hsize]
  have hm : maximum (⟨rowView nO T i, sid, 0, len, false⟩ : Arr).v.dims = .ok (if (1 : Int) > T then 1 else T) := rfl
  simp only [hm, hc, hu, implOf, root_eq [(T : Int)] 0 (by simp), List.length_cons, List.length_nil]
  simp [rootArr]

omit [JNum α] in
theorem flatten_length_rect (T : Nat) : ∀ (outs : List (List α)), (∀ o ∈ outs, o.length = T) →
    outs.flatten.length = outs.length * T
  | [], _ => by simp
  | o :: os, h => by
    have := flatten_length_rect T os (fun x hx => h x (by simp [hx]))
    simp only [List.flatten_cons, List.length_append, List.length_cons, this, h o (by simp)]
    rw [Nat.succ_mul]; omega

omit [JNum α] in
/-- row `i` of a rectangular block is the `i`-th window of `T` cells of its row-major flattening -/
theorem flatten_row (T : Nat) : ∀ (outs : List (List α)), (∀ o ∈ outs, o.length = T) →
    ∀ (i : Nat) (hi : i < outs.length), (outs.flatten.drop (i * T)).take T = outs[i]
  | [], _, i, hi => by simp at hi
  | o :: os, h, 0, _ => by
    have ho : o.length = T := h o (by simp)
    simp only [List.flatten_cons, Nat.zero_mul, List.drop_zero, List.getElem_cons_zero]
    exact List.take_left' ho
  | o :: os, h, i + 1, hi => by
    have ho : o.length = T := h o (by simp)
    have ih := flatten_row T os (fun x hx => h x (by simp [hx])) i (by simpa using hi)
    have e : (i + 1) * T = o.length + i * T := by rw [Nat.succ_mul, ho]; omega
    simp only [List.flatten_cons, e, List.drop_append, List.getElem_cons_succ,
      List.drop_eq_nil_of_le (Nat.le_add_right o.length (i * T)), Nat.add_sub_cancel_left, List.nil_append]
    exact ih

theorem row_fits {nO T i : Nat} {n : Nat} (hlen : n = nO * T) (hi : i < nO) : i * T + T ≤ n := by
  rw [hlen, ← Nat.succ_mul]
  exact Nat.mul_le_mul_right T hi

/-- the split-outputs loop on the rank-2 root array over storage `s`: one entry per output name, row by row -/
theorem outputLoop_spec {h : Heap α} {sid : Nat} {s : List α} (hs : h[sid]? = some s) (nO T : Nat) (len : Int)
    (hfit : s.length = nO * T) :
    ∀ (rest : List String) (i : Nat) (ks : List String) (vs : List (JVal α)),
      i + rest.length ≤ nO → (ks ++ rest).Nodup →
      encodeOutputs.loop (rootArr [(nO : Int), (T : Int)] sid 0 len) (T : Int) h i ks vs rest =
        .ok (ks ++ rest, vs ++ (List.range' i rest.length).map
          (fun j => JVal.arr (((s.drop (j * T)).take T).map jsonSafeValue)))
  | [], i, ks, vs, _, _ => by simp [encodeOutputs.loop]
  | output :: rest, i, ks, vs, hi, hnd => by
    have hi' : i < nO := by simp at hi; omega
    have hrow := row_fits hfit hi'
    have hnew : output ∉ ks := by
      intro hmem
      have := List.nodup_append.mp hnd
      exact this.2.2 output hmem output (by simp) rfl
    have hnd' : ((ks ++ [output]) ++ rest).Nodup := by simpa using hnd
    have hj := jsa_rank1 hs (i * T) T hrow
    have ih := outputLoop_spec hs nO T len hfit rest (i + 1) (ks ++ [output])
      (vs ++ [JVal.arr (((s.drop (i * T)).take T).map jsonSafeValue)]) (by simp at hi ⊢; omega) hnd'
    simp only [encodeOutputs.loop, slice_row, row_reshape hs nO T i len hrow, hj,
      mapInsert_new ks vs output _ hnew, bind, Except.bind]
    rw [ih]
    simp [List.range'_succ]

/-- `JsonSafeArray` of the rank-2 root array: the list of converted rows -/
theorem jsa_rank2 {h : Heap α} {sid : Nat} {s : List α} (hs : h[sid]? = some s) (nO T : Nat) (len : Int)
    (hfit : s.length = nO * T) (hlen : (s.length : Int) ≤ len) :
    jsonSafeArray h (rootArr [(nO : Int), (T : Int)] sid 0 len) 0 =
      .ok ((List.range nO).map fun i => JVal.arr (((s.drop (i * T)).take T).map jsonSafeValue)) := by
  have spec := jsonSafeArrayF_spec h 1 2 (rootArr [(nO : Int), (T : Int)] sid 0 len) 0
    (fun t => (s.getD ((t.headD 0).toNat * T + ((t.drop 1).headD 0).toNat) JNum.zero)) (rootView_regular _ _)
    (by simp [rootArr, rootView]) (by omega) (by simp [rootArr, rootView]) (by
      intro tail hb
      simp only [rootArr, rootView, List.drop_zero] at hb
      obtain ⟨i, k, rfl⟩ : ∃ i k, tail = [i, k] := by
        match tail, hb with
        | [i, k], _ => exact ⟨i, k, rfl⟩
      simp only [InBounds_cons, InBounds_nil, and_true] at hb
      obtain ⟨hi0, hi1, hk0, hk1⟩ := hb
      simp only [uniform, List.replicate_zero, List.nil_append, List.headD_cons, List.drop_succ_cons, List.drop_zero]
      obtain ⟨i', rfl⟩ : ∃ i' : Nat, i = i' := ⟨i.toNat, by omega⟩
      obtain ⟨k', rfl⟩ : ∃ k' : Nat, k = k' := ⟨k.toNat, by omega⟩
      have hi' : i' < nO := by omega
      have hk' : k' < T := by omega
      have hrow := row_fits hfit hi'
      have hr : ravel [(i' : Int), (k' : Int)] [(nO : Int), (T : Int)] = ((i' * T + k' : Nat) : Int) := by
        simp [ravel, product]
      have hlt : i' * T + k' < s.length := by omega
      apply get_root (dims := [(nO : Int), (T : Int)]) hs [(i' : Int), (k' : Int)] rfl (by rw [hr]; omega)
        (by rw [hr]; omega) (Int.le_refl 0)
      rw [hr]
      simp only [Int.zero_add, Int.toNat_natCast]
      rw [List.getD_eq_getElem?_getD, List.getElem?_eq_getElem hlt]
      rfl)
  unfold jsonSafeArray
  have : (rootArr [(nO : Int), (T : Int)] sid 0 len).v.ndims = 2 := rfl
  rw [this]
  have e0 : ((0 : Nat) : Int) = 0 := rfl
  rw [e0] at spec
  rw [spec]
  simp only [rootArr, rootView, List.drop_zero, nest, Int.toNat_natCast, List.headD_cons, List.drop_succ_cons]
  congr 1
  apply List.map_congr_left
  intro i hi
  have hi' : i < nO := by simpa using hi
  have hrow := row_fits hfit hi'
  congr 1
  apply List.ext_getElem (by simp; omega)
  intro k h1 h2
  simp only [List.length_map, List.length_range] at h1
  simp only [List.getElem_map, List.getElem_range, List.getElem_take, List.getElem_drop]
  rw [List.getD_eq_getElem?_getD, List.getElem?_eq_getElem (by omega)]
  rfl

/-- **Outputs in closed form.** A rectangular block `outs` (`nOut` rows of `T` values) is reported as an object keyed
by the output names (split) or as the array of rows — every value through `JsonSafeValue`, rows nested like the
dimensions `[nOut][T]`. Never panics (also for `T = 0`). -/
theorem encodeOutputs_spec (outs : List (List α)) (T : Nat) (names : List String) (split : Bool)
    (hrect : ∀ o ∈ outs, o.length = T) (hn : names.length = outs.length) (hnd : names.Nodup) :
    encodeOutputs outs T names split =
      .ok (if split = true then .obj names (outs.map fun o => .arr (o.map jsonSafeValue))
           else .arr (outs.map fun o => .arr (o.map jsonSafeValue))) := by
  have hfl := flatten_length_rect T outs hrect
  have hs : ([outs.flatten] : Heap α)[0]? = some outs.flatten := rfl
  have hp3 : product [(1 : Int), (outs.length : Int), (T : Int)] = ((outs.flatten.length : Nat) : Int) := by
    rw [hfl]; simp [product]
  have hp2 : product [(outs.length : Int), (T : Int)] = ((outs.flatten.length : Nat) : Int) := by
    rw [hfl]; simp [product]
  have hmr := mustReshape_root (h := [outs.flatten]) (dims := [1, (outs.length : Int), (T : Int)])
    (newShape := [(outs.length : Int), (T : Int)]) (sid := 0) (base := 0) (len := outs.flatten.length) hs
    (by simp) (by simp) (by rw [hp3]; omega) (by rw [hp3]; omega) (by rw [hp2, hp3])
  rw [hp3] at hmr
  have hrows : ∀ i, i < outs.length →
      JVal.arr (((outs.flatten.drop (i * T)).take T).map jsonSafeValue) = JVal.arr ((outs.getD i []).map jsonSafeValue) := by
    intro i hi
    rw [flatten_row T outs hrect i hi, List.getD_eq_getElem?_getD, List.getElem?_eq_getElem hi]
    rfl
  unfold encodeOutputs
  simp only [alloc, List.nil_append, List.length_nil,
    fromStore_fresh outs.flatten _ (by simp : [(1 : Int), (outs.length : Int), (T : Int)] ≠ []),
    bind, Except.bind, pure, Except.pure]
  have hdims : (rootArr [(1 : Int), (outs.length : Int), (T : Int)] 0 0 outs.flatten.length).v.dims.drop 1 =
      [(outs.length : Int), (T : Int)] := rfl
  rw [hdims, hmr]
  simp only []
  cases split with
  | true =>
    simp only [if_true]
    have hlen : (rootArr [(outs.length : Int), (T : Int)] 0 0 (outs.flatten.length : Int)).v.len 1 = .ok (T : Int) := rfl
    rw [hlen]
    simp only []
    have := outputLoop_spec (h := [outs.flatten]) (sid := 0) hs outs.length T outs.flatten.length hfl names 0 [] []
      (by omega) (by simpa using hnd)
    rw [this]
    simp only [List.nil_append]
    congr 2
    rw [hn, List.range'_eq_map_range]
    simp only [Nat.zero_add, List.map_map]
    apply List.ext_getElem (by simp)
    intro i h1 h2
    simp only [List.length_map, List.length_range] at h1
    simp only [List.getElem_map, List.getElem_range, Function.comp]
    rw [hrows i h1, List.getD_eq_getElem?_getD, List.getElem?_eq_getElem h1]
    rfl
  | false =>
    simp only [Bool.false_eq_true, if_false]
    rw [jsa_rank2 hs outs.length T _ hfl (Int.le_refl _)]
    simp only []
    congr 2
    apply List.ext_getElem (by simp)
    intro i h1 h2
    simp only [List.length_map, List.length_range] at h1
    simp only [List.getElem_map, List.getElem_range]
    rw [hrows i h1, List.getD_eq_getElem?_getD, List.getElem?_eq_getElem h1]
    rfl

end
end OW.Sim.Json
