import OW.Proofs.HotStart
import OW.Kernels.InstreamParticulateNutrient
/-!
Model-specific zip lemmas for the hot-start proofs (C06). Core Lean only.
-/
namespace OW
open OW.Kernels

theorem zipIn_append {α : Type} (a₁ a₂ b₁ b₂ c₁ c₂ d₁ d₂ e₁ e₂ f₁ f₂ g₁ g₂ h₁ h₂ : List α)
    (hb : a₁.length = b₁.length) (hc : a₁.length = c₁.length) (hd : a₁.length = d₁.length)
    (he : a₁.length = e₁.length) (hf : a₁.length = f₁.length) (hg : a₁.length = g₁.length)
    (hh : a₁.length = h₁.length) :
    InstreamParticulateNutrient.zipIn (a₁ ++ a₂) (b₁ ++ b₂) (c₁ ++ c₂) (d₁ ++ d₂) (e₁ ++ e₂) (f₁ ++ f₂) (g₁ ++ g₂) (h₁ ++ h₂) =
      InstreamParticulateNutrient.zipIn a₁ b₁ c₁ d₁ e₁ f₁ g₁ h₁ ++ InstreamParticulateNutrient.zipIn a₂ b₂ c₂ d₂ e₂ f₂ g₂ h₂ := by
  induction a₁ generalizing b₁ c₁ d₁ e₁ f₁ g₁ h₁ with
  | nil =>
    cases b₁ <;> cases c₁ <;> cases d₁ <;> cases e₁ <;> cases f₁ <;> cases g₁ <;> cases h₁ <;>
      simp_all [InstreamParticulateNutrient.zipIn]
  | cons x xs ih =>
    match b₁, c₁, d₁, e₁, f₁, g₁, h₁, hb, hc, hd, he, hf, hg, hh with
    | _ :: b, _ :: c, _ :: d, _ :: e, _ :: f, _ :: g, _ :: h, hb, hc, hd, he, hf, hg, hh =>
      simp only [List.cons_append, InstreamParticulateNutrient.zipIn]
      rw [ih b c d e f g h (by simpa using hb) (by simpa using hc) (by simpa using hd) (by simpa using he)
        (by simpa using hf) (by simpa using hg) (by simpa using hh)]

theorem zipIn_length {α : Type} (a b c d e f g h : List α)
    (hb : a.length = b.length) (hc : a.length = c.length) (hd : a.length = d.length)
    (he : a.length = e.length) (hf : a.length = f.length) (hg : a.length = g.length)
    (hh : a.length = h.length) :
    (InstreamParticulateNutrient.zipIn a b c d e f g h).length = a.length := by
  induction a generalizing b c d e f g h with
  | nil =>
    cases b <;> cases c <;> cases d <;> cases e <;> cases f <;> cases g <;> cases h <;>
      simp_all [InstreamParticulateNutrient.zipIn]
  | cons x xs ih =>
    match b, c, d, e, f, g, h, hb, hc, hd, he, hf, hg, hh with
    | _ :: b, _ :: c, _ :: d, _ :: e, _ :: f, _ :: g, _ :: h, hb, hc, hd, he, hf, hg, hh =>
      simp only [InstreamParticulateNutrient.zipIn, List.length_cons]
      rw [ih b c d e f g h (by simpa using hb) (by simpa using hc) (by simpa using hd) (by simpa using he)
        (by simpa using hf) (by simpa using hg) (by simpa using hh)]

end OW
