import OW.Kernels.Sacramento
import OW.Gen.Prelude
/-!
# SacramentoMid — the regenerated Sacramento step in the hand-written vocabulary

`harness/cmd/owtranslate` renders `models/rr/sacramento.go` with merge tuples (`phiN`) and lifted loop bodies. The
definitions below are a COPY of that rendering (taken from `OW/Gen/Kernels.lean`, namespace `sacramento`: `loopBody1…4`,
`step`). `OW/Props/GenTieSacramento.lean` proves `OW.Gen.K.sacramento.X = SacramentoMid.X` by `rfl` (so a source change that
alters the arithmetic breaks that proof, a harmless rewrite does not), and this file proves — once, independently of the
generated file — that the copy is the hand-written model `OW/Kernels/Sacramento.lean` (SSA-style `if`s, records, list
operations), which is where the case analysis lives (slow: about a minute; not rebuilt when the generated file changes).
Core Lean only.
-/
set_option linter.unusedVariables false
namespace OW.Kernels.SacramentoMid
open OW OW.Gen.Prelude

/-- models/rr/sacramento.go:291  the body of the loop over `inc`: index, carried values ↦ new carried values -/
def loopBody1 {α : Type} [Num α] (uprTensionWater uzfwm lztwm pfree rexp zperc adimp alzfsm alzfpm pbase duz hpl dinc pinc dlzp dlzs : α) (inc : Int) (carried : α × α × α × α × α × α × α × α × α × α) : α × α × α × α × α × α × α × α × α × α :=
  let uprFreeWater : α := carried.1
  let lwrTensionWater : α := carried.2.1
  let additionalImperviousStore : α := carried.2.2.1
  let alzfsc : α := carried.2.2.2.1
  let alzfpc : α := carried.2.2.2.2.1
  let roimp : α := carried.2.2.2.2.2.1
  let pav : α := carried.2.2.2.2.2.2.1
  let flobf : α := carried.2.2.2.2.2.2.2.1
  let flosf : α := carried.2.2.2.2.2.2.2.2.1
  let floin : α := carried.2.2.2.2.2.2.2.2.2
  let ratio : α := (additionalImperviousStore - uprTensionWater) / lztwm
  let phi18 : α := if ratio < 0 then
      let ratio : α := 0
      (ratio)
    else
      (ratio)
  let ratio : α := phi18
  let addro : α := pinc * ratio * ratio
  let bf : α := 0.0
  let phi19 : α × α := if alzfpc > 0.0 then
      let bf : α := alzfpc * dlzp
      (bf, alzfpc)
    else
      let alzfpc : α := 0.0
      let bf : α := 0.0
      (bf, alzfpc)
  let bf : α := phi19.1
  let alzfpc : α := phi19.2
  let flobf : α := flobf + bf
  let alzfpc : α := alzfpc - bf
  let phi20 : α × α := if alzfsc > 0.0 then
      let bf : α := alzfsc * dlzs
      (bf, alzfsc)
    else
      let alzfsc : α := 0.0
      let bf : α := 0.0
      (bf, alzfsc)
  let bf : α := phi20.1
  let alzfsc : α := phi20.2
  let alzfsc : α := alzfsc - bf
  let flobf : α := flobf + bf
  let phi26 : α × α × α × α × α := if uprFreeWater > 0.0 then
      let lzair : α := lztwm - lwrTensionWater + alzfsm - alzfsc + alzfpm - alzfpc
      let perc : α := 0.0
      let phi21 : α × α := if lzair > 0.0 then
          let perc : α := pbase * dinc * uprFreeWater / uzfwm
          let perc : α := Num.gmin lzair (Num.gmin uprFreeWater (perc * (1.0 + zperc * Num.pow (1.0 - (alzfpc + alzfsc + lwrTensionWater) / (alzfpm + alzfsm + lztwm)) rexp)))
          let uprFreeWater : α := uprFreeWater - perc
          (perc, uprFreeWater)
        else
          (perc, uprFreeWater)
      let perc : α := phi21.1
      let uprFreeWater : α := phi21.2
      let del_1 : α := duz * uprFreeWater
      let floin : α := floin + del_1
      let uprFreeWater : α := uprFreeWater - del_1
      let perctw : α := Num.gmin (perc * (1.0 - pfree)) (lztwm - lwrTensionWater)
      let percfw : α := perc - perctw
      let lzair : α := alzfsm - alzfsc + alzfpm - alzfpc
      let phi22 : α × α := if percfw > lzair then
          let perctw : α := perctw + percfw - lzair
          let percfw : α := lzair
          (perctw, percfw)
        else
          (perctw, percfw)
      let perctw : α := phi22.1
      let percfw : α := phi22.2
      let lwrTensionWater : α := lwrTensionWater + perctw
      let phi25 : α × α := if percfw > 0.0 then
          let ratlp : α := 1.0 - alzfpc / alzfpm
          let ratls : α := 1.0 - alzfsc / alzfsm
          let percs : α := Num.gmin (alzfsm - alzfsc) (percfw * (1.0 - Num.gmin 1.0 (hpl * (ratlp + ratlp) / (ratlp + ratls))))
          let alzfsc : α := alzfsc + percs
          let phi23 : α × α := if alzfsc > alzfsm then
              let percs : α := percs - alzfsc + alzfsm
              let alzfsc : α := alzfsm
              (percs, alzfsc)
            else
              (percs, alzfsc)
          let percs : α := phi23.1
          let alzfsc : α := phi23.2
          let alzfpc : α := alzfpc + percfw - percs
          let phi24 : α × α := if alzfpc > alzfpm then
              let alzfsc : α := alzfsc + alzfpc - alzfpm
              let alzfpc : α := alzfpm
              (alzfsc, alzfpc)
            else
              (alzfsc, alzfpc)
          let alzfsc : α := phi24.1
          let alzfpc : α := phi24.2
          (alzfsc, alzfpc)
        else
          (alzfsc, alzfpc)
      let alzfsc : α := phi25.1
      let alzfpc : α := phi25.2
      (uprFreeWater, floin, lwrTensionWater, alzfsc, alzfpc)
    else
      (uprFreeWater, floin, lwrTensionWater, alzfsc, alzfpc)
  let uprFreeWater : α := phi26.1
  let floin : α := phi26.2.1
  let lwrTensionWater : α := phi26.2.2.1
  let alzfsc : α := phi26.2.2.2.1
  let alzfpc : α := phi26.2.2.2.2
  let phi28 : α × α × α × α := if pinc > 0.0 then
      let pav : α := pinc
      let phi27 : α × α × α × α := if pav - uzfwm + uprFreeWater ≤ 0 then
          let uprFreeWater : α := uprFreeWater + pav
          (uprFreeWater, pav, flosf, addro)
        else
          let pav : α := pav - uzfwm + uprFreeWater
          let uprFreeWater : α := uzfwm
          let flosf : α := flosf + pav
          let addro : α := addro + pav * (1.0 - addro / pinc)
          (uprFreeWater, pav, flosf, addro)
      let uprFreeWater : α := phi27.1
      let pav : α := phi27.2.1
      let flosf : α := phi27.2.2.1
      let addro : α := phi27.2.2.2
      (pav, uprFreeWater, flosf, addro)
    else
      (pav, uprFreeWater, flosf, addro)
  let pav : α := phi28.1
  let uprFreeWater : α := phi28.2.1
  let flosf : α := phi28.2.2.1
  let addro : α := phi28.2.2.2
  let additionalImperviousStore : α := additionalImperviousStore + pinc - addro
  let roimp : α := roimp + addro * adimp
  (uprFreeWater, lwrTensionWater, additionalImperviousStore, alzfsc, alzfpc, roimp, pav, flobf, flosf, floin)
/-- models/rr/sacramento.go:258  the body of the loop over `ii`: index, carried values ↦ new carried values -/
def loopBody2 {α : Type} [Num α] (uprTensionWater lzpk lzsk uzk uzfwm lztwm pfree rexp zperc adimp alzfsm alzfpm pbase hpl : α) (ii : Int) (carried_1 : α × α × α × α × α × α × α × α × α × α × α × α) : α × α × α × α × α × α × α × α × α × α × α × α :=
  let uprFreeWater : α := carried_1.1
  let lwrTensionWater : α := carried_1.2.1
  let additionalImperviousStore : α := carried_1.2.2.1
  let alzfsc : α := carried_1.2.2.2.1
  let alzfpc : α := carried_1.2.2.2.2.1
  let roimp : α := carried_1.2.2.2.2.2.1
  let pav : α := carried_1.2.2.2.2.2.2.1
  let adj : α := carried_1.2.2.2.2.2.2.2.1
  let duz : α := carried_1.2.2.2.2.2.2.2.2.1
  let flobf : α := carried_1.2.2.2.2.2.2.2.2.2.1
  let flosf : α := carried_1.2.2.2.2.2.2.2.2.2.2.1
  let floin : α := carried_1.2.2.2.2.2.2.2.2.2.2.2
  let ninc : Int := Num.toInt (Num.floor ((uprFreeWater * adj + pav) * 0.2)) + 1
  let dinc : α := 1.0 / Num.ofInt ninc
  let pinc : α := pav * dinc
  let dinc : α := dinc * adj
  let dlzp : α := 0.0
  let dlzs : α := 0.0
  let phi17 : α × α × α := if decide (ninc = 1) && decide (adj ≥ 1.0) then
      let duz : α := uzk
      let dlzp : α := lzpk
      let dlzs : α := lzsk
      (duz, dlzp, dlzs)
    else
      let phi14 : α := if uzk < 1.0 then
          let duz : α := 1.0 - Num.pow (1.0 - uzk) dinc
          (duz)
        else
          let duz : α := 1.0
          (duz)
      let duz : α := phi14
      let phi15 : α := if lzpk < 1.0 then
          let dlzp : α := 1.0 - Num.pow (1.0 - lzpk) dinc
          (dlzp)
        else
          let dlzp : α := 1.0
          (dlzp)
      let dlzp : α := phi15
      let phi16 : α := if lzsk < 1.0 then
          let dlzs : α := 1.0 - Num.pow (1.0 - lzsk) dinc
          (dlzs)
        else
          let dlzs : α := 1.0
          (dlzs)
      let dlzs : α := phi16
      (duz, dlzp, dlzs)
  let duz : α := phi17.1
  let dlzp : α := phi17.2.1
  let dlzs : α := phi17.2.2
  let loop1 : α × α × α × α × α × α × α × α × α × α := forRange 1 (ninc + 1) (loopBody1 uprTensionWater uzfwm lztwm pfree rexp zperc adimp alzfsm alzfpm pbase duz hpl dinc pinc dlzp dlzs) (uprFreeWater, lwrTensionWater, additionalImperviousStore, alzfsc, alzfpc, roimp, pav, flobf, flosf, floin)
  let uprFreeWater : α := loop1.1
  let lwrTensionWater : α := loop1.2.1
  let additionalImperviousStore : α := loop1.2.2.1
  let alzfsc : α := loop1.2.2.2.1
  let alzfpc : α := loop1.2.2.2.2.1
  let roimp : α := loop1.2.2.2.2.2.1
  let pav : α := loop1.2.2.2.2.2.2.1
  let flobf : α := loop1.2.2.2.2.2.2.2.1
  let flosf : α := loop1.2.2.2.2.2.2.2.2.1
  let floin : α := loop1.2.2.2.2.2.2.2.2.2
  let adj : α := 1.0 - adj
  let pav : α := 0.0
  (uprFreeWater, lwrTensionWater, additionalImperviousStore, alzfsc, alzfpc, roimp, pav, adj, duz, flobf, flosf, floin)
/-- models/rr/sacramento.go:407  the body of the loop over `j`: index, carried values ↦ new carried values -/
def loopBody3 {α : Type} [Num α] (qq dro : List α) (j : Int) (carried_2 : α) : α :=
  let flwsf : α := carried_2
  let flwsf : α := flwsf + sliceGet qq j * sliceGet dro j
  flwsf
/-- models/rr/sacramento.go:410  the body of the loop over `k`: index, carried values ↦ new carried values -/
def loopBody4 {α : Type} [Num α] (k : Int) (carried_3 : List α) : List α :=
  let qq : List α := carried_3
  let qq : List α := sliceSet qq k (sliceGet qq (k - 1))
  qq
/-- one iteration: parameters, pre-loop values, state, inputs at this step ↦ (new state, outputs at this step) -/
def step {α : Type} [Num α] (lzpk lzsk uzk uztwm uzfwm lztwm lzfsm lzfpm pfree rexp zperc side ssout pctim adimp sarva rserv uh1 uh2 uh3 uh4 uh5 : α) (dro : List α) (saved alzfsm alzfpm pbase : α) (uprTensionWater uprFreeWater lwrTensionWater lwrPrimaryFreeWater lwrSupplFreeWater additionalImperviousStore : α) (qq : List α) (alzfsc alzfpc : α) (rainfall pet : α) : (α × α × α × α × α × α × List α × α × α) × (α × α × α × α × α) :=
  let actualET' : α := Num.zero
  let runoff' : α := Num.zero
  let imperviousRunoff' : α := Num.zero
  let surfaceRunoff' : α := Num.zero
  let baseflow' : α := Num.zero
  let evapt : α := pet
  let pliq : α := rainfall
  let e1 : α := 0.0
  let phi1 : α := if uztwm > 0.0 then
      let e1 : α := evapt * uprTensionWater / uztwm
      (e1)
    else
      (e1)
  let e1 : α := phi1
  let e2 : α := 0.0
  let phi2 : α × α × α × α := if uprTensionWater < e1 then
      let e1 : α := uprTensionWater
      let uprTensionWater : α := 0.0
      let e2 : α := Num.gmin (evapt - e1) uprFreeWater
      let uprFreeWater : α := uprFreeWater - e2
      (e1, uprTensionWater, e2, uprFreeWater)
    else
      let uprTensionWater : α := uprTensionWater - e1
      (e1, uprTensionWater, e2, uprFreeWater)
  let e1 : α := phi2.1
  let uprTensionWater : α := phi2.2.1
  let e2 : α := phi2.2.2.1
  let uprFreeWater : α := phi2.2.2.2
  let a : α := 1.0
  let phi3 : α := if uztwm > 0.0 then
      let a : α := uprTensionWater / uztwm
      (a)
    else
      (a)
  let a : α := phi3
  let b : α := 1.0
  let phi4 : α := if uzfwm > 0.0 then
      let b : α := uprFreeWater / uzfwm
      (b)
    else
      (b)
  let b : α := phi4
  let phi5 : α × α × α := if a < b then
      let a : α := (uprTensionWater + uprFreeWater) / (uztwm + uzfwm)
      let uprTensionWater : α := uztwm * a
      let uprFreeWater : α := uzfwm * a
      (a, uprTensionWater, uprFreeWater)
    else
      (a, uprTensionWater, uprFreeWater)
  let a : α := phi5.1
  let uprTensionWater : α := phi5.2.1
  let uprFreeWater : α := phi5.2.2
  let e3 : α := 0.0
  let e5 : α := 0.0
  let phi6 : α × α := if uztwm + lztwm > 0.0 then
      let e3 : α := Num.gmin ((evapt - e1 - e2) * lwrTensionWater / (uztwm + lztwm)) lwrTensionWater
      let e5 : α := Num.gmin (e1 + (evapt - e1 - e2) * (additionalImperviousStore - e1 - uprTensionWater) / (uztwm + lztwm)) additionalImperviousStore
      (e3, e5)
    else
      (e3, e5)
  let e3 : α := phi6.1
  let e5 : α := phi6.2
  let lwrTensionWater : α := lwrTensionWater - e3
  let additionalImperviousStore : α := additionalImperviousStore - e5
  let e1 : α := e1 * (1 - adimp - pctim)
  let e2 : α := e2 * (1 - adimp - pctim)
  let e3 : α := e3 * (1 - adimp - pctim)
  let e5 : α := e5 * adimp
  let phi7 : α := if lztwm > 0.0 then
      let a : α := lwrTensionWater / lztwm
      (a)
    else
      let a : α := 1.0
      (a)
  let a : α := phi7
  let phi8 : α := if alzfpm + alzfsm - saved + lztwm > 0.0 then
      let b : α := (alzfpc + alzfsc - saved + lwrTensionWater) / (alzfpm + alzfsm - saved + lztwm)
      (b)
    else
      let b : α := 1.0
      (b)
  let b : α := phi8
  let phi10 : α × α × α := if a < b then
      let del : α := (b - a) * lztwm
      let lwrTensionWater : α := lwrTensionWater + del
      let alzfsc : α := alzfsc - del
      let phi9 : α × α := if alzfsc < 0 then
          let alzfpc : α := alzfpc + alzfsc
          let alzfsc : α := 0.0
          (alzfpc, alzfsc)
        else
          (alzfpc, alzfsc)
      let alzfpc : α := phi9.1
      let alzfsc : α := phi9.2
      (lwrTensionWater, alzfsc, alzfpc)
    else
      (lwrTensionWater, alzfsc, alzfpc)
  let lwrTensionWater : α := phi10.1
  let alzfsc : α := phi10.2.1
  let alzfpc : α := phi10.2.2
  let roimp : α := pliq * pctim
  let pav : α := pliq + uprTensionWater - uztwm
  let phi11 : α × α × α := if pav < 0 then
      let additionalImperviousStore : α := additionalImperviousStore + pliq
      let uprTensionWater : α := uprTensionWater + pliq
      let pav : α := 0.0
      (additionalImperviousStore, uprTensionWater, pav)
    else
      let additionalImperviousStore : α := additionalImperviousStore + uztwm - uprTensionWater
      let uprTensionWater : α := uztwm
      (additionalImperviousStore, uprTensionWater, pav)
  let additionalImperviousStore : α := phi11.1
  let uprTensionWater : α := phi11.2.1
  let pav : α := phi11.2.2
  let adj : α := Num.zero
  let itime : Int := 0
  let phi13 : α × Int := if pav ≤ 5.08 then
      let adj : α := 1.0
      let itime : Int := 2
      (adj, itime)
    else
      let phi12 : α := if pav < 25.4 then
          let adj : α := 0.5 * Num.sqrt (pav / 25.4)
          (adj)
        else
          let adj : α := 1.0 - 12.7 / pav
          (adj)
      let adj : α := phi12
      let itime : Int := 1
      (adj, itime)
  let adj : α := phi13.1
  let itime : Int := phi13.2
  let duz : α := Num.zero
  let flobf : α := 0.0
  let flosf : α := 0.0
  let floin : α := 0.0
  let hpl : α := alzfpm / (alzfpm + alzfsm)
  let loop2 : α × α × α × α × α × α × α × α × α × α × α × α := forRange itime (2 + 1) (loopBody2 uprTensionWater lzpk lzsk uzk uzfwm lztwm pfree rexp zperc adimp alzfsm alzfpm pbase hpl) (uprFreeWater, lwrTensionWater, additionalImperviousStore, alzfsc, alzfpc, roimp, pav, adj, duz, flobf, flosf, floin)
  let uprFreeWater : α := loop2.1
  let lwrTensionWater : α := loop2.2.1
  let additionalImperviousStore : α := loop2.2.2.1
  let alzfsc : α := loop2.2.2.2.1
  let alzfpc : α := loop2.2.2.2.2.1
  let roimp : α := loop2.2.2.2.2.2.1
  let pav : α := loop2.2.2.2.2.2.2.1
  let adj : α := loop2.2.2.2.2.2.2.2.1
  let duz : α := loop2.2.2.2.2.2.2.2.2.1
  let flobf : α := loop2.2.2.2.2.2.2.2.2.2.1
  let flosf : α := loop2.2.2.2.2.2.2.2.2.2.2.1
  let floin : α := loop2.2.2.2.2.2.2.2.2.2.2.2
  let flosf : α := flosf * (1.0 - pctim - adimp)
  let floin : α := floin * (1.0 - pctim - adimp)
  let flobf : α := flobf * (1.0 - pctim - adimp)
  let lwrSupplFreeWater : α := alzfsc / (1.0 + side)
  let lwrPrimaryFreeWater : α := alzfpc / (1.0 + side)
  let qq : List α := sliceSet qq 0 (flosf + roimp + floin)
  let flwsf : α := 0.0
  let loop3 : α := forRange 0 5 (loopBody3 qq dro) flwsf
  let flwsf : α := loop3
  let loop4 : List α := forRangeDown 4 0 loopBody4 qq
  let qq : List α := loop4
  let flwbf : α := flobf / (1.0 + side)
  let phi29 : α := if flwbf < 0.0 then
      let flwbf : α := 0.0
      (flwbf)
    else
      (flwbf)
  let flwbf : α := phi29
  let baseflowFraction : α := 0.0
  let qf : α := flwbf + flwsf
  let phi30 : α := if qf > 0.0 then
      let baseflowFraction : α := flwbf / qf
      (baseflowFraction)
    else
      (baseflowFraction)
  let baseflowFraction : α := phi30
  let qf : α := Num.gmax 0.0 (qf - ssout)
  let e4 : α := Num.gmin (evapt * sarva) qf
  let qf : α := qf - e4
  let bf_1 : α := baseflowFraction * qf
  let imperviousRunoff' : α := roimp
  let surfaceRunoff' : α := qf - bf_1
  let baseflow' : α := bf_1
  let runoff' : α := qf
  let actualET' : α := e1 + e2 + e3 + e4 + e5
  ((uprTensionWater, uprFreeWater, lwrTensionWater, lwrPrimaryFreeWater, lwrSupplFreeWater, additionalImperviousStore, qq, alzfsc, alzfpc), (actualET', runoff', imperviousRunoff', surfaceRunoff', baseflow'))


/-! ### the same step, cut into four segments (definitionally the same term: `step_eq_stepF`) -/

/-- evaporation from the upper zone, ADIMP area and lower zone tension water; scaling to the pervious area -/
def segA {α : Type} [Num α] (uztwm uzfwm lztwm adimp pctim evapt uprTensionWater uprFreeWater lwrTensionWater additionalImperviousStore : α) :
    α × α × α × α × α × α × α × α :=
  let e1 : α := 0.0
  let phi1 : α := if uztwm > 0.0 then
      let e1 : α := evapt * uprTensionWater / uztwm
      (e1)
    else
      (e1)
  let e1 : α := phi1
  let e2 : α := 0.0
  let phi2 : α × α × α × α := if uprTensionWater < e1 then
      let e1 : α := uprTensionWater
      let uprTensionWater : α := 0.0
      let e2 : α := Num.gmin (evapt - e1) uprFreeWater
      let uprFreeWater : α := uprFreeWater - e2
      (e1, uprTensionWater, e2, uprFreeWater)
    else
      let uprTensionWater : α := uprTensionWater - e1
      (e1, uprTensionWater, e2, uprFreeWater)
  let e1 : α := phi2.1
  let uprTensionWater : α := phi2.2.1
  let e2 : α := phi2.2.2.1
  let uprFreeWater : α := phi2.2.2.2
  let a : α := 1.0
  let phi3 : α := if uztwm > 0.0 then
      let a : α := uprTensionWater / uztwm
      (a)
    else
      (a)
  let a : α := phi3
  let b : α := 1.0
  let phi4 : α := if uzfwm > 0.0 then
      let b : α := uprFreeWater / uzfwm
      (b)
    else
      (b)
  let b : α := phi4
  let phi5 : α × α × α := if a < b then
      let a : α := (uprTensionWater + uprFreeWater) / (uztwm + uzfwm)
      let uprTensionWater : α := uztwm * a
      let uprFreeWater : α := uzfwm * a
      (a, uprTensionWater, uprFreeWater)
    else
      (a, uprTensionWater, uprFreeWater)
  let a : α := phi5.1
  let uprTensionWater : α := phi5.2.1
  let uprFreeWater : α := phi5.2.2
  let e3 : α := 0.0
  let e5 : α := 0.0
  let phi6 : α × α := if uztwm + lztwm > 0.0 then
      let e3 : α := Num.gmin ((evapt - e1 - e2) * lwrTensionWater / (uztwm + lztwm)) lwrTensionWater
      let e5 : α := Num.gmin (e1 + (evapt - e1 - e2) * (additionalImperviousStore - e1 - uprTensionWater) / (uztwm + lztwm)) additionalImperviousStore
      (e3, e5)
    else
      (e3, e5)
  let e3 : α := phi6.1
  let e5 : α := phi6.2
  let lwrTensionWater : α := lwrTensionWater - e3
  let additionalImperviousStore : α := additionalImperviousStore - e5
  let e1 : α := e1 * (1 - adimp - pctim)
  let e2 : α := e2 * (1 - adimp - pctim)
  let e3 : α := e3 * (1 - adimp - pctim)
  let e5 : α := e5 * adimp
  (e1, e2, e3, e5, uprTensionWater, uprFreeWater, lwrTensionWater, additionalImperviousStore)

/-- resupply of the lower zone tension water from free water -/
def segB {α : Type} [Num α] (lztwm saved alzfsm alzfpm lwrTensionWater alzfsc alzfpc : α) : α × α × α :=
  let phi7 : α := if lztwm > 0.0 then
      let a : α := lwrTensionWater / lztwm
      (a)
    else
      let a : α := 1.0
      (a)
  let a : α := phi7
  let phi8 : α := if alzfpm + alzfsm - saved + lztwm > 0.0 then
      let b : α := (alzfpc + alzfsc - saved + lwrTensionWater) / (alzfpm + alzfsm - saved + lztwm)
      (b)
    else
      let b : α := 1.0
      (b)
  let b : α := phi8
  let phi10 : α × α × α := if a < b then
      let del : α := (b - a) * lztwm
      let lwrTensionWater : α := lwrTensionWater + del
      let alzfsc : α := alzfsc - del
      let phi9 : α × α := if alzfsc < 0 then
          let alzfpc : α := alzfpc + alzfsc
          let alzfsc : α := 0.0
          (alzfpc, alzfsc)
        else
          (alzfpc, alzfsc)
      let alzfpc : α := phi9.1
      let alzfsc : α := phi9.2
      (lwrTensionWater, alzfsc, alzfpc)
    else
      (lwrTensionWater, alzfsc, alzfpc)
  let lwrTensionWater : α := phi10.1
  let alzfsc : α := phi10.2.1
  let alzfpc : α := phi10.2.2
  (lwrTensionWater, alzfsc, alzfpc)

/-- impervious runoff, filling of the upper zone tension water, number of increments -/
def segC {α : Type} [Num α] (uztwm pctim alzfsm alzfpm pliq uprTensionWater additionalImperviousStore : α) :
    α × α × α × α × α × Int × α × α × α × α × α :=
  let roimp : α := pliq * pctim
  let pav : α := pliq + uprTensionWater - uztwm
  let phi11 : α × α × α := if pav < 0 then
      let additionalImperviousStore : α := additionalImperviousStore + pliq
      let uprTensionWater : α := uprTensionWater + pliq
      let pav : α := 0.0
      (additionalImperviousStore, uprTensionWater, pav)
    else
      let additionalImperviousStore : α := additionalImperviousStore + uztwm - uprTensionWater
      let uprTensionWater : α := uztwm
      (additionalImperviousStore, uprTensionWater, pav)
  let additionalImperviousStore : α := phi11.1
  let uprTensionWater : α := phi11.2.1
  let pav : α := phi11.2.2
  let adj : α := Num.zero
  let itime : Int := 0
  let phi13 : α × Int := if pav ≤ 5.08 then
      let adj : α := 1.0
      let itime : Int := 2
      (adj, itime)
    else
      let phi12 : α := if pav < 25.4 then
          let adj : α := 0.5 * Num.sqrt (pav / 25.4)
          (adj)
        else
          let adj : α := 1.0 - 12.7 / pav
          (adj)
      let adj : α := phi12
      let itime : Int := 1
      (adj, itime)
  let adj : α := phi13.1
  let itime : Int := phi13.2
  let duz : α := Num.zero
  let flobf : α := 0.0
  let flosf : α := 0.0
  let floin : α := 0.0
  let hpl : α := alzfpm / (alzfpm + alzfsm)
  (roimp, additionalImperviousStore, uprTensionWater, pav, adj, itime, duz, flobf, flosf, floin, hpl)

/-- scaling, unit hydrograph, channel losses, baseflow split -/
def segD {α : Type} [Num α] (side ssout pctim adimp sarva evapt : α) (dro qq : List α) (alzfsc alzfpc roimp flobf flosf floin : α) :
    α × α × List α × α × α × α :=
  let flosf : α := flosf * (1.0 - pctim - adimp)
  let floin : α := floin * (1.0 - pctim - adimp)
  let flobf : α := flobf * (1.0 - pctim - adimp)
  let lwrSupplFreeWater : α := alzfsc / (1.0 + side)
  let lwrPrimaryFreeWater : α := alzfpc / (1.0 + side)
  let qq : List α := sliceSet qq 0 (flosf + roimp + floin)
  let flwsf : α := 0.0
  let loop3 : α := forRange 0 5 (loopBody3 qq dro) flwsf
  let flwsf : α := loop3
  let loop4 : List α := forRangeDown 4 0 loopBody4 qq
  let qq : List α := loop4
  let flwbf : α := flobf / (1.0 + side)
  let phi29 : α := if flwbf < 0.0 then
      let flwbf : α := 0.0
      (flwbf)
    else
      (flwbf)
  let flwbf : α := phi29
  let baseflowFraction : α := 0.0
  let qf : α := flwbf + flwsf
  let phi30 : α := if qf > 0.0 then
      let baseflowFraction : α := flwbf / qf
      (baseflowFraction)
    else
      (baseflowFraction)
  let baseflowFraction : α := phi30
  let qf : α := Num.gmax 0.0 (qf - ssout)
  let e4 : α := Num.gmin (evapt * sarva) qf
  let qf : α := qf - e4
  let bf_1 : α := baseflowFraction * qf
  (lwrSupplFreeWater, lwrPrimaryFreeWater, qq, qf, bf_1, e4)

def stepF {α : Type} [Num α] (lzpk lzsk uzk uztwm uzfwm lztwm lzfsm lzfpm pfree rexp zperc side ssout pctim adimp sarva rserv uh1 uh2 uh3 uh4 uh5 : α) (dro : List α) (saved alzfsm alzfpm pbase : α) (uprTensionWater uprFreeWater lwrTensionWater lwrPrimaryFreeWater lwrSupplFreeWater additionalImperviousStore : α) (qq : List α) (alzfsc alzfpc : α) (rainfall pet : α) : (α × α × α × α × α × α × List α × α × α) × (α × α × α × α × α) :=
  let evapt : α := pet
  let pliq : α := rainfall
  let sa := segA uztwm uzfwm lztwm adimp pctim evapt uprTensionWater uprFreeWater lwrTensionWater additionalImperviousStore
  let e1 : α := sa.1
  let e2 : α := sa.2.1
  let e3 : α := sa.2.2.1
  let e5 : α := sa.2.2.2.1
  let uprTensionWater : α := sa.2.2.2.2.1
  let uprFreeWater : α := sa.2.2.2.2.2.1
  let lwrTensionWater : α := sa.2.2.2.2.2.2.1
  let additionalImperviousStore : α := sa.2.2.2.2.2.2.2
  let sb := segB lztwm saved alzfsm alzfpm lwrTensionWater alzfsc alzfpc
  let lwrTensionWater : α := sb.1
  let alzfsc : α := sb.2.1
  let alzfpc : α := sb.2.2
  let sc := segC uztwm pctim alzfsm alzfpm pliq uprTensionWater additionalImperviousStore
  let roimp : α := sc.1
  let additionalImperviousStore : α := sc.2.1
  let uprTensionWater : α := sc.2.2.1
  let pav : α := sc.2.2.2.1
  let adj : α := sc.2.2.2.2.1
  let itime : Int := sc.2.2.2.2.2.1
  let duz : α := sc.2.2.2.2.2.2.1
  let flobf : α := sc.2.2.2.2.2.2.2.1
  let flosf : α := sc.2.2.2.2.2.2.2.2.1
  let floin : α := sc.2.2.2.2.2.2.2.2.2.1
  let hpl : α := sc.2.2.2.2.2.2.2.2.2.2
  let loop2 : α × α × α × α × α × α × α × α × α × α × α × α := forRange itime (2 + 1) (loopBody2 uprTensionWater lzpk lzsk uzk uzfwm lztwm pfree rexp zperc adimp alzfsm alzfpm pbase hpl) (uprFreeWater, lwrTensionWater, additionalImperviousStore, alzfsc, alzfpc, roimp, pav, adj, duz, flobf, flosf, floin)
  let uprFreeWater : α := loop2.1
  let lwrTensionWater : α := loop2.2.1
  let additionalImperviousStore : α := loop2.2.2.1
  let alzfsc : α := loop2.2.2.2.1
  let alzfpc : α := loop2.2.2.2.2.1
  let roimp : α := loop2.2.2.2.2.2.1
  let pav : α := loop2.2.2.2.2.2.2.1
  let adj : α := loop2.2.2.2.2.2.2.2.1
  let duz : α := loop2.2.2.2.2.2.2.2.2.1
  let flobf : α := loop2.2.2.2.2.2.2.2.2.2.1
  let flosf : α := loop2.2.2.2.2.2.2.2.2.2.2.1
  let floin : α := loop2.2.2.2.2.2.2.2.2.2.2.2
  let sd := segD side ssout pctim adimp sarva evapt dro qq alzfsc alzfpc roimp flobf flosf floin
  ((uprTensionWater, uprFreeWater, lwrTensionWater, sd.2.1, sd.1, additionalImperviousStore, sd.2.2.1, alzfsc, alzfpc),
   (e1 + e2 + e3 + sd.2.2.2.2.2 + e5, sd.2.2.2.1, roimp, sd.2.2.2.1 - sd.2.2.2.2.1, sd.2.2.2.2.1))

theorem step_eq_stepF : @step = @stepF := rfl

/-! ### the hand-written step (`Sacramento.step`), cut at the same places -/

variable {α : Type} [Num α]

/-- `Sacramento.step`, evaporation part: (e1, e2, e3, e5, uztwc2, uzfwc2, lztwc1, adimc1) -/
def handA (p : Sacramento.Params α) (st : Sacramento.State α) (evapt : α) : α × α × α × α × α × α × α × α :=
  let e1a := if (0.0 : α) < p.uztwm then evapt * st.uztwc / p.uztwm else 0.0
  let e1b := if st.uztwc < e1a then st.uztwc else e1a
  let uztwc1 := if st.uztwc < e1a then 0.0 else st.uztwc - e1a
  let e2a := if st.uztwc < e1a then Num.gmin (evapt - e1b) st.uzfwc else 0.0
  let uzfwc1 := if st.uztwc < e1a then st.uzfwc - e2a else st.uzfwc
  let a1 := if (0.0 : α) < p.uztwm then uztwc1 / p.uztwm else 1.0
  let b1 := if (0.0 : α) < p.uzfwm then uzfwc1 / p.uzfwm else 1.0
  let a2 := (uztwc1 + uzfwc1) / (p.uztwm + p.uzfwm)
  let uztwc2 := if a1 < b1 then p.uztwm * a2 else uztwc1
  let uzfwc2 := if a1 < b1 then p.uzfwm * a2 else uzfwc1
  let e3a := if (0.0 : α) < p.uztwm + p.lztwm then
      Num.gmin ((evapt - e1b - e2a) * st.lztwc / (p.uztwm + p.lztwm)) st.lztwc else 0.0
  let e5a := if (0.0 : α) < p.uztwm + p.lztwm then
      Num.gmin (e1b + (evapt - e1b - e2a) * (st.adimc - e1b - uztwc2) / (p.uztwm + p.lztwm)) st.adimc else 0.0
  let lztwc1 := st.lztwc - e3a
  let adimc1 := st.adimc - e5a
  let e1 := e1b * (1 - p.adimp - p.pctim)
  let e2 := e2a * (1 - p.adimp - p.pctim)
  let e3 := e3a * (1 - p.adimp - p.pctim)
  let e5 := e5a * p.adimp
  (e1, e2, e3, e5, uztwc2, uzfwc2, lztwc1, adimc1)

/-- resupply part: (lztwc2, alzfsc1, alzfpc1) -/
def handB (p : Sacramento.Params α) (c : Sacramento.Consts α) (lztwc1 alzfsc alzfpc : α) : α × α × α :=
  let a3 := if (0.0 : α) < p.lztwm then lztwc1 / p.lztwm else 1.0
  let b3 := if (0.0 : α) < c.alzfpm + c.alzfsm - c.saved + p.lztwm then
      (alzfpc + alzfsc - c.saved + lztwc1) / (c.alzfpm + c.alzfsm - c.saved + p.lztwm) else 1.0
  let del := (b3 - a3) * p.lztwm
  let lztwc2 := if a3 < b3 then lztwc1 + del else lztwc1
  let alzfsc0 := if a3 < b3 then alzfsc - del else alzfsc
  let alzfpc1 := if a3 < b3 then (if alzfsc0 < 0 then alzfpc + alzfsc0 else alzfpc) else alzfpc
  let alzfsc1 := if a3 < b3 then (if alzfsc0 < 0 then 0.0 else alzfsc0) else alzfsc0
  (lztwc2, alzfsc1, alzfpc1)

/-- filling part: (roimp0, adimc2, uztwc3, pav, adj, itime) -/
def handC (p : Sacramento.Params α) (pliq uztwc2 adimc1 : α) : α × α × α × α × α × Int :=
  let roimp0 := pliq * p.pctim
  let pav0 := pliq + uztwc2 - p.uztwm
  let adimc2 := if pav0 < 0 then adimc1 + pliq else adimc1 + p.uztwm - uztwc2
  let uztwc3 := if pav0 < 0 then uztwc2 + pliq else p.uztwm
  let pav := if pav0 < 0 then 0.0 else pav0
  let adj := if pav ≤ 5.08 then 1.0
             else if pav < 25.4 then 0.5 * Num.sqrt (pav / 25.4) else 1.0 - 12.7 / pav
  (roimp0, adimc2, uztwc3, pav, adj, if pav ≤ 5.08 then 2 else 1)

/-- case analysis on every `if`, then definitional equality -/
macro "splitAll" : tactic => `(tactic|
  ((try dsimp only) <;> (repeat' (split <;> rename_i h <;> (try simp only [h, ↓reduceIte]))) <;> (first | rfl | simp_all)))

theorem segA_eq (p : Sacramento.Params α) (st : Sacramento.State α) (evapt : α) :
    segA p.uztwm p.uzfwm p.lztwm p.adimp p.pctim evapt st.uztwc st.uzfwc st.lztwc st.adimc = handA p st evapt := by
  unfold segA handA
  simp only [apply_ite Prod.fst, apply_ite Prod.snd, gt_iff_lt]
  try (refine Prod.ext ?_ (Prod.ext ?_ (Prod.ext ?_ (Prod.ext ?_ (Prod.ext ?_ (Prod.ext ?_ (Prod.ext ?_ ?_)))))) <;>
    first | rfl | splitAll)

theorem segB_eq (p : Sacramento.Params α) (c : Sacramento.Consts α) (lztwc1 alzfsc alzfpc : α) :
    segB p.lztwm c.saved c.alzfsm c.alzfpm lztwc1 alzfsc alzfpc = handB p c lztwc1 alzfsc alzfpc := by
  unfold segB handB
  simp only [apply_ite Prod.fst, apply_ite Prod.snd, gt_iff_lt]
  try (refine Prod.ext ?_ (Prod.ext ?_ ?_) <;> first | rfl | splitAll)

theorem segC_eq (p : Sacramento.Params α) (c : Sacramento.Consts α) (pliq uztwc2 adimc1 : α) :
    segC p.uztwm p.pctim c.alzfsm c.alzfpm pliq uztwc2 adimc1 =
      (let h := handC p pliq uztwc2 adimc1
       (h.1, h.2.1, h.2.2.1, h.2.2.2.1, h.2.2.2.2.1, h.2.2.2.2.2, Num.zero, 0.0, 0.0, 0.0, c.alzfpm / (c.alzfpm + c.alzfsm))) := by
  unfold segC handC
  simp only [apply_ite Prod.fst, apply_ite Prod.snd, gt_iff_lt]
  try (refine Prod.ext ?_ (Prod.ext ?_ (Prod.ext ?_ (Prod.ext ?_ (Prod.ext ?_ (Prod.ext ?_ ?_))))) <;> first | rfl | splitAll)

open OW.Kernels

set_option maxHeartbeats 2000000 in
theorem mid_incBody {α} [Num α] (p : Sacramento.Params α) (c : Sacramento.Consts α)
    (uztwc pinc dinc duz dlzp dlzs hpl pav : α) (v : Sacramento.Inner α) (inc : Int) :
    (let r := loopBody1 uztwc p.uzfwm p.lztwm p.pfree p.rexp p.zperc p.adimp c.alzfsm c.alzfpm c.pbase duz hpl dinc
        pinc dlzp dlzs inc (v.uzfwc, v.lztwc, v.adimc, v.alzfsc, v.alzfpc, v.roimp, pav, v.flobf, v.flosf, v.floin)
     (r.1, r.2.1, r.2.2.1, r.2.2.2.1, r.2.2.2.2.1, r.2.2.2.2.2.1, r.2.2.2.2.2.2.2.1, r.2.2.2.2.2.2.2.2.1, r.2.2.2.2.2.2.2.2.2)) =
    (let h := Sacramento.incBody p c uztwc pinc dinc duz dlzp dlzs hpl v
     (h.uzfwc, h.lztwc, h.adimc, h.alzfsc, h.alzfpc, h.roimp, h.flobf, h.flosf, h.floin)) := by
  unfold loopBody1 Sacramento.incBody
  simp only [apply_ite Prod.fst, apply_ite Prod.snd, gt_iff_lt]
  by_cases h1 : (0.0 : α) < v.alzfpc <;> by_cases h2 : (0.0 : α) < v.alzfsc <;> by_cases h3 : (0.0 : α) < v.uzfwc <;>
    by_cases h4 : (0.0 : α) < pinc <;> simp only [h1, h2, h3, h4, ↓reduceIte] <;>
    (try (refine Prod.ext ?_ (Prod.ext ?_ (Prod.ext ?_ (Prod.ext ?_ (Prod.ext ?_ (Prod.ext ?_ (Prod.ext ?_ (Prod.ext ?_ ?_))))))) <;>
      first | rfl | splitAll))

/-- the values the drainage loop carries, in the order of the regenerated tuple; `pav` is a scratch variable of the code
(assigned inside the loop body before it is read), not part of the hand model's record -/
def sacCarried {α} (v : Sacramento.Inner α) (pav : α) : α × α × α × α × α × α × α × α × α × α :=
  (v.uzfwc, v.lztwc, v.adimc, v.alzfsc, v.alzfpc, v.roimp, pav, v.flobf, v.flosf, v.floin)

theorem mid_incBody' {α} [Num α] (p : Sacramento.Params α) (c : Sacramento.Consts α)
    (uztwc pinc dinc duz dlzp dlzs hpl pav : α) (v : Sacramento.Inner α) (inc : Int) :
    ∃ pav', loopBody1 uztwc p.uzfwm p.lztwm p.pfree p.rexp p.zperc p.adimp c.alzfsm c.alzfpm c.pbase duz hpl dinc
        pinc dlzp dlzs inc (sacCarried v pav) =
      sacCarried (Sacramento.incBody p c uztwc pinc dinc duz dlzp dlzs hpl v) pav' := by
  have h := mid_incBody p c uztwc pinc dinc duz dlzp dlzs hpl pav v inc
  simp only [Prod.mk.injEq] at h
  obtain ⟨h1, h2, h3, h4, h5, h6, h7, h8, h9⟩ := h
  refine ⟨(loopBody1 uztwc p.uzfwm p.lztwm p.pfree p.rexp p.zperc p.adimp c.alzfsm c.alzfpm c.pbase duz hpl dinc
        pinc dlzp dlzs inc (sacCarried v pav)).2.2.2.2.2.2.1, ?_⟩
  unfold sacCarried at *
  exact Prod.ext h1 (Prod.ext h2 (Prod.ext h3 (Prod.ext h4 (Prod.ext h5 (Prod.ext h6 (Prod.ext rfl (Prod.ext h7 (Prod.ext h8 h9))))))))

/-- the drainage and percolation loop `for inc := 1; inc <= ninc; inc++` = `Sacramento.incLoop` -/
theorem mid_incLoop {α} [Num α] (p : Sacramento.Params α) (c : Sacramento.Consts α)
    (uztwc pinc dinc duz dlzp dlzs hpl : α) :
    ∀ (n : Nat) (i : Int) (v : Sacramento.Inner α) (pav : α),
      ∃ pav', forRangeN (loopBody1 uztwc p.uzfwm p.lztwm p.pfree p.rexp p.zperc p.adimp c.alzfsm c.alzfpm c.pbase
          duz hpl dinc pinc dlzp dlzs) n i (sacCarried v pav) =
        sacCarried (Sacramento.incLoop p c uztwc pinc dinc duz dlzp dlzs hpl n v) pav' := by
  intro n
  induction n with
  | zero => intro i v pav; exact ⟨pav, rfl⟩
  | succ n ih =>
    intro i v pav
    obtain ⟨pav1, h1⟩ := mid_incBody' p c uztwc pinc dinc duz dlzp dlzs hpl pav v i
    obtain ⟨pav2, h2⟩ := ih (i + 1) (Sacramento.incBody p c uztwc pinc dinc duz dlzp dlzs hpl v) pav1
    exact ⟨pav2, by rw [forRangeN, h1, h2]; rfl⟩

/-- the values the loop over `ii` carries, in the order of the regenerated tuple (`pav`, `adj` are its arguments in the
hand model; `duz` is declared outside the loop by the code and recomputed in every pass) -/
def sacCarried2 {α} (v : Sacramento.Inner α) (pav adj duz : α) : α × α × α × α × α × α × α × α × α × α × α × α :=
  (v.uzfwc, v.lztwc, v.adimc, v.alzfsc, v.alzfpc, v.roimp, pav, adj, duz, v.flobf, v.flosf, v.floin)

/-- one pass of `for ii := itime; ii <= 2; ii++` = `Sacramento.iiBody`; afterwards `adj = 1 - adj`, `pav = 0` -/
theorem mid_iiBody {α} [Num α] (p : Sacramento.Params α) (c : Sacramento.Consts α)
    (uztwc hpl adj pav duz0 : α) (v : Sacramento.Inner α) (ii : Int) :
    ∃ duz', loopBody2 uztwc p.lzpk p.lzsk p.uzk p.uzfwm p.lztwm p.pfree p.rexp p.zperc p.adimp c.alzfsm c.alzfpm c.pbase
        hpl ii (sacCarried2 v pav adj duz0) =
      sacCarried2 (Sacramento.iiBody p c uztwc hpl adj pav v) 0.0 (1.0 - adj) duz' := by
  unfold loopBody2 Sacramento.iiBody Sacramento.fracRate sacCarried2
  dsimp only
  generalize Num.toInt (Num.floor ((v.uzfwc * adj + pav) * 0.2)) + 1 = ninc
  have hcnt : (ninc + 1 - 1).toNat = ninc.toNat := by omega
  unfold forRange
  rw [hcnt]
  have hge : ∀ a b : α, (a ≥ b) = (b ≤ a) := fun _ _ => rfl
  simp only [hge]
  by_cases hc : ninc = 1 ∧ (1.0 : α) ≤ adj
  · have hb : (decide (ninc = 1) && decide ((1.0 : α) ≤ adj)) = true := by simp [hc.1, hc.2]
    simp only [hb, if_pos hc, ↓reduceIte]
    obtain ⟨pav', h⟩ := mid_incLoop p c uztwc (pav * (1.0 / Num.ofInt ninc)) (1.0 / Num.ofInt ninc * adj)
      p.uzk p.lzpk p.lzsk hpl ninc.toNat 1
      { v with tags := v.tags ++ ["rates_direct"] ++ (if ninc = 1 then ["ninc=1"] else if ninc ≤ 0 then ["ninc<=0"] else ["ninc>1"]) } pav
    unfold sacCarried at h
    dsimp only at h
    refine ⟨p.uzk, ?_⟩
    rw [h]
  · have hb : (decide (ninc = 1) && decide ((1.0 : α) ≤ adj)) = false := by
      cases hd : (decide (ninc = 1) && decide ((1.0 : α) ≤ adj)) with
      | false => rfl
      | true => simp only [Bool.and_eq_true, decide_eq_true_eq] at hd; exact absurd hd hc
    simp only [hb, if_neg hc, Bool.false_eq_true, ↓reduceIte]
    obtain ⟨pav', h⟩ := mid_incLoop p c uztwc (pav * (1.0 / Num.ofInt ninc)) (1.0 / Num.ofInt ninc * adj)
      (if p.uzk < 1.0 then 1.0 - Num.pow (1.0 - p.uzk) (1.0 / Num.ofInt ninc * adj) else 1.0)
      (if p.lzpk < 1.0 then 1.0 - Num.pow (1.0 - p.lzpk) (1.0 / Num.ofInt ninc * adj) else 1.0)
      (if p.lzsk < 1.0 then 1.0 - Num.pow (1.0 - p.lzsk) (1.0 / Num.ofInt ninc * adj) else 1.0) hpl ninc.toNat 1
      { v with tags := v.tags ++ ["rates_pow"] ++ (if ninc = 1 then ["ninc=1"] else if ninc ≤ 0 then ["ninc<=0"] else ["ninc>1"]) } pav
    unfold sacCarried at h
    dsimp only at h
    refine ⟨(if p.uzk < 1.0 then 1.0 - Num.pow (1.0 - p.uzk) (1.0 / Num.ofInt ninc * adj) else 1.0), ?_⟩
    rw [h]



end OW.Kernels.SacramentoMid
