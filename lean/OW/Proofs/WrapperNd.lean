import OW.Sim.WrapperNd
import OW.Props.C01
import OW.Props.C02
/-!
Helper lemmas for C04Nd (the template's view algebra on root arrays): derived from the C01/C02 theorems about the
n-d array model.

* `RootOn h a D` — `a` is a Go-backed root array of shape `D` satisfying the window conditions;
* `slice_reshape_alias` — an in-bounds, dense slice of a Go-backed reachable array followed by `MustReshape`
  never panics, never copies, and returns the re-based alias `aliasArr`;
* `flat sid base n` — the 1-D view all of the template's per-cell views turn out to be; its `Get1`/`Set1`.
-/
namespace OW.WrapperNd
open OW OW.Nd OW.Sim.WrapperNd

section
variable {α : Type}

/-- `a` is a Go-backed ROOT array of shape `D` (non-empty, extents ≥ 1) whose `Impl` window lies inside an existing
storage and holds `Π D` elements — what `arrayFromSlice` / `NewArray` return (`rootOn_fromStore`), and what
`MustReshape` of a contiguous Go-backed view returns. -/
structure RootOn (h : Heap α) (a : Arr) (D : Idx) : Prop where
  view : a.v = rootView D 0
  go : a.isC = false
  ok : ArrOK h a
  pos : Pos D
  ne : D ≠ []

theorem RootOn.reach {h : Heap α} {a : Arr} {D : Idx} (r : RootOn h a D) : Reach a.v := by
  rw [r.view]; exact NdC02.reach_rootView r.ne r.pos

theorem RootOn.sameShape {h h' : Heap α} {a : Arr} {D : Idx} (r : RootOn h a D) (s : SameShape h h') :
    RootOn h' a D := ⟨r.view, r.go, r.ok.sameShape s, r.pos, r.ne⟩

/-- `arrayFromSlice(data, D)` on an existing storage of at least `Π D` elements is such a root, with `base = 0` -/
theorem rootOn_fromStore {h : Heap α} {sid : Nat} {st : List α} {D : Idx} (hne : D ≠ []) (hpos : Pos D)
    (hs : h[sid]? = some st) (hf : product D ≤ st.length) :
    ∃ a, fromStore h sid D = .ok a ∧ RootOn h a D ∧ a.sid = sid ∧ a.base = 0 := by
  refine ⟨⟨rootView D 0, sid, 0, st.length, false⟩, ?_, ⟨rfl, rfl, ?_, hpos, hne⟩, rfl, rfl⟩
  · simp [fromStore, storeOf, hs, root_eq D 0 hne, bind, Except.bind, pure, Except.pure]
  · exact ⟨⟨st, hs, by simp⟩, by simp, hf, by simp⟩

/-- `NewArray(D)` is such a root on a NEW storage (number `h.length`), with `base = 0` -/
theorem rootOn_newArray (zero : α) (h : Heap α) {D : Idx} (hne : D ≠ []) (hpos : Pos D) :
    ∃ a, newArray zero h D = .ok (h ++ [List.replicate (product D).toNat zero], a) ∧
      RootOn (h ++ [List.replicate (product D).toNat zero]) a D ∧ a.sid = h.length ∧ a.base = 0 := by
  have hp := product_pos hpos
  obtain ⟨a, ha, r, hsid, hb⟩ := rootOn_fromStore (h := h ++ [List.replicate (product D).toNat zero])
    (sid := h.length) (st := List.replicate (product D).toNat zero) hne hpos (by simp) (by simp)
  refine ⟨a, ?_, r, hsid, hb⟩
  unfold newArray
  simp only [alloc, bind, Except.bind, pure, Except.pure]
  rw [if_neg (by omega), ha]

/-- **slice_reshape_alias.** For a Go-backed reachable array satisfying the window conditions, an in-bounds slice
request whose result is dense (`NdC02.Dense`: every dimension with more than one element has step 1 and all later
dimensions are taken whole) followed by `MustReshape(s)` (`Π s` = element count, extents ≥ 1): neither operation
panics; the slice is contiguous; `MustReshape` returns the heap unchanged and the ALIAS `aliasArr b s` (same storage,
`Impl` re-based to `base + Start`, length = element count), which is again a Go-backed root satisfying the window
conditions. -/
theorem slice_reshape_alias {h : Heap α} {a : Arr} (hr : Reach a.v) (ok : ArrOK h a) (hgo : a.isC = false)
    {loc dims s : Idx} {step : Option Idx}
    (okS : SliceOK a.v.dims loc dims (stepOr a.v.dims.length step))
    (hD : NdC02.Dense dims a.v.orig (mulL a.v.step (stepOr a.v.dims.length step)))
    (hs : s ≠ []) (hp : Pos s) (hsz : product s = product dims) :
    slice a loc dims step = .ok { a with v := sliceView a.v loc dims step } ∧
      Reach (sliceView a.v loc dims step) ∧
      (sliceView a.v loc dims step).contiguous = .ok true ∧
      mustReshape h { a with v := sliceView a.v loc dims step } s =
        .ok (h, NdC02.aliasArr { a with v := sliceView a.v loc dims step } s) ∧
      RootOn h (NdC02.aliasArr { a with v := sliceView a.v loc dims step } s) s := by
  have g := reach_geo hr
  obtain ⟨hl, _, hst⟩ := okS.lengths
  have hsl := sliceInto_eq g loc dims step hl hst
  have hslice : slice a loc dims step = .ok { a with v := sliceView a.v loc dims step } := by
    simp [slice, hsl, bind, Except.bind, pure, Except.pure]
  have hrb : Reach (sliceView a.v loc dims step) := .slice hr okS hsl
  have okb : ArrOK h ({ a with v := sliceView a.v loc dims step } : Arr) := ok.slice hslice
  have hc : (sliceView a.v loc dims step).contiguous = .ok true := (Props.C02.contiguous_dense hrb).1 hD
  have hre := NdC02.reshape_go_alias (h := h) (a := { a with v := sliceView a.v loc dims step })
    (reach_geo hrb) okb hs (by simpa [View.size, sliceView] using hsz) hc hgo
  refine ⟨hslice, hrb, hc, ?_, ⟨rfl, rfl, ?_, hp, hs⟩⟩
  · exact (Props.C02.mustReshape_spec h _ s).1 _ _ hre
  · exact NdC02.arrOK_alias (reach_geo hrb) okb hc (by simpa [View.size, sliceView] using hsz)

/-! ### the 1-D views -/

/-- the 1-D Go-backed root view on the window `[base, base+n)` of storage `sid`: `Impl = storage[base : base+n]` -/
def flat (sid : Nat) (base n : Int) : Arr := ⟨rootView [n] 0, sid, base, n, false⟩

theorem flat_index (n t : Int) : (rootView [n] 0).index [t] = .ok t := by
  simp [View.index, View.indexAux, rootView, offsetsT, bind, Except.bind, pure, Except.pure]

theorem rootOn_flat {h : Heap α} {sid : Nat} {base n : Int} {st : List α} (hs : h[sid]? = some st) (hb : 0 ≤ base)
    (hn : 1 ≤ n) (hf : base + n ≤ st.length) : RootOn h (flat sid base n) [n] :=
  ⟨rfl, rfl, ⟨⟨st, hs, hf⟩, hb, by simp [flat, rootView, product], by simp [flat]⟩, by simp [Pos]; exact hn, by simp⟩

/-- `Get`/`Get1` through a flat view at `0 ≤ t < n` read storage position `base + t`; outside `[0, n)` they panic -/
theorem flat_get {h : Heap α} {sid : Nat} {base n : Int} {st : List α} (hs : h[sid]? = some st) (hb : 0 ≤ base)
    (hf : base + n ≤ st.length) {t : Int} (h0 : 0 ≤ t) (hlt : t < n) :
    ∃ x, st[(base + t).toNat]? = some x ∧ get h (flat sid base n) [t] = .ok x ∧ get1 h (flat sid base n) t = .ok x := by
  have hlt' : (base + t).toNat < st.length := by omega
  have hg : Nd.get h (flat sid base n) [t] = .ok st[(base + t).toNat] := by
    unfold Nd.get
    rw [show (flat sid base n).v.index [t] = .ok t from flat_index n t]
    simp [flat, readAt, storeOf, hs, h0, hlt, List.getElem?_eq_getElem hlt', bind, Except.bind, pure, Except.pure]
  refine ⟨st[(base + t).toNat], List.getElem?_eq_getElem hlt', hg, ?_⟩
  unfold get1
  rw [if_pos (by simp [flat, rootView])]
  exact hg

theorem flat_get_oob {h : Heap α} {sid : Nat} {base n : Int} {st : List α} (hs : h[sid]? = some st)
    {t : Int} (ht : t < 0 ∨ n ≤ t) : get1 h (flat sid base n) t = .error "index-out-of-range" := by
  have : ¬ (0 ≤ t ∧ t < n) := by omega
  unfold get1
  rw [if_pos (by simp [flat, rootView])]
  unfold Nd.get
  rw [show (flat sid base n).v.index [t] = .ok t from flat_index n t]
  simp [flat, readAt, storeOf, hs, this, bind, Except.bind, oob]

/-- `Set1(t, x)` through a flat view at `0 ≤ t < n` is exactly the update of storage position `base + t` -/
theorem flat_set1 {h : Heap α} {sid : Nat} {base n : Int} {st : List α} (hs : h[sid]? = some st)
    {t : Int} (h0 : 0 ≤ t) (hlt : t < n) (x : α) :
    set1 h (flat sid base n) t x = .ok (setStore h sid (base + t).toNat x) := by
  unfold set1 Nd.set
  rw [show (flat sid base n).v.index [t] = .ok t from flat_index n t]
  simp [flat, writeAt, storeOf, hs, h0, hlt, bind, Except.bind, pure, Except.pure]

/-- … and outside `[0, n)` it panics (the re-based `Impl` has length `n`): a kernel cannot write past the view -/
theorem flat_set1_oob {h : Heap α} {sid : Nat} {base n : Int} {st : List α} (hs : h[sid]? = some st)
    {t : Int} (ht : t < 0 ∨ n ≤ t) (x : α) : set1 h (flat sid base n) t x = .error "index-out-of-range" := by
  have : ¬ (0 ≤ t ∧ t < n) := by omega
  unfold set1 Nd.set
  rw [show (flat sid base n).v.index [t] = .ok t from flat_index n t]
  simp [flat, writeAt, storeOf, hs, this, bind, Except.bind, oob]

/-! ### root arrays: element access by row-major rank -/

/-- `Get` on a root at an in-bounds index reads storage position `base + ravel idx D` (row-major rank) -/
theorem RootOn.get {h : Heap α} {a : Arr} {D : Idx} (r : RootOn h a D) {idx : Idx} (hi : InBounds idx D) :
    ∃ x, cell h a.sid (a.base + ravel idx D).toNat = some x ∧ Nd.get h a idx = .ok x ∧
      0 ≤ ravel idx D ∧ ravel idx D < product D := by
  have hi' : InBounds idx a.v.dims := by rw [r.view]; exact hi
  obtain ⟨p, x, hp, _, _, hc, hg⟩ := Props.C01.get_reads_cell r.reach r.ok hi'
  rw [r.view, NdC02.rootView_index D 0 idx hi.length] at hp
  injection hp with hp
  subst hp
  rw [Int.zero_add] at hc
  exact ⟨x, hc, hg, ravel_bounds hi⟩

/-! ### closed forms of the template's views on root arrays -/

/-- the 2-D Go-backed root view on the window `[base, base + r·c)` of storage `sid` -/
def flat2 (sid : Nat) (base r c : Int) : Arr := ⟨rootView [r, c] 0, sid, base, r * c, false⟩

theorem pos2 {a b : Int} (h : Pos [a, b]) : 1 ≤ a ∧ 1 ≤ b := ⟨h a (by simp), h b (by simp)⟩
theorem pos3 {a b c : Int} (h : Pos [a, b, c]) : 1 ≤ a ∧ 1 ≤ b ∧ 1 ≤ c := ⟨h a (by simp), h b (by simp), h c (by simp)⟩

/-- **state view.** `states.Slice([i,0],[1,nS],nil).MustReshape([nS])` on a root `[N, nS]`, `0 ≤ i < N`: no panic, the
slice is contiguous, no copy; the result is the flat view on the window `[base + i·nS, base + i·nS + nS)` of the
states storage. -/
theorem stateView_eq {h : Heap α} {states : Arr} {N nS i : Int} (r : RootOn h states [N, nS])
    (hi0 : 0 ≤ i) (hi : i < N) :
    stateView h states i nS = .ok (h, flat states.sid (states.base + i * nS) nS) ∧
      (sliceView states.v [i, 0] [1, nS] none).contiguous = .ok true ∧
      RootOn h (flat states.sid (states.base + i * nS) nS) [nS] := by
  obtain ⟨_, hnS⟩ := pos2 r.pos
  have okS : SliceOK states.v.dims [i, 0] [1, nS] (stepOr states.v.dims.length none) := by
    rw [r.view]; simp [rootView, stepOr, uniform]; omega
  have hD : NdC02.Dense [1, nS] states.v.orig (mulL states.v.step (stepOr states.v.dims.length none)) := by
    rw [r.view]; simp [rootView, stepOr, uniform, NdC02.Dense]
  obtain ⟨h1, _, h3, h4, h5⟩ := slice_reshape_alias (h := h) (s := [nS]) r.reach r.ok r.go okS hD (by simp)
    (by simp [Pos]; exact hnS) (by simp [product])
  have e : NdC02.aliasArr { states with v := sliceView states.v [i, 0] [1, nS] none } [nS] =
      flat states.sid (states.base + i * nS) nS := by
    simp [NdC02.aliasArr, flat, sliceView, View.size, product, r.view, rootView, offsetsT]
  rw [e] at h4 h5
  refine ⟨?_, h3, h5⟩
  unfold stateView
  simp only [h1, h4, bind, Except.bind]

theorem goMod_eq {i n : Int} (hi : 0 ≤ i) (hn : 1 ≤ n) : goMod i n = .ok (i % n) := by
  unfold goMod
  rw [if_neg (by omega), Int.tmod_eq_emod_of_nonneg hi]

/-- **cell inputs.** `inputs.Slice([i % nIn,0,0],[1,nI,T],nil).MustReshape([nI,T])` on a root `[nIn, nI, T]`, `0 ≤ i`:
no panic, contiguous, no copy; the result is the 2-D root view on the window of block `i % nIn`. -/
theorem cellInputs_eq {h : Heap α} {inputs : Arr} {nIn nI T i : Int} (r : RootOn h inputs [nIn, nI, T])
    (hi0 : 0 ≤ i) :
    cellInputs h inputs i nIn nI T = .ok (h, flat2 inputs.sid (inputs.base + (i % nIn) * (nI * T)) nI T) ∧
      (sliceView inputs.v [i % nIn, 0, 0] [1, nI, T] none).contiguous = .ok true ∧
      RootOn h (flat2 inputs.sid (inputs.base + (i % nIn) * (nI * T)) nI T) [nI, T] := by
  obtain ⟨hnIn, hnI, hT⟩ := pos3 r.pos
  have hc0 : 0 ≤ i % nIn := Int.emod_nonneg _ (by omega)
  have hc1 : i % nIn < nIn := Int.emod_lt_of_pos _ (by omega)
  have okS : SliceOK inputs.v.dims [i % nIn, 0, 0] [1, nI, T] (stepOr inputs.v.dims.length none) := by
    rw [r.view]; simp [rootView, stepOr, uniform]; omega
  have hD : NdC02.Dense [1, nI, T] inputs.v.orig (mulL inputs.v.step (stepOr inputs.v.dims.length none)) := by
    rw [r.view]; simp [rootView, stepOr, uniform, NdC02.Dense]
  obtain ⟨h1, _, h3, h4, h5⟩ := slice_reshape_alias (h := h) (s := [nI, T]) r.reach r.ok r.go okS hD (by simp)
    (by simp [Pos]; exact ⟨hnI, hT⟩) (by simp [product])
  have e : NdC02.aliasArr { inputs with v := sliceView inputs.v [i % nIn, 0, 0] [1, nI, T] none } [nI, T] =
      flat2 inputs.sid (inputs.base + (i % nIn) * (nI * T)) nI T := by
    simp [NdC02.aliasArr, flat2, sliceView, View.size, product, r.view, rootView, offsetsT]
    first | ring1 | (left; ring1)
  rw [e] at h4 h5
  refine ⟨?_, h3, h5⟩
  unfold cellInputs
  simp only [goMod_eq hi0 hnIn, h1, h4, bind, Except.bind]

/-- **input series.** `cellInputs.Slice([k,0],[1,T],nil).MustReshape([T])` on a root `[nI, T]`, `0 ≤ k < nI` -/
theorem inputOf_eq {h : Heap α} {ci : Arr} {nI T k : Int} (r : RootOn h ci [nI, T]) (hk0 : 0 ≤ k) (hk : k < nI) :
    inputOf h ci k T = .ok (h, flat ci.sid (ci.base + k * T) T) ∧
      (sliceView ci.v [k, 0] [1, T] none).contiguous = .ok true ∧
      RootOn h (flat ci.sid (ci.base + k * T) T) [T] := by
  have := stateView_eq r hk0 hk
  exact this

/-- **input view.** the two-level chain: the `k`-th series of block `i % nIn` -/
theorem inputView_eq {h : Heap α} {inputs : Arr} {nIn nI T i k : Int} (r : RootOn h inputs [nIn, nI, T])
    (hi0 : 0 ≤ i) (hk0 : 0 ≤ k) (hk : k < nI) :
    inputView h inputs i k nIn nI T = .ok (h, flat inputs.sid (inputs.base + ((i % nIn) * nI + k) * T) T) ∧
      RootOn h (flat inputs.sid (inputs.base + ((i % nIn) * nI + k) * T) T) [T] := by
  obtain ⟨h1, _, h3⟩ := cellInputs_eq r hi0
  obtain ⟨h4, _, h5⟩ := inputOf_eq h3 hk0 hk
  have e : flat (flat2 inputs.sid (inputs.base + (i % nIn) * (nI * T)) nI T).sid
      ((flat2 inputs.sid (inputs.base + (i % nIn) * (nI * T)) nI T).base + k * T) T =
      flat inputs.sid (inputs.base + ((i % nIn) * nI + k) * T) T := by
    simp [flat2, flat]
    ring
  rw [e] at h4 h5
  refine ⟨?_, h5⟩
  unfold inputView
  simp only [h1, bind, Except.bind, h4]

/-- **output view.** `outputs.Slice([i,o,0],[1,1,T],[1,1,1]).MustReshape([T])` on a root `[M, nO, T']` with `T ≤ T'`
(an oversized array): no panic, the slice — the first `T` elements of one row — is contiguous, no copy; the result
is the flat view on the window `[base + (i·nO + o)·T', … + T)` of the outputs storage. -/
theorem outputView_eq {h : Heap α} {outputs : Arr} {M nO T' T i o : Int} (r : RootOn h outputs [M, nO, T'])
    (hi0 : 0 ≤ i) (hi : i < M) (ho0 : 0 ≤ o) (ho : o < nO) (hT0 : 1 ≤ T) (hT : T ≤ T') :
    outputView h outputs i o T = .ok (h, flat outputs.sid (outputs.base + (i * nO + o) * T') T) ∧
      (sliceView outputs.v [i, o, 0] [1, 1, T] (some [1, 1, 1])).contiguous = .ok true ∧
      RootOn h (flat outputs.sid (outputs.base + (i * nO + o) * T') T) [T] := by
  have okS : SliceOK outputs.v.dims [i, o, 0] [1, 1, T] (stepOr outputs.v.dims.length (some [1, 1, 1])) := by
    rw [r.view]; simp [rootView, stepOr]; omega
  have hD : NdC02.Dense [1, 1, T] outputs.v.orig (mulL outputs.v.step (stepOr outputs.v.dims.length (some [1, 1, 1]))) := by
    rw [r.view]; simp [rootView, stepOr, uniform, NdC02.Dense]
  obtain ⟨h1, _, h3, h4, h5⟩ := slice_reshape_alias (h := h) (s := [T]) r.reach r.ok r.go okS hD (by simp)
    (by simp [Pos]; exact hT0) (by simp [product])
  have e : NdC02.aliasArr { outputs with v := sliceView outputs.v [i, o, 0] [1, 1, T] (some [1, 1, 1]) } [T] =
      flat outputs.sid (outputs.base + (i * nO + o) * T') T := by
    simp [NdC02.aliasArr, flat, sliceView, View.size, product, r.view, rootView, offsetsT]
    ring
  rw [e] at h4 h5
  refine ⟨?_, h3, h5⟩
  unfold outputView
  simp only [h1, h4, bind, Except.bind]

/-! ### flat views under the window conditions, in terms of storage cells -/

theorem RootOn.flat_store {h : Heap α} {sid : Nat} {base n : Int} (r : RootOn h (flat sid base n) [n]) :
    ∃ st, h[sid]? = some st ∧ 0 ≤ base ∧ base + n ≤ st.length ∧ 1 ≤ n := by
  obtain ⟨st, hs, hl⟩ := r.ok.store
  exact ⟨st, hs, r.ok.base_nonneg, hl, r.pos n (by simp)⟩

/-- reading element `t` of a flat view reads storage cell `base + t` -/
theorem RootOn.flat_get {h : Heap α} {sid : Nat} {base n : Int} (r : RootOn h (flat sid base n) [n])
    {t : Int} (h0 : 0 ≤ t) (hlt : t < n) :
    ∃ x, cell h sid (base + t).toNat = some x ∧ Nd.get h (flat sid base n) [t] = .ok x ∧
      get1 h (flat sid base n) t = .ok x := by
  obtain ⟨st, hs, hb, hl, _⟩ := r.flat_store
  obtain ⟨x, hx, h1, h2⟩ := OW.WrapperNd.flat_get hs hb hl h0 hlt
  exact ⟨x, by simp [cell, hs, hx], h1, h2⟩

/-- `Set1(t, x)` through a flat view changes exactly storage cell `base + t` (an existing cell) -/
theorem RootOn.flat_set1 {h : Heap α} {sid : Nat} {base n : Int} (r : RootOn h (flat sid base n) [n])
    {t : Int} (h0 : 0 ≤ t) (hlt : t < n) (x : α) :
    set1 h (flat sid base n) t x = .ok (setStore h sid (base + t).toNat x) ∧
      cell (setStore h sid (base + t).toNat x) sid (base + t).toNat = some x ∧
      (∀ u q : Nat, (u ≠ sid ∨ q ≠ (base + t).toNat) → cell (setStore h sid (base + t).toNat x) u q = cell h u q) ∧
      SameShape h (setStore h sid (base + t).toNat x) := by
  obtain ⟨st, hs, hb, hl, _⟩ := r.flat_store
  obtain ⟨y, hy, _, _⟩ := r.flat_get h0 hlt
  refine ⟨OW.WrapperNd.flat_set1 hs h0 hlt x, ?_, ?_, sameShape_setStore _ _ _ _⟩
  · rw [cell_setStore, if_pos ⟨rfl, rfl⟩, hy]; rfl
  · intro u q hne
    rw [cell_setStore, if_neg (by intro ⟨e1, e2⟩; rcases hne with e | e <;> contradiction)]

/-! ### parameters -/

theorem len_rootView {a : Arr} {D : Idx} (hv : a.v = rootView D 0) {k : Nat} {d : Int} (hd : D[k]? = some d) :
    a.v.len k = .ok d := by simp [View.len, hv, rootView, hd]

/-- **scalar parameter view** of `ApplyParameters`: row `row` of a root `[rows, nSets]` as a flat view -/
theorem paramView_scalar_eq {h : Heap α} {parameters : Arr} {rows nSets row : Int}
    (r : RootOn h parameters [rows, nSets]) (h0 : 0 ≤ row) (h1 : row < rows) :
    paramView h parameters row 1 [nSets] =
        .ok (h, flat parameters.sid (parameters.base + row * nSets) nSets) ∧
      (sliceView parameters.v [row, 0] [1, nSets] none).contiguous = .ok true ∧
      RootOn h (flat parameters.sid (parameters.base + row * nSets) nSets) [nSets] := by
  obtain ⟨e, hc, hr⟩ := stateView_eq r h0 h1
  refine ⟨?_, hc, hr⟩
  unfold paramView
  simp only [len_rootView r.view (k := 1) (d := nSets) rfl, bind, Except.bind]
  exact e

/-- **table parameter view** of `ApplyParameters`: rows `row … row+maxLen-1` of a root `[rows, nSets]` as a 2-D root
view `[maxLen, nSets]` on the same storage -/
theorem paramView_table_eq {h : Heap α} {parameters : Arr} {rows nSets row maxLen : Int}
    (r : RootOn h parameters [rows, nSets]) (h0 : 0 ≤ row) (hm : 1 ≤ maxLen) (h1 : row + maxLen ≤ rows) :
    paramView h parameters row (1 * maxLen) [maxLen, nSets] =
        .ok (h, flat2 parameters.sid (parameters.base + row * nSets) maxLen nSets) ∧
      (sliceView parameters.v [row, 0] [1 * maxLen, nSets] none).contiguous = .ok true ∧
      RootOn h (flat2 parameters.sid (parameters.base + row * nSets) maxLen nSets) [maxLen, nSets] := by
  obtain ⟨_, hnS⟩ := pos2 r.pos
  have okS : SliceOK parameters.v.dims [row, 0] [1 * maxLen, nSets] (stepOr parameters.v.dims.length none) := by
    rw [r.view]; simp [rootView, stepOr, uniform]; omega
  have hD : NdC02.Dense [1 * maxLen, nSets] parameters.v.orig
      (mulL parameters.v.step (stepOr parameters.v.dims.length none)) := by
    rw [r.view]; simp [rootView, stepOr, uniform, NdC02.Dense]
  obtain ⟨e1, _, e3, e4, e5⟩ := slice_reshape_alias (h := h) (s := [maxLen, nSets]) r.reach r.ok r.go okS hD (by simp)
    (by simp [Pos]; exact ⟨hm, hnS⟩) (by simp [product])
  have e : NdC02.aliasArr { parameters with v := sliceView parameters.v [row, 0] [1 * maxLen, nSets] none }
      [maxLen, nSets] = flat2 parameters.sid (parameters.base + row * nSets) maxLen nSets := by
    simp [NdC02.aliasArr, flat2, sliceView, View.size, product, r.view, rootView, offsetsT]
  rw [e] at e4 e5
  refine ⟨?_, e3, e5⟩
  unfold paramView
  simp only [len_rootView r.view (k := 1) (d := nSets) rfl, e1, e4, bind, Except.bind]

/-- the view `m.X.Slice([]int{0, c}, []int{ownLen}, nil)` of a table parameter: rank-1 extents on a rank-2 array.
`Step`, `Offset`, `OffsetStep` keep rank 2; `Index` loops over `len(loc) = 1`, so `[r] ↦ c + r·nSets`: column `c`. -/
def tableArr (sid : Nat) (base maxLen nSets ownLen c : Int) : Arr :=
  ⟨⟨[maxLen, nSets], [ownLen], c, [nSets, 1], [1, 1], [nSets, 1]⟩, sid, base, maxLen * nSets, false⟩

theorem slice_table (sid : Nat) (base maxLen nSets ownLen c : Int) :
    slice (flat2 sid base maxLen nSets) [0, c] [ownLen] none = .ok (tableArr sid base maxLen nSets ownLen c) := by
  simp [slice, View.sliceInto, flat2, tableArr, rootView, offsetsT, uniform, dotProduct, multiply, bind, Except.bind,
    pure, Except.pure]

/-- `Index([r])` on the table view: rank-1 `loc` against the rank-2 `OffsetStep` -/
theorem tableArr_index (sid : Nat) (base maxLen nSets ownLen c r : Int) :
    (tableArr sid base maxLen nSets ownLen c).v.index [r] = .ok (c + r * nSets) := by
  simp [View.index, View.indexAux, tableArr, bind, Except.bind, pure, Except.pure]

/-- **table parameter** of cell `i`: no panic, no copy; the view is `tableArr … (i % nSets)` -/
theorem tableParam_eq {h : Heap α} {parameters : Arr} {rows nSets row maxLen ownLen i : Int}
    (r : RootOn h parameters [rows, nSets]) (h0 : 0 ≤ row) (hm : 1 ≤ maxLen) (h1 : row + maxLen ≤ rows)
    (hi0 : 0 ≤ i) :
    tableParam h parameters row maxLen ownLen i =
      .ok (h, tableArr parameters.sid (parameters.base + row * nSets) maxLen nSets ownLen (i % nSets)) := by
  obtain ⟨_, hnS⟩ := pos2 r.pos
  obtain ⟨e1, _, _⟩ := paramView_table_eq r h0 hm h1
  unfold tableParam
  simp only [len_rootView r.view (k := 1) (d := nSets) rfl, e1, bind, Except.bind]
  have : lastOf (flat2 parameters.sid (parameters.base + row * nSets) maxLen nSets).v.dims = .ok nSets := by
    simp [lastOf, flat2, rootView]
  simp only [this, goMod_eq hi0 hnS, slice_table, pure, Except.pure]

/-- element `r` of the table view reads storage cell `base + c + r·nSets` (for `0 ≤ c < nSets`, `0 ≤ r < maxLen`) -/
theorem tableArr_get {h : Heap α} {sid : Nat} {base maxLen nSets ownLen c : Int}
    (rt : RootOn h (flat2 sid base maxLen nSets) [maxLen, nSets]) {r : Int} (hc0 : 0 ≤ c) (hc : c < nSets)
    (hr0 : 0 ≤ r) (hr : r < maxLen) (hro : r < ownLen) :
    ∃ x, cell h sid (base + (c + r * nSets)).toNat = some x ∧
      Nd.get h (tableArr sid base maxLen nSets ownLen c) [r] = .ok x ∧
      get1 h (tableArr sid base maxLen nSets ownLen c) r = .ok x := by
  obtain ⟨st, hs', hl⟩ := rt.ok.store
  have hs : h[sid]? = some st := hs'
  have hb : 0 ≤ base := rt.ok.base_nonneg
  have hl' : base + maxLen * nSets ≤ st.length := hl
  have h1 : r * nSets ≤ (maxLen - 1) * nSets := Int.mul_le_mul_of_nonneg_right (by omega) (by omega)
  have h2 : 0 ≤ r * nSets := Int.mul_nonneg hr0 (by omega)
  have h3 : (maxLen - 1) * nSets = maxLen * nSets - nSets := by ring
  have p0 : 0 ≤ c + r * nSets := by omega
  have p1 : c + r * nSets < maxLen * nSets := by omega
  have hlt : (base + (c + r * nSets)).toNat < st.length := by omega
  have hg : Nd.get h (tableArr sid base maxLen nSets ownLen c) [r] = .ok st[(base + (c + r * nSets)).toNat] := by
    unfold Nd.get
    rw [tableArr_index]
    simp [tableArr, readAt, storeOf, hs, p0, p1, List.getElem?_eq_getElem hlt, bind, Except.bind, pure, Except.pure]
  refine ⟨_, by simp [cell, hs, List.getElem?_eq_getElem hlt], hg, ?_⟩
  unfold get1
  rw [if_pos (by simp [tableArr])]
  exact hg

/-- **scalar parameter** of cell `i`: the `ApplyParameters` view then `Get1(i % Len1())` reads storage cell
`base + row·nSets + i % nSets` -/
theorem scalarParam_eq {h : Heap α} {parameters : Arr} {rows nSets row i : Int}
    (r : RootOn h parameters [rows, nSets]) (h0 : 0 ≤ row) (h1 : row < rows) (hi0 : 0 ≤ i) :
    ∃ x, scalarParam h parameters row i = .ok x ∧
      cell h parameters.sid (parameters.base + (row * nSets + i % nSets)).toNat = some x := by
  obtain ⟨_, hnS⟩ := pos2 r.pos
  have hc0 : 0 ≤ i % nSets := Int.emod_nonneg _ (by omega)
  have hc1 : i % nSets < nSets := Int.emod_lt_of_pos _ (by omega)
  obtain ⟨e, _, rv⟩ := paramView_scalar_eq r h0 h1
  obtain ⟨x, hx, _, hg1⟩ := rv.flat_get hc0 hc1
  refine ⟨x, ?_, by rw [← Int.add_assoc]; exact hx⟩
  unfold scalarParam
  simp only [len_rootView r.view (k := 1) (d := nSets) rfl, e, bind, Except.bind]
  have : (flat parameters.sid (parameters.base + row * nSets) nSets).v.len 0 = .ok nSets := by
    simp [View.len, flat, rootView]
  simp only [this, goMod_eq hi0 hnS]
  exact hg1

/-- the array value `arrayFromSlice(data, D)` returns on storage `sid`, as a term -/
def rootArr (sid : Nat) (D : Idx) (len : Nat) : Arr := ⟨rootView D 0, sid, 0, len, false⟩

theorem rootOn_rootArr {h : Heap α} {sid : Nat} {st : List α} {D : Idx} (hne : D ≠ []) (hpos : Pos D)
    (hs : h[sid]? = some st) (hf : product D ≤ st.length) :
    fromStore h sid D = .ok (rootArr sid D st.length) ∧ RootOn h (rootArr sid D st.length) D := by
  refine ⟨?_, ⟨rfl, rfl, ?_, hpos, hne⟩⟩
  · simp [fromStore, rootArr, storeOf, hs, root_eq D 0 hne, bind, Except.bind, pure, Except.pure]
  · exact ⟨⟨st, hs, by simp [rootArr]⟩, by simp [rootArr], hf, by simp [rootArr]⟩

/-- the preamble of `Run` on root arrays -/
theorem runDims_eq {inputs states outputs : Arr} {nIn nI T N nS M nO T' : Int}
    (hi : inputs.v = rootView [nIn, nI, T] 0) (hs : states.v = rootView [N, nS] 0)
    (ho : outputs.v = rootView [M, nO, T'] 0) :
    runDims inputs states outputs = .ok
      { numCells := N, numStates := nS, numInputSequences := nIn, inputLen := T, cellInputsShape := [nI, T],
        outputStepSlice := [1, 1, 1], outputSizeSlice := [1, 1, T], statesSizeSlice := [1, nS],
        inputsSizeSlice := [1, nI, T] } := by
  simp [runDims, View.len, hi, hs, ho, rootView, setAt, View.newIndex, View.ndims, uniform, bind, Except.bind, pure,
    Except.pure]

/-! ### arithmetic of row-major positions; frame of a flat read -/

theorem row_lt {n a b s s' : Int} (hn : 1 ≤ n) (hab : a < b) (hs : s < n) (hs' : 0 ≤ s') : a * n + s < b * n + s' := by
  have h1 : (a + 1) * n ≤ b * n := Int.mul_le_mul_of_nonneg_right (by omega) (by omega)
  have e : (a + 1) * n = a * n + n := by ring
  omega

theorem row_ne {n a b s s' : Int} (hn : 1 ≤ n) (hab : a ≠ b) (hs0 : 0 ≤ s) (hs : s < n) (hs0' : 0 ≤ s') (hs' : s' < n) :
    a * n + s ≠ b * n + s' := by
  rcases Int.lt_or_gt_of_ne hab with h | h
  · have := row_lt hn h hs hs0'; omega
  · have := row_lt hn h hs' hs0; omega

theorem row_nonneg {n a s : Int} (hn : 1 ≤ n) (ha : 0 ≤ a) (hs : 0 ≤ s) : 0 ≤ a * n + s := by
  have := Int.mul_nonneg ha (by omega : (0 : Int) ≤ n); omega

/-- reading element `t` of a flat view is unaffected by a storage write anywhere else -/
theorem flat_get1_frame {h : Heap α} {sid : Nat} {base n : Int} (rv : RootOn h (flat sid base n) [n]) {t : Int}
    (t0 : 0 ≤ t) (t1 : t < n) (u q : Nat) (v : α) (hne : u ≠ sid ∨ q ≠ (base + t).toNat) :
    get1 (setStore h u q v) (flat sid base n) t = get1 h (flat sid base n) t := by
  obtain ⟨x, hx, _, hg⟩ := rv.flat_get t0 t1
  obtain ⟨x', hx', _, hg'⟩ := (rv.sameShape (sameShape_setStore h u q v)).flat_get t0 t1
  rw [cell_setStore, if_neg (by rintro ⟨e1, e2⟩; rcases hne with e | e; exact e e1.symm; exact e e2.symm), hx] at hx'
  injection hx' with hx'
  rw [hg, hg', hx']

end
end OW.WrapperNd
