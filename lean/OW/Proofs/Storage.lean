import OW.Kernels.Storage
import OW.Proofs.RealNum
import Mathlib.Tactic.Linarith
import Mathlib.Tactic.Positivity
import Mathlib.Tactic.NormNum
import Mathlib.Tactic.Ring
/-!
Helper lemmas for C13 (reservoir storage): inversion lemmas for the fuelled loops of OW/Kernels/Storage.lean at `α := ℝ`
and the generic invariant principle for the `for timeRemaining > 0` loop.
-/
namespace OW.Proofs.Storage
open OW OW.Kernels.Storage

/-! ### constants at ℝ -/

theorem ofNat_lit (n : Nat) [n.AtLeastTwo] : (@OfNat.ofNat ℝ n (Num.instOfNat n)) = (OfNat.ofNat n : ℝ) := by
  rw [RealNum.ofNat_eq]

theorem zero_lit : (@OfNat.ofNat ℝ 0 (Num.instOfNat 0)) = 0 := by
  rw [RealNum.ofNat_eq]; exact Nat.cast_zero

theorem two_lit : (@OfNat.ofNat ℝ 2 (Num.instOfNat 2)) = 2 := ofNat_lit 2

theorem minStepNeg_eq : (minStepNeg : ℝ) = 6 := ofNat_lit 6

theorem minStepPos_eq : (minStepPos : ℝ) = 60 := ofNat_lit 60

/-! ### the release rule -/

/-- `releaseRate` clamps the demand between the two curve values (when the curves are ordered at that volume). -/
theorem releaseRate_between (t : Tables ℝ) (d v q m M : ℝ)
    (hm : cappedPiecewise t v t.minRelease = .ok m) (hM : cappedPiecewise t v t.maxRelease = .ok M)
    (hmM : m ≤ M) (hq : releaseRate t d v = .ok q) :
    m ≤ q ∧ q ≤ M ∧ (m ≤ d → d ≤ M → q = d) := by
  unfold releaseRate at hq
  simp only [hm, hM, bind, Except.bind, pure, Except.pure] at hq
  split_ifs at hq with h1 h2
  · cases hq; exact ⟨le_refl _, hmM, fun h _ => absurd h1 (not_lt.mpr h)⟩
  · cases hq; exact ⟨hmM, le_refl _, fun _ h => absurd h2 (not_lt.mpr h)⟩
  · cases hq; exact ⟨not_lt.mp h1, not_lt.mp h2, fun _ _ => rfl⟩

/-! ### the inner trial loop -/

/-- what an accepted trial guarantees -/
structure TrialSpec (t : Tables ℝ) (inflow demand netFlux volume est sub0 : ℝ) (a : Accepted ℝ) : Prop where
  sub_le : a.sub ≤ sub0
  sub_ge : min sub0 6 ≤ a.sub
  est_eq : a.estOutflow = est
  after : releaseRate t demand a.trialVol = .ok a.estOutflowAfter
  avg : a.avgOutflow = (a.estOutflowAfter + a.estOutflow) / 2
  /-- the volume at which the second release evaluation is made: the start volume advanced with the release `est` of the
  START volume (not with the accepted average release): a trial volume, not one the reservoir holds -/
  trialVol_eq : a.trialVol = volume + ((inflow - est) + netFlux * a.avgArea) * a.sub
  testVol_eq : a.testVol = volume + ((inflow - a.avgOutflow) + netFlux * a.avgArea) * a.sub
  testVol_nonneg : 0 ≤ a.testVol

theorem halve_le {sub : ℝ} (h : 6 < sub) : max (sub * 0.5) 6 ≤ sub := by
  apply max_le <;> linarith

theorem halve_ge (sub : ℝ) : min sub 6 ≤ max (sub * 0.5) 6 :=
  le_trans (min_le_right _ _) (le_max_right _ _)

theorem trial_spec (t : Tables ℝ) (inflow demand netFlux volume est area : ℝ) :
    ∀ (fuel : Nat) (sub : ℝ) (tags : List String) (a : Accepted ℝ),
      trial t inflow demand netFlux volume est area fuel sub tags = .ok a →
      TrialSpec t inflow demand netFlux volume est sub a := by
  intro fuel
  induction fuel with
  | zero => intro sub tags a h; simp [trial] at h
  | succ n ih =>
    intro sub tags a h
    simp only [trial, minStepNeg_eq, minStepPos_eq, RealNum.gmax_eq, zero_lit, two_lit] at h
    by_cases h1 : volume + (inflow - est + netFlux * area) * sub < 0
    · rw [if_pos h1] at h
      by_cases h2 : sub ≤ 6
      · rw [if_pos h2] at h; cases h
      · rw [if_neg h2] at h
        -- testVol < 0, sub > 6: quartered
        have h2' : 6 < sub := not_le.mp h2
        have s := ih _ _ _ h
        have e2 : max (max (sub * 0.5) 6 * 0.5) 6 ≤ sub := by
          apply max_le
          · have := halve_le h2'
            have : (0:ℝ) ≤ max (sub * 0.5) 6 := le_trans (by norm_num) (le_max_right _ _)
            linarith
          · linarith
        refine ⟨le_trans s.sub_le e2, ?_, s.est_eq, s.after, s.avg, s.trialVol_eq, s.testVol_eq, s.testVol_nonneg⟩
        refine le_trans ?_ s.sub_ge
        exact le_min (le_trans (min_le_right _ _) (le_max_right _ _)) (min_le_right _ _)
    · rw [if_neg h1] at h
      -- first estimate non-negative
      cases hA : cappedPiecewise t
          ((volume + (inflow - est + netFlux * area) * sub + volume) / 2) t.areas with
      | error e => rw [hA] at h; cases h
      | ok avgArea =>
        rw [hA] at h
        simp only [bind, Except.bind] at h
        cases hR : releaseRate t demand (volume + (inflow - est + netFlux * avgArea) * sub) with
        | error e => rw [hR] at h; cases h
        | ok after =>
          rw [hR] at h
          simp only at h
          by_cases h3 : 0 ≤ volume + (inflow - (after + est) / 2 + netFlux * avgArea) * sub
          · rw [if_pos h3] at h
            by_cases h4 : releaseRatesCloseEnough est ((after + est) / 2) = true
            · -- accept
              rw [if_pos h4] at h
              simp only [pure, Except.pure, Except.ok.injEq] at h
              subst h
              exact ⟨le_refl _, min_le_left _ _, rfl, hR, rfl, rfl, rfl, h3⟩
            · rw [if_neg h4] at h
              by_cases h5 : sub ≤ 60
              · -- floor
                rw [if_pos h5] at h
                simp only [pure, Except.pure, Except.ok.injEq] at h
                subst h
                exact ⟨le_refl _, min_le_left _ _, rfl, hR, rfl, rfl, rfl, h3⟩
              · -- halve
                rw [if_neg h5] at h
                have h5' : 60 < sub := not_le.mp h5
                have s := ih _ _ _ h
                refine ⟨le_trans s.sub_le (halve_le (by linarith)), ?_, s.est_eq, s.after, s.avg, s.trialVol_eq, s.testVol_eq, s.testVol_nonneg⟩
                refine le_trans ?_ s.sub_ge
                exact le_min (halve_ge sub) (min_le_right _ _)
          · rw [if_neg h3] at h
            by_cases h6 : sub ≤ 6
            · rw [if_pos h6] at h; cases h
            · -- negative after averaging, sub > 6
              rw [if_neg h6] at h
              have h6' : 6 < sub := not_le.mp h6
              have s := ih _ _ _ h
              refine ⟨le_trans s.sub_le (halve_le h6'), ?_, s.est_eq, s.after, s.avg, s.trialVol_eq, s.testVol_eq, s.testVol_nonneg⟩
              refine le_trans ?_ s.sub_ge
              exact le_min (halve_ge sub) (min_le_right _ _)

/-! ### the spill block -/

theorem spill_spec (t : Tables ℝ) (v q sub : ℝ) :
    0 ≤ (spill t v q sub).1 ∧ (spill t v q sub).2.1 = v - (spill t v q sub).1 ∧
    ((spill t v q sub).1 ≠ 0 → t.volCurveMax < v) ∧
    (t.volCurveMax < v → (spill t v q sub).1 ≤ v - t.volCurveMax) := by
  unfold spill
  simp only [RealNum.gmax_eq, RealNum.gmin_eq, RealNum.zero_eq, zero_lit, two_lit]
  split_ifs with h
  · refine ⟨le_max_right _ _, rfl, fun _ => h, fun _ => ?_⟩
    apply max_le
    · exact min_le_right _ _
    · linarith
  · exact ⟨le_refl _, by simp, fun h0 => absurd rfl h0, fun h' => absurd h' h⟩

/-- the spilled volume of a sub-step is at most the over-topping rate at its cap (twice the spill capacity `maxSpill`, less the
release already made) times the sub-step -/
theorem spill_le_rate (t : Tables ℝ) (v q sub : ℝ) (hsub : 0 ≤ sub) (hS : 0 ≤ t.maxSpill) :
    (spill t v q sub).1 ≤ max (2 * t.maxSpill - q) 0 * sub := by
  unfold spill
  simp only [RealNum.gmax_eq, RealNum.gmin_eq, RealNum.zero_eq, zero_lit, two_lit]
  split_ifs with h
  · apply max_le
    · refine le_trans (min_le_left _ _) ?_
      apply mul_le_mul_of_nonneg_right _ hsub
      apply max_le_max _ (le_refl 0)
      have : min (v / t.volCurveMax) 2 * t.maxSpill ≤ 2 * t.maxSpill :=
        mul_le_mul_of_nonneg_right (min_le_right _ _) hS
      linarith
    · exact mul_nonneg (le_max_right _ _) hsub
  · exact mul_nonneg (le_max_right _ _) hsub

/-! ### one iteration of the `for timeRemaining > 0` loop -/

/-- the volume after the update of an accepted sub-step, before spilling -/
def updated (inflow netFlux : ℝ) (s : Loop ℝ) (a : Accepted ℝ) : ℝ :=
  s.volume + (inflow + netFlux * a.avgArea - a.avgOutflow) * a.sub

/-- what one successful iteration does -/
structure BodySpec (t : Tables ℝ) (keep : Bool) (inflow demand rps pps netFlux : ℝ) (s s' : Loop ℝ)
    (a : Accepted ℝ) : Prop where
  est : releaseRate t demand s.volume = .ok a.estOutflow
  trial : TrialSpec t inflow demand netFlux s.volume a.estOutflow (min s.timeRemaining (s.subtimestep * 2)) a
  upd_nonneg : 0 ≤ updated inflow netFlux s a
  time : s'.timeRemaining = s.timeRemaining - a.sub
  sub : s'.subtimestep = a.sub
  vol : s'.volume = (spill t (updated inflow netFlux s a) a.avgOutflow a.sub).2.1
  out : s'.outflowVolume = s.outflowVolume + a.avgOutflow * a.sub + (spill t (updated inflow netFlux s a) a.avgOutflow a.sub).1
  rain : s'.rainfallVol = s.rainfallVol + rps * mmToM * a.avgArea * a.sub
  evap : s'.evaporationVol = s.evaporationVol + pps * mmToM * a.avgArea * a.sub
  trace : s'.trace = if keep then
      ⟨s.volume, a, updated inflow netFlux s a, (spill t (updated inflow netFlux s a) a.avgOutflow a.sub).1,
        (spill t (updated inflow netFlux s a) a.avgOutflow a.sub).2.1⟩ :: s.trace else s.trace

theorem outerBody_ok (t : Tables ℝ) (keep : Bool) (fi : Nat) (inflow demand rps pps netFlux : ℝ) (s s' : Loop ℝ)
    (h : outerBody t keep fi inflow demand rps pps netFlux s = .ok s') :
    ∃ a, BodySpec t keep inflow demand rps pps netFlux s s' a := by
  unfold outerBody at h
  simp only [RealNum.gmin_eq, zero_lit, two_lit, bind, Except.bind] at h
  cases hE : releaseRate t demand s.volume with
  | error e => rw [hE] at h; cases h
  | ok est =>
    rw [hE] at h; simp only at h
    cases hA : cappedPiecewise t s.volume t.areas with
    | error e => rw [hA] at h; cases h
    | ok area =>
      rw [hA] at h; simp only at h
      cases hT : trial t inflow demand netFlux s.volume est area fi (min s.timeRemaining (s.subtimestep * 2)) s.tags with
      | error e => rw [hT] at h; cases h
      | ok a =>
        rw [hT] at h; simp only at h
        have ts := trial_spec _ _ _ _ _ _ _ _ _ _ _ hT
        by_cases hv : s.volume + (inflow + netFlux * a.avgArea - a.avgOutflow) * a.sub < 0
        · rw [if_pos hv] at h; cases h
        · rw [if_neg hv] at h
          simp only [pure, Except.pure, Except.ok.injEq] at h
          subst h
          refine ⟨a, ?_⟩
          have e : a.estOutflow = est := ts.est_eq
          refine ⟨by rw [e]; exact hE, by rw [e]; exact ts, not_lt.mp hv, rfl, rfl, rfl, rfl, rfl, rfl, rfl⟩

/-! ### the loop: invariant principle -/

/-- If `P` is preserved by every successful iteration entered with `0 < timeRemaining`, it holds at loop exit, where
`timeRemaining` is no longer positive. -/
theorem outer_inv (t : Tables ℝ) (keep : Bool) (fi : Nat) (inflow demand rps pps netFlux : ℝ) (P : Loop ℝ → Prop)
    (hP : ∀ s s' a, 0 < s.timeRemaining → P s → BodySpec t keep inflow demand rps pps netFlux s s' a → P s') :
    ∀ (fo : Nat) (s r : Loop ℝ), outer t keep fi inflow demand rps pps netFlux fo s = .ok r → P s →
      P r ∧ ¬ (0 < r.timeRemaining) := by
  intro fo
  induction fo with
  | zero => intro s r h; simp [outer] at h
  | succ n ih =>
    intro s r h hs
    simp only [outer, zero_lit] at h
    by_cases ht : 0 < s.timeRemaining
    · rw [if_pos ht] at h
      cases hB : outerBody t keep fi inflow demand rps pps netFlux s with
      | error e => rw [hB] at h; cases h
      | ok s' =>
        rw [hB] at h; simp only at h
        obtain ⟨a, spec⟩ := outerBody_ok _ _ _ _ _ _ _ _ _ _ hB
        exact ih s' r h (hP s s' a ht hs spec)
    · rw [if_neg ht] at h
      cases h
      exact ⟨hs, ht⟩

/-! ### termination: no call ever runs out of fuel, given enough of it -/

theorem piecewise_panic (x : ℝ) (xs ys : List ℝ) (e : String) (h : Fn.piecewise x xs ys = .panic e) :
    e = "index-out-of-range" := by
  unfold Fn.piecewise at h
  cases xs with
  | nil => simp [Fn.brackets] at h; exact h.symm
  | cons x0 rest =>
    simp only [Fn.brackets] at h
    split at h
    next e' heq => split_ifs at heq
    next heq => cases h
    next i j heq =>
      split at h
      next => split_ifs at h
      next => simp only [Fn.PwRes.panic.injEq] at h; exact h.symm

theorem getAt_ne_fuel (ys : List ℝ) (i : Nat) : getAt ys i ≠ .error "fuel" := by
  unfold getAt
  split
  · intro h; cases h
  · intro h; simp only [Except.error.injEq] at h; exact absurd h (by decide)

theorem capped_ne_fuel (t : Tables ℝ) (v : ℝ) (ys : List ℝ) : cappedPiecewise t v ys ≠ .error "fuel" := by
  unfold cappedPiecewise
  split_ifs
  · exact getAt_ne_fuel _ _
  · exact getAt_ne_fuel _ _
  · cases hp : Fn.piecewise v t.volumes ys with
    | val y => intro h; cases h
    | err => intro h; simp only [Except.error.injEq] at h; exact absurd h (by decide)
    | panic e =>
      have := piecewise_panic _ _ _ _ hp
      subst this
      intro h; simp only [Except.error.injEq] at h; exact absurd h (by decide)

theorem releaseRate_ne_fuel (t : Tables ℝ) (d v : ℝ) : releaseRate t d v ≠ .error "fuel" := by
  unfold releaseRate
  simp only [bind, Except.bind, pure, Except.pure]
  cases h1 : cappedPiecewise t v t.minRelease with
  | error e => simp only; intro h; cases h; exact capped_ne_fuel t v t.minRelease h1
  | ok m =>
    simp only
    split_ifs
    · intro h; cases h
    · cases h2 : cappedPiecewise t v t.maxRelease with
      | error e => simp only; intro h; cases h; exact capped_ne_fuel t v t.maxRelease h2
      | ok M => simp only; split_ifs <;> (intro h; cases h)

theorem other_ne_fuel : (Except.error "other" : Except String (Accepted ℝ)) ≠ .error "fuel" := by
  intro h; simp only [Except.error.injEq] at h; exact absurd h (by decide)

/-- The inner trial loop never runs out of fuel once `fuel > n` where `sub ≤ 6·2ⁿ`: every retry at least halves the
sub-step down to the 6 s floor, and at the floor the loop either accepts or panics. -/
theorem trial_ne_fuel (t : Tables ℝ) (inflow demand netFlux volume est area : ℝ) :
    ∀ (n fuel : Nat) (sub : ℝ) (tags : List String), sub ≤ 6 * 2 ^ n → n + 1 ≤ fuel →
      trial t inflow demand netFlux volume est area fuel sub tags ≠ .error "fuel" := by
  intro n
  induction n with
  | zero =>
    intro fuel sub tags hs hf
    obtain ⟨f, rfl⟩ : ∃ f, fuel = f + 1 := ⟨fuel - 1, by omega⟩
    have hs6 : sub ≤ 6 := by
      have : (6:ℝ) * 2 ^ 0 = 6 := by norm_num
      linarith
    simp only [trial, minStepNeg_eq, minStepPos_eq, RealNum.gmax_eq, zero_lit, two_lit]
    by_cases h1 : volume + (inflow - est + netFlux * area) * sub < 0
    · rw [if_pos h1, if_pos hs6]; exact other_ne_fuel
    · rw [if_neg h1]
      simp only [bind, Except.bind]
      cases hA : cappedPiecewise t ((volume + (inflow - est + netFlux * area) * sub + volume) / 2) t.areas with
      | error e => simp only; intro h; cases h; exact capped_ne_fuel _ _ _ hA
      | ok avgArea =>
        simp only
        cases hR : releaseRate t demand (volume + (inflow - est + netFlux * avgArea) * sub) with
        | error e => simp only; intro h; cases h; exact releaseRate_ne_fuel _ _ _ hR
        | ok after =>
          simp only
          have h60 : sub ≤ 60 := by linarith
          split_ifs
          · intro h; cases h
          · intro h; cases h
          · exact other_ne_fuel
  | succ m ih =>
    intro fuel sub tags hs hf
    obtain ⟨f, rfl⟩ : ∃ f, fuel = f + 1 := ⟨fuel - 1, by omega⟩
    have hf' : m + 1 ≤ f := by omega
    have hpow : (1:ℝ) ≤ 2 ^ m := one_le_pow₀ (by norm_num)
    have hhalf : max (sub * 0.5) 6 ≤ 6 * 2 ^ m := by
      apply max_le
      · rw [pow_succ] at hs; linarith
      · linarith
    simp only [trial, minStepNeg_eq, minStepPos_eq, RealNum.gmax_eq, zero_lit, two_lit]
    by_cases h1 : volume + (inflow - est + netFlux * area) * sub < 0
    · rw [if_pos h1]
      split_ifs
      · exact other_ne_fuel
      · apply ih _ _ _ ?_ hf'
        apply max_le
        · have : (0:ℝ) ≤ max (sub * 0.5) 6 := le_trans (by norm_num) (le_max_right _ _)
          linarith
        · linarith
    · rw [if_neg h1]
      simp only [bind, Except.bind]
      cases hA : cappedPiecewise t ((volume + (inflow - est + netFlux * area) * sub + volume) / 2) t.areas with
      | error e => simp only; intro h; cases h; exact capped_ne_fuel _ _ _ hA
      | ok avgArea =>
        simp only
        cases hR : releaseRate t demand (volume + (inflow - est + netFlux * avgArea) * sub) with
        | error e => simp only; intro h; cases h; exact releaseRate_ne_fuel _ _ _ hR
        | ok after =>
          simp only
          split_ifs
          · intro h; cases h
          · intro h; cases h
          · exact ih _ _ _ hhalf hf'
          · exact other_ne_fuel
          · exact ih _ _ _ hhalf hf'

theorem outerBody_ne_fuel (t : Tables ℝ) (keep : Bool) (fi : Nat) (inflow demand rps pps netFlux : ℝ) (s : Loop ℝ)
    (hT : ∀ est area, trial t inflow demand netFlux s.volume est area fi (min s.timeRemaining (s.subtimestep * 2)) s.tags
      ≠ .error "fuel") :
    outerBody t keep fi inflow demand rps pps netFlux s ≠ .error "fuel" := by
  unfold outerBody
  simp only [RealNum.gmin_eq, zero_lit, two_lit, bind, Except.bind]
  cases hE : releaseRate t demand s.volume with
  | error e => simp only; intro h; cases h; exact releaseRate_ne_fuel _ _ _ hE
  | ok est =>
    simp only
    cases hA : cappedPiecewise t s.volume t.areas with
    | error e => simp only; intro h; cases h; exact capped_ne_fuel _ _ _ hA
    | ok area =>
      simp only
      cases hTr : trial t inflow demand netFlux s.volume est area fi (min s.timeRemaining (s.subtimestep * 2)) s.tags with
      | error e => simp only; intro h; cases h; exact hT est area hTr
      | ok a =>
        simp only
        by_cases hv : s.volume + (inflow + netFlux * a.avgArea - a.avgOutflow) * a.sub < 0
        · rw [if_pos hv]; intro h; simp only [Except.error.injEq] at h; exact absurd h (by decide)
        · rw [if_neg hv]; intro h; cases h

/-- the sub-step carried into the next iteration is either at least 3 s (so that doubling it reaches the 6 s floor) or
already covers the remaining time -/
def Carry (s : Loop ℝ) : Prop := s.timeRemaining ≤ s.subtimestep * 2 ∨ 3 ≤ s.subtimestep

/-- The `for timeRemaining > 0` loop never runs out of fuel once `fo > k` and `fi > n`, where `timeRemaining ≤ 6·k` and
`timeRemaining ≤ 6·2ⁿ`: every accepted sub-step is at least `min timeRemaining 6` long. -/
theorem outer_ne_fuel (t : Tables ℝ) (keep : Bool) (fi n : Nat) (inflow demand rps pps netFlux : ℝ) (hfi : n + 1 ≤ fi) :
    ∀ (k fo : Nat) (s : Loop ℝ), (0 < s.timeRemaining → Carry s) → s.timeRemaining ≤ 6 * k →
      s.timeRemaining ≤ 6 * 2 ^ n → k + 1 ≤ fo →
      outer t keep fi inflow demand rps pps netFlux fo s ≠ .error "fuel" := by
  intro k
  induction k with
  | zero =>
    intro fo s _ hk _ hfo
    obtain ⟨f, rfl⟩ : ∃ f, fo = f + 1 := ⟨fo - 1, by omega⟩
    simp only [outer, zero_lit]
    have : ¬ (0 < s.timeRemaining) := by
      rw [Nat.cast_zero] at hk; linarith
    rw [if_neg this]; intro h; cases h
  | succ k ih =>
    intro fo s hC hk hn hfo
    obtain ⟨f, rfl⟩ : ∃ f, fo = f + 1 := ⟨fo - 1, by omega⟩
    simp only [outer, zero_lit]
    by_cases ht : 0 < s.timeRemaining
    · rw [if_pos ht]
      have hsub0 : min s.timeRemaining (s.subtimestep * 2) ≤ 6 * 2 ^ n := le_trans (min_le_left _ _) hn
      cases hB : outerBody t keep fi inflow demand rps pps netFlux s with
      | error e =>
        simp only
        intro h
        cases h
        exact outerBody_ne_fuel t keep fi inflow demand rps pps netFlux s
          (fun est area => trial_ne_fuel _ _ _ _ _ _ _ n fi _ _ hsub0 hfi) hB
      | ok s' =>
        simp only
        obtain ⟨a, b⟩ := outerBody_ok _ _ _ _ _ _ _ _ _ _ hB
        have hlow : min s.timeRemaining 6 ≤ a.sub := by
          refine le_trans ?_ b.trial.sub_ge
          rcases hC ht with c | c
          · rw [min_eq_left c]
          · apply le_min
            · exact le_min (min_le_left _ _) (by linarith [min_le_right s.timeRemaining 6])
            · exact min_le_right _ _
        have hup : a.sub ≤ s.timeRemaining := le_trans b.trial.sub_le (min_le_left _ _)
        have hpos : 0 < a.sub := lt_of_lt_of_le (lt_min ht (by norm_num)) hlow
        apply ih f s'
        · intro _
          unfold Carry
          rw [b.time, b.sub]
          by_cases h6 : 6 ≤ a.sub
          · right; linarith
          · left
            have : s.timeRemaining ≤ a.sub := by
              by_contra hc
              have : min s.timeRemaining 6 = 6 ∨ min s.timeRemaining 6 = s.timeRemaining := by
                rcases le_total s.timeRemaining 6 with c | c
                · right; exact min_eq_left c
                · left; exact min_eq_right c
              rcases this with e | e <;> rw [e] at hlow <;> linarith
            linarith
        · rw [b.time]
          rcases le_total s.timeRemaining 6 with c | c
          · rw [min_eq_left c] at hlow
            have : (0:ℝ) ≤ 6 * (k:ℝ) := by positivity
            linarith
          · rw [min_eq_right c] at hlow
            push_cast at hk
            linarith
        · rw [b.time]; linarith
        · omega
    · rw [if_neg ht]; intro h; cases h

end OW.Proofs.Storage
