import OW.Sim.Graph
/-!
Helper lemmas for property C07 (ow-sim = sequential reference semantics): row ranges of generations (`batches`),
the specification's fixed-point equation, and the invariant of the implementation-shaped semantics under an arbitrary
protocol-respecting schedule. Core Lean only.
-/
set_option linter.unusedSectionVars false

namespace OW.Sim
variable {α : Type}

/-! ### row ranges -/

theorem startOf_succ (b : List Nat) (g : Nat) : startOf b (g + 1) = stopOf b g := by
  simp [startOf, stopOf]

theorem mono_le {b : List Nat} (hm : MonoBatches b) {i j : Nat} (hij : i ≤ j) (hj : j < b.length) :
    b.getD i 0 ≤ b.getD j 0 := by
  induction j with
  | zero =>
    have : i = 0 := by omega
    subst this; exact Nat.le_refl _
  | succ n ih =>
    by_cases h : i = n + 1
    · subst h; exact Nat.le_refl _
    · have h1 : b.getD i 0 ≤ b.getD n 0 := ih (by omega) (by omega)
      have h2 : b.getD n 0 ≤ b.getD (n + 1) 0 := hm n (by omega)
      exact Nat.le_trans h1 h2

theorem start_le_stop {b : List Nat} (hm : MonoBatches b) {g : Nat} (hg : g < b.length) :
    startOf b g ≤ stopOf b g := by
  unfold startOf stopOf
  split
  · exact Nat.zero_le _
  · exact mono_le hm (by omega) hg

theorem stop_le_total {b : List Nat} (hm : MonoBatches b) {g : Nat} (hg : g < b.length) :
    stopOf b g ≤ totalOf b := by
  unfold stopOf totalOf
  exact mono_le hm (by omega) (by omega)

theorem inGen_lt_total {b : List Nat} (hm : MonoBatches b) {g r : Nat} (hg : g < b.length) (h : inGen b g r) :
    r < totalOf b := Nat.lt_of_lt_of_le h.2 (stop_le_total hm hg)

theorem inGen_cover_aux (b : List Nat) (r : Nat) :
    ∀ n, r < stopOf b n → ∃ g, g ≤ n ∧ inGen b g r := by
  intro n
  induction n with
  | zero => intro h; exact ⟨0, Nat.le_refl _, by simp [inGen, startOf, h]⟩
  | succ n ih =>
    intro h
    by_cases h' : r < stopOf b n
    · obtain ⟨g, hg, hin⟩ := ih h'
      exact ⟨g, by omega, hin⟩
    · exact ⟨n + 1, Nat.le_refl _, by rw [startOf_succ]; omega, h⟩

theorem inGen_cover {b : List Nat} {r : Nat} (hlen : 1 ≤ b.length) (h : r < totalOf b) :
    ∃ g, g < b.length ∧ inGen b g r := by
  obtain ⟨g, hg, hin⟩ := inGen_cover_aux b r (b.length - 1) h
  exact ⟨g, by omega, hin⟩

theorem inGen_unique {b : List Nat} (hm : MonoBatches b) {g1 g2 r : Nat} (h2 : g2 < b.length)
    (hlt : g1 < g2) (a : inGen b g1 r) (c : inGen b g2 r) : False := by
  have h3 : stopOf b g1 ≤ startOf b g2 := by
    unfold stopOf startOf
    have : g2 ≠ 0 := by omega
    simp [this]
    exact mono_le hm (by omega) (by omega)
  have := a.2; have := c.1
  omega

theorem inGen_inj {b : List Nat} (hm : MonoBatches b) {g1 g2 r : Nat} (h1 : g1 < b.length) (h2 : g2 < b.length)
    (a : inGen b g1 r) (c : inGen b g2 r) : g1 = g2 := by
  rcases Nat.lt_trichotomy g1 g2 with h | h | h
  · exact (inGen_unique hm h2 h a c).elim
  · exact h
  · exact (inGen_unique hm h1 h c a).elim

end OW.Sim

namespace OW.Sim
variable {α : Type} [Num α]

/-! ### the specification satisfies the node equations (fixed point) -/

theorem range_foldl_succ {β : Type} (f : β → Nat → β) (a : β) (n : Nat) :
    (List.range (n + 1)).foldl f a = f ((List.range n).foldl f a) n := by
  rw [List.range_succ, List.foldl_append]; rfl

/-- one link folded into the input of node (m, r) -/
def stepIn (D : Done α) (m r : Nat) (ins : List (List α)) (l : Link) : List (List α) :=
  if l.destModel = m ∧ l.destNode = r then addAt ins l.destVar (linkSeries D l) else ins

/-- the input of node (m, r) after the links `ls` -/
def partialInput (g : Graph α) (D : Done α) (ls : List Link) (m r : Nat) : List (List α) :=
  ls.foldl (stepIn D m r) (baseInputs g (g.model m) r)

theorem nodeInput_eq (g : Graph α) (D : Done α) (m r : Nat) : nodeInput g D m r = partialInput g D g.links m r := rfl

theorem foldl_stepIn_congr (D1 D2 : Done α) (m r : Nat) :
    ∀ (ls : List Link) (init : List (List α)),
      (∀ l ∈ ls, l.destModel = m → l.destNode = r → D1 l.srcModel l.srcNode = D2 l.srcModel l.srcNode) →
      ls.foldl (stepIn D1 m r) init = ls.foldl (stepIn D2 m r) init := by
  intro ls
  induction ls with
  | nil => intro init _; rfl
  | cons l rest ih =>
    intro init h
    simp only [List.foldl_cons]
    have e : stepIn D1 m r init l = stepIn D2 m r init l := by
      unfold stepIn
      split
      · rename_i hc
        have := h l (List.mem_cons_self) hc.1 hc.2
        simp [linkSeries, this]
      · rfl
    rw [e]
    exact ih _ (fun l' hl' => h l' (List.mem_cons_of_mem _ hl'))

theorem foldl_stepIn_skip (D : Done α) (m r : Nat) :
    ∀ (ls : List Link) (init : List (List α)), (∀ l ∈ ls, ¬ (l.destModel = m ∧ l.destNode = r)) →
      ls.foldl (stepIn D m r) init = init := by
  intro ls
  induction ls with
  | nil => intro init _; rfl
  | cons l rest ih =>
    intro init h
    simp only [List.foldl_cons]
    have : stepIn D m r init l = init := by
      unfold stepIn; simp [h l List.mem_cons_self]
    rw [this]
    exact ih _ (fun l' hl' => h l' (List.mem_cons_of_mem _ hl'))

theorem runNodeAt_congr (run : RunFn α) (g : Graph α) (D1 D2 : Done α) (m r : Nat)
    (h : ∀ l ∈ g.links, l.destModel = m → l.destNode = r → D1 l.srcModel l.srcNode = D2 l.srcModel l.srcNode) :
    runNodeAt run g D1 m r = runNodeAt run g D2 m r := by
  unfold runNodeAt
  have : nodeInput g D1 m r = nodeInput g D2 m r := by
    rw [nodeInput_eq, nodeInput_eq]
    exact foldl_stepIn_congr D1 D2 m r g.links _ h
  simp [this]

theorem refDone_succ (run : RunFn α) (g : Graph α) (n : Nat) :
    refDone run g (n + 1) = refGen run g (refDone run g n) n := by
  unfold refDone; exact range_foldl_succ _ _ _

theorem not_inGen_of_other {b : List Nat} (hm : MonoBatches b) {g1 g2 r : Nat} (h1 : g1 < b.length)
    (a : inGen b g1 r) (hne : g1 ≠ g2) : ¬ inGen b g2 r := by
  intro c
  by_cases h2 : g2 < b.length
  · exact hne (inGen_inj hm h1 h2 a c)
  · have : stopOf b g2 = 0 := by
      unfold stopOf
      simp [List.getD, List.getElem?_eq_none (Nat.le_of_not_lt h2)]
    have := c.2
    omega

/-- once a node's generation has run, its result never changes -/
theorem refDone_stable (run : RunFn α) (g : Graph α) {m r g' : Nat}
    (hmono : MonoBatches (g.model m).batches) (hg' : g' < (g.model m).batches.length)
    (hin : inGen (g.model m).batches g' r) :
    ∀ n, g' < n → refDone run g n m r = runNodeAt run g (refDone run g g') m r := by
  intro n
  induction n with
  | zero => intro h; omega
  | succ n ih =>
    intro h
    rw [refDone_succ]
    unfold refGen
    by_cases e : g' = n
    · subst e; simp [hin]
    · have : ¬ inGen (g.model m).batches n r := not_inGen_of_other hmono hg' hin e
      simp only [this, if_false]
      exact ih (by omega)

end OW.Sim

namespace OW.Sim
variable {α : Type} [Num α]

/-! ### reading `ValidGraph` -/

theorem ValidGraph.genPos {g : Graph α} (hv : ValidGraph g) : 1 ≤ g.genCount := hv.1
theorem ValidGraph.len {g : Graph α} (hv : ValidGraph g) {m : Nat} (hm : m < g.models.length) :
    (g.model m).batches.length = g.genCount := (hv.2.1 m hm).1
theorem ValidGraph.mono {g : Graph α} (hv : ValidGraph g) {m : Nat} (hm : m < g.models.length) :
    MonoBatches (g.model m).batches := (hv.2.1 m hm).2
theorem ValidGraph.sorted {g : Graph α} (hv : ValidGraph g) : SortedLinks g.links := hv.2.2.1
theorem ValidGraph.link {g : Graph α} (hv : ValidGraph g) {l : Link} (hl : l ∈ g.links) : LinkOk g l := hv.2.2.2.1 l hl
theorem ValidGraph.names {g : Graph α} (hv : ValidGraph g) : (g.models.map (·.name)).Nodup := hv.2.2.2.2.1
theorem ValidGraph.srcVar {g : Graph α} (hv : ValidGraph g) {l : Link} (hl : l ∈ g.links) :
    l.srcVar < (g.model l.srcModel).nOutputs := hv.2.2.2.2.2.1 l hl
theorem ValidGraph.shape {g : Graph α} (hv : ValidGraph g) {md : ModelData α} (hm : md ∈ g.models) : ShapeOk g md :=
  hv.2.2.2.2.2.2 md hm

/-- number of nodes of model `m` in generation `gen` -/
def countOf (g : Graph α) (m gen : Nat) : Nat := stopOf (g.model m).batches gen - startOf (g.model m).batches gen

/-- global row of node `k` of generation `gen` of model `m` -/
def rowOf (g : Graph α) (m gen k : Nat) : Nat := startOf (g.model m).batches gen + k

theorem inGen_rowOf {g : Graph α} {m gen k : Nat} (hk : k < countOf g m gen) :
    inGen (g.model m).batches gen (rowOf g m gen k) := by
  unfold countOf at hk; unfold inGen rowOf; omega

theorem gen_lt_of_count {g : Graph α} {m gen : Nat} (h : 0 < countOf g m gen) : gen < (g.model m).batches.length := by
  apply Classical.byContradiction
  intro hn
  have : stopOf (g.model m).batches gen = 0 := by
    unfold stopOf
    simp [List.getD, List.getElem?_eq_none (Nat.le_of_not_lt hn)]
  unfold countOf at h
  omega

theorem LinkOk.src_in {g : Graph α} {l : Link} (h : LinkOk g l) :
    l.srcNode = rowOf g l.srcModel l.srcGen l.srcGenNode ∧ l.srcGenNode < countOf g l.srcModel l.srcGen := by
  obtain ⟨_, _, _, _, h5, _, h7, _, _⟩ := h
  exact ⟨h7, h5⟩

theorem LinkOk.dest_in {g : Graph α} {l : Link} (h : LinkOk g l) :
    l.destNode = rowOf g l.destModel l.destGen l.destGenNode ∧ l.destGenNode < countOf g l.destModel l.destGen := by
  obtain ⟨_, _, _, _, _, h6, _, h8, _⟩ := h
  exact ⟨h8, h6⟩

/-- a link into node `rowOf m gen k` has destination generation `gen` -/
theorem link_dest_gen {g : Graph α} (hv : ValidGraph g) {l : Link} (hl : l ∈ g.links) {m gen k : Nat}
    (hk : k < countOf g m gen) (hdm : l.destModel = m) (hdn : l.destNode = rowOf g m gen k) :
    l.destGen = gen ∧ l.destGenNode = k := by
  have ok := hv.link hl
  obtain ⟨e1, e2⟩ := ok.dest_in
  have hml : l.destModel < g.models.length := ok.2.2.2.1
  rw [hdm] at e1 e2 hml
  have i1 := inGen_rowOf e2
  have i2 := inGen_rowOf hk
  rw [← e1, hdn] at i1
  have hg : l.destGen = gen :=
    inGen_inj (hv.mono hml) (gen_lt_of_count (by omega)) (gen_lt_of_count (by omega)) i1 i2
  refine ⟨hg, ?_⟩
  rw [hg] at e1
  rw [hdn] at e1
  unfold rowOf at e1
  omega

/-- **the reference result satisfies the node equations**: every node's entry is the result of running it on the
inputs computed from the final results -/
theorem ref_fixed (run : RunFn α) (g : Graph α) (hv : ValidGraph g) {m gen k : Nat} (hm : m < g.models.length)
    (hk : k < countOf g m gen) :
    refDone run g g.genCount m (rowOf g m gen k) =
      runNodeAt run g (refDone run g g.genCount) m (rowOf g m gen k) := by
  have hgen : gen < (g.model m).batches.length := gen_lt_of_count (by omega)
  have hgenG : gen < g.genCount := by rw [← hv.len hm]; exact hgen
  rw [refDone_stable run g (hv.mono hm) hgen (inGen_rowOf hk) g.genCount hgenG]
  apply runNodeAt_congr
  intro l hl hdm hdn
  have ok := hv.link hl
  obtain ⟨hg, _⟩ := link_dest_gen hv hl hk hdm hdn
  obtain ⟨e1, e2⟩ := ok.src_in
  have hsm : l.srcModel < g.models.length := ok.2.2.1
  have hlt : l.srcGen < gen := by have := ok.1; omega
  have hsg : l.srcGen < (g.model l.srcModel).batches.length := gen_lt_of_count (by omega)
  rw [e1]
  rw [refDone_stable run g (hv.mono hsm) hsg (inGen_rowOf e2) gen hlt]
  rw [refDone_stable run g (hv.mono hsm) hsg (inGen_rowOf e2) g.genCount (by omega)]

end OW.Sim

namespace OW.Sim
variable {α : Type} [Num α]

/-! ### the implementation-shaped semantics: lazily loaded generations -/

/-- the generation object the code works on: the cached one, or what `GetGeneration` would load -/
def effGen (g : Graph α) (s : SimState α) (m gen : Nat) : GenData α :=
  match s.gens m gen with
  | some d => d
  | none => loadGeneration g m gen

/-- the state after `GetGeneration(m, gen)` -/
def ensure (g : Graph α) (s : SimState α) (m gen : Nat) : SimState α :=
  match s.gens m gen with
  | some _ => s
  | none => { s with gens := upd2 s.gens m gen (some (loadGeneration g m gen)) }

theorem getGeneration_eq (g : Graph α) (s : SimState α) (m gen : Nat) :
    getGeneration g s m gen = (ensure g s m gen, effGen g s m gen) := by
  unfold getGeneration ensure effGen
  cases h : s.gens m gen <;> simp

theorem ensure_nextLink (g : Graph α) (s : SimState α) (m gen : Nat) : (ensure g s m gen).nextLink = s.nextLink := by
  unfold ensure; cases h : s.gens m gen <;> simp
theorem ensure_file (g : Graph α) (s : SimState α) (m gen : Nat) : (ensure g s m gen).file = s.file := by
  unfold ensure; cases h : s.gens m gen <;> simp
theorem ensure_initialised (g : Graph α) (s : SimState α) (m gen : Nat) :
    (ensure g s m gen).initialised = s.initialised := by
  unfold ensure; cases h : s.gens m gen <;> simp

theorem ensure_gens_self (g : Graph α) (s : SimState α) (m gen : Nat) :
    (ensure g s m gen).gens m gen = some (effGen g s m gen) := by
  unfold ensure effGen
  cases h : s.gens m gen <;> simp [h, upd2]

theorem ensure_gens_other (g : Graph α) (s : SimState α) {m gen m2 g2 : Nat} (hne : ¬ (m2 = m ∧ g2 = gen)) :
    (ensure g s m gen).gens m2 g2 = s.gens m2 g2 := by
  unfold ensure
  cases h : s.gens m gen <;> simp [upd2, hne]

theorem ensure_gens_some (g : Graph α) (s : SimState α) {m gen m2 g2 : Nat} {d : GenData α}
    (h : s.gens m2 g2 = some d) : (ensure g s m gen).gens m2 g2 = some d := by
  by_cases e : m2 = m ∧ g2 = gen
  · obtain ⟨e1, e2⟩ := e; subst e1; subst e2
    rw [ensure_gens_self]; simp [effGen, h]
  · rw [ensure_gens_other g s e]; exact h

theorem effGen_ensure (g : Graph α) (s : SimState α) (m gen m2 g2 : Nat) :
    effGen g (ensure g s m gen) m2 g2 = effGen g s m2 g2 := by
  by_cases e : m2 = m ∧ g2 = gen
  · obtain ⟨e1, e2⟩ := e; subst e1; subst e2
    unfold effGen
    rw [ensure_gens_self]
    cases h : s.gens m2 g2 <;> simp [effGen, h]
  · unfold effGen; rw [ensure_gens_other g s e]

theorem effGen_of_some {g : Graph α} {s : SimState α} {m gen : Nat} {d : GenData α} (h : s.gens m gen = some d) :
    effGen g s m gen = d := by simp [effGen, h]

/-! ### schedules -/

/-- how far a schedule has progressed -/
structure Prog where
  /-- generations `< ran` have run -/
  ran : Nat
  /-- the outgoing links of generations `< linked` have been applied -/
  linked : Nat
  written : Nat → Bool
  purged : Nat → Bool

def Prog.init : Prog := ⟨0, 0, fun _ => false, fun _ => false⟩

/-- what the writer protocol guarantees about the order of actions (C07-T2): the main loop runs generation `i` after
the links of generation `i-1`; a generation is written after it has run and before it is purged, and only once; it is
purged only after it is written and its outgoing links are applied -/
def progStep (G : Nat) (p : Prog) : Act → Option Prog
  | .run i => if i = p.ran ∧ p.linked = i ∧ i < G then some { p with ran := i + 1 } else none
  | .links i => if i + 1 = p.ran ∧ p.linked = i then some { p with linked := i + 1 } else none
  | .write k =>
    if k < p.ran ∧ p.written k = false ∧ p.purged k = false then some { p with written := upd p.written k true } else none
  | .purge k => if p.written k = true ∧ k < p.linked then some { p with purged := upd p.purged k true } else none

def progRun (G : Nat) : Prog → List Act → Option Prog
  | p, [] => some p
  | p, a :: rest => match progStep G p a with
    | some p' => progRun G p' rest
    | none => none

/-- a schedule that respects the protocol and is complete: every generation run, linked and written -/
def SafeComplete (G : Nat) (acts : List Act) : Prop :=
  ∃ p, progRun G Prog.init acts = some p ∧ p.ran = G ∧ p.linked = G ∧ ∀ k, k < G → p.written k = true

structure PInv (G : Nat) (p : Prog) : Prop where
  ranG : p.ran ≤ G
  lr : p.linked ≤ p.ran
  rl : p.ran ≤ p.linked + 1
  wr : ∀ k, p.written k = true → k < p.ran
  pw : ∀ k, p.purged k = true → p.written k = true ∧ k < p.linked

theorem pinv_init (G : Nat) : PInv G Prog.init :=
  ⟨Nat.zero_le _, Nat.le_refl _, Nat.zero_le _, fun k h => by simp [Prog.init] at h, fun k h => by simp [Prog.init] at h⟩

theorem pinv_step {G : Nat} {p p' : Prog} {a : Act} (hp : PInv G p) (h : progStep G p a = some p') : PInv G p' := by
  cases a with
  | run i =>
    simp only [progStep] at h
    split at h
    · rename_i hc; cases h
      obtain ⟨h1, h2, h3⟩ := hc
      refine ⟨?_, ?_, ?_, ?_, hp.pw⟩
      · show i + 1 ≤ G; omega
      · show p.linked ≤ i + 1; omega
      · show i + 1 ≤ p.linked + 1; omega
      · intro k hk; have := hp.wr k hk; show k < i + 1; omega
    · cases h
  | links i =>
    simp only [progStep] at h
    split at h
    · rename_i hc; cases h
      obtain ⟨h1, h2⟩ := hc
      refine ⟨hp.ranG, ?_, ?_, hp.wr, ?_⟩
      · show i + 1 ≤ p.ran; omega
      · show p.ran ≤ i + 1 + 1; omega
      · intro k hk; have := hp.pw k hk; exact ⟨this.1, by show k < i + 1; omega⟩
    · cases h
  | write k =>
    simp only [progStep] at h
    split at h
    · rename_i hc; cases h
      obtain ⟨h1, h2, h3⟩ := hc
      refine ⟨hp.ranG, hp.lr, hp.rl, ?_, ?_⟩
      · intro k' hk'
        by_cases e : k' = k
        · subst e; exact h1
        · apply hp.wr k'; simpa [upd, e] using hk'
      · intro k' hk'
        have := hp.pw k' hk'
        refine ⟨?_, this.2⟩
        show upd p.written k true k' = true
        by_cases e : k' = k
        · simp [upd, e]
        · simp [upd, e, this.1]
    · cases h
  | purge k =>
    simp only [progStep] at h
    split at h
    · rename_i hc; cases h
      obtain ⟨h1, h2⟩ := hc
      refine ⟨hp.ranG, hp.lr, hp.rl, hp.wr, ?_⟩
      intro k' hk'
      by_cases e : k' = k
      · subst e; exact ⟨h1, h2⟩
      · apply hp.pw k'; simpa [upd, e] using hk'
    · cases h

end OW.Sim

namespace OW.Sim
variable {α : Type} [Num α]

/-! ### the invariant of the implementation-shaped semantics along a protocol-respecting schedule -/

/-- a generation that has run holds the reference results of its nodes -/
structure FinalData (g : Graph α) (D : Done α) (m gen : Nat) (d : GenData α) : Prop where
  count : d.count = countOf g m gen
  ran : 0 < countOf g m gen → d.ran = true
  vals : ∀ k, k < countOf g m gen →
    d.inputs k = (D m (rowOf g m gen k)).inputs ∧ d.outputs k = (D m (rowOf g m gen k)).res.outputs ∧
    d.states k = (D m (rowOf g m gen k)).res.states ∧ d.errs k = (D m (rowOf g m gen k)).res.err

/-- a generation that has not run yet holds the stored inputs plus the links applied so far (`pre`) -/
structure PendingData (g : Graph α) (D : Done α) (pre : List Link) (m gen : Nat) (d : GenData α) : Prop where
  count : d.count = countOf g m gen
  vals : ∀ k, k < countOf g m gen →
    d.inputs k = partialInput g D pre m (rowOf g m gen k) ∧
    d.states k = (g.model m).states.getD (rowOf g m gen k) [] ∧
    d.params k = (g.model m).params.getD (rowOf g m gen k) []

def rowOut (g : Graph α) (D : Done α) (m r : Nat) : Row α := mkRow g (g.model m) (D m r).inputs (D m r).res

structure DInv (g : Graph α) (D : Done α) (p : Prog) (pre : List Link) (s : SimState α) : Prop where
  cursor : s.nextLink = pre.length
  fin : ∀ m gen, m < g.models.length → gen < p.ran → p.purged gen = false →
    ∃ d, s.gens m gen = some d ∧ FinalData g D m gen d
  pend : ∀ m gen, m < g.models.length → p.ran ≤ gen → PendingData g D pre m gen (effGen g s m gen)
  file : ∀ m gen k, m < g.models.length → k < countOf g m gen →
    s.file m (rowOf g m gen k) = if p.written gen = true then some (rowOut g D m (rowOf g m gen k)) else none
  init : ∀ m, m < g.models.length → (s.initialised m = true ↔ ∃ gen, p.written gen = true ∧ 0 < countOf g m gen)

theorem loadGeneration_pending (g : Graph α) (D : Done α) (m gen : Nat) :
    PendingData g D [] m gen (loadGeneration g m gen) := by
  constructor
  · unfold loadGeneration countOf
    simp only []
    split <;> simp_all
  · intro k hk
    have hne : ¬ (stopOf (g.model m).batches gen - startOf (g.model m).batches gen = 0) := by
      unfold countOf at hk; omega
    unfold loadGeneration
    simp only [hne, if_false]
    exact ⟨rfl, rfl, rfl⟩

theorem dinv_init (g : Graph α) (D : Done α) : DInv g D Prog.init [] initState := by
  refine ⟨rfl, ?_, ?_, ?_, ?_⟩
  · intro m gen _ h; simp [Prog.init] at h
  · intro m gen _ _
    have : effGen g (initState : SimState α) m gen = loadGeneration g m gen := by simp [effGen, initState]
    rw [this]; exact loadGeneration_pending g D m gen
  · intro m gen k _ _; simp [initState, Prog.init]
  · intro m _; simp [initState, Prog.init]

theorem partialInput_snoc (g : Graph α) (D : Done α) (pre : List Link) (l : Link) (m r : Nat) :
    partialInput g D (pre ++ [l]) m r = stepIn D m r (partialInput g D pre m r) l := by
  unfold partialInput; rw [List.foldl_append]; rfl

/-- the destination generation after one link -/
def withLink (dst : GenData α) (l : Link) (srcData : List α) : GenData α :=
  { dst with inputs := upd dst.inputs l.destGenNode (addAt (dst.inputs l.destGenNode) l.destVar srcData) }

theorem applyLink_eq (g : Graph α) (s : SimState α) (l : Link) :
    applyLink g s l =
      { ensure g (ensure g s l.srcModel l.srcGen) l.destModel l.destGen with
        gens := upd2 (ensure g (ensure g s l.srcModel l.srcGen) l.destModel l.destGen).gens l.destModel l.destGen
          (some (withLink (effGen g s l.destModel l.destGen) l
            (((effGen g s l.srcModel l.srcGen).outputs l.srcGenNode).getD l.srcVar [])))
        nextLink := (ensure g (ensure g s l.srcModel l.srcGen) l.destModel l.destGen).nextLink + 1 } := by
  unfold applyLink withLink
  simp only [getGeneration_eq, effGen_ensure]

end OW.Sim

namespace OW.Sim
variable {α : Type} [Num α]

/-- one link of the generation whose links are being processed preserves the invariant (the cursor advances) -/
theorem dinv_applyLink {g : Graph α} (hv : ValidGraph g) {D : Done α} {p : Prog} {pre post : List Link} {l : Link}
    {s : SimState α} (hsplit : g.links = pre ++ l :: post) (hp : PInv g.genCount p) (hI : DInv g D p pre s)
    (hs : l.srcGen + 1 = p.ran) (hlk : p.linked = l.srcGen) :
    DInv g D p (pre ++ [l]) (applyLink g s l) := by
  have hl : l ∈ g.links := by rw [hsplit]; simp
  have ok := hv.link hl
  obtain ⟨se1, se2⟩ := ok.src_in
  obtain ⟨de1, de2⟩ := ok.dest_in
  have hsm : l.srcModel < g.models.length := ok.2.2.1
  have hdm : l.destModel < g.models.length := ok.2.2.2.1
  have hlt : l.srcGen < l.destGen := ok.1
  have hnp : p.purged l.srcGen = false := by
    cases h : p.purged l.srcGen with
    | false => rfl
    | true => have := (hp.pw _ h).2; omega
  obtain ⟨dsrc, hsrc, fsrc⟩ := hI.fin l.srcModel l.srcGen hsm (by omega) hnp
  have hsrcData : ((effGen g s l.srcModel l.srcGen).outputs l.srcGenNode).getD l.srcVar [] = linkSeries D l := by
    rw [effGen_of_some hsrc, (fsrc.vals _ se2).2.1]; unfold linkSeries; rw [se1]
  rw [applyLink_eq, hsrcData]
  refine ⟨?_, ?_, ?_, ?_, ?_⟩
  · show (ensure g (ensure g s l.srcModel l.srcGen) l.destModel l.destGen).nextLink + 1 = (pre ++ [l]).length
    rw [ensure_nextLink, ensure_nextLink, hI.cursor]; simp
  · intro m gen hm hgen hnpg
    obtain ⟨d, hd, fd⟩ := hI.fin m gen hm hgen hnpg
    refine ⟨d, ?_, fd⟩
    show upd2 _ l.destModel l.destGen _ m gen = some d
    have : ¬ (m = l.destModel ∧ gen = l.destGen) := by omega
    simp only [upd2, this, if_false]
    exact ensure_gens_some _ _ (ensure_gens_some _ _ hd)
  · intro m gen hm hgen
    by_cases e : m = l.destModel ∧ gen = l.destGen
    · obtain ⟨e1, e2⟩ := e; subst e1; subst e2
      have hnew : effGen g
          { ensure g (ensure g s l.srcModel l.srcGen) l.destModel l.destGen with
            gens := upd2 (ensure g (ensure g s l.srcModel l.srcGen) l.destModel l.destGen).gens l.destModel l.destGen
              (some (withLink (effGen g s l.destModel l.destGen) l (linkSeries D l)))
            nextLink := (ensure g (ensure g s l.srcModel l.srcGen) l.destModel l.destGen).nextLink + 1 }
          l.destModel l.destGen = withLink (effGen g s l.destModel l.destGen) l (linkSeries D l) := by
        apply effGen_of_some; simp [upd2]
      rw [hnew]
      have old := hI.pend l.destModel l.destGen hdm hgen
      constructor
      · exact old.count
      · intro k hk
        obtain ⟨o1, o2, o3⟩ := old.vals k hk
        refine ⟨?_, o2, o3⟩
        show upd (effGen g s l.destModel l.destGen).inputs l.destGenNode
            (addAt ((effGen g s l.destModel l.destGen).inputs l.destGenNode) l.destVar (linkSeries D l)) k = _
        rw [partialInput_snoc]
        unfold stepIn
        by_cases ek : k = l.destGenNode
        · subst ek
          simp only [upd, if_true, de1, and_self]
          rw [o1]
        · have hc : ¬ (l.destNode = rowOf g l.destModel l.destGen k) := by
            rw [de1]; unfold rowOf; omega
          simp only [upd, ek, if_false, hc, and_false]
          exact o1
    · have hnew : effGen g
          { ensure g (ensure g s l.srcModel l.srcGen) l.destModel l.destGen with
            gens := upd2 (ensure g (ensure g s l.srcModel l.srcGen) l.destModel l.destGen).gens l.destModel l.destGen
              (some (withLink (effGen g s l.destModel l.destGen) l (linkSeries D l)))
            nextLink := (ensure g (ensure g s l.srcModel l.srcGen) l.destModel l.destGen).nextLink + 1 }
          m gen = effGen g s m gen := by
        rw [← effGen_ensure g s l.srcModel l.srcGen m gen,
          ← effGen_ensure g (ensure g s l.srcModel l.srcGen) l.destModel l.destGen m gen]
        unfold effGen
        simp only [upd2, e, if_false]
      rw [hnew]
      have old := hI.pend m gen hm hgen
      constructor
      · exact old.count
      · intro k hk
        obtain ⟨o1, o2, o3⟩ := old.vals k hk
        refine ⟨?_, o2, o3⟩
        rw [partialInput_snoc, o1]
        unfold stepIn
        have hc : ¬ (l.destModel = m ∧ l.destNode = rowOf g m gen k) := by
          intro hc
          obtain ⟨a, _⟩ := link_dest_gen hv hl hk hc.1 hc.2
          exact e ⟨hc.1.symm, a.symm⟩
        simp only [hc, if_false]
  · intro m gen k hm hk
    show (ensure g (ensure g s l.srcModel l.srcGen) l.destModel l.destGen).file m (rowOf g m gen k) = _
    rw [ensure_file, ensure_file]; exact hI.file m gen k hm hk
  · intro m hm
    show (ensure g (ensure g s l.srcModel l.srcGen) l.destModel l.destGen).initialised m = true ↔ _
    rw [ensure_initialised, ensure_initialised]; exact hI.init m hm

end OW.Sim

namespace OW.Sim
variable {α : Type} [Num α]

theorem sorted_tail {l : Link} {rest : List Link} (h : SortedLinks (l :: rest)) : SortedLinks rest := h.2

theorem sorted_append_right : ∀ (pre post : List Link), SortedLinks (pre ++ post) → SortedLinks post
  | [], _, h => h
  | _ :: pre, post, h => sorted_append_right pre post h.2

theorem drop_length_append {β : Type} : ∀ (a b : List β), (a ++ b).drop a.length = b
  | [], _ => rfl
  | _ :: a, b => by simp

/-- the PROCESS LINKS loop of generation `i`: consumes exactly the links whose source generation is `i` -/
theorem dinv_processLinksFrom {g : Graph α} (hv : ValidGraph g) {D : Done α} {p : Prog} (hp : PInv g.genCount p)
    {i : Nat} (hi : i + 1 = p.ran) (hlk : p.linked = i) :
    ∀ (post pre : List Link) (s : SimState α), g.links = pre ++ post → DInv g D p pre s →
      (∀ l ∈ pre, l.srcGen < i + 1) → (∀ l ∈ post, i ≤ l.srcGen) → SortedLinks post →
      ∃ pre' post', g.links = pre' ++ post' ∧ DInv g D p pre' (processLinksFrom g i post s) ∧
        (∀ l ∈ pre', l.srcGen < i + 1) ∧ (∀ l ∈ post', i + 1 ≤ l.srcGen) := by
  intro post
  induction post with
  | nil =>
    intro pre s hsplit hI hpre _ _
    exact ⟨pre, [], hsplit, hI, hpre, fun l hl => by cases hl⟩
  | cons l rest ih =>
    intro pre s hsplit hI hpre hpost hsorted
    unfold processLinksFrom
    by_cases hgt : l.srcGen > i
    · simp only [hgt, if_true]
      refine ⟨pre, l :: rest, hsplit, hI, hpre, ?_⟩
      intro l' hl'
      rcases List.mem_cons.mp hl' with e | e
      · subst e; omega
      · have := hsorted.1 l' e; omega
    · simp only [hgt, if_false]
      have hli : l.srcGen = i := by have := hpost l List.mem_cons_self; omega
      have hI' := dinv_applyLink hv hsplit hp hI (by omega) (by omega)
      have hsplit' : g.links = (pre ++ [l]) ++ rest := by rw [hsplit]; simp
      refine ih (pre ++ [l]) (applyLink g s l) hsplit' hI' ?_ ?_ hsorted.2
      · intro l' hl'
        rcases List.mem_append.mp hl' with e | e
        · exact hpre l' e
        · have : l' = l := by simpa using e
          subst this; omega
      · intro l' hl'; exact hpost l' (List.mem_cons_of_mem _ hl')

end OW.Sim

namespace OW.Sim
variable {α : Type} [Num α]

/-! ### `runGeneration` -/

/-- generation `i` of model `m` after `runGeneration(i)` -/
def ranGen (run : RunFn α) (g : Graph α) (s : SimState α) (m i : Nat) : GenData α :=
  if (effGen g s m i).count = 0 then effGen g s m i else runGenData run (g.model m).name (effGen g s m i)

theorem upd2_upd2 {β : Type} (f : Nat → Nat → β) (i j : Nat) (a b : β) : upd2 (upd2 f i j a) i j b = upd2 f i j b := by
  funext x y; unfold upd2; split <;> rfl

theorem ensure_eq (g : Graph α) (s : SimState α) (m gen : Nat) :
    ensure g s m gen = { s with gens := upd2 s.gens m gen (some (effGen g s m gen)) } := by
  unfold ensure effGen
  cases h : s.gens m gen with
  | none => rfl
  | some d =>
    simp only []
    cases s with
    | mk gens nl ini file =>
      simp only [SimState.mk.injEq, and_true]
      funext x y
      unfold upd2
      split
      · rename_i hc; obtain ⟨e1, e2⟩ := hc; subst e1; subst e2; exact h
      · rfl

theorem runModelGen_eq (run : RunFn α) (g : Graph α) (i : Nat) (s : SimState α) (m : Nat) :
    runModelGen run g i s m = { s with gens := upd2 s.gens m i (some (ranGen run g s m i)) } := by
  unfold runModelGen ranGen
  simp only [getGeneration_eq]
  by_cases hc : (effGen g s m i).count = 0
  · rw [if_pos hc, if_pos hc]; exact ensure_eq g s m i
  · rw [if_neg hc, if_neg hc]
    rw [ensure_eq]; simp only [upd2_upd2]

theorem effGen_congr (g : Graph α) {s s' : SimState α} {m gen : Nat} (h : s'.gens m gen = s.gens m gen) :
    effGen g s' m gen = effGen g s m gen := by unfold effGen; rw [h]

theorem runGeneration_spec (run : RunFn α) (g : Graph α) (i : Nat) (s0 : SimState α) :
    ∀ n, ((List.range n).foldl (runModelGen run g i) s0).nextLink = s0.nextLink ∧
      ((List.range n).foldl (runModelGen run g i) s0).file = s0.file ∧
      ((List.range n).foldl (runModelGen run g i) s0).initialised = s0.initialised ∧
      ∀ m2 g2, ((List.range n).foldl (runModelGen run g i) s0).gens m2 g2 =
        if g2 = i ∧ m2 < n then some (ranGen run g s0 m2 i) else s0.gens m2 g2 := by
  intro n
  induction n with
  | zero => simp
  | succ n ih =>
    obtain ⟨h1, h2, h3, h4⟩ := ih
    rw [range_foldl_succ, runModelGen_eq]
    refine ⟨h1, h2, h3, ?_⟩
    intro m2 g2
    show upd2 _ n i _ m2 g2 = _
    have hn : ((List.range n).foldl (runModelGen run g i) s0).gens n i = s0.gens n i := by
      rw [h4 n i]; simp
    have hr : ranGen run g ((List.range n).foldl (runModelGen run g i) s0) n i = ranGen run g s0 n i := by
      unfold ranGen; rw [effGen_congr g hn]
    unfold upd2
    by_cases e : m2 = n ∧ g2 = i
    · obtain ⟨e1, e2⟩ := e; subst e1; subst e2
      simp [hr]
    · simp only [e, if_false]
      rw [h4 m2 g2]
      by_cases e2 : g2 = i
      · subst e2
        have : m2 ≠ n := fun a => e ⟨a, rfl⟩
        have a : (m2 < n + 1) ↔ (m2 < n) := by omega
        simp [a]
      · simp [e2]

/-- links that are still to be processed do not reach the generation that runs now -/
theorem partialInput_all {g : Graph α} (hv : ValidGraph g) (D : Done α) {pre post : List Link} {m i k : Nat}
    (hsplit : g.links = pre ++ post) (hpost : ∀ l ∈ post, i ≤ l.srcGen) (hk : k < countOf g m i) :
    partialInput g D g.links m (rowOf g m i k) = partialInput g D pre m (rowOf g m i k) := by
  unfold partialInput
  rw [hsplit, List.foldl_append]
  apply foldl_stepIn_skip
  intro l hl hc
  have hlg : l ∈ g.links := by rw [hsplit]; exact List.mem_append_right _ hl
  obtain ⟨a, _⟩ := link_dest_gen hv hlg hk hc.1 hc.2
  have := (hv.link hlg).1
  have := hpost l hl
  omega

theorem dinv_run (run : RunFn α) {g : Graph α} (hv : ValidGraph g) {p : Prog} {pre post : List Link} {s : SimState α}
    {i : Nat} (hsplit : g.links = pre ++ post) (hpost : ∀ l ∈ post, p.linked ≤ l.srcGen)
    (hI : DInv g (refDone run g g.genCount) p pre s) (hr : i = p.ran) (hl : p.linked = i) :
    DInv g (refDone run g g.genCount) { p with ran := i + 1 } pre (runGeneration run g i s) := by
  obtain ⟨h1, h2, h3, h4⟩ := runGeneration_spec run g i s g.models.length
  unfold runGeneration
  refine ⟨?_, ?_, ?_, ?_, ?_⟩
  · rw [h1]; exact hI.cursor
  · intro m gen hm hgen hnp
    by_cases e : gen = i
    · subst e
      refine ⟨ranGen run g s m gen, by rw [h4 m gen]; simp [hm], ?_⟩
      have old := hI.pend m gen hm (by omega)
      unfold ranGen
      by_cases hc : (effGen g s m gen).count = 0
      · simp only [hc, if_true]
        have hz : countOf g m gen = 0 := by rw [← old.count]; exact hc
        exact ⟨old.count, fun h => by omega, fun k hk => by omega⟩
      · simp only [hc, if_false]
        unfold runGenData
        simp only [hc, if_false]
        refine ⟨old.count, fun _ => rfl, ?_⟩
        intro k hk
        obtain ⟨o1, o2, o3⟩ := old.vals k hk
        have fx := ref_fixed run g hv hm hk
        have hin : (effGen g s m gen).inputs k = nodeInput g (refDone run g g.genCount) m (rowOf g m gen k) := by
          rw [o1, nodeInput_eq]
          exact (partialInput_all hv _ hsplit (fun l hl' => by have := hpost l hl'; omega) hk).symm
        have hrow : refDone run g g.genCount m (rowOf g m gen k) =
            ⟨(effGen g s m gen).inputs k,
              run (g.model m).name ((effGen g s m gen).params k) ((effGen g s m gen).inputs k) ((effGen g s m gen).states k)⟩ := by
          rw [fx]; unfold runNodeAt; rw [hin, o2, o3, ← hin]
        simp only []
        rw [hrow]
        exact ⟨rfl, rfl, rfl, rfl⟩
    · have hne : ¬ (gen = i ∧ m < g.models.length) := fun a => e a.1
      obtain ⟨d, hd, fd⟩ := hI.fin m gen hm (by show gen < p.ran; have : gen < i + 1 := hgen; omega) hnp
      exact ⟨d, by rw [h4 m gen]; simp [e]; exact hd, fd⟩
  · intro m gen hm hgen
    have hgen' : i + 1 ≤ gen := hgen
    have hne : ¬ (gen = i ∧ m < g.models.length) := by omega
    have : effGen g ((List.range g.models.length).foldl (runModelGen run g i) s) m gen = effGen g s m gen := by
      apply effGen_congr; rw [h4 m gen]; simp [hne]
    rw [this]
    exact hI.pend m gen hm (by omega)
  · intro m gen k hm hk
    rw [h2]; exact hI.file m gen k hm hk
  · intro m hm
    rw [h3]; exact hI.init m hm

end OW.Sim

namespace OW.Sim
variable {α : Type} [Num α]

/-! ### `writeGeneration`, `PurgeGeneration` -/

theorem ensure_of_some (g : Graph α) {s : SimState α} {m gen : Nat} {d : GenData α} (h : s.gens m gen = some d) :
    ensure g s m gen = s := by unfold ensure; rw [h]

theorem writeData_final {g : Graph α} {D : Done α} {m k : Nat} {s : SimState α} {d : GenData α}
    (h : s.gens m k = some d) (fd : FinalData g D m k d) :
    writeData g k s m =
      if countOf g m k = 0 then s
      else { s with
        initialised := upd s.initialised m true
        file := fun m' r =>
          if m' = m ∧ startOf (g.model m).batches k ≤ r ∧ r < startOf (g.model m).batches k + countOf g m k then
            some (rowOut g D m r)
          else s.file m' r } := by
  unfold writeData
  simp only [getGeneration_eq, ensure_of_some g h, effGen_of_some h, fd.count]
  by_cases hc : countOf g m k = 0
  · simp only [hc, if_true]
  · simp only [hc, if_false]
    have hr : d.ran = true := fd.ran (by omega)
    simp only [hr, Bool.not_true, Bool.false_and, Bool.false_eq_true, if_false]
    congr 1
    funext m' r
    by_cases hin : m' = m ∧ startOf (g.model m).batches k ≤ r ∧ r < startOf (g.model m).batches k + countOf g m k
    · simp only [hin, and_self, if_true]
      obtain ⟨_, h1, h2⟩ := hin
      have hj : r - startOf (g.model m).batches k < countOf g m k := by omega
      obtain ⟨v1, v2, v3, v4⟩ := fd.vals _ hj
      have hrow : rowOf g m k (r - startOf (g.model m).batches k) = r := by unfold rowOf; omega
      rw [hrow] at v1 v2 v3 v4
      rw [v1, v2, v3, v4]
      rfl
    · simp only [hin, if_false]

theorem writeGeneration_spec {g : Graph α} {D : Done α} {k : Nat} (s0 : SimState α) :
    ∀ n, (∀ m, m < n → ∃ d, s0.gens m k = some d ∧ FinalData g D m k d) →
      ((List.range n).foldl (writeData g k) s0).gens = s0.gens ∧
      ((List.range n).foldl (writeData g k) s0).nextLink = s0.nextLink ∧
      (∀ m, ((List.range n).foldl (writeData g k) s0).initialised m = true ↔
        (s0.initialised m = true ∨ (m < n ∧ 0 < countOf g m k))) ∧
      (∀ m r, ((List.range n).foldl (writeData g k) s0).file m r =
        if m < n ∧ startOf (g.model m).batches k ≤ r ∧ r < startOf (g.model m).batches k + countOf g m k then
          some (rowOut g D m r)
        else s0.file m r) := by
  intro n
  induction n with
  | zero => intro _; simp
  | succ n ih =>
    intro hall
    obtain ⟨h1, h2, h3, h4⟩ := ih (fun m hm => hall m (by omega))
    obtain ⟨d, hd, fd⟩ := hall n (by omega)
    have hd' : ((List.range n).foldl (writeData g k) s0).gens n k = some d := by rw [h1]; exact hd
    rw [range_foldl_succ, writeData_final hd' fd]
    by_cases hc : countOf g n k = 0
    · simp only [hc, if_true]
      refine ⟨h1, h2, ?_, ?_⟩
      · intro m
        rw [h3 m]
        constructor
        · rintro (a | ⟨a, b⟩)
          · exact Or.inl a
          · exact Or.inr ⟨by omega, b⟩
        · rintro (a | ⟨a, b⟩)
          · exact Or.inl a
          · have : m ≠ n := by intro e; subst e; omega
            exact Or.inr ⟨by omega, b⟩
      · intro m r
        rw [h4 m r]
        by_cases e : m = n
        · subst e
          have a : ¬ (m < m ∧ startOf (g.model m).batches k ≤ r ∧ r < startOf (g.model m).batches k + countOf g m k) := by omega
          have b : ¬ (m < m + 1 ∧ startOf (g.model m).batches k ≤ r ∧ r < startOf (g.model m).batches k + countOf g m k) := by omega
          simp only [a, b, if_false]
        · have a : m < n + 1 ↔ m < n := by omega
          simp only [a]
    · simp only [hc, if_false]
      refine ⟨h1, h2, ?_, ?_⟩
      · intro m
        show upd _ n true m = true ↔ _
        by_cases e : m = n
        · subst e
          simp only [upd, if_true, true_iff]
          exact Or.inr ⟨by omega, by omega⟩
        · simp only [upd, e, if_false]
          rw [h3 m]
          have a : m < n + 1 ↔ m < n := by omega
          simp only [a]
      · intro m r
        show (if m = n ∧ _ then _ else _) = _
        by_cases e : m = n
        · subst e
          by_cases hin : startOf (g.model m).batches k ≤ r ∧ r < startOf (g.model m).batches k + countOf g m k
          · simp [hin]
          · have c : ¬ (m < m ∧ startOf (g.model m).batches k ≤ r ∧ r < startOf (g.model m).batches k + countOf g m k) := by omega
            simp only [hin, and_false, if_false]
            rw [h4 m r]; simp only [c, if_false]
        · have a : ¬ (m = n ∧ startOf (g.model n).batches k ≤ r ∧ r < startOf (g.model n).batches k + countOf g n k) :=
            fun x => e x.1
          simp only [a, if_false]
          rw [h4 m r]
          have b : m < n + 1 ↔ m < n := by omega
          simp only [b]

end OW.Sim

namespace OW.Sim
variable {α : Type} [Num α]

theorem dinv_write {g : Graph α} (hv : ValidGraph g) {D : Done α} {p : Prog} {pre : List Link} {s : SimState α} {k : Nat}
    (hI : DInv g D p pre s) (hk : k < p.ran) (hnp : p.purged k = false) :
    DInv g D { p with written := upd p.written k true } pre (writeGeneration g k s) := by
  have hall : ∀ m, m < g.models.length → ∃ d, s.gens m k = some d ∧ FinalData g D m k d :=
    fun m hm => hI.fin m k hm hk hnp
  obtain ⟨h1, h2, h3, h4⟩ := writeGeneration_spec (D := D) s g.models.length hall
  unfold writeGeneration
  refine ⟨?_, ?_, ?_, ?_, ?_⟩
  · rw [h2]; exact hI.cursor
  · intro m gen hm hgen hnpg
    rw [h1]; exact hI.fin m gen hm hgen hnpg
  · intro m gen hm hgen
    have : effGen g ((List.range g.models.length).foldl (writeData g k) s) m gen = effGen g s m gen :=
      effGen_congr g (by rw [h1])
    rw [this]; exact hI.pend m gen hm hgen
  · intro m gen j hm hj
    rw [h4]
    show _ = if upd p.written k true gen = true then _ else _
    by_cases e : gen = k
    · subst e
      have : m < g.models.length ∧ startOf (g.model m).batches gen ≤ rowOf g m gen j ∧
          rowOf g m gen j < startOf (g.model m).batches gen + countOf g m gen := by
        refine ⟨hm, ?_, ?_⟩ <;> (unfold rowOf; omega)
      simp [this, upd]
    · have hin := inGen_rowOf hj
      have hnot : ¬ inGen (g.model m).batches k (rowOf g m gen j) :=
        not_inGen_of_other (hv.mono hm) (gen_lt_of_count (by omega)) hin e
      have : ¬ (m < g.models.length ∧ startOf (g.model m).batches k ≤ rowOf g m gen j ∧
          rowOf g m gen j < startOf (g.model m).batches k + countOf g m k) := by
        intro hc
        apply hnot
        unfold inGen
        have := hc.2.1; have := hc.2.2
        unfold countOf at *
        omega
      simp only [this, if_false, upd, e]
      exact hI.file m gen j hm hj
  · intro m hm
    rw [h3 m, hI.init m hm]
    show _ ↔ ∃ gen, upd p.written k true gen = true ∧ 0 < countOf g m gen
    constructor
    · rintro (⟨gen, a, b⟩ | ⟨_, b⟩)
      · refine ⟨gen, ?_, b⟩
        by_cases e : gen = k <;> simp [upd, e, a]
      · exact ⟨k, by simp [upd], b⟩
    · rintro ⟨gen, a, b⟩
      by_cases e : gen = k
      · subst e; exact Or.inr ⟨hm, b⟩
      · exact Or.inl ⟨gen, by simpa [upd, e] using a, b⟩

theorem dinv_purge {g : Graph α} {D : Done α} {p : Prog} {pre : List Link} {s : SimState α} {k : Nat}
    (hI : DInv g D p pre s) (hk : k < p.ran) :
    DInv g D { p with purged := upd p.purged k true } pre (purgeGeneration g k s) := by
  refine ⟨hI.cursor, ?_, ?_, hI.file, hI.init⟩
  · intro m gen hm hgen hnpg
    have e : gen ≠ k := by
      intro e; subst e
      have : upd p.purged gen true gen = false := hnpg
      simp [upd] at this
    have hold : p.purged gen = false := by
      have : upd p.purged k true gen = false := hnpg
      simpa [upd, e] using this
    obtain ⟨d, hd, fd⟩ := hI.fin m gen hm hgen hold
    refine ⟨d, ?_, fd⟩
    show (if gen = k ∧ m < g.models.length then none else s.gens m gen) = some d
    simp [e, hd]
  · intro m gen hm hgen
    have hgen' : p.ran ≤ gen := hgen
    have e : ¬ (gen = k ∧ m < g.models.length) := by omega
    have : effGen g (purgeGeneration g k s) m gen = effGen g s m gen := by
      apply effGen_congr
      show (if gen = k ∧ m < g.models.length then none else s.gens m gen) = s.gens m gen
      simp [e]
    rw [this]
    exact hI.pend m gen hm hgen

/-- everything the implementation-shaped state satisfies after a protocol-respecting prefix of a schedule -/
structure SInv (run : RunFn α) (g : Graph α) (p : Prog) (s : SimState α) : Prop where
  pinv : PInv g.genCount p
  ex : ∃ pre post, g.links = pre ++ post ∧ (∀ l ∈ pre, l.srcGen < p.linked) ∧ (∀ l ∈ post, p.linked ≤ l.srcGen) ∧
    DInv g (refDone run g g.genCount) p pre s

theorem sinv_init (run : RunFn α) (g : Graph α) : SInv run g Prog.init initState :=
  ⟨pinv_init _, ⟨[], g.links, rfl, fun l h => by simp at h, fun l _ => Nat.zero_le _, dinv_init g _⟩⟩

theorem sinv_step (run : RunFn α) {g : Graph α} (hv : ValidGraph g) {p p' : Prog} {s : SimState α} {a : Act}
    (h : SInv run g p s) (hs : progStep g.genCount p a = some p') : SInv run g p' (exec run g s a) := by
  have hp' := pinv_step h.pinv hs
  obtain ⟨pre, post, hsplit, hpre, hpost, hI⟩ := h.ex
  cases a with
  | run i =>
    simp only [progStep] at hs
    split at hs
    · rename_i hc; cases hs
      obtain ⟨h1, h2, h3⟩ := hc
      exact ⟨hp', pre, post, hsplit, hpre, hpost, dinv_run run hv hsplit hpost hI h1 h2⟩
    · cases hs
  | links i =>
    simp only [progStep] at hs
    split at hs
    · rename_i hc; cases hs
      obtain ⟨h1, h2⟩ := hc
      have hdrop : g.links.drop s.nextLink = post := by rw [hI.cursor, hsplit]; exact drop_length_append pre post
      have hsorted : SortedLinks post := sorted_append_right pre post (by rw [← hsplit]; exact hv.sorted)
      obtain ⟨pre', post', hsplit', hI', hpre', hpost'⟩ :=
        dinv_processLinksFrom hv h.pinv h1 h2 post pre s hsplit hI
          (fun l hl => by have := hpre l hl; omega) (fun l hl => by have := hpost l hl; omega) hsorted
      refine ⟨hp', pre', post', hsplit', hpre', hpost', ?_⟩
      show DInv g _ { p with linked := i + 1 } pre' (processLinks g i s)
      unfold processLinks
      rw [hdrop]
      exact ⟨hI'.cursor, hI'.fin, hI'.pend, hI'.file, hI'.init⟩
    · cases hs
  | write k =>
    simp only [progStep] at hs
    split at hs
    · rename_i hc; cases hs
      obtain ⟨h1, _, h3⟩ := hc
      exact ⟨hp', pre, post, hsplit, hpre, hpost, dinv_write hv hI h1 h3⟩
    · cases hs
  | purge k =>
    simp only [progStep] at hs
    split at hs
    · rename_i hc; cases hs
      obtain ⟨h1, h2⟩ := hc
      have := h.pinv.lr
      exact ⟨hp', pre, post, hsplit, hpre, hpost, dinv_purge hI (by omega)⟩
    · cases hs

theorem sinv_run (run : RunFn α) {g : Graph α} (hv : ValidGraph g) :
    ∀ (acts : List Act) (p p' : Prog) (s : SimState α), SInv run g p s → progRun g.genCount p acts = some p' →
      SInv run g p' (acts.foldl (exec run g) s) := by
  intro acts
  induction acts with
  | nil => intro p p' s h hr; simp only [progRun] at hr; cases hr; exact h
  | cons a rest ih =>
    intro p p' s h hr
    simp only [progRun] at hr
    split at hr
    · rename_i p1 hs
      exact ih p1 p' _ (sinv_step run hv h hs) hr
    · cases hr

theorem total_pos_iff {b : List Nat} (hlen : 1 ≤ b.length) (hm : MonoBatches b) :
    0 < totalOf b ↔ ∃ gen, gen < b.length ∧ 0 < stopOf b gen - startOf b gen := by
  constructor
  · intro h
    obtain ⟨gen, hg, hin⟩ := inGen_cover hlen h
    exact ⟨gen, hg, by have := hin.1; have := hin.2; omega⟩
  · rintro ⟨gen, hg, hc⟩
    have := stop_le_total hm hg
    omega

/-- **T1, general form**: for every valid graph, every kernel function and every complete schedule of main-loop and
writer actions that respects the protocol, the output file of the implementation-shaped semantics is the reference
result -/
theorem owsimSched_eq_ref (run : RunFn α) {g : Graph α} (hv : ValidGraph g) {acts : List Act}
    (hsc : SafeComplete g.genCount acts) : owsimSched run g acts = refSem run g := by
  obtain ⟨p, hrun, hran, hlinked, hwritten⟩ := hsc
  have hS := sinv_run run hv acts Prog.init p initState (sinv_init run g) hrun
  obtain ⟨pre, post, _, _, _, hI⟩ := hS.ex
  unfold owsimSched resultOf refSem execAll
  apply List.map_congr_left
  intro m hm
  have hm' : m < g.models.length := List.mem_range.mp hm
  have hlen := hv.len hm'
  have hmono := hv.mono hm'
  have hG := hv.genPos
  unfold fileModelOut refModelOut
  have hcreated : (acts.foldl (exec run g) initState).initialised m = decide (0 < totalOf (g.model m).batches) := by
    have hi := hI.init m hm'
    have ht := total_pos_iff (by omega) hmono
    by_cases hpos : 0 < totalOf (g.model m).batches
    · obtain ⟨gen, hg, hc⟩ := ht.mp hpos
      have : (acts.foldl (exec run g) initState).initialised m = true :=
        hi.mpr ⟨gen, hwritten gen (by omega), hc⟩
      simp [this, hpos]
    · have : ¬ ((acts.foldl (exec run g) initState).initialised m = true) := by
        intro a
        obtain ⟨gen, hw, hc⟩ := hi.mp a
        have hgr := hS.pinv.wr gen hw
        exact hpos (ht.mpr ⟨gen, by omega, hc⟩)
      simp only [hpos, decide_false]
      cases h : (acts.foldl (exec run g) initState).initialised m with
      | false => rfl
      | true => exact absurd h this
  have hrows : (List.range (totalOf (g.model m).batches)).map (fun r => (acts.foldl (exec run g) initState).file m r) =
      (List.range (totalOf (g.model m).batches)).map (fun r =>
        some (mkRow g (g.model m) (refDone run g g.genCount m r).inputs (refDone run g g.genCount m r).res)) := by
    apply List.map_congr_left
    intro r hr
    have hr' : r < totalOf (g.model m).batches := List.mem_range.mp hr
    obtain ⟨gen, hg, hin⟩ := inGen_cover (by omega) hr'
    have hj : r - startOf (g.model m).batches gen < countOf g m gen := by
      unfold countOf; have := hin.1; have := hin.2; omega
    have hrow : rowOf g m gen (r - startOf (g.model m).batches gen) = r := by
      unfold rowOf; have := hin.1; omega
    have := hI.file m gen _ hm' hj
    rw [hrow] at this
    rw [this, hwritten gen (by omega)]
    rfl
  rw [hcreated, hrows]

end OW.Sim

namespace OW.Sim

/-! ### the two concrete schedules respect the protocol -/

theorem progRun_append (G : Nat) : ∀ (a b : List Act) (p : Prog),
    progRun G p (a ++ b) = match progRun G p a with
      | some p' => progRun G p' b
      | none => none := by
  intro a
  induction a with
  | nil => intro b p; rfl
  | cons x rest ih =>
    intro b p
    simp only [List.cons_append, progRun]
    cases h : progStep G p x with
    | none => rfl
    | some p1 => exact ih b p1

theorem earlySchedule_succ (n : Nat) :
    earlySchedule (n + 1) = earlySchedule n ++
      ([Act.run n] ++ (if n = 0 then [] else [Act.purge (n - 1)]) ++ [Act.write n, Act.links n]) := by
  unfold earlySchedule
  rw [List.range_succ, List.flatMap_append]
  simp

theorem earlySchedule_prog (G : Nat) : ∀ n, n ≤ G →
    ∃ p, progRun G Prog.init (earlySchedule n) = some p ∧ p.ran = n ∧ p.linked = n ∧
      (∀ k, p.written k = decide (k < n)) ∧ (∀ k, p.purged k = decide (k + 1 < n)) := by
  intro n
  induction n with
  | zero =>
    intro _
    exact ⟨Prog.init, rfl, rfl, rfl, fun k => by simp [Prog.init], fun k => by simp [Prog.init]⟩
  | succ n ih =>
    intro hn
    obtain ⟨p, hp, h1, h2, h3, h4⟩ := ih (by omega)
    rw [earlySchedule_succ, progRun_append, hp]
    by_cases h0 : n = 0
    · subst h0
      have e1 : progStep G p (Act.run 0) = some { p with ran := 0 + 1 } := by
        simp only [progStep]; rw [if_pos ⟨h1.symm, h2, by omega⟩]
      have e2 : progStep G { p with ran := 0 + 1 } (Act.write 0) =
          some { p with ran := 0 + 1, written := upd p.written 0 true } := by
        simp only [progStep]
        rw [if_pos ⟨by simp, by rw [h3]; simp, by rw [h4]; simp⟩]
      have e3 : progStep G { p with ran := 0 + 1, written := upd p.written 0 true } (Act.links 0) =
          some { p with ran := 0 + 1, written := upd p.written 0 true, linked := 0 + 1 } := by
        simp only [progStep]; rw [if_pos ⟨trivial, h2⟩]
      refine ⟨{ p with ran := 0 + 1, written := upd p.written 0 true, linked := 0 + 1 }, ?_, rfl, rfl, ?_, ?_⟩
      · simp only [if_true, List.append_nil, List.singleton_append, progRun, e1, e2, e3]
      · intro k
        show upd p.written 0 true k = decide (k < 0 + 1)
        by_cases e : k = 0
        · simp [upd, e]
        · simp only [upd, e, if_false]; rw [h3]; have : ¬ k < 0 + 1 := by omega
          simp [this]
      · intro k
        show p.purged k = decide (k + 1 < 0 + 1)
        rw [h4]; simp
    · have e1 : progStep G p (Act.run n) = some { p with ran := n + 1 } := by
        simp only [progStep]; rw [if_pos ⟨h1.symm, h2, by omega⟩]
      have e2 : progStep G { p with ran := n + 1 } (Act.purge (n - 1)) =
          some { p with ran := n + 1, purged := upd p.purged (n - 1) true } := by
        simp only [progStep]
        rw [if_pos ⟨by rw [h3]; simp; omega, by show n - 1 < p.linked; omega⟩]
      have e3 : progStep G { p with ran := n + 1, purged := upd p.purged (n - 1) true } (Act.write n) =
          some { p with ran := n + 1, purged := upd p.purged (n - 1) true, written := upd p.written n true } := by
        simp only [progStep]
        have hne : n ≠ n - 1 := by omega
        rw [if_pos ⟨by simp, by rw [h3]; simp, by simp only [upd, hne, if_false]; rw [h4]; simp⟩]
      have e4 : progStep G { p with ran := n + 1, purged := upd p.purged (n - 1) true, written := upd p.written n true }
          (Act.links n) =
          some { p with ran := n + 1, purged := upd p.purged (n - 1) true, written := upd p.written n true,
                        linked := n + 1 } := by
        simp only [progStep]; rw [if_pos ⟨trivial, h2⟩]
      refine ⟨{ p with ran := n + 1, purged := upd p.purged (n - 1) true, written := upd p.written n true,
                       linked := n + 1 }, ?_, rfl, rfl, ?_, ?_⟩
      · simp only [h0, if_false, List.cons_append, List.nil_append, progRun, e1, e2, e3, e4]
      · intro k
        show upd p.written n true k = decide (k < n + 1)
        by_cases e : k = n
        · simp [upd, e]
        · simp only [upd, e, if_false]; rw [h3]
          have : k < n ↔ k < n + 1 := by omega
          simp [this]
      · intro k
        show upd p.purged (n - 1) true k = decide (k + 1 < n + 1)
        by_cases e : k = n - 1
        · have : k + 1 < n + 1 := by omega
          simp [upd, e]; omega
        · simp only [upd, e, if_false]; rw [h4]
          have : k + 1 < n ↔ k + 1 < n + 1 := by omega
          simp [this]

theorem earlySchedule_safe (G : Nat) : SafeComplete G (earlySchedule G) := by
  obtain ⟨p, hp, h1, h2, h3, _⟩ := earlySchedule_prog G G (Nat.le_refl _)
  exact ⟨p, hp, h1, h2, fun k hk => by rw [h3]; simp [hk]⟩

end OW.Sim
