import OW.Sim.Graph
/-!
Helper lemmas for property C07 (ow-sim = sequential reference semantics): row ranges of generations (`batches`),
the specification's fixed-point equation, and the invariant of the implementation-shaped semantics under an arbitrary
protocol-respecting schedule. Core Lean only.
-/
namespace OW.Sim
variable {α : Type}

/-! ### row ranges -/

theorem startOf_succ (b : List Nat) (g : Nat) : startOf b (g + 1) = stopOf b g := by
  simp [startOf, stopOf]

theorem mono_le {b : List Nat} (hm : MonoBatches b) {i j : Nat} (hij : i ≤ j) (hj : j < b.length) :
    b.getD i 0 ≤ b.getD j 0 := by
  induction j with
  | zero =>
    have : i = 0 := by omega
    subst this; exact Nat.le_refl _
  | succ n ih =>
    by_cases h : i = n + 1
    · subst h; exact Nat.le_refl _
    · have h1 : b.getD i 0 ≤ b.getD n 0 := ih (by omega) (by omega)
      have h2 : b.getD n 0 ≤ b.getD (n + 1) 0 := hm n (by omega)
      exact Nat.le_trans h1 h2

theorem start_le_stop {b : List Nat} (hm : MonoBatches b) {g : Nat} (hg : g < b.length) :
    startOf b g ≤ stopOf b g := by
  unfold startOf stopOf
  split
  · exact Nat.zero_le _
  · exact mono_le hm (by omega) hg

theorem stop_le_total {b : List Nat} (hm : MonoBatches b) {g : Nat} (hg : g < b.length) :
    stopOf b g ≤ totalOf b := by
  unfold stopOf totalOf
  exact mono_le hm (by omega) (by omega)

theorem inGen_lt_total {b : List Nat} (hm : MonoBatches b) {g r : Nat} (hg : g < b.length) (h : inGen b g r) :
    r < totalOf b := Nat.lt_of_lt_of_le h.2 (stop_le_total hm hg)

theorem inGen_cover_aux (b : List Nat) (r : Nat) :
    ∀ n, r < stopOf b n → ∃ g, g ≤ n ∧ inGen b g r := by
  intro n
  induction n with
  | zero => intro h; exact ⟨0, Nat.le_refl _, by simp [inGen, startOf, h]⟩
  | succ n ih =>
    intro h
    by_cases h' : r < stopOf b n
    · obtain ⟨g, hg, hin⟩ := ih h'
      exact ⟨g, by omega, hin⟩
    · exact ⟨n + 1, Nat.le_refl _, by rw [startOf_succ]; omega, h⟩

theorem inGen_cover {b : List Nat} {r : Nat} (hlen : 1 ≤ b.length) (h : r < totalOf b) :
    ∃ g, g < b.length ∧ inGen b g r := by
  obtain ⟨g, hg, hin⟩ := inGen_cover_aux b r (b.length - 1) h
  exact ⟨g, by omega, hin⟩

theorem inGen_unique {b : List Nat} (hm : MonoBatches b) {g1 g2 r : Nat} (h2 : g2 < b.length)
    (hlt : g1 < g2) (a : inGen b g1 r) (c : inGen b g2 r) : False := by
  have h3 : stopOf b g1 ≤ startOf b g2 := by
    unfold stopOf startOf
    have : g2 ≠ 0 := by omega
    simp [this]
    exact mono_le hm (by omega) (by omega)
  have := a.2; have := c.1
  omega

theorem inGen_inj {b : List Nat} (hm : MonoBatches b) {g1 g2 r : Nat} (h1 : g1 < b.length) (h2 : g2 < b.length)
    (a : inGen b g1 r) (c : inGen b g2 r) : g1 = g2 := by
  rcases Nat.lt_trichotomy g1 g2 with h | h | h
  · exact (inGen_unique hm h2 h a c).elim
  · exact h
  · exact (inGen_unique hm h1 h c a).elim

end OW.Sim
