import OW.Proofs.NdC01Ops
import OW.Proofs.NdC02Bulk
/-!
Helper lemmas for C01, write footprints of the bulk operations.

* `writeList h sid ws`: a sequence of `setStore`s on one storage, with its pointwise footprint;
* `addr v loc`: the pure address `Start + Σ locᵢ·OffsetStepᵢ` (= `Index` on a `Geo` view);
* `setSeq h a ws`: a sequence of `Set`s through one array = one `writeList` (`setSeq_eq`), footprint `setSeq_footprint`;
* `contig_addr`: on a contiguous view the address of an in-bounds index is `Start + ravel` (from agentH's `Dense` lemmas).
-/
namespace OW.Nd

section
variable {α : Type}

/-! ### sequences of storage writes -/

/-- write the values at the given positions of storage `sid`, in list order -/
def writeList (h : Heap α) (sid : Nat) : List (Nat × α) → Heap α
  | [] => h
  | (pos, x) :: rest => writeList (setStore h sid pos x) sid rest

theorem sameShape_writeList (sid : Nat) : ∀ (ws : List (Nat × α)) (h : Heap α), SameShape h (writeList h sid ws)
  | [], h => SameShape.refl h
  | (pos, x) :: rest, h =>
    (sameShape_setStore h sid pos x).trans (sameShape_writeList sid rest (setStore h sid pos x))

/-- cells that are not written keep their value -/
theorem cell_writeList_other (sid : Nat) (t q : Nat) : ∀ (ws : List (Nat × α)) (h : Heap α),
    (t ≠ sid ∨ ∀ w ∈ ws, q ≠ w.1) → cell (writeList h sid ws) t q = cell h t q
  | [], _, _ => rfl
  | (pos, x) :: rest, h, hne => by
    simp only [writeList]
    rw [cell_writeList_other sid t q rest _ (by
      rcases hne with h1 | h2
      · exact Or.inl h1
      · exact Or.inr (fun w hw => h2 w (List.mem_cons_of_mem _ hw)))]
    rw [cell_setStore]
    have : ¬ (t = sid ∧ q = pos) := by
      rintro ⟨e1, e2⟩
      rcases hne with h1 | h2
      · exact h1 e1
      · exact h2 (pos, x) List.mem_cons_self e2
    rw [if_neg this]

theorem cell_isSome_writeList (sid : Nat) (t q : Nat) : ∀ (ws : List (Nat × α)) (h : Heap α),
    (cell h t q).isSome → (cell (writeList h sid ws) t q).isSome
  | [], _, hs => hs
  | (pos, x) :: rest, h, hs => by
    simp only [writeList]
    apply cell_isSome_writeList sid t q rest
    rw [cell_setStore]
    split
    · cases hc : cell h t q with
      | none => rw [hc] at hs; cases hs
      | some y => rfl
    · exact hs

/-- a written cell (positions pairwise distinct, cell exists) holds the written value -/
theorem cell_writeList_mem (sid : Nat) : ∀ (ws : List (Nat × α)) (h : Heap α),
    (ws.map Prod.fst).Nodup → ∀ pos x, (pos, x) ∈ ws → (cell h sid pos).isSome →
      cell (writeList h sid ws) sid pos = some x
  | [], _, _, _, _, hm, _ => by cases hm
  | (p0, x0) :: rest, h, hnd, pos, x, hm, hs => by
    simp only [List.map_cons, List.nodup_cons] at hnd
    simp only [writeList]
    rcases List.mem_cons.mp hm with e | hm'
    · injection e with e1 e2
      subst e1 e2
      rw [cell_writeList_other sid sid pos rest _ (Or.inr (fun w hw e => hnd.1 (by
        rw [e]; exact List.mem_map_of_mem hw)))]
      rw [cell_setStore, if_pos ⟨rfl, rfl⟩]
      cases hc : cell h sid pos with
      | none => rw [hc] at hs; cases hs
      | some y => rfl
    · apply cell_writeList_mem sid rest _ hnd.2 pos x hm'
      rw [cell_setStore]
      split
      · cases hc : cell h sid pos with
        | none => rw [hc] at hs; cases hs
        | some y => rfl
      · exact hs

/-- consecutive positions `lo, lo+1, …` paired with the values -/
def consec : Nat → List α → List (Nat × α)
  | _, [] => []
  | lo, x :: xs => (lo, x) :: consec (lo + 1) xs

theorem writeRun_eq_writeList (sid : Nat) : ∀ (xs : List α) (h : Heap α) (lo : Nat),
    writeRun h sid lo xs = writeList h sid (consec lo xs)
  | [], _, _ => rfl
  | x :: xs, h, lo => by
    simp only [writeRun, consec, writeList]
    exact writeRun_eq_writeList sid xs _ _

/-! ### pure addresses -/

/-- the address `Index` computes, as a total function -/
def addr (v : View) (loc : Idx) : Int := v.start + dot loc v.offStep

theorem index_addr {v : View} (g : Geo v) (loc : Idx) (hloc : loc.length ≤ v.dims.length) :
    v.index loc = .ok (addr v loc) := by
  rw [index_eq g loc hloc, addr, g.offStep_eq]

theorem addr_bounds {v : View} (g : Geo v) {i : Idx} (hi : InBounds i v.dims) :
    0 ≤ addr v i ∧ addr v i < product v.orig := by
  obtain ⟨p, hp, h0, h1⟩ := index_inbounds g hi
  rw [index_addr g i (by rw [hi.length])] at hp
  injection hp with hp
  subst hp
  exact ⟨h0, h1⟩

theorem addr_inj {v : View} (g : Geo v) {i j : Idx} (hi : InBounds i v.dims) (hj : InBounds j v.dims)
    (h : addr v i = addr v j) : i = j :=
  index_inj g hi hj (by
    rw [index_addr g i (by rw [hi.length]),
      index_addr g j (by rw [hj.length]), h])

theorem set_addr {h : Heap α} {a : Arr} (g : Geo a.v) (ok : ArrOK h a) {i : Idx} (hi : InBounds i a.v.dims)
    (x : α) : set h a i x = .ok (setStore h a.sid (a.base + addr a.v i).toNat x) := by
  obtain ⟨h0, h1⟩ := addr_bounds g hi
  unfold set
  rw [index_addr g i (by rw [hi.length])]
  exact writeAt_eq ok h0 h1 x

theorem get_addr {h : Heap α} {a : Arr} (g : Geo a.v) (ok : ArrOK h a) {i : Idx} (hi : InBounds i a.v.dims) :
    ∃ x, cell h a.sid (a.base + addr a.v i).toNat = some x ∧ get h a i = .ok x := by
  obtain ⟨h0, h1⟩ := addr_bounds g hi
  obtain ⟨x, hc, hr⟩ := readAt_eq ok h0 h1
  refine ⟨x, hc, ?_⟩
  unfold get
  rw [index_addr g i (by rw [hi.length])]
  exact hr

/-! ### sequences of `Set` through one array -/

/-- `Set` the values at the given indices, in list order -/
def setSeq (h : Heap α) (a : Arr) : List (Idx × α) → R (Heap α)
  | [] => .ok h
  | (i, x) :: rest => do
    let h' ← set h a i x
    setSeq h' a rest

/-- the storage writes performed by `setSeq` -/
def seqWrites (a : Arr) (ws : List (Idx × α)) : List (Nat × α) :=
  ws.map (fun w => ((a.base + addr a.v w.1).toNat, w.2))

theorem setSeq_eq {a : Arr} (g : Geo a.v) : ∀ (ws : List (Idx × α)) (h : Heap α), ArrOK h a →
    (∀ w ∈ ws, InBounds w.1 a.v.dims) → setSeq h a ws = .ok (writeList h a.sid (seqWrites a ws))
  | [], _, _, _ => rfl
  | (i, x) :: rest, h, ok, hib => by
    simp only [setSeq, seqWrites, List.map_cons, writeList]
    rw [set_addr g ok (hib (i, x) List.mem_cons_self) x]
    simp only [bind, Except.bind]
    exact setSeq_eq g rest _ (ok.sameShape (sameShape_setStore _ _ _ _))
      (fun w hw => hib w (List.mem_cons_of_mem _ hw))

theorem seqWrites_nodup {h : Heap α} {a : Arr} (g : Geo a.v) (ok : ArrOK h a) : ∀ (ws : List (Idx × α)),
    (∀ w ∈ ws, InBounds w.1 a.v.dims) → (ws.map Prod.fst).Nodup → ((seqWrites a ws).map Prod.fst).Nodup
  | [], _, _ => by simp [seqWrites]
  | (i, x) :: rest, hib, hnd => by
    simp only [List.map_cons, List.nodup_cons] at hnd
    have ih := seqWrites_nodup g ok rest (fun w hw => hib w (List.mem_cons_of_mem _ hw)) hnd.2
    simp only [seqWrites, List.map_cons, List.nodup_cons]
    refine ⟨?_, ih⟩
    intro hm
    simp only [List.map_map, List.mem_map, Function.comp] at hm
    obtain ⟨w, hw, e⟩ := hm
    have hi : InBounds i a.v.dims := hib (i, x) List.mem_cons_self
    have hj := hib w (List.mem_cons_of_mem _ hw)
    have bi := addr_bounds g hi
    have bj := addr_bounds g hj
    have hb := ok.base_nonneg
    have : addr a.v w.1 = addr a.v i := by omega
    have e2 : w.1 = i := addr_inj g hj hi this
    exact hnd.1 (by rw [← e2]; exact List.mem_map_of_mem hw)

/-- **footprint of a sequence of `Set`s** at pairwise distinct in-bounds indices: no panic, the heap keeps its shape,
every addressed cell holds its value, every other cell of every storage is unchanged -/
theorem setSeq_footprint {h : Heap α} {a : Arr} (g : Geo a.v) (ok : ArrOK h a) (ws : List (Idx × α))
    (hib : ∀ w ∈ ws, InBounds w.1 a.v.dims) (hnd : (ws.map Prod.fst).Nodup) :
    ∃ h', setSeq h a ws = .ok h' ∧ h' = writeList h a.sid (seqWrites a ws) ∧ SameShape h h' ∧
      (∀ w ∈ ws, cell h' a.sid (a.base + addr a.v w.1).toNat = some w.2) ∧
      (∀ t q, (t ≠ a.sid ∨ ∀ w ∈ ws, q ≠ (a.base + addr a.v w.1).toNat) → cell h' t q = cell h t q) := by
  refine ⟨_, setSeq_eq g ws h ok hib, rfl, sameShape_writeList _ _ _, fun w hw => ?_, fun t q hne => ?_⟩
  · apply cell_writeList_mem a.sid _ h (seqWrites_nodup g ok ws hib hnd)
    · exact List.mem_map_of_mem (f := fun w : Idx × α => ((a.base + addr a.v w.1).toNat, w.2)) hw
    · obtain ⟨x, hc, _⟩ := get_addr g ok (hib w hw)
      rw [hc]; rfl
  · apply cell_writeList_other
    rcases hne with h1 | h2
    · exact Or.inl h1
    · refine Or.inr (fun w hw => ?_)
      simp only [seqWrites, List.mem_map] at hw
      obtain ⟨w', hw', rfl⟩ := hw
      exact h2 w' hw'

/-! ### contiguous views -/

/-- on a contiguous `Geo` view the address of an in-bounds index is `Start +` its row-major rank in the view -/
theorem contig_addr {v : View} (g : Geo v) (hc : v.contiguous = .ok true) {idx : Idx} (hi : InBounds idx v.dims) :
    addr v idx = v.start + ravel idx v.dims := by
  have hD : OW.NdC02.Dense v.dims v.orig v.step := by
    by_contra hne
    rw [(OW.NdC02.contiguous_eq g).2 hne] at hc
    exact absurd hc (by simp)
  have := OW.NdC02.dense_addr (OW.NdC02.geoL_of_geo g) hD idx hi
  rw [addr, g.offStep_eq, g.offset_eq, this]

end
end OW.Nd
