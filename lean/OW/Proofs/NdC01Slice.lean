import OW.Proofs.NdC01Apply
/-!
Helper lemmas for C01: `ApplySlice(loc, step, vals)` / `CopyFrom(other)` — the sub-array write — on all paths
(Go back-end contiguous fast path `copy(slice.Unroll(), vals.Unroll())`, Go element loop, C element loop) is the same
list of storage writes, when source and destination live in different storages.
-/
namespace OW.Nd
open OW.NdC02 (rowMajor rowMajorFrom getAll foldIdx)

section
variable {α : Type}

/-! ### row-major enumeration: membership and distinctness -/

theorem mem_rowMajorFrom {dims : Idx} {k n : Nat} {i : Idx} :
    i ∈ rowMajorFrom dims k n ↔ ∃ j : Nat, k ≤ j ∧ j < k + n ∧ i = unravel (j : Int) dims := by
  simp only [rowMajorFrom, List.mem_map, List.mem_range'_1]
  constructor
  · rintro ⟨j, ⟨h1, h2⟩, rfl⟩; exact ⟨j, h1, h2, rfl⟩
  · rintro ⟨j, h1, h2, rfl⟩; exact ⟨j, ⟨h1, h2⟩, rfl⟩

theorem rowMajorFrom_nodup {dims : Idx} (hne : dims ≠ []) : ∀ (n k : Nat), (rowMajorFrom dims k n).Nodup
  | 0, _ => by simp [OW.NdC02.rowMajorFrom_zero]
  | n + 1, k => by
    rw [OW.NdC02.rowMajorFrom_succ, List.nodup_cons]
    refine ⟨?_, rowMajorFrom_nodup hne n (k + 1)⟩
    intro hm
    obtain ⟨j, h1, _, e⟩ := mem_rowMajorFrom.mp hm
    have := congrArg (fun x => ravel x dims) e
    simp only [ravel_unravel _ _ hne] at this
    omega

theorem rowMajor_nodup {dims : Idx} (hne : dims ≠ []) : (rowMajor dims).Nodup :=
  rowMajorFrom_nodup hne _ _

/-- an in-bounds index is the `ravel`-th element of the row-major enumeration -/
theorem rowMajor_getElem?_ravel {dims i : Idx} (hne : dims ≠ []) (hi : InBounds i dims) :
    (rowMajor dims)[(ravel i dims).toNat]? = some i := by
  obtain ⟨h0, h1⟩ := ravel_bounds hi
  unfold rowMajor
  rw [OW.NdC02.rowMajorFrom_getElem? dims 0 _ _ (by omega)]
  congr 1
  rw [Nat.zero_add, Int.toNat_of_nonneg h0]
  exact unravel_ravel hi hne

/-! ### `Set` leaves other storages alone -/

theorem set_cell_other {h h' : Heap α} {a : Arr} {loc : Idx} {x : α} (hs : set h a loc x = .ok h')
    {t : Nat} (ht : t ≠ a.sid) (q : Nat) : cell h' t q = cell h t q := by
  unfold set at hs
  cases e : a.v.index loc with
  | error m => simp [e, bind, Except.bind] at hs
  | ok p =>
    simp only [e, bind, Except.bind] at hs
    obtain ⟨pos, rfl⟩ := writeAt_setStore hs
    rw [cell_setStore, if_neg (fun c => ht c.1)]

/-! ### the element loop of `ApplySlice` -/

/-- body of the copy loop: `slice.Set(idx, vals.Get(idx))` -/
def copyBody (dst src : Arr) : Heap α → Idx → R (Heap α) :=
  fun h idx => do let x ← get h src idx; set h dst idx x

theorem getAll_cons_ok {h : Heap α} {a : Arr} {i : Idx} {is : List Idx} {vals : List α}
    (e : getAll h a (i :: is) = .ok vals) :
    ∃ x vs, vals = x :: vs ∧ get h a i = .ok x ∧ getAll h a is = .ok vs := by
  simp only [getAll, bind, Except.bind, pure, Except.pure] at e
  cases hx : get h a i with
  | error m => simp [hx] at e
  | ok x =>
    cases hr : getAll h a is with
    | error m => simp [hx, hr] at e
    | ok r =>
      simp only [hx, hr] at e
      injection e with e
      exact ⟨x, r, e.symm, rfl, rfl⟩

/-- the copy loop over a list of indices, source in another storage: the source values are those of the initial
heap, so the loop is a sequence of `Set`s of pre-computed values -/
theorem foldCopy_eq {dst src : Arr} (gs : Geo src.v) (hsid : src.sid ≠ dst.sid) {h : Heap α} (oks : ArrOK h src) :
    ∀ (l : List Idx) (vals : List α), getAll h src l = .ok vals → (∀ i ∈ l, InBounds i src.v.dims) →
      ∀ h', SameShape h h' → (∀ q, cell h' src.sid q = cell h src.sid q) →
        foldIdx (copyBody dst src) l h' = setSeq h' dst (l.zip vals)
  | [], vals, _, _, h', _, _ => by simp [foldIdx, setSeq]
  | i :: is, vals, e, hib, h', hsh, hc => by
    obtain ⟨x, vs, rfl, hx, hvs⟩ := getAll_cons_ok e
    have hi := hib i List.mem_cons_self
    obtain ⟨x0, c0, g0⟩ := get_addr gs oks hi
    obtain ⟨x1, c1, g1⟩ := get_addr gs (oks.sameShape hsh) hi
    rw [hc, c0] at c1
    injection c1 with c1
    rw [hx] at g0
    injection g0 with g0
    subst c1 g0
    simp only [foldIdx, copyBody, List.zip_cons_cons, setSeq, g1, bind, Except.bind]
    cases hset : set h' dst i x with
    | error m => rfl
    | ok h'' =>
      simp only
      exact foldCopy_eq gs hsid oks is vs hvs (fun j hj => hib j (List.mem_cons_of_mem _ hj)) h''
        (hsh.trans (set_sameShape hset)) (fun q => by rw [set_cell_other hset hsid, hc])

theorem copyLoop_eq {dst src : Arr} (gs : Geo src.v) (hsid : src.sid ≠ dst.sid) {h : Heap α} (oks : ArrOK h src)
    (hrank : dst.v.dims.length = src.v.dims.length) {vals : List α}
    (hv : getAll h src (rowMajor src.v.dims) = .ok vals) :
    copyLoop h dst src src.v.dims = setSeq h dst ((rowMajor src.v.dims).zip vals) := by
  unfold copyLoop
  have := OW.NdC02.forIdx_rowMajor gs.pos_dims (copyBody dst src) h
  simp only [View.newIndex, View.ndims, hrank]
  rw [show (fun h idx => do let x ← get h src idx; set h dst idx x) = copyBody dst src from rfl, this]
  exact foldCopy_eq gs hsid oks _ _ hv (OW.NdC02.rowMajor_inBounds gs.pos_dims) h (SameShape.refl h) (fun _ => rfl)

/-! ### the fast path of `ApplySlice` -/

/-- on a contiguous destination, consecutive storage positions from `base + Start` are the addresses of the row-major
indices -/
theorem consec_eq_seqWrites {sl : Arr} (g : Geo sl.v) (hb : 0 ≤ sl.base) (hc : sl.v.contiguous = .ok true) :
    ∀ (n k : Nat) (vals : List α), vals.length = n → ((k + n : Nat) : Int) ≤ product sl.v.dims →
      consec ((sl.base + sl.v.start).toNat + k) vals = seqWrites sl ((rowMajorFrom sl.v.dims k n).zip vals)
  | 0, _, vals, hl, _ => by
    have : vals = [] := List.length_eq_zero_iff.mp hl
    subst this
    simp [consec, seqWrites, OW.NdC02.rowMajorFrom_zero]
  | n + 1, k, vals, hl, hk => by
    cases vals with
    | nil => simp at hl
    | cons x xs =>
      have hp := g.pos_dims
      obtain ⟨w0, _⟩ := OW.NdC02.contig_window g hc
      rw [OW.NdC02.rowMajorFrom_succ]
      simp only [consec, List.zip_cons_cons, seqWrites, List.map_cons]
      have ih := consec_eq_seqWrites g hb hc n (k + 1) xs (by simpa using hl) (by omega)
      simp only [seqWrites] at ih
      rw [← ih, Nat.add_assoc]
      congr 2
      have hib : InBounds (unravel (k : Int) sl.v.dims) sl.v.dims :=
        unravel_inBounds _ _ hp (by omega) (by omega)
      rw [contig_addr g hc hib, ravel_unravel _ _ g.dims_ne]
      omega

/-! ### `ApplySlice` in closed form -/

/-- the destination sub-array of `ApplySlice` -/
def dstSlice (a : Arr) (loc shape : Idx) (step : Option Idx) : Arr := { a with v := sliceView a.v loc shape step }

/-- **`ApplySlice` is one list of storage writes, on every path** (source and destination in different storages):
the values of the source, read in the initial heap in row-major order, written at the addresses of the destination
sub-array's row-major indices. -/
theorem applySlice_eq {h : Heap α} {a src : Arr} (g : Geo a.v) (ok : ArrOK h a) (gs : Geo src.v) (oks : ArrOK h src)
    (hsid : src.sid ≠ a.sid) {loc : Idx} {step : Option Idx}
    (okS : SliceOK a.v.dims loc src.v.dims (stepOr a.v.dims.length step)) {vals : List α}
    (hv : getAll h src (rowMajor src.v.dims) = .ok vals) :
    applySlice h a loc step src =
      .ok (writeList h a.sid (seqWrites (dstSlice a loc src.v.dims step) ((rowMajor src.v.dims).zip vals))) := by
  obtain ⟨hl1, hl2, hl3⟩ := okS.lengths
  have hsl := sliceInto_eq g loc src.v.dims step hl1 hl3
  have gS : Geo (dstSlice a loc src.v.dims step).v := geo_slice g okS hsl
  have okSl : ArrOK h (dstSlice a loc src.v.dims step) :=
    ⟨ok.store, ok.base_nonneg, ok.fits, ok.cfits⟩
  have hvl : vals.length = (rowMajor src.v.dims).length := OW.NdC02.getAll_length hv
  have hloop : copyLoop h (dstSlice a loc src.v.dims step) src src.v.dims =
      .ok (writeList h a.sid (seqWrites (dstSlice a loc src.v.dims step) ((rowMajor src.v.dims).zip vals))) := by
    rw [copyLoop_eq (dst := dstSlice a loc src.v.dims step) gs hsid oks rfl hv]
    apply setSeq_eq gS _ h okSl
    intro w hw
    exact OW.NdC02.rowMajor_inBounds gs.pos_dims _ (List.of_mem_zip hw).1
  have hslice : slice a loc src.v.dims step = .ok (dstSlice a loc src.v.dims step) := by
    simp only [slice, hsl, bind, Except.bind, pure, Except.pure, dstSlice]
  unfold applySlice
  simp only [hslice, bind, Except.bind, pure, Except.pure]
  by_cases hC : a.isC = true
  · simp only [hC, if_true]
    exact hloop
  · simp only [hC, Bool.false_eq_true, if_false]
    obtain ⟨c, hc⟩ := (OW.NdC02.contiguous_iff_geo gS).2
    rw [hc]
    cases c with
    | false => simp only [Bool.false_eq_true, if_false]; exact hloop
    | true =>
      simp only [if_true]
      have hgo : (dstSlice a loc src.v.dims step).isC = false := by
        simp only [dstSlice]; cases h' : a.isC with
        | true => exact absurd h' hC
        | false => rfl
      have hu := OW.NdC02.unroll_contig gS okSl hgo hc
      rw [hu]
      simp only []
      -- the source values
      have hsv : ∃ s, unroll h src = .ok s ∧ sliceVals h s = .ok vals := by
        obtain ⟨cs, hcs⟩ := (OW.NdC02.contiguous_iff_geo gs).2
        by_cases hCs : src.isC = true
        · refine ⟨.fresh vals, ?_, rfl⟩
          rw [OW.NdC02.unroll_gather (Or.inl hCs), OW.NdC02.unrollGather_eq gs, hv]; rfl
        · cases cs with
          | false =>
            refine ⟨.fresh vals, ?_, rfl⟩
            rw [OW.NdC02.unroll_gather (Or.inr hcs), OW.NdC02.unrollGather_eq gs, hv]; rfl
          | true =>
            have hgs : src.isC = false := by
              cases h' : src.isC with
              | true => exact absurd h' hCs
              | false => rfl
            exact ⟨_, OW.NdC02.unroll_contig gs oks hgs hcs, by
              rw [OW.NdC02.sliceVals_alias_contig gs oks hcs, hv]⟩
      obtain ⟨s, hs1, hs2⟩ := hsv
      rw [hs1]
      simp only [hs2]
      rw [writeRun_eq_writeList]
      congr 2
      have hp := product_pos gs.pos_dims
      have hsz : (dstSlice a loc src.v.dims step).v.size.toNat = vals.length := by
        rw [hvl, OW.NdC02.rowMajor_length]; rfl
      rw [hsz, List.take_length]
      have := consec_eq_seqWrites gS ok.base_nonneg hc vals.length 0 vals rfl (by
        rw [hvl, OW.NdC02.rowMajor_length]
        show (((0 + (product src.v.dims).toNat : Nat)) : Int) ≤ product src.v.dims
        omega)
      rw [Nat.add_zero] at this
      rw [this]
      congr 2
      unfold rowMajor
      rw [hvl, OW.NdC02.rowMajor_length]
      rfl

end
end OW.Nd
