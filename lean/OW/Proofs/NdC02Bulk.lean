import OW.Proofs.NdC02Contig
import OW.Proofs.NdC01
/-!
Helper lemmas for C02, Part C: bulk operations of `OW/Nd/Array.lean`.

Reference ("element by element, row-major") semantics:
* `rowMajor dims` — the list of multi-indices `unravel 0 dims, unravel 1 dims, …` (row-major visit);
* `getAll h a idxs` — sequential `Get` over a list of indices;
* `foldIdx body idxs s` — sequential loop over a list of indices;
* `setAll h a idxs xs` — sequential `Set` over a list of indices.
-/
namespace OW.NdC02
open OW.Nd

section
variable {α : Type}

/-! ### reference semantics -/

/-- the row-major indices of ranks `k, k+1, …, k+n-1` -/
def rowMajorFrom (dims : Idx) (k n : Nat) : List Idx := (List.range' k n).map (fun (j : Nat) => unravel (j : Int) dims)

/-- all indices of a shape in row-major order -/
def rowMajor (dims : Idx) : List Idx := rowMajorFrom dims 0 (product dims).toNat

/-- sequential `Get` -/
def getAll (h : Heap α) (a : Arr) : List Idx → R (List α)
  | [] => .ok []
  | i :: is => do let x ← Nd.get h a i; let r ← getAll h a is; pure (x :: r)

/-- sequential loop over a list of indices -/
def foldIdx {σ : Type} (body : σ → Idx → R σ) : List Idx → σ → R σ
  | [], s => .ok s
  | i :: is, s => do let s' ← body s i; foldIdx body is s'

/-- sequential `Set` of the values `xs` at the indices `idxs` -/
def setAll (h : Heap α) (a : Arr) : List Idx → List α → R (Heap α)
  | i :: is, x :: xs => do let h' ← set h a i x; setAll h' a is xs
  | _, _ => .ok h

theorem rowMajorFrom_zero (dims : Idx) (k : Nat) : rowMajorFrom dims k 0 = [] := rfl

theorem rowMajorFrom_succ (dims : Idx) (k n : Nat) :
    rowMajorFrom dims k (n + 1) = unravel (k : Int) dims :: rowMajorFrom dims (k + 1) n := by
  simp [rowMajorFrom, List.range'_succ]

theorem rowMajorFrom_length (dims : Idx) (k n : Nat) : (rowMajorFrom dims k n).length = n := by
  simp [rowMajorFrom]

theorem rowMajor_length (dims : Idx) : (rowMajor dims).length = (product dims).toNat := by
  simp [rowMajor, rowMajorFrom_length]

theorem rowMajorFrom_getElem? (dims : Idx) (k n j : Nat) (hj : j < n) :
    (rowMajorFrom dims k n)[j]? = some (unravel ((k + j : Nat) : Int) dims) := by
  simp [rowMajorFrom, hj]

theorem rowMajorFrom_inBounds {dims : Idx} (hp : Pos dims) (k n : Nat) (hk : ((k + n : Nat) : Int) ≤ product dims) :
    ∀ i ∈ rowMajorFrom dims k n, InBounds i dims := by
  intro i hi
  simp only [rowMajorFrom, List.mem_map, List.mem_range'_1] at hi
  obtain ⟨j, ⟨h1, h2⟩, rfl⟩ := hi
  exact unravel_inBounds hp (by omega) (by omega)

theorem rowMajor_inBounds {dims : Idx} (hp : Pos dims) : ∀ i ∈ rowMajor dims, InBounds i dims := by
  have := product_pos hp
  exact rowMajorFrom_inBounds hp 0 _ (by omega)

/-! ### the index loop `forIdx` visits the row-major indices -/

theorem forIdx_eq {σ : Type} {shape : Idx} (body : σ → Idx → R σ) :
    ∀ (n k : Nat) (idx : Idx) (s : σ), InBounds idx shape → ravel idx shape = (k : Int) →
      ((k + n : Nat) : Int) ≤ product shape →
      forIdx shape body n idx s = foldIdx body (rowMajorFrom shape k n) s := by
  intro n
  induction n with
  | zero => intro k idx s _ _ _; rfl
  | succ n ih =>
    intro k idx s hib hr hk
    rw [rowMajorFrom_succ]
    have e : unravel (k : Int) shape = idx := by rw [← hr]; exact unravel_ravel hib
    simp only [forIdx, foldIdx, e]
    cases hb : body s idx with
    | error m => rfl
    | ok s' =>
      simp only [bind, Except.bind]
      obtain ⟨idx', hinc, hib', hr'⟩ := increment_spec hib
      rw [hinc]
      cases n with
      | zero => rfl
      | succ n =>
        simp only
        apply ih (k + 1) idx' s' hib'
        · rw [hr', hr, Int.emod_eq_of_lt (by omega) (by omega)]; omega
        · omega

theorem forIdx_rowMajor {σ : Type} {shape : Idx} (hp : Pos shape) (body : σ → Idx → R σ) (s : σ) :
    forIdx shape body (product shape).toNat (uniform shape.length 0) s = foldIdx body (rowMajor shape) s := by
  have := product_pos hp
  exact forIdx_eq body _ 0 _ s (inBounds_zeros hp) (by rw [ravel_zeros]; rfl) (by omega)

/-! ### element access -/

/-- `Get` of an in-bounds index on a reachable, well-windowed array: never panics, reads the addressed cell -/
theorem get_cell {h : Heap α} {a : Arr} (g : Geo a.v) (ok : ArrOK h a) {i : Idx} (hi : InBounds i a.v.dims) :
    ∃ p x, a.v.index i = .ok p ∧ 0 ≤ p ∧ p < product a.v.orig ∧
      cell h a.sid (a.base + p).toNat = some x ∧ get h a i = .ok x := by
  obtain ⟨p, hp, p0, p1⟩ := index_inbounds g hi
  obtain ⟨x, hx, hr⟩ := readAt_eq ok p0 p1
  refine ⟨p, x, hp, p0, p1, hx, ?_⟩
  unfold Nd.get
  rw [hp]
  exact hr

theorem getAll_ok {h : Heap α} {a : Arr} (g : Geo a.v) (ok : ArrOK h a) :
    ∀ (l : List Idx), (∀ i ∈ l, InBounds i a.v.dims) → ∃ vals, getAll h a l = .ok vals ∧ vals.length = l.length
  | [], _ => ⟨[], rfl, rfl⟩
  | i :: is, hl => by
    obtain ⟨_, x, _, _, _, _, hx⟩ := get_cell g ok (hl i List.mem_cons_self)
    obtain ⟨vs, hv, hlen⟩ := getAll_ok g ok is (fun j hj => hl j (List.mem_cons_of_mem _ hj))
    exact ⟨x :: vs, by simp [getAll, hx, hv, bind, Except.bind, pure, Except.pure], by simp [hlen]⟩

theorem getAll_length {h : Heap α} {a : Arr} : ∀ {l : List Idx} {vals : List α},
    getAll h a l = .ok vals → vals.length = l.length
  | [], vals, e => by simp [getAll] at e; subst e; rfl
  | i :: is, vals, e => by
    simp only [getAll, bind, Except.bind, pure, Except.pure] at e
    cases hx : get h a i with
    | error m => simp [hx] at e
    | ok x =>
      cases hr : getAll h a is with
      | error m => simp [hx, hr] at e
      | ok r =>
        simp only [hx, hr] at e
        injection e with e
        subst e
        simp [getAll_length hr]

/-- pointwise reading of `getAll` -/
theorem getAll_getElem {h : Heap α} {a : Arr} : ∀ {l : List Idx} {vals : List α},
    getAll h a l = .ok vals → ∀ (j : Nat) (i : Idx), l[j]? = some i → ∃ x, vals[j]? = some x ∧ get h a i = .ok x
  | [], _, _, j, i, hj => by simp at hj
  | i0 :: is, vals, e, j, i, hj => by
    simp only [getAll, bind, Except.bind, pure, Except.pure] at e
    cases hx : get h a i0 with
    | error m => simp [hx] at e
    | ok x =>
      cases hr : getAll h a is with
      | error m => simp [hx, hr] at e
      | ok r =>
        simp only [hx, hr] at e
        injection e with e
        subst e
        cases j with
        | zero => simp at hj; subst hj; exact ⟨x, by simp, hx⟩
        | succ j => simp at hj; simpa using getAll_getElem hr j i hj

/-! ### `gather` is the sequential `Get` over the row-major indices -/

theorem gather_eq {h : Heap α} {a : Arr} (hp : Pos a.v.dims) :
    ∀ (n k : Nat), ((k + n : Nat) : Int) ≤ product a.v.dims →
      gather h a (offsetsT a.v.dims) n (k : Int) = getAll h a (rowMajorFrom a.v.dims k n) := by
  intro n
  induction n with
  | zero => intro k _; rfl
  | succ n ih =>
    intro k hk
    rw [rowMajorFrom_succ]
    simp only [gather, getAll]
    rw [idivmod_rowmajor' hp (by omega) (by omega)]
    simp only [bind, Except.bind]
    have : ((k : Int) + 1) = ((k + 1 : Nat) : Int) := by omega
    rw [this, ih (k + 1) (by omega)]

theorem unrollGather_eq {h : Heap α} {a : Arr} (g : Geo a.v) :
    unrollGather h a = getAll h a (rowMajor a.v.dims) := by
  have hp := g.pos_dims
  have := product_pos hp
  have hsz : ¬ product a.v.dims < 0 := by omega
  have hg := gather_eq (h := h) hp (product a.v.dims).toNat 0 (by omega)
  unfold unrollGather
  simp only [View.size, if_neg hsz, offsets_ok g.dims_ne, bind, Except.bind]
  exact hg

/-! ### contiguous views: the row-major elements are a window of the storage -/

theorem inBounds_decrement {d : Idx} (hp : Pos d) : InBounds (decrement d) d := by
  induction d with
  | nil => simp [decrement]
  | cons y ys ih =>
    have := pos_head hp
    simp only [decrement, List.map_cons, InBounds_cons]
    exact ⟨by omega, by omega, ih (pos_tail hp)⟩

theorem ravel_decrement {d : Idx} (hp : Pos d) : ravel (decrement d) d = product d - 1 := by
  induction d with
  | nil => simp [decrement, ravel]
  | cons y ys ih =>
    have h := ih (pos_tail hp)
    simp only [decrement, List.map_cons, ravel, product_cons] at *
    rw [h]; ring

theorem contig_index {v : View} (g : Geo v) (hc : v.contiguous = .ok true) {k : Int} (k0 : 0 ≤ k) (k1 : k < product v.dims) :
    v.index (unravel k v.dims) = .ok (v.start + k) :=
  (contiguous_iff_geo g).1.mp hc k k0 k1

theorem contig_index_decrement {v : View} (g : Geo v) (hc : v.contiguous = .ok true) :
    v.index (decrement v.dims) = .ok (v.start + (product v.dims - 1)) := by
  have hp := g.pos_dims
  have := product_pos hp
  have h := contig_index g hc (k := product v.dims - 1) (by omega) (by omega)
  have e : unravel (product v.dims - 1) v.dims = decrement v.dims := by
    rw [← ravel_decrement hp]; exact unravel_ravel (inBounds_decrement hp)
  rw [e] at h; exact h

/-- address window of a contiguous view inside the allocated shape -/
theorem contig_window {v : View} (g : Geo v) (hc : v.contiguous = .ok true) :
    0 ≤ v.start ∧ v.start + product v.dims ≤ product v.orig := by
  have hp := g.pos_dims
  have := product_pos hp
  obtain ⟨p, hp1, p0, _⟩ := index_inbounds g (unravel_inBounds hp (Int.le_refl 0) (by omega))
  rw [contig_index g hc (Int.le_refl 0) (by omega)] at hp1
  injection hp1 with hp1
  obtain ⟨q, hq1, _, q1⟩ := index_inbounds g (inBounds_decrement hp)
  rw [contig_index_decrement g hc] at hq1
  injection hq1 with hq1
  omega

theorem take_drop_succ (s : List α) (m n : Nat) (hm : m < s.length) :
    (s.drop m).take (n + 1) = s[m] :: (s.drop (m + 1)).take n := by
  rw [List.drop_eq_getElem_cons hm, List.take_succ_cons]

theorem getAll_contig {h : Heap α} {a : Arr} (g : Geo a.v) (ok : ArrOK h a) (hc : a.v.contiguous = .ok true)
    {s : List α} (hs : h[a.sid]? = some s) :
    ∀ (n k : Nat), ((k + n : Nat) : Int) ≤ product a.v.dims →
      getAll h a (rowMajorFrom a.v.dims k n) = .ok ((s.drop ((a.base + a.v.start).toNat + k)).take n) := by
  intro n
  induction n with
  | zero => intro k _; simp [rowMajorFrom_zero, getAll]
  | succ n ih =>
    intro k hk
    have hp := g.pos_dims
    have hb := ok.base_nonneg
    obtain ⟨w0, _⟩ := contig_window g hc
    rw [rowMajorFrom_succ]
    simp only [getAll]
    have hib := unravel_inBounds hp (k := (k : Int)) (by omega) (by omega)
    obtain ⟨p, x, hp1, p0, p1, hx, hget⟩ := get_cell g ok hib
    rw [contig_index g hc (by omega) (by omega)] at hp1
    injection hp1 with hp1
    subst hp1
    rw [hget, ih (k + 1) (by omega)]
    simp only [bind, Except.bind, pure, Except.pure]
    have e1 : (a.base + (a.v.start + (k : Int))).toNat = (a.base + a.v.start).toNat + k := by omega
    rw [e1] at hx
    simp only [cell, hs, Option.bind_some] at hx
    obtain ⟨hlt, hxe⟩ := List.getElem?_eq_some_iff.mp hx
    rw [take_drop_succ s _ n hlt, hxe]
    rfl

/-! ### C1: `Unroll()` -/

theorem subslice_ok {h : Heap α} {a : Arr} {s : List α} (hs : h[a.sid]? = some s) {lo hi : Int}
    (h0 : 0 ≤ lo) (h1 : lo ≤ hi) (h2 : hi ≤ (s.length : Int) - a.base) :
    subslice h a lo hi = .ok (a.sid, a.base + lo, hi - lo) := by
  unfold subslice capOf storeOf
  simp only [hs, bind, Except.bind, pure, Except.pure]
  rw [if_pos ⟨h0, h1, h2⟩]

/-- Go back-end, contiguous: `Unroll()` aliases the window `[base+start, base+start+size)` of the same storage -/
theorem unroll_contig {h : Heap α} {a : Arr} (g : Geo a.v) (ok : ArrOK h a) (hgo : a.isC = false)
    (hc : a.v.contiguous = .ok true) :
    unroll h a = .ok (.alias a.sid (a.base + a.v.start) a.v.size) := by
  obtain ⟨s, hs, hl⟩ := ok.store
  obtain ⟨w0, w1⟩ := contig_window g hc
  have hf := ok.fits
  have hp := product_pos g.pos_dims
  unfold unroll
  simp only [hgo, hc, contig_index_decrement g hc, bind, Except.bind, Bool.false_eq_true, ↓reduceIte]
  rw [subslice_ok hs w0 (by omega) (by omega)]
  simp only [pure, Except.pure, View.size]
  congr 2
  omega

theorem unroll_gather {h : Heap α} {a : Arr} (hcase : a.isC = true ∨ a.v.contiguous = .ok false) :
    unroll h a = (unrollGather h a).map Slice.fresh := by
  unfold unroll
  rcases hcase with hc | hc
  · simp only [hc, ↓reduceIte, bind, Except.bind, pure, Except.pure]
    cases unrollGather h a <;> rfl
  · cases hC : a.isC with
    | true =>
      simp only [↓reduceIte, bind, Except.bind, pure, Except.pure]
      cases unrollGather h a <;> rfl
    | false =>
      simp only [hc, Bool.false_eq_true, ↓reduceIte, bind, Except.bind, pure, Except.pure]
      cases unrollGather h a <;> rfl

/-- the row-major element list of a reachable, well-windowed array exists; pointwise reading -/
theorem elems_ok {h : Heap α} {a : Arr} (g : Geo a.v) (ok : ArrOK h a) :
    ∃ vals, getAll h a (rowMajor a.v.dims) = .ok vals ∧ vals.length = (product a.v.dims).toNat := by
  obtain ⟨vals, hv, hl⟩ := getAll_ok g ok (rowMajor a.v.dims) (rowMajor_inBounds g.pos_dims)
  exact ⟨vals, hv, by rw [hl, rowMajor_length]⟩

theorem elems_getElem {h : Heap α} {a : Arr} {vals : List α} (hv : getAll h a (rowMajor a.v.dims) = .ok vals)
    (k : Nat) (hk : (k : Int) < product a.v.dims) :
    ∃ x, vals[k]? = some x ∧ Nd.get h a (unravel (k : Int) a.v.dims) = .ok x := by
  have := rowMajorFrom_getElem? a.v.dims 0 (product a.v.dims).toNat k (by omega)
  rw [Nat.zero_add] at this
  exact getAll_getElem hv k _ this

theorem sliceVals_alias_contig {h : Heap α} {a : Arr} (g : Geo a.v) (ok : ArrOK h a)
    (hc : a.v.contiguous = .ok true) :
    sliceVals h (.alias a.sid (a.base + a.v.start) a.v.size) = getAll h a (rowMajor a.v.dims) := by
  obtain ⟨s, hs, _⟩ := ok.store
  have hp := product_pos g.pos_dims
  have := getAll_contig g ok hc hs (product a.v.dims).toNat 0 (by omega)
  rw [Nat.add_zero] at this
  unfold rowMajor
  rw [this]
  simp [sliceVals, storeOf, hs, bind, Except.bind, pure, Except.pure, View.size]

/-! ### C2: `Reshape` -/

theorem dense_of_le_one : ∀ (ds Ds ss : Idx), (∀ x ∈ ds, x ≤ 1) → Dense ds Ds ss
  | [], _, _, _ => by simp [Dense]
  | _ :: _, [], _, _ => by simp [Dense]
  | _ :: _, _ :: _, [], _ => by simp [Dense]
  | d :: ds, D :: Ds, s :: ss, h => by
    simp only [Dense]
    refine ⟨dense_of_le_one ds Ds ss (fun x hx => h x (List.mem_cons_of_mem _ hx)), fun hgt => ?_⟩
    have := h d List.mem_cons_self
    omega

theorem product_eq_one {l : Idx} (hp : Pos l) (hle : ∀ x ∈ l, x ≤ 1) : product l = 1 := by
  induction l with
  | nil => rfl
  | cons d ds ih =>
    have h1 := hle d List.mem_cons_self
    have h2 := pos_head hp
    have : d = 1 := by omega
    subst this
    simp [ih (pos_tail hp) (fun x hx => hle x (List.mem_cons_of_mem _ hx))]

/-- the "Special case 1D" test of `Reshape` (`Maximum(Dims) == 1`) can only be true for a single-element view,
which is contiguous -/
theorem max_one_contig {v : View} (g : Geo v) (hm : maximum v.dims = .ok 1) :
    v.size = 1 ∧ v.contiguous = .ok true := by
  have hle : ∀ x ∈ v.dims, x ≤ 1 := by
    cases hd : v.dims with
    | nil => intro x hx; simp at hx
    | cons d ds =>
      rw [hd] at hm
      simp only [maximum] at hm
      injection hm with hm
      have := (foldl_max_spec ds d).2
      simp only [hm] at this
      exact this
  exact ⟨product_eq_one g.pos_dims hle, (contiguous_eq g).1 (dense_of_le_one _ _ _ hle)⟩

theorem rts_ok {v : View} (g : Geo v) (s : Idx) :
    ∃ r : Bool, ((if s.length = 1 then do
        let m ← maximum v.dims
        pure (decide (m = s.length))
      else pure false : R Bool) = .ok r) ∧ (r = true → v.contiguous = .ok true) := by
  by_cases hs : s.length = 1
  · rw [if_pos hs]
    cases hd : v.dims with
    | nil => exact absurd hd g.dims_ne
    | cons d ds =>
      have hm : maximum (d :: ds) = .ok (ds.foldl (fun r x => if r > x then r else x) d) := rfl
      refine ⟨decide (ds.foldl (fun r x => if r > x then r else x) d = s.length), by rw [hm]; rfl, ?_⟩
      intro hr
      have e := of_decide_eq_true hr
      rw [hs] at e
      rw [e, ← hd] at hm
      exact (max_one_contig g hm).2
  · rw [if_neg hs]
    exact ⟨false, rfl, fun h => by simp at h⟩

theorem reshape_mismatch (h : Heap α) (a : Arr) (s : Idx) (hne : product s ≠ a.v.size) :
    reshape h a s = .ok (h, .inl "size-mismatch") := by
  unfold reshape
  simp only [bind, Except.bind, pure, Except.pure]
  rw [if_pos hne]

/-- the fresh Go-backed array `ArrayFromSlice(vals, shape)` that `Reshape` builds on a copy -/
def freshArr (h : Heap α) (vals : List α) (s : Idx) : Arr :=
  { v := rootView s 0, sid := h.length, base := 0, len := vals.length, isC := false }

/-- the Go-backed array that `Reshape` builds on the aliasing `Unroll()` of a contiguous Go-backed view -/
def aliasArr (a : Arr) (s : Idx) : Arr :=
  { v := rootView s 0, sid := a.sid, base := a.base + a.v.start, len := a.v.size, isC := false }

/-- the C-backed array that `Reshape` builds for a contiguous C-backed view (same pointer, root view from `Start`) -/
def cAliasArr (a : Arr) (s : Idx) : Arr := { a with v := rootView s a.v.start }

/-- non-contiguous view (either back-end): `Reshape` copies the row-major elements into a new storage -/
theorem reshape_copy {h : Heap α} {a : Arr} (g : Geo a.v) {s : Idx} (hs : s ≠ [])
    (hsz : product s = a.v.size) (hc : a.v.contiguous = .ok false) {vals : List α}
    (hv : getAll h a (rowMajor a.v.dims) = .ok vals) :
    reshape h a s = .ok (h ++ [vals], .inr (freshArr h vals s)) := by
  obtain ⟨r, hr, hrc⟩ := rts_ok g s
  have hr' : r = false := by
    cases r with
    | false => rfl
    | true => have := hrc rfl; rw [hc] at this; exact absurd this (by simp)
  subst hr'
  unfold reshape
  simp only [bind, Except.bind, pure, Except.pure] at hr ⊢
  rw [if_neg (by simpa using hsz)]
  simp only [hr, hc]
  cases hC : a.isC with
  | true =>
    simp only [unrollGather_eq g, hv, root_eq s 0 hs, alloc, freshArr, Bool.false_eq_true, not_false_eq_true,
      and_self, ↓reduceIte]
  | false =>
    have hu : unroll h a = .ok (.fresh vals) := by
      rw [unroll_gather (Or.inr hc), unrollGather_eq g, hv]; rfl
    simp only [hu, root_eq s 0 hs, implOf, alloc, freshArr, Bool.false_eq_true, false_and, not_false_eq_true,
      or_true, ↓reduceIte]

/-- Go back-end, contiguous view: `Reshape` re-bases the same storage (no copy) -/
theorem reshape_go_alias {h : Heap α} {a : Arr} (g : Geo a.v) (ok : ArrOK h a) {s : Idx} (hs : s ≠ [])
    (hsz : product s = a.v.size) (hc : a.v.contiguous = .ok true) (hgo : a.isC = false) :
    reshape h a s = .ok (h, .inr (aliasArr a s)) := by
  obtain ⟨r, hr, _⟩ := rts_ok g s
  unfold reshape
  simp only [bind, Except.bind, pure, Except.pure] at hr ⊢
  rw [if_neg (by simpa using hsz)]
  simp only [hr, hc, hgo, unroll_contig g ok hgo hc, root_eq s 0 hs, implOf, Bool.false_eq_true, false_and,
    true_or, ↓reduceIte]
  rfl

/-- C back-end, contiguous view: `Reshape` keeps the pointer and makes a root view starting at `Start` -/
theorem reshape_c_alias {h : Heap α} {a : Arr} (g : Geo a.v) {s : Idx} (hs : s ≠ [])
    (hsz : product s = a.v.size) (hc : a.v.contiguous = .ok true) (hC : a.isC = true) :
    reshape h a s = .ok (h, .inr (cAliasArr a s)) := by
  obtain ⟨r, hr, _⟩ := rts_ok g s
  unfold reshape
  simp only [bind, Except.bind, pure, Except.pure] at hr ⊢
  rw [if_neg (by simpa using hsz)]
  simp only [hr, hc, hC, root_eq s a.v.start hs, not_true_eq_false, false_and, and_false, true_or, ↓reduceIte,
    cAliasArr]

/-- an empty new shape (element count 1) makes `Reshape` of a single-element view panic in `Offsets` -/
theorem reshape_nil {h : Heap α} {a : Arr} (g : Geo a.v) (ok : ArrOK h a) (hsz : product [] = a.v.size) :
    reshape h a [] = .error "index-out-of-range" := by
  obtain ⟨r, hr, _⟩ := rts_ok g []
  obtain ⟨b, hb⟩ := (contiguous_iff_geo g).2
  obtain ⟨vals, hv, _⟩ := elems_ok g ok
  have hroot : ∀ st, View.root [] st = .error "index-out-of-range" := fun _ => rfl
  have hr0 : r = false := by
    cases r with
    | false => rfl
    | true => simp [pure, Except.pure] at hr
  subst hr0
  unfold reshape
  simp only [bind, Except.bind, pure, Except.pure] at hr ⊢
  rw [if_neg (by simpa using hsz)]
  simp only [hr, hb]
  have hu : a.isC = false → ∃ u, unroll h a = .ok u := by
    intro hgo
    cases b with
    | true => exact ⟨_, unroll_contig g ok hgo hb⟩
    | false => exact ⟨.fresh vals, by rw [unroll_gather (Or.inr hb), unrollGather_eq g, hv]; rfl⟩
  cases hC : a.isC with
  | true =>
    cases b <;> simp [unrollGather_eq g, hv, hroot]
  | false =>
    obtain ⟨u, hu⟩ := hu hC
    cases u <;> simp [hu, hroot]

theorem rootView_index (s : Idx) (st : Int) (idx : Idx) (hl : idx.length = s.length) :
    (rootView s st).index idx = .ok (st + ravel idx s) := by
  unfold View.index
  have h1 : View.indexAux idx (offsetsT s) = .ok (dot idx (offsetsT s)) :=
    indexAux_ok _ _ (by rw [offsetsT_length, hl])
  simp only [rootView, h1, dot_offsetsT_ravel idx s hl, bind, Except.bind, pure, Except.pure]

theorem reach_rootView {s : Idx} (hs : s ≠ []) (hp : Pos s) : Reach (rootView s 0) :=
  Reach.root hs hp (root_eq s 0 hs)

theorem arrOK_fresh (h : Heap α) (vals : List α) {s : Idx} (hl : (vals.length : Int) = product s) :
    ArrOK (h ++ [vals]) (freshArr h vals s) := by
  refine ⟨⟨vals, by simp [freshArr], by simp [freshArr]⟩, by simp [freshArr], ?_, by simp [freshArr]⟩
  show product s ≤ (vals.length : Int)
  omega

theorem get_fresh {h : Heap α} {vals : List α} {s : Idx} (hs : s ≠ []) (hp : Pos s)
    (hl : (vals.length : Int) = product s) (k : Nat) (hk : (k : Int) < product s) {x : α} (hx : vals[k]? = some x) :
    Nd.get (h ++ [vals]) (freshArr h vals s) (unravel (k : Int) s) = .ok x := by
  have ok := arrOK_fresh h vals hl
  have g : Geo (freshArr h vals s).v := reach_geo (reach_rootView hs hp)
  have ib : InBounds (unravel (k : Int) s) (freshArr h vals s).v.dims := unravel_inBounds hp (by omega) hk
  obtain ⟨p, x', hp1, _, _, hc, hget⟩ := get_cell g ok ib
  have : (freshArr h vals s).v.index (unravel (k : Int) s) = .ok (0 + (k : Int)) := by
    show (rootView s 0).index _ = _
    rw [rootView_index s 0 _ (unravel_length _ _), ravel_unravel hp (by omega) hk]
  rw [this] at hp1
  injection hp1 with hp1
  subst hp1
  have e : ((freshArr h vals s).base + (0 + (k : Int))).toNat = k := by simp [freshArr]
  rw [e] at hc
  simp only [cell, freshArr, List.getElem?_concat_length, Option.bind_some] at hc
  rw [hx] at hc
  injection hc with hc
  rw [hget, hc]

theorem arrOK_alias {h : Heap α} {a : Arr} (g : Geo a.v) (ok : ArrOK h a) (hc : a.v.contiguous = .ok true)
    {s : Idx} (hsz : product s = a.v.size) : ArrOK h (aliasArr a s) := by
  obtain ⟨st, hst, hl⟩ := ok.store
  obtain ⟨w0, w1⟩ := contig_window g hc
  have hf := ok.fits
  have hb := ok.base_nonneg
  refine ⟨⟨st, hst, ?_⟩, ?_, ?_, by simp [aliasArr]⟩
  · show a.base + a.v.start + a.v.size ≤ _
    simp only [View.size]; omega
  · show 0 ≤ a.base + a.v.start
    omega
  · show product s ≤ a.v.size
    omega

theorem get_alias {h : Heap α} {a : Arr} (g : Geo a.v) (ok : ArrOK h a) (hc : a.v.contiguous = .ok true)
    {s : Idx} (hs : s ≠ []) (hp : Pos s) (hsz : product s = a.v.size) {k : Int} (k0 : 0 ≤ k) (k1 : k < a.v.size) :
    Nd.get h (aliasArr a s) (unravel k s) = Nd.get h a (unravel k a.v.dims) := by
  have okb := arrOK_alias g ok hc hsz
  have gb : Geo (aliasArr a s).v := reach_geo (reach_rootView hs hp)
  have ib : InBounds (unravel k s) (aliasArr a s).v.dims := unravel_inBounds hp k0 (by omega)
  obtain ⟨p, x, hp1, _, _, hcell, hget⟩ := get_cell gb okb ib
  have : (aliasArr a s).v.index (unravel k s) = .ok (0 + k) := by
    show (rootView s 0).index _ = _
    rw [rootView_index s 0 _ (unravel_length _ _), ravel_unravel hp k0 (by omega)]
  rw [this] at hp1
  injection hp1 with hp1
  subst hp1
  have k1' : k < product a.v.dims := k1
  obtain ⟨q, y, hq1, _, _, hcell', hget'⟩ := get_cell g ok (unravel_inBounds g.pos_dims k0 k1')
  rw [contig_index g hc k0 k1'] at hq1
  injection hq1 with hq1
  subst hq1
  have e : ((aliasArr a s).base + (0 + k)).toNat = (a.base + (a.v.start + k)).toNat := by
    show (a.base + a.v.start + (0 + k)).toNat = _
    congr 1; omega
  rw [e] at hcell
  have : (aliasArr a s).sid = a.sid := rfl
  rw [this, hcell'] at hcell
  injection hcell with hcell
  rw [hget, hget', hcell]

theorem get_cAlias {h : Heap α} {a : Arr} (g : Geo a.v) (hc : a.v.contiguous = .ok true)
    {s : Idx} (hp : Pos s) (hsz : product s = a.v.size) {k : Int} (k0 : 0 ≤ k) (k1 : k < a.v.size) :
    Nd.get h (cAliasArr a s) (unravel k s) = Nd.get h a (unravel k a.v.dims) := by
  have k1' : k < product a.v.dims := k1
  unfold Nd.get
  rw [contig_index g hc k0 k1']
  show (do let i ← (rootView s a.v.start).index (unravel k s); readAt h (cAliasArr a s) i) = _
  rw [rootView_index s _ _ (unravel_length _ _), ravel_unravel hp k0 (by omega)]
  rfl

theorem reshapeFast_noncontig {h : Heap α} {a : Arr} (s : Idx) (hc : a.v.contiguous = .ok false) :
    reshapeFast h a s = .ok (h, .inl "not-contiguous") := by
  simp [reshapeFast, hc, bind, Except.bind, pure, Except.pure]

theorem reshapeFast_contig {h : Heap α} {a : Arr} (s : Idx) (hc : a.v.contiguous = .ok true) :
    reshapeFast h a s = reshape h a s := by
  simp [reshapeFast, hc, bind, Except.bind]

/-! ### `Maximum()` / `Minimum()` -/

/-- loop body "read element, combine with the accumulator" -/
def keepBody {β : Type} (h : Heap α) (a : Arr) (step : β → α → β) : β → Idx → R β :=
  fun res idx => do let v ← Nd.get h a idx; pure (step res v)

theorem foldIdx_keepBody {β : Type} (h : Heap α) (a : Arr) (step : β → α → β) :
    ∀ (l : List Idx) (r : β),
      foldIdx (keepBody h a step) l r = (getAll h a l).map (fun vals => vals.foldl step r)
  | [], r => rfl
  | i :: is, r => by
    cases hx : Nd.get h a i with
    | error m =>
      have e : keepBody h a step r i = .error m := by simp [keepBody, hx, bind, Except.bind]
      simp only [foldIdx, getAll, e, hx, bind, Except.bind]
      rfl
    | ok x =>
      have e : keepBody h a step r i = .ok (step r x) := by simp [keepBody, hx, bind, Except.bind, pure, Except.pure]
      simp only [foldIdx, getAll, e, hx, bind, Except.bind, pure, Except.pure]
      rw [foldIdx_keepBody h a step is (step r x)]
      cases getAll h a is <;> rfl

theorem extremum_eq {h : Heap α} {a : Arr} (g : Geo a.v) (better : α → α → Bool) {v0 : α} {rest : List α}
    (hv : getAll h a (rowMajor a.v.dims) = .ok (v0 :: rest)) :
    extremum better h a = .ok ((v0 :: rest).foldl (fun res v => if better v res then v else res) v0) := by
  have hp := g.pos_dims
  have hp1 := product_pos hp
  obtain ⟨x, hx1, hx2⟩ := elems_getElem hv 0 (by omega)
  simp only [List.getElem?_cons_zero, Option.some.injEq] at hx1
  subst hx1
  have hx3 : Nd.get h a (uniform a.v.dims.length 0) = .ok v0 := by rw [← unravel_zero hp]; exact hx2
  show (do
    let res ← Nd.get h a (uniform a.v.dims.length 0)
    forIdx a.v.dims (keepBody h a (fun res v => if better v res then v else res)) (product a.v.dims).toNat
      (uniform a.v.dims.length 0) res) = _
  rw [hx3]
  show forIdx a.v.dims (keepBody h a (fun res v => if better v res then v else res)) (product a.v.dims).toNat
      (uniform a.v.dims.length 0) v0 = _
  rw [forIdx_rowMajor hp, foldIdx_keepBody, hv]
  rfl

end
end OW.NdC02
