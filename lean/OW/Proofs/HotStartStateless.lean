import OW.Proofs.HotStart
import OW.Kernels.C16.Partitions
import OW.Util.Dates
/-!
Split / prefix lemmas for the two stateless kernels whose loop is not a `List.map` (C06/C14): the rating-curve partition
(stops at the first panicking step) and the date generator (`Option`-valued recursion on the number of ticks). Core Lean only.
-/
set_option linter.unusedSimpArgs false
set_option linter.unusedVariables false
namespace OW.Proofs.Stateless
open OW OW.Kernels
variable {α : Type} [Num α]

theorem ratingCurve_run_append (xs ys : List α) (a b : List α) (ra rb : List (α × α))
    (ha : RatingCurvePartition.run xs ys a = .ok ra) (hb : RatingCurvePartition.run xs ys b = .ok rb) :
    RatingCurvePartition.run xs ys (a ++ b) = .ok (ra ++ rb) := by
  induction a generalizing ra with
  | nil =>
    simp only [RatingCurvePartition.run, Except.ok.injEq] at ha
    subst ha; simpa using hb
  | cons x rest ih =>
    simp only [List.cons_append, RatingCurvePartition.run] at ha ⊢
    cases hs : RatingCurvePartition.step xs ys x with
    | error e => rw [hs] at ha; simp at ha
    | ok o =>
      rw [hs] at ha
      simp only at ha ⊢
      cases hr : RatingCurvePartition.run xs ys rest with
      | error e => rw [hr] at ha; simp at ha
      | ok os =>
        rw [hr] at ha
        simp only [Except.ok.injEq] at ha
        subst ha
        rw [ih os hr]
        rfl

theorem ratingCurve_run_prefix (xs ys : List α) (a b : List α) (r ra : List (α × α))
    (h : RatingCurvePartition.run xs ys (a ++ b) = .ok r) (ha : RatingCurvePartition.run xs ys a = .ok ra) :
    r.take a.length = ra := by
  induction a generalizing r ra with
  | nil =>
    simp only [RatingCurvePartition.run, Except.ok.injEq] at ha
    subst ha; simp
  | cons x rest ih =>
    simp only [List.cons_append, RatingCurvePartition.run] at ha h
    cases hs : RatingCurvePartition.step xs ys x with
    | error e => rw [hs] at ha; simp at ha
    | ok o =>
      rw [hs] at ha h
      simp only at ha h
      cases hr : RatingCurvePartition.run xs ys rest with
      | error e => rw [hr] at ha; simp at ha
      | ok os =>
        rw [hr] at ha
        simp only [Except.ok.injEq] at ha
        subst ha
        cases hw : RatingCurvePartition.run xs ys (rest ++ b) with
        | error e => rw [hw] at h; simp at h
        | ok ws =>
          rw [hw] at h
          simp only [Except.ok.injEq] at h
          subst h
          simp only [List.length_cons, List.take_succ_cons, ih ws os hw hr]

omit [Num α] in
theorem dates_run_prefix : ∀ (n m : Nat) (t : Dates.Date) (rows rows₁ : List Dates.Row),
    Dates.run (n + m) t = some rows → Dates.run n t = some rows₁ → rows.take n = rows₁ := by
  intro n
  induction n with
  | zero =>
    intro m t rows rows₁ _ h₁
    simp only [Dates.run, Option.some.injEq] at h₁
    subst h₁; simp
  | succ n ih =>
    intro m t rows rows₁ h h₁
    have e : n + 1 + m = (n + m) + 1 := by omega
    rw [e] at h
    simp only [Dates.run] at h h₁
    cases hs : Dates.step t with
    | none => rw [hs] at h₁; simp at h₁
    | some q =>
      obtain ⟨r, t'⟩ := q
      rw [hs] at h h₁
      simp only at h h₁
      cases hr1 : Dates.run n t' with
      | none => rw [hr1] at h₁; simp at h₁
      | some rs1 =>
        rw [hr1] at h₁
        simp only [Option.some.injEq] at h₁
        subst h₁
        cases hr : Dates.run (n + m) t' with
        | none => rw [hr] at h; simp at h
        | some rs =>
          rw [hr] at h
          simp only [Option.some.injEq] at h
          subst h
          simp only [List.take_succ_cons, ih m t' rs rs1 hr hr1]

end OW.Proofs.Stateless
