import OW.Proofs.WrapperNd
import OW.Props.C04
/-!
Helper lemmas for `wrapperNd_refines` (C04Nd T6): reading a flat view gives a row of the storage, writing a list
through a flat view is a block write, the row-major list denotations of the four arrays.
-/
namespace OW.WrapperNd
open OW OW.Nd OW.Sim OW.Sim.WrapperNd

section
variable {α : Type}

/-! ### row-major denotations of storages -/

/-- `len` elements of a storage from position `pos` -/
def rowAt (st : List α) (pos len : Nat) : List α := (st.drop pos).take len

/-- a `[R, C]` array held row-major from position `base`: `R` rows of `C` elements -/
def mat (st : List α) (base R C : Nat) : List (List α) := (List.range R).map fun r => rowAt st (base + r * C) C

/-- a `[B, R, C]` array held row-major from position `base`: `B` blocks of `R` rows of `C` elements -/
def cube (st : List α) (base B R C : Nat) : List (List (List α)) :=
  (List.range B).map fun b => mat st (base + b * (R * C)) R C

theorem rowAt_length {st : List α} {pos len : Nat} (h : pos + len ≤ st.length) : (rowAt st pos len).length = len := by
  simp [rowAt]; omega

theorem rowAt_getElem? (st : List α) (pos len k : Nat) (hk : k < len) : (rowAt st pos len)[k]? = st[pos + k]? := by
  simp [rowAt, List.getElem?_take, hk]

theorem rowAt_succ (st : List α) (pos len : Nat) (h : pos < st.length) :
    rowAt st pos (len + 1) = st[pos] :: rowAt st (pos + 1) len := NdC02.take_drop_succ st pos len h

theorem mat_length (st : List α) (base R C : Nat) : (mat st base R C).length = R := by simp [mat]

theorem mat_getElem? (st : List α) (base R C r : Nat) (hr : r < R) :
    (mat st base R C)[r]? = some (rowAt st (base + r * C) C) := by
  simp [mat, List.getElem?_map, List.getElem?_range hr]

theorem cube_length (st : List α) (base B R C : Nat) : (cube st base B R C).length = B := by simp [cube]

theorem cube_getElem? (st : List α) (base B R C b : Nat) (hb : b < B) :
    (cube st base B R C)[b]? = some (mat st (base + b * (R * C)) R C) := by
  simp [cube, List.getElem?_map, List.getElem?_range hb]

/-- every row of the denotation of a `[R, C]` array that lies inside its storage has exactly `C` elements -/
theorem mat_mem_length {st : List α} {base R C : Nat} (hf : base + R * C ≤ st.length) :
    ∀ s ∈ mat st base R C, s.length = C := by
  intro s hs
  simp only [mat, List.mem_map, List.mem_range] at hs
  obtain ⟨r, hr, rfl⟩ := hs
  apply rowAt_length
  have h1 : (r + 1) * C ≤ R * C := Nat.mul_le_mul_right C hr
  rw [Nat.succ_mul] at h1
  omega

/-- the denotation is the `chunks` of `OW/Sim/Wrapper.lean` -/
theorem mat_eq_chunks (st : List α) (C : Nat) : ∀ (R base : Nat), mat st base R C = chunks C R (st.drop base)
  | 0, _ => by simp [mat, chunks]
  | R + 1, base => by
    have ih := mat_eq_chunks st C R (base + C)
    simp only [chunks, List.drop_drop]
    rw [← ih]
    simp only [mat, List.range_succ_eq_map, List.map_cons, List.map_map, rowAt]
    refine congrArg₂ _ (by simp) (List.map_congr_left fun r _ => ?_)
    simp only [Function.comp]
    congr 2
    rw [Nat.succ_mul]; omega

/-! ### reading -/

theorem readLoop_flat {h : Heap α} {sid : Nat} {b n : Int} {st : List α} (hs : h[sid]? = some st) (hb : 0 ≤ b)
    (hf : b + n ≤ st.length) :
    ∀ (m : Nat) (t : Int), 0 ≤ t → t + m ≤ n → readLoop h (flat sid b n) m t = .ok (rowAt st (b + t).toNat m)
  | 0, _, _, _ => by simp [readLoop, rowAt]
  | m + 1, t, t0, t1 => by
    obtain ⟨x, hx, _, hg⟩ := OW.WrapperNd.flat_get hs hb hf t0 (by omega : t < n)
    have ih := readLoop_flat hs hb hf m (t + 1) (by omega) (by omega)
    obtain ⟨hlt, hxe⟩ := List.getElem?_eq_some_iff.mp hx
    simp only [readLoop, hg, ih, bind, Except.bind, pure, Except.pure]
    rw [rowAt_succ st _ m hlt, hxe]
    congr 3
    omega

/-- reading a flat view element by element with `Get1` gives the window of the storage it aliases -/
theorem readView_flat {h : Heap α} {sid : Nat} {b n : Int} {st : List α} (hs : h[sid]? = some st) (hb : 0 ≤ b)
    (hn : 0 ≤ n) (hf : b + n ≤ st.length) : readView h (flat sid b n) = .ok (rowAt st b.toNat n.toNat) := by
  unfold readView
  have : (flat sid b n).v.len 0 = .ok n := by simp [View.len, flat, rootView]
  simp only [this, bind, Except.bind]
  rw [readLoop_flat hs hb hf n.toNat 0 (by omega) (by omega)]
  simp

/-- `Unroll()` of a flat view is the same window (as an alias of the storage) -/
theorem unrollVals_flat {h : Heap α} {sid : Nat} {b n : Int} (rv : RootOn h (flat sid b n) [n]) {st : List α}
    (hs : h[sid]? = some st) : unroll h (flat sid b n) = .ok (.alias sid b n) ∧
      unrollVals h (flat sid b n) = .ok (rowAt st b.toNat n.toNat) := by
  have hc : (flat sid b n).v.contiguous = .ok true :=
    (Props.C02.contiguous_dense rv.reach).1 (by simp [flat, rootView, uniform, NdC02.Dense])
  obtain ⟨sl, vals, h1, h2, _, _, _, h6, _, _⟩ := Props.C02.unroll_spec h _ rv.reach rv.ok
  have e := h6 rfl hc
  have e' : sl = .alias sid b n := by
    rw [e]; simp [flat, rootView, View.size, product]
  subst e'
  refine ⟨h1, ?_⟩
  unfold unrollVals
  simp only [h1, bind, Except.bind]
  simp [sliceVals, storeOf, hs, rowAt, bind, Except.bind, pure, Except.pure]

theorem mapR_ok {β γ : Type} (f : β → R γ) (g : β → γ) :
    ∀ l : List β, (∀ x ∈ l, f x = .ok (g x)) → mapR f l = .ok (l.map g)
  | [], _ => rfl
  | x :: xs, hl => by
    simp only [mapR, hl x (by simp), mapR_ok f g xs (fun y hy => hl y (by simp [hy])), bind, Except.bind, pure,
      Except.pure, List.map_cons]

/-! ### writing -/

/-- pointwise description of a block write -/
theorem cell_writeRun (sid : Nat) : ∀ (xs : List α) (h : Heap α) (lo u q : Nat),
    cell (writeRun h sid lo xs) u q =
      if u = sid ∧ lo ≤ q ∧ q < lo + xs.length then (cell h u q).bind (fun _ => xs[q - lo]?) else cell h u q
  | [], h, lo, u, q => by
    simp only [writeRun, List.length_nil, Nat.add_zero]
    rw [if_neg (by omega)]
  | x :: xs, h, lo, u, q => by
    simp only [writeRun]
    rw [cell_writeRun sid xs _ (lo + 1) u q, cell_setStore]
    by_cases hu : u = sid
    · by_cases hq : q = lo
      · subst hq
        rw [if_neg (by omega), if_pos ⟨hu, rfl⟩, if_pos ⟨hu, Nat.le_refl _, by simp⟩]
        cases cell h u q <;> simp
      · by_cases hin : lo + 1 ≤ q ∧ q < lo + 1 + xs.length
        · rw [if_pos ⟨hu, hin⟩, if_neg (by intro c; exact hq c.2), if_pos ⟨hu, by omega, by simp; omega⟩]
          have : q - lo = (q - (lo + 1)) + 1 := by omega
          rw [this, List.getElem?_cons_succ]
        · rw [if_neg (by intro c; exact hin c.2), if_neg (by intro c; exact hq c.2),
            if_neg (by intro c; apply hin; have := c.2; simp at this; omega)]
    · rw [if_neg (by intro c; exact hu c.1), if_neg (by intro c; exact hu c.1), if_neg (by intro c; exact hu c.1)]

theorem sameShape_writeRun (sid : Nat) (xs : List α) (h : Heap α) (lo : Nat) : SameShape h (writeRun h sid lo xs) := by
  rw [writeRun_eq_writeList]; exact sameShape_writeList sid _ h

theorem apply1_go_flat {sid : Nat} {b n : Int} (hb : 0 ≤ b) :
    ∀ (vals : List α) (h : Heap α) (k : Int) (st : List α), h[sid]? = some st → 0 ≤ k → k + vals.length ≤ n →
      apply1.go (flat sid b n) 0 1 h k vals = .ok (writeRun h sid (b + k).toNat vals)
  | [], _, _, _, _, _, _ => by simp [apply1.go, writeRun]
  | x :: xs, h, k, st, hs, k0, k1 => by
    have hlen : ((x :: xs).length : Int) = xs.length + 1 := by simp
    have hset := OW.WrapperNd.flat_set1 (n := n) (base := b) hs k0 (by omega : k < n) x
    have hs' : (setStore h sid (b + k).toNat x)[sid]? = some (st.set (b + k).toNat x) := by
      rw [getElem?_setStore]; simp [hs]
    have ih := apply1_go_flat (n := n) hb xs (setStore h sid (b + k).toNat x) (k + 1) _ hs' (by omega) (by omega)
    simp only [apply1.go, Int.zero_add, Int.mul_one, hset, bind, Except.bind, writeRun]
    rw [ih]
    congr 2
    omega

/-- **writeView_flat.** Writing `vals` (no longer than the view) element by element with `Set1` through a flat view
does not panic and is the block write at the view's window: the storage cells `base + k`, `k < len(vals)`, receive
`vals[k]`; every other cell of every storage is unchanged. -/
theorem writeView_flat {h : Heap α} {sid : Nat} {b n : Int} (rv : RootOn h (flat sid b n) [n]) (vals : List α)
    (hl : (vals.length : Int) ≤ n) :
    writeView h (flat sid b n) vals = .ok (writeRun h sid b.toNat vals) ∧
      SameShape h (writeRun h sid b.toNat vals) := by
  obtain ⟨st, hs, hb, _, _⟩ := rv.flat_store
  refine ⟨?_, sameShape_writeRun _ _ _ _⟩
  unfold writeView apply1
  rw [apply1_go_flat hb vals h 0 st hs (by omega) (by omega)]
  simp

/-- every position of a root's window is an existing storage cell -/
theorem RootOn.cell_some {h : Heap α} {a : Arr} {D : Idx} (r : RootOn h a D) {p : Int} (p0 : 0 ≤ p)
    (p1 : p < product D) : ∃ x, cell h a.sid (a.base + p).toNat = some x := by
  obtain ⟨st, hs, hl⟩ := r.ok.store
  have hb := r.ok.base_nonneg
  have hf := r.ok.fits
  rw [r.view] at hf
  have hf' : product D ≤ a.len := hf
  have : (a.base + p).toNat < st.length := by omega
  exact ⟨st[(a.base + p).toNat], by simp [cell, hs, List.getElem?_eq_getElem this]⟩

theorem nat_row_lt {n a b s : Nat} (hab : a < b) (hs : s < n) : a * n + s < b * n := by
  have : (a + 1) * n ≤ b * n := Nat.mul_le_mul_right n hab
  rw [Nat.succ_mul] at this
  omega

/-- the value the series list `sers` (series number `o0, o0+1, …`) holds for output `o`, timestep `t`, if any -/
def outVal (sers : List (List α)) (o0 o t : Nat) : Option α :=
  if o0 ≤ o then (sers[o - o0]?).bind (·[t]?) else none

/-- **writeOutputs_spec.** Writing the series `sers` (each no longer than `T ≤ T'`) as outputs `o0, o0+1, …`
(`o0 + len ≤ nO`) of cell `i < M` through the template's output views of a root `outputs [M, nO, T']`: no panic; the
heap keeps its shape; position `(i, o, t)` holds the written value if there is one and its old content otherwise; every
storage cell that is not a position `(i, ·, ·)` of the outputs storage is unchanged. -/
theorem writeOutputs_spec {outputs : Arr} {M nO T' T ob i : Nat} (hob : outputs.base = (ob : Int)) (hiM : i < M)
    (hT0 : 1 ≤ T) (hT : T ≤ T') :
    ∀ (sers : List (List α)) (o0 : Nat) (h : Heap α), RootOn h outputs [(M : Int), (nO : Int), (T' : Int)] →
      o0 + sers.length ≤ nO → (∀ ser ∈ sers, ser.length ≤ T) →
      ∃ h', writeOutputs h outputs (i : Int) (T : Int) (o0 : Int) sers = .ok h' ∧ SameShape h h' ∧
        (∀ o t, o < nO → t < T' → cell h' outputs.sid (ob + (i * nO + o) * T' + t) =
            (outVal sers o0 o t).or (cell h outputs.sid (ob + (i * nO + o) * T' + t))) ∧
        (∀ u q, (u ≠ outputs.sid ∨ ∀ o t, o < nO → t < T' → q ≠ ob + (i * nO + o) * T' + t) →
          cell h' u q = cell h u q)
  | [], o0, h, _, _, _ => by
    refine ⟨h, rfl, SameShape.refl h, fun o t _ _ => ?_, fun _ _ _ => rfl⟩
    simp [outVal]
  | ser :: rest, o0, h, r, ho, hl => by
    have ho0 : o0 < nO := by simp at ho; omega
    have hser : ser.length ≤ T := hl ser (by simp)
    obtain ⟨e, _, rv⟩ := outputView_eq (T := (T : Int)) (i := (i : Int)) (o := (o0 : Int)) r (by omega) (by omega)
      (by omega) (by omega) (by omega) (by omega)
    have hlo : (outputs.base + ((i : Int) * nO + o0) * T').toNat = ob + (i * nO + o0) * T' := by
      rw [hob]
      have : ((i : Int) * nO + o0) * T' = (((i * nO + o0) * T' : Nat) : Int) := by push_cast; ring
      rw [this]; omega
    obtain ⟨hw, hss⟩ := writeView_flat rv ser (by omega)
    rw [hlo] at hw hss
    have r2 := r.sameShape hss
    obtain ⟨h', e', hss', hin, hout⟩ := writeOutputs_spec hob hiM hT0 hT rest (o0 + 1) _ r2
      (by simp at ho; omega) (fun s hs => hl s (by simp [hs]))
    refine ⟨h', ?_, hss.trans hss', fun o t o1 t1 => ?_, fun u q hne => ?_⟩
    · simp only [writeOutputs, e, hw, bind, Except.bind]
      rw [← e']; congr 1
    · rw [hin o t o1 t1, cell_writeRun]
      have hsome : ∃ x, cell h outputs.sid (ob + (i * nO + o) * T' + t) = some x := by
        have hb : (i * nO + o) * T' + t < (M * nO) * T' := by
          have h1 : i * nO + o < (i + 1) * nO := by rw [Nat.succ_mul]; omega
          have h2 : (i + 1) * nO ≤ M * nO := Nat.mul_le_mul_right nO hiM
          have h3 := nat_row_lt (n := T') (s := t) (Nat.lt_of_lt_of_le h1 h2) t1
          exact h3
        obtain ⟨x, hx⟩ := r.cell_some (p := (((i * nO + o) * T' + t : Nat) : Int)) (by omega)
          (by simp only [product]; push_cast at hb ⊢; nlinarith [hb])
        refine ⟨x, ?_⟩
        rw [← hx, hob]; congr 1; omega
      obtain ⟨x, hx⟩ := hsome
      rcases Nat.lt_trichotomy o o0 with hlt | heq | hgt
      · have := nat_row_lt (n := T') (s := t) (a := i * nO + o) (b := i * nO + o0) (by omega) t1
        rw [if_neg (by omega)]
        simp [outVal, show ¬ o0 ≤ o by omega, show ¬ o0 + 1 ≤ o by omega]
      · subst heq
        by_cases htl : t < ser.length
        · rw [if_pos ⟨rfl, by omega, by omega⟩, hx]
          have : ob + (i * nO + o) * T' + t - (ob + (i * nO + o) * T') = t := by omega
          simp [outVal, this, List.getElem?_eq_getElem htl]
        · rw [if_neg (by omega)]
          have : ser[t]? = none := List.getElem?_eq_none (by omega)
          simp [outVal, this]
      · have h1 : (i * nO + o0 + 1) * T' ≤ (i * nO + o) * T' := Nat.mul_le_mul_right T' (by omega)
        rw [Nat.succ_mul] at h1
        rw [if_neg (by omega)]
        have e1 : o - o0 = (o - (o0 + 1)) + 1 := by omega
        simp [outVal, show o0 ≤ o by omega, show o0 + 1 ≤ o by omega, e1]
    · rw [hout u q hne, cell_writeRun, if_neg]
      rintro ⟨hu, hq1, hq2⟩
      rcases hne with hne | hne
      · exact hne hu
      · exact hne o0 (q - (ob + (i * nO + o0) * T')) ho0 (by omega) (by omega)

theorem mapR_filterMap {β γ : Type} (f : β → R γ) (g : β → Option γ) :
    ∀ l : List β, (∀ x ∈ l, ∃ y, f x = .ok y ∧ g x = some y) → mapR f l = .ok (l.filterMap g)
  | [], _ => rfl
  | x :: xs, hl => by
    obtain ⟨y, h1, h2⟩ := hl x (by simp)
    simp only [mapR, h1, mapR_filterMap f g xs (fun z hz => hl z (by simp [hz])), bind, Except.bind, pure,
      Except.pure, List.filterMap_cons, h2]

/-! ### the read side of one cell -/

/-- rows of a root `[R, C]` lie inside its storage -/
theorem RootOn.row_fits {h : Heap α} {a : Arr} {R C b : Nat} {st : List α} (r : RootOn h a [(R : Int), (C : Int)])
    (hb : a.base = (b : Int)) (hs : h[a.sid]? = some st) {j : Nat} (hj : j < R) : b + j * C + C ≤ st.length := by
  obtain ⟨st', hs', hl⟩ := r.ok.store
  rw [hs] at hs'; injection hs' with hs'; subst hs'
  have hf := r.ok.fits
  rw [r.view] at hf
  have hf' : ((R : Int) * ((C : Int) * 1)) ≤ a.len := hf
  have h1 : (j + 1) * C ≤ R * C := Nat.mul_le_mul_right C hj
  rw [Nat.succ_mul] at h1
  have h2 : ((R * C : Nat) : Int) = (R : Int) * ((C : Int) * 1) := by push_cast; ring
  omega

/-- **params_refine.** Decoding the `nP` scalar parameters of cell `i` through the template's views gives the list
the list-level semantics decodes (`pick`) from the row-major denotation of the parameters storage. -/
theorem params_refine {h : Heap α} {parameters : Arr} {rows nSets nP pb i : Nat} {pst : List α}
    (rp : RootOn h parameters [(rows : Int), (nSets : Int)]) (hpb : parameters.base = (pb : Int))
    (hp : h[parameters.sid]? = some pst) (hnP : nP ≤ rows) :
    mapR (fun (j : Nat) => scalarParam h parameters (j : Int) (i : Int)) (List.range nP) =
        .ok ((List.range nP).filterMap (Props.C04.pick (mat pst pb rows nSets) i)) ∧
      ∀ j, j < nP → (Props.C04.pick (mat pst pb rows nSets) i j).isSome := by
  obtain ⟨_, hnS⟩ := pos2 rp.pos
  have key : ∀ j, j < nP → ∃ y, scalarParam h parameters (j : Int) (i : Int) = .ok y ∧
      Props.C04.pick (mat pst pb rows nSets) i j = some y := by
    intro j hj
    have hjr : j < rows := by omega
    obtain ⟨x, hx, hc⟩ := scalarParam_eq rp (row := (j : Int)) (i := (i : Int)) (by omega) (by omega) (by omega)
    refine ⟨x, hx, ?_⟩
    have hfit := rp.row_fits hpb hp hjr
    have hmod : i % nSets < nSets := Nat.mod_lt _ (by omega)
    have hpos : (parameters.base + ((j : Int) * nSets + (i : Int) % nSets)).toNat = pb + j * nSets + i % nSets := by
      rw [hpb]; omega
    rw [hpos] at hc
    simp only [cell, hp, Option.bind_some] at hc
    unfold Props.C04.pick
    rw [mat_getElem? _ _ _ _ _ hjr]
    simp only [rowAt_length hfit]
    rw [if_neg (by omega), rowAt_getElem? _ _ _ _ hmod, hc]
  refine ⟨mapR_filterMap _ _ _ (fun j hj => key j (List.mem_range.mp hj)), fun j hj => ?_⟩
  obtain ⟨y, _, hy⟩ := key j hj
  rw [hy]; rfl

/-- **state_read_refine.** Reading the state view of cell `i` gives row `i` of the states storage. -/
theorem state_read_refine {h : Heap α} {states : Arr} {N nS sb i : Nat} {sst : List α}
    (rs : RootOn h states [(N : Int), (nS : Int)]) (hsb : states.base = (sb : Int))
    (hs : h[states.sid]? = some sst) (hiN : i < N) :
    stateView h states (i : Int) (nS : Int) = .ok (h, flat states.sid (sb + i * nS : Nat) nS) ∧
      RootOn h (flat states.sid ((sb + i * nS : Nat) : Int) (nS : Int)) [(nS : Int)] ∧
      readView h (flat states.sid ((sb + i * nS : Nat) : Int) (nS : Int)) = .ok (rowAt sst (sb + i * nS) nS) ∧
      sb + i * nS + nS ≤ sst.length := by
  obtain ⟨e, _, rv⟩ := stateView_eq rs (i := (i : Int)) (by omega) (by omega)
  have eb : states.base + (i : Int) * nS = ((sb + i * nS : Nat) : Int) := by rw [hsb]; push_cast; ring
  rw [eb] at e rv
  obtain ⟨st', hs', hb, hf, _⟩ := rv.flat_store
  rw [hs] at hs'; injection hs' with hs'; subst hs'
  refine ⟨e, rv, ?_, by omega⟩
  rw [readView_flat hs hb (by omega) hf]
  simp only [Int.toNat_natCast]

/-- **inputs_refine.** Reading the `nI` input views of cell `i` gives block `i % nIn` of the inputs storage. -/
theorem inputs_refine {h : Heap α} {inputs : Arr} {nIn nI T ib i : Nat} {ist : List α}
    (ri : RootOn h inputs [(nIn : Int), (nI : Int), (T : Int)]) (hib : inputs.base = (ib : Int))
    (hi : h[inputs.sid]? = some ist) :
    mapR (fun (k : Nat) => do
        let (h2, v) ← inputView h inputs (i : Int) (k : Int) (nIn : Int) (nI : Int) (T : Int)
        readView h2 v) (List.range nI) = .ok (mat ist (ib + (i % nIn) * (nI * T)) nI T) ∧
      (cube ist ib nIn nI T)[i % (cube ist ib nIn nI T).length]?.getD [] = mat ist (ib + (i % nIn) * (nI * T)) nI T := by
  obtain ⟨hnIn, _, _⟩ := pos3 ri.pos
  have hmod : i % nIn < nIn := Nat.mod_lt _ (by omega)
  constructor
  · unfold mat
    apply mapR_ok
    intro k hk
    have hk' := List.mem_range.mp hk
    obtain ⟨e, rv⟩ := inputView_eq ri (i := (i : Int)) (k := (k : Int)) (by omega) (by omega) (by omega)
    have eb : inputs.base + (((i : Int) % nIn) * nI + k) * T = ((ib + (i % nIn) * (nI * T) + k * T : Nat) : Int) := by
      rw [hib]; push_cast; ring
    rw [eb] at e rv
    obtain ⟨st', hs', hb, hf, _⟩ := rv.flat_store
    rw [hi] at hs'; injection hs' with hs'; subst hs'
    simp only [e, bind, Except.bind]
    rw [readView_flat hi hb (by omega) hf]
    simp only [Int.toNat_natCast]
  · rw [cube_length, cube_getElem? _ _ _ _ _ _ hmod]
    rfl

/-! ### the list-level write, pointwise -/

theorem overwrite_getElem? [Num α] (row xs : List α) (k : Nat) (hk : k < row.length) :
    (overwrite row xs)[k]? = if k < xs.length then xs[k]? else row[k]? := by
  split
  · exact Props.C04.overwrite_written row xs k (by assumption) hk
  · exact Props.C04.overwrite_frame row xs k (by omega)

/-- the output rows `cellStep` produces, pointwise: row `o` is the old row overwritten by the kernel's series `o`
(by nothing when the kernel returned fewer series) -/
theorem newO_getElem? (orow outs : List (List α)) (o : Nat) (ho : o < orow.length) (hlen : outs.length ≤ orow.length) :
    ((orow.zip (outs ++ List.replicate (orow.length - outs.length) [])).map
        fun (p : List α × List α) => overwrite p.1 p.2)[o]? =
      some (overwrite (orow[o]'ho) (outs[o]?.getD [])) := by
  have hpad : (outs ++ List.replicate (orow.length - outs.length) ([] : List α))[o]? = some (outs[o]?.getD []) := by
    by_cases h : o < outs.length
    · rw [List.getElem?_append_left h, List.getElem?_eq_getElem h]; rfl
    · rw [List.getElem?_append_right (by omega), List.getElem?_replicate, if_pos (by omega),
        List.getElem?_eq_none (by omega)]
      rfl
  rw [List.getElem?_map]
  have : (orow.zip (outs ++ List.replicate (orow.length - outs.length) ([] : List α)))[o]? =
      some (orow[o]'ho, outs[o]?.getD []) :=
    List.getElem?_zip_eq_some.mpr ⟨List.getElem?_eq_getElem ho, hpad⟩
  rw [this]
  rfl

/-- rows of a root `[M, nO, T']` lie inside its storage -/
theorem RootOn.row_fits3 {h : Heap α} {a : Arr} {M nO T' b : Nat} {st : List α}
    (r : RootOn h a [(M : Int), (nO : Int), (T' : Int)]) (hb : a.base = (b : Int)) (hs : h[a.sid]? = some st)
    {i o : Nat} (hi : i < M) (ho : o < nO) : b + (i * nO + o) * T' + T' ≤ st.length := by
  obtain ⟨st', hs', hl⟩ := r.ok.store
  rw [hs] at hs'; injection hs' with hs'; subst hs'
  have hf := r.ok.fits
  rw [r.view] at hf
  have hf' : ((M : Int) * ((nO : Int) * ((T' : Int) * 1))) ≤ a.len := hf
  have h1 : i * nO + o < (i + 1) * nO := by rw [Nat.succ_mul]; omega
  have h2 : (i + 1) * nO ≤ M * nO := Nat.mul_le_mul_right nO hi
  have h3 : (i * nO + o + 1) * T' ≤ (M * nO) * T' := Nat.mul_le_mul_right T' (by omega)
  rw [Nat.succ_mul] at h3
  have h4 : (((M * nO) * T' : Nat) : Int) = (M : Int) * ((nO : Int) * ((T' : Int) * 1)) := by push_cast; ring
  omega

/-- blocks of a root `[B, R, C]` lie inside its storage -/
theorem RootOn.block_fits3 {h : Heap α} {a : Arr} {B R C b : Nat} {st : List α}
    (r : RootOn h a [(B : Int), (R : Int), (C : Int)]) (hb : a.base = (b : Int)) (hs : h[a.sid]? = some st)
    {k : Nat} (hk : k < B) : b + k * (R * C) + R * C ≤ st.length := by
  obtain ⟨st', hs', hl⟩ := r.ok.store
  rw [hs] at hs'; injection hs' with hs'; subst hs'
  have hf := r.ok.fits
  rw [r.view] at hf
  have hf' : ((B : Int) * ((R : Int) * ((C : Int) * 1))) ≤ a.len := hf
  have h1 : (k + 1) * (R * C) ≤ B * (R * C) := Nat.mul_le_mul_right _ hk
  rw [Nat.succ_mul] at h1
  have h2 : ((B * (R * C) : Nat) : Int) = (B : Int) * ((R : Int) * ((C : Int) * 1)) := by push_cast; ring
  omega

/-- the three shape facts about what the wrapper passes to the kernel (the premises of the kernel-fit hypothesis
`hK` of `cellStepNd_refines`): `nI` input series of exactly `T` values, a state row of exactly `nS` values -/
theorem passed_shapes {h : Heap α} {inputs : Arr} {nIn nI T ib sb nS i : Nat} {ist sst : List α}
    (ri : RootOn h inputs [(nIn : Int), (nI : Int), (T : Int)]) (hib : inputs.base = (ib : Int))
    (hi : h[inputs.sid]? = some ist) (hsfit : sb + i * nS + nS ≤ sst.length) :
    (mat ist (ib + (i % nIn) * (nI * T)) nI T).length = nI ∧
    (∀ s ∈ mat ist (ib + (i % nIn) * (nI * T)) nI T, s.length = T) ∧
    (rowAt sst (sb + i * nS) nS).length = nS := by
  obtain ⟨hnIn, _, _⟩ := pos3 ri.pos
  have hmod : i % nIn < nIn := Nat.mod_lt _ (by omega)
  exact ⟨mat_length _ _ _ _, mat_mem_length (ri.block_fits3 hib hi hmod), rowAt_length hsfit⟩

/-- one cell step through the template's views is `cellStep` (statement and comments: `OW.Props.C04Nd.wrapperNd_refines`) -/
theorem cellStepNd_refines [Num α] (km : KModel α) {h : Heap α} {parameters inputs states outputs : Arr}
    {rows nSets nIn nI T N nS M nO T' nP i pb ib sb ob : Nat} {pst ist sst ost : List α}
    (rp : RootOn h parameters [(rows : Int), (nSets : Int)])
    (ri : RootOn h inputs [(nIn : Int), (nI : Int), (T : Int)])
    (rs : RootOn h states [(N : Int), (nS : Int)])
    (ro : RootOn h outputs [(M : Int), (nO : Int), (T' : Int)])
    (hpb : parameters.base = (pb : Int)) (hib : inputs.base = (ib : Int)) (hsb : states.base = (sb : Int))
    (hob : outputs.base = (ob : Int))
    (hp : h[parameters.sid]? = some pst) (hi : h[inputs.sid]? = some ist)
    (hs : h[states.sid]? = some sst) (ho : h[outputs.sid]? = some ost)
    (hso : states.sid ≠ outputs.sid)
    (hnP : nP ≤ rows) (hiN : i < N) (hiM : i < M) (hT : T ≤ T')
    {rd : RunDims} (hrd : runDims inputs states outputs = .ok rd)
    (hK : ∀ p ins st r, ins.length = nI → (∀ s ∈ ins, s.length = T) → st.length = nS → km.run p ins st = .ok r →
      r.outputs.length ≤ nO ∧ (∀ ser ∈ r.outputs, ser.length ≤ T) ∧ r.states.length ≤ nS) :
    (∀ e, cellStep km (List.replicate nP none) ((List.range nP).map fun j => (j, 1)) (mat pst pb rows nSets)
          (cube ist ib nIn nI T) i (rowAt sst (sb + i * nS) nS) (mat ost (ob + i * (nO * T')) nO T') = .error e →
        cellStepNd km.run nP nI h parameters inputs states outputs rd (i : Int) = .error e) ∧
    (∀ s' o', cellStep km (List.replicate nP none) ((List.range nP).map fun j => (j, 1)) (mat pst pb rows nSets)
          (cube ist ib nIn nI T) i (rowAt sst (sb + i * nS) nS) (mat ost (ob + i * (nO * T')) nO T') = .ok (s', o') →
      ∃ h', cellStepNd km.run nP nI h parameters inputs states outputs rd (i : Int) = .ok h' ∧ SameShape h h' ∧
        (∀ s, s < nS → cell h' states.sid (sb + i * nS + s) = s'[s]?) ∧
        (∀ o t, o < nO → t < T' → cell h' outputs.sid (ob + (i * nO + o) * T' + t) = (o'[o]?).bind (·[t]?)) ∧
        (∀ u q, ¬ (u = states.sid ∧ ∃ s, s < nS ∧ q = sb + i * nS + s) →
                ¬ (u = outputs.sid ∧ ∃ o t, o < nO ∧ t < T' ∧ q = ob + (i * nO + o) * T' + t) →
                cell h' u q = cell h u q)) := by
  -- the numbers of the preamble
  rw [runDims_eq ri.view rs.view ro.view] at hrd
  injection hrd with hrd
  subst hrd
  obtain ⟨_, _, hT0⟩ := pos3 ri.pos
  have hT0' : 1 ≤ T := by omega
  -- read side
  obtain ⟨hpar, hpick⟩ := params_refine (i := i) rp hpb hp hnP
  have hcp := Props.C04.cellParams_scalar nP (mat pst pb rows nSets) i hpick
  obtain ⟨hsv, rsv, hread, hsfit⟩ := state_read_refine rs hsb hs hiN
  obtain ⟨hins, hblock⟩ := inputs_refine (i := i) ri hib hi
  -- both sides up to the kernel call
  have hL : cellStep km (List.replicate nP none) ((List.range nP).map fun j => (j, 1)) (mat pst pb rows nSets)
      (cube ist ib nIn nI T) i (rowAt sst (sb + i * nS) nS) (mat ost (ob + i * (nO * T')) nO T') =
      (do let r ← km.run ((List.range nP).filterMap (Props.C04.pick (mat pst pb rows nSets) i))
              (mat ist (ib + (i % nIn) * (nI * T)) nI T) (rowAt sst (sb + i * nS) nS)
          pure (overwrite (rowAt sst (sb + i * nS) nS) r.states,
            ((mat ost (ob + i * (nO * T')) nO T').zip (r.outputs ++ List.replicate
              ((mat ost (ob + i * (nO * T')) nO T').length - r.outputs.length) [])).map
              fun (p : List α × List α) => overwrite p.1 p.2)) := by
    rw [Props.C04.cellStep_blocks _ _ _ _ _ _ _ _ (by rw [cube_length]; omega)]
    simp only [hcp, hblock, bind, Except.bind]
  have hR : cellStepNd km.run nP nI h parameters inputs states outputs
      { numCells := N, numStates := nS, numInputSequences := nIn, inputLen := T, cellInputsShape := [(nI : Int), (T : Int)],
        outputStepSlice := [1, 1, 1], outputSizeSlice := [1, 1, (T : Int)], statesSizeSlice := [1, (nS : Int)],
        inputsSizeSlice := [1, (nI : Int), (T : Int)] } (i : Int) =
      (do let r ← km.run ((List.range nP).filterMap (Props.C04.pick (mat pst pb rows nSets) i))
              (mat ist (ib + (i % nIn) * (nI * T)) nI T) (rowAt sst (sb + i * nS) nS)
          let h3 ← writeOutputs h outputs (i : Int) (T : Int) 0 r.outputs
          writeView h3 (flat states.sid ((sb + i * nS : Nat) : Int) (nS : Int)) r.states) := by
    have hins' := hins
    simp only [bind, Except.bind] at hins'
    unfold cellStepNd
    simp only [hpar, hsv, hread, hins', bind, Except.bind]
  rw [hL, hR]
  cases hk : km.run ((List.range nP).filterMap (Props.C04.pick (mat pst pb rows nSets) i))
      (mat ist (ib + (i % nIn) * (nI * T)) nI T) (rowAt sst (sb + i * nS) nS) with
  | error e0 =>
    refine ⟨fun e he => ?_, fun s' o' he => ?_⟩
    · simp only [bind, Except.bind] at he ⊢
      cases he; rfl
    · simp [bind, Except.bind] at he
  | ok r =>
    obtain ⟨hps1, hps2, hps3⟩ := passed_shapes (i := i) ri hib hi hsfit
    obtain ⟨hko, hkl, hks⟩ := hK _ _ _ _ hps1 hps2 hps3 hk
    refine ⟨fun e he => by simp [bind, Except.bind, pure, Except.pure] at he, fun s' o' he => ?_⟩
    simp only [bind, Except.bind, pure, Except.pure, Except.ok.injEq, Prod.mk.injEq] at he
    obtain ⟨hs', ho'⟩ := he
    -- write side
    obtain ⟨h3, hw3, hss3, hin3, hout3⟩ := writeOutputs_spec hob hiM hT0' hT r.outputs 0 h ro (by omega) hkl
    have rsv3 := rsv.sameShape hss3
    obtain ⟨hw4, hss4⟩ := writeView_flat rsv3 r.states (by omega)
    simp only [Int.toNat_natCast] at hw4 hss4
    refine ⟨_, ?_, hss3.trans hss4, fun s s1 => ?_, fun o t o1 t1 => ?_, fun u q hns hno => ?_⟩
    · simp only [bind, Except.bind]
      have : ((0 : Nat) : Int) = 0 := rfl
      rw [← this, hw3]
      exact hw4
    · -- state row
      have hrl : (rowAt sst (sb + i * nS) nS).length = nS := rowAt_length hsfit
      rw [cell_writeRun, ← hs', overwrite_getElem? _ _ _ (by rw [hrl]; exact s1), rowAt_getElem? _ _ _ _ s1]
      have h3c : cell h3 states.sid (sb + i * nS + s) = sst[sb + i * nS + s]? := by
        rw [hout3 _ _ (Or.inl hso)]; simp [cell, hs]
      have hsome : sb + i * nS + s < sst.length := by omega
      by_cases hsl : s < r.states.length
      · rw [if_pos ⟨rfl, by omega, by omega⟩, if_pos hsl, h3c, List.getElem?_eq_getElem hsome]
        simp
      · rw [if_neg (by omega), if_neg hsl, h3c]
    · -- output rows
      rw [cell_writeRun, if_neg (by intro c; exact hso c.1.symm), hin3 o t o1 t1, ← ho']
      have hol : (mat ost (ob + i * (nO * T')) nO T').length = nO := mat_length _ _ _ _
      have hfit := ro.row_fits3 hob ho hiM o1
      rw [newO_getElem? _ _ o (by rw [hol]; exact o1) (by rw [hol]; exact hko)]
      have hrow : (mat ost (ob + i * (nO * T')) nO T')[o]'(by rw [hol]; exact o1) =
          rowAt ost (ob + (i * nO + o) * T') T' := by
        have := mat_getElem? ost (ob + i * (nO * T')) nO T' o o1
        rw [List.getElem?_eq_getElem (by rw [hol]; exact o1)] at this
        injection this with this
        rw [this]; congr 1; ring
      simp only [Option.bind_some]
      rw [hrow, overwrite_getElem? _ _ _ (by rw [rowAt_length hfit]; exact t1), rowAt_getElem? _ _ _ _ t1]
      have hcell : cell h outputs.sid (ob + (i * nO + o) * T' + t) = ost[ob + (i * nO + o) * T' + t]? := by
        simp [cell, ho]
      rw [hcell]
      unfold outVal
      simp only [Nat.zero_le, if_true, Nat.sub_zero]
      cases hro : r.outputs[o]? with
      | none => simp
      | some ser =>
        simp only [Option.getD_some, Option.bind_some]
        by_cases htl : t < ser.length
        · rw [if_pos htl, List.getElem?_eq_getElem htl]; simp
        · rw [if_neg htl, List.getElem?_eq_none (by omega)]; simp
    · -- frame
      rw [cell_writeRun, if_neg, hout3]
      · by_cases hu : u = outputs.sid
        · right; intro o t o1 t1 hq
          exact hno ⟨hu, o, t, o1, t1, hq⟩
        · exact Or.inl hu
      · rintro ⟨hu, hq1, hq2⟩
        exact hns ⟨hu, q - (sb + i * nS), by omega, by omega⟩

end
end OW.WrapperNd
