import OW.Proofs.StorageExample
/-! C06 non-vacuity on the MAIN path of the Storage kernel (ℝ): the table of OW/Proofs/StorageExample.lean (two knots: volumes
0 / 1000 m³, levels 0 / 10 m, areas 0 / 100 m², minimum release 0 / 0, maximum release 0 / 2), timesteps of 1 s with inflow
1 m³/s, no demand, rain or evaporation — from ANY volume `v` with `0 ≤ v`, `v + 1 < 1000`, with any fuel ≥ 2 / ≥ 1 (so also the
driver's `fuelOuter`, `fuelInner`) and either value of `keep`: one accepted sub-step, the volume becomes `v + 1`. -/
namespace OW.Proofs.StorageExampleHot
open OW OW.Kernels.Storage OW.Proofs.Storage OW.Proofs.StorageExample

theorem trialGen (v nf : ℝ) (fi : Nat) (hnf : nf = 0) (h0 : 0 ≤ v) (h1 : v + 1 < 1000) :
    ∃ a : Accepted ℝ, trial tEx 1 0 nf v 0 (0 + v / 1000 * (100 - 0)) (fi + 1) 1 [] = .ok a ∧
      a.sub = 1 ∧ a.avgOutflow = 0 := by
  subst hnf
  simp only [trial, zero_lit, two_lit, minStepNeg_eq, minStepPos_eq]
  have c1 : ¬ (v + (1 - 0 + 0 * (0 + v / 1000 * (100 - 0))) * 1 < 0) := by norm_num; linarith
  rw [if_neg c1]
  have e3 : tEx.areas = [0, 100] := rfl
  rw [e3, capEx _ 0 100 (by linarith) (by linarith) (by norm_num)]
  simp only [bind, Except.bind]
  rw [relEx _ (by norm_num; linarith) (by norm_num; linarith)]
  simp only
  have c2 : (0:ℝ) ≤ v + (1 - (0 + 0) / 2 + 0 * (0 + (v + (1 - 0 + 0 * (0 + v / 1000 * (100 - 0))) * 1 + v) / 2 / 1000 * (100 - 0))) * 1 := by
    norm_num; linarith
  rw [if_pos c2, if_pos closeEx]
  refine ⟨_, rfl, rfl, ?_⟩
  norm_num

theorem stepGen (keep : Bool) (fo fi : Nat) (v : ℝ) (h0 : 0 ≤ v) (h1 : v + 1 < 1000) :
    ∃ tg so, step tEx keep (fo + 2) (fi + 1) 1 v [] (0, 0, 1, 0) = .ok (v + 1, tg, so) := by
  have hnf : ((0:ℝ) / 1 - 0 / 1) * mmToM = 0 := by norm_num
  obtain ⟨a, ha, hsub, hout⟩ := trialGen v _ fi hnf h0 h1
  simp only [step, outer, outerBody, zero_lit, two_lit, RealNum.gmin_eq, bind, Except.bind]
  have c0 : (0:ℝ) < 1 := by norm_num
  rw [if_pos c0]
  have e3 : tEx.areas = [0, 100] := rfl
  have m : min (1:ℝ) (1 * 2) = 1 := by norm_num
  rw [relEx v h0 (by linarith), e3, capEx v 0 100 h0 (by linarith) (by norm_num), m]
  simp only
  rw [ha]
  simp only [hnf, hsub, hout]
  have u : v + (1 + 0 * a.avgArea - 0) * 1 = v + 1 := by ring
  simp only [u]
  have sp : ∀ x y : ℝ, spill tEx (v + 1) x y = (0, v + 1, false) := by
    intro x y
    unfold spill
    have : ¬ (tEx.volCurveMax < v + 1) := by
      show ¬ ((1000:ℝ) < v + 1)
      linarith
    rw [if_neg this]; rfl
  simp only [sp]
  have c1 : ¬ (v + 1 < 0) := by linarith
  simp only [if_neg c1]
  have c2 : ¬ ((0:ℝ) < 1 - 1) := by norm_num
  simp only [pure, Except.pure, if_neg c2]
  exact ⟨_, _, rfl⟩

/-- a successful one-timestep run from any volume `v ∈ [0, 999)`: the final volume is `v + 1` -/
theorem runGen (keep : Bool) (fo fi : Nat) (v : ℝ) (h0 : 0 ≤ v) (h1 : v + 1 < 1000) :
    ∃ r : RunOut ℝ, run tEx keep (fo + 2) (fi + 1) 1 v [(0, 0, 1, 0)] = .ok r ∧ r.volume = v + 1 := by
  obtain ⟨tg, so, hs⟩ := stepGen keep fo fi v h0 h1
  have e1 : tEx.levels = [0, 10] := rfl
  have e3 : tEx.areas = [0, 100] := rfl
  simp only [run, steps, bind, Except.bind, hs, pure, Except.pure]
  rw [e1, e3, capEx (v + 1) 0 10 (by linarith) h1 (by norm_num), capEx (v + 1) 0 100 (by linarith) h1 (by norm_num)]
  exact ⟨_, rfl, rfl⟩

/-- with the driver's fuel, as `Storage.model` calls it -/
theorem runGen_driver (v : ℝ) (h0 : 0 ≤ v) (h1 : v + 1 < 1000) :
    ∃ r : RunOut ℝ, run tEx false fuelOuter fuelInner 1 v [(0, 0, 1, 0)] = .ok r ∧ r.volume = v + 1 :=
  runGen false 399998 3999 v h0 h1

end OW.Proofs.StorageExampleHot
