import OW.Proofs.HotStart
import OW.Kernels.GR4J
/-!
Hot-start lemmas for GR4J (C06): the two unit-hydrograph stores keep their lengths through the day loop, and
`extractGR4JStates ∘ packGR4JStates = id` on such states. Core Lean only.
-/
set_option linter.unusedSimpArgs false
set_option linter.unusedVariables false
namespace OW.Proofs.GR4JHot
open OW OW.Kernels.GR4J
variable {α : Type} [Num α]

theorem uh1_length (x4 : α) (n : Nat) : (uh1 x4 n).length = n := by simp [uh1]
theorem uh2_length (x4 : α) (n : Nat) : (uh2 x4 n).length = n := by simp [uh2]

theorem shift_addUH_length (pr f : α) (q uh : List α) (n : Nat) (hq : q.length = n) (hu : uh.length = n) (hn : 0 < n) :
    (shift (addUH pr f q uh)).length = n := by
  simp only [shift, addUH, List.length_append, List.length_tail, List.length_zipWith, hq, hu, List.length_cons,
    List.length_nil]
  omega

/-- one step keeps the lengths of the two unit-hydrograph stores -/
theorem step_len (x1 x2 x3 x4 : α) (n1 n2 : Nat) (h1 : 0 < n1) (h2 : 0 < n2) (st : State α) (i : α × α)
    (hq1 : st.q1.length = n2) (hq9 : st.q9.length = n1) :
    (step x1 x2 x3 (uh1 x4 n1) (uh2 x4 n2) st i).1.q1.length = n2 ∧
    (step x1 x2 x3 (uh1 x4 n1) (uh2 x4 n2) st i).1.q9.length = n1 := by
  simp only [step]
  exact ⟨shift_addUH_length _ _ _ _ n2 hq1 (uh2_length x4 n2) h2, shift_addUH_length _ _ _ _ n1 hq9 (uh1_length x4 n1) h1⟩

theorem run_len (x1 x2 x3 x4 : α) (n1 n2 : Nat) (h1 : 0 < n1) (h2 : 0 < n2) (xs : List (α × α)) (st : State α)
    (hq1 : st.q1.length = n2) (hq9 : st.q9.length = n1) :
    (run x1 x2 x3 x4 n1 n2 st xs).1.q1.length = n2 ∧ (run x1 x2 x3 x4 n1 n2 st xs).1.q9.length = n1 := by
  unfold run
  induction xs generalizing st with
  | nil => exact ⟨hq1, hq9⟩
  | cons x xs ih =>
    simp only [scan]
    obtain ⟨a, b⟩ := step_len x1 x2 x3 x4 n1 n2 h1 h2 st x hq1 hq9
    exact ih _ a b

/-- `extractGR4JStates (packGR4JStates st) = st` when the two stores have their lengths n2 / n1 -/
theorem roundtrip_GR4J (st : State α) (n1 n2 : Nat) (hq1 : st.q1.length = n2) (hq9 : st.q9.length = n1) :
    ∃ n1f n2f rest, pack st n1 n2 = st.S :: st.R :: n1f :: n2f :: rest ∧ n1f = Num.ofNat n1 ∧ n2f = Num.ofNat n2 ∧
      rest.length = n1 + n2 ∧ (⟨st.S, st.R, rest.take n2, (rest.drop n2).take n1⟩ : State α) = st := by
  refine ⟨_, _, st.q1 ++ st.q9, rfl, rfl, rfl, by simp [hq1, hq9, Nat.add_comm], ?_⟩
  obtain ⟨S, R, q1, q9⟩ := st
  simp only at hq1 hq9
  simp [← hq1, ← hq9]

end OW.Proofs.GR4JHot
