import OW.Proofs.Surm
import OW.Kernels.Simhyd
/-!
C10 for SIMHYD: one-step theorem (state invariant, components, non-negativity, exact water balance with the ghost
evapotranspiration term, hence the "no water created" inequality) and its lift to runs.
-/
namespace OW.RR.Simhyd
open OW OW.Kernels.Simhyd

/-- physically meaningful parameter ranges: coefficients are fractions, capacities/thresholds in mm -/
structure ParamsOk (p : Params ℝ) : Prop where
  bfc0 : 0 ≤ p.baseflowCoefficient
  bfc1 : p.baseflowCoefficient ≤ 1
  imp0 : 0 ≤ p.imperviousThreshold
  inf0 : 0 ≤ p.infiltrationCoefficient
  int0 : 0 ≤ p.interflowCoefficient
  int1 : p.interflowCoefficient ≤ 1
  pf0 : 0 ≤ p.perviousFraction
  pf1 : p.perviousFraction ≤ 1
  risc0 : 0 ≤ p.risc
  rch0 : 0 ≤ p.rechargeCoefficient
  rch1 : p.rechargeCoefficient ≤ 1
  smsc0 : 0 < p.smsc

def Inv (p : Params ℝ) (s : State ℝ) : Prop := 0 ≤ s.sms ∧ s.sms ≤ p.smsc ∧ 0 ≤ s.gw

/-- water held per unit catchment area (the stores belong to the pervious fraction) -/
def stor (p : Params ℝ) (s : State ℝ) : ℝ := p.perviousFraction * (s.sms + s.gw)

def OutOk (p : Params ℝ) (o : Out ℝ) : Prop :=
  o.runoff = o.quickflow + o.baseflow ∧ 0 ≤ o.runoff ∧ 0 ≤ o.quickflow ∧ 0 ≤ o.baseflow ∧
  0 ≤ o.store ∧ o.store ≤ p.smsc ∧ 0 ≤ o.aet

/-- the only divisor of the loop body -/
theorem divisors_pos (p : Params ℝ) (hp : ParamsOk p) : p.smsc ≠ 0 := hp.smsc0.ne'

/-- One step: invariant kept, outputs fine, and the balance closes exactly:
runoff + evapotranspiration + storage after = rainfall + storage before. -/
theorem step_spec (p : Params ℝ) (hp : ParamsOk p) (s : State ℝ) (x : ℝ × ℝ) (hs : Inv p s)
    (hx : 0 ≤ x.1 ∧ 0 ≤ x.2) :
    Inv p (step p s x).1 ∧
    (step p s x).2.runoff + (step p s x).2.aet + stor p (step p s x).1 = x.1 + stor p s ∧
    OutOk p (step p s x).2 ∧ (step p s x).2.store = (step p s x).1.sms := by
  obtain ⟨rain, pet⟩ := x
  obtain ⟨hs0, hs1, hg0⟩ := hs
  obtain ⟨hr, hpet⟩ := hx
  simp only at hr hpet
  have hc := hp.smsc0
  have hpf := hp.pf0
  have hpf1 : 0 ≤ 1 - p.perviousFraction := by linarith [hp.pf1]
  simp only [Inv, stor, OutOk, step, soilEtConst, RealNum.gmin_eq, RealNum.exp_eq,
    RealNum.ofNat_eq]
  norm_num only
  set iet := min rain (min pet p.risc) with hiet
  have hiet0 : 0 ≤ iet := le_min hr (le_min hpet hp.risc0)
  have hiet1 : iet ≤ rain := min_le_left _ _
  have hiet2 : iet ≤ pet := le_trans (min_le_right _ _) (min_le_left _ _)
  set smf := s.sms / p.smsc with hsmf
  have hsmf0 : 0 ≤ smf := div_nonneg hs0 hc.le
  have hsmf1 : smf ≤ 1 := by rw [hsmf, div_le_one hc]; exact hs1
  set cap := p.infiltrationCoefficient * Real.exp (-p.infiltrationShape * smf) with hcap
  have hcap0 : 0 ≤ cap := mul_nonneg hp.inf0 (Real.exp_pos _).le
  set inf := min (rain - iet) cap with hinf
  have hinf0 : 0 ≤ inf := le_min (by linarith) hcap0
  have hinf1 : inf ≤ rain - iet := min_le_left _ _
  have hk1 : 0 ≤ p.interflowCoefficient * smf := mul_nonneg hp.int0 hsmf0
  have hk1' : p.interflowCoefficient * smf ≤ 1 := by nlinarith [hp.int0, hp.int1]
  set intf := p.interflowCoefficient * smf * inf with hintf
  have hintf0 : 0 ≤ intf := mul_nonneg hk1 hinf0
  have hintf1 : intf ≤ inf := by nlinarith
  have hk2 : 0 ≤ p.rechargeCoefficient * smf := mul_nonneg hp.rch0 hsmf0
  have hk2' : p.rechargeCoefficient * smf ≤ 1 := by nlinarith [hp.rch0, hp.rch1]
  set rch := p.rechargeCoefficient * smf * (inf - intf) with hrch
  have hrch0 : 0 ≤ rch := mul_nonneg hk2 (by linarith)
  have hrch1 : rch ≤ inf - intf := by nlinarith
  set sms1 := s.sms + (inf - intf - rch) with hsms1
  have hsms10 : 0 ≤ sms1 := by linarith
  set gw2 := (if 1 < sms1 / p.smsc then s.gw + rch + (sms1 - p.smsc) else s.gw + rch) with hgw2
  set sms2 := (if 1 < sms1 / p.smsc then p.smsc else sms1) with hsms2
  set smf2 := (if 1 < sms1 / p.smsc then 1 else sms1 / p.smsc) with hsmf2
  have hcase : 0 ≤ sms2 ∧ sms2 ≤ p.smsc ∧ 0 ≤ gw2 ∧ sms2 + gw2 = sms1 + (s.gw + rch) ∧ 0 ≤ smf2 := by
    rw [hgw2, hsms2, hsmf2]
    split_ifs with h
    · rw [one_lt_div hc] at h
      exact ⟨hc.le, le_refl _, by linarith, by ring, zero_le_one⟩
    · rw [one_lt_div hc, not_lt] at h
      exact ⟨hsms10, h, by linarith, rfl, div_nonneg hsms10 hc.le⟩
  obtain ⟨hsms20, hsms21, hgw20, hsum, hsmf20⟩ := hcase
  set bf := p.baseflowCoefficient * gw2 with hbf
  have hbf0 : 0 ≤ bf := mul_nonneg hp.bfc0 hgw20
  have hbf1 : bf ≤ gw2 := by nlinarith [hp.bfc1]
  set set_ := min sms2 (min (pet - iet) (smf2 * 10)) with hset
  have hset0 : 0 ≤ set_ := le_min hsms20 (le_min (by linarith) (by positivity))
  have hset1 : set_ ≤ sms2 := min_le_left _ _
  set iEt := min p.imperviousThreshold rain with hiEt
  have hiEt0 : 0 ≤ iEt := le_min hp.imp0 hr
  have hiEt1 : iEt ≤ rain := min_le_right _ _
  have h1 : 0 ≤ (1 - p.perviousFraction) * (rain - iEt) := mul_nonneg hpf1 (by linarith)
  have h2 : 0 ≤ p.perviousFraction * (rain - iet - inf + intf) := mul_nonneg hpf (by linarith)
  have h3 : 0 ≤ p.perviousFraction * bf := mul_nonneg hpf hbf0
  have h4 : 0 ≤ (1 - p.perviousFraction) * iEt := mul_nonneg hpf1 hiEt0
  have h5 : 0 ≤ p.perviousFraction * (iet + set_) := mul_nonneg hpf (by linarith)
  have key : (1 - p.perviousFraction) * (rain - iEt) + p.perviousFraction * (rain - iet - inf + intf) +
        p.perviousFraction * bf + ((1 - p.perviousFraction) * iEt + p.perviousFraction * (iet + set_)) +
        p.perviousFraction * (sms2 - set_ + (gw2 - bf)) =
      rain + p.perviousFraction * (s.sms + s.gw) +
        p.perviousFraction * ((sms2 + gw2) - (sms1 + (s.gw + rch))) := by
    rw [hsms1]; ring
  rw [hsum, sub_self, mul_zero, add_zero] at key
  exact ⟨⟨by linarith, by linarith, by linarith⟩, key, ⟨by ring, by linarith, by linarith, by linarith, by linarith,
    by linarith, by linarith⟩, trivial⟩
