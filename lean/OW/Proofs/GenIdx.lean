import OW.Gen.Index
import OW.Nd.View
import OW.Sim.H5
/-!
Helper lemmas for `OW/Props/GenTieIndex.lean` (core Lean only): the prelude operations of the regenerated file
(`getIdx`, `setIdx`, `sliceFrom`, `goMake`, `loopN`, `loopRange`) on lists split as `pre ++ suf`, and one lemma per loop
SHAPE of the translated functions, stated for an ARBITRARY loop body `body` that satisfies the equation `h` (what one
iteration does). None of these lemmas mentions a regenerated definition, so none can break when the Go source changes;
`GenTieIndex.lean` instantiates `body` with the regenerated loop body and proves `h` by unfolding.
-/
namespace OW.Proofs.GenIdx
open OW OW.Gen.Idx
open OW.Nd hiding R

/-! ### the monad -/

@[simp] theorem bind_ok {α β : Type} (a : α) (f : α → R β) : (Except.ok a >>= f) = f a := rfl
@[simp] theorem bind_error {α β : Type} (e : String) (f : α → R β) : ((Except.error e : R α) >>= f) = Except.error e := rfl
@[simp] theorem pure_eq {α : Type} (a : α) : (pure a : R α) = Except.ok a := rfl
@[simp] theorem map_ok {α β : Type} (a : α) (f : α → β) : (f <$> (Except.ok a : R α)) = Except.ok (f a) := rfl
@[simp] theorem map_error {α β : Type} (e : String) (f : α → β) : (f <$> (Except.error e : R α)) = Except.error e := rfl

/-! ### indexing -/

theorem getIdx_nat {τ : Type} (xs : List τ) (k : Nat) :
    getIdx xs (k : Int) = match xs[k]? with | some v => .ok v | none => .error "index-out-of-range" := by
  unfold getIdx
  have : ¬ ((k : Int) < 0) := by omega
  rw [if_neg this, Int.toNat_natCast]
  cases xs[k]? <;> rfl

theorem getIdx_neg {τ : Type} (xs : List τ) (i : Int) (h : i < 0) : getIdx xs i = .error "index-out-of-range" := by
  unfold getIdx; rw [if_pos h]

@[simp] theorem getIdx_zero_cons {τ : Type} (x : τ) (xs : List τ) : getIdx (x :: xs) 0 = .ok x := by
  have := getIdx_nat (x :: xs) 0; simpa using this

@[simp] theorem getIdx_nil {τ : Type} (i : Int) : getIdx ([] : List τ) i = .error "index-out-of-range" := by
  unfold getIdx; split <;> simp

theorem getIdx_pre {τ : Type} (pre : List τ) (x : τ) (suf : List τ) :
    getIdx (pre ++ x :: suf) (pre.length : Int) = .ok x := by
  rw [getIdx_nat]; simp

theorem getIdx_drop {τ : Type} (xs : List τ) (k : Nat) :
    (∃ v, getIdx xs (k : Int) = .ok v ∧ xs.drop k = v :: xs.drop (k + 1)) ∨
    (getIdx xs (k : Int) = .error "index-out-of-range" ∧ xs.drop k = []) := by
  rw [getIdx_nat]
  by_cases h : k < xs.length
  · left; exact ⟨xs[k], by simp [h], by simp [h]⟩
  · right; have h' : xs.length ≤ k := by omega
    exact ⟨by simp [h'], by simp [h']⟩

theorem setIdx_pre {τ : Type} (pre : List τ) (x v : τ) (suf : List τ) :
    setIdx (pre ++ x :: suf) (pre.length : Int) v = .ok (pre ++ v :: suf) := by
  unfold setIdx
  have h : ¬ (((pre.length : Nat) : Int) < 0 ∨ ((pre ++ x :: suf).length : Int) ≤ (pre.length : Int)) := by
    simp only [List.length_append, List.length_cons]; omega
  rw [if_neg h]; simp

theorem setIdx_nat_of_le {τ : Type} (xs : List τ) (k : Nat) (v : τ) (h : xs.length ≤ k) :
    setIdx xs (k : Int) v = .error "index-out-of-range" := by
  unfold setIdx
  have : ((k : Int) < 0 ∨ (xs.length : Int) ≤ (k : Int)) := by right; omega
  rw [if_pos this]

theorem setIdx_neg {τ : Type} (xs : List τ) (i : Int) (v : τ) (h : i < 0) : setIdx xs i v = .error "index-out-of-range" := by
  unfold setIdx; rw [if_pos (Or.inl h)]

@[simp] theorem goMake_len {τ σ : Type} (xs : List σ) (z : τ) : goMake (xs.length : Int) z = .ok (List.replicate xs.length z) := by
  unfold goMake
  have : ¬ ((xs.length : Int) < 0) := by omega
  rw [if_neg this]; simp

theorem goMake_nat {τ : Type} (n : Nat) (z : τ) : goMake (n : Int) z = .ok (List.replicate n z) := by
  unfold goMake
  have : ¬ ((n : Int) < 0) := by omega
  rw [if_neg this]; simp

@[simp] theorem sliceFrom_one_cons {τ : Type} (x : τ) (xs : List τ) : sliceFrom (x :: xs) 1 = .ok xs := by
  unfold sliceFrom
  have : ¬ ((1 : Int) < 0 ∨ ((x :: xs).length : Int) < 1) := by simp only [List.length_cons]; omega
  rw [if_neg this]; simp

theorem replicate_succ_snoc {τ : Type} (n : Nat) (z : τ) : List.replicate (n + 1) z = z :: List.replicate n z := rfl

/-! ### loops whose body cannot `return` -/

/-- the result of a loop that always falls through, followed by the generated `match` on it -/
def fin {σ ρ : Type} (k : σ → R ρ) : Ctl σ ρ → R ρ
  | Ctl.ret r => pure r
  | Ctl.next s => k s

@[simp] theorem loopRange_nil {τ σ ρ : Type} (body : Int → τ → σ → R (Ctl σ ρ)) (i : Int) (s : σ) :
    loopRange body [] i s = .ok (Ctl.next s) := rfl

theorem loopRange_cons {τ σ ρ : Type} (body : Int → τ → σ → R (Ctl σ ρ)) (v : τ) (vs : List τ) (i : Int) (s : σ) :
    loopRange body (v :: vs) i s = (body i v s >>= fun c => match c with
      | Ctl.next s' => loopRange body vs (i + 1) s'
      | Ctl.ret r => pure (Ctl.ret r)) := rfl

@[simp] theorem loopN_zero {σ ρ : Type} (body : Int → σ → R (Ctl σ ρ)) (d i : Int) (s : σ) :
    loopN body d 0 i s = .ok (Ctl.next s) := rfl

theorem loopN_succ {σ ρ : Type} (body : Int → σ → R (Ctl σ ρ)) (d : Int) (n : Nat) (i : Int) (s : σ) :
    loopN body d (n + 1) i s = (body i s >>= fun c => match c with
      | Ctl.next s' => loopN body d n (i + d) s'
      | Ctl.ret r => pure (Ctl.ret r)) := rfl

theorem snoc_of_length {τ : Type} {l : List τ} {n : Nat} (h : l.length = n + 1) :
    ∃ l' x, l = l' ++ [x] ∧ l'.length = n := by
  have hne : l ≠ [] := by intro e; simp [e] at h
  refine ⟨l.dropLast, l.getLast hne, (List.dropLast_concat_getLast hne).symm, ?_⟩
  simp [h]

/-! ### `for i, v := range xs` is rendered as `for i := 0; i < len(xs); i++ { v := xs[i]; … }` -/

/-- the three-clause loop over the indices of `xs` whose body first reads `xs[i]` is the loop over the elements of `xs` -/
theorem range_loopN {τ σ ρ : Type} (body : Int → τ → σ → R (Ctl σ ρ)) (xs : List τ) :
    ∀ (n k : Nat) (s : σ), k + n = xs.length →
      loopN (fun i s => getIdx xs i >>= fun v => body i v s) 1 n (k : Int) s = loopRange body (xs.drop k) (k : Int) s := by
  intro n
  induction n with
  | zero =>
    intro k s hk
    have h1 : xs.drop k = [] := by simp; omega
    simp [h1]
  | succ n ih =>
    intro k s hk
    have hlt : k < xs.length := by omega
    rw [loopN_succ, List.drop_eq_getElem_cons hlt, loopRange_cons, getIdx_nat]
    simp only [List.getElem?_eq_getElem hlt, bind_ok]
    congr 1
    funext c
    cases c with
    | ret r => rfl
    | next s' =>
      have := ih (k + 1) s' (by omega)
      simpa using this

theorem range_loopN0 {τ σ ρ : Type} (body : Int → τ → σ → R (Ctl σ ρ)) (xs : List τ) (s : σ) :
    loopN (fun i s => getIdx xs i >>= fun v => body i v s) 1 xs.length 0 s = loopRange body xs 0 s := by
  have := range_loopN body xs xs.length 0 s (by simp)
  simpa using this

/-- the index loop from 1 over `x :: xs` whose body first reads the element is the loop over the elements of `xs` (`for i := 1; i <
len(v); i++ { … v[i] … }` and `for i, e := range v[1:] { … e … }` visit the same elements; the index the body sees is the absolute one) -/
theorem range_loopN1 {τ σ ρ : Type} (body : Int → τ → σ → R (Ctl σ ρ)) (x : τ) (xs : List τ) (n : Nat) (s : σ) (hn : n = xs.length) :
    loopN (fun i s => getIdx (x :: xs) i >>= fun v => body i v s) 1 n 1 s = loopRange body xs 1 s := by
  subst hn
  have := range_loopN body (x :: xs) xs.length 1 s (by simp; omega)
  simpa using this

/-- turn the (canonical, three-clause) rendering of a `range` loop back into `loopRange`, for the lemmas stated about it -/
macro "as_range" : tactic =>
  `(tactic| ((try simp only [Int.sub_zero, Int.toNat_natCast]); rw [range_loopN0]))

theorem bind_congr_right {β γ : Type} {x : R β} {f g : β → R γ} (h : ∀ a, f a = g a) : (x >>= f) = (x >>= g) := by
  have : f = g := funext h
  rw [this]

/-- "one iteration of the regenerated loop body is …": definitional equality, or the same sequence of operations that can panic
followed by a case analysis on `if`s whose conditions are spelled differently (`a < b` / `¬ a ≥ b` on `Int`: decided by `omega`) -/
macro "step_tie" : tactic =>
  `(tactic| (intros; first
      | rfl
      | (repeat' (first
          | rfl
          | (apply bind_congr_right; intro _)
          | (split <;> (try split) <;> first | rfl | (exfalso; omega) | simp_all)))))

/-! ### the loop shapes of data/sliceops.go, data/arraysint.go, data/arrays.go -/

/-- `for _, v := range xs { s = g s v }` (Product, Maximum) -/
theorem fold_loop {τ σ ρ : Type} (g : σ → τ → σ) (body : Int → τ → σ → R (Ctl σ ρ))
    (h : ∀ i v s, body i v s = .ok (Ctl.next (g s v))) :
    ∀ (xs : List τ) (i : Int) (s : σ), loopRange body xs i s = .ok (Ctl.next (xs.foldl g s)) := by
  intro xs
  induction xs with
  | nil => intro i s; rfl
  | cons v vs ih => intro i s; rw [loopRange_cons, h]; simp [ih]

/-- `for i := 0; i < len(lhs); i++ { result += lhs[i] * rhs[i] }` from index `k` on -/
theorem dot_loop {ρ : Type} (lhs rhs : List Int) (body : Int → Int → R (Ctl Int ρ))
    (h : ∀ i s, body i s = (getIdx lhs i >>= fun a => getIdx rhs i >>= fun b => .ok (Ctl.next (s + a * b)))) :
    ∀ (n k : Nat) (s : Int), k + n = lhs.length →
      loopN body 1 n (k : Int) s =
        (dotProduct (lhs.drop k) (rhs.drop k) >>= fun r => .ok (Ctl.next (s + r))) := by
  intro n
  induction n with
  | zero =>
    intro k s hk
    have : lhs.drop k = [] := by simp; omega
    simp [this, dotProduct]
  | succ n ih =>
    intro k s hk
    rw [loopN_succ, h]
    rcases getIdx_drop lhs k with ⟨a, ha, hda⟩ | ⟨_, hda⟩
    · rcases getIdx_drop rhs k with ⟨b, hb, hdb⟩ | ⟨hb, hdb⟩
      · have hk' : ((k : Int) + 1) = ((k + 1 : Nat) : Int) := by omega
        rw [ha, hb, hda, hdb]
        simp only [bind_ok, dotProduct]
        rw [hk', ih (k + 1) _ (by omega)]
        cases dotProduct (List.drop (k + 1) lhs) (List.drop (k + 1) rhs) with
        | error e => rfl
        | ok r => simp only [bind_ok, pure_eq]; congr 2; omega
      · rw [ha, hb, hda, hdb]; simp [dotProduct, oob]
    · have : lhs.length ≤ k := by simpa using hda
      omega

theorem dot_loop0 {ρ : Type} (lhs rhs : List Int) (body : Int → Int → R (Ctl Int ρ))
    (h : ∀ i s, body i s = (getIdx lhs i >>= fun a => getIdx rhs i >>= fun b => .ok (Ctl.next (s + a * b)))) (s : Int) :
    loopN body 1 lhs.length 0 s = (dotProduct lhs rhs >>= fun r => .ok (Ctl.next (s + r))) := by
  have := dot_loop lhs rhs body h lhs.length 0 s (by omega)
  simpa using this

/-- the loops of `dotProduct` / `Multiply`, written out where a caller has them inline (simp lemmas: the counterpart of rewriting a
call with `gen_eq_dotProduct` / `gen_eq_Multiply`) -/
theorem dot_loop_inline {ρ : Type} (lhs rhs : List Int) (s : Int) :
    loopN (fun i s => getIdx lhs i >>= fun a => getIdx rhs i >>= fun b => (pure (Ctl.next (s + a * b)) : R (Ctl Int ρ)))
      1 lhs.length 0 s = (dotProduct lhs rhs >>= fun r => .ok (Ctl.next (s + r))) :=
  dot_loop0 lhs rhs _ (fun _ _ => rfl) s

theorem indexAux_eq_dotProduct : ∀ (a b : Idx), View.indexAux a b = dotProduct a b
  | [], _ => rfl
  | _ :: _, [] => rfl
  | a :: as, b :: bs => by simp only [View.indexAux, dotProduct, indexAux_eq_dotProduct as bs]

/-- `for i := 0; i < len(lhs); i++ { result[i] = lhs[i] * rhs[i] }` -/
theorem mul_loop {ρ : Type} (lhs rhs : List Int) (body : Int → List Int → R (Ctl (List Int) ρ))
    (h : ∀ i res, body i res = (getIdx lhs i >>= fun a => getIdx rhs i >>= fun b => setIdx res i (a * b) >>= fun r => .ok (Ctl.next r))) :
    ∀ (n : Nat) (pre suf : List Int), pre.length + n = lhs.length → suf.length = n →
      loopN body 1 n (pre.length : Int) (pre ++ suf) =
        (multiply (lhs.drop pre.length) (rhs.drop pre.length) >>= fun r => .ok (Ctl.next (pre ++ r))) := by
  intro n
  induction n with
  | zero =>
    intro pre suf hk hs
    have h1 : lhs.drop pre.length = [] := by simp; omega
    have h2 : suf = [] := by simpa using hs
    simp [h1, h2, multiply]
  | succ n ih =>
    intro pre suf hk hs
    rw [loopN_succ, h]
    match suf, hs with
    | z :: zs, hs =>
    rcases getIdx_drop lhs pre.length with ⟨a, ha, hda⟩ | ⟨_, hda⟩
    · rcases getIdx_drop rhs pre.length with ⟨b, hb, hdb⟩ | ⟨hb, hdb⟩
      · rw [ha, hb, hda, hdb]
        simp only [bind_ok, multiply, setIdx_pre]
        have hk' : ((pre.length : Int) + 1) = (((pre ++ [a * b]).length : Nat) : Int) := by simp
        have e : pre ++ (a * b) :: zs = (pre ++ [a * b]) ++ zs := by simp
        rw [hk', e, ih (pre ++ [a * b]) zs (by simp; omega) (by simpa using hs)]
        have e2 : (pre ++ [a * b]).length = pre.length + 1 := by simp
        rw [e2]
        cases multiply (List.drop (pre.length + 1) lhs) (List.drop (pre.length + 1) rhs) <;> simp
      · rw [ha, hb, hda, hdb]; simp [multiply, oob]
    · have : lhs.length ≤ pre.length := by simpa using hda
      omega

theorem mul_loop0 {ρ : Type} (lhs rhs : List Int) (body : Int → List Int → R (Ctl (List Int) ρ))
    (h : ∀ i res, body i res = (getIdx lhs i >>= fun a => getIdx rhs i >>= fun b => setIdx res i (a * b) >>= fun r => .ok (Ctl.next r))) :
    loopN body 1 lhs.length 0 (List.replicate lhs.length 0) = (multiply lhs rhs >>= fun r => .ok (Ctl.next r)) := by
  have := mul_loop lhs rhs body h lhs.length [] (List.replicate lhs.length 0) (by simp) (by simp)
  simpa using this

theorem mul_loop_inline {ρ : Type} (lhs rhs : List Int) :
    loopN (fun i res => getIdx lhs i >>= fun a => getIdx rhs i >>= fun b => setIdx res i (a * b) >>= fun r =>
        (pure (Ctl.next r) : R (Ctl (List Int) ρ)))
      1 lhs.length 0 (List.replicate lhs.length 0) = (multiply lhs rhs >>= fun r => .ok (Ctl.next r)) :=
  mul_loop0 lhs rhs _ (fun _ _ => rfl)

/-- `for i := 0; i < len(xs); i++ { result[i] = f xs[i] }` (decrement) -/
theorem map_loop {τ : Type} (f : Int → τ) (xs : List Int) (body : Int → List τ → R (Ctl (List τ) (List τ)))
    (h : ∀ i res, body i res = (getIdx xs i >>= fun a => setIdx res i (f a) >>= fun r => .ok (Ctl.next r))) :
    ∀ (n : Nat) (pre suf : List τ), pre.length + n = xs.length → suf.length = n →
      loopN body 1 n (pre.length : Int) (pre ++ suf) = .ok (Ctl.next (pre ++ (xs.drop pre.length).map f)) := by
  intro n
  induction n with
  | zero =>
    intro pre suf hk hs
    have h1 : xs.drop pre.length = [] := by simp; omega
    have h2 : suf = [] := by simpa using hs
    simp [h1, h2]
  | succ n ih =>
    intro pre suf hk hs
    rw [loopN_succ, h]
    match suf, hs with
    | z :: zs, hs =>
    rcases getIdx_drop xs pre.length with ⟨a, ha, hda⟩ | ⟨_, hda⟩
    · rw [ha, hda]
      simp only [bind_ok, setIdx_pre]
      have hk' : ((pre.length : Int) + 1) = (((pre ++ [f a]).length : Nat) : Int) := by simp
      have e : pre ++ (f a) :: zs = (pre ++ [f a]) ++ zs := by simp
      rw [hk', e, ih (pre ++ [f a]) zs (by simp; omega) (by simpa using hs)]
      simp
    · have : xs.length ≤ pre.length := by simpa using hda
      omega

theorem map_loop0 {τ : Type} (f : Int → τ) (z : τ) (xs : List Int) (body : Int → List τ → R (Ctl (List τ) (List τ)))
    (h : ∀ i res, body i res = (getIdx xs i >>= fun a => setIdx res i (f a) >>= fun r => .ok (Ctl.next r))) :
    loopN body 1 xs.length 0 (List.replicate xs.length z) = .ok (Ctl.next (xs.map f)) := by
  have := map_loop f xs body h xs.length [] (List.replicate xs.length z) (by simp) (by simp)
  simpa using this

/-- `for i, v := range xs { result[i] = f v }` (IntsToUints, UintsToInts) -/
theorem map_range_loop {τ υ : Type} (f : υ → τ) (body : Int → υ → List τ → R (Ctl (List τ) (List τ)))
    (h : ∀ i v res, body i v res = (setIdx res i (f v) >>= fun r => .ok (Ctl.next r))) :
    ∀ (xs : List υ) (pre suf : List τ), suf.length = xs.length →
      loopRange body xs (pre.length : Int) (pre ++ suf) = .ok (Ctl.next (pre ++ xs.map f)) := by
  intro xs
  induction xs with
  | nil => intro pre suf hs; have : suf = [] := by simpa using hs
           simp [this]
  | cons v vs ih =>
    intro pre suf hs
    match suf, hs with
    | z :: zs, hs =>
    rw [loopRange_cons, h, setIdx_pre]
    simp only [bind_ok]
    have hk' : ((pre.length : Int) + 1) = (((pre ++ [f v]).length : Nat) : Int) := by simp
    have e : pre ++ (f v) :: zs = (pre ++ [f v]) ++ zs := by simp
    rw [hk', e, ih (pre ++ [f v]) zs (by simpa using hs)]
    simp

theorem map_range_loop0 {τ υ : Type} (f : υ → τ) (z : τ) (xs : List υ) (body : Int → υ → List τ → R (Ctl (List τ) (List τ)))
    (h : ∀ i v res, body i v res = (setIdx res i (f v) >>= fun r => .ok (Ctl.next r))) :
    loopRange body xs 0 (List.replicate xs.length z) = .ok (Ctl.next (xs.map f)) := by
  have := map_range_loop f body h xs [] (List.replicate xs.length z) (by simp)
  simpa using this

/-- `for i := 0; i < n; i++ { result[i] = val }` (Uniform) -/
theorem const_loop {τ : Type} (val : τ) (body : Int → List τ → R (Ctl (List τ) (List τ)))
    (h : ∀ i res, body i res = (setIdx res i val >>= fun r => .ok (Ctl.next r))) :
    ∀ (n : Nat) (pre suf : List τ), suf.length = n →
      loopN body 1 n (pre.length : Int) (pre ++ suf) = .ok (Ctl.next (pre ++ List.replicate n val)) := by
  intro n
  induction n with
  | zero => intro pre suf hs; have : suf = [] := by simpa using hs
            simp [this]
  | succ n ih =>
    intro pre suf hs
    match suf, hs with
    | z :: zs, hs =>
    rw [loopN_succ, h, setIdx_pre]
    simp only [bind_ok]
    have hk' : ((pre.length : Int) + 1) = (((pre ++ [val]).length : Nat) : Int) := by simp
    have e : pre ++ val :: zs = (pre ++ [val]) ++ zs := by simp
    rw [hk', e, ih (pre ++ [val]) zs (by simpa using hs)]
    simp [List.replicate_succ]

theorem const_loop0 {τ : Type} (val z : τ) (n : Nat) (body : Int → List τ → R (Ctl (List τ) (List τ)))
    (h : ∀ i res, body i res = (setIdx res i val >>= fun r => .ok (Ctl.next r))) :
    loopN body 1 n 0 (List.replicate n z) = .ok (Ctl.next (List.replicate n val)) := by
  have := const_loop val body h n [] (List.replicate n z) (by simp)
  simpa using this

/-- `for i := range den { res[i] = (n / den[i]) % mod[i] }` -/
theorem idivmod_loop (num : Int) (den md : List Int) (body : Int → Int → List Int → R (Ctl (List Int) (List Int)))
    (h : ∀ i v res, body i v res = (getIdx den i >>= fun d => goDiv num d >>= fun q => getIdx md i >>= fun m =>
        goMod q m >>= fun x => setIdx res i x >>= fun r => .ok (Ctl.next r))) :
    ∀ (dsuf dpre pre suf : List Int), den = dpre ++ dsuf → pre.length = dpre.length → suf.length = dsuf.length →
      loopRange body dsuf (pre.length : Int) (pre ++ suf) =
        (idivmod num dsuf (md.drop pre.length) >>= fun r => .ok (Ctl.next (pre ++ r))) := by
  intro dsuf
  induction dsuf with
  | nil => intro dpre pre suf _ _ hs; have : suf = [] := by simpa using hs
           simp [this, idivmod]
  | cons d ds ih =>
    intro dpre pre suf hden hp hs
    match suf, hs with
    | z :: zs, hs =>
    rw [loopRange_cons, h]
    have hd : getIdx den (pre.length : Int) = .ok d := by rw [hden, hp]; exact getIdx_pre dpre d ds
    rw [hd]
    simp only [bind_ok, idivmod, goDiv]
    by_cases hd0 : d = 0
    · simp [hd0]
    · simp only [hd0, if_false, bind_ok]
      rcases getIdx_drop md pre.length with ⟨m, hm, hdm⟩ | ⟨hm, hdm⟩
      · rw [hm, hdm]
        simp only [bind_ok, goMod]
        by_cases hm0 : m = 0
        · simp [hm0]
        · simp only [hm0, if_false, bind_ok, setIdx_pre]
          have hk' : ((pre.length : Int) + 1) = (((pre ++ [(num.tdiv d).tmod m]).length : Nat) : Int) := by simp
          have e : pre ++ ((num.tdiv d).tmod m) :: zs = (pre ++ [(num.tdiv d).tmod m]) ++ zs := by simp
          rw [hk', e, ih (dpre ++ [d]) (pre ++ [(num.tdiv d).tmod m]) zs (by simp [hden]) (by simp [hp]) (by simpa using hs)]
          have e2 : (pre ++ [(num.tdiv d).tmod m]).length = pre.length + 1 := by simp
          rw [e2]
          cases idivmod num ds (List.drop (pre.length + 1) md) <;> simp
      · rw [hm, hdm]; simp [oob]

theorem idivmod_loop0 (num : Int) (den md : List Int) (body : Int → Int → List Int → R (Ctl (List Int) (List Int)))
    (h : ∀ i v res, body i v res = (getIdx den i >>= fun d => goDiv num d >>= fun q => getIdx md i >>= fun m =>
        goMod q m >>= fun x => setIdx res i x >>= fun r => .ok (Ctl.next r))) :
    loopRange body den 0 (List.replicate den.length 0) = (idivmod num den md >>= fun r => .ok (Ctl.next r)) := by
  have := idivmod_loop num den md body h den [] [] (List.replicate den.length 0) (by simp) (by simp) (by simp)
  simpa using this

/-- the loop of `Argmax` over `vector[1:]`; the second carried variable is the running maximum -/
theorem argmax_loop (body : Int → Int → (Int × Int) → R (Ctl (Int × Int) Int))
    (h : ∀ i v s, body i v s = .ok (Ctl.next (if v > s.2 then (i + 1, v) else s))) :
    ∀ (xs : List Int) (i : Int) (s : Int × Int),
      loopRange body xs i s =
        .ok (Ctl.next (argmaxLoop xs (i + 1) s.2 s.1, xs.foldl (fun m v => if v > m then v else m) s.2)) := by
  intro xs
  induction xs with
  | nil => intro i s; simp [argmaxLoop]
  | cons v vs ih =>
    intro i s
    rw [loopRange_cons, h]
    simp only [bind_ok]
    by_cases hv : v > s.2
    · simp only [hv, if_true, ih, argmaxLoop, List.foldl_cons]
    · simp only [hv, if_false, ih, argmaxLoop, List.foldl_cons]

/-- a `range` loop whose body does not use the element depends only on HOW MANY elements there are: `for i := range res` and
`for i := range den` with slices of one length are the same loop -/
theorem loopRange_ignore {τ τ' σ ρ : Type} (body : Int → σ → R (Ctl σ ρ)) :
    ∀ (xs : List τ) (ys : List τ') (i : Int) (s : σ), xs.length = ys.length →
      loopRange (fun i _ s => body i s) xs i s = loopRange (fun i _ s => body i s) ys i s := by
  intro xs
  induction xs with
  | nil => intro ys i s h; cases ys with
    | nil => rfl
    | cons y ys => simp at h
  | cons x xs ih =>
    intro ys i s h
    cases ys with
    | nil => simp at h
    | cons y ys =>
      rw [loopRange_cons, loopRange_cons]
      congr 1
      funext c
      cases c with
      | ret r => rfl
      | next s' => exact ih ys (i + 1) s' (by simpa using h)

/-- the loop of `Argmax` written on the index: `for i := k; i < len(v); i++ { if v[i] > maxFound { maxFound = v[i]; res = i } }` -/
theorem argmax_idx_loop (vec : List Int) (body : Int → (Int × Int) → R (Ctl (Int × Int) Int))
    (h : ∀ i s, body i s = (getIdx vec i >>= fun a => if a > s.2 then (getIdx vec i >>= fun b => .ok (Ctl.next (i, b)))
        else .ok (Ctl.next s))) :
    ∀ (suf pre : List Int) (s : Int × Int), vec = pre ++ suf →
      loopN body 1 suf.length (pre.length : Int) s =
        .ok (Ctl.next (argmaxLoop suf (pre.length : Int) s.2 s.1, suf.foldl (fun m v => if v > m then v else m) s.2)) := by
  intro suf
  induction suf with
  | nil => intro pre s _; simp [argmaxLoop]
  | cons v vs ih =>
    intro pre s hv
    have g : getIdx vec (pre.length : Int) = .ok v := by rw [hv]; exact getIdx_pre _ _ _
    rw [List.length_cons, loopN_succ, h, g]
    simp only [bind_ok]
    have e2 : ((pre.length : Int) + 1) = (((pre ++ [v]).length : Nat) : Int) := by simp
    have e3 : vec = (pre ++ [v]) ++ vs := by simp [hv]
    by_cases hgt : v > s.2
    · simp only [hgt, if_true, g, bind_ok, argmaxLoop, List.foldl_cons]
      rw [e2, ih (pre ++ [v]) _ e3]
    · simp only [hgt, if_false, bind_ok, argmaxLoop, List.foldl_cons]
      rw [e2, ih (pre ++ [v]) _ e3]

theorem argmax_idx_loop1 (x : Int) (xs : List Int) (body : Int → (Int × Int) → R (Ctl (Int × Int) Int))
    (h : ∀ i s, body i s = (getIdx (x :: xs) i >>= fun a => if a > s.2 then (getIdx (x :: xs) i >>= fun b => .ok (Ctl.next (i, b)))
        else .ok (Ctl.next s))) (n : Nat) (hn : n = xs.length) (s : Int × Int) :
    loopN body 1 n 1 s =
      .ok (Ctl.next (argmaxLoop xs 1 s.2 s.1, xs.foldl (fun m v => if v > m then v else m) s.2)) := by
  subst hn
  have := argmax_idx_loop (x :: xs) body h xs [x] s rfl
  simpa using this

/-! ### Offsets -/

theorem offsetsT_cons_ne (d : Int) (ds : List Int) : ∃ r0 rt, offsetsT (d :: ds) = r0 :: rt := by
  cases ds with
  | nil => exact ⟨1, [], rfl⟩
  | cons d2 rest => exact ⟨_, _, rfl⟩

/-- `for i := len(dims) - 2; i >= 0; i-- { res[i] = res[i+1] * dims[i+1] }`: with `n` iterations left, positions
`n …` of `res` hold the strides of `dims[n:]` -/
theorem offsets_loop (dims : List Int) (body : Int → List Int → R (Ctl (List Int) (List Int)))
    (h : ∀ i res, body i res = (getIdx res (i + 1) >>= fun a => getIdx dims (i + 1) >>= fun b =>
        setIdx res i (a * b) >>= fun r => .ok (Ctl.next r))) :
    ∀ (n : Nat), n < dims.length →
      loopN body (-1) n ((n : Int) - 1) (List.replicate n 0 ++ offsetsT (dims.drop n)) = .ok (Ctl.next (offsetsT dims)) := by
  intro n
  induction n with
  | zero => intro _; simp
  | succ n ih =>
    intro hn
    rw [loopN_succ, h]
    have hi : (((n + 1 : Nat) : Int) - 1) = (n : Int) := by omega
    rw [hi]
    rcases getIdx_drop dims (n + 1) with ⟨d', hd', hdd⟩ | ⟨_, hdd⟩
    · obtain ⟨r0, rt, hr⟩ := offsetsT_cons_ne d' (dims.drop (n + 1 + 1))
      have hk1 : ((n : Int) + 1) = ((n + 1 : Nat) : Int) := by omega
      rw [hk1, hd', hdd, hr]
      have hlen : ((n + 1 : Nat) : Int) = (((List.replicate (n + 1) (0 : Int)).length : Nat) : Int) := by simp
      have g1 : getIdx (List.replicate (n + 1) (0 : Int) ++ r0 :: rt) ((n + 1 : Nat) : Int) = .ok r0 := by
        rw [hlen]; exact getIdx_pre _ _ _
      rw [g1]
      simp only [bind_ok]
      have e1 : List.replicate (n + 1) (0 : Int) ++ r0 :: rt = List.replicate n 0 ++ 0 :: r0 :: rt := by
        rw [List.replicate_succ']; simp
      have hlen' : (n : Int) = (((List.replicate n (0 : Int)).length : Nat) : Int) := by simp
      have s1 : setIdx (List.replicate n (0 : Int) ++ 0 :: r0 :: rt) (n : Int) (r0 * d') =
          .ok (List.replicate n 0 ++ (r0 * d') :: r0 :: rt) := by
        conv => lhs; rw [hlen']
        exact setIdx_pre _ _ _ _
      rw [e1, s1]
      simp only [bind_ok]
      have hdn : dims.drop n = dims[n]'(by omega) :: dims.drop (n + 1) := by simp
      have e2 : offsetsT (dims.drop n) = (r0 * d') :: r0 :: rt := by
        rw [hdn, hdd]; simp only [offsetsT, hr, List.headD_cons]
      have hi2 : ((n : Int) + -1) = ((n : Int) - 1) := by omega
      rw [hi2, ← e2]
      exact ih (by omega)
    · have : dims.length ≤ n + 1 := by simpa using hdd
      omega

/-- the same strides with a RUNNING stride instead of a re-read of `res[i+1]`:
`stride := 1; for i := len(dims) - 1; i > 0; i-- { stride *= dims[i]; res[i-1] = stride }` — with `n` iterations left the
running stride is the stride of position `n` -/
theorem offsets_loop_stride (dims : List Int) (body : Int → (Int × List Int) → R (Ctl (Int × List Int) (List Int)))
    (h : ∀ i s, body i s = (getIdx dims i >>= fun b => setIdx s.2 (i - 1) (s.1 * b) >>= fun r => .ok (Ctl.next (s.1 * b, r)))) :
    ∀ (n : Nat), n < dims.length → ∀ (r0 : Int) (rt : List Int), offsetsT (dims.drop n) = r0 :: rt →
      loopN body (-1) n (n : Int) (r0, List.replicate n 0 ++ r0 :: rt) =
        .ok (Ctl.next ((offsetsT dims).headD 1, offsetsT dims)) := by
  intro n
  induction n with
  | zero =>
    intro _ r0 rt hr
    have hr' : offsetsT dims = r0 :: rt := by simpa using hr
    simp [hr']
  | succ n ih =>
    intro hn r0 rt hr
    rw [loopN_succ, h]
    have hd : ∃ d', getIdx dims ((n + 1 : Nat) : Int) = .ok d' ∧ dims.drop (n + 1) = d' :: dims.drop (n + 1 + 1) := by
      rcases getIdx_drop dims (n + 1) with ⟨d', hd', hdd⟩ | ⟨_, hdd⟩
      · exact ⟨d', hd', hdd⟩
      · have : dims.length ≤ n + 1 := by simpa using hdd
        omega
    obtain ⟨d', hd', hdd⟩ := hd
    rw [hd']
    simp only [bind_ok]
    have e1 : List.replicate (n + 1) (0 : Int) ++ r0 :: rt = List.replicate n 0 ++ 0 :: r0 :: rt := by
      rw [List.replicate_succ']; simp
    have hi : (((n + 1 : Nat) : Int) - 1) = (((List.replicate n (0 : Int)).length : Nat) : Int) := by simp
    have s1 : setIdx (List.replicate n (0 : Int) ++ 0 :: r0 :: rt) (((n + 1 : Nat) : Int) - 1) (r0 * d') =
        .ok (List.replicate n 0 ++ (r0 * d') :: r0 :: rt) := by
      rw [hi]; exact setIdx_pre _ _ _ _
    rw [e1, s1]
    simp only [bind_ok]
    have hdn : dims.drop n = dims[n]'(by omega) :: dims.drop (n + 1) := by simp
    have e2 : offsetsT (dims.drop n) = (r0 * d') :: r0 :: rt := by
      rw [hdn, hdd]
      rw [hdd] at hr
      simp only [offsetsT, hr, List.headD_cons]
    have hi2 : (((n + 1 : Nat) : Int) + -1) = (n : Int) := by omega
    rw [hi2]
    exact ih (by omega) (r0 * d') (r0 :: rt) e2

/-! ### Increment -/

theorem incCarry_snoc : ∀ (vp wp : List Int) (v w : Int), vp.length = wp.length →
    incCarry (vp ++ [v]) (wp ++ [w]) =
      if v + 1 ≥ w then ((incCarry vp wp).1 ++ [0], (incCarry vp wp).2) else (vp ++ [v + 1], false)
  | [], [], v, w, _ => by
    by_cases hvw : v + 1 ≥ w <;> simp [incCarry, hvw]
  | [], _ :: _, _, _, h => by simp at h
  | _ :: _, [], _, _, h => by simp at h
  | a :: vp, b :: wp, v, w, h => by
    have ih := incCarry_snoc vp wp v w (by simpa using h)
    simp only [List.cons_append, incCarry, ih]
    by_cases hvw : v + 1 ≥ w
    · simp only [hvw, if_true]
      rcases hc : incCarry vp wp with ⟨r, c⟩
      cases c <;> simp
      split <;> simp
    · simp [hvw]

/-- the loop of `Increment` over the positions `n-1 … 0`: it leaves by `return` exactly when there is no carry out -/
theorem inc_loop (wrt : List Int) (body : Int → List Int → R (Ctl (List Int) (List Int)))
    (h : ∀ i vec, body i vec = (getIdx vec i >>= fun a => setIdx vec i (a + 1) >>= fun vec1 => getIdx vec1 i >>= fun b =>
        getIdx wrt i >>= fun w =>
          if b ≥ w then (setIdx vec1 i 0 >>= fun vec2 => .ok (Ctl.next vec2)) else .ok (Ctl.ret vec1))) :
    ∀ (n : Nat) (vp wp wsuf rest : List Int), vp.length = n → wp.length = n → wrt = wp ++ wsuf →
      loopN body (-1) n ((n : Int) - 1) (vp ++ rest) =
        .ok (if (incCarry vp wp).2 then Ctl.next ((incCarry vp wp).1 ++ rest) else Ctl.ret ((incCarry vp wp).1 ++ rest)) := by
  intro n
  induction n with
  | zero =>
    intro vp wp wsuf rest hv hw _
    have e1 : vp = [] := by simpa using hv
    have e2 : wp = [] := by simpa using hw
    simp [e1, e2, incCarry]
  | succ n ih =>
    intro vp wp wsuf rest hv hw hwrt
    obtain ⟨vp', v, rfl, hv'⟩ := snoc_of_length hv
    obtain ⟨wp', w, rfl, hw'⟩ := snoc_of_length hw
    rw [loopN_succ, h]
    have hi : (((n + 1 : Nat) : Int) - 1) = ((vp'.length : Nat) : Int) := by omega
    have e0 : vp' ++ [v] ++ rest = vp' ++ v :: rest := by simp
    rw [hi, e0, getIdx_pre, bind_ok, setIdx_pre, bind_ok, getIdx_pre, bind_ok]
    have gw : getIdx wrt ((vp'.length : Nat) : Int) = .ok w := by
      rw [hwrt, hv', ← hw']
      have : wp' ++ [w] ++ wsuf = wp' ++ w :: wsuf := by simp
      rw [this]; exact getIdx_pre _ _ _
    rw [gw, bind_ok, incCarry_snoc vp' wp' v w (by omega)]
    by_cases hvw : v + 1 ≥ w
    · simp only [hvw, if_true, setIdx_pre, bind_ok]
      have hi2 : (((vp'.length : Nat) : Int) + -1) = ((n : Int) - 1) := by omega
      rw [hi2, ih vp' wp' (w :: wsuf) (0 :: rest) hv' hw' (by simp [hwrt])]
      simp
    · simp [hvw]

theorem getIdx_ge {τ : Type} (xs : List τ) (i : Int) (h : (xs.length : Int) ≤ i) : getIdx xs i = .error "index-out-of-range" := by
  by_cases hneg : i < 0
  · exact getIdx_neg xs i hneg
  · obtain ⟨k, rfl⟩ := Int.eq_ofNat_of_zero_le (by omega : 0 ≤ i)
    rw [getIdx_nat]
    have : xs.length ≤ k := by omega
    simp [this]

/-- a vector shorter than `wrt`: the first iteration reads `vector[len(wrt)-1]` and panics -/
theorem inc_loop_short (wrt : List Int) (body : Int → List Int → R (Ctl (List Int) (List Int)))
    (h : ∀ i vec, body i vec = (getIdx vec i >>= fun a => setIdx vec i (a + 1) >>= fun vec1 => getIdx vec1 i >>= fun b =>
        getIdx wrt i >>= fun w =>
          if b ≥ w then (setIdx vec1 i 0 >>= fun vec2 => .ok (Ctl.next vec2)) else .ok (Ctl.ret vec1)))
    (n : Nat) (vec : List Int) (hn : vec.length < n) :
    loopN body (-1) n ((n : Int) - 1) vec = .error "index-out-of-range" := by
  cases n with
  | zero => omega
  | succ n => rw [loopN_succ, h, getIdx_ge vec _ (by omega)]; rfl

/-! ### Contiguous -/

/-- the `if nd.Dims[i] > 1 { … }` block of `Contiguous`: `some b` = `return b`, `none` = falls through -/
def contigInner (v : View) (i : Nat) (co : Int) (must : Bool) (d : Int) : R (Option Bool) :=
  if d > 1 then
    if must then .ok (some false)
    else match v.step[i]? with
      | none => oob
      | some s =>
        if s > 1 then .ok (some false)
        else match v.offset[i]? with
          | none => oob
          | some o => if o > co then .ok (some false) else .ok none
  else .ok none

/-- one iteration of the `Contiguous` loop at index `i`, in the words of `View.contigLoop` -/
def contigStep (v : View) (i : Nat) (co : Int) (must : Bool) : R (Ctl (Bool × Int) Bool) :=
  match v.dims[i]? with
  | none => oob
  | some d =>
    match contigInner v i co must d with
    | .error e => .error e
    | .ok (some b) => .ok (Ctl.ret b)
    | .ok none =>
      match v.orig[i]? with
      | none => oob
      | some od => .ok (Ctl.next (must || (d != od), co * d))

theorem contigLoop_succ (v : View) (i : Nat) (co : Int) (must : Bool) :
    v.contigLoop (i + 1) co must =
      match v.dims[i]? with
      | none => oob
      | some d =>
        match contigInner v i co must d with
        | .error e => .error e
        | .ok (some b) => .ok b
        | .ok none =>
          match v.orig[i]? with
          | none => oob
          | some od => v.contigLoop i (co * d) (must || (d != od)) := rfl

/-- what the generated code makes of the result of the loop: the returned value, or `true` after the last iteration -/
def ctlBool {σ : Type} : Ctl σ Bool → Bool
  | Ctl.ret b => b
  | Ctl.next _ => true

theorem contig_loop (v : View) (body : Int → (Bool × Int) → R (Ctl (Bool × Int) Bool))
    (h : ∀ (k : Nat) (s : Bool × Int), body (k : Int) s = contigStep v k s.2 s.1) :
    ∀ (n : Nat) (co : Int) (must : Bool),
      ctlBool <$> loopN body (-1) n ((n : Int) - 1) (must, co) = v.contigLoop n co must := by
  intro n
  induction n with
  | zero => intro co must; rfl
  | succ n ih =>
    intro co must
    have hi : (((n + 1 : Nat) : Int) - 1) = (n : Int) := by omega
    have hi2 : ((n : Int) + -1) = ((n : Int) - 1) := by omega
    rw [loopN_succ, hi, h, contigLoop_succ]
    simp only [contigStep]
    cases v.dims[n]? with
    | none => rfl
    | some d =>
      dsimp only
      generalize contigInner v n co must d = inner
      rcases inner with e | (_ | b)
      · rfl
      · dsimp only
        cases v.orig[n]? with
        | none => rfl
        | some od => simp only [bind_ok, hi2]; exact ih _ _
      · rfl

/-- `Contiguous()` as generated: the loop, then `return true` -/
theorem contig_fin (v : View) (body : Int → (Bool × Int) → R (Ctl (Bool × Int) Bool))
    (k : Ctl (Bool × Int) Bool → R Bool)
    (h : ∀ (i : Nat) (s : Bool × Int), body (i : Int) s = contigStep v i s.2 s.1)
    (k1 : ∀ b, k (Ctl.ret b) = .ok b) (k2 : ∀ s, k (Ctl.next s) = .ok true) (n : Nat) (co : Int) (must : Bool) :
    (loopN body (-1) n ((n : Int) - 1) (must, co) >>= k) = v.contigLoop n co must := by
  rw [← contig_loop v body h n co must]
  cases loopN body (-1) n ((n : Int) - 1) (must, co) with
  | error e => rfl
  | ok c => cases c <;> simp [k1, k2, ctlBool]

/-- `Increment` with the new value computed first and stored once (`next := v[i] + 1; if next < w[i] { v[i] = next; return };
v[i] = 0`) performs, on every input, what the read-modify-write form does (the same result, the same panic) -/
theorem inc_body_reordered (wrt : List Int) (i : Int) (vec : List Int) :
    (getIdx vec i >>= fun a => getIdx wrt i >>= fun w =>
        if a + 1 < w then (setIdx vec i (a + 1) >>= fun v => (.ok (Ctl.ret v) : R (Ctl (List Int) (List Int))))
        else (setIdx vec i 0 >>= fun v => .ok (Ctl.next v))) =
    (getIdx vec i >>= fun a => setIdx vec i (a + 1) >>= fun vec1 => getIdx vec1 i >>= fun b =>
        getIdx wrt i >>= fun w =>
          if b ≥ w then (setIdx vec1 i 0 >>= fun vec2 => .ok (Ctl.next vec2)) else .ok (Ctl.ret vec1)) := by
  unfold getIdx setIdx
  by_cases hneg : i < 0
  · simp [hneg]
  · by_cases hlt : i.toNat < vec.length
    · have h1 : ¬ ((vec.length : Int) ≤ i) := by omega
      have h2 : ∀ v : Int, ¬ (((vec.set i.toNat v).length : Int) ≤ i) := by
        intro v; simp only [List.length_set]; omega
      simp only [hneg, false_or, if_false, List.getElem?_eq_getElem hlt, bind_ok, h1, h2, List.getElem?_set_self hlt, List.set_set]
      cases wrt[i.toNat]? with
      | none => rfl
      | some w =>
        simp only [bind_ok]
        by_cases hc : vec[i.toNat] + 1 < w
        · have : ¬ (vec[i.toNat] + 1 ≥ w) := by omega
          simp only [hc, this, if_true, if_false]
        · have : vec[i.toNat] + 1 ≥ w := by omega
          simp only [hc, this, if_true, if_false]
    · simp [hneg, List.getElem?_eq_none (by omega : vec.length ≤ i.toNat)]

/-- `Increment` as generated: the loop, then the (updated) vector whichever way the loop ended -/
theorem inc_fin (vector wrt : List Int) (body : Int → List Int → R (Ctl (List Int) (List Int)))
    (k : Ctl (List Int) (List Int) → R (List Int))
    (h : ∀ i vec, body i vec = (getIdx vec i >>= fun a => setIdx vec i (a + 1) >>= fun vec1 => getIdx vec1 i >>= fun b =>
        getIdx wrt i >>= fun w =>
          if b ≥ w then (setIdx vec1 i 0 >>= fun vec2 => .ok (Ctl.next vec2)) else .ok (Ctl.ret vec1)))
    (k1 : ∀ r, k (Ctl.ret r) = .ok r) (k2 : ∀ s, k (Ctl.next s) = .ok s) :
    (loopN body (-1) wrt.length ((wrt.length : Int) - 1) vector >>= k) = increment vector wrt := by
  unfold increment
  by_cases hlt : vector.length < wrt.length
  · rw [inc_loop_short wrt body h wrt.length vector hlt]
    simp [hlt, oob]
  · have hsplit : vector.take wrt.length ++ vector.drop wrt.length = vector := List.take_append_drop _ _
    have := inc_loop wrt body h wrt.length (vector.take wrt.length) wrt [] (vector.drop wrt.length)
      (by simp; omega) rfl (by simp)
    rw [hsplit] at this
    rw [this]
    simp only [hlt, if_false, bind_ok]
    split <;> simp [k1, k2]

/-! ### slice.Equal -/

/-- `for i := range lhs { if lhs[i] != rhs[i] { return false } }` on two slices of the same length -/
theorem equal_loop (lhs rhs : List Int) (body : Int → Int → Unit → R (Ctl Unit Bool))
    (h : ∀ i v u, body i v u = (getIdx lhs i >>= fun a => getIdx rhs i >>= fun b =>
        if a ≠ b then .ok (Ctl.ret false) else .ok (Ctl.next ()))) :
    ∀ (lsuf rsuf lpre rpre : List Int), lhs = lpre ++ lsuf → rhs = rpre ++ rsuf → rpre.length = lpre.length →
      rsuf.length = lsuf.length →
      loopRange body lsuf (lpre.length : Int) () = .ok (if lsuf = rsuf then Ctl.next () else Ctl.ret false) := by
  intro lsuf
  induction lsuf with
  | nil => intro rsuf lpre rpre _ _ _ hs
           have : rsuf = [] := by simpa using hs
           simp [this]
  | cons a as ih =>
    intro rsuf lpre rpre hl hr hp hs
    match rsuf, hs with
    | b :: bs, hs =>
    rw [loopRange_cons, h]
    have ga : getIdx lhs (lpre.length : Int) = .ok a := by rw [hl]; exact getIdx_pre _ _ _
    have gb : getIdx rhs (lpre.length : Int) = .ok b := by rw [hr, ← hp]; exact getIdx_pre _ _ _
    rw [ga, gb]
    simp only [bind_ok]
    by_cases hab : a = b
    · subst hab
      have hk' : ((lpre.length : Int) + 1) = (((lpre ++ [a]).length : Nat) : Int) := by simp
      simp only [ne_eq, not_true_eq_false, if_false, bind_ok, hk']
      rw [ih bs (lpre ++ [a]) (rpre ++ [a]) (by simp [hl]) (by simp [hr]) (by simp [hp]) (by simpa using hs)]
      simp
    · simp [hab]

theorem equal_loop0 (lhs rhs : List Int) (body : Int → Int → Unit → R (Ctl Unit Bool))
    (h : ∀ i v u, body i v u = (getIdx lhs i >>= fun a => getIdx rhs i >>= fun b =>
        if a ≠ b then .ok (Ctl.ret false) else .ok (Ctl.next ()))) (hlen : lhs.length = rhs.length) :
    loopRange body lhs 0 () = .ok (if lhs = rhs then Ctl.next () else Ctl.ret false) := by
  have := equal_loop lhs rhs body h lhs rhs [] [] rfl rfl rfl hlen.symm
  simpa using this

/-! ### literal indices -/

@[simp] theorem getIdx_one_cons {τ : Type} (x : τ) (xs : List τ) : getIdx (x :: xs) 1 = getIdx xs 0 := by
  have e1 : (1 : Int) = ((1 : Nat) : Int) := rfl
  have e0 : (0 : Int) = ((0 : Nat) : Int) := rfl
  rw [e1, e0, getIdx_nat, getIdx_nat]; simp

@[simp] theorem getIdx_two_cons {τ : Type} (x : τ) (xs : List τ) : getIdx (x :: xs) 2 = getIdx xs 1 := by
  have e2 : (2 : Int) = ((2 : Nat) : Int) := rfl
  have e1 : (1 : Int) = ((1 : Nat) : Int) := rfl
  rw [e2, e1, getIdx_nat, getIdx_nat]; simp

theorem setIdx_lt {τ : Type} (xs : List τ) (k : Nat) (v : τ) (h : k < xs.length) :
    setIdx xs (k : Int) v = .ok (xs.set k v) := by
  unfold setIdx
  have : ¬ ((k : Int) < 0 ∨ (xs.length : Int) ≤ (k : Int)) := by omega
  rw [if_neg this, Int.toNat_natCast]

theorem setIdx_pre' {τ : Type} (pre : List τ) (x v : τ) (suf : List τ) (k : Nat) (hk : pre.length = k) :
    setIdx (pre ++ x :: suf) (k : Int) v = .ok (pre ++ v :: suf) := by
  subst hk; exact setIdx_pre pre x v suf

theorem toUint_eq (x : Int) : toUint x = OW.Sim.H5.toUint x := rfl

/-! ### makeHyperslab -/

abbrev Quad := List Nat × List Nat × List Nat × List Nat

/-- the loop of `makeHyperslab`: four result slices filled position by position. `h` = one iteration on slices whose
first `k` positions are done (all four of the same length) is `slabDim` of the hand-written model. -/
theorem slab_loop (dims : List Int) (body : Int → Option (List Int) → Quad → R (Ctl Quad Quad))
    (h : ∀ (po so ps ss pc sc pb sb : List Nat) (z1 z2 z3 z4 : Nat) (dim : Option (List Int)),
        ps.length = po.length → pc.length = po.length → pb.length = po.length →
        body (po.length : Int) dim (po ++ z1 :: so, ps ++ z2 :: ss, pc ++ z3 :: sc, pb ++ z4 :: sb) =
          (OW.Sim.H5.slabDim dims po.length dim >>= fun e =>
            .ok (Ctl.next (po ++ e.1 :: so, ps ++ e.2.1 :: ss, pc ++ e.2.2 :: sc, pb ++ 1 :: sb)))) :
    ∀ (sel : List (Option (List Int))) (po so ps ss pc sc pb sb : List Nat),
      ps.length = po.length → pc.length = po.length → pb.length = po.length →
      so.length = sel.length → ss.length = sel.length → sc.length = sel.length → sb.length = sel.length →
      loopRange body sel (po.length : Int) (po ++ so, ps ++ ss, pc ++ sc, pb ++ sb) =
        (OW.Sim.H5.slabDims dims po.length sel >>= fun l =>
          .ok (Ctl.next (po ++ l.map (·.1), ps ++ l.map (·.2.1), pc ++ l.map (·.2.2), pb ++ l.map (fun _ => 1)))) := by
  intro sel
  induction sel with
  | nil =>
    intro po so ps ss pc sc pb sb _ _ _ h1 h2 h3 h4
    have e1 : so = [] := by simpa using h1
    have e2 : ss = [] := by simpa using h2
    have e3 : sc = [] := by simpa using h3
    have e4 : sb = [] := by simpa using h4
    simp [e1, e2, e3, e4, OW.Sim.H5.slabDims]
  | cons d rest ih =>
    intro po so ps ss pc sc pb sb hps hpc hpb h1 h2 h3 h4
    match so, ss, sc, sb, h1, h2, h3, h4 with
    | z1 :: so, z2 :: ss, z3 :: sc, z4 :: sb, h1, h2, h3, h4 =>
    rw [loopRange_cons, h po so ps ss pc sc pb sb z1 z2 z3 z4 d hps hpc hpb]
    simp only [OW.Sim.H5.slabDims]
    cases OW.Sim.H5.slabDim dims po.length d with
    | error e => rfl
    | ok e =>
      simp only [bind_ok]
      have hk' : ((po.length : Int) + 1) = (((po ++ [e.1]).length : Nat) : Int) := by simp
      have a1 : po ++ e.1 :: so = (po ++ [e.1]) ++ so := by simp
      have a2 : ps ++ e.2.1 :: ss = (ps ++ [e.2.1]) ++ ss := by simp
      have a3 : pc ++ e.2.2 :: sc = (pc ++ [e.2.2]) ++ sc := by simp
      have a4 : pb ++ 1 :: sb = (pb ++ [1]) ++ sb := by simp
      rw [hk', a1, a2, a3, a4, ih (po ++ [e.1]) so (ps ++ [e.2.1]) ss (pc ++ [e.2.2]) sc (pb ++ [1]) sb
        (by simp [hps]) (by simp [hpc]) (by simp [hpb]) (by simpa using h1) (by simpa using h2) (by simpa using h3) (by simpa using h4)]
      have e2 : (po ++ [e.1]).length = po.length + 1 := by simp
      rw [e2]
      cases OW.Sim.H5.slabDims dims (po.length + 1) rest <;> simp

theorem slab_loop0 (dims : List Int) (body : Int → Option (List Int) → Quad → R (Ctl Quad Quad))
    (h : ∀ (po so ps ss pc sc pb sb : List Nat) (z1 z2 z3 z4 : Nat) (dim : Option (List Int)),
        ps.length = po.length → pc.length = po.length → pb.length = po.length →
        body (po.length : Int) dim (po ++ z1 :: so, ps ++ z2 :: ss, pc ++ z3 :: sc, pb ++ z4 :: sb) =
          (OW.Sim.H5.slabDim dims po.length dim >>= fun e =>
            .ok (Ctl.next (po ++ e.1 :: so, ps ++ e.2.1 :: ss, pc ++ e.2.2 :: sc, pb ++ 1 :: sb))))
    (sel : List (Option (List Int))) :
    loopRange body sel 0 (List.replicate sel.length 0, List.replicate sel.length 0, List.replicate sel.length 0, List.replicate sel.length 0) =
      (OW.Sim.H5.slabDims dims 0 sel >>= fun l =>
        .ok (Ctl.next (l.map (·.1), l.map (·.2.1), l.map (·.2.2), l.map (fun _ => 1)))) := by
  have := slab_loop dims body h sel [] (List.replicate sel.length 0) [] (List.replicate sel.length 0) []
    (List.replicate sel.length 0) [] (List.replicate sel.length 0) rfl rfl rfl (by simp) (by simp) (by simp) (by simp)
  simpa using this

/-! ### `NdArrayTypeCommon` of the regenerated file as the hand-written `View` -/

def toView (nd : data.NdArrayTypeCommon) : View :=
  { orig := nd.OriginalDims, dims := nd.Dims, start := nd.Start, offset := nd.Offset, step := nd.Step, offStep := nd.OffsetStep }

def ofView (v : View) : data.NdArrayTypeCommon :=
  { OriginalDims := v.orig, Dims := v.dims, Start := v.start, Offset := v.offset, Step := v.step, OffsetStep := v.offStep }

@[simp] theorem toView_ofView (v : View) : toView (ofView v) = v := rfl
@[simp] theorem ofView_toView (nd : data.NdArrayTypeCommon) : ofView (toView nd) = nd := rfl

end OW.Proofs.GenIdx
