import OW.Gen.Prelude
/-!
# Lists built by index loops

Lemmas about `forNat` / `forRange` loops whose body updates one cell of a list (`xs[i] = …` in the Go source): the element-wise
description of the result. Used by the tie theorems of the kernels that work on `[]float64` buffers in place (GR4J's unit
hydrographs) where the hand-written model uses `List.zipWith`, `List.tail`, `List.map` over `List.range`.
Core Lean only; no arithmetic on the element type.
-/
namespace OW.Gen.Prelude
variable {α : Type}

theorem forNat_length (body : Nat → List α → List α) (hb : ∀ i q, (body i q).length = q.length) (k lo : Nat) (q : List α) :
    (forNat body k lo q).length = q.length := by
  induction k generalizing lo q with
  | zero => rfl
  | succ k ih => rw [forNat, ih, hb]

/-- `for i := lo; i < lo+k; i++ { q[i] = g i q[i] }`: the cells `lo ≤ j < lo+k` are updated, the others kept -/
theorem forNat_pointwise (g : Nat → α → α) (d : α) (k lo : Nat) (q : List α) (j : Nat) :
    (forNat (fun i q => q.set i (g i (q.getD i d))) k lo q)[j]? =
      if lo ≤ j ∧ j < lo + k then q[j]?.map (g j) else q[j]? := by
  induction k with
  | zero =>
    have : ¬ (lo ≤ j ∧ j < lo + 0) := by omega
    simp only [forNat, this, ↓reduceIte]
  | succ k ih =>
    rw [forNat_succ_right]
    have hlen : (forNat (fun i q => q.set i (g i (q.getD i d))) k lo q).length = q.length :=
      forNat_length _ (fun i q => by simp) k lo q
    rw [List.getElem?_set, hlen]
    by_cases hj : lo + k = j
    · subst hj
      have h1 : ¬ (lo ≤ lo + k ∧ lo + k < lo + k) := by omega
      have h2 : (lo ≤ lo + k ∧ lo + k < lo + (k + 1)) := by omega
      have ih' := ih
      simp only [h1, ↓reduceIte] at ih'
      simp only [h2, ↓reduceIte, and_self]
      rw [List.getD_eq_getElem?_getD, ih']
      by_cases hl : lo + k < q.length
      · simp only [hl, ↓reduceIte]
        rw [List.getElem?_eq_getElem hl]
        rfl
      · simp only [hl, ↓reduceIte]
        rw [List.getElem?_eq_none (by omega)]
        rfl
    · simp only [hj, ↓reduceIte]
      rw [ih]
      have : (lo ≤ j ∧ j < lo + k) ↔ (lo ≤ j ∧ j < lo + (k + 1)) := by omega
      simp only [this]

/-- `for i := 1; i < 1+k; i++ { q[i-1] = q[i] }` (shift down) with `k < len(q)`: `q[j+1]` for `j < k`, the rest kept -/
theorem forNat_shift (d : α) (k : Nat) (q : List α) (hk : k + 1 ≤ q.length) (j : Nat) :
    (forNat (fun i q => q.set (i - 1) (q.getD i d)) k 1 q)[j]? = if j < k then q[j + 1]? else q[j]? := by
  induction k generalizing j with
  | zero => simp [forNat]
  | succ k ih =>
    have ih := fun j => ih (by omega) j
    rw [forNat_succ_right]
    have hlen : (forNat (fun i q => q.set (i - 1) (q.getD i d)) k 1 q).length = q.length :=
      forNat_length _ (fun i q => by simp) k 1 q
    rw [List.getElem?_set, hlen]
    have e1 : 1 + k - 1 = k := by omega
    rw [e1]
    by_cases hj : k = j
    · subst hj
      have h1 : ¬ (1 + k < k) := by omega
      have h2 : k < q.length := by omega
      have h3 : k < k + 1 := by omega
      simp only [↓reduceIte, h2, h3]
      rw [List.getD_eq_getElem?_getD, ih]
      simp only [h1, ↓reduceIte]
      have : 1 + k = k + 1 := by omega
      rw [this, List.getElem?_eq_getElem (by omega : k + 1 < q.length)]
      rfl
    · simp only [hj, ↓reduceIte]
      rw [ih]
      by_cases h : j < k
      · have : j < k + 1 := by omega
        simp only [h, this, ↓reduceIte]
      · have : ¬ j < k + 1 := by omega
        simp only [h, this, ↓reduceIte]

/-- `q[i] = q[i] + c*u[i]` for all cells = `zipWith` (the two lists have the loop's length) -/
theorem forNat_zipWith [Inhabited α] (f : α → α → α) (q u : List α) (n : Nat) (hq : q.length = n) (hu : u.length = n) :
    forNat (fun i q => q.set i (f (q.getD i default) (u.getD i default))) n 0 q = List.zipWith f q u := by
  apply List.ext_getElem?
  intro j
  rw [forNat_pointwise (fun i x => f x (u.getD i default)) default n 0 q j, List.getElem?_zipWith]
  by_cases hj : j < n
  · have h1 : 0 ≤ j ∧ j < 0 + n := by omega
    simp only [h1, and_self, ↓reduceIte]
    rw [List.getElem?_eq_getElem (by omega : j < q.length), List.getElem?_eq_getElem (by omega : j < u.length)]
    simp only [Option.map_some, List.getD_eq_getElem?_getD, List.getElem?_eq_getElem (by omega : j < u.length), Option.getD_some]
  · have h1 : ¬ (0 ≤ j ∧ j < 0 + n) := by omega
    simp only [h1, ↓reduceIte]
    rw [List.getElem?_eq_none (by omega : q.length ≤ j)]

/-- the shift `for i := 1; i < n; i++ { q[i-1] = q[i] }; q[n-1] = z` = `q.tail ++ [z]` (n = len(q) ≥ 1) -/
theorem forNat_shift_tail (d z : α) (q : List α) (n : Nat) (hq : q.length = n) (hn : 0 < n) :
    (forNat (fun i q => q.set (i - 1) (q.getD i d)) (n - 1) 1 q).set (n - 1) z = q.tail ++ [z] := by
  apply List.ext_getElem?
  intro j
  have hlen : (forNat (fun i q => q.set (i - 1) (q.getD i d)) (n - 1) 1 q).length = q.length :=
    forNat_length _ (fun i q => by simp) (n - 1) 1 q
  rw [List.getElem?_set, hlen, forNat_shift d (n - 1) q (by omega) j, List.getElem?_append, List.getElem?_tail, List.length_tail]
  by_cases hj : n - 1 = j
  · subst hj
    have h1 : n - 1 < q.length := by omega
    have h2 : ¬ (n - 1 < q.length - 1) := by omega
    simp only [↓reduceIte, h1, h2]
    have : n - 1 - (q.length - 1) = 0 := by omega
    rw [this]
    rfl
  · simp only [hj, ↓reduceIte]
    by_cases h : j < n - 1
    · have h2 : j < q.length - 1 := by omega
      simp only [h, h2, ↓reduceIte]
    · have h2 : ¬ j < q.length - 1 := by omega
      simp only [h, h2, ↓reduceIte]
      rw [List.getElem?_eq_none (by omega : q.length ≤ j)]
      have : j - (q.length - 1) ≠ 0 := by omega
      cases hh : j - (q.length - 1) with
      | zero => omega
      | succ m => rfl

/-- `for i := lo; i < lo+k; i++ { q[i] = f i }` on a list of zeros (any list): the cells `lo ≤ j < lo+k` hold `f j` -/
theorem forNat_tabulate (f : Nat → α) (k lo : Nat) (q : List α) (j : Nat) :
    (forNat (fun i q => q.set i (f i)) k lo q)[j]? =
      if lo ≤ j ∧ j < lo + k ∧ j < q.length then some (f j) else q[j]? := by
  rw [forNat_pointwise (fun i _ => f i) (f 0) k lo q j]
  by_cases hj : lo ≤ j ∧ j < lo + k
  · simp only [hj, and_self, ↓reduceIte, true_and]
    by_cases hl : j < q.length
    · simp only [hl, ↓reduceIte]
      rw [List.getElem?_eq_getElem hl]; rfl
    · simp only [hl, ↓reduceIte]
      rw [List.getElem?_eq_none (by omega)]; rfl
  · have : ¬ (lo ≤ j ∧ j < lo + k ∧ j < q.length) := by omega
    simp only [hj, this, ↓reduceIte]

/-- `for i := 0; i < n; i++ { q[i] = f i }` on `make([]float64, n)` -/
theorem forNat_tabulate_replicate (f : Nat → α) (n : Nat) (z : α) :
    forNat (fun i q => q.set i (f i)) n 0 (List.replicate n z) = (List.range n).map f := by
  apply List.ext_getElem?
  intro j
  rw [forNat_tabulate, List.getElem?_map, List.length_replicate]
  by_cases hj : j < n
  · have h1 : 0 ≤ j ∧ j < 0 + n ∧ j < n := by omega
    simp only [h1, and_self, ↓reduceIte, List.getElem?_range hj, Option.map_some]
  · have h1 : ¬ (0 ≤ j ∧ j < 0 + n ∧ j < n) := by omega
    simp only [h1, ↓reduceIte]
    rw [List.getElem?_eq_none (by simp; omega), List.getElem?_eq_none (by simp; omega)]
    rfl

/-- `xs[n-1] = v` on a table of `n ≥ 1` cells -/
theorem map_range_set_last (f : Nat → α) (n : Nat) (v : α) :
    ((List.range n).map f).set (n - 1) v = (List.range n).map (fun j => if j + 1 = n then v else f j) := by
  apply List.ext_getElem?
  intro j
  rw [List.getElem?_set, List.getElem?_map, List.getElem?_map, List.length_map, List.length_range]
  by_cases hj : j < n
  · rw [List.getElem?_range hj]
    by_cases he : n - 1 = j
    · have h1 : n - 1 < n := by omega
      have h2 : j + 1 = n := by omega
      simp only [he, hj, h2, ↓reduceIte, Option.map_some]
    · have h2 : ¬ (j + 1 = n) := by omega
      simp only [he, h2, ↓reduceIte, Option.map_some]
  · rw [List.getElem?_eq_none (by simp; omega)]
    by_cases he : n - 1 = j
    · have h1 : ¬ (n - 1 < n) := by omega
      simp only [he, ↓reduceIte, Option.map_none]
      have : ¬ j < n := hj
      simp [this]
    · simp only [he, ↓reduceIte, Option.map_none]

theorem getD_map_range (f : Nat → α) (n j : Nat) (d : α) (hj : j < n) : ((List.range n).map f).getD j d = f j := by
  rw [List.getD_eq_getElem?_getD, List.getElem?_map, List.getElem?_range hj]
  rfl

/-- the unit-hydrograph ordinates from the S-curve `SH = [sh 0, …, sh (n-1)]`:
`UH := make(n); UH[0] = SH[0]; for i := 1; i < n; i++ { UH[i] = sub SH[i] SH[i-1] }` -/
theorem forNat_differences (sub : α → α → α) (sh : Nat → α) (n : Nat) (hn : 0 < n) (z d : α) :
    forNat (fun i q => q.set i (sub (((List.range n).map sh).getD i d) (((List.range n).map sh).getD (i - 1) d))) (n - 1) 1
        ((List.replicate n z).set 0 (((List.range n).map sh).getD 0 d)) =
      (List.range n).map (fun j => if j = 0 then sh 0 else sub (sh j) (sh (j - 1))) := by
  apply List.ext_getElem?
  intro j
  rw [forNat_tabulate, List.getElem?_map, List.length_set, List.length_replicate, List.getElem?_set, List.length_replicate,
    List.getElem?_replicate]
  by_cases hj : j < n
  · rw [List.getElem?_range hj]
    by_cases h0 : j = 0
    · subst h0
      have h1 : ¬ (1 ≤ 0 ∧ 0 < 1 + (n - 1) ∧ 0 < n) := by omega
      rw [if_neg h1]
      simp only [↓reduceIte, hn, Option.map_some, getD_map_range sh n 0 d hn]
    · have h1 : 1 ≤ j ∧ j < 1 + (n - 1) ∧ j < n := by omega
      rw [if_pos h1]
      simp only [↓reduceIte, h0, Option.map_some, getD_map_range sh n j d hj,
        getD_map_range sh n (j - 1) d (by omega)]
  · have h1 : ¬ (1 ≤ j ∧ j < 1 + (n - 1) ∧ j < n) := by omega
    have h2 : ¬ (0 = j) := by omega
    rw [if_neg h1]
    simp only [h2, hj, ↓reduceIte]
    rw [List.getElem?_eq_none (by simp; omega)]
    rfl

/-! ### count-down loops that store a value per index -/

/-- a store at an index outside the range of an upward loop of stores commutes with the loop -/
theorem forRangeN_set_comm (f : Int → α) (k : Nat) (lo : Int) (hlo : 0 ≤ lo) (j : Int) (hj : j < lo ∨ lo + k ≤ j) (hj0 : 0 ≤ j)
    (v : α) (c : List α) :
    forRangeN (fun i q => sliceSet q i (f i)) k lo (sliceSet c j v) =
      sliceSet (forRangeN (fun i q => sliceSet q i (f i)) k lo c) j v := by
  induction k generalizing lo c with
  | zero => rfl
  | succ k ih =>
    rw [forRangeN, forRangeN]
    have hne : lo.toNat ≠ j.toNat := by omega
    have hc : sliceSet (sliceSet c j v) lo (f lo) = sliceSet (sliceSet c lo (f lo)) j v := by
      unfold sliceSet
      exact List.set_comm _ _ (fun h => hne h.symm)
    rw [hc]
    exact ih (lo + 1) (by omega) (by omega) _

/-- `for i := hi; i > lo; i-- { q[i] = f i }` stores the same values as `for i := lo+1; i <= hi; i++ { q[i] = f i }` (the
stored value does not depend on the slice and the indices are distinct cells, so the order is immaterial) -/
theorem forDownN_eq_forRangeN (f : Int → α) (k : Nat) (hi : Int) (h : 0 ≤ hi - k + 1) (c : List α) :
    forDownN (fun i q => sliceSet q i (f i)) k hi c = forRangeN (fun i q => sliceSet q i (f i)) k (hi - k + 1) c := by
  induction k generalizing hi c with
  | zero => rfl
  | succ k ih =>
    rw [forDownN, forRangeN_succ_right]
    have e1 : hi - ((k + 1 : Nat) : Int) + 1 = hi - 1 - (k : Int) + 1 := by omega
    have e2 : hi - 1 - (k : Int) + 1 + (k : Int) = hi := by omega
    rw [ih (hi - 1) (by omega), e1, e2]
    exact forRangeN_set_comm f k (hi - 1 - k + 1) (by omega) hi (by omega) (by omega) (f hi) c

theorem forRangeDown_eq_forRange (f : Int → α) (hi lo : Int) (hlo : 0 ≤ lo) (c : List α) :
    forRangeDown hi lo (fun i q => sliceSet q i (f i)) c = forRange (lo + 1) (hi + 1) (fun i q => sliceSet q i (f i)) c := by
  unfold forRangeDown forRange
  have e : (hi + 1 - (lo + 1)).toNat = (hi - lo).toNat := by omega
  rw [e]
  by_cases hk : lo ≤ hi
  · have h1 : hi - ((hi - lo).toNat : Int) + 1 = lo + 1 := by omega
    rw [forDownN_eq_forRangeN f _ hi (by omega), h1]
  · have h0 : (hi - lo).toNat = 0 := by omega
    rw [h0]; rfl

end OW.Gen.Prelude
