import OW.Sim.H5
import Mathlib.Tactic.Ring
import Mathlib.Tactic.Linarith
import Mathlib.Data.List.Range
/-!
Helper lemmas for the C08 theorems about the abstract HDF5 file (`OW/Sim/H5.lean`): row-major enumeration,
sequential stores, path bookkeeping.
-/
namespace OW.Proofs.C08H5
open OW.Nd OW.Sim.H5

/-! ### `linear dims .all` is `0, 1, …, Π dims - 1` -/

theorem flatMap_range_mul (d P : Nat) :
    (List.range d).flatMap (fun x => (List.range P).map (fun r => x * P + r)) = List.range (d * P) := by
  induction d with
  | zero => simp
  | succ d ih =>
    rw [List.range_succ, List.flatMap_append, ih, Nat.succ_mul, List.range_add]
    simp

theorem linear_all (s : List Nat) : linear s .all = List.range (prodN s) := by
  unfold linear
  simp only [selCoords]
  induction s with
  | nil => simp [cartesian, ravelN, prodN]
  | cons d ds ih =>
    simp only [List.map_cons, cartesian, prodN, List.map_flatMap, List.map_map]
    rw [← flatMap_range_mul]
    congr 1
    funext x
    rw [← ih, List.map_map]
    simp [Function.comp_def, ravelN]

theorem map_getD_range (v : List Int) : (List.range v.length).map (fun i => v.getD i 0) = v := by
  apply List.ext_getElem
  · simp
  · intro i h1 h2
    simp at h1
    simp [List.getD_eq_getElem?_getD, h1]

/-! ### sequential stores -/

theorem scatter_length (v : List Int) : ∀ (is : List Nat) (xs : List Int), (scatter v is xs).length = v.length := by
  intro is
  induction is generalizing v with
  | nil => intro xs; simp [scatter]
  | cons i is ih =>
    intro xs
    cases xs with
    | nil => simp [scatter]
    | cons x xs => simp [scatter, ih]

/-- positions that are not stored to keep their value -/
theorem scatter_getElem?_not_mem (v : List Int) : ∀ (is : List Nat) (xs : List Int) (j : Nat), j ∉ is →
    (scatter v is xs)[j]? = v[j]? := by
  intro is
  induction is generalizing v with
  | nil => intro xs j _; simp [scatter]
  | cons i is ih =>
    intro xs j hj
    cases xs with
    | nil => simp [scatter]
    | cons x xs =>
      simp only [List.mem_cons, not_or] at hj
      simp only [scatter]
      rw [ih _ xs j hj.2, List.getElem?_set_ne (Ne.symm hj.1)]

/-- with distinct in-range positions, position `is[k]` receives `xs[k]` -/
theorem scatter_getElem?_mem (v : List Int) : ∀ (is : List Nat) (xs : List Int), is.Nodup → is.length ≤ xs.length →
    (∀ i ∈ is, i < v.length) → ∀ (k : Nat) (hk : k < is.length), (scatter v is xs)[is[k]]? = xs[k]? := by
  intro is
  induction is generalizing v with
  | nil => intro xs _ _ _ k hk; simp at hk
  | cons i is ih =>
    intro xs hnd hlen hin k hk
    cases xs with
    | nil => simp at hlen
    | cons x xs =>
      simp only [scatter]
      rw [List.nodup_cons] at hnd
      cases k with
      | zero =>
        simp only [List.getElem_cons_zero, List.getElem?_cons_zero]
        rw [scatter_getElem?_not_mem _ is xs i hnd.1]
        simp [hin i (by simp)]
      | succ k =>
        simp only [List.getElem_cons_succ, List.getElem?_cons_succ]
        have hk' : k < is.length := by simpa using hk
        exact ih (v.set i x) xs hnd.2 (by simpa using hlen)
          (fun j hj => by simpa using hin j (List.mem_cons_of_mem _ hj)) k hk'

/-- storing `xs` at `0, 1, …, n-1` of a list of length `n` gives `xs` -/
theorem scatter_range (v xs : List Int) (h : xs.length = v.length) : scatter v (List.range v.length) xs = xs := by
  apply List.ext_getElem?
  intro j
  by_cases hj : j < v.length
  · have := scatter_getElem?_mem v (List.range v.length) xs List.nodup_range (by simp [h])
      (fun i hi => by simpa using hi) j (by simpa using hj)
    simpa using this
  · have h1 : (scatter v (List.range v.length) xs).length = v.length := scatter_length _ _ _
    rw [List.getElem?_eq_none (by omega), List.getElem?_eq_none (by omega)]

/-! ### the tree -/

theorem lookup_setVals_self (t : Tree) (p : Path) (s : List Nat) (v v' : List Int)
    (h : t.lookup p = some (.ds s v)) : (setVals t p v').lookup p = some (.ds s v') := by
  induction t with
  | nil => simp at h
  | cons e t ih =>
    obtain ⟨q, o⟩ := e
    simp only [List.lookup_cons] at h
    by_cases hq : p == q
    · have hqp : q = p := (beq_iff_eq.mp hq).symm
      subst hqp
      simp only [hq] at h
      cases h
      simp [setVals, List.lookup_cons]
    · simp only [hq] at h
      have hne : ¬ q = p := fun e => hq (by simp [e])
      have := ih h
      simp only [setVals, hne, if_false, List.lookup_cons, hq]
      exact this

theorem lookup_setVals_other (t : Tree) (p q : Path) (v' : List Int) (hne : q ≠ p) :
    (setVals t p v').lookup q = t.lookup q := by
  induction t with
  | nil => simp [setVals]
  | cons e t ih =>
    obtain ⟨r, o⟩ := e
    simp only [setVals]
    by_cases hr : r = p
    · subst hr
      have hq : (q == r) = false := by simp [hne]
      cases o <;> simp [List.lookup_cons, hq]
    · simp only [hr, if_false, List.lookup_cons, ih]

theorem wf_setVals {t : Tree} {p : Path} {s : List Nat} {v v' : List Int} (wf : WF t)
    (h : t.lookup p = some (.ds s v)) (hl : v'.length = prodN s) : WF (setVals t p v') := by
  induction t with
  | nil => simp at h
  | cons e t ih =>
    obtain ⟨q, o⟩ := e
    simp only [List.lookup_cons] at h
    by_cases hq : p == q
    · have hqp : q = p := (beq_iff_eq.mp hq).symm
      subst hqp
      simp only [hq] at h
      cases h
      intro r s' w hm
      simp only [setVals, if_true, List.mem_cons, Prod.mk.injEq, Obj.ds.injEq] at hm
      rcases hm with ⟨_, rfl, rfl⟩ | hm
      · exact hl
      · exact wf r s' w (List.mem_cons_of_mem _ hm)
    · simp only [hq] at h
      have hne : ¬ q = p := fun e => hq (by simp [e])
      have wft : WF t := fun r s' w hm => wf r s' w (List.mem_cons_of_mem _ hm)
      intro r s' w hm
      simp only [setVals, hne, if_false, List.mem_cons] at hm
      rcases hm with hm | hm
      · exact wf r s' w (by rw [hm]; exact List.mem_cons_self)
      · exact ih wft h r s' w hm

theorem wf_of_lookup {t : Tree} {p : Path} {s : List Nat} {v : List Int} (wf : WF t)
    (h : t.lookup p = some (.ds s v)) : v.length = prodN s := by
  induction t with
  | nil => simp at h
  | cons e t ih =>
    obtain ⟨q, o⟩ := e
    simp only [List.lookup_cons] at h
    by_cases hq : p == q
    · simp only [hq] at h
      cases h
      exact wf q s v List.mem_cons_self
    · simp only [hq] at h
      exact ih (fun r s' w hm => wf r s' w (List.mem_cons_of_mem _ hm)) h

theorem find_setVals_self {t : Tree} {p : Path} {s : List Nat} {v : List Int} (v' : List Int) (hp : p ≠ [])
    (h : find t p = some (.ds s v)) : find (setVals t p v') p = some (.ds s v') := by
  simp only [find, hp, if_false] at h ⊢
  exact lookup_setVals_self t p s v v' h

theorem find_setVals_other (t : Tree) (p q : Path) (v' : List Int) (hne : q ≠ p) :
    find (setVals t p v') q = find t q := by
  simp only [find]
  split
  · rfl
  · exact lookup_setVals_other t p q v' hne

/-- `openDataset` only depends on the path through `splitPath` -/
theorem openDataset_eq {t : Tree} {path : String} {p : Path} {s : List Nat} {v : List Int} :
    openDataset t path = .ok (p, s, v) ↔ (p = splitPath path ∧ p ≠ [] ∧ find t p = some (.ds s v)) := by
  unfold openDataset
  simp only
  by_cases hp : splitPath path = []
  · simp only [hp, if_true]
    constructor
    · intro h; cases h
    · rintro ⟨h1, h2, _⟩; exact absurd h1 h2
  · simp only [hp, if_false]
    constructor
    · intro h
      split at h
      · rename_i s' v' heq
        cases h
        exact ⟨rfl, hp, heq⟩
      · cases h
    · rintro ⟨h1, _, h3⟩
      subst h1
      rw [h3]

/-! ### `createDataset` -/

def keepC (c : String) : Bool := c != "" && c != "."

theorem filter_stripLead (l : List String) : (stripLead l).filter keepC = l.filter keepC := by
  unfold stripLead
  split
  · simp [keepC]
  · rfl

theorem find_append_of_none {t : Tree} {q : Path} {o : Obj} (hq : q ≠ []) (h : find t q = none) :
    find (t ++ [(q, o)]) q = some o := by
  simp only [find, hq, if_false] at h ⊢
  rw [List.lookup_append, h]
  simp

theorem find_append_other {t : Tree} {q r : Path} {o : Obj} (h : find t r ≠ none) :
    find (t ++ [(q, o)]) r = find t r := by
  simp only [find] at h ⊢
  split
  · rfl
  · rename_i hr
    simp only [hr, if_false] at h
    rw [List.lookup_append]
    cases hl : List.lookup r t with
    | none => exact absurd hl h
    | some x => simp

theorem createDs_ok (dims : List Nat) : ∀ (n : Nat) (comps : List String), comps.length ≤ n →
    ∀ (t : Tree) (cur : Path) (t' : Tree) (q : Path), createDs dims t cur comps = (t', .ok q) →
      q = cur ++ comps.filter keepC ∧ comps.filter keepC ≠ [] ∧
      find t' q = some (.ds dims (List.replicate (prodN dims) 0)) ∧
      (∀ r, find t r ≠ none → find t' r = find t r) ∧ (WF t → WF t') := by
  intro n
  induction n with
  | zero =>
    intro comps hl t cur t' q h
    have : comps = [] := List.length_eq_zero_iff.mp (by omega)
    subst this
    rw [createDs] at h
    simp [stripLead] at h
  | succ n ih =>
    intro comps hl t cur t' q h
    rw [createDs] at h
    have hf := filter_stripLead comps
    have hlen := stripLead_length_le comps
    split at h
    · simp at h
    · rename_i name hs
      rw [hs] at hf
      split at h
      · simp at h
      · rename_i hname
        split at h
        · simp at h
        · rename_i hnone
          simp only [Prod.mk.injEq, Res.ok.injEq] at h
          obtain ⟨rfl, rfl⟩ := h
          have hk : keepC name = true := by
            simp only [not_or] at hname
            simp [keepC, hname.1, hname.2]
          have hfil : comps.filter keepC = [name] := by rw [← hf]; simp [hk]
          refine ⟨by rw [hfil], by rw [hfil]; simp, ?_, ?_, ?_⟩
          · exact find_append_of_none (by simp) hnone
          · intro r hr; exact find_append_other hr
          · intro wf p s v hm
            rcases List.mem_append.mp hm with hm | hm
            · exact wf p s v hm
            · simp only [List.mem_singleton, Prod.mk.injEq, Obj.ds.injEq] at hm
              obtain ⟨_, rfl, rfl⟩ := hm
              simp
    · rename_i g r rest hs
      rw [hs] at hf hlen
      simp only [List.length_cons] at hlen
      have hl' : (r :: rest).length ≤ n := by simp only [List.length_cons]; omega
      split at h
      · rename_i hg
        have hk : keepC g = false := by rcases hg with rfl | rfl <;> simp [keepC]
        have := ih (r :: rest) hl' t cur t' q h
        rw [← hf]
        simpa [List.filter_cons, hk] using this
      · rename_i hg
        have hk : keepC g = true := by
          simp only [not_or] at hg
          simp [keepC, hg.1, hg.2]
        have hfil : comps.filter keepC = g :: (r :: rest).filter keepC := by rw [← hf]; simp [List.filter_cons, hk]
        split at h
        · obtain ⟨h1, h2, h3, h4, h5⟩ := ih (r :: rest) hl' t (cur ++ [g]) t' q h
          exact ⟨by rw [hfil, h1]; simp, by rw [hfil]; simp, h3, h4, h5⟩
        · simp at h
        · rename_i hnone
          obtain ⟨h1, h2, h3, h4, h5⟩ := ih (r :: rest) hl' _ (cur ++ [g]) t' q h
          refine ⟨by rw [hfil, h1]; simp, by rw [hfil]; simp, h3, ?_, ?_⟩
          · intro r' hr'
            rw [h4 r' (by rw [find_append_other hr']; exact hr'), find_append_other hr']
          · intro wf
            apply h5
            intro p s v hm
            rcases List.mem_append.mp hm with hm | hm
            · exact wf p s v hm
            · simp at hm

end OW.Proofs.C08H5
