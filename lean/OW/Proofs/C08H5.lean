import OW.Sim.H5
import Mathlib.Tactic.Ring
import Mathlib.Tactic.Linarith
import Mathlib.Data.List.Range
import Mathlib.Data.List.Nodup
import Mathlib.Tactic.Push
/-!
Helper lemmas for the C08 theorems about the abstract HDF5 file (`OW/Sim/H5.lean`): row-major enumeration,
sequential stores, path bookkeeping.
-/
namespace OW.Proofs.C08H5
open OW.Nd OW.Sim.H5

/-! ### `linear dims .all` is `0, 1, …, Π dims - 1` -/

theorem flatMap_range_mul (d P : Nat) :
    (List.range d).flatMap (fun x => (List.range P).map (fun r => x * P + r)) = List.range (d * P) := by
  induction d with
  | zero => simp
  | succ d ih =>
    rw [List.range_succ, List.flatMap_append, ih, Nat.succ_mul, List.range_add]
    simp

theorem linear_all (s : List Nat) : linear s .all = List.range (prodN s) := by
  unfold linear
  simp only [selCoords]
  induction s with
  | nil => simp [cartesian, ravelN, prodN]
  | cons d ds ih =>
    simp only [List.map_cons, cartesian, prodN, List.map_flatMap, List.map_map]
    rw [← flatMap_range_mul]
    congr 1
    funext x
    rw [← ih, List.map_map]
    simp [Function.comp_def, ravelN]

theorem map_getD_range (v : List Int) : (List.range v.length).map (fun i => v.getD i 0) = v := by
  apply List.ext_getElem
  · simp
  · intro i h1 h2
    simp at h1
    simp [List.getD_eq_getElem?_getD, h1]

/-! ### sequential stores -/

theorem scatter_length (v : List Int) : ∀ (is : List Nat) (xs : List Int), (scatter v is xs).length = v.length := by
  intro is
  induction is generalizing v with
  | nil => intro xs; simp [scatter]
  | cons i is ih =>
    intro xs
    cases xs with
    | nil => simp [scatter]
    | cons x xs => simp [scatter, ih]

/-- positions that are not stored to keep their value -/
theorem scatter_getElem?_not_mem (v : List Int) : ∀ (is : List Nat) (xs : List Int) (j : Nat), j ∉ is →
    (scatter v is xs)[j]? = v[j]? := by
  intro is
  induction is generalizing v with
  | nil => intro xs j _; simp [scatter]
  | cons i is ih =>
    intro xs j hj
    cases xs with
    | nil => simp [scatter]
    | cons x xs =>
      simp only [List.mem_cons, not_or] at hj
      simp only [scatter]
      rw [ih _ xs j hj.2, List.getElem?_set_ne (Ne.symm hj.1)]

/-- with distinct in-range positions, position `is[k]` receives `xs[k]` -/
theorem scatter_getElem?_mem (v : List Int) : ∀ (is : List Nat) (xs : List Int), is.Nodup → is.length ≤ xs.length →
    (∀ i ∈ is, i < v.length) → ∀ (k : Nat) (hk : k < is.length), (scatter v is xs)[is[k]]? = xs[k]? := by
  intro is
  induction is generalizing v with
  | nil => intro xs _ _ _ k hk; simp at hk
  | cons i is ih =>
    intro xs hnd hlen hin k hk
    cases xs with
    | nil => simp at hlen
    | cons x xs =>
      simp only [scatter]
      rw [List.nodup_cons] at hnd
      cases k with
      | zero =>
        simp only [List.getElem_cons_zero, List.getElem?_cons_zero]
        rw [scatter_getElem?_not_mem _ is xs i hnd.1]
        simp [hin i (by simp)]
      | succ k =>
        simp only [List.getElem_cons_succ, List.getElem?_cons_succ]
        have hk' : k < is.length := by simpa using hk
        exact ih (v.set i x) xs hnd.2 (by simpa using hlen)
          (fun j hj => by simpa using hin j (List.mem_cons_of_mem _ hj)) k hk'

/-- storing `xs` at `0, 1, …, n-1` of a list of length `n` gives `xs` -/
theorem scatter_range (v xs : List Int) (h : xs.length = v.length) : scatter v (List.range v.length) xs = xs := by
  apply List.ext_getElem?
  intro j
  by_cases hj : j < v.length
  · have := scatter_getElem?_mem v (List.range v.length) xs List.nodup_range (by simp [h])
      (fun i hi => by simpa using hi) j (by simpa using hj)
    simpa using this
  · have h1 : (scatter v (List.range v.length) xs).length = v.length := scatter_length _ _ _
    rw [List.getElem?_eq_none (by omega), List.getElem?_eq_none (by omega)]

/-! ### the tree -/

theorem lookup_setVals_self (t : Tree) (p : Path) (s : List Nat) (v v' : List Int)
    (h : t.lookup p = some (.ds s v)) : (setVals t p v').lookup p = some (.ds s v') := by
  induction t with
  | nil => simp at h
  | cons e t ih =>
    obtain ⟨q, o⟩ := e
    simp only [List.lookup_cons] at h
    by_cases hq : p == q
    · have hqp : q = p := (beq_iff_eq.mp hq).symm
      subst hqp
      simp only [hq] at h
      cases h
      simp [setVals, List.lookup_cons]
    · simp only [hq] at h
      have hne : ¬ q = p := fun e => hq (by simp [e])
      have := ih h
      simp only [setVals, hne, if_false, List.lookup_cons, hq]
      exact this

theorem lookup_setVals_other (t : Tree) (p q : Path) (v' : List Int) (hne : q ≠ p) :
    (setVals t p v').lookup q = t.lookup q := by
  induction t with
  | nil => simp [setVals]
  | cons e t ih =>
    obtain ⟨r, o⟩ := e
    simp only [setVals]
    by_cases hr : r = p
    · subst hr
      have hq : (q == r) = false := by simp [hne]
      cases o <;> simp [List.lookup_cons, hq]
    · simp only [hr, if_false, List.lookup_cons, ih]

theorem wf_setVals {t : Tree} {p : Path} {s : List Nat} {v v' : List Int} (wf : WF t)
    (h : t.lookup p = some (.ds s v)) (hl : v'.length = prodN s) : WF (setVals t p v') := by
  induction t with
  | nil => simp at h
  | cons e t ih =>
    obtain ⟨q, o⟩ := e
    simp only [List.lookup_cons] at h
    by_cases hq : p == q
    · have hqp : q = p := (beq_iff_eq.mp hq).symm
      subst hqp
      simp only [hq] at h
      cases h
      intro r s' w hm
      simp only [setVals, if_true, List.mem_cons, Prod.mk.injEq, Obj.ds.injEq] at hm
      rcases hm with ⟨_, rfl, rfl⟩ | hm
      · exact hl
      · exact wf r s' w (List.mem_cons_of_mem _ hm)
    · simp only [hq] at h
      have hne : ¬ q = p := fun e => hq (by simp [e])
      have wft : WF t := fun r s' w hm => wf r s' w (List.mem_cons_of_mem _ hm)
      intro r s' w hm
      simp only [setVals, hne, if_false, List.mem_cons] at hm
      rcases hm with hm | hm
      · exact wf r s' w (by rw [hm]; exact List.mem_cons_self)
      · exact ih wft h r s' w hm

theorem wf_of_lookup {t : Tree} {p : Path} {s : List Nat} {v : List Int} (wf : WF t)
    (h : t.lookup p = some (.ds s v)) : v.length = prodN s := by
  induction t with
  | nil => simp at h
  | cons e t ih =>
    obtain ⟨q, o⟩ := e
    simp only [List.lookup_cons] at h
    by_cases hq : p == q
    · simp only [hq] at h
      cases h
      exact wf q s v List.mem_cons_self
    · simp only [hq] at h
      exact ih (fun r s' w hm => wf r s' w (List.mem_cons_of_mem _ hm)) h

theorem find_setVals_self {t : Tree} {p : Path} {s : List Nat} {v : List Int} (v' : List Int) (hp : p ≠ [])
    (h : find t p = some (.ds s v)) : find (setVals t p v') p = some (.ds s v') := by
  simp only [find, hp, if_false] at h ⊢
  exact lookup_setVals_self t p s v v' h

theorem find_setVals_other (t : Tree) (p q : Path) (v' : List Int) (hne : q ≠ p) :
    find (setVals t p v') q = find t q := by
  simp only [find]
  split
  · rfl
  · exact lookup_setVals_other t p q v' hne

/-- `openDataset` only depends on the path through `splitPath` -/
theorem openDataset_eq {t : Tree} {path : String} {p : Path} {s : List Nat} {v : List Int} :
    openDataset t path = .ok (p, s, v) ↔ (p = splitPath path ∧ p ≠ [] ∧ find t p = some (.ds s v)) := by
  unfold openDataset
  simp only
  by_cases hp : splitPath path = []
  · simp only [hp, if_true]
    constructor
    · intro h; cases h
    · rintro ⟨h1, h2, _⟩; exact absurd h1 h2
  · simp only [hp, if_false]
    constructor
    · intro h
      split at h
      · rename_i s' v' heq
        cases h
        exact ⟨rfl, hp, heq⟩
      · cases h
    · rintro ⟨h1, _, h3⟩
      subst h1
      rw [h3]

/-! ### `createDataset` -/

def keepC (c : String) : Bool := c != "" && c != "."

theorem filter_stripLead (l : List String) : (stripLead l).filter keepC = l.filter keepC := by
  unfold stripLead
  split
  · simp [keepC]
  · rfl

theorem find_append_of_none {t : Tree} {q : Path} {o : Obj} (hq : q ≠ []) (h : find t q = none) :
    find (t ++ [(q, o)]) q = some o := by
  simp only [find, hq, if_false] at h ⊢
  rw [List.lookup_append, h]
  simp

theorem find_append_other {t : Tree} {q r : Path} {o : Obj} (h : find t r ≠ none) :
    find (t ++ [(q, o)]) r = find t r := by
  simp only [find] at h ⊢
  split
  · rfl
  · rename_i hr
    simp only [hr, if_false] at h
    rw [List.lookup_append]
    cases hl : List.lookup r t with
    | none => exact absurd hl h
    | some x => simp

theorem createDs_ok (dims : List Nat) : ∀ (n : Nat) (comps : List String), comps.length ≤ n →
    ∀ (t : Tree) (cur : Path) (t' : Tree) (q : Path), createDs dims t cur comps = (t', .ok q) →
      q = cur ++ comps.filter keepC ∧ comps.filter keepC ≠ [] ∧
      find t' q = some (.ds dims (List.replicate (prodN dims) 0)) ∧
      (∀ r, find t r ≠ none → find t' r = find t r) ∧ (WF t → WF t') := by
  intro n
  induction n with
  | zero =>
    intro comps hl t cur t' q h
    have : comps = [] := List.length_eq_zero_iff.mp (by omega)
    subst this
    rw [createDs] at h
    simp [stripLead] at h
  | succ n ih =>
    intro comps hl t cur t' q h
    rw [createDs] at h
    have hf := filter_stripLead comps
    have hlen := stripLead_length_le comps
    split at h
    · simp at h
    · rename_i name hs
      rw [hs] at hf
      split at h
      · simp at h
      · rename_i hname
        split at h
        · simp at h
        · rename_i hnone
          simp only [Prod.mk.injEq, Res.ok.injEq] at h
          obtain ⟨rfl, rfl⟩ := h
          have hk : keepC name = true := by
            simp only [not_or] at hname
            simp [keepC, hname.1, hname.2]
          have hfil : comps.filter keepC = [name] := by rw [← hf]; simp [hk]
          refine ⟨by rw [hfil], by rw [hfil]; simp, ?_, ?_, ?_⟩
          · exact find_append_of_none (by simp) hnone
          · intro r hr; exact find_append_other hr
          · intro wf p s v hm
            rcases List.mem_append.mp hm with hm | hm
            · exact wf p s v hm
            · simp only [List.mem_singleton, Prod.mk.injEq, Obj.ds.injEq] at hm
              obtain ⟨_, rfl, rfl⟩ := hm
              simp
    · rename_i g r rest hs
      rw [hs] at hf hlen
      simp only [List.length_cons] at hlen
      have hl' : (r :: rest).length ≤ n := by simp only [List.length_cons]; omega
      split at h
      · rename_i hg
        have hk : keepC g = false := by rcases hg with rfl | rfl <;> simp [keepC]
        have := ih (r :: rest) hl' t cur t' q h
        rw [← hf]
        simpa [List.filter_cons, hk] using this
      · rename_i hg
        have hk : keepC g = true := by
          simp only [not_or] at hg
          simp [keepC, hg.1, hg.2]
        have hfil : comps.filter keepC = g :: (r :: rest).filter keepC := by rw [← hf]; simp [List.filter_cons, hk]
        split at h
        · obtain ⟨h1, h2, h3, h4, h5⟩ := ih (r :: rest) hl' t (cur ++ [g]) t' q h
          exact ⟨by rw [hfil, h1]; simp, by rw [hfil]; simp, h3, h4, h5⟩
        · simp at h
        · rename_i hnone
          obtain ⟨h1, h2, h3, h4, h5⟩ := ih (r :: rest) hl' _ (cur ++ [g]) t' q h
          refine ⟨by rw [hfil, h1]; simp, by rw [hfil]; simp, h3, ?_, ?_⟩
          · intro r' hr'
            rw [h4 r' (by rw [find_append_other hr']; exact hr'), find_append_other hr']
          · intro wf
            apply h5
            intro p s v hm
            rcases List.mem_append.mp hm with hm | hm
            · exact wf p s v hm
            · simp at hm

/-! ### shapes, `openOrCreateDataset`, whole-dataset transfers -/

theorem toUint_nonneg {x : Int} (h : 0 ≤ x) : toUint x = x.toNat := by simp [toUint, h]

theorem uintsToInts_intsToUints {l : Idx} (h : ∀ x ∈ l, 0 ≤ x) : uintsToInts (intsToUints l) = l := by
  induction l with
  | nil => rfl
  | cons x xs ih =>
    have hx : 0 ≤ x := h x (by simp)
    simp only [uintsToInts, intsToUints, List.map_cons, List.map_map] at ih ⊢
    rw [ih (fun y hy => h y (List.mem_cons_of_mem _ hy))]
    simp [toUint_nonneg hx, hx]

theorem prodN_intsToUints {l : Idx} (h : ∀ x ∈ l, 0 ≤ x) : (prodN (intsToUints l) : Int) = product l := by
  induction l with
  | nil => simp [intsToUints, prodN, product]
  | cons x xs ih =>
    have hx : 0 ≤ x := h x (by simp)
    simp only [intsToUints, List.map_cons, prodN, product, Nat.cast_mul] at ih ⊢
    rw [ih (fun y hy => h y (List.mem_cons_of_mem _ hy)), toUint_nonneg hx, Int.toNat_of_nonneg hx]

theorem prodN_of_uintsToInts {s : List Nat} {l : Idx} (h : uintsToInts s = l) : (prodN s : Int) = product l := by
  subst h
  induction s with
  | nil => simp [uintsToInts, prodN, product]
  | cons x xs ih => simp only [uintsToInts, List.map_cons, prodN, product, Nat.cast_mul] at ih ⊢; rw [ih]; rfl

/-- what a successful `openOrCreateDataset` establishes -/
theorem openOrCreate_ok {t t1 : Tree} {path : String} {shape : Idx} {p : Path}
    (h : openOrCreate t path shape = (t1, .ok p)) (hpos : ∀ x ∈ shape, 0 ≤ x) :
    p = splitPath path ∧ p ≠ [] ∧ (∃ s v, find t1 p = some (.ds s v) ∧ uintsToInts s = shape) ∧
      (∀ r, find t r ≠ none → find t1 r = find t r) ∧ (WF t → WF t1) := by
  unfold openOrCreate at h
  split at h
  · rename_i p' s v hod
    split at h
    · rename_i hs
      simp only [Prod.mk.injEq, Res.ok.injEq] at h
      obtain ⟨rfl, rfl⟩ := h
      obtain ⟨h1, h2, h3⟩ := openDataset_eq.mp hod
      exact ⟨h1, h2, ⟨s, v, h3, hs⟩, fun _ _ => rfl, id⟩
    · simp at h
  · obtain ⟨h1, h2, h3, h4, h5⟩ := createDs_ok _ _ _ (Nat.le_refl _) _ _ _ _ h
    have hp : p = splitPath path := by rw [h1, List.nil_append]; rfl
    refine ⟨hp, ?_, ⟨_, _, h3, uintsToInts_intsToUints hpos⟩, h4, h5⟩
    rw [h1]; simpa using h2

theorem h5read_all (v : List Int) (s : List Nat) (hv : v.length = prodN s) :
    h5read v s .all (prodN s) (zeroBuf false (prodN s)) = .ok v := by
  simp only [h5read, npoints, selValid, linear_all, zeroBuf]
  simp only [ne_eq, not_true_eq_false, if_false, Bool.not_eq_true, Bool.true_eq_false]
  rw [← hv, map_getD_range]
  simp

theorem load_full {t : Tree} {path : String} {p : Path} {s : List Nat} {v : List Int}
    (hod : openDataset t path = .ok (p, s, v)) (hv : v.length = prodN s) :
    load false (some t) path none = .ok (uintsToInts s, v) := by
  simp only [load, hod, h5read_all v s hv, unpackBuf]
  simp


/-! ### selections -/

theorem walkIdx_eq (lim st : Nat) : ∀ (c fuel x : Nat), (∀ k : Nat, k < c ↔ x + k * st < lim) → c ≤ fuel →
    walkIdx lim st fuel x = (List.range c).map (fun k => x + k * st) := by
  intro c
  induction c with
  | zero =>
    intro fuel x hk _
    have : ¬ x < lim := by have := hk 0; simp at this; omega
    cases fuel <;> simp [walkIdx, this]
  | succ c ih =>
    intro fuel x hk hf
    obtain ⟨f, rfl⟩ : ∃ f, fuel = f + 1 := ⟨fuel - 1, by omega⟩
    have h0 : x < lim := by have := (hk 0).mp (by omega); simpa using this
    have := ih f (x + st) (fun k => by
      have := hk (k + 1)
      constructor
      · intro h; have := this.mp (by omega); rw [Nat.add_mul] at this; omega
      · intro h; have := this.mpr (by rw [Nat.add_mul]; omega); omega) (by omega)
    simp only [walkIdx, h0, if_true, this, List.range_succ_eq_map, List.map_cons, List.map_map]
    simp only [Nat.zero_mul, Nat.add_zero, List.cons.injEq, true_and]
    apply List.map_congr_left
    intro k _
    simp only [Function.comp, Nat.succ_eq_add_one, Nat.add_mul]
    omega

theorem sliceSize_spec (start stop step extent : Int) (hs : 1 ≤ step) :
    ∃ n : Int, sliceSize [start, stop, step] extent = .ok n ∧ 0 ≤ n ∧
      ∀ k : Int, 0 ≤ k → (k < n ↔ start + k * step < min stop extent) := by
  have hs0 : step ≠ 0 := by omega
  have hpos : (0 : Int) < step := by omega
  set d : Int := maxInt 0 (minInt extent stop - minInt extent start) with hd
  have hd0 : 0 ≤ d := by
    simp only [hd, maxInt]; split <;> omega
  refine ⟨(d + step - 1) / step, ?_, ?_, ?_⟩
  · simp only [sliceSize, hs0, if_false]
    rw [Int.tdiv_eq_ediv_of_nonneg (by omega)]
  · exact Int.ediv_nonneg (by omega) (by omega)
  · intro k hk
    have key : k < (d + step - 1) / step ↔ k * step < d := by
      rw [Int.lt_iff_add_one_le, Int.le_ediv_iff_mul_le hpos]
      constructor <;> intro h <;> nlinarith
    rw [key]
    have hks : 0 ≤ k * step := Int.mul_nonneg hk (by omega)
    generalize k * step = q at hks ⊢
    simp only [hd, maxInt, minInt]
    rcases le_total stop extent with h1 | h1 <;> simp only [min_def] <;> split_ifs <;> omega

/-- `sliceSize` in natural numbers, for a non-negative start and a positive step -/
theorem sliceSize_nat (a b st : Int) (e : Nat) (ha : 0 ≤ a) (hs : 1 ≤ st) :
    ∃ c : Nat, sliceSize [a, b, st] (e : Int) = .ok (c : Int) ∧
      ∀ k : Nat, k < c ↔ a.toNat + k * st.toNat < min b.toNat e := by
  obtain ⟨n, h1, h2, h3⟩ := sliceSize_spec a b st e hs
  refine ⟨n.toNat, by rw [h1, Int.toNat_of_nonneg h2], ?_⟩
  intro k
  have := h3 (k : Int) (by omega)
  have hst : ((st.toNat : Nat) : Int) = st := Int.toNat_of_nonneg (by omega)
  have hat : ((a.toNat : Nat) : Int) = a := Int.toNat_of_nonneg ha
  constructor
  · intro hk
    have h4 := this.mp (by omega)
    have : ((a.toNat + k * st.toNat : Nat) : Int) < ((min b.toNat e : Nat) : Int) := by
      push_cast
      rw [hst, hat]
      rcases le_total b 0 with hb | hb
      · simp only [min_def] at h4 ⊢; split_ifs at h4 ⊢ <;> omega
      · rw [Int.toNat_of_nonneg hb]; exact h4
    exact_mod_cast this
  · intro hk
    have h5 : ((a.toNat + k * st.toNat : Nat) : Int) < ((min b.toNat e : Nat) : Int) := by exact_mod_cast hk
    push_cast at h5
    rw [hst, hat] at h5
    have : (k : Int) < n := this.mpr (by
      rcases le_total b 0 with hb | hb
      · have : b.toNat = 0 := Int.toNat_eq_zero.mpr hb
        rw [this] at h5; simp only [min_def] at h5 ⊢; split_ifs at h5 ⊢ <;> omega
      · rw [Int.toNat_of_nonneg hb] at h5; exact h5)
    omega

/-- (offset, stride, count) that `makeHyperslab` must produce for one dimension -/
def triple (e : Nat) (x : SelDim) : Nat × Nat × Nat :=
  match x with
  | none => (0, 1, e)
  | some [a, _, st] => (a.toNat, st.toNat, (specIdx e x).length)
  | some _ => (0, 1, 0)

theorem dimCoords_block1 (o st c : Nat) : dimCoords o st c 1 = (List.range c).map (fun k => o + k * st) := by
  simp only [dimCoords, List.range_one, List.map_cons, List.map_nil, Nat.add_zero]
  induction (List.range c) with
  | nil => rfl
  | cons x xs ih => simp [List.flatMap_cons, ih]

theorem specIdx_some {a b st : Int} {e : Nat} (ha : 0 ≤ a) (hs : 1 ≤ st) :
    ∃ c : Nat, sliceSize [a, b, st] (e : Int) = .ok (c : Int) ∧
      specIdx e (some [a, b, st]) = (List.range c).map (fun k => a.toNat + k * st.toNat) ∧
      (c = 0 ∨ a.toNat + (c - 1) * st.toNat < e) := by
  obtain ⟨c, h1, h2⟩ := sliceSize_nat a b st e ha hs
  have hst : 1 ≤ st.toNat := by omega
  have hce : c ≤ e := by
    rcases Nat.eq_zero_or_pos c with h | h
    · omega
    · have := (h2 (c - 1)).mp (by omega)
      have h3 : (c - 1) * 1 ≤ (c - 1) * st.toNat := Nat.mul_le_mul_left _ hst
      have : min b.toNat e ≤ e := Nat.min_le_right _ _
      omega
  refine ⟨c, h1, ?_, ?_⟩
  · exact walkIdx_eq _ _ c e _ h2 hce
  · rcases Nat.eq_zero_or_pos c with h | h
    · exact Or.inl h
    · right
      have := (h2 (c - 1)).mp (by omega)
      have : min b.toNat e ≤ e := Nat.min_le_right _ _
      omega

theorem triple_spec (e : Nat) (x : SelDim) (hx : SelDimOK x) :
    1 ≤ (triple e x).2.1 ∧
    dimCoords (triple e x).1 (triple e x).2.1 (triple e x).2.2 1 = specIdx e x ∧
    (triple e x).2.2 = (specIdx e x).length ∧
    ((triple e x).2.2 = 0 ∨ dimWithin (triple e x).1 (triple e x).2.1 (triple e x).2.2 1 e = true) ∧
    (∀ (dims : Idx) (i : Nat), dims[i]? = some (e : Int) → slabDim dims i x = .ok (triple e x)) ∧
    (match x with
      | none => (pure (e : Int) : R Int)
      | some sl => sliceSize sl (e : Int)) = .ok (((triple e x).2.2 : Nat) : Int) := by
  match x, hx with
  | none, _ =>
    refine ⟨by simp [triple], ?_, by simp [triple, specIdx], ?_, ?_, by simp [triple, pure, Except.pure]⟩
    · simp [triple, specIdx, dimCoords_block1]
    · simp only [triple, dimWithin]
      rcases Nat.eq_zero_or_pos e with h | h
      · exact Or.inl h
      · right; simp; omega
    · intro dims i hd
      simp [slabDim, hd, triple, toUint]
  | some [a, b, st], ⟨ha, hs⟩ =>
    obtain ⟨c, h1, h2, h3⟩ := specIdx_some (b := b) (e := e) ha hs
    have hlen : (specIdx e (some [a, b, st])).length = c := by rw [h2]; simp
    have ht : triple e (some [a, b, st]) = (a.toNat, st.toNat, c) := by simp only [triple, hlen]
    rw [ht]
    refine ⟨by simp; omega, ?_, hlen.symm, ?_, ?_, h1⟩
    · simp only [dimCoords_block1, h2]
    · rcases h3 with h3 | h3
      · exact Or.inl h3
      · right; simp only [dimWithin]; simp; omega
    · intro dims i hd
      have hst : 0 ≤ st := by omega
      simp [slabDim, hd, h1, bind, Except.bind, pure, Except.pure, toUint, ha, hst]

def trip (sel : Sel) (s : List Nat) : List (Nat × Nat × Nat) := List.zipWith (fun x e => triple e x) sel s

theorem slabDims_eq : ∀ (sel : Sel) (s : List Nat) (pre : Idx), sel.length = s.length → (∀ x ∈ sel, SelDimOK x) →
    slabDims (pre ++ uintsToInts s) pre.length sel = .ok (trip sel s) := by
  intro sel
  induction sel with
  | nil => intro s pre hl _; cases s <;> simp_all [slabDims, trip]
  | cons x xs ih =>
    intro s pre hl hok
    cases s with
    | nil => simp at hl
    | cons e es =>
      have hd : (pre ++ uintsToInts (e :: es))[pre.length]? = some (e : Int) := by
        simp [uintsToInts]
      have h1 := (triple_spec e x (hok x (by simp))).2.2.2.2.1 _ _ hd
      have h2 := ih es (pre ++ [(e : Int)]) (by simpa using hl) (fun y hy => hok y (List.mem_cons_of_mem _ hy))
      have hpre : pre ++ [(e : Int)] ++ uintsToInts es = pre ++ uintsToInts (e :: es) := by
        simp [uintsToInts]
      rw [hpre] at h2
      simp only [List.length_append, List.length_singleton] at h2
      simp only [slabDims, h1, h2, bind, Except.bind, pure, Except.pure, trip, List.zipWith_cons_cons]

theorem newShape_eq : ∀ (sel : Sel) (s : List Nat), sel.length = s.length → (∀ x ∈ sel, SelDimOK x) →
    newShape sel (uintsToInts s) = .ok ((trip sel s).map (fun t => ((t.2.2 : Nat) : Int))) := by
  intro sel
  induction sel with
  | nil => intro s hl _; cases s <;> simp_all [newShape, trip, uintsToInts]
  | cons x xs ih =>
    intro s hl hok
    cases s with
    | nil => simp at hl
    | cons e es =>
      have h1 := (triple_spec e x (hok x (by simp))).2.2.2.2.2
      have h2 := ih es (by simpa using hl) (fun y hy => hok y (List.mem_cons_of_mem _ hy))
      simp only [uintsToInts, List.map_cons] at h2 ⊢
      cases x with
      | none =>
        simp only [pure, Except.pure, Except.ok.injEq] at h1
        simp only [newShape, h2, bind, Except.bind, pure, Except.pure, trip, List.zipWith_cons_cons, List.map_cons]
        rw [← h1]; rfl
      | some sl =>
        have h1' : sliceSize sl (Int.ofNat e) = .ok (((triple e (some sl)).2.2 : Nat) : Int) := h1
        simp only [newShape, h1', h2, bind, Except.bind, pure, Except.pure, trip, List.zipWith_cons_cons, List.map_cons]

theorem zip4_map {α : Type} (l : List α) (f1 f2 f3 f4 : α → Nat) :
    zip4 (l.map f1) (l.map f2) (l.map f3) (l.map f4) = l.map (fun t => (f1 t, f2 t, f3 t, f4 t)) := by
  induction l with
  | nil => rfl
  | cons a l ih => simp [zip4, ih]

theorem trip_length {sel : Sel} {s : List Nat} (h : sel.length = s.length) : (trip sel s).length = s.length := by
  simp [trip, h]

theorem cartesian_of_nil_mem : ∀ (ls : List (List Nat)), [] ∈ ls → cartesian ls = [] := by
  intro ls
  induction ls with
  | nil => intro h; simp at h
  | cons l ls ih =>
    intro h
    rcases List.mem_cons.mp h with h | h
    · subst h; simp [cartesian]
    · simp [cartesian, ih h]

theorem prodN_eq_zero : ∀ (l : List Nat), 0 ∈ l → prodN l = 0 := by
  intro l
  induction l with
  | nil => intro h; simp at h
  | cons x xs ih =>
    intro h
    rcases List.mem_cons.mp h with h | h
    · subst h; simp [prodN]
    · simp [prodN, ih h]

theorem intsToUints_cast (l : List Nat) : intsToUints (l.map (fun c => ((c : Nat) : Int))) = l := by
  induction l with
  | nil => rfl
  | cons x xs ih =>
    simp only [intsToUints, List.map_cons, List.map_map] at ih ⊢
    rw [ih]; simp [toUint]

theorem product_cast (l : List Nat) : product (l.map (fun c => ((c : Nat) : Int))) = (prodN l : Int) := by
  induction l with
  | nil => rfl
  | cons x xs ih => simp only [List.map_cons, product, prodN, ih]; push_cast; rfl

theorem take_self {α} (l : List α) : l.take l.length = l := List.take_length

theorem selIdx_eq_trip : ∀ (sel : Sel) (s : List Nat), sel.length = s.length → (∀ x ∈ sel, SelDimOK x) →
    selIdx sel s = (trip sel s).map (fun t => dimCoords t.1 t.2.1 t.2.2 1) ∧
    (trip sel s).map (·.2.2) = (selIdx sel s).map List.length ∧
    (∀ t ∈ trip sel s, 1 ≤ t.2.1) ∧
    ((∀ t ∈ trip sel s, t.2.2 ≠ 0) →
      (List.zip ((trip sel s).map (fun t => (t.1, t.2.1, t.2.2, 1))) s).all
        (fun (p : (Nat × Nat × Nat × Nat) × Nat) => dimWithin p.1.1 p.1.2.1 p.1.2.2.1 p.1.2.2.2 p.2) = true) := by
  intro sel
  induction sel with
  | nil => intro s hl _; cases s <;> simp_all [selIdx, trip]
  | cons x xs ih =>
    intro s hl hok
    cases s with
    | nil => simp at hl
    | cons e es =>
      obtain ⟨h1, h2, h3, h4, -, -⟩ := triple_spec e x (hok x (by simp))
      obtain ⟨i1, i2, i3, i4⟩ := ih es (by simpa using hl) (fun y hy => hok y (List.mem_cons_of_mem _ hy))
      simp only [selIdx, trip, List.zipWith_cons_cons, List.map_cons] at i1 i2 i3 i4 ⊢
      refine ⟨by rw [h2, i1], by rw [h3, i2], ?_, ?_⟩
      · intro t ht
        rcases List.mem_cons.mp ht with rfl | ht
        · exact h1
        · exact i3 t ht
      · intro hnz
        simp only [List.zip_cons_cons, List.all_cons, Bool.and_eq_true]
        refine ⟨?_, i4 (fun t ht => hnz t (List.mem_cons_of_mem _ ht))⟩
        rcases h4 with h4 | h4
        · exact absurd h4 (hnz _ List.mem_cons_self)
        · exact h4

/-- `loadSubset` on a dataset `(s, v)` with a well-formed selection -/
theorem loadSubset_spec (sel : Sel) (s : List Nat) (v : List Int) (hl : sel.length = s.length) (hne : sel ≠ [])
    (hok : ∀ x ∈ sel, SelDimOK x) :
    loadSubset false sel s v =
      .ok ((selIdx sel s).map (fun l => ((l.length : Nat) : Int)),
           (cartesian (selIdx sel s)).map (fun c => v.getD (ravelN c s) 0)) := by
  obtain ⟨hidx, hcnt, hstr, hval⟩ := selIdx_eq_trip sel s hl hok
  generalize hldef : trip sel s = l at hidx hcnt hstr hval
  have hll : l.length = s.length := by rw [← hldef]; exact trip_length hl
  have hlpos : l.length ≠ 0 := by
    rw [hll, ← hl]; exact fun h => hne (List.length_eq_zero_iff.mp h)
  -- makeHyperslab, SelectHyperslab, the new shape
  have hmk : makeHyperslab sel (uintsToInts s) = .ok
      { offset := l.map (·.1), stride := l.map (·.2.1), count := l.map (·.2.2), block := l.map (fun _ => 1) } := by
    have := slabDims_eq sel s [] hl hok
    simp only [List.nil_append, List.length_nil] at this
    simp only [makeHyperslab, this, bind, Except.bind, pure, Except.pure, hldef]
  have hns := newShape_eq sel s hl hok
  rw [hldef] at hns
  have hns' : l.map (fun t => ((t.2.2 : Nat) : Int)) = (l.map (fun t => t.2.2)).map (fun c => ((c : Nat) : Int)) := by
    rw [List.map_map]; rfl
  have hsel : selectHyperslab s .all (l.map (·.1)) (l.map (·.2.1)) (l.map (·.2.2)) (l.map (fun _ => 1)) =
      .ok (if (l.map (·.2.2)).any (· == 0) = true then Selection.none
           else .hyper (l.map (·.1)) (l.map (·.2.1)) (l.map (·.2.2)) (l.map (fun _ => 1))) := by
    unfold selectHyperslab
    have ht : ∀ (f : (Nat × Nat × Nat) → Nat), (l.map f).take l.length = l.map f := by
      intro f; have := take_self (l.map f); simpa using this
    have h1 : (l.map (·.2.1)).any (· == 0) = false := by
      rw [List.any_eq_false]
      intro x hx
      obtain ⟨t, ht', rfl⟩ := List.mem_map.mp hx
      have := hstr t ht'
      simp; omega
    have h2 : (zip4 (l.map (·.1)) (l.map (·.2.1)) (l.map (·.2.2)) (l.map (fun _ => 1))).any
        (fun (_, s, c, b) => decide (c > 1) && decide (s < b)) = false := by
      rw [zip4_map, List.any_eq_false]
      intro x hx
      obtain ⟨t, ht', rfl⟩ := List.mem_map.mp hx
      have := hstr t ht'
      simp; omega
    have h3 : (l.map (fun _ => 1)).any (· == 0) = false := by
      rw [List.any_eq_false]
      intro x hx
      obtain ⟨t, _, rfl⟩ := List.mem_map.mp hx
      simp
    simp only [List.length_map]
    rw [if_neg hlpos, if_neg (by rw [hll]; simp), if_neg (by omega)]
    simp only [ht, h1, h2, h3, Bool.false_eq_true, if_false, Bool.or_false]
    split <;> rfl
  unfold loadSubset
  simp only [hmk, hsel, hns]
  have hprod : product (l.map (fun t => ((t.2.2 : Nat) : Int))) = (prodN (l.map (·.2.2)) : Int) := by
    rw [hns', product_cast]
  have hnn : ¬ product (l.map (fun t => ((t.2.2 : Nat) : Int))) < 0 := by rw [hprod]; omega
  simp only [hnn, if_false]
  have hu : intsToUints (l.map (fun t => ((t.2.2 : Nat) : Int))) = l.map (·.2.2) := by
    rw [hns', intsToUints_cast]
  rw [hu, hprod, Int.toNat_natCast]
  have hshape : l.map (fun t => ((t.2.2 : Nat) : Int)) = (selIdx sel s).map (fun l => ((l.length : Nat) : Int)) := by
    rw [hns', hcnt, List.map_map]; rfl
  by_cases hz : (l.map (·.2.2)).any (· == 0) = true
  · -- some dimension selects nothing
    simp only [hz, if_true]
    have h0 : 0 ∈ l.map (·.2.2) := by
      obtain ⟨x, hx, hx0⟩ := List.any_eq_true.mp hz
      have : x = 0 := by simpa using hx0
      rw [← this]; exact hx
    have hp0 : prodN (l.map (·.2.2)) = 0 := prodN_eq_zero _ h0
    have hnil : cartesian (selIdx sel s) = [] := by
      apply cartesian_of_nil_mem
      rw [hcnt] at h0
      obtain ⟨x, hx, hx0⟩ := List.mem_map.mp h0
      have : x = [] := List.length_eq_zero_iff.mp hx0
      rw [← this]; exact hx
    simp [h5read, npoints, selValid, linear, hp0, zeroBuf, unpackBuf, hnil, hshape]
  · -- a proper hyperslab
    simp only [hz, Bool.false_eq_true, if_false]
    have hz' : ∀ t ∈ l, t.2.2 ≠ 0 := by
      intro t ht h0
      apply hz
      rw [List.any_eq_true]
      exact ⟨t.2.2, List.mem_map.mpr ⟨t, ht, rfl⟩, by simp [h0]⟩
    have hnp : npoints s (.hyper (l.map (·.1)) (l.map (·.2.1)) (l.map (·.2.2)) (l.map (fun _ => 1))) =
        prodN (l.map (·.2.2)) := by
      simp only [npoints]
      congr 1
      rw [List.zip_map', List.map_map]
      apply List.map_congr_left
      intro t _
      simp
    have hvalid : selValid s (.hyper (l.map (·.1)) (l.map (·.2.1)) (l.map (·.2.2)) (l.map (fun _ => 1))) = true := by
      simp only [selValid, zip4_map]
      exact hval hz'
    have hlin : linear s (.hyper (l.map (·.1)) (l.map (·.2.1)) (l.map (·.2.2)) (l.map (fun _ => 1))) =
        (cartesian (selIdx sel s)).map (ravelN · s) := by
      simp only [linear, selCoords, zip4_map, List.map_map, hidx]
      rfl
    simp only [h5read, hnp, ne_eq, not_true_eq_false, if_false, hvalid, Bool.not_eq_true, Bool.true_eq_false,
      hlin, List.map_map, zeroBuf, unpackBuf, Bool.false_eq_true, List.drop_replicate, Nat.sub_self,
      List.replicate_zero, List.append_nil, hshape]
    rfl

/-! ### blocks -/

/-- per dimension, the coordinates of the block -/
def blockCoords : List Nat → List Nat → List (List Nat)
  | l :: ls, d :: ds => (List.range d).map (l + ·) :: blockCoords ls ds
  | _, _ => []

theorem cartesian_length (ls : List (List Nat)) : (cartesian ls).length = prodN (ls.map List.length) := by
  induction ls with
  | nil => rfl
  | cons l ls ih =>
    simp only [cartesian, List.map_cons, prodN, List.length_flatMap, List.length_map, ih]
    induction l with
    | nil => simp
    | cons x xs ihx => simp [List.sum_cons, Nat.succ_mul, Nat.add_comm]

theorem ravelN_lt : ∀ (c s : List Nat), CoordIn c s → ravelN c s < prodN s := by
  intro c
  induction c with
  | nil => intro s h; cases s <;> simp_all [CoordIn, ravelN, prodN]
  | cons x xs ih =>
    intro s h
    cases s with
    | nil => simp [CoordIn] at h
    | cons e es =>
      obtain ⟨h1, h2⟩ := h
      have := ih es h2
      simp only [ravelN, prodN]
      calc x * prodN es + ravelN xs es < x * prodN es + prodN es := by omega
        _ = (x + 1) * prodN es := by ring
        _ ≤ e * prodN es := Nat.mul_le_mul_right _ h1

theorem ravelN_inj : ∀ (c c' s : List Nat), CoordIn c s → CoordIn c' s → ravelN c s = ravelN c' s → c = c' := by
  intro c
  induction c with
  | nil =>
    intro c' s h h' _
    cases s with
    | nil => cases c' <;> simp_all [CoordIn]
    | cons e es => simp [CoordIn] at h
  | cons x xs ih =>
    intro c' s h h' heq
    cases s with
    | nil => simp [CoordIn] at h
    | cons e es =>
      cases c' with
      | nil => simp [CoordIn] at h'
      | cons y ys =>
        obtain ⟨h1, h2⟩ := h
        obtain ⟨h1', h2'⟩ := h'
        simp only [ravelN] at heq
        have b1 := ravelN_lt xs es h2
        have b2 := ravelN_lt ys es h2'
        have hxy : x = y := by
          by_contra hne
          rcases Nat.lt_or_gt_of_ne hne with hlt | hlt
          · have : (x + 1) * prodN es ≤ y * prodN es := Nat.mul_le_mul_right _ hlt
            rw [Nat.add_mul] at this; omega
          · have : (y + 1) * prodN es ≤ x * prodN es := Nat.mul_le_mul_right _ hlt
            rw [Nat.add_mul] at this; omega
        subst hxy
        have : ravelN xs es = ravelN ys es := by omega
        rw [ih ys es h2 h2' this]

theorem mem_cartesian : ∀ (ls : List (List Nat)) (c : List Nat),
    c ∈ cartesian ls ↔ List.Forall₂ (fun x l => x ∈ l) c ls := by
  intro ls
  induction ls with
  | nil => intro c; simp [cartesian]
  | cons l ls ih =>
    intro c
    simp only [cartesian, List.mem_flatMap, List.mem_map]
    constructor
    · rintro ⟨x, hx, c', hc', rfl⟩
      exact List.Forall₂.cons hx ((ih c').mp hc')
    · intro h
      cases h with
      | cons hx hr => exact ⟨_, hx, _, (ih _).mpr hr, rfl⟩

theorem nodup_cartesian : ∀ (ls : List (List Nat)), (∀ l ∈ ls, l.Nodup) → (cartesian ls).Nodup := by
  intro ls
  induction ls with
  | nil => intro _; simp [cartesian]
  | cons l ls ih =>
    intro h
    have hl : l.Nodup := h l (by simp)
    have hr := ih (fun m hm => h m (List.mem_cons_of_mem _ hm))
    simp only [cartesian]
    rw [List.nodup_flatMap]
    refine ⟨fun x _ => hr.map (fun a b hab => by simpa using hab), ?_⟩
    apply List.Pairwise.imp_of_mem _ hl
    intro a b _ _ hab
    simp only [Function.onFun]
    intro c hc1 hc2
    obtain ⟨_, _, rfl⟩ := List.mem_map.mp hc1
    obtain ⟨_, _, h2⟩ := List.mem_map.mp hc2
    simp only [List.cons.injEq] at h2
    exact hab h2.1.symm

theorem flatMap_getElem?_uniform {α β : Type} (f : α → List β) (P : Nat) : ∀ (l : List α),
    (∀ x ∈ l, (f x).length = P) → ∀ (i r : Nat) (hi : i < l.length), r < P →
      (l.flatMap f)[i * P + r]? = (f l[i])[r]? := by
  intro l
  induction l with
  | nil => intro _ i r hi; simp at hi
  | cons x xs ih =>
    intro hP i r hi hr
    have hx : (f x).length = P := hP x (by simp)
    simp only [List.flatMap_cons]
    cases i with
    | zero =>
      simp only [Nat.zero_mul, Nat.zero_add, List.getElem_cons_zero]
      rw [List.getElem?_append_left (by omega)]
    | succ j =>
      have : (j + 1) * P + r = (f x).length + (j * P + r) := by rw [hx]; ring
      rw [this, List.getElem?_append_right (by omega)]
      simp only [Nat.add_sub_cancel_left, List.getElem_cons_succ]
      exact ih (fun y hy => hP y (List.mem_cons_of_mem _ hy)) j r (by simpa using hi) hr

theorem blockCoords_lengths : ∀ (os ns : List Nat), os.length = ns.length →
    (blockCoords os ns).map List.length = ns := by
  intro os
  induction os with
  | nil => intro ns h; cases ns <;> simp_all [blockCoords]
  | cons o os ih =>
    intro ns h
    cases ns with
    | nil => simp at h
    | cons n ns => simp [blockCoords, ih ns (by simpa using h)]

theorem cartesian_block_getElem? : ∀ (os ns i : List Nat), os.length = ns.length → CoordIn i ns →
    (cartesian (blockCoords os ns))[ravelN i ns]? = some (List.zipWith (· + ·) os i) := by
  intro os
  induction os with
  | nil =>
    intro ns i h hi
    cases ns with
    | nil => cases i <;> simp_all [CoordIn, blockCoords, cartesian, ravelN]
    | cons n ns => simp at h
  | cons o os ih =>
    intro ns i h hi
    cases ns with
    | nil => simp at h
    | cons n ns =>
      cases i with
      | nil => simp [CoordIn] at hi
      | cons i0 is =>
        obtain ⟨h0, hr⟩ := hi
        have hlen : os.length = ns.length := by simpa using h
        have hP : (cartesian (blockCoords os ns)).length = prodN ns := by
          rw [cartesian_length, blockCoords_lengths os ns hlen]
        simp only [blockCoords, cartesian, ravelN]
        rw [flatMap_getElem?_uniform _ (prodN ns) _ (by intro x _; simp [hP]) i0 (ravelN is ns) (by simpa using h0)
          (ravelN_lt is ns hr)]
        simp [ih ns is hlen hr]

theorem nodup_blockCoords : ∀ (os ns : List Nat), ∀ l ∈ blockCoords os ns, l.Nodup := by
  intro os
  induction os with
  | nil => intro ns l h; simp [blockCoords] at h
  | cons o os ih =>
    intro ns l h
    cases ns with
    | nil => simp [blockCoords] at h
    | cons n ns =>
      simp only [blockCoords, List.mem_cons] at h
      rcases h with rfl | h
      · exact List.nodup_range.map (fun a b hab => by simpa using hab)
      · exact ih ns l h

/-- membership in the block, coordinate by coordinate -/
theorem forall₂_blockCoords : ∀ (c os ns es : List Nat), BlockIn os ns es →
    (List.Forall₂ (fun x l => x ∈ l) c (blockCoords os ns) ↔ (c.length = os.length ∧ inBlock c os ns = true)) := by
  intro c
  induction c with
  | nil =>
    intro os ns es hb
    cases os <;> cases ns <;> cases es <;> simp_all [BlockIn, blockCoords, inBlock]
  | cons x xs ih =>
    intro os ns es hb
    cases os with
    | nil => cases ns <;> cases es <;> simp_all [BlockIn, blockCoords, inBlock]
    | cons o os =>
      cases ns with
      | nil => simp [BlockIn] at hb
      | cons n ns =>
        cases es with
        | nil => simp [BlockIn] at hb
        | cons e es =>
          obtain ⟨_, hb'⟩ := hb
          simp only [blockCoords, List.forall₂_cons, ih os ns es hb', inBlock, List.length_cons, List.mem_map,
            List.mem_range, Bool.and_eq_true, decide_eq_true_eq]
          constructor
          · rintro ⟨⟨k, hk, rfl⟩, h2, h3⟩
            exact ⟨by omega, ⟨by omega, by omega⟩, h3⟩
          · rintro ⟨h1, ⟨h2, h3⟩, h4⟩
            exact ⟨⟨x - o, by omega, by omega⟩, by omega, h4⟩

theorem coordIn_of_inBlock : ∀ (c os ns es : List Nat), BlockIn os ns es → inBlock c os ns = true → CoordIn c es := by
  intro c
  induction c with
  | nil => intro os ns es hb h; cases os <;> cases ns <;> cases es <;> simp_all [BlockIn, inBlock, CoordIn]
  | cons x xs ih =>
    intro os ns es hb h
    cases os with
    | nil => simp [inBlock] at h
    | cons o os =>
      cases ns with
      | nil => simp [inBlock] at h
      | cons n ns =>
        cases es with
        | nil => simp [BlockIn] at hb
        | cons e es =>
          simp only [inBlock, Bool.and_eq_true, decide_eq_true_eq] at h
          exact ⟨by have := hb.1; omega, ih os ns es hb.2 h.2⟩

theorem sub_in_dims : ∀ (c os ns : List Nat), inBlock c os ns = true →
    CoordIn (List.zipWith (· - ·) c os) ns ∧ List.zipWith (· + ·) os (List.zipWith (· - ·) c os) = c := by
  intro c
  induction c with
  | nil => intro os ns h; cases os <;> cases ns <;> simp_all [inBlock, CoordIn]
  | cons x xs ih =>
    intro os ns h
    cases os with
    | nil => simp [inBlock] at h
    | cons o os =>
      cases ns with
      | nil => simp [inBlock] at h
      | cons n ns =>
        simp only [inBlock, Bool.and_eq_true, decide_eq_true_eq] at h
        obtain ⟨h1, h2⟩ := ih os ns h.2
        simp only [List.zipWith_cons_cons, CoordIn, h2]
        exact ⟨⟨by omega, h1⟩, by congr 1; omega⟩

theorem dimCoords_one (l d : Nat) : dimCoords l 1 1 d = (List.range d).map (l + ·) := by
  simp [dimCoords, List.range_one]

theorem selCoords_block : ∀ (ln dn : List Nat), ln.length = dn.length →
    (zip4 ln (List.replicate ln.length 1) (List.replicate ln.length 1) dn).map
      (fun (p : Nat × Nat × Nat × Nat) => dimCoords p.1 p.2.1 p.2.2.1 p.2.2.2) = blockCoords ln dn := by
  intro ln
  induction ln with
  | nil => intro dn h; cases dn <;> simp_all [zip4, blockCoords]
  | cons l ls ih =>
    intro dn h
    cases dn with
    | nil => simp at h
    | cons d ds =>
      simp only [List.length_cons, List.replicate_succ, zip4, List.map_cons, blockCoords, dimCoords_one]
      rw [ih ds (by simpa using h)]

theorem valid_block : ∀ (ln dn es : List Nat), BlockIn ln dn es → (∀ d ∈ dn, 1 ≤ d) →
    (List.zip (zip4 ln (List.replicate ln.length 1) (List.replicate ln.length 1) dn) es).all
      (fun (p : (Nat × Nat × Nat × Nat) × Nat) => dimWithin p.1.1 p.1.2.1 p.1.2.2.1 p.1.2.2.2 p.2) = true := by
  intro ln
  induction ln with
  | nil => intro dn es h _; cases dn <;> cases es <;> simp_all [BlockIn, zip4]
  | cons l ls ih =>
    intro dn es h hp
    cases dn with
    | nil => simp [BlockIn] at h
    | cons d ds =>
      cases es with
      | nil => simp [BlockIn] at h
      | cons e es =>
        have hd := hp d (by simp)
        simp only [List.length_cons, List.replicate_succ, zip4, List.zip_cons_cons, List.all_cons, Bool.and_eq_true]
        refine ⟨?_, ih ds es h.2 (fun x hx => hp x (List.mem_cons_of_mem _ hx))⟩
        simp only [dimWithin, decide_eq_true_eq]
        have := h.1
        omega

theorem blockIn_lengths : ∀ (ln dn es : List Nat), BlockIn ln dn es → ln.length = es.length ∧ dn.length = es.length := by
  intro ln
  induction ln with
  | nil => intro dn es h; cases dn <;> cases es <;> simp_all [BlockIn]
  | cons l ls ih =>
    intro dn es h
    cases dn with
    | nil => simp [BlockIn] at h
    | cons d ds =>
      cases es with
      | nil => simp [BlockIn] at h
      | cons e es => have := ih ds es h.2; simp [this.1, this.2]

/-- H5Dwrite of `vals` to the block `ln + [0, dn)` of a dataset `(s, v)` -/
theorem h5write_block (s ln dn : List Nat) (v vals : List Int) (hb : BlockIn ln dn s) (hpos : ∀ d ∈ dn, 1 ≤ d)
    (hv : v.length = prodN s) (hvals : vals.length = prodN dn) :
    ∃ v', h5write v s (.hyper ln (List.replicate ln.length 1) (List.replicate ln.length 1) dn) (prodN dn) vals = .ok v' ∧
      v'.length = v.length ∧
      ∀ c, CoordIn c s → v'[ravelN c s]? =
        if inBlock c ln dn = true then vals[ravelN (List.zipWith (· - ·) c ln) dn]? else v[ravelN c s]? := by
  obtain ⟨hl1, hl2⟩ := blockIn_lengths ln dn s hb
  have hlen : ln.length = dn.length := by omega
  set idxs := (cartesian (blockCoords ln dn)).map (ravelN · s) with hidx
  have hnp : npoints s (.hyper ln (List.replicate ln.length 1) (List.replicate ln.length 1) dn) = prodN dn := by
    simp only [npoints]
    congr 1
    clear hidx idxs hvals hv hb hpos hl1 hl2
    induction ln generalizing dn with
    | nil => cases dn <;> simp_all
    | cons l ls ih =>
      cases dn with
      | nil => simp at hlen
      | cons d ds =>
        simp only [List.length_cons, List.replicate_succ, List.zip_cons_cons, List.map_cons, Nat.one_mul]
        rw [ih ds (by simpa using hlen)]
  have hvalid : selValid s (.hyper ln (List.replicate ln.length 1) (List.replicate ln.length 1) dn) = true := by
    simp only [selValid]; exact valid_block ln dn s hb hpos
  have hlin : linear s (.hyper ln (List.replicate ln.length 1) (List.replicate ln.length 1) dn) = idxs := by
    simp only [linear, selCoords, hidx]
    rw [← selCoords_block ln dn hlen]
  have hmem : ∀ c, c ∈ cartesian (blockCoords ln dn) ↔ (c.length = ln.length ∧ inBlock c ln dn = true) := by
    intro c; rw [mem_cartesian, forall₂_blockCoords c ln dn s hb]
  have hin : ∀ c ∈ cartesian (blockCoords ln dn), CoordIn c s := by
    intro c hc; exact coordIn_of_inBlock c ln dn s hb ((hmem c).mp hc).2
  have hnd : idxs.Nodup := by
    apply List.Nodup.map_on _ (nodup_cartesian _ (nodup_blockCoords ln dn))
    intro c1 h1 c2 h2 heq
    exact ravelN_inj c1 c2 s (hin c1 h1) (hin c2 h2) heq
  have hil : idxs.length = prodN dn := by
    simp only [hidx, List.length_map, cartesian_length, blockCoords_lengths ln dn hlen]
  have hib : ∀ i ∈ idxs, i < v.length := by
    intro i hi
    obtain ⟨c, hc, rfl⟩ := List.mem_map.mp hi
    rw [hv]; exact ravelN_lt c s (hin c hc)
  refine ⟨scatter v idxs vals, ?_, scatter_length _ _ _, ?_⟩
  · simp only [h5write, hnp, ne_eq, not_true_eq_false, if_false, hvalid, hlin]
  · intro c hc
    by_cases hbk : inBlock c ln dn = true
    · simp only [hbk, if_true]
      obtain ⟨hsub, hadd⟩ := sub_in_dims c ln dn hbk
      have hk := ravelN_lt _ _ hsub
      have hget := cartesian_block_getElem? ln dn _ hlen hsub
      rw [hadd] at hget
      have hk' : ravelN (List.zipWith (· - ·) c ln) dn < idxs.length := by rw [hil]; exact hk
      have hidk : idxs[ravelN (List.zipWith (· - ·) c ln) dn] = ravelN c s := by
        have : idxs[ravelN (List.zipWith (· - ·) c ln) dn]? = some (ravelN c s) := by
          simp only [hidx, List.getElem?_map, hget, Option.map_some]
        rw [List.getElem?_eq_getElem hk'] at this
        exact Option.some.inj this
      have := scatter_getElem?_mem v idxs vals hnd (by omega) hib _ hk'
      rw [hidk] at this
      exact this
    · simp only [hbk, Bool.false_eq_true, if_false]
      apply scatter_getElem?_not_mem
      intro hmem'
      obtain ⟨c', hc', heq⟩ := List.mem_map.mp hmem'
      have : c' = c := ravelN_inj c' c s (hin c' hc') hc heq
      subst this
      exact hbk ((hmem c').mp hc').2

theorem zip4_replicate_mem : ∀ (n : Nat) (ln dn : List Nat) (x : Nat × Nat × Nat × Nat),
    x ∈ zip4 ln (List.replicate n 1) (List.replicate n 1) dn → x.2.1 = 1 ∧ x.2.2.1 = 1 := by
  intro n
  induction n with
  | zero => intro ln dn x hx; cases ln <;> simp [zip4] at hx
  | succ n ih =>
    intro ln dn x hx
    cases ln with
    | nil => simp [zip4] at hx
    | cons l ls =>
      cases dn with
      | nil => simp [List.replicate_succ, zip4] at hx
      | cons d ds =>
        simp only [List.replicate_succ, zip4, List.mem_cons] at hx
        rcases hx with rfl | hx
        · exact ⟨rfl, rfl⟩
        · exact ih ls ds x hx

end OW.Proofs.C08H5
