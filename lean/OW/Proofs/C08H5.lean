import OW.Sim.H5
import Mathlib.Tactic.Ring
import Mathlib.Tactic.Linarith
import Mathlib.Data.List.Range
/-!
Helper lemmas for the C08 theorems about the abstract HDF5 file (`OW/Sim/H5.lean`): row-major enumeration,
sequential stores, path bookkeeping.
-/
namespace OW.Proofs.C08H5
open OW.Nd OW.Sim.H5

/-! ### `linear dims .all` is `0, 1, …, Π dims - 1` -/

theorem flatMap_range_mul (d P : Nat) :
    (List.range d).flatMap (fun x => (List.range P).map (fun r => x * P + r)) = List.range (d * P) := by
  induction d with
  | zero => simp
  | succ d ih =>
    rw [List.range_succ, List.flatMap_append, ih, Nat.succ_mul, List.range_add]
    simp

theorem linear_all (s : List Nat) : linear s .all = List.range (prodN s) := by
  unfold linear
  simp only [selCoords]
  induction s with
  | nil => simp [cartesian, ravelN, prodN]
  | cons d ds ih =>
    simp only [List.map_cons, cartesian, prodN, List.map_flatMap, List.map_map]
    rw [← flatMap_range_mul]
    congr 1
    funext x
    rw [← ih, List.map_map]
    simp [Function.comp_def, ravelN]

theorem map_getD_range (v : List Int) : (List.range v.length).map (fun i => v.getD i 0) = v := by
  apply List.ext_getElem
  · simp
  · intro i h1 h2
    simp at h1
    simp [List.getD_eq_getElem?_getD, h1]

/-! ### sequential stores -/

theorem scatter_length (v : List Int) : ∀ (is : List Nat) (xs : List Int), (scatter v is xs).length = v.length := by
  intro is
  induction is generalizing v with
  | nil => intro xs; simp [scatter]
  | cons i is ih =>
    intro xs
    cases xs with
    | nil => simp [scatter]
    | cons x xs => simp [scatter, ih]

/-- positions that are not stored to keep their value -/
theorem scatter_getElem?_not_mem (v : List Int) : ∀ (is : List Nat) (xs : List Int) (j : Nat), j ∉ is →
    (scatter v is xs)[j]? = v[j]? := by
  intro is
  induction is generalizing v with
  | nil => intro xs j _; simp [scatter]
  | cons i is ih =>
    intro xs j hj
    cases xs with
    | nil => simp [scatter]
    | cons x xs =>
      simp only [List.mem_cons, not_or] at hj
      simp only [scatter]
      rw [ih _ xs j hj.2, List.getElem?_set_ne (Ne.symm hj.1)]

/-- with distinct in-range positions, position `is[k]` receives `xs[k]` -/
theorem scatter_getElem?_mem (v : List Int) : ∀ (is : List Nat) (xs : List Int), is.Nodup → is.length ≤ xs.length →
    (∀ i ∈ is, i < v.length) → ∀ (k : Nat) (hk : k < is.length), (scatter v is xs)[is[k]]? = xs[k]? := by
  intro is
  induction is generalizing v with
  | nil => intro xs _ _ _ k hk; simp at hk
  | cons i is ih =>
    intro xs hnd hlen hin k hk
    cases xs with
    | nil => simp at hlen
    | cons x xs =>
      simp only [scatter]
      rw [List.nodup_cons] at hnd
      cases k with
      | zero =>
        simp only [List.getElem_cons_zero, List.getElem?_cons_zero]
        rw [scatter_getElem?_not_mem _ is xs i hnd.1]
        simp [hin i (by simp)]
      | succ k =>
        simp only [List.getElem_cons_succ, List.getElem?_cons_succ]
        have hk' : k < is.length := by simpa using hk
        exact ih (v.set i x) xs hnd.2 (by simpa using hlen)
          (fun j hj => by simpa using hin j (List.mem_cons_of_mem _ hj)) k hk'

/-- storing `xs` at `0, 1, …, n-1` of a list of length `n` gives `xs` -/
theorem scatter_range (v xs : List Int) (h : xs.length = v.length) : scatter v (List.range v.length) xs = xs := by
  apply List.ext_getElem?
  intro j
  by_cases hj : j < v.length
  · have := scatter_getElem?_mem v (List.range v.length) xs List.nodup_range (by simp [h])
      (fun i hi => by simpa using hi) j (by simpa using hj)
    simpa using this
  · have h1 : (scatter v (List.range v.length) xs).length = v.length := scatter_length _ _ _
    rw [List.getElem?_eq_none (by omega), List.getElem?_eq_none (by omega)]

end OW.Proofs.C08H5
