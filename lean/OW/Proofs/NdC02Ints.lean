import OW.Nd.WF
import Mathlib.Tactic.Ring
import Mathlib.Tactic.Linarith
/-!
Helper lemmas for C02, Part A: the integer index helpers of `OW/Nd/Ints.lean`
(`product`, `offsets`, `idivmod`, `increment`, `multiply`, `dotProduct`, `maximum`, `argmax`)
and the mixed-radix bijection `ravel`/`unravel`.
-/
namespace OW.NdC02
open OW.Nd

/-! ### product -/

theorem foldl_mul_eq (ix : Idx) (a : Int) : ix.foldl (· * ·) a = a * product ix := by
  induction ix generalizing a with
  | nil => simp [product]
  | cons x xs ih => simp only [List.foldl_cons, ih, product]; ring

theorem pos_tail {x : Int} {xs : Idx} (h : Pos (x :: xs)) : Pos xs :=
  fun y hy => h y (List.mem_cons_of_mem _ hy)

theorem pos_head {x : Int} {xs : Idx} (h : Pos (x :: xs)) : 1 ≤ x :=
  h x (List.mem_cons_self)

theorem pos_cons {x : Int} {xs : Idx} (hx : 1 ≤ x) (h : Pos xs) : Pos (x :: xs) := by
  intro y hy
  rcases List.mem_cons.mp hy with rfl | hy
  · exact hx
  · exact h y hy

theorem product_pos {l : Idx} (h : Pos l) : 1 ≤ product l := by
  induction l with
  | nil => simp [product]
  | cons x xs ih =>
    have hx := (pos_head h)
    have hp := ih (pos_tail h)
    simp only [product]
    nlinarith

@[simp] theorem product_nil : product [] = 1 := rfl
@[simp] theorem product_cons (x : Int) (xs : Idx) : product (x :: xs) = x * product xs := rfl

theorem product_append (a b : Idx) : product (a ++ b) = product a * product b := by
  induction a with
  | nil => simp
  | cons x xs ih => simp [ih, Int.mul_assoc]

/-! ### offsets -/

theorem offsetsT_cons (d : Int) (ds : Idx) : offsetsT (d :: ds) = product ds :: offsetsT ds := by
  induction ds generalizing d with
  | nil => rfl
  | cons d2 rest ih =>
    simp only [offsetsT, ih d2, List.headD_cons, product_cons]
    rw [Int.mul_comm]

theorem offsetsT_length (ds : Idx) : (offsetsT ds).length = ds.length := by
  induction ds with
  | nil => rfl
  | cons d ds ih => simp [offsetsT_cons, ih]

theorem offsetsT_getElem? (ds : Idx) (i : Nat) (hi : i < ds.length) :
    (offsetsT ds)[i]? = some (product (ds.drop (i + 1))) := by
  induction ds generalizing i with
  | nil => simp at hi
  | cons d ds ih =>
    rw [offsetsT_cons]
    cases i with
    | zero => simp
    | succ j =>
      simp only [List.length_cons, Nat.add_lt_add_iff_right] at hi
      simp [ih j hi]

theorem offsets_ok {ds : Idx} (h : ds ≠ []) : offsets ds = .ok (offsetsT ds) := by
  cases ds with
  | nil => exact absurd rfl h
  | cons d ds => rfl

theorem offsets_nil : offsets [] = (oob : R Idx) := rfl

/-! ### ravel / unravel -/

theorem inBounds_length {i d : Idx} (h : InBounds i d) : i.length = d.length := by
  induction i generalizing d with
  | nil => cases d with
    | nil => rfl
    | cons _ _ => exact absurd h (by simp [InBounds])
  | cons x xs ih => cases d with
    | nil => exact absurd h (by simp [InBounds])
    | cons y ys => simp only [InBounds] at h; simp [ih h.2.2]

theorem inBounds_pos {i d : Idx} (h : InBounds i d) : Pos d := by
  induction i generalizing d with
  | nil => cases d with
    | nil => intro x hx; simp at hx
    | cons _ _ => exact absurd h (by simp [InBounds])
  | cons x xs ih => cases d with
    | nil => exact absurd h (by simp [InBounds])
    | cons y ys =>
      simp only [InBounds] at h
      exact pos_cons (by omega) (ih h.2.2)

theorem ravel_bounds {i d : Idx} (h : InBounds i d) : 0 ≤ ravel i d ∧ ravel i d < product d := by
  induction i generalizing d with
  | nil => cases d with
    | nil => simp [ravel]
    | cons _ _ => exact absurd h (by simp [InBounds])
  | cons x xs ih => cases d with
    | nil => exact absurd h (by simp [InBounds])
    | cons y ys =>
      simp only [InBounds] at h
      obtain ⟨h0, h1, h2⟩ := h
      have ⟨r0, r1⟩ := ih h2
      have hp := product_pos (inBounds_pos h2)
      simp only [ravel, product_cons]
      constructor
      · have : 0 ≤ x * product ys := Int.mul_nonneg h0 (by omega)
        omega
      · have : (x + 1) * product ys ≤ y * product ys := Int.mul_le_mul_of_nonneg_right (by omega) (by omega)
        have e : (x + 1) * product ys = x * product ys + product ys := by ring
        omega

theorem unravel_length (k : Int) (d : Idx) : (unravel k d).length = d.length := by
  induction d generalizing k with
  | nil => rfl
  | cons y ys ih => simp [unravel, ih]

theorem unravel_inBounds {d : Idx} (hd : Pos d) {k : Int} (h0 : 0 ≤ k) (h1 : k < product d) :
    InBounds (unravel k d) d := by
  induction d generalizing k with
  | nil => simp [unravel, InBounds]
  | cons y ys ih =>
    have hp := product_pos (pos_tail hd)
    simp only [unravel, InBounds]
    refine ⟨Int.ediv_nonneg h0 (by omega), ?_, ?_⟩
    · exact Int.ediv_lt_of_lt_mul (by omega) (by simpa using h1)
    · exact ih (pos_tail hd) (Int.emod_nonneg _ (by omega)) (Int.emod_lt_of_pos _ (by omega))

theorem ravel_unravel {d : Idx} (hd : Pos d) {k : Int} (h0 : 0 ≤ k) (h1 : k < product d) :
    ravel (unravel k d) d = k := by
  induction d generalizing k with
  | nil => simp only [product_nil] at h1; simp only [unravel, ravel]; omega
  | cons y ys ih =>
    have hp := product_pos (pos_tail hd)
    simp only [unravel, ravel]
    rw [ih (pos_tail hd) (Int.emod_nonneg _ (by omega)) (Int.emod_lt_of_pos _ (by omega))]
    have := Int.mul_ediv_add_emod k (product ys)
    rw [Int.mul_comm] at this
    exact this

theorem unravel_ravel {i d : Idx} (h : InBounds i d) : unravel (ravel i d) d = i := by
  induction i generalizing d with
  | nil => cases d with
    | nil => rfl
    | cons _ _ => exact absurd h (by simp [InBounds])
  | cons x xs ih => cases d with
    | nil => exact absurd h (by simp [InBounds])
    | cons y ys =>
      simp only [InBounds] at h
      obtain ⟨h0, h1, h2⟩ := h
      have ⟨r0, r1⟩ := ravel_bounds h2
      have hp := product_pos (inBounds_pos h2)
      simp only [ravel, unravel]
      have hq : (x * product ys + ravel xs ys) / product ys = x := by
        rw [Int.mul_add_ediv_right _ _ (by omega), Int.ediv_eq_zero_of_lt r0 r1]; omega
      have hr : (x * product ys + ravel xs ys) % product ys = ravel xs ys := by
        rw [Int.mul_add_emod_self_right, Int.emod_eq_of_lt r0 r1]
      rw [hq, hr, ih h2]

/-- `(k / P) % d = (k % (d * P)) / P` for positive `d`, `P` (digit extraction commutes with truncation) -/
theorem ediv_emod_digit (k d P : Int) (hd : 0 < d) (hP : 0 < P) :
    (k / P) % d = (k % (d * P)) / P := by
  have hdP : 0 < d * P := Int.mul_pos hd hP
  -- k = P * q + r,  q = d * q2 + r2
  have e1 := Int.mul_ediv_add_emod k P
  have e2 := Int.mul_ediv_add_emod (k / P) d
  have r0 := Int.emod_nonneg k (Int.ne_of_gt hP)
  have r1 := Int.emod_lt_of_pos k hP
  have s0 := Int.emod_nonneg (k / P) (Int.ne_of_gt hd)
  have s1 := Int.emod_lt_of_pos (k / P) hd
  generalize k / P = q at *
  generalize k % P = r at *
  generalize q / d = q2 at *
  generalize q % d = r2 at *
  have hk : k = (d * P) * q2 + (P * r2 + r) := by rw [← e1, ← e2]; ring
  have hb0 : 0 ≤ P * r2 + r := by nlinarith
  have hb1 : P * r2 + r < d * P := by nlinarith
  have hm : k % (d * P) = P * r2 + r := by
    rw [hk, Int.mul_add_emod_self_left, Int.emod_eq_of_lt hb0 hb1]
  rw [hm, Int.mul_comm P r2, Int.mul_add_ediv_right _ _ (Int.ne_of_gt hP), Int.ediv_eq_zero_of_lt r0 r1]
  omega

/-! ### idivmod -/

/-- `IDivMod(k, Offsets(dims), dims)` computes the mixed-radix digits of `k mod Π dims` (any `k ≥ 0`). -/
theorem idivmod_offsetsT {d : Idx} (hd : Pos d) {k : Int} (h0 : 0 ≤ k) :
    idivmod k (offsetsT d) d = .ok (unravel (k % product d) d) := by
  induction d generalizing k with
  | nil => rfl
  | cons y ys ih =>
    have hp := product_pos (pos_tail hd)
    have hy := (pos_head hd)
    rw [offsetsT_cons]
    simp only [idivmod]
    rw [if_neg (by omega), if_neg (by omega), ih (pos_tail hd) h0]
    simp only [bind, Except.bind, pure, Except.pure, unravel, product_cons]
    rw [Int.tdiv_eq_ediv_of_nonneg h0,
      Int.tmod_eq_emod_of_nonneg (Int.ediv_nonneg h0 (by omega)),
      ediv_emod_digit k y (product ys) (by omega) (by omega),
      Int.emod_emod_of_dvd k (Int.dvd_mul_left y (product ys))]

theorem idivmod_rowmajor' {d : Idx} (hd : Pos d) {k : Int} (h0 : 0 ≤ k) (h1 : k < product d) :
    idivmod k (offsetsT d) d = .ok (unravel k d) := by
  rw [idivmod_offsetsT hd h0, Int.emod_eq_of_lt h0 h1]

/-! ### increment -/

theorem incCarry_spec {v w : Idx} (h : InBounds v w) :
    InBounds (incCarry v w).1 w ∧
    ((incCarry v w).2 = false → ravel (incCarry v w).1 w = ravel v w + 1) ∧
    ((incCarry v w).2 = true → ravel v w + 1 = product w ∧ ravel (incCarry v w).1 w = 0) := by
  induction v generalizing w with
  | nil => cases w with
    | nil => simp [incCarry, InBounds, ravel]
    | cons _ _ => exact absurd h (by simp [InBounds])
  | cons x xs ih => cases w with
    | nil => exact absurd h (by simp [InBounds])
    | cons y ys =>
      simp only [InBounds] at h
      obtain ⟨h0, h1, h2⟩ := h
      obtain ⟨ib, hf, ht⟩ := ih h2
      simp only [incCarry]
      cases hc : (incCarry xs ys).2 with
      | false =>
        have e : incCarry xs ys = ((incCarry xs ys).1, false) := by rw [← hc]
        rw [e]
        simp only [InBounds, ravel, Bool.false_eq_true, ↓reduceIte]
        refine ⟨⟨h0, h1, ib⟩, ?_, ?_⟩
        · intro _; rw [hf hc]; ring
        · intro hh; exact absurd hh (by simp)
      | true =>
        have e : incCarry xs ys = ((incCarry xs ys).1, true) := by rw [← hc]
        obtain ⟨t1, t2⟩ := ht hc
        rw [e]
        simp only [↓reduceIte]
        by_cases hge : x + 1 ≥ y
        · rw [if_pos hge]
          simp only [InBounds, ravel, product_cons]
          refine ⟨⟨by omega, by omega, ib⟩, ?_, ?_⟩
          · intro hh; exact absurd hh (by simp)
          · intro _
            have : y = x + 1 := by omega
            subst this
            rw [t2]
            constructor
            · rw [← t1]; ring
            · ring
        · rw [if_neg hge]
          simp only [InBounds, ravel]
          refine ⟨⟨by omega, by omega, ib⟩, ?_, ?_⟩
          · intro _; rw [t2]
            have : product ys = ravel xs ys + 1 := t1.symm
            rw [this]; ring
          · intro hh; exact absurd hh (by simp)

theorem increment_eq {v w : Idx} (h : v.length = w.length) :
    increment v w = .ok (incCarry v w).1 := by
  unfold increment
  rw [if_neg (by omega), ← h]
  simp

/-- one `Increment` step on an in-bounds index: succeeds, stays in bounds, row-major rank + 1 (mod size) -/
theorem increment_spec {v w : Idx} (h : InBounds v w) :
    ∃ v', increment v w = .ok v' ∧ InBounds v' w ∧ ravel v' w = (ravel v w + 1) % product w := by
  refine ⟨(incCarry v w).1, increment_eq (inBounds_length h), ?_⟩
  obtain ⟨ib, hf, ht⟩ := incCarry_spec h
  refine ⟨ib, ?_⟩
  have ⟨b0, b1⟩ := ravel_bounds ib
  cases hc : (incCarry v w).2 with
  | false => rw [← hf hc, Int.emod_eq_of_lt b0 b1]
  | true =>
    obtain ⟨t1, t2⟩ := ht hc
    rw [t1, t2, Int.emod_self]

theorem inBounds_zeros {d : Idx} (hd : Pos d) : InBounds (uniform d.length 0) d := by
  induction d with
  | nil => simp [uniform, InBounds]
  | cons y ys ih =>
    have := (pos_head hd)
    simp only [uniform, List.length_cons, List.replicate_succ, InBounds]
    exact ⟨by omega, by omega, ih (pos_tail hd)⟩

theorem ravel_zeros (d : Idx) : ravel (uniform d.length 0) d = 0 := by
  induction d with
  | nil => rfl
  | cons y ys ih =>
    simp only [uniform, List.length_cons, List.replicate_succ, ravel] at *
    rw [ih]; simp

theorem unravel_zero {d : Idx} (hd : Pos d) : unravel 0 d = uniform d.length 0 := by
  have h := unravel_ravel (inBounds_zeros hd)
  rwa [ravel_zeros] at h

/-- `n` successive `Increment`s -/
def incrN (w : Idx) : Nat → Idx → R Idx
  | 0, v => .ok v
  | n + 1, v => do let v' ← increment v w; incrN w n v'

theorem incrN_spec {w : Idx} (n : Nat) {v : Idx} (h : InBounds v w) (hn : ravel v w + n < product w) :
    incrN w n v = .ok (unravel (ravel v w + n) w) := by
  induction n generalizing v with
  | zero => simp [incrN, unravel_ravel h]
  | succ n ih =>
    obtain ⟨v', e, ib, hr⟩ := increment_spec h
    have ⟨b0, _⟩ := ravel_bounds h
    rw [Int.emod_eq_of_lt (by omega) (by omega)] at hr
    simp only [incrN, e, bind, Except.bind]
    rw [ih ib (by rw [hr]; omega), hr]
    congr 2
    omega

/-! ### multiply, dotProduct -/

theorem multiply_eq {a b : Idx} (h : a.length ≤ b.length) :
    multiply a b = .ok (List.zipWith (· * ·) a b) := by
  induction a generalizing b with
  | nil => rfl
  | cons x xs ih => cases b with
    | nil => simp at h
    | cons y ys =>
      simp only [List.length_cons, Nat.add_le_add_iff_right] at h
      simp [multiply, ih h, bind, Except.bind, pure, Except.pure]

theorem multiply_short {a b : Idx} (h : b.length < a.length) : multiply a b = oob := by
  induction a generalizing b with
  | nil => simp at h
  | cons x xs ih => cases b with
    | nil => rfl
    | cons y ys =>
      simp only [List.length_cons, Nat.add_lt_add_iff_right] at h
      simp [multiply, ih h, bind, Except.bind, oob]

theorem dotProduct_eq {a b : Idx} (h : a.length ≤ b.length) :
    dotProduct a b = .ok (List.zipWith (· * ·) a b).sum := by
  induction a generalizing b with
  | nil => rfl
  | cons x xs ih => cases b with
    | nil => simp at h
    | cons y ys =>
      simp only [List.length_cons, Nat.add_le_add_iff_right] at h
      simp [dotProduct, ih h, bind, Except.bind, pure, Except.pure]

theorem dotProduct_short {a b : Idx} (h : b.length < a.length) : dotProduct a b = oob := by
  induction a generalizing b with
  | nil => simp at h
  | cons x xs ih => cases b with
    | nil => rfl
    | cons y ys =>
      simp only [List.length_cons, Nat.add_lt_add_iff_right] at h
      simp [dotProduct, ih h, bind, Except.bind, oob]

/-! ### maximum, argmax -/

theorem foldl_max_spec (vs : Idx) (v : Int) :
    let m := vs.foldl (fun r x => if r > x then r else x) v
    m ∈ v :: vs ∧ ∀ x ∈ v :: vs, x ≤ m := by
  induction vs generalizing v with
  | nil => simp
  | cons y ys ih =>
    simp only [List.foldl_cons]
    obtain ⟨hm, hub⟩ := ih (if v > y then v else y)
    have hz : (if v > y then v else y) ∈ [v, y] ∧ v ≤ (if v > y then v else y) ∧ y ≤ (if v > y then v else y) := by
      split <;> simp <;> omega
    generalize (if v > y then v else y) = z at *
    generalize List.foldl (fun r x => if r > x then r else x) z ys = m at *
    obtain ⟨hz1, hz2, hz3⟩ := hz
    refine ⟨?_, ?_⟩
    · rcases List.mem_cons.mp hm with e | e
      · rw [e]; simp at hz1; rcases hz1 with e | e <;> simp [e]
      · exact List.mem_cons_of_mem _ (List.mem_cons_of_mem _ e)
    · intro x hx
      have h1 := hub z List.mem_cons_self
      rcases List.mem_cons.mp hx with rfl | hx
      · omega
      · rcases List.mem_cons.mp hx with rfl | hx
        · omega
        · exact hub x (List.mem_cons_of_mem _ hx)

/-- invariant of the `Argmax` loop: `pre` = elements already seen (non-empty), `i = len pre`,
`res` = least index of the maximum `mx` of `pre` -/
theorem argmaxLoop_spec (vs pre : Idx) (i mx res : Int)
    (hi : i = pre.length) (h0 : 0 ≤ res) (h1 : res < i)
    (hres : pre[res.toNat]? = some mx)
    (hub : ∀ x ∈ pre, x ≤ mx)
    (hlt : ∀ j : Nat, (j : Int) < res → ∀ x, pre[j]? = some x → x < mx) :
    let r := argmaxLoop vs i mx res
    0 ≤ r ∧ r < (pre ++ vs).length ∧
    ∃ m, (pre ++ vs)[r.toNat]? = some m ∧ (∀ x ∈ pre ++ vs, x ≤ m) ∧
      ∀ j : Nat, (j : Int) < r → ∀ x, (pre ++ vs)[j]? = some x → x < m := by
  induction vs generalizing pre i mx res with
  | nil =>
    simp only [argmaxLoop, List.append_nil]
    exact ⟨h0, by omega, mx, hres, hub, hlt⟩
  | cons y ys ih =>
    simp only [argmaxLoop]
    have hlen : (pre ++ [y]).length = pre.length + 1 := by simp
    have happ : pre ++ y :: ys = (pre ++ [y]) ++ ys := by simp
    by_cases hgt : y > mx
    · rw [if_pos hgt, happ]
      apply ih (pre ++ [y]) (i + 1) y i
      · rw [hlen]; omega
      · omega
      · omega
      · have : i.toNat = pre.length := by omega
        rw [this]; simp
      · intro x hx
        rcases List.mem_append.mp hx with hx | hx
        · have := hub x hx; omega
        · simp at hx; omega
      · intro j hj x hx
        have hj' : j < pre.length := by omega
        rw [List.getElem?_append_left hj'] at hx
        have := hub x (List.mem_of_getElem? hx)
        omega
    · rw [if_neg hgt, happ]
      apply ih (pre ++ [y]) (i + 1) mx res
      · rw [hlen]; omega
      · exact h0
      · omega
      · have : res.toNat < pre.length := by omega
        rw [List.getElem?_append_left this]; exact hres
      · intro x hx
        rcases List.mem_append.mp hx with hx | hx
        · exact hub x hx
        · simp at hx; omega
      · intro j hj x hx
        have hj' : j < pre.length := by omega
        rw [List.getElem?_append_left hj'] at hx
        exact hlt j hj x hx

end OW.NdC02
