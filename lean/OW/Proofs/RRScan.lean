import OW.Kernels.Basic
import OW.Proofs.RealNum
import Mathlib.Algebra.BigOperators.Group.List.Basic
import Mathlib.Tactic.Ring
import Mathlib.Tactic.Linarith
/-!
C10 / C15 helpers: lifting one-step facts about a kernel's `step` through `scan` (the forward loop), and the
prefix form of a budget ("for every prefix of the run").
-/
namespace OW.RR
open OW

/-- One-step facts lift to whole runs. If from every state satisfying `Inv`, on every admissible input, a step
keeps `Inv`, satisfies the one-step budget `out o + stor s' ≤ inn x + stor s` and makes the output satisfy `Q`,
then every run from a state satisfying `Inv` keeps `Inv`, satisfies the summed budget and has all outputs in `Q`. -/
theorem scan_budget_le {σ ι ο : Type} (step : σ → ι → σ × ο)
    (Inv : σ → Prop) (Ok : ι → Prop) (stor : σ → ℝ) (inn : ι → ℝ) (out : ο → ℝ) (Q : ο → Prop)
    (hstep : ∀ s x, Inv s → Ok x →
      Inv (step s x).1 ∧ out (step s x).2 + stor (step s x).1 ≤ inn x + stor s ∧ Q (step s x).2) :
    ∀ (xs : List ι) (s : σ), Inv s → (∀ x ∈ xs, Ok x) →
      Inv (scan step s xs).1 ∧
      ((scan step s xs).2.map out).sum + stor (scan step s xs).1 ≤ (xs.map inn).sum + stor s ∧
      ∀ o ∈ (scan step s xs).2, Q o := by
  intro xs
  induction xs with
  | nil => intro s hs _; simp [scan, hs]
  | cons x xs ih =>
    intro s hs hok
    obtain ⟨h1, h2, h3⟩ := hstep s x hs (hok x (List.mem_cons_self ..))
    obtain ⟨i1, i2, i3⟩ := ih (step s x).1 h1 (fun y hy => hok y (List.mem_cons_of_mem _ hy))
    refine ⟨by simpa [scan] using i1, ?_, ?_⟩
    · simp only [scan, List.map_cons, List.sum_cons]
      linarith
    · intro o ho
      simp only [scan, List.mem_cons] at ho
      rcases ho with rfl | ho
      · exact h3
      · exact i3 o ho

/-- The same with an exact one-step balance. -/
theorem scan_budget_eq {σ ι ο : Type} (step : σ → ι → σ × ο)
    (Inv : σ → Prop) (Ok : ι → Prop) (stor : σ → ℝ) (inn : ι → ℝ) (out : ο → ℝ)
    (hstep : ∀ s x, Inv s → Ok x →
      Inv (step s x).1 ∧ out (step s x).2 + stor (step s x).1 = inn x + stor s) :
    ∀ (xs : List ι) (s : σ), Inv s → (∀ x ∈ xs, Ok x) →
      Inv (scan step s xs).1 ∧
      ((scan step s xs).2.map out).sum + stor (scan step s xs).1 = (xs.map inn).sum + stor s := by
  intro xs
  induction xs with
  | nil => intro s hs _; simp [scan, hs]
  | cons x xs ih =>
    intro s hs hok
    obtain ⟨h1, h2⟩ := hstep s x hs (hok x (List.mem_cons_self ..))
    obtain ⟨i1, i2⟩ := ih (step s x).1 h1 (fun y hy => hok y (List.mem_cons_of_mem _ hy))
    refine ⟨by simpa [scan] using i1, ?_⟩
    simp only [scan, List.map_cons, List.sum_cons]
    linarith

/-- The outputs of a run on a prefix of the inputs are the prefix of the outputs (the loop is causal), so a
statement proved for every input list is a statement about every prefix of every run. -/
theorem scan_take {σ ι ο : Type} (step : σ → ι → σ × ο) (s : σ) (xs : List ι) (n : Nat) :
    (scan step s (xs.take n)).2 = (scan step s xs).2.take n := by
  induction xs generalizing s n with
  | nil => simp [scan]
  | cons x xs ih =>
    cases n with
    | zero => simp [scan]
    | succ n => simp [scan, ih]

/-- "No water created", prefix form: under the hypotheses of `scan_budget_le` with a non-negative storage
function on invariant states, for every `n` the first `n` outputs sum to at most the first `n` inputs plus the
initial storage. -/
theorem prefix_budget {σ ι ο : Type} (step : σ → ι → σ × ο)
    (Inv : σ → Prop) (Ok : ι → Prop) (stor : σ → ℝ) (inn : ι → ℝ) (out : ο → ℝ) (Q : ο → Prop)
    (hstep : ∀ s x, Inv s → Ok x →
      Inv (step s x).1 ∧ out (step s x).2 + stor (step s x).1 ≤ inn x + stor s ∧ Q (step s x).2)
    (hstor : ∀ s, Inv s → 0 ≤ stor s)
    (xs : List ι) (s : σ) (hs : Inv s) (hok : ∀ x ∈ xs, Ok x) (n : Nat) :
    (((scan step s xs).2.take n).map out).sum ≤ ((xs.take n).map inn).sum + stor s := by
  have h := scan_budget_le step Inv Ok stor inn out Q hstep (xs.take n) s hs
    (fun x hx => hok x (List.mem_of_mem_take hx))
  rw [scan_take] at h
  have := hstor _ h.1
  linarith [h.2.1]

theorem zip_mem_left {α β : Type} {P : α → Prop} {as : List α} {bs : List β} (h : ∀ a ∈ as, P a) :
    ∀ x ∈ as.zip bs, P x.1 := fun _ hx => h _ (List.of_mem_zip hx).1

theorem zip_mem_right {α β : Type} {P : β → Prop} {as : List α} {bs : List β} (h : ∀ b ∈ bs, P b) :
    ∀ x ∈ as.zip bs, P x.2 := fun _ hx => h _ (List.of_mem_zip hx).2

end OW.RR
