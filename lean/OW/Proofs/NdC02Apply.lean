import OW.Proofs.NdC02Write
/-!
Helper lemmas for C02, Part C: `Apply(loc, dim, step, vals)` — the element loop is the sequential reference `setAll`
over the run of indices, and the contiguous fast path (`copy` into the aliased window = `writeRun`) gives the same heap.
-/
namespace OW.NdC02
open OW.Nd

section
variable {α : Type}

/-! ### sequential writes -/

theorem setAll_arrOK {a : Arr} (g : Geo a.v) {b : Arr} :
    ∀ (l : List Idx) (xs : List α) (h : Heap α), ArrOK h a → ArrOK h b → (∀ i ∈ l, InBounds i a.v.dims) →
      ∃ h', setAll h a l xs = .ok h' ∧ ArrOK h' a ∧ ArrOK h' b ∧ SameShape h h'
  | [], _, h, oka, okb, _ => ⟨h, by simp [setAll], oka, okb, SameShape.refl h⟩
  | _ :: _, [], h, oka, okb, _ => ⟨h, by simp [setAll], oka, okb, SameShape.refl h⟩
  | i :: is, x :: xs, h, oka, okb, hl => by
    obtain ⟨p, _, _, _, hset⟩ := set_eq g oka (hl i List.mem_cons_self) x
    obtain ⟨h', e, o1, o2, ss⟩ := setAll_arrOK g is xs _ (arrOK_setStore oka a.sid (a.base + p).toNat x)
      (arrOK_setStore okb a.sid (a.base + p).toNat x) (fun j hj => hl j (List.mem_cons_of_mem _ hj))
    exact ⟨h', by simp only [setAll, hset, bind, Except.bind]; exact e, o1, o2,
      (sameShape_setStore h _ _ x).trans ss⟩

/-- index lists along which two arrays perform the same `Set` (in every heap) -/
def SameSets (a b : Arr) : List Idx → List Idx → Prop
  | [], [] => True
  | i :: is, j :: js => (∀ (h : Heap α) (x : α), Nd.set h a i x = Nd.set h b j x) ∧ SameSets a b is js
  | _, _ => False

theorem setAll_congr {a b : Arr} : ∀ (l l' : List Idx) (xs : List α) (h : Heap α), SameSets (α := α) a b l l' →
    setAll h a l xs = setAll h b l' xs
  | [], [], _, _, _ => by simp [setAll]
  | [], _ :: _, _, _, hs => by simp [SameSets] at hs
  | _ :: _, [], _, _, hs => by simp [SameSets] at hs
  | _ :: _, _ :: _, [], _, _ => by simp [setAll]
  | i :: is, j :: js, x :: xs, h, hs => by
    simp only [SameSets] at hs
    simp only [setAll, hs.1 h x]
    cases Nd.set h b j x with
    | error m => rfl
    | ok h' => exact setAll_congr is js xs h' hs.2

/-- consecutive cells: index `k` of the list is addressed at storage position `lo + k` -/
def Consec (a : Arr) : Nat → List Idx → Prop
  | _, [] => True
  | lo, i :: is => InBounds i a.v.dims ∧ (∃ p, a.v.index i = .ok p ∧ (a.base + p).toNat = lo) ∧ Consec a (lo + 1) is

/-- the sequential `Set` over consecutively addressed indices is the block write `writeRun` (Go `copy`) -/
theorem setAll_consec {a : Arr} (g : Geo a.v) :
    ∀ (l : List Idx) (xs : List α) (lo : Nat) (h : Heap α), ArrOK h a → Consec a lo l → l.length = xs.length →
      setAll h a l xs = .ok (writeRun h a.sid lo xs)
  | [], [], _, _, _, _, _ => rfl
  | [], _ :: _, _, _, _, _, hl => by simp at hl
  | _ :: _, [], _, _, _, _, hl => by simp at hl
  | i :: is, x :: xs, lo, h, ok, hc, hl => by
    obtain ⟨hi, ⟨p, hp, hlo⟩, hrest⟩ := hc
    obtain ⟨q, hq, _, _, hset⟩ := set_eq g ok hi x
    rw [hp] at hq
    injection hq with hq
    subst hq
    simp only [setAll, hset, bind, Except.bind, writeRun, hlo]
    exact setAll_consec g is xs (lo + 1) _ (arrOK_setStore ok _ _ _) hrest (by simpa using hl)

/-! ### rewriting the values that are already there -/

theorem setStore_self {h : Heap α} {sid pos : Nat} {x : α} (hc : cell h sid pos = some x) :
    setStore h sid pos x = h := by
  apply List.ext_getElem?
  intro t
  rw [getElem?_setStore]
  by_cases e : sid = t
  · subst e
    simp only [if_true]
    cases hs : h[sid]? with
    | none => rfl
    | some st =>
      simp only [cell, hs, Option.bind_some] at hc
      simp only [Option.map_some, Option.some.injEq]
      apply List.ext_getElem?
      intro j
      rw [List.getElem?_set]
      by_cases e2 : pos = j
      · subst e2
        obtain ⟨hlt, hxe⟩ := List.getElem?_eq_some_iff.mp hc
        simp [hlt, hxe]
      · simp [e2]
  · simp [e]

theorem writeRun_self {sid : Nat} : ∀ (xs : List α) (lo : Nat) (h : Heap α),
    (∀ j, j < xs.length → cell h sid (lo + j) = xs[j]?) → writeRun h sid lo xs = h
  | [], _, _, _ => rfl
  | x :: xs, lo, h, hc => by
    have h0 := hc 0 (by simp)
    simp only [Nat.add_zero, List.getElem?_cons_zero] at h0
    simp only [writeRun, setStore_self h0]
    apply writeRun_self xs (lo + 1) h
    intro j hj
    have := hc (j + 1) (by simpa using hj)
    simpa [Nat.add_assoc, Nat.add_comm 1 j] using this

/-! ### runs of indices along one dimension -/

/-- the indices `loc` with position `d` replaced by `start + i·step`, for `i = i0, i0+1, …` (`n` of them) -/
def runIdxs (loc : Idx) (d : Nat) (start step : Int) : Int → Nat → List Idx
  | _, 0 => []
  | i, n + 1 => loc.set d (start + i * step) :: runIdxs loc d start step (i + 1) n

theorem runIdxs_length (loc : Idx) (d : Nat) (start step : Int) : ∀ (i : Int) (n : Nat),
    (runIdxs loc d start step i n).length = n
  | _, 0 => rfl
  | i, n + 1 => by simp [runIdxs, runIdxs_length loc d start step (i + 1) n]

/-- the element loop of `Apply` is the sequential `Set` over the run -/
theorem apply_go_eq (a : Arr) (loc : Idx) (step : Int) (d : Nat) (start : Int) :
    ∀ (xs : List α) (h : Heap α) (i : Int),
      apply.go a loc step d start h i xs = setAll h a (runIdxs loc d start step i xs.length) xs
  | [], _, _ => rfl
  | x :: xs, h, i => by
    simp only [apply.go, List.length_cons, runIdxs, setAll]
    cases Nd.set h a (loc.set d (start + i * step)) x with
    | error m => rfl
    | ok h' => exact apply_go_eq a loc step d start xs h' (i + 1)

theorem product_ones (n : Nat) : product (uniform n 1) = 1 := by
  induction n with
  | zero => rfl
  | succ n ih => simp [uniform_succ, ih]

theorem pos_ones (n : Nat) : Pos (uniform n 1) := by
  intro x hx
  simp only [uniform, List.mem_replicate] at hx
  omega

theorem product_unit : ∀ (n d : Nat) (m : Int), d < n → product ((uniform n 1).set d m) = m
  | 0, _, _, h => by omega
  | n + 1, 0, m, _ => by simp [uniform_succ, product_ones]
  | n + 1, d + 1, m, h => by simp [uniform_succ, product_unit n d m (by omega)]

theorem unravel_unit : ∀ (n d : Nat) (m i : Int), d < n → 0 ≤ i → i < m →
    unravel i ((uniform n 1).set d m) = (uniform n 0).set d i
  | 0, _, _, _, h, _, _ => by omega
  | n + 1, 0, m, i, _, _, _ => by
    have hz := unravel_zero (pos_ones n)
    rw [uniform_length] at hz
    simp [uniform_succ, unravel, product_ones, hz]
  | n + 1, d + 1, m, i, h, h0, h1 => by
    simp only [uniform_succ, List.set_cons_succ, unravel, product_unit n d m (by omega),
      Int.ediv_eq_zero_of_lt h0 h1, Int.emod_eq_of_lt h0 h1, unravel_unit n d m i (by omega) h0 h1]

theorem affine_zeros_ones : ∀ (l : Idx), affine l (uniform l.length 0) (uniform l.length 1) = l
  | [] => by simp [affine]
  | x :: xs => by simp [uniform_succ, affine_zeros_ones xs]

theorem affine_unit : ∀ (loc : Idx) (d : Nat) (start i step : Int), loc[d]? = some start →
    affine loc ((uniform loc.length 0).set d i) ((uniform loc.length 1).set d step) = loc.set d (start + i * step)
  | [], _, _, _, _, h => by simp at h
  | l :: ls, 0, start, i, step, h => by
    simp only [List.getElem?_cons_zero, Option.some.injEq] at h
    subst h
    simp [uniform_succ, affine_zeros_ones]
  | l :: ls, d + 1, start, i, step, h => by
    simp only [List.getElem?_cons_succ] at h
    simp [uniform_succ, affine_unit ls d start i step h]

/-! ### `Apply`, path by path (pure unfolding) -/

theorem apply_loop {h : Heap α} {a : Arr} {loc : Idx} {dim step start : Int} {vals : List α}
    (h0 : 0 ≤ dim) (h1 : dim < a.v.dims.length) (hl : loc[dim.toNat]? = some start) (hC : a.isC = true) :
    apply h a loc dim step vals = apply.go a loc step dim.toNat start h 0 vals := by
  unfold apply
  simp only [View.ndims]
  rw [if_neg (by omega)]
  simp only [hl, hC, if_true]

theorem apply_go_paths {h : Heap α} {a : Arr} {loc : Idx} {dim step start : Int} {vals : List α}
    (h0 : 0 ≤ dim) (h1 : dim < a.v.dims.length) (hl : loc[dim.toNat]? = some start) (hgo : a.isC = false)
    {sl : Arr} (hsl : slice a loc ((uniform a.v.dims.length 1).set dim.toNat vals.length)
        (some ((uniform a.v.dims.length 1).set dim.toNat step)) = .ok sl) :
    (sl.v.contiguous = .ok true → apply h a loc dim step vals =
      (do let r ← subslice h sl sl.v.start (sl.v.start + vals.length); pure (writeRun h r.1 r.2.1.toNat vals))) ∧
    (sl.v.contiguous = .ok false → apply h a loc dim step vals = apply.go a loc step dim.toNat start h 0 vals) := by
  constructor <;> intro hc <;> unfold apply <;> simp only [View.ndims] <;> rw [if_neg (by omega)] <;>
    simp only [hl, hgo, hsl, hc, bind, Except.bind, Bool.false_eq_true, if_false, if_true]

/-! ### `Apply` on a reachable Go-backed array -/

/-- the slice `Apply` takes: extents all one except `vals.length` along `dim`, steps all one except `step` -/
def applyDims (a : Arr) (dim : Int) (n : Nat) : Idx := (uniform a.v.dims.length 1).set dim.toNat n
def applySteps (a : Arr) (dim step : Int) : Idx := (uniform a.v.dims.length 1).set dim.toNat step

theorem apply_slice_ok {a : Arr} (g : Geo a.v) {loc : Idx} {dim step : Int} {n : Nat}
    (hok : SliceOK a.v.dims loc (applyDims a dim n) (applySteps a dim step)) :
    ∃ sl, slice a loc (applyDims a dim n) (some (applySteps a dim step)) = .ok sl ∧
      a.v.sliceInto loc (applyDims a dim n) (some (applySteps a dim step)) = .ok sl.v ∧
      sl = { a with v := sl.v } ∧ Geo sl.v ∧ sl.v.dims = applyDims a dim n ∧ sl.v.orig = a.v.orig ∧
      sl.v = sliceView a.v loc (applyDims a dim n) (some (applySteps a dim step)) := by
  obtain ⟨hl, _, hs⟩ := hok.lengths
  have e := sliceInto_eq g loc (applyDims a dim n) (some (applySteps a dim step)) hl hs
  refine ⟨{ a with v := sliceView a.v loc (applyDims a dim n) (some (applySteps a dim step)) }, ?_, e, rfl,
    geo_slice g hok e, rfl, rfl, rfl⟩
  simp only [slice, e, bind, Except.bind, pure, Except.pure]

theorem consec_run {a sl : Arr} (g : Geo a.v) {loc : Idx} {dim step start : Int} {n : Nat}
    (h0 : 0 ≤ dim) (h1 : dim < a.v.dims.length) (hl : loc[dim.toNat]? = some start)
    (hok : SliceOK a.v.dims loc (applyDims a dim n) (applySteps a dim step))
    (hsv : a.v.sliceInto loc (applyDims a dim n) (some (applySteps a dim step)) = .ok sl.v)
    (gsl : Geo sl.v) (hd : sl.v.dims = applyDims a dim n) (hc : sl.v.contiguous = .ok true)
    (hbase : 0 ≤ a.base) :
    ∀ (k i0 : Nat), i0 + k ≤ n →
      Consec a ((a.base + sl.v.start).toNat + i0) (runIdxs loc dim.toNat start step (i0 : Int) k)
  | 0, _, _ => by simp [runIdxs, Consec]
  | k + 1, i0, hk => by
    have hdn : dim.toNat < a.v.dims.length := by omega
    have hll : loc.length = a.v.dims.length := hok.lengths.1
    have hi0 : (0 : Int) ≤ (i0 : Int) := by omega
    have hi1 : (i0 : Int) < ((n : Nat) : Int) := by omega
    have hun : unravel (i0 : Int) (applyDims a dim n) = (uniform a.v.dims.length 0).set dim.toNat (i0 : Int) :=
      unravel_unit _ _ _ _ hdn hi0 hi1
    have haff : affine loc (unravel (i0 : Int) (applyDims a dim n)) (applySteps a dim step) =
        loc.set dim.toNat (start + (i0 : Int) * step) := by
      rw [hun]
      have := affine_unit loc dim.toNat start (i0 : Int) step hl
      rw [hll] at this
      exact this
    have hpd : Pos (applyDims a dim n) := hok.pos.2.1
    have hprod : product (applyDims a dim n) = (n : Int) := product_unit _ _ _ hdn
    have hib : InBounds (unravel (i0 : Int) (applyDims a dim n)) (applyDims a dim n) :=
      unravel_inBounds hpd hi0 (by rw [hprod]; exact hi1)
    have hidx := sliceInto_index g hok hsv (unravel (i0 : Int) (applyDims a dim n)) (unravel_length _ _)
    have hci := contig_index gsl hc (k := (i0 : Int)) hi0 (by rw [hd, hprod]; exact hi1)
    rw [hd, hidx] at hci
    simp only [stepOr, haff] at hci
    obtain ⟨w0, _⟩ := contig_window gsl hc
    simp only [runIdxs, Consec]
    refine ⟨?_, ⟨_, hci, by omega⟩, ?_⟩
    · rw [← haff]; exact hok.inBounds hib
    · have := consec_run g h0 h1 hl hok hsv gsl hd hc hbase k (i0 + 1) (by omega)
      simpa [Nat.add_assoc] using this

/-- Go back-end: both paths of `Apply` (contiguous slice → block copy; otherwise element loop) equal the sequential
reference; on the fast path the result is the block write into the aliased window -/
theorem apply_go_spec {h : Heap α} {a : Arr} (g : Geo a.v) (ok : ArrOK h a) (hgo : a.isC = false)
    {loc : Idx} {dim step : Int} {vals : List α} (h0 : 0 ≤ dim) (h1 : dim < a.v.dims.length)
    (hok : SliceOK a.v.dims loc (applyDims a dim vals.length) (applySteps a dim step)) :
    ∃ start sl, loc[dim.toNat]? = some start ∧
      slice a loc (applyDims a dim vals.length) (some (applySteps a dim step)) = .ok sl ∧ Geo sl.v ∧
      sl.v = sliceView a.v loc (applyDims a dim vals.length) (some (applySteps a dim step)) ∧
      apply h a loc dim step vals = setAll h a (runIdxs loc dim.toNat start step 0 vals.length) vals ∧
      apply.go a loc step dim.toNat start h 0 vals = setAll h a (runIdxs loc dim.toNat start step 0 vals.length) vals ∧
      (sl.v.contiguous = .ok true →
        apply h a loc dim step vals = .ok (writeRun h a.sid (a.base + sl.v.start).toNat vals)) ∧
      (sl.v.contiguous = .ok false → apply h a loc dim step vals = apply.go a loc step dim.toNat start h 0 vals) := by
  have hdn : dim.toNat < a.v.dims.length := by omega
  have hll : loc.length = a.v.dims.length := hok.lengths.1
  have hl : loc[dim.toNat]? = some loc[dim.toNat] := List.getElem?_eq_getElem (by omega)
  obtain ⟨sl, hsl, hsv, hsle, gsl, hd, ho, hsview⟩ := apply_slice_ok g hok
  obtain ⟨pf, ps⟩ := apply_go_paths (h := h) (vals := vals) h0 h1 hl hgo hsl
  have hloop := apply_go_eq a loc step dim.toNat loc[dim.toNat] vals h 0
  obtain ⟨c, hc⟩ := (contiguous_iff_geo gsl).2
  have hfast : sl.v.contiguous = .ok true →
      apply h a loc dim step vals = .ok (writeRun h a.sid (a.base + sl.v.start).toNat vals) := by
    intro hc
    rw [pf hc]
    obtain ⟨st, hst, hlen⟩ := ok.store
    obtain ⟨w0, w1⟩ := contig_window gsl hc
    have hprod : product sl.v.dims = (vals.length : Int) := by rw [hd]; exact product_unit _ _ _ hdn
    have hf := ok.fits
    have hsid : sl.sid = a.sid := by rw [hsle]
    have hbase : sl.base = a.base := by rw [hsle]
    have hst' : h[sl.sid]? = some st := by rw [hsid]; exact hst
    rw [subslice_ok hst' w0 (by omega) (by rw [hbase, ho] at *; omega)]
    simp only [bind, Except.bind, pure, Except.pure, hsid, hbase]
  refine ⟨_, sl, hl, hsl, gsl, hsview, ?_, hloop, hfast, ps⟩
  cases c with
  | false => rw [ps hc, hloop]
  | true =>
    rw [hfast hc]
    have hcs := consec_run g h0 h1 hl hok hsv gsl hd hc ok.base_nonneg vals.length 0 (by omega)
    rw [Nat.add_zero] at hcs
    exact (setAll_consec g _ vals _ h ok hcs (runIdxs_length _ _ _ _ _ _)).symm

/-- C back-end: `Apply` is the element loop -/
theorem apply_c_spec {h : Heap α} {a : Arr} (hC : a.isC = true)
    {loc : Idx} {dim step start : Int} {vals : List α} (h0 : 0 ≤ dim) (h1 : dim < a.v.dims.length)
    (hl : loc[dim.toNat]? = some start) :
    apply h a loc dim step vals = setAll h a (runIdxs loc dim.toNat start step 0 vals.length) vals := by
  rw [apply_loop h0 h1 hl hC, apply_go_eq]

end
end OW.NdC02
