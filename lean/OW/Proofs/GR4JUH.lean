import OW.Proofs.Surm
import OW.Kernels.GR4J
import OW.Spec.GR4J
import Mathlib.Algebra.Order.Floor.Ring
import Mathlib.Algebra.Order.Floor.Semiring
/-!
GR4J unit hydrographs: the ordinates computed by the Go code are the published S-curve differences
(C15 `sh1_code_eq_spec`, `sh2_code_eq_spec`), the S-curves are monotone, hence the ordinates are non-negative and
sum to one (C10 `uh_nonneg`, `uh_sum_one`), for every x4 > 0.
-/
namespace OW.RR.GR4J
open OW OW.Kernels.GR4J

theorem numOfNat_eq (n : ℕ) : (Num.ofNat n : ℝ) = (n : ℝ) := rfl

local notation "sci" => OW.RR.Surm.sci

/-! ### real forms of the code's and the specification's S-curves -/

theorem sh1At_real (x4 : ℝ) (n1 i : ℕ) :
    sh1At x4 n1 i = if i + 1 = n1 then 1 else (((i + 1 : ℕ) : ℝ) / x4) ^ (2.5 : ℝ) := by
  simp only [sh1At, RealNum.pow_eq, numOfNat_eq]
  norm_num only

theorem sh2At_real (x4 : ℝ) (n2 i : ℕ) :
    sh2At x4 n2 i = if i + 1 = n2 then 1
      else if ((i + 1 : ℕ) : ℝ) / x4 ≤ 1 then 0.5 * (((i + 1 : ℕ) : ℝ) / x4) ^ (2.5 : ℝ)
      else if ((i + 1 : ℕ) : ℝ) / x4 < 2 then 1 - 0.5 * (2 - ((i + 1 : ℕ) : ℝ) / x4) ^ (2.5 : ℝ)
      else 1 := by
  simp only [sh2At, RealNum.pow_eq, numOfNat_eq, RealNum.ofNat_eq]
  norm_num only

theorem SH1_real (x4 t : ℝ) :
    Spec.GR4J.SH1 x4 t = if t ≤ 0 then 0 else if t < x4 then (t / x4) ^ (2.5 : ℝ) else 1 := by
  simp only [Spec.GR4J.SH1, RealNum.pow_eq, RealNum.ofNat_eq]
  norm_num only

theorem SH2_real (x4 t : ℝ) :
    Spec.GR4J.SH2 x4 t = if t ≤ 0 then 0 else if t ≤ x4 then 0.5 * (t / x4) ^ (2.5 : ℝ)
      else if t < 2 * x4 then 1 - 0.5 * (2 - t / x4) ^ (2.5 : ℝ) else 1 := by
  simp only [Spec.GR4J.SH2, RealNum.pow_eq, RealNum.ofNat_eq]
  norm_num only

/-! ### code = specification -/

/-- `SH1[i]` of the code is the published S-curve SH1 at t = i+1, for every x4 > 0 and every index. -/
theorem sh1_code_eq_spec (x4 : ℝ) (_hx : 0 < x4) (i : ℕ) (hi : i < ⌈x4⌉₊) :
    sh1At x4 ⌈x4⌉₊ i = Spec.GR4J.SH1 x4 ((i + 1 : ℕ) : ℝ) := by
  rw [sh1At_real, SH1_real]
  have ht : (0 : ℝ) < ((i + 1 : ℕ) : ℝ) := by positivity
  rw [if_neg (not_le.mpr ht)]
  by_cases h : i + 1 = ⌈x4⌉₊
  · rw [if_pos h, if_neg]
    rw [h]; exact not_lt.mpr (Nat.le_ceil x4)
  · rw [if_neg h, if_pos]
    exact Nat.lt_ceil.mp (lt_of_le_of_ne hi h)

/-- `SH2[i]` of the code is the published S-curve SH2 at t = i+1, for every x4 > 0 and every index. -/
theorem sh2_code_eq_spec (x4 : ℝ) (hx : 0 < x4) (i : ℕ) (hi : i < ⌈2 * x4⌉₊) :
    sh2At x4 ⌈2 * x4⌉₊ i = Spec.GR4J.SH2 x4 ((i + 1 : ℕ) : ℝ) := by
  rw [sh2At_real, SH2_real]
  have ht : (0 : ℝ) < ((i + 1 : ℕ) : ℝ) := by positivity
  rw [if_neg (not_le.mpr ht)]
  by_cases h : i + 1 = ⌈2 * x4⌉₊
  · have h2 : 2 * x4 ≤ ((i + 1 : ℕ) : ℝ) := by rw [h]; exact Nat.le_ceil _
    rw [if_pos h, if_neg (by linarith), if_neg (by linarith)]
  · have h2 : ((i + 1 : ℕ) : ℝ) < 2 * x4 := Nat.lt_ceil.mp (lt_of_le_of_ne hi h)
    rw [if_neg h]
    by_cases h1 : ((i + 1 : ℕ) : ℝ) ≤ x4
    · rw [if_pos ((div_le_one hx).mpr h1), if_pos h1]
    · rw [if_neg (by rwa [div_le_one hx]), if_neg h1, if_pos ((div_lt_iff₀ hx).mpr h2), if_pos h2]

/-! ### the published S-curves: range, monotonicity, end values -/

theorem SH1_zero (x4 : ℝ) : Spec.GR4J.SH1 x4 0 = 0 := by rw [SH1_real, if_pos (le_refl _)]
theorem SH2_zero (x4 : ℝ) : Spec.GR4J.SH2 x4 0 = 0 := by rw [SH2_real, if_pos (le_refl _)]

theorem SH1_one_of_le (x4 t : ℝ) (hx : 0 < x4) (h : x4 ≤ t) : Spec.GR4J.SH1 x4 t = 1 := by
  rw [SH1_real, if_neg (by linarith), if_neg (by linarith)]

theorem SH2_one_of_le (x4 t : ℝ) (hx : 0 < x4) (h : 2 * x4 ≤ t) : Spec.GR4J.SH2 x4 t = 1 := by
  rw [SH2_real, if_neg (by linarith), if_neg (by linarith), if_neg (by linarith)]

theorem SH1_mono (x4 : ℝ) (hx : 0 < x4) {a b : ℝ} (hab : a ≤ b) : Spec.GR4J.SH1 x4 a ≤ Spec.GR4J.SH1 x4 b := by
  have h25 : (0 : ℝ) ≤ 2.5 := by norm_num
  rw [SH1_real, SH1_real]
  by_cases ha : a ≤ 0
  · rw [if_pos ha]
    split_ifs
    · exact le_refl _
    · exact Real.rpow_nonneg (div_nonneg (by linarith) hx.le) _
    · exact zero_le_one
  · have hb : ¬ b ≤ 0 := by linarith
    rw [if_neg ha, if_neg hb]
    simp only [not_le] at ha hb
    by_cases ha4 : a < x4
    · rw [if_pos ha4]
      split_ifs with hb4
      · exact Real.rpow_le_rpow (div_nonneg ha.le hx.le) (div_le_div_of_nonneg_right hab hx.le) h25
      · exact Real.rpow_le_one (div_nonneg ha.le hx.le) ((div_le_one hx).mpr ha4.le) h25
    · rw [if_neg ha4, if_neg (by linarith)]

/-- the rising limb ½ u^(5/2) on [0,1] stays in [0, ½]; the falling-deficit limb 1 − ½(2−u)^(5/2) on [1,2] in [½, 1] -/
theorem limb1_bounds {u : ℝ} (h0 : 0 ≤ u) (h1 : u ≤ 1) : 0 ≤ 0.5 * u ^ (2.5 : ℝ) ∧ 0.5 * u ^ (2.5 : ℝ) ≤ 0.5 := by
  have := Real.rpow_nonneg h0 2.5
  have := Real.rpow_le_one h0 h1 (by norm_num : (0 : ℝ) ≤ 2.5)
  constructor <;> linarith

theorem limb2_bounds {u : ℝ} (h1 : 1 ≤ u) (h2 : u ≤ 2) :
    0.5 ≤ 1 - 0.5 * (2 - u) ^ (2.5 : ℝ) ∧ 1 - 0.5 * (2 - u) ^ (2.5 : ℝ) ≤ 1 := by
  have := Real.rpow_nonneg (by linarith : (0 : ℝ) ≤ 2 - u) 2.5
  have := Real.rpow_le_one (by linarith : (0 : ℝ) ≤ 2 - u) (by linarith) (by norm_num : (0 : ℝ) ≤ 2.5)
  constructor <;> linarith

theorem SH2_mono (x4 : ℝ) (hx : 0 < x4) {a b : ℝ} (hab : a ≤ b) : Spec.GR4J.SH2 x4 a ≤ Spec.GR4J.SH2 x4 b := by
  have h25 : (0 : ℝ) ≤ 2.5 := by norm_num
  rw [SH2_real, SH2_real]
  by_cases ha : a ≤ 0
  · rw [if_pos ha]
    split_ifs with h1 h2 h3
    · exact le_refl _
    · simp only [not_le] at h1
      exact (limb1_bounds (div_nonneg h1.le hx.le) ((div_le_one hx).mpr h2)).1
    · simp only [not_le] at h1 h2
      have := (limb2_bounds ((one_le_div hx).mpr h2.le) ((div_le_iff₀ hx).mpr h3.le)).1
      linarith
    · exact zero_le_one
  · have hb : ¬ b ≤ 0 := by linarith
    rw [if_neg ha, if_neg hb]
    simp only [not_le] at ha hb
    by_cases ha1 : a ≤ x4
    · rw [if_pos ha1]
      have hA := limb1_bounds (div_nonneg ha.le hx.le) ((div_le_one hx).mpr ha1)
      split_ifs with h2 h3
      · have := Real.rpow_le_rpow (div_nonneg ha.le hx.le) (div_le_div_of_nonneg_right hab hx.le) h25
        linarith
      · simp only [not_le] at h2
        have := (limb2_bounds ((one_le_div hx).mpr h2.le) ((div_le_iff₀ hx).mpr h3.le)).1
        linarith [hA.2]
      · linarith [hA.2]
    · simp only [not_le] at ha1
      have hb1 : ¬ b ≤ x4 := by linarith
      rw [if_neg (by linarith), if_neg hb1]
      by_cases ha2 : a < 2 * x4
      · rw [if_pos ha2]
        have hA := limb2_bounds ((one_le_div hx).mpr ha1.le) ((div_le_iff₀ hx).mpr ha2.le)
        split_ifs with h3
        · have hb2 : b / x4 ≤ 2 := (div_le_iff₀ hx).mpr h3.le
          have := Real.rpow_le_rpow (by linarith : (0 : ℝ) ≤ 2 - b / x4)
            (by linarith [div_le_div_of_nonneg_right hab hx.le] : 2 - b / x4 ≤ 2 - a / x4) h25
          linarith
        · exact hA.2
      · rw [if_neg ha2, if_neg (by linarith)]

/-! ### ordinates -/

theorem natSucc_cast_sub (j : ℕ) : ((j + 1 - 1 : ℕ) : ℝ) = (j : ℝ) := by simp

/-- published ordinates are non-negative (j = 1, 2, …) -/
theorem UH1_nonneg (x4 : ℝ) (hx : 0 < x4) (j : ℕ) : 0 ≤ Spec.GR4J.UH1 x4 j := by
  unfold Spec.GR4J.UH1
  rw [numOfNat_eq, numOfNat_eq]
  have : ((j - 1 : ℕ) : ℝ) ≤ (j : ℝ) := by exact_mod_cast Nat.sub_le j 1
  linarith [SH1_mono x4 hx this]

theorem UH2_nonneg (x4 : ℝ) (hx : 0 < x4) (j : ℕ) : 0 ≤ Spec.GR4J.UH2 x4 j := by
  unfold Spec.GR4J.UH2
  rw [numOfNat_eq, numOfNat_eq]
  have : ((j - 1 : ℕ) : ℝ) ≤ (j : ℝ) := by exact_mod_cast Nat.sub_le j 1
  linarith [SH2_mono x4 hx this]

/-- beyond ⌈x4⌉ (resp. ⌈2·x4⌉) the published ordinates vanish: the code's vectors lose nothing -/
theorem UH1_beyond (x4 : ℝ) (hx : 0 < x4) (j : ℕ) (hj : ⌈x4⌉₊ < j) : Spec.GR4J.UH1 x4 j = 0 := by
  unfold Spec.GR4J.UH1
  rw [numOfNat_eq, numOfNat_eq]
  have h1 : x4 ≤ ((j - 1 : ℕ) : ℝ) := le_trans (Nat.le_ceil x4) (by exact_mod_cast Nat.le_sub_one_of_lt hj)
  have h2 : x4 ≤ (j : ℝ) := le_trans h1 (by exact_mod_cast Nat.sub_le j 1)
  rw [SH1_one_of_le x4 _ hx h1, SH1_one_of_le x4 _ hx h2, sub_self]

theorem UH2_beyond (x4 : ℝ) (hx : 0 < x4) (j : ℕ) (hj : ⌈2 * x4⌉₊ < j) : Spec.GR4J.UH2 x4 j = 0 := by
  unfold Spec.GR4J.UH2
  rw [numOfNat_eq, numOfNat_eq]
  have h1 : 2 * x4 ≤ ((j - 1 : ℕ) : ℝ) := le_trans (Nat.le_ceil _) (by exact_mod_cast Nat.le_sub_one_of_lt hj)
  have h2 : 2 * x4 ≤ (j : ℝ) := le_trans h1 (by exact_mod_cast Nat.sub_le j 1)
  rw [SH2_one_of_le x4 _ hx h1, SH2_one_of_le x4 _ hx h2, sub_self]

/-- the code's ordinate `UH1[i]` is the published ordinate number i+1 -/
theorem uh1At_eq_spec (x4 : ℝ) (hx : 0 < x4) (i : ℕ) (hi : i < ⌈x4⌉₊) :
    uh1At x4 ⌈x4⌉₊ i = Spec.GR4J.UH1 x4 (i + 1) := by
  unfold uh1At Spec.GR4J.UH1
  rw [numOfNat_eq, numOfNat_eq]
  by_cases h0 : i = 0
  · subst h0
    rw [if_pos rfl, sh1_code_eq_spec x4 hx 0 hi]
    simp [SH1_zero]
  · rw [if_neg h0, sh1_code_eq_spec x4 hx i hi, sh1_code_eq_spec x4 hx (i - 1) (by omega)]
    have : i - 1 + 1 = i := by omega
    rw [this]; simp

theorem uh2At_eq_spec (x4 : ℝ) (hx : 0 < x4) (i : ℕ) (hi : i < ⌈2 * x4⌉₊) :
    uh2At x4 ⌈2 * x4⌉₊ i = Spec.GR4J.UH2 x4 (i + 1) := by
  unfold uh2At Spec.GR4J.UH2
  rw [numOfNat_eq, numOfNat_eq]
  by_cases h0 : i = 0
  · subst h0
    rw [if_pos rfl, sh2_code_eq_spec x4 hx 0 hi]
    simp [SH2_zero]
  · rw [if_neg h0, sh2_code_eq_spec x4 hx i hi, sh2_code_eq_spec x4 hx (i - 1) (by omega)]
    have : i - 1 + 1 = i := by omega
    rw [this]; simp

theorem uh1_eq_spec (x4 : ℝ) (hx : 0 < x4) :
    uh1 x4 ⌈x4⌉₊ = (List.range ⌈x4⌉₊).map (fun i => Spec.GR4J.UH1 x4 (i + 1)) := by
  unfold uh1
  exact List.map_congr_left (fun i hi => uh1At_eq_spec x4 hx i (List.mem_range.mp hi))

theorem uh2_eq_spec (x4 : ℝ) (hx : 0 < x4) :
    uh2 x4 ⌈2 * x4⌉₊ = (List.range ⌈2 * x4⌉₊).map (fun i => Spec.GR4J.UH2 x4 (i + 1)) := by
  unfold uh2
  exact List.map_congr_left (fun i hi => uh2At_eq_spec x4 hx i (List.mem_range.mp hi))

/-- telescoping: Σ_{i<n} (f(i+1) − f(i)) = f(n) − f(0) -/
theorem sum_range_diff (f : ℕ → ℝ) (n : ℕ) :
    ((List.range n).map (fun i => f (i + 1) - f i)).sum = f n - f 0 := by
  induction n with
  | zero => simp
  | succ n ih => rw [List.range_succ, List.map_append, List.sum_append, ih]; simp

theorem uh1_sum (x4 : ℝ) (hx : 0 < x4) : (uh1 x4 ⌈x4⌉₊).sum = 1 := by
  rw [uh1_eq_spec x4 hx]
  have : (fun i : ℕ => Spec.GR4J.UH1 x4 (i + 1)) =
      (fun i : ℕ => Spec.GR4J.SH1 x4 ((i + 1 : ℕ) : ℝ) - Spec.GR4J.SH1 x4 ((i : ℕ) : ℝ)) := by
    funext i; unfold Spec.GR4J.UH1; rw [numOfNat_eq, numOfNat_eq]; simp
  rw [this, sum_range_diff (fun i : ℕ => Spec.GR4J.SH1 x4 ((i : ℕ) : ℝ))]
  simp only [Nat.cast_zero, SH1_zero, sub_zero]
  exact SH1_one_of_le x4 _ hx (Nat.le_ceil x4)

theorem uh2_sum (x4 : ℝ) (hx : 0 < x4) : (uh2 x4 ⌈2 * x4⌉₊).sum = 1 := by
  rw [uh2_eq_spec x4 hx]
  have : (fun i : ℕ => Spec.GR4J.UH2 x4 (i + 1)) =
      (fun i : ℕ => Spec.GR4J.SH2 x4 ((i + 1 : ℕ) : ℝ) - Spec.GR4J.SH2 x4 ((i : ℕ) : ℝ)) := by
    funext i; unfold Spec.GR4J.UH2; rw [numOfNat_eq, numOfNat_eq]; simp
  rw [this, sum_range_diff (fun i : ℕ => Spec.GR4J.SH2 x4 ((i : ℕ) : ℝ))]
  simp only [Nat.cast_zero, SH2_zero, sub_zero]
  exact SH2_one_of_le x4 _ hx (Nat.le_ceil _)

theorem uh1_nonneg (x4 : ℝ) (hx : 0 < x4) : ∀ u ∈ uh1 x4 ⌈x4⌉₊, 0 ≤ u := by
  rw [uh1_eq_spec x4 hx]
  intro u hu
  obtain ⟨i, _, rfl⟩ := List.mem_map.mp hu
  exact UH1_nonneg x4 hx _

theorem uh2_nonneg (x4 : ℝ) (hx : 0 < x4) : ∀ u ∈ uh2 x4 ⌈2 * x4⌉₊, 0 ≤ u := by
  rw [uh2_eq_spec x4 hx]
  intro u hu
  obtain ⟨i, _, rfl⟩ := List.mem_map.mp hu
  exact UH2_nonneg x4 hx _

theorem uh1_length (x4 : ℝ) (n : ℕ) : (uh1 x4 n).length = n := by simp [uh1]
theorem uh2_length (x4 : ℝ) (n : ℕ) : (uh2 x4 n).length = n := by simp [uh2]

/-! ### the lengths chosen by `initGR4J` -/

theorem toInt_ceil (y : ℝ) (hy : 0 < y) : (Num.toInt (Num.ceil y : ℝ)).toNat = ⌈y⌉₊ := by
  show (if (0 : ℝ) ≤ ((⌈y⌉ : ℤ) : ℝ) then ⌊((⌈y⌉ : ℤ) : ℝ)⌋ else ⌈((⌈y⌉ : ℤ) : ℝ)⌉).toNat = ⌈y⌉₊
  have : (0 : ℝ) ≤ ((⌈y⌉ : ℤ) : ℝ) := by exact_mod_cast (Int.ceil_pos.mpr hy).le
  rw [if_pos this, Int.floor_intCast]
  rfl

theorem init_n1 (x4 : ℝ) (hx : 0 < x4) : (initState x4).2.1 = ⌈x4⌉₊ := toInt_ceil x4 hx

theorem init_n2 (x4 : ℝ) (hx : 0 < x4) : (initState x4).2.2 = ⌈2 * x4⌉₊ := by
  exact toInt_ceil (2 * x4) (by linarith)

end OW.RR.GR4J
