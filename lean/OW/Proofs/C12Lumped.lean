import OW.Proofs.C12Scan
import OW.Kernels.LumpedConstituent
import OW.Kernels.StorageDissolvedDecay
import Mathlib.Tactic.NormNum
import Mathlib.Tactic.LinearCombination
/-!
C12 helpers: one step of `LumpedConstituentTransport` over ℝ (also the decay-disabled branch of
`storageDissolvedDecay` and the bank-full-flow-0 branch of `instreamFineSediment`, which call it).
-/
namespace OW.C12
open OW OW.Kernels

/-- One step of the lumped model: exact budget; the ghost `flushed` is non-zero only below the minimum volume;
everything stays non-negative for non-negative data. The only division (`workingMass / workingVol`) happens on the
branch `¬ workingVol < 0.01`, where the divisor is ≥ 0.01 > 0 — no hypothesis needed. -/
theorem lumped_step (pi dt s il ll q v : ℝ) :
    s + (il + ll + pi) * dt =
      (LumpedConstituent.step pi dt s (il, ll, q, v)).1 +
      ((LumpedConstituent.step pi dt s (il, ll, q, v)).2.outflowLoad * dt +
       (LumpedConstituent.step pi dt s (il, ll, q, v)).2.flushed) ∧
    ((LumpedConstituent.step pi dt s (il, ll, q, v)).2.flushed ≠ 0 → q * dt + v < 0.01) ∧
    (0 ≤ pi → 0 ≤ dt → 0 ≤ s → 0 ≤ il → 0 ≤ ll → 0 ≤ q → 0 ≤ v →
      0 ≤ (LumpedConstituent.step pi dt s (il, ll, q, v)).1 ∧
      0 ≤ (LumpedConstituent.step pi dt s (il, ll, q, v)).2.outflowLoad ∧
      0 ≤ (LumpedConstituent.step pi dt s (il, ll, q, v)).2.flushed) := by
  unfold LumpedConstituent.step
  simp only []
  split_ifs with h
  · simp only [LumpedConstituent.minimumVolume] at h
    realnum
    refine ⟨by ring, fun _ => h, fun h1 h2 h3 h4 h5 h6 h7 => ⟨le_refl _, le_refl _, ?_⟩⟩
    have := mul_nonneg (add_nonneg (add_nonneg h4 h5) h1) h2
    linarith
  · simp only [LumpedConstituent.minimumVolume] at h
    realnum
    have hwv : (0:ℝ) < q * dt + v := by
      have : (0.01:ℝ) ≤ q * dt + v := not_lt.mp h
      norm_num at this; linarith
    have hne : q * dt + v ≠ 0 := ne_of_gt hwv
    generalize hc : (s + (il + ll + pi) * dt) / (q * dt + v) = conc
    have key : conc * (q * dt + v) = s + (il + ll + pi) * dt := by
      rw [← hc]; exact div_mul_cancel₀ _ hne
    refine ⟨by linear_combination (-1 : ℝ) * key, fun hf => absurd rfl hf, fun h1 h2 h3 h4 h5 h6 h7 => ?_⟩
    have hwm : 0 ≤ s + (il + ll + pi) * dt := by
      have := mul_nonneg (add_nonneg (add_nonneg h4 h5) h1) h2
      linarith
    have hconc : 0 ≤ conc := by rw [← hc]; exact div_nonneg hwm (le_of_lt hwv)
    exact ⟨mul_nonneg hconc h7, mul_nonneg hconc h6, le_refl _⟩

/-- in the lumped model the divisor of the concentration is positive whenever the division is executed -/
theorem lumped_divisor_pos (dt q v : ℝ) (h : ¬ q * dt + v < 0.01) : 0 < q * dt + v := by
  have : (0.01:ℝ) ≤ q * dt + v := not_lt.mp h
  norm_num at this; linarith

/-- decay-disabled step of `storageDissolvedDecay` = lumped step with lateral 0 and point input 0 -/
theorem dissolvedOff_step (dt s im qi q v : ℝ) :
    s + im * dt =
      (StorageDissolvedDecay.stepOff dt s (im, qi, q, v)).1 +
      ((StorageDissolvedDecay.stepOff dt s (im, qi, q, v)).2.outflowMass * dt +
       (StorageDissolvedDecay.stepOff dt s (im, qi, q, v)).2.flushed) ∧
    ((StorageDissolvedDecay.stepOff dt s (im, qi, q, v)).2.flushed ≠ 0 → q * dt + v < 0.01) ∧
    (StorageDissolvedDecay.stepOff dt s (im, qi, q, v)).2.decayedMass = 0 ∧
    (0 ≤ dt → 0 ≤ s → 0 ≤ im → 0 ≤ q → 0 ≤ v →
      0 ≤ (StorageDissolvedDecay.stepOff dt s (im, qi, q, v)).1 ∧
      0 ≤ (StorageDissolvedDecay.stepOff dt s (im, qi, q, v)).2.outflowMass ∧
      0 ≤ (StorageDissolvedDecay.stepOff dt s (im, qi, q, v)).2.flushed) := by
  have hz : ((0.0 : ℝ)) = 0 := by norm_num
  obtain ⟨h1, h2, h3⟩ := lumped_step 0 dt s im 0 q v
  unfold StorageDissolvedDecay.stepOff
  simp only []
  realnum
  rw [hz]
  refine ⟨?_, h2, trivial, fun a b c d e => h3 (le_refl _) a b c (le_refl _) d e⟩
  rw [← h1]; ring

/-- whole run of the lumped model: budget and flush condition need no hypothesis at all -/
theorem lumped_run (pi dt s0 : ℝ) (xs : List (ℝ × ℝ × ℝ × ℝ)) :
    s0 + (xs.map fun x => (x.1 + x.2.1 + pi) * dt).sum =
      (LumpedConstituent.run pi dt s0 xs).1 +
        ((LumpedConstituent.run pi dt s0 xs).2.map fun o => o.outflowLoad * dt + o.flushed).sum ∧
    List.Forall₂ (fun x o => o.flushed ≠ 0 → x.2.2.1 * dt + x.2.2.2 < 0.01) xs (LumpedConstituent.run pi dt s0 xs).2 := by
  have h := scan_budget (LumpedConstituent.step pi dt) (fun _ => True) (fun _ => True) id
    (fun x => (x.1 + x.2.1 + pi) * dt) (fun o => o.outflowLoad * dt + o.flushed)
    (fun x o => o.flushed ≠ 0 → x.2.2.1 * dt + x.2.2.2 < 0.01)
    (by
      rintro s ⟨il, ll, q, v⟩ _ _
      exact ⟨trivial, (lumped_step pi dt s il ll q v).1, (lumped_step pi dt s il ll q v).2.1⟩)
    xs s0 trivial (fun _ _ => trivial)
  exact ⟨h.2.1, h.2.2⟩

theorem lumped_run_nonneg (pi dt s0 : ℝ) (xs : List (ℝ × ℝ × ℝ × ℝ)) (hpi : 0 ≤ pi) (hdt : 0 ≤ dt) (hs : 0 ≤ s0)
    (hx : ∀ x ∈ xs, 0 ≤ x.1 ∧ 0 ≤ x.2.1 ∧ 0 ≤ x.2.2.1 ∧ 0 ≤ x.2.2.2) :
    0 ≤ (LumpedConstituent.run pi dt s0 xs).1 ∧
    ∀ o ∈ (LumpedConstituent.run pi dt s0 xs).2, 0 ≤ o.outflowLoad ∧ 0 ≤ o.flushed := by
  have h := scan_budget (LumpedConstituent.step pi dt) (fun s => 0 ≤ s)
    (fun x => 0 ≤ x.1 ∧ 0 ≤ x.2.1 ∧ 0 ≤ x.2.2.1 ∧ 0 ≤ x.2.2.2) (fun _ => 0) (fun _ => 0) (fun _ => 0)
    (fun _ o => 0 ≤ o.outflowLoad ∧ 0 ≤ o.flushed)
    (by
      rintro s ⟨il, ll, q, v⟩ hs ⟨a, b, c, d⟩
      obtain ⟨n1, n2, n3⟩ := (lumped_step pi dt s il ll q v).2.2 hpi hdt hs a b c d
      exact ⟨n1, by simp, n2, n3⟩)
    xs s0 hs hx
  exact ⟨h.1, forall₂_imp_forall_right (P := fun (o : LumpedConstituent.Out ℝ) => 0 ≤ o.outflowLoad ∧ 0 ≤ o.flushed) (fun _ _ h => h) h.2.2⟩

theorem dissolvedOff_run (dt s0 : ℝ) (xs : List (ℝ × ℝ × ℝ × ℝ)) :
    s0 + (xs.map fun x => x.1 * dt).sum =
      (scan (StorageDissolvedDecay.stepOff dt) s0 xs).1 +
        ((scan (StorageDissolvedDecay.stepOff dt) s0 xs).2.map fun o => o.outflowMass * dt + o.flushed).sum ∧
    List.Forall₂ (fun x o => (o.flushed ≠ 0 → x.2.2.1 * dt + x.2.2.2 < 0.01) ∧ o.decayedMass = 0) xs
      (scan (StorageDissolvedDecay.stepOff dt) s0 xs).2 := by
  have h := scan_budget (StorageDissolvedDecay.stepOff dt) (fun _ => True) (fun _ => True) id
    (fun x => x.1 * dt) (fun o => o.outflowMass * dt + o.flushed)
    (fun x o => (o.flushed ≠ 0 → x.2.2.1 * dt + x.2.2.2 < 0.01) ∧ o.decayedMass = 0)
    (by
      rintro s ⟨im, qi, q, v⟩ _ _
      obtain ⟨a, b, c, _⟩ := dissolvedOff_step dt s im qi q v
      exact ⟨trivial, a, b, c⟩)
    xs s0 trivial (fun _ _ => trivial)
  exact ⟨h.2.1, h.2.2⟩

theorem dissolvedOff_run_nonneg (dt s0 : ℝ) (xs : List (ℝ × ℝ × ℝ × ℝ)) (hdt : 0 ≤ dt) (hs : 0 ≤ s0)
    (hx : ∀ x ∈ xs, 0 ≤ x.1 ∧ 0 ≤ x.2.2.1 ∧ 0 ≤ x.2.2.2) :
    0 ≤ (scan (StorageDissolvedDecay.stepOff dt) s0 xs).1 ∧
    ∀ o ∈ (scan (StorageDissolvedDecay.stepOff dt) s0 xs).2, 0 ≤ o.outflowMass ∧ 0 ≤ o.flushed := by
  have h := scan_budget (StorageDissolvedDecay.stepOff dt) (fun s => 0 ≤ s)
    (fun x => 0 ≤ x.1 ∧ 0 ≤ x.2.2.1 ∧ 0 ≤ x.2.2.2) (fun _ => 0) (fun _ => 0) (fun _ => 0)
    (fun _ o => 0 ≤ o.outflowMass ∧ 0 ≤ o.flushed)
    (by
      rintro s ⟨im, qi, q, v⟩ hs ⟨a, c, d⟩
      obtain ⟨n1, n2, n3⟩ := (dissolvedOff_step dt s im qi q v).2.2.2 hdt hs a c d
      exact ⟨n1, by simp, n2, n3⟩)
    xs s0 hs hx
  exact ⟨h.1, forall₂_imp_forall_right (P := fun (o : StorageDissolvedDecay.Out ℝ) => 0 ≤ o.outflowMass ∧ 0 ≤ o.flushed) (fun _ _ h => h) h.2.2⟩

/-- with `doStorageDecay < 0.5` the model's loop is the decay-disabled step -/
theorem dissolved_run_off (dt dsd bff mfrt s0 : ℝ) (xs : List (ℝ × ℝ × ℝ × ℝ)) (h : dsd < 0.5) :
    StorageDissolvedDecay.run dt dsd bff mfrt s0 xs = scan (StorageDissolvedDecay.stepOff dt) s0 xs := by
  unfold StorageDissolvedDecay.run StorageDissolvedDecay.step
  have : @LT.lt ℝ (Num.toLT) dsd 0.5 := by realnum; exact h
  rw [if_pos this]

end OW.C12
