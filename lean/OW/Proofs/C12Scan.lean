import OW.Kernels.Basic
import OW.Proofs.RealNum
import Mathlib.Algebra.BigOperators.Group.List.Basic
import Mathlib.Tactic.Ring
import Mathlib.Tactic.Linarith
/-!
C12 helpers: lifting a one-step mass budget / invariant through `scan` (the forward loop of every kernel).
-/
namespace OW.C12
open OW

/-! ### The `Num ℝ` operations are the ordinary real operations
A kernel unfolded at `ℝ` mentions `+ - * / < ≤` and literals through the projections of `instNumReal`; these `rfl`
lemmas rewrite them to the standard instances so that `ring`, `linarith`, `norm_num`, `generalize` see ordinary
real arithmetic. -/
namespace N
theorem add (a b : ℝ) : @HAdd.hAdd ℝ ℝ ℝ (@instHAdd ℝ (Num.toAdd)) a b = a + b := rfl
theorem sub (a b : ℝ) : @HSub.hSub ℝ ℝ ℝ (@instHSub ℝ (Num.toSub)) a b = a - b := rfl
theorem mul (a b : ℝ) : @HMul.hMul ℝ ℝ ℝ (@instHMul ℝ (Num.toMul)) a b = a * b := rfl
theorem div (a b : ℝ) : @HDiv.hDiv ℝ ℝ ℝ (@instHDiv ℝ (Num.toDiv)) a b = a / b := rfl
theorem neg (a : ℝ) : @Neg.neg ℝ (Num.toNeg) a = -a := rfl
theorem lt (a b : ℝ) : @LT.lt ℝ (Num.toLT) a b = (a < b) := rfl
theorem le (a b : ℝ) : @LE.le ℝ (Num.toLE) a b = (a ≤ b) := rfl
theorem sci (m : Nat) (s : Bool) (e : Nat) :
    @OfScientific.ofScientific ℝ (Num.toOfScientific) m s e = (OfScientific.ofScientific m s e : ℝ) := rfl
end N

/-- rewrite every `Num ℝ` projection in the goal and in all hypotheses to the standard real operation -/
macro "realnum" : tactic =>
  `(tactic| (
    try simp only [N.add, N.sub, N.mul, N.div, N.neg, N.lt, N.le, N.sci, RealNum.zero_eq, RealNum.one_eq,
      RealNum.ofNat_eq, RealNum.gmin_eq, RealNum.gmax_eq, RealNum.exp_eq, RealNum.pow_eq, RealNum.abs_eq,
      gt_iff_lt, ge_iff_le] at *
    -- separate pass: `RealNum.ofNat_eq` also matches standard numerals ≥ 2 (the instances unify), so it must not
    -- be in one simp set with `Nat.cast_ofNat`
    try simp only [Nat.cast_ofNat, Nat.cast_zero, Nat.cast_one] at *
    try simp only [RealNum.pmin_eq, RealNum.pmax_eq] at *))

/-- One-step facts lift to whole runs: if every step from a state satisfying `Inv` on an input satisfying `Ok`
keeps `Inv`, closes the budget `mass s + inn x = mass s' + out o` and relates input and output by `R`, then for
every input list (hence every prefix of every run) the run keeps `Inv`, closes the summed budget and relates the
inputs to the outputs pointwise. -/
theorem scan_budget {σ ι ο : Type} (step : σ → ι → σ × ο)
    (Inv : σ → Prop) (Ok : ι → Prop) (mass : σ → ℝ) (inn : ι → ℝ) (out : ο → ℝ) (R : ι → ο → Prop)
    (hstep : ∀ s x, Inv s → Ok x →
      Inv (step s x).1 ∧ mass s + inn x = mass (step s x).1 + out (step s x).2 ∧ R x (step s x).2) :
    ∀ (xs : List ι) (s : σ), Inv s → (∀ x ∈ xs, Ok x) →
      Inv (scan step s xs).1 ∧
      mass s + (xs.map inn).sum = mass (scan step s xs).1 + ((scan step s xs).2.map out).sum ∧
      List.Forall₂ R xs (scan step s xs).2 := by
  intro xs
  induction xs with
  | nil => intro s hs _; simp [scan, hs]
  | cons x xs ih =>
    intro s hs hok
    obtain ⟨h1, h2, h3⟩ := hstep s x hs (hok x (List.mem_cons_self ..))
    obtain ⟨i1, i2, i3⟩ := ih (step s x).1 h1 (fun y hy => hok y (List.mem_cons_of_mem _ hy))
    refine ⟨by simpa [scan] using i1, ?_, ?_⟩
    · simp only [scan, List.map_cons, List.sum_cons]
      linarith
    · simpa [scan] using List.Forall₂.cons h3 i3

/-- the states the loop is in BEFORE each step (same length as the input list) -/
def preStates {σ ι ο : Type} (step : σ → ι → σ × ο) : σ → List ι → List σ
  | _, [] => []
  | s, x :: xs => s :: preStates step (step s x).1 xs

/-- a relation between the state before a step, the step's input and its output holds at every step of every run -/
theorem scan_state_rel {σ ι ο : Type} (step : σ → ι → σ × ο) (Inv : σ → Prop) (Ok : ι → Prop)
    (R : σ → ι → ο → Prop)
    (hstep : ∀ s x, Inv s → Ok x → Inv (step s x).1 ∧ R s x (step s x).2) :
    ∀ (xs : List ι) (s : σ), Inv s → (∀ x ∈ xs, Ok x) →
      List.Forall₂ (fun (sx : σ × ι) o => R sx.1 sx.2 o) ((preStates step s xs).zip xs) (scan step s xs).2 := by
  intro xs
  induction xs with
  | nil => intro s _ _; simp [scan, preStates]
  | cons x xs ih =>
    intro s hs hok
    obtain ⟨h1, h2⟩ := hstep s x hs (hok x (List.mem_cons_self ..))
    have i := ih (step s x).1 h1 (fun y hy => hok y (List.mem_cons_of_mem _ hy))
    simpa [scan, preStates] using List.Forall₂.cons (R := fun (sx : σ × ι) o => R sx.1 sx.2 o) (a := (s, x)) h2 i

/-- every element of the output list satisfies `P` when related pointwise to some input -/
theorem forall₂_imp_forall_right {ι ο : Type} {R : ι → ο → Prop} {P : ο → Prop} (h : ∀ x o, R x o → P o) :
    ∀ {xs : List ι} {os : List ο}, List.Forall₂ R xs os → ∀ o ∈ os, P o := by
  intro xs os hf
  induction hf with
  | nil => intro o ho; cases ho
  | cons hr _ ih =>
    intro o ho
    rcases List.mem_cons.mp ho with rfl | ho
    · exact h _ _ hr
    · exact ih o ho

/-- The outputs of a run on a prefix of the inputs are the prefix of the outputs (the kernels are causal), so a
statement proved for every input list is a statement about every prefix of every run. -/
theorem scan_take {σ ι ο : Type} (step : σ → ι → σ × ο) (s : σ) (xs : List ι) (n : Nat) :
    (scan step s (xs.take n)).2 = (scan step s xs).2.take n := by
  induction xs generalizing s n with
  | nil => simp [scan]
  | cons x xs ih =>
    cases n with
    | zero => simp [scan]
    | succ n => simp [scan, ih]

end OW.C12
