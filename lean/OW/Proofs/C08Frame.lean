import OW.Proofs.C08Trace
/-!
C08 — frame lemmas for EVERY outcome (nil, returned error, panic) of the io operations: an object that exists at a path
other than the one the call names is left exactly as it was. Used by `OW/Props/C08Persist.lean` to compose "what an
earlier Write stored is what a later Load returns" across intervening calls on other paths.
-/
namespace OW.Proofs.C08H5
open OW.Nd OW.Sim.H5

/-- the dataset path a call names (`H5Ref….Dataset`) -/
def Op.path : Op → String
  | .write _ _ p => p
  | .writeSlice _ _ p _ => p
  | .create p _ => p
  | .load p _ => p

/-- `createDataset`, EVERY outcome: objects that existed are unchanged (groups / the dataset are only appended) -/
theorem createDs_frame (dims : List Nat) : ∀ (n : Nat) (comps : List String), comps.length ≤ n →
    ∀ (t : Tree) (cur : Path) (r : Path), find t r ≠ none → find (createDs dims t cur comps).1 r = find t r := by
  intro n
  induction n with
  | zero =>
    intro comps hl t cur r _
    have : comps = [] := List.length_eq_zero_iff.mp (by omega)
    subst this
    rw [createDs]
    simp [stripLead]
  | succ n ih =>
    intro comps hl t cur r hr
    rw [createDs]
    have hlen := stripLead_length_le comps
    split
    · rfl
    · split
      · rfl
      · split
        · rfl
        · exact find_append_other hr
    · rename_i g r' rest hs
      rw [hs] at hlen
      simp only [List.length_cons] at hlen
      have hl' : (r' :: rest).length ≤ n := by simp only [List.length_cons]; omega
      split
      · exact ih _ hl' _ _ _ hr
      · split
        · exact ih _ hl' _ _ _ hr
        · rfl
        · rw [ih _ hl' _ _ _ (by rw [find_append_other hr]; exact hr), find_append_other hr]

/-- `openOrCreateDataset`, every outcome -/
theorem openOrCreate_frame {t : Tree} (path : String) (shape : Idx) {r : Path} (hr : find t r ≠ none) :
    find (openOrCreate t path shape).1 r = find t r := by
  unfold openOrCreate
  split
  · split <;> rfl
  · exact createDs_frame _ _ _ (Nat.le_refl _) _ _ _ hr

/-- a successful `openOrCreateDataset` returns the path the call names -/
theorem openOrCreate_path {t t1 : Tree} {path : String} {shape : Idx} {p : Path}
    (h : openOrCreate t path shape = (t1, .ok p)) : p = splitPath path := by
  unfold openOrCreate at h
  split at h
  · rename_i p' s v hod
    split at h
    · simp only [Prod.mk.injEq, Res.ok.injEq] at h
      obtain ⟨-, rfl⟩ := h
      exact (openDataset_eq.mp hod).1
    · simp at h
  · obtain ⟨h1, -⟩ := createDs_ok _ _ _ (Nat.le_refl _) _ _ _ _ h
    rw [h1]
    simp only [List.nil_append, splitPath]
    rfl

/-- `Write(data)`, EVERY outcome, any source array, either width: the file exists afterwards and every object that
existed at a path other than the one the call names is unchanged -/
theorem write_frame (narrow : Bool) (h : Heap Int) (a : Arr) (t : Tree) (path : String) {r : Path}
    (hr : find t r ≠ none) (hne : r ≠ splitPath path) :
    ∃ t', (write narrow h a (some t) path).1 = some t' ∧ find t' r = find t r := by
  unfold write
  simp only [openW]
  split
  · exact ⟨t, rfl, rfl⟩
  · have hoc := openOrCreate_frame path a.v.dims hr
    split
    · rename_i t1 c e; rw [e] at hoc; exact ⟨t1, rfl, hoc⟩
    · rename_i t1 c e; rw [e] at hoc; exact ⟨t1, rfl, hoc⟩
    · rename_i t1 p e
      have hp := openOrCreate_path e
      rw [e] at hoc
      split
      · exact ⟨t1, rfl, hoc⟩
      · split
        · split
          · refine ⟨_, rfl, ?_⟩
            rw [find_setVals_other _ _ _ _ (by rw [hp]; exact hne)]
            exact hoc
          · exact ⟨t1, rfl, hoc⟩
        · exact ⟨t1, rfl, hoc⟩

/-- `Create(shape)`, every outcome -/
theorem create_frame (t : Tree) (path : String) (shape : Idx) {r : Path} (hr : find t r ≠ none) :
    ∃ t', (create (some t) path shape).1 = some t' ∧ find t' r = find t r := by
  unfold create
  simp only [openW]
  have hoc := openOrCreate_frame path shape hr
  split
  · rename_i t1 c e; rw [e] at hoc; exact ⟨t1, rfl, hoc⟩
  · rename_i t1 c e; rw [e] at hoc; exact ⟨t1, rfl, hoc⟩
  · rename_i t1 p e; rw [e] at hoc; exact ⟨t1, rfl, hoc⟩

/-- `WriteSlice(data, loc)`, every outcome -/
theorem writeSlice_frame (narrow : Bool) (h : Heap Int) (a : Arr) (t : Tree) (path : String) (loc : Idx) {r : Path}
    (hne : r ≠ splitPath path) :
    ∃ t', (writeSlice narrow h a (some t) path loc).1 = some t' ∧ find t' r = find t r := by
  unfold writeSlice
  simp only [openW]
  split
  · exact ⟨t, rfl, rfl⟩
  · rename_i p s v hod
    have hp := (openDataset_eq.mp hod).1
    split
    · exact ⟨t, rfl, rfl⟩
    · split
      · exact ⟨t, rfl, rfl⟩
      · split
        · exact ⟨_, rfl, find_setVals_other _ _ _ _ (by rw [hp]; exact hne)⟩
        · exact ⟨t, rfl, rfl⟩

/-- ONE call, every kind, every outcome: an existing object at a path the call does not name is unchanged -/
theorem stepOp_frame (narrow : Bool) (t : Tree) (op : Op) {r : Path} (hr : find t r ≠ none)
    (hne : r ≠ splitPath op.path) :
    ∃ t', stepOp narrow (some t) op = some t' ∧ find t' r = find t r := by
  cases op with
  | write h a path => exact write_frame narrow h a t path hr hne
  | writeSlice h a path loc => exact writeSlice_frame narrow h a t path loc hne
  | create path shape => exact create_frame t path shape hr
  | load path sel => exact ⟨t, rfl, rfl⟩

/-- any SEQUENCE of calls none of which names the path `r`: an object that existed at `r` is unchanged -/
theorem applyOps_frame (narrow : Bool) : ∀ (ops : List Op) (t : Tree) {r : Path}, find t r ≠ none →
    (∀ op ∈ ops, r ≠ splitPath op.path) →
    ∃ t', applyOps narrow (some t) ops = some t' ∧ find t' r = find t r := by
  intro ops
  induction ops with
  | nil => intro t r _ _; exact ⟨t, rfl, rfl⟩
  | cons op rest ih =>
    intro t r hr hall
    obtain ⟨t1, h1, h2⟩ := stepOp_frame narrow t op hr (hall op (by simp))
    obtain ⟨t2, h3, h4⟩ := ih t1 (by rw [h2]; exact hr) (fun o ho => hall o (List.mem_cons_of_mem _ ho))
    refine ⟨t2, ?_, by rw [h4, h2]⟩
    simp only [applyOps, List.foldl_cons] at h3 ⊢
    rw [h1]
    exact h3

/-- `Load` (with or without a selection) depends on the file only through the object at the path it names -/
theorem load_congr (narrow : Bool) {t t' : Tree} (path : String) (sel : Option Sel)
    (h : find t' (splitPath path) = find t (splitPath path)) :
    load narrow (some t') path sel = load narrow (some t) path sel := by
  simp only [load, openDataset, h]

end OW.Proofs.C08H5
