import OW.Proofs.Rounded
import OW.Kernels.LumpedConstituent
import OW.Kernels.ConstituentDecay
import OW.Kernels.StorageParticulateTrapping
/-!
Helper lemmas for OW/Props/Rounded/C12.lean: one step of the lumped constituent model, the half-life block of ConstituentDecay and
the clipped trapping efficiency, over rounded arithmetic (`RNum R`).
-/
namespace OW.Rounded.Constituent
open OW OW.Kernels OW.Rounded

variable {R : Rounding}

/-- one step from a non-negative store on non-negative inputs: store, downstream load and flushed mass stay non-negative -/
theorem lumped_step (pt dt sm : RNum R) (x : RNum R × RNum R × RNum R × RNum R)
    (hpt : 0 ≤ pt.val) (hdt : 0 ≤ dt.val) (hs : 0 ≤ sm.val)
    (hx : 0 ≤ x.1.val ∧ 0 ≤ x.2.1.val ∧ 0 ≤ x.2.2.1.val ∧ 0 ≤ x.2.2.2.val) :
    0 ≤ (LumpedConstituent.step pt dt sm x).1.val ∧
    0 ≤ (LumpedConstituent.step pt dt sm x).2.outflowLoad.val ∧ 0 ≤ (LumpedConstituent.step pt dt sm x).2.flushed.val := by
  obtain ⟨a, b, c, d⟩ := x
  obtain ⟨ha, hb, hc, hd⟩ := hx
  simp only at ha hb hc hd
  have hwm : 0 ≤ (sm + (a + b + pt) * dt).val :=
    RNum.add_nonneg hs (RNum.mul_nonneg (RNum.add_nonneg (RNum.add_nonneg ha hb) hpt) hdt)
  have hwv : 0 ≤ (c * dt + d).val := RNum.add_nonneg (RNum.mul_nonneg hc hdt) hd
  simp only [LumpedConstituent.step]
  split_ifs
  · exact ⟨le_refl _, le_refl _, hwm⟩
  · exact ⟨RNum.mul_nonneg (RNum.div_nonneg hwm hwv) hd, RNum.mul_nonneg (RNum.div_nonneg hwm hwv) hc, le_refl _⟩

/-- the half-life block under rounding (`exp2` idealised as a correctly rounded function, `2` representable): with `Δt ≥ 0` and a
non-negative store, the decayed amount, the decayed load and the remaining store are non-negative (the decay fraction
`2^(−Δt/halflife)` stays in `[0, 1]` after rounding because `1` bounds it before) -/
theorem decay_nonneg (hl dt sm : RNum R) (h2 : R.Rep 2) (hdt : 0 ≤ dt.val) (hs : 0 ≤ sm.val) :
    0 ≤ (ConstituentDecay.decay hl dt sm).1.val ∧ 0 ≤ (ConstituentDecay.decay hl dt sm).2.1.val ∧
    0 ≤ (ConstituentDecay.decay hl dt sm).2.2.val := by
  unfold ConstituentDecay.decay
  split_ifs with h
  · rw [RNum.gt_iff, RNum.nat_zero_val] at h
    have he : (-dt / hl).val ≤ 0 := by
      rw [RNum.div_val, RNum.neg_val]
      exact R.rnd_nonpos (div_nonpos_of_nonpos_of_nonneg (by linarith) h.le)
    have hb : (OfScientific.ofScientific 20 true 1 : RNum R).val = 2 := by
      rw [RNum.ofScientific_val]; norm_num; exact h2
    have hf0 : 0 ≤ (Num.pow (2.0 : RNum R) (-dt / hl)).val := by
      rw [RNum.pow_val, hb]; exact R.rnd_nonneg (Real.rpow_nonneg (by norm_num) _)
    have hf1 : (Num.pow (2.0 : RNum R) (-dt / hl)).val ≤ R.rnd 1 := by
      rw [RNum.pow_val, hb]
      exact R.rnd_le_rnd (Real.rpow_le_one_of_one_le_of_nonpos (by norm_num) he)
    have h1f : 0 ≤ ((1 : RNum R) - Num.pow (2.0 : RNum R) (-dt / hl)).val := by
      rw [RNum.sub_val, RNum.ofNat_val, Nat.cast_one]; exact R.rnd_nonneg (by linarith)
    exact ⟨RNum.mul_nonneg h1f hs, RNum.div_nonneg (RNum.mul_nonneg h1f hs) hdt, RNum.mul_nonneg hs hf0⟩
  · exact ⟨by rw [RNum.sci_zero_val], le_refl _, hs⟩

open StorageParticulateTrapping (Params) in
/-- the trapping efficiency is clipped to `[0, rnd 100]` whatever the (idealised, rounded) powers return -/
theorem damTrappingPC_bounds (p : Params (RNum R)) (q : RNum R) :
    0 ≤ (StorageParticulateTrapping.damTrappingPC p q).val ∧
    (StorageParticulateTrapping.damTrappingPC p q).val ≤ (100.0 : RNum R).val := by
  have h100 : 0 ≤ (100.0 : RNum R).val := RNum.sci_nonneg _ _ _
  unfold StorageParticulateTrapping.damTrappingPC
  split_ifs
  · simp only [RNum.pmin_val, RNum.pmax_val]
    exact ⟨le_min h100 (le_max_of_le_left (RNum.sci_nonneg _ _ _)), min_le_left _ _⟩
  · exact ⟨RNum.sci_nonneg _ _ _, by rw [RNum.sci_zero_val]; exact h100⟩

end OW.Rounded.Constituent
