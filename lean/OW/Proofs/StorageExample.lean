import OW.Proofs.Storage
/-! A concrete successful run of the Storage kernel at ℝ (non-vacuity witness for the theorems of OW/Props/C13.lean):
table with two knots (volumes 0 / 1000 m³, levels 0 / 10 m, areas 0 / 100 m², minimum release 0 / 0, maximum release 0 / 2),
one timestep of 1 s, inflow 1 m³/s into the empty storage, no demand, no rain, no evaporation. -/
namespace OW.Proofs.StorageExample
open OW OW.Kernels.Storage OW.Proofs.Storage

def tEx : Tables ℝ := ⟨[0, 10], [0, 1000], [0, 100], [0, 0], [0, 2], 0, 1000, 0⟩

theorem capEx (v : ℝ) (ys0 ys1 : ℝ) (h0 : 0 ≤ v) (h1 : v < 1000) (hy : ys0 ≤ ys1) :
    cappedPiecewise tEx v [ys0, ys1] = .ok (ys0 + v / 1000 * (ys1 - ys0)) := by
  have a : ¬ v < 0 := not_lt.mpr h0
  have b : ¬ (1000:ℝ) < v := not_lt.mpr h1.le
  have c : v ≤ 1000 := h1.le
  have d : ¬ (v = 1000) := ne_of_lt h1
  simp only [cappedPiecewise, tEx, Fn.piecewise, Fn.brackets, Fn.bracketLoop, List.getLast?, List.getLast, Option.getD]
  simp [-RealNum.ofNat_eq, a, b, c, d]
  have e : v / 1000 < 1 := by rw [div_lt_one (by norm_num)]; exact h1
  have e0 : 0 ≤ v / 1000 := by positivity
  have f : ¬ (ys0 ≤ ys1 ∧ ys1 < ys0 + v / 1000 * (ys1 - ys0) ∨ ys1 ≤ ys0 ∧ ys0 + v / 1000 * (ys1 - ys0) < ys1) := by
    rintro (⟨_, h⟩ | ⟨h', h⟩)
    · nlinarith
    · have : ys0 = ys1 := le_antisymm hy h'
      subst this; nlinarith
  rw [if_neg f]

theorem relEx (v : ℝ) (h0 : 0 ≤ v) (h1 : v < 1000) : releaseRate tEx 0 v = .ok 0 := by
  have a := capEx v 0 0 h0 h1 (le_refl _)
  have b := capEx v 0 2 h0 h1 (by norm_num)
  have e1 : tEx.minRelease = [0, 0] := rfl
  have e2 : tEx.maxRelease = [0, 2] := rfl
  unfold releaseRate
  rw [e1, e2, a, b]
  simp only [bind, Except.bind, pure, Except.pure]
  have c1 : ¬ ((0:ℝ) < 0 + v / 1000 * (0 - 0)) := by norm_num
  have c2 : ¬ (0 + v / 1000 * (2 - 0) < (0:ℝ)) := by
    have : 0 ≤ v / 1000 := by positivity
    linarith
  rw [if_neg c1, if_neg c2]

theorem allowedAbs_pos : (0:ℝ) < allowedAbs := by
  show (0:ℝ) < (1e-4 : ℝ)
  norm_num

theorem closeEx : releaseRatesCloseEnough (0:ℝ) ((0 + 0) / 2) = true := by
  unfold releaseRatesCloseEnough
  simp only [RealNum.abs_eq]
  have : |(0:ℝ) - (0 + 0) / 2| < allowedAbs := by
    have e : |(0:ℝ) - (0 + 0) / 2| = 0 := by norm_num
    rw [e]; exact allowedAbs_pos
  rw [if_pos this]

def accEx : Accepted ℝ := ⟨1, 0, 0.05, 0, 0, 1, 1, ["accept"]⟩

theorem trialEx (nf : ℝ) (hnf : nf = 0) : trial tEx 1 0 nf 0 0 0 1 1 [] = .ok accEx := by
  subst hnf
  simp only [trial, zero_lit, two_lit, minStepNeg_eq, minStepPos_eq]
  have c1 : ¬ ((0:ℝ) + (1 - 0 + 0 * 0) * 1 < 0) := by norm_num
  rw [if_neg c1]
  have e3 : tEx.areas = [0, 100] := rfl
  rw [e3, capEx _ 0 100 (by norm_num) (by norm_num) (by norm_num)]
  simp only [bind, Except.bind]
  rw [relEx _ (by norm_num) (by norm_num)]
  simp only
  have c2 : (0:ℝ) ≤ 0 + (1 - (0 + 0) / 2 + 0 * (0 + (0 + (1 - 0 + 0 * 0) * 1 + 0) / 2 / 1000 * (100 - 0))) * 1 := by norm_num
  rw [if_pos c2, if_pos closeEx]
  simp only [pure, Except.pure, Except.ok.injEq, accEx, Accepted.mk.injEq]
  refine ⟨trivial, ?_, ?_, trivial, trivial, ?_, ?_, by decide⟩ <;> norm_num

theorem stepEx : step tEx true 2 1 1 0 [] (0, 0, 1, 0) =
    .ok (1, ["accept"], ⟨1, 0, 0, 0, [⟨0, accEx, 1, 0, 1⟩]⟩) := by
  have hnf : ((0:ℝ) / 1 - 0 / 1) * mmToM = 0 := by norm_num
  simp only [step, outer, outerBody, zero_lit, two_lit, RealNum.gmin_eq, bind, Except.bind]
  have c0 : (0:ℝ) < 1 := by norm_num
  rw [if_pos c0]
  have e3 : tEx.areas = [0, 100] := rfl
  have m : min (1:ℝ) (1 * 2) = 1 := by norm_num
  rw [relEx 0 (le_refl _) (by norm_num), e3, capEx 0 0 100 (le_refl _) (by norm_num) (by norm_num), m]
  simp only
  have z : (0:ℝ) + 0 / 1000 * (100 - 0) = 0 := by norm_num
  rw [z, trialEx _ hnf]
  simp only [accEx]
  simp only [hnf]
  have u : (0:ℝ) + (1 + 0 * 5e-2 - 0) * 1 = 1 := by norm_num
  simp only [u]
  have sp : spill tEx 1 0 1 = (0, 1, false) := by
    unfold spill
    have : ¬ (tEx.volCurveMax < 1) := by
      show ¬ ((1000:ℝ) < 1)
      norm_num
    rw [if_neg this]; rfl
  simp only [sp]
  have c1 : ¬ ((1:ℝ) < 0) := by norm_num
  simp only [if_neg c1]
  have c2 : ¬ ((0:ℝ) < 1 - 1) := by norm_num
  simp only [pure, Except.pure, if_neg c2, if_true, Bool.false_eq_true, if_false, List.reverse_cons, List.reverse_nil,
    List.nil_append, Except.ok.injEq, Prod.mk.injEq, StepOut.mk.injEq, true_and, and_true]
  refine ⟨by norm_num, by norm_num, by norm_num⟩

/-- a complete successful run: one timestep of 1 s, inflow 1 m³/s into the empty storage -/
theorem runEx : run tEx true 2 1 1 0 [(0, 0, 1, 0)] =
    .ok ⟨[⟨1, 0, 0, 0, [⟨0, accEx, 1, 0, 1⟩]⟩], 1, 0 + 1 / 1000 * (10 - 0), 0 + 1 / 1000 * (100 - 0), ["accept"]⟩ := by
  have e1 : tEx.levels = [0, 10] := rfl
  have e3 : tEx.areas = [0, 100] := rfl
  simp only [run, steps, bind, Except.bind, stepEx, pure, Except.pure]
  rw [e1, e3, capEx 1 0 10 (by norm_num) (by norm_num) (by norm_num),
    capEx 1 0 100 (by norm_num) (by norm_num) (by norm_num)]

end OW.Proofs.StorageExample
