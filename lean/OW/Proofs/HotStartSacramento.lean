import OW.Proofs.HotStart
import OW.Proofs.C12Scan
import OW.Kernels.Sacramento
/-!
Hot-start lemmas for Sacramento at ℝ (C06): when the unit hydrograph does not spread the flow over steps (uh2..uh5 = 0)
the outputs do not depend on the delay buffer `qq` (a local of the kernel, re-created at every call), and the scaled
lower-zone contents `alzfsc/alzfpc` carried inside a call are recovered exactly from the state row.
-/
set_option linter.unusedSimpArgs false
set_option linter.unusedVariables false
namespace OW.Proofs.SacHot
open OW OW.Kernels.Sacramento OW.C12

/-- with a unit hydrograph that does not spread the flow (only the first ordinate is non-zero) the routed flow does
not depend on the older cells of the buffer -/
theorem convolve_nospread (q0 d0 : ℝ) (t t' : List ℝ) (ht : t.length = 4) (ht' : t'.length = 4) :
    convolve (q0 :: t) [d0, 0, 0, 0, 0] = convolve (q0 :: t') [d0, 0, 0, 0, 0] := by
  match t, t', ht, ht' with
  | [x1, x2, x3, x4], [y1, y2, y3, y4], _, _ =>
    simp only [convolve, List.zipWith, List.foldl, N.mul, N.add, mul_zero, add_zero]

theorem channel_nospread (p : Params ℝ) (c : Consts ℝ) (q q' : List ℝ) (d0 : ℝ)
    (hq : q.length = 5) (hq' : q'.length = 5) (hdro : c.dro = [d0, 0, 0, 0, 0]) (e : ℝ) (v : Inner ℝ) :
    (channel p c q e v).lzfpc = (channel p c q' e v).lzfpc ∧ (channel p c q e v).lzfsc = (channel p c q' e v).lzfsc ∧
    (channel p c q e v).qf = (channel p c q' e v).qf ∧ (channel p c q e v).bf = (channel p c q' e v).bf ∧
    (channel p c q e v).e4 = (channel p c q' e v).e4 ∧
    (channel p c q e v).baseflowFraction = (channel p c q' e v).baseflowFraction ∧
    (channel p c q e v).tags = (channel p c q' e v).tags ∧
    (channel p c q e v).qq.length = 5 ∧ (channel p c q' e v).qq.length = 5 := by
  have key : ∀ q0 : ℝ, convolve (q0 :: q.tail) c.dro = convolve (q0 :: q'.tail) c.dro := by
    intro q0; rw [hdro]; exact convolve_nospread q0 d0 _ _ (by simp [hq]) (by simp [hq'])
  refine ⟨?_, ?_, ?_, ?_, ?_, ?_, ?_, ?_, ?_⟩
  · simp only [channel, key]
  · simp only [channel, key]
  · simp only [channel, key]
  · simp only [channel, key]
  · simp only [channel, key]
  · simp only [channel, key]
  · simp only [channel, key]
  · simp [channel, hq]
  · simp [channel, hq']

/-- a state with its unit-hydrograph buffer forgotten -/
def noQ (s : State ℝ) : State ℝ := { s with qq := [] }

/-- one time step from two states that differ only in the buffer: same outputs, new states differ only in the buffer -/
theorem step_nospread (p : Params ℝ) (c : Consts ℝ) (d0 : ℝ) (hdro : c.dro = [d0, 0, 0, 0, 0]) (s s' : State ℝ)
    (i : ℝ × ℝ) (h : noQ s = noQ s') (hq : s.qq.length = 5) (hq' : s'.qq.length = 5) :
    (step p c s i).2 = (step p c s' i).2 ∧ noQ (step p c s i).1 = noQ (step p c s' i).1 ∧
    (step p c s i).1.qq.length = 5 ∧ (step p c s' i).1.qq.length = 5 := by
  obtain ⟨s1, s2, s3, s4, s5, s6, s7, s8, q⟩ := s
  obtain ⟨t1, t2, t3, t4, t5, t6, t7, t8, q'⟩ := s'
  simp only [noQ, State.mk.injEq, and_true] at h
  obtain ⟨rfl, rfl, rfl, rfl, rfl, rfl, rfl, rfl⟩ := h
  simp only at hq hq'
  have hc := channel_nospread p c q q' d0 hq hq' hdro
  refine ⟨?_, ?_, ?_, ?_⟩
  · simp only [step, (hc _ _).1, (hc _ _).2.1, (hc _ _).2.2.1, (hc _ _).2.2.2.1, (hc _ _).2.2.2.2.1,
      (hc _ _).2.2.2.2.2.1, (hc _ _).2.2.2.2.2.2.1]
  · simp only [step, noQ, (hc _ _).1, (hc _ _).2.1]
  · simp only [step]; exact (hc _ _).2.2.2.2.2.2.2.1
  · simp only [step]; exact (hc _ _).2.2.2.2.2.2.2.2

/-- whole runs from two states that differ only in the buffer -/
theorem scan_nospread (p : Params ℝ) (c : Consts ℝ) (d0 : ℝ) (hdro : c.dro = [d0, 0, 0, 0, 0]) :
    ∀ (xs : List (ℝ × ℝ)) (s s' : State ℝ), noQ s = noQ s' → s.qq.length = 5 → s'.qq.length = 5 →
      (scan (step p c) s xs).2 = (scan (step p c) s' xs).2 ∧
      noQ (scan (step p c) s xs).1 = noQ (scan (step p c) s' xs).1 ∧
      (scan (step p c) s xs).1.qq.length = 5 := by
  intro xs
  induction xs with
  | nil => intro s s' h hq hq'; exact ⟨rfl, h, hq⟩
  | cons x xs ih =>
    intro s s' h hq hq'
    obtain ⟨h1, h2, h3, h4⟩ := step_nospread p c d0 hdro s s' x h hq hq'
    obtain ⟨i1, i2, i3⟩ := ih _ _ h2 h3 h4
    simp only [scan]
    exact ⟨by rw [h1, i1], i2, i3⟩

/-- the scaled lower-zone free-water contents carried inside a call are the state-row values times (1 + side) -/
def Inv (side : ℝ) (s : State ℝ) : Prop :=
  s.alzfsc = s.lzfsc * (1.0 + side) ∧ s.alzfpc = s.lzfpc * (1.0 + side)

theorem step_inv (p : Params ℝ) (c : Consts ℝ) (hside : (1.0 : ℝ) + p.side ≠ 0) (s : State ℝ) (i : ℝ × ℝ) :
    Inv p.side (step p c s i).1 := by
  constructor
  · simp only [step, channel]
    exact (div_mul_cancel₀ _ hside).symm
  · simp only [step, channel]
    exact (div_mul_cancel₀ _ hside).symm

theorem scan_inv (p : Params ℝ) (c : Consts ℝ) (hside : (1.0 : ℝ) + p.side ≠ 0) :
    ∀ (xs : List (ℝ × ℝ)) (s : State ℝ), Inv p.side s → Inv p.side (scan (step p c) s xs).1 := by
  intro xs
  induction xs with
  | nil => intro s h; exact h
  | cons x xs ih => intro s _; simp only [scan]; exact ih _ (step_inv p c hside s x)

end OW.Proofs.SacHot
