import OW.Proofs.GR4JBudget
/-!
C15: size of the difference between the equations as printed and the safeguarded ones (tanh argument capped at 13)
on ONE day: for a production store within [0, x1] both Ps and Es move by at most x1·(1 − tanh 13)
(1 − tanh 13 = 2/(e²⁶ + 1) ≈ 1.02·10⁻¹¹; the numerical value is a hand calculation, not a theorem).
-/
namespace OW.RR.GR4J
open OW

theorem tanh_mono {a b : ℝ} (h : a ≤ b) : Real.tanh a ≤ Real.tanh b := by
  rw [Real.tanh_eq_sinh_div_cosh, Real.tanh_eq_sinh_div_cosh, div_le_div_iff₀ (Real.cosh_pos a) (Real.cosh_pos b)]
  have h1 : Real.sinh (a - b) ≤ 0 := Real.sinh_nonpos_iff.mpr (by linarith)
  rw [Real.sinh_sub] at h1
  linarith

/-- `a·t/(1+c·t)` is non-decreasing and 1-Lipschitz (times any A ≥ a) in t ≥ 0, for a ≥ 0 and c ≥ 0; the divisors
1 + c·t are ≥ 1 -/
theorem frac_lipschitz (a A c t0 t1 : ℝ) (ha : 0 ≤ a) (haA : a ≤ A) (hc : 0 ≤ c) (h0 : 0 ≤ t0) (h01 : t0 ≤ t1) :
    0 ≤ a * t1 / (1 + c * t1) - a * t0 / (1 + c * t0) ∧
    a * t1 / (1 + c * t1) - a * t0 / (1 + c * t0) ≤ A * (t1 - t0) := by
  have hD1 : 1 ≤ 1 + c * t1 := by nlinarith [mul_nonneg hc (le_trans h0 h01)]
  have hD0 : 1 ≤ 1 + c * t0 := by nlinarith [mul_nonneg hc h0]
  have key : a * t1 / (1 + c * t1) - a * t0 / (1 + c * t0) = a * (t1 - t0) / ((1 + c * t1) * (1 + c * t0)) := by
    have e1 : (1 + c * t1) ≠ 0 := by linarith
    have e0 : (1 + c * t0) ≠ 0 := by linarith
    rw [div_sub_div _ _ e1 e0]
    congr 1
    ring
  have hDD : 1 ≤ (1 + c * t1) * (1 + c * t0) := by nlinarith
  have hnum : 0 ≤ a * (t1 - t0) := mul_nonneg ha (by linarith)
  rw [key]
  refine ⟨div_nonneg hnum (by linarith), ?_⟩
  calc a * (t1 - t0) / ((1 + c * t1) * (1 + c * t0)) ≤ a * (t1 - t0) := div_le_self hnum hDD
    _ ≤ A * (t1 - t0) := mul_le_mul_of_nonneg_right haA (by linarith)

/-- for w ≥ 0: 0 ≤ tanh(cap w) ≤ tanh w and tanh w − tanh(cap w) ≤ 1 − tanh 13 -/
theorem tanh_cap_gap (w : ℝ) (hw : 0 ≤ w) :
    0 ≤ Real.tanh (cap w) ∧ Real.tanh (cap w) ≤ Real.tanh w ∧ Real.tanh w - Real.tanh (cap w) ≤ 1 - Real.tanh 13 := by
  refine ⟨tanh_nonneg (cap_nonneg hw), tanh_mono cap_le, ?_⟩
  unfold cap
  split_ifs with h
  · linarith [Real.tanh_lt_one w]
  · linarith [Real.tanh_lt_one 13]

theorem Ps_published_real (x1 S pn : ℝ) :
    Spec.GR4J.Ps Spec.GR4J.tanhArgPublished x1 S pn =
      (x1 * (1 - (S / x1) ^ 2) * Real.tanh (pn / x1)) / (1 + (S / x1) * Real.tanh (pn / x1)) := by
  simp only [Spec.GR4J.Ps, Spec.GR4J.sq, Spec.GR4J.tanhArgPublished, RealNum.tanh_eq, RealNum.ofNat_eq]
  norm_num only
  ring_nf

theorem Es_published_real (x1 S en : ℝ) :
    Spec.GR4J.Es Spec.GR4J.tanhArgPublished x1 S en =
      (S * (2 - S / x1) * Real.tanh (en / x1)) / (1 + (1 - S / x1) * Real.tanh (en / x1)) := by
  simp only [Spec.GR4J.Es, Spec.GR4J.tanhArgPublished, RealNum.tanh_eq, RealNum.ofNat_eq]
  norm_num only

/-- **Size of the safeguard on one day.** x1 > 0 (the divisor), 0 ≤ S ≤ x1, Pn ≥ 0, En ≥ 0: the published Ps / Es
are at least the safeguarded ones and exceed them by at most x1·(1 − tanh 13). -/
theorem cap_day_gap (x1 S pn en : ℝ) (hx1 : 0 < x1) (hS0 : 0 ≤ S) (hS1 : S ≤ x1) (hpn : 0 ≤ pn) (hen : 0 ≤ en) :
    (0 ≤ Spec.GR4J.Ps Spec.GR4J.tanhArgPublished x1 S pn - Spec.GR4J.Ps Spec.GR4J.tanhArgSafeguarded x1 S pn ∧
     Spec.GR4J.Ps Spec.GR4J.tanhArgPublished x1 S pn - Spec.GR4J.Ps Spec.GR4J.tanhArgSafeguarded x1 S pn ≤
       x1 * (1 - Real.tanh 13)) ∧
    (0 ≤ Spec.GR4J.Es Spec.GR4J.tanhArgPublished x1 S en - Spec.GR4J.Es Spec.GR4J.tanhArgSafeguarded x1 S en ∧
     Spec.GR4J.Es Spec.GR4J.tanhArgPublished x1 S en - Spec.GR4J.Es Spec.GR4J.tanhArgSafeguarded x1 S en ≤
       x1 * (1 - Real.tanh 13)) := by
  have hs0 : 0 ≤ S / x1 := div_nonneg hS0 hx1.le
  have hs1 : S / x1 ≤ 1 := (div_le_one hx1).mpr hS1
  constructor
  · obtain ⟨g0, g1, g2⟩ := tanh_cap_gap (pn / x1) (div_nonneg hpn hx1.le)
    rw [Ps_published_real, Ps_real]
    have ha : 0 ≤ x1 * (1 - (S / x1) ^ 2) := mul_nonneg hx1.le (by nlinarith)
    have haA : x1 * (1 - (S / x1) ^ 2) ≤ x1 := by nlinarith [sq_nonneg (S / x1)]
    obtain ⟨l, u⟩ := frac_lipschitz _ x1 (S / x1) _ _ ha haA hs0 g0 g1
    exact ⟨l, le_trans u (mul_le_mul_of_nonneg_left g2 hx1.le)⟩
  · obtain ⟨g0, g1, g2⟩ := tanh_cap_gap (en / x1) (div_nonneg hen hx1.le)
    rw [Es_published_real, Es_real]
    have ha : 0 ≤ S * (2 - S / x1) := mul_nonneg hS0 (by linarith)
    have haA : S * (2 - S / x1) ≤ x1 := by
      have hSx : x1 * (S / x1) = S := by rw [mul_comm, div_mul_cancel₀ S hx1.ne']
      have e : S * (2 - S / x1) = x1 * (S / x1 * (2 - S / x1)) := by
        rw [← mul_assoc, hSx]
      rw [e]
      have : S / x1 * (2 - S / x1) ≤ 1 := by nlinarith [sq_nonneg (1 - S / x1)]
      nlinarith
    obtain ⟨l, u⟩ := frac_lipschitz _ x1 (1 - S / x1) _ _ ha haA (by linarith) g0 g1
    exact ⟨l, le_trans u (mul_le_mul_of_nonneg_left g2 hx1.le)⟩

end OW.RR.GR4J
