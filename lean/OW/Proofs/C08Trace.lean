import OW.Proofs.C08H5
/-!
C08 — sequences of io calls on one file: the vocabulary of the trace theorem (`Op`, `stepOp`, `applyOps`, `DiskWF`) and
the helper lemmas "every OUTCOME (nil, error, panic) of every operation leaves a well-formed file well-formed".
Property theorems: `OW/Props/C08Seq.lean`.
-/
namespace OW.Proofs.C08H5
open OW.Nd OW.Sim.H5

/-- the file on disk, if it exists, is well-formed (`WF`: every dataset holds as many elements as its shape says) -/
def DiskWF (d : Disk) : Prop := ∀ t, d = some t → WF t

theorem diskWF_none : DiskWF none := fun _ h => by cases h
theorem diskWF_some {t : Tree} : DiskWF (some t) ↔ WF t :=
  ⟨fun h => h t rfl, fun h t' e => by cases e; exact h⟩
theorem wf_nil : WF [] := fun _ _ _ hm => by simp at hm

/-- `createDataset`, every outcome (dataset made, refused, panic; groups made on the way stay): well-formedness is kept -/
theorem createDs_wf (dims : List Nat) : ∀ (n : Nat) (comps : List String), comps.length ≤ n →
    ∀ (t : Tree) (cur : Path), WF t → WF (createDs dims t cur comps).1 := by
  intro n
  induction n with
  | zero =>
    intro comps hl t cur wf
    have : comps = [] := List.length_eq_zero_iff.mp (by omega)
    subst this
    rw [createDs]
    simpa [stripLead] using wf
  | succ n ih =>
    intro comps hl t cur wf
    rw [createDs]
    have hlen := stripLead_length_le comps
    split
    · exact wf
    · split
      · exact wf
      · split
        · exact wf
        · intro p s v hm
          rcases List.mem_append.mp hm with hm | hm
          · exact wf p s v hm
          · simp only [List.mem_singleton, Prod.mk.injEq, Obj.ds.injEq] at hm
            obtain ⟨_, rfl, rfl⟩ := hm
            simp
    · rename_i g r rest hs
      rw [hs] at hlen
      simp only [List.length_cons] at hlen
      have hl' : (r :: rest).length ≤ n := by simp only [List.length_cons]; omega
      split
      · exact ih _ hl' _ _ wf
      · split
        · exact ih _ hl' _ _ wf
        · exact wf
        · apply ih _ hl'
          intro p s v hm
          rcases List.mem_append.mp hm with hm | hm
          · exact wf p s v hm
          · simp at hm

/-- `openOrCreateDataset`, every outcome -/
theorem openOrCreate_wf {t : Tree} (path : String) (shape : Idx) (wf : WF t) : WF (openOrCreate t path shape).1 := by
  unfold openOrCreate
  split
  · split <;> exact wf
  · exact createDs_wf _ _ _ (Nat.le_refl _) _ _ wf

theorem openW_wf {d : Disk} (c : Bool) (wf : DiskWF d) : DiskWF (openW d c).1 ∧
    ∀ t, (openW d c).2 = .ok t → WF t := by
  cases d with
  | none =>
    cases c
    · exact ⟨by simpa [openW] using diskWF_none, by simp [openW]⟩
    · refine ⟨by simpa [openW] using diskWF_some.mpr wf_nil, ?_⟩
      intro t h; simp only [openW, if_true, Except.ok.injEq] at h; subst h; exact wf_nil
  | some t =>
    refine ⟨by simpa [openW] using wf, ?_⟩
    intro t' h; simp only [openW, Except.ok.injEq] at h; subst h; exact wf t rfl

theorem h5write_length {v : List Int} {s : List Nat} {sel : Selection} {n : Nat} {buf v' : List Int}
    (h : h5write v s sel n buf = .ok v') : v'.length = v.length := by
  unfold h5write at h
  split at h
  · cases h
  · split at h
    · cases h
    · cases h; exact scatter_length _ _ _

theorem wf_setVals_find {t : Tree} {p : Path} {s : List Nat} {v v' : List Int} (wf : WF t)
    (h : find t p = some (.ds s v)) (hl : v'.length = v.length) : WF (setVals t p v') := by
  have hp : p ≠ [] := by
    intro e; subst e; simp [find] at h
  have hlook : t.lookup p = some (.ds s v) := by simpa [find, hp] using h
  exact wf_setVals wf hlook (by rw [hl]; exact wf_of_lookup wf hlook)

/-- `Write(data)`, EVERY outcome (nil, returned error, panic), any source array, either element width -/
theorem write_wf (narrow : Bool) (h : Heap Int) (a : Arr) (d : Disk) (path : String) (wf : DiskWF d) :
    DiskWF (write narrow h a d path).1 := by
  obtain ⟨w1, w2⟩ := openW_wf true wf
  unfold write
  split
  · rename_i d1 c he
    rw [he] at w1; exact w1
  · rename_i d1 t he
    have wt : WF t := w2 t (by rw [he])
    split
    · exact diskWF_some.mpr wt
    · have w1 := openOrCreate_wf path a.v.dims wt
      split
      · rename_i t1 c ho; rw [ho] at w1; exact diskWF_some.mpr w1
      · rename_i t1 c ho; rw [ho] at w1; exact diskWF_some.mpr w1
      · rename_i t1 p ho
        rw [ho] at w1
        split
        · exact diskWF_some.mpr w1
        · split
          · rename_i s v hf
            split
            · rename_i v' hw
              exact diskWF_some.mpr (wf_setVals_find w1 hf (h5write_length hw))
            · exact diskWF_some.mpr w1
          · exact diskWF_some.mpr w1

/-- `Create(shape, …)`, every outcome -/
theorem create_wf (d : Disk) (path : String) (shape : Idx) (wf : DiskWF d) : DiskWF (create d path shape).1 := by
  obtain ⟨w1, w2⟩ := openW_wf true wf
  unfold create
  split
  · rename_i d1 c he
    rw [he] at w1; exact w1
  · rename_i d1 t he
    have wt : WF t := w2 t (by rw [he])
    have w1 := openOrCreate_wf path shape wt
    split
    · rename_i t1 c ho; rw [ho] at w1; exact diskWF_some.mpr w1
    · rename_i t1 c ho; rw [ho] at w1; exact diskWF_some.mpr w1
    · rename_i t1 p ho; rw [ho] at w1; exact diskWF_some.mpr w1

/-- `WriteSlice(data, loc)`, every outcome (including the swallowed library error) -/
theorem writeSlice_wf (narrow : Bool) (h : Heap Int) (a : Arr) (d : Disk) (path : String) (loc : Idx)
    (wf : DiskWF d) : DiskWF (writeSlice narrow h a d path loc).1 := by
  obtain ⟨w1, w2⟩ := openW_wf false wf
  unfold writeSlice
  split
  · rename_i d1 c he
    rw [he] at w1; exact w1
  · rename_i d1 t he
    have wt : WF t := w2 t (by rw [he])
    split
    · exact diskWF_some.mpr wt
    · rename_i p s v hod
      simp only
      split
      · exact diskWF_some.mpr wt
      · split
        · exact diskWF_some.mpr wt
        · split
          · rename_i v' hw
            exact diskWF_some.mpr (wf_setVals_find wt (openDataset_eq.mp hod).2.2 (h5write_length hw))
          · exact diskWF_some.mpr wt

/-- storing the elements a dataset already holds changes nothing -/
theorem setVals_same {t : Tree} {p : Path} {s : List Nat} {v : List Int} (h : t.lookup p = some (.ds s v)) :
    setVals t p v = t := by
  induction t with
  | nil => rfl
  | cons e t ih =>
    obtain ⟨q, o⟩ := e
    simp only [List.lookup_cons] at h
    by_cases hq : p == q
    · have hqp : q = p := (beq_iff_eq.mp hq).symm
      subst hqp
      simp only [hq] at h
      cases h
      simp [setVals]
    · simp only [hq] at h
      have hne : ¬ q = p := fun e => hq (by simp [e])
      simp only [setVals, hne, if_false, ih h]

/-! ### sequences of calls -/

/-- one call on the file `fn` of an `H5Ref…{Filename: fn, Dataset: path, Slice: sel}`; the source arrays of the
writers live in a heap of their own (`(h, a)`: any array of the n-d model) -/
inductive Op where
  | write (h : Heap Int) (a : Arr) (path : String)
  | writeSlice (h : Heap Int) (a : Arr) (path : String) (loc : Idx)
  | create (path : String) (shape : Idx)
  /-- `Load`, `Shape`, `Exists`, `GetDatasets`, `GetGroups`: read-only (they take the file as an argument and return
  no file) -/
  | load (path : String) (sel : Option Sel)

/-- the file after one call, WHATEVER the call's outcome (nil, returned error, panic) -/
def stepOp (narrow : Bool) (d : Disk) : Op → Disk
  | .write h a path => (write narrow h a d path).1
  | .writeSlice h a path loc => (writeSlice narrow h a d path loc).1
  | .create path shape => (create d path shape).1
  | .load _ _ => d

/-- the file after a sequence of calls -/
def applyOps (narrow : Bool) (d : Disk) (ops : List Op) : Disk := ops.foldl (stepOp narrow) d

theorem stepOp_wf (narrow : Bool) {d : Disk} (op : Op) (wf : DiskWF d) : DiskWF (stepOp narrow d op) := by
  cases op with
  | write h a path => exact write_wf narrow h a d path wf
  | writeSlice h a path loc => exact writeSlice_wf narrow h a d path loc wf
  | create path shape => exact create_wf d path shape wf
  | load _ _ => exact wf

theorem applyOps_wf (narrow : Bool) : ∀ (ops : List Op) {d : Disk}, DiskWF d → DiskWF (applyOps narrow d ops) := by
  intro ops
  induction ops with
  | nil => intro d wf; exact wf
  | cons op ops ih => intro d wf; exact ih (stepOp_wf narrow op wf)

theorem applyOps_append (narrow : Bool) (d : Disk) (l1 l2 : List Op) :
    applyOps narrow d (l1 ++ l2) = applyOps narrow (applyOps narrow d l1) l2 := by
  simp [applyOps, List.foldl_append]

end OW.Proofs.C08H5
