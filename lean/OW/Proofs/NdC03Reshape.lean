import OW.Proofs.NdC03Bulk
/-!
Helper lemmas for C03 (bulk operations), continued: `Reshape` / `ReshapeFast` / `MustReshape` on a related
Go-backed / C-backed pair.
-/
namespace OW.NdC03
open OW.Nd OW.NdC02
open OW.Props.C03 (Rel)

section
variable {α : Type}

/-- a list of reads, given pointwise -/
theorem getAll_of_forall {h : Heap α} {b : Arr} : ∀ (l : List Idx) (vals : List α), l.length = vals.length →
    (∀ (j : Nat) (i : Idx) (x : α), l[j]? = some i → vals[j]? = some x → Nd.get h b i = .ok x) →
    NdC02.getAll h b l = .ok vals
  | [], [], _, _ => rfl
  | [], _ :: _, hl, _ => by simp at hl
  | _ :: _, [], hl, _ => by simp at hl
  | i :: is, x :: xs, hl, hp => by
    have h0 := hp 0 i x (by simp) (by simp)
    have ih := getAll_of_forall is xs (by simpa using hl)
      (fun j i' x' h1 h2 => hp (j + 1) i' x' (by simpa using h1) (by simpa using h2))
    simp [NdC02.getAll, h0, ih, bind, Except.bind, pure, Except.pure]

/-- `Reshape` to a shape of the right size (non-empty, extents ≥ 1) on a reachable, well-windowed array of either
back-end: the result holds the same elements in the same row-major order; plus the alias / copy description of
`C02.reshape_spec` -/
theorem reshape_rowMajor {h : Heap α} {a : Arr} (hr : Reach a.v) (ok : ArrOK h a) {s : Idx}
    (hsz : product s = a.v.size) (hs : s ≠ []) (hp : Pos s) {vals : List α}
    (hv : NdC02.getAll h a (rowMajor a.v.dims) = .ok vals) :
    ∃ h' b, reshape h a s = .ok (h', .inr b) ∧ NdC02.getAll h' b (rowMajor s) = .ok vals ∧
      (a.v.contiguous = .ok true →
        h' = h ∧ b = (if a.isC = true then cAliasArr a s else aliasArr a s)) ∧
      (a.v.contiguous = .ok false → h' = h ++ [vals] ∧ b = freshArr h vals s) := by
  obtain ⟨h', b, hres, _, hpt, hcon, hnon, _⟩ := (OW.Props.C02.reshape_spec h a hr ok s).2.2 hsz hs hp
  have hlen : vals.length = (product a.v.dims).toNat := by rw [getAll_length hv, rowMajor_length]
  refine ⟨h', b, hres, ?_, hcon, ?_⟩
  · apply getAll_of_forall
    · rw [rowMajor_length, hlen, hsz]; rfl
    · intro j i x hj hx
      have hjl : j < (product s).toNat := by
        have := (List.getElem?_eq_some_iff.mp hj).1
        rwa [rowMajor_length] at this
      have := rowMajorFrom_getElem? s 0 (product s).toNat j hjl
      rw [Nat.zero_add] at this
      unfold rowMajor at hj
      rw [this] at hj
      injection hj with hj
      subst hj
      have hk : (j : Int) < a.v.size := by rw [← hsz]; omega
      obtain ⟨x1, hx1, hx2⟩ := hpt (j : Int) (by omega) hk
      obtain ⟨x2, hx3, hx4⟩ := elems_getElem hv j hk
      rw [hx] at hx3
      injection hx3 with hx3
      subst hx3
      rw [hx1] at hx4
      injection hx4 with hx4
      subst hx4
      exact hx2
  · intro hc
    obtain ⟨vals', hv', e1, e2⟩ := hnon hc
    rw [hv] at hv'
    injection hv' with hv'
    subst hv'
    exact ⟨e1, e2⟩

/-- two fresh Go-backed arrays holding the same values (the results of `Reshape` on a non-contiguous pair) are related -/
theorem relW_fresh (hg hc : Heap α) (vals : List α) {s : Idx} (hs : s ≠ []) (hp : Pos s)
    (hl : (vals.length : Int) = product s) :
    RelW (hg ++ [vals]) (hc ++ [vals]) (freshArr hg vals s) (freshArr hc vals s) := by
  refine ⟨rfl, reach_rootView hs hp, arrOK_fresh hg vals hl, arrOK_fresh hc vals hl, ?_⟩
  intro p _ _
  simp [cell, freshArr, winOf]

/-- the window of a contiguous view of a related pair: cells `start, start+1, …` agree -/
theorem relHeaps_contig {hg hc : Heap α} {g c : Arr} (r : RelW hg hc g c) (hcg : g.v.contiguous = .ok true) :
    RelHeaps hg hc ⟨g.sid, g.base + g.v.start, c.sid, c.base + g.v.start⟩ (product g.v.dims) := by
  obtain ⟨w0, w1⟩ := contig_window (reach_geo r.reach) hcg
  intro p p0 p1
  have := r.same (g.v.start + p) (by omega) (by omega)
  simp only [winOf] at this
  show cell hg g.sid (g.base + g.v.start + p).toNat = cell hc c.sid (c.base + g.v.start + p).toNat
  rw [Int.add_assoc, Int.add_assoc]
  exact this

/-- `Reshape` of a related Go/C pair to a shape of the right size -/
theorem reshape_pair {hg hc : Heap α} {g c : Arr} (r : Rel hg hc g c) {s : Idx}
    (hsz : product s = g.v.size) (hs : s ≠ []) (hp : Pos s) :
    ∃ hg' hc' bg bc vals, reshape hg g s = .ok (hg', .inr bg) ∧ reshape hc c s = .ok (hc', .inr bc) ∧
      NdC02.getAll hg g (rowMajor g.v.dims) = .ok vals ∧ NdC02.getAll hc c (rowMajor g.v.dims) = .ok vals ∧
      NdC02.getAll hg' bg (rowMajor s) = .ok vals ∧ NdC02.getAll hc' bc (rowMajor s) = .ok vals ∧
      Rel hg' hc' g c ∧
      (g.v.contiguous = .ok true → hg' = hg ∧ hc' = hc ∧ bg = aliasArr g s ∧ bc = cAliasArr c s ∧
        RelHeaps hg hc ⟨g.sid, g.base + g.v.start, c.sid, c.base + g.v.start⟩ (product s)) ∧
      (g.v.contiguous = .ok false → hg' = hg ++ [vals] ∧ hc' = hc ++ [vals] ∧
        bg = freshArr hg vals s ∧ bc = freshArr hc vals s ∧ RelW hg' hc' bg bc) := by
  have rw' := r.toW
  obtain ⟨vals, e1, e2, hlen⟩ := rw'.elems
  have hszc : product s = c.v.size := by rw [← r.view]; exact hsz
  obtain ⟨hg', bg, hrg, hvg, hcong, hnong⟩ := reshape_rowMajor r.reach r.okG hsz hs hp e1
  obtain ⟨hc', bc, hrc, hvc, hconc, hnonc⟩ := reshape_rowMajor rw'.reachC r.okC hszc hs hp e2
  have e2' : NdC02.getAll hc c (rowMajor g.v.dims) = .ok vals := by rw [r.view]; exact e2
  obtain ⟨b, hb⟩ := (contiguous_iff_geo (reach_geo r.reach)).2
  have hbc : c.v.contiguous = .ok b := by rw [← r.view]; exact hb
  cases b with
  | true =>
    obtain ⟨h1, h2⟩ := hcong hb
    obtain ⟨h3, h4⟩ := hconc hbc
    subst h1; subst h3
    rw [if_neg (by rw [r.goBacked]; simp)] at h2
    rw [if_pos r.cBacked] at h4
    refine ⟨_, _, bg, bc, vals, hrg, hrc, e1, e2', hvg, hvc, r, fun _ => ⟨rfl, rfl, h2, h4, ?_⟩, fun h => ?_⟩
    · have := relHeaps_contig rw' hb
      rw [hsz]; exact this
    · rw [hb] at h; exact absurd h (by simp)
  | false =>
    obtain ⟨h1, h2⟩ := hnong hb
    obtain ⟨h3, h4⟩ := hnonc hbc
    subst h1; subst h3
    have hl' : (vals.length : Int) = product s := by
      have := NdC02.product_pos (reach_geo r.reach).pos_dims
      rw [hlen, hsz]; simp only [View.size]; omega
    refine ⟨_, _, bg, bc, vals, hrg, hrc, e1, e2', hvg, hvc, (rw'.append vals vals).toRel r.goBacked r.cBacked,
      fun h => ?_, fun _ => ⟨rfl, rfl, h2, h4, ?_⟩⟩
    · rw [hb] at h; exact absurd h (by simp)
    · rw [h2, h4]; exact relW_fresh hg hc vals hs hp hl'

/-- outcome classes of `Reshape` coincide on a related pair: size mismatch → the same error value on both sides; an empty
new shape of the right size → the same panic on both sides; otherwise both succeed -/
theorem reshape_outcome {hg hc : Heap α} {g c : Arr} (r : Rel hg hc g c) (s : Idx) :
    (product s ≠ g.v.size → reshape hg g s = .ok (hg, .inl "size-mismatch") ∧
      reshape hc c s = .ok (hc, .inl "size-mismatch")) ∧
    (product s = g.v.size → s = [] → reshape hg g s = .error "index-out-of-range" ∧
      reshape hc c s = .error "index-out-of-range") ∧
    (product s = g.v.size → s ≠ [] → ∃ hg' hc' bg bc, reshape hg g s = .ok (hg', .inr bg) ∧
      reshape hc c s = .ok (hc', .inr bc)) := by
  have gg := reach_geo r.reach
  have gc := reach_geo r.toW.reachC
  refine ⟨fun hne => ⟨reshape_mismatch hg g s hne, reshape_mismatch hc c s (by rw [← r.view]; exact hne)⟩, ?_, ?_⟩
  · intro hsz hs
    subst hs
    exact ⟨reshape_nil gg r.okG hsz, reshape_nil gc r.okC (by rw [← r.view]; exact hsz)⟩
  · intro hsz hs
    have hszc : product s = c.v.size := by rw [← r.view]; exact hsz
    obtain ⟨b, hb⟩ := (contiguous_iff_geo gg).2
    have hbc : c.v.contiguous = .ok b := by rw [← r.view]; exact hb
    cases b with
    | true =>
      exact ⟨_, _, _, _, reshape_go_alias gg r.okG hs hsz hb r.goBacked, reshape_c_alias gc hs hszc hbc r.cBacked⟩
    | false =>
      obtain ⟨vg, hvg, _⟩ := elems_ok gg r.okG
      obtain ⟨vc, hvc, _⟩ := elems_ok gc r.okC
      exact ⟨_, _, _, _, reshape_copy gg hs hsz hb hvg, reshape_copy gc hs hszc hbc hvc⟩

/-! ### writes through the reshaped pair of a contiguous view -/

/-- address of an index of the reshaped Go-side array (`aliasArr`: root view from 0 on the re-based window) and of
the reshaped C-side array (`cAliasArr`: root view from `Start` on the same pointer): the same cell of the original
windows, `start + ravel idx s` -/
theorem set_alias_pair {hg hc : Heap α} {g c : Arr} (r : Rel hg hc g c) (hcg : g.v.contiguous = .ok true)
    {s : Idx} (hs : s ≠ []) (hp : Pos s) (hsz : product s = g.v.size) {idx : Idx} (hi : InBounds idx s) (x : α) :
    ∃ hg' hc', Nd.set hg (aliasArr g s) idx x = .ok hg' ∧ Nd.set hc (cAliasArr c s) idx x = .ok hc' ∧
      Paired (winOf g c) hg hc hg' hc' := by
  have gg := reach_geo r.reach
  obtain ⟨w0, w1⟩ := contig_window gg hcg
  obtain ⟨q0, q1⟩ := NdC02.ravel_bounds hi
  have hsz' : product s = product g.v.dims := hsz
  -- Go side
  have okb := arrOK_alias gg r.okG hcg hsz
  have hib : InBounds idx (aliasArr g s).v.dims := hi
  obtain ⟨p, hp1, _, _, hset⟩ := Nd.set_eq (reach_rootView hs hp) okb hib x
  have hidx : (aliasArr g s).v.index idx = .ok (0 + ravel idx s) := rootView_index s 0 idx hi.length
  rw [hidx] at hp1
  injection hp1 with hp1
  subst hp1
  -- C side
  have hsetc : Nd.set hc (cAliasArr c s) idx x =
      .ok (setStore hc c.sid (c.base + (g.v.start + ravel idx s)).toNat x) := by
    have hidxc : (cAliasArr c s).v.index idx = .ok (c.v.start + ravel idx s) := rootView_index s _ idx hi.length
    unfold Nd.set
    rw [hidxc, ← r.view]
    show writeAt hc (cAliasArr c s) (g.v.start + ravel idx s) x = _
    have e : writeAt hc (cAliasArr c s) (g.v.start + ravel idx s) x = writeAt hc c (g.v.start + ravel idx s) x := rfl
    rw [e]
    exact writeAt_eq r.okC (by omega) (by rw [← r.view]; omega) x
  refine ⟨_, _, hset, hsetc, ?_⟩
  have e : ((aliasArr g s).base + (0 + ravel idx s)).toNat = (g.base + (g.v.start + ravel idx s)).toNat := by
    show (g.base + g.v.start + (0 + ravel idx s)).toNat = _
    congr 1; omega
  rw [e]
  exact .step (w := winOf g c) (g.v.start + ravel idx s) x (by omega) (.refl _ _)

/-! ### `Reshape` inside the `Reach` vocabulary: non-contiguous views, and contiguous views starting at 0 -/

/-- the result of `Reshape` on a contiguous view, for either back-end -/
def reshapedArr (a : Arr) (s : Idx) : Arr := if a.isC = true then cAliasArr a s else aliasArr a s

theorem reshape_contig_eq {h : Heap α} {a : Arr} (hr : Reach a.v) (ok : ArrOK h a) {s : Idx} (hs : s ≠ [])
    (hsz : product s = a.v.size) (hc : a.v.contiguous = .ok true) :
    reshape h a s = .ok (h, .inr (reshapedArr a s)) := by
  cases hC : a.isC with
  | true => rw [reshape_c_alias (reach_geo hr) hs hsz hc hC]; simp [reshapedArr, hC]
  | false => rw [reshape_go_alias (reach_geo hr) ok hs hsz hc hC]; simp [reshapedArr, hC]

theorem reshapedArr_fields {a : Arr} (s : Idx) (h0 : a.v.start = 0) :
    (reshapedArr a s).v = rootView s 0 ∧ (reshapedArr a s).sid = a.sid ∧ (reshapedArr a s).base = a.base := by
  cases hC : a.isC <;> simp [reshapedArr, cAliasArr, aliasArr, hC, h0]

theorem arrOK_reshaped {h : Heap α} {a : Arr} (hr : Reach a.v) (ok : ArrOK h a) {s : Idx}
    (hsz : product s = a.v.size) (hc : a.v.contiguous = .ok true) : ArrOK h (reshapedArr a s) := by
  have g := reach_geo hr
  obtain ⟨w0, w1⟩ := contig_window g hc
  have hf := ok.fits
  have hsz' : product s = product a.v.dims := hsz
  cases hC : a.isC with
  | false =>
    have : reshapedArr a s = aliasArr a s := by simp [reshapedArr, hC]
    rw [this]; exact arrOK_alias g ok hc hsz
  | true =>
    have : reshapedArr a s = cAliasArr a s := by simp [reshapedArr, hC]
    rw [this]
    refine ⟨ok.store, ok.base_nonneg, ?_, fun _ => ?_⟩
    · show product s ≤ a.len
      omega
    · show product s ≤ 1073741824
      have := ok.cfits hC
      omega

/-- a contiguous view that starts at address 0 (e.g. a whole root): the two reshaped arrays are a related pair again,
over the same windows -/
theorem relW_reshaped {hg hc : Heap α} {g c : Arr} (r : RelW hg hc g c) {s : Idx} (hs : s ≠ []) (hp : Pos s)
    (hsz : product s = g.v.size) (hcg : g.v.contiguous = .ok true) (h0 : g.v.start = 0) :
    RelW hg hc (reshapedArr g s) (reshapedArr c s) ∧ winOf (reshapedArr g s) (reshapedArr c s) = winOf g c := by
  have h0c : c.v.start = 0 := by rw [← r.view]; exact h0
  obtain ⟨v1, s1, b1⟩ := reshapedArr_fields (a := g) s h0
  obtain ⟨v2, s2, b2⟩ := reshapedArr_fields (a := c) s h0c
  have hw : winOf (reshapedArr g s) (reshapedArr c s) = winOf g c := by simp [winOf, s1, s2, b1, b2]
  obtain ⟨w0, w1⟩ := contig_window (reach_geo r.reach) hcg
  have hsz' : product s = product g.v.dims := hsz
  refine ⟨⟨by rw [v1, v2], by rw [v1]; exact reach_rootView hs hp, arrOK_reshaped r.reach r.okG hsz hcg,
    arrOK_reshaped r.reachC r.okC (by rw [← r.view]; exact hsz) (by rw [← r.view]; exact hcg), ?_⟩, hw⟩
  rw [hw, v1]
  intro p p0 p1
  have p1' : p < product s := p1
  exact r.same p p0 (by omega)

/-- `Reshape` of a related pair (any back-end flags) to a shape of the right size, for a non-contiguous view or a
contiguous view starting at address 0: both succeed and the results are a related pair — over the same windows
(no heap change), or over two new storages (appended to both heaps). -/
theorem RelW.reshape {hg hc : Heap α} {g c : Arr} (r : RelW hg hc g c) {s : Idx} (hsz : product s = g.v.size)
    (hs : s ≠ []) (hp : Pos s) (hdom : g.v.contiguous = .ok false ∨ g.v.start = 0) :
    ∃ hg' hc' bg bc, Nd.reshape hg g s = .ok (hg', .inr bg) ∧ Nd.reshape hc c s = .ok (hc', .inr bc) ∧
      RelW hg' hc' bg bc ∧
      ((hg' = hg ∧ hc' = hc ∧ winOf bg bc = winOf g c) ∨
       (∃ vals, hg' = hg ++ [vals] ∧ hc' = hc ++ [vals] ∧ bg.sid = hg.length ∧ bc.sid = hc.length)) := by
  have hszc : product s = c.v.size := by rw [← r.view]; exact hsz
  obtain ⟨b, hb⟩ := (contiguous_iff_geo (reach_geo r.reach)).2
  have hbc : c.v.contiguous = .ok b := by rw [← r.view]; exact hb
  cases b with
  | true =>
    have h0 : g.v.start = 0 := by
      rcases hdom with h | h
      · rw [hb] at h; exact absurd h (by simp)
      · exact h
    obtain ⟨r', hw⟩ := relW_reshaped r hs hp hsz hb h0
    exact ⟨hg, hc, _, _, reshape_contig_eq r.reach r.okG hs hsz hb, reshape_contig_eq r.reachC r.okC hs hszc hbc, r',
      Or.inl ⟨rfl, rfl, hw⟩⟩
  | false =>
    obtain ⟨vals, e1, e2, hlen⟩ := r.elems
    have hl' : (vals.length : Int) = product s := by
      have := NdC02.product_pos (reach_geo r.reach).pos_dims
      rw [hlen, hsz]; simp only [View.size]; omega
    exact ⟨_, _, _, _, reshape_copy (reach_geo r.reach) hs hsz hb e1, reshape_copy (reach_geo r.reachC) hs hszc hbc e2,
      relW_fresh hg hc vals hs hp hl', Or.inr ⟨vals, rfl, rfl, rfl, rfl⟩⟩

end
end OW.NdC03
