import OW.Proofs.Rounded
import OW.Kernels.Climate
/-!
Helper lemmas for OW/Props/Rounded/C20.lean: the wet-bulb bisection on the half-integer grid with rounding away from zero, where
halving the width `1/2` rounds back to `1/2` and the bisection walks out of its bracket.
-/
namespace OW.Rounded.ClimateWalk
open OW OW.Kernels.Climate OW.Rounded

/-- half-integers, rounding away from zero -/
noncomputable abbrev A2 : Rounding := Rounding.away 2 (by norm_num)
/-- `k/2` on that grid -/
noncomputable def g (k : ℤ) : RNum A2 := RNum.ofRep ((k : ℝ) / ((2 : ℕ) : ℝ)) (Rounding.away_rep_grid 2 (by norm_num) k)
/-- its value -/
theorem g_val (k : ℤ) : (g k).val = (k : ℝ) / 2 := by
  show (k : ℝ) / ((2 : ℕ) : ℝ) = (k : ℝ) / 2
  rw [Nat.cast_ofNat]

/-- on `A2` a non-negative real `x` rounds to `⌈2x⌉/2` -/
theorem a2_rnd {x : ℝ} (hx : 0 ≤ x) : A2.rnd x = (⌈x * 2⌉ : ℝ) / 2 := by
  rw [Rounding.away_rnd]; unfold Rounding.awayFn; rw [if_pos hx]; norm_num

/-- the literal `0.5` is on the grid -/
theorem a2_half : (0.5 : RNum A2).val = 1 / 2 := by
  rw [RNum.ofScientific_val, a2_rnd (by norm_num)]
  have : ⌈(OfScientific.ofScientific 5 true 1 : ℝ) * 2⌉ = 1 := by rw [Int.ceil_eq_iff]; norm_num
  rw [this]; norm_num

/-- the accuracy `1e-4` rounds (away from zero) to `1/2` -/
theorem a2_acc : (acc : RNum A2).val = 1 / 2 := by
  unfold acc
  rw [RNum.ofScientific_val, a2_rnd (by norm_num)]
  have : ⌈(OfScientific.ofScientific 1 true 4 : ℝ) * 2⌉ = 1 := by rw [Int.ceil_eq_iff]; norm_num
  rw [this]; norm_num

/-- halving the width `1/2` gives `1/4`, which rounds (away from zero) back to `1/2`: the width stops shrinking -/
theorem a2_halve_stuck : (g 1 * (0.5 : RNum A2)) = g 1 := by
  apply RNum.ext
  rw [RNum.mul_val, g_val, a2_half, a2_rnd (by norm_num)]
  have : ⌈((1 : ℤ) : ℝ) / 2 * (1 / 2) * 2⌉ = 1 := by rw [Int.ceil_eq_iff]; norm_num
  rw [this]

/-- adding the stuck width moves one grid point -/
theorem a2_add (k : ℤ) (hk : 0 ≤ k) : g k + g 1 = g (k + 1) := by
  apply RNum.ext
  have hk' : (0 : ℝ) ≤ k := by exact_mod_cast hk
  rw [RNum.add_val, g_val, g_val, g_val, a2_rnd (by positivity)]
  have : ⌈((k : ℝ) / 2 + ((1 : ℤ) : ℝ) / 2) * 2⌉ = k + 1 := by
    rw [Int.ceil_eq_iff]; push_cast; constructor <;> linarith
  rw [this]

/-- a searched function that is always below the level: the bisection always moves right -/
noncomputable def fLow : RNum A2 → RNum A2 := fun _ => g 0

/-- the level `1` is above the searched function: `0 < h ⊖ f x` -/
theorem a2_moves (x : RNum A2) : (0 : RNum A2) < g 2 - fLow x := by
  rw [RNum.lt_iff, RNum.nat_zero_val, RNum.sub_val, fLow, g_val, g_val, a2_rnd (by norm_num)]
  have : ⌈(((2 : ℤ) : ℝ) / 2 - ((0 : ℤ) : ℝ) / 2) * 2⌉ = 2 := by rw [Int.ceil_eq_iff]; norm_num
  rw [this]; norm_num

/-- with the width stuck at `1/2` every iteration moves the left end by `1/2` and the accuracy test `|dx| < acc` (`1/2 < 1/2`)
never fires -/
theorem a2_walk (n : Nat) (k : ℤ) (hk : 0 ≤ k) : bisect fLow (g 2) n (g k) (g 1) = g (k + n) := by
  induction n generalizing k with
  | zero => simp [bisect]
  | succ n ih =>
    simp only [bisect, a2_halve_stuck, a2_add k hk]
    rw [if_pos (a2_moves _), if_neg]
    · rw [ih (k + 1) (by omega)]; congr 1; push_cast; ring
    · rw [RNum.lt_iff, RNum.abs_val, g_val, a2_acc]; norm_num

end OW.Rounded.ClimateWalk
