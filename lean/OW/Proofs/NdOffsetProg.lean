import OW.Proofs.NdOffsetBulk
/-!
Offset roots, continued: whole programs. The lock-step simulation of `NdC03Prog` (`World`, `step_sim`, `run_sim`)
WITHOUT the exclusion of successful reshapes of contiguous views with `Start > 0`.

`WorldO sg sc`: the C-side state `sc` has a NORMAL FORM `scN` (same heap; every live array replaced by its normal form
`Norm`: offset-root arrays by their `unshift`) that is in lock step (`World`) with the Go-side state `sg`, and the Go-side
arrays are Go-backed. Every operation on `sc` equals the operation on `scN` (transfer lemmas of `NdOffsetRoot` /
`NdOffsetBulk`), and `scN` is in the domain of the frozen C01/C02/C03 theorems.
-/
namespace OW.NdOff
open OW.Nd OW.NdC02 OW.NdC03

section
variable {α : Type}

/-- the domain of the full fragment: `OpOK` of `NdC03Prog`, with the reshape requests widened to EVERY request of the
right size (non-empty shape, extents ≥ 1), contiguous with `Start > 0` included -/
def OpOK' (arrs : List Arr) : Op α → Prop
  | .reshape i shape => ∃ a, arrs[i]? = some a ∧
      (product shape ≠ a.v.size ∨ (product shape = a.v.size ∧ shape ≠ [] ∧ Pos shape))
  | .reshapeFast i shape => ∃ a, arrs[i]? = some a ∧
      (a.v.contiguous = .ok false ∨ product shape ≠ a.v.size ∨ (product shape = a.v.size ∧ shape ≠ [] ∧ Pos shape))
  | op => OpOK arrs op

/-- every request of the program is in the (widened) domain when it is issued -/
def ProgOK' : St α → List (Op α) → Prop
  | _, [] => True
  | s, op :: ops => OpOK' s.arrs op ∧ ∀ s' o, stepOp s op = .ok (s', o) → ProgOK' s' ops

theorem progOK'_cons {s : St α} {op : Op α} {ops : List (Op α)} (h1 : OpOK' s.arrs op) (h2 : ProgOK' (next s op) ops) :
    ProgOK' s (op :: ops) := by
  refine ⟨h1, fun s' o h => ?_⟩
  simp only [next, h] at h2
  exact h2

/-- the old domain is part of the new one -/
theorem opOK_toOK' {arrs : List Arr} {op : Op α} (h : OpOK arrs op) : OpOK' arrs op := by
  cases op with
  | reshape i shape =>
    obtain ⟨a, ha, hd⟩ := h
    refine ⟨a, ha, ?_⟩
    rcases hd with h | ⟨h1, h2, h3, _⟩
    · exact Or.inl h
    · exact Or.inr ⟨h1, h2, h3⟩
  | reshapeFast i shape =>
    obtain ⟨a, ha, hd⟩ := h
    refine ⟨a, ha, ?_⟩
    rcases hd with h | h | ⟨h1, h2, h3, _⟩
    · exact Or.inl h
    · exact Or.inr (Or.inl h)
    · exact Or.inr (Or.inr ⟨h1, h2, h3⟩)
  | _ => exact h

theorem progOK_toOK' : ∀ (prog : List (Op α)) {s : St α}, ProgOK s prog → ProgOK' s prog
  | [], _, _ => trivial
  | _ :: ops, _, h => ⟨opOK_toOK' h.1, fun s' o hs => progOK_toOK' ops (h.2 s' o hs)⟩

/-- `scN` is a normal form of the state `sc`: same heap, arrays pairwise in normal-form relation -/
structure NormSt (sc scN : St α) : Prop where
  heap : scN.heap = sc.heap
  len : sc.arrs.length = scN.arrs.length
  norm : ∀ (i : Nat) (c c' : Arr), sc.arrs[i]? = some c → scN.arrs[i]? = some c' → Norm c c'

theorem NormSt.refl (s : St α) : NormSt s s :=
  ⟨rfl, rfl, fun _ _ _ h1 h2 => by rw [h1] at h2; injection h2 with h2; subst h2; exact Norm.refl _⟩

theorem NormSt.partner {sc scN : St α} (ns : NormSt sc scN) {i : Nat} {c' : Arr} (h : scN.arrs[i]? = some c') :
    ∃ c, sc.arrs[i]? = some c ∧ Norm c c' := by
  have hi : i < sc.arrs.length := by rw [ns.len]; exact (List.getElem?_eq_some_iff.mp h).1
  exact ⟨sc.arrs[i], List.getElem?_eq_getElem hi, ns.norm i _ _ (List.getElem?_eq_getElem hi) h⟩

theorem NormSt.setHeap {sc scN : St α} (ns : NormSt sc scN) (h' : Heap α) :
    NormSt { sc with heap := h' } { scN with heap := h' } := ⟨rfl, ns.len, ns.norm⟩

theorem NormSt.push {sc scN : St α} (ns : NormSt sc scN) {c c' : Arr} (n : Norm c c') (h' : Heap α) :
    NormSt ⟨h', sc.arrs ++ [c]⟩ ⟨h', scN.arrs ++ [c']⟩ := by
  refine ⟨rfl, by simp [ns.len], fun i a b h1 h2 => ?_⟩
  rcases append_pair_cases ns.len h1 h2 with ⟨e1, e2⟩ | ⟨_, rfl, rfl⟩
  · exact ns.norm i a b e1 e2
  · exact n

/-- two states in lock step up to normal forms: the C-side state has a normal form in lock step (`World`) with the
Go-side state, whose arrays are all Go-backed -/
structure WorldO (sg sc : St α) : Prop where
  goSide : ∀ (i : Nat) (g : Arr), sg.arrs[i]? = some g → g.isC = false
  nf : ∃ scN : St α, World sg scN ∧ NormSt sc scN

/-- a new pair over the windows of a live pair DISPLACED by the same amount on both sides joins the lock step -/
theorem world_pushD {sg sc : St α} (w : World sg sc) {i : Nat} {g c g' c' : Arr} (hg : sg.arrs[i]? = some g)
    (hc : sc.arrs[i]? = some c) (r' : RelW sg.heap sc.heap g' c') (d : Int)
    (hw : winOf g' c' = ⟨g.sid, g.base + d, c.sid, c.base + d⟩) :
    World { sg with arrs := sg.arrs ++ [g'] } { sc with arrs := sc.arrs ++ [c'] } := by
  have key : ∀ (j : Nat) (a b : Arr), sg.arrs[j]? = some a → sc.arrs[j]? = some b →
      Compat (winOf a b) (winOf g' c') ∧ Compat (winOf g' c') (winOf a b) := by
    intro j a b e1 e2
    have c1 := w.compat j i a b g c e1 e2 hg hc
    have : Compat (winOf a b) (winOf g' c') := by
      rw [hw]
      rcases c1 with ⟨x, y, z⟩ | ⟨x, y⟩
      · exact Or.inl ⟨x, y, by simp only [winOf] at z ⊢; omega⟩
      · exact Or.inr ⟨x, y⟩
    exact ⟨this, this.symm⟩
  refine ⟨by simp [w.len], ?_, ?_⟩
  · intro j a b h1 h2
    rcases append_pair_cases w.len h1 h2 with ⟨e1, e2⟩ | ⟨_, rfl, rfl⟩
    · exact w.rel j a b e1 e2
    · exact r'
  · intro j k a b a' b' h1 h2 h3 h4
    rcases append_pair_cases w.len h1 h2 with ⟨e1, e2⟩ | ⟨_, rfl, rfl⟩ <;>
      rcases append_pair_cases w.len h3 h4 with ⟨e3, e4⟩ | ⟨_, rfl, rfl⟩
    · exact w.compat j k a b a' b' e1 e2 e3 e4
    · exact (key j a b e1 e2).1
    · exact (key k a' b' e3 e4).2
    · exact Compat.refl _

/-! ### `Reshape` of a contiguous view, any `Start` -/

theorem reshift_cAlias {st : Int} {c c' : Arr} (s : Sh st c c') (shape : Idx) :
    reshift st (cAliasArr c' shape) = cAliasArr c shape := by
  have hC' : c'.isC = true := by rw [s.eq]; exact s.isC
  have hcc : c = reshift st c' := by rw [s.eq, reshift_unshift st s.isC]
  rw [hcc]
  simp [reshift, cAliasArr, hC', shiftV_rootView]

/-- `Reshape` of a contiguous C-backed array in normal-form relation with a `Geo` array returns the alias `cAliasArr` -/
theorem reshape_c_alias_norm (h : Heap α) {c c' : Arr} (n : Norm c c') (g : Geo c'.v) {s : Idx} (hs : s ≠ [])
    (hsz : product s = c'.v.size) (hc : c'.v.contiguous = .ok true) (hC : c'.isC = true) :
    Nd.reshape h c s = .ok (h, .inr (cAliasArr c s)) := by
  rcases n with rfl | ⟨st, sh⟩
  · exact reshape_c_alias g hs hsz hc hC
  · rw [reshape_sh h sh g, reshape_c_alias g hs hsz hc hC]
    simp only [Except.map, reshiftRes, Sum.map_inr, reshift_cAlias sh]

/-- the normal form of the array `Reshape` returns for a contiguous view: root view from 0 on the window moved to the
view's `Start` — for a C-backed array the `unshift` of `cAliasArr`, for a Go-backed one `aliasArr` itself -/
def aliasN (c' : Arr) (s : Idx) : Arr :=
  if c'.isC = true then ⟨rootView s 0, c'.sid, c'.base + c'.v.start, c'.len - c'.v.start, true⟩ else aliasArr c' s

theorem arrOK_aliasN {h : Heap α} {c' : Arr} (g : Geo c'.v) (ok : ArrOK h c') (hc : c'.v.contiguous = .ok true)
    {s : Idx} (hsz : product s = c'.v.size) : ArrOK h (aliasN c' s) := by
  unfold aliasN
  split
  · rename_i hC
    obtain ⟨w0, w1⟩ := contig_window g hc
    obtain ⟨st, hst, hl⟩ := ok.store
    have hf := ok.fits
    have hcf := ok.cfits hC
    have hb := ok.base_nonneg
    have hsz' : product s = product c'.v.dims := hsz
    refine ⟨⟨st, hst, ?_⟩, ?_, ?_, fun _ => ?_⟩
    · show c'.base + c'.v.start + (c'.len - c'.v.start) ≤ _
      omega
    · show 0 ≤ c'.base + c'.v.start
      omega
    · show product s ≤ c'.len - c'.v.start
      omega
    · show product s ≤ 1073741824
      omega
  · exact arrOK_alias g ok hc hsz

/-- the array `Reshape` returns for a contiguous view is in normal-form relation with `aliasN` of the normal form -/
theorem norm_aliasN {h : Heap α} {c c' : Arr} (n : Norm c c') (g : Geo c'.v) (ok : ArrOK h c')
    (hc : c'.v.contiguous = .ok true) {s : Idx} (hsz : product s = c'.v.size) :
    Norm (if c.isC = true then cAliasArr c s else aliasArr c s) (aliasN c' s) := by
  obtain ⟨w0, w1⟩ := contig_window g hc
  have hsz' : product s = product c'.v.dims := hsz
  by_cases hC : c'.isC = true
  · have hCc : c.isC = true := by rw [n.isC]; exact hC
    rw [if_pos hCc]
    have hcf := ok.cfits hC
    -- facts common to the two cases of `n`
    have facts : c.sid = c'.sid ∧ c.base + c.v.start = c'.base + c'.v.start ∧
        c.len - c.v.start = c'.len - c'.v.start ∧ 0 ≤ c.v.start ∧ c.v.start + product s ≤ 1073741824 := by
      rcases n with rfl | ⟨st, sh⟩
      · exact ⟨rfl, rfl, rfl, w0, by omega⟩
      · have hb := sh.bound
        have ho : c.v.orig = c'.v.orig := by rw [sh.eq]; rfl
        have h1 : c.v.start = c'.v.start + st := by rw [sh.view]; rfl
        have h2 : c'.base = c.base + st := by rw [sh.eq]; rfl
        have h3 : c'.len = c.len - st := by rw [sh.eq]; rfl
        have h4 : c'.sid = c.sid := by rw [sh.eq]; rfl
        have := sh.nonneg
        rw [ho] at hb
        exact ⟨h4.symm, by omega, by omega, by omega, by omega⟩
    obtain ⟨f1, f2, f3, f4, f5⟩ := facts
    refine Or.inr ⟨c.v.start, hCc, f4, ?_, by show c.v.start + product s ≤ _; exact f5⟩
    unfold aliasN
    rw [if_pos hC]
    simp only [unshift, cAliasArr, shiftV_rootView, hCc]
    congr 1
    · congr 1; omega
    · exact f1.symm
    · exact f2.symm
    · exact f3.symm
  · have hgo : c'.isC = false := by simpa using hC
    have e : c' = c := n.eq_of_go (by rw [n.isC]; exact hgo)
    subst e
    rw [if_neg hC]
    unfold aliasN
    rw [if_neg hC]
    exact Norm.refl _

/-- **`Reshape` of a contiguous view in lock step, for EVERY `Start`**: both sides alias their operands, and the two
results (Go: `aliasArr`; C: `cAliasArr`, an offset root when `Start > 0`) join the lock step — the C-side result through
its normal form `aliasN` -/
theorem reshape_contig_simO {sg sc scN : St α} (w : World sg scN) (ns : NormSt sc scN) {i : Nat} {g c c' : Arr}
    (hg : sg.arrs[i]? = some g) (hc' : scN.arrs[i]? = some c') (hc : sc.arrs[i]? = some c) (hgo : g.isC = false)
    {s : Idx} (hsz : product s = g.v.size) (hs : s ≠ []) (hp : Pos s) (hcg : g.v.contiguous = .ok true) :
    ∃ bc, Nd.reshape sg.heap g s = .ok (sg.heap, .inr (aliasArr g s)) ∧
      Nd.reshape sc.heap c s = .ok (sc.heap, .inr bc) ∧
      World ⟨sg.heap, sg.arrs ++ [aliasArr g s]⟩ ⟨scN.heap, scN.arrs ++ [aliasN c' s]⟩ ∧
      NormSt ⟨sc.heap, sc.arrs ++ [bc]⟩ ⟨scN.heap, scN.arrs ++ [aliasN c' s]⟩ := by
  have r := w.rel i g c' hg hc'
  have n := ns.norm i c c' hc hc'
  have gg := reach_geo r.reach
  have gc := reach_geo r.reachC
  have hszc : product s = c'.v.size := by rw [← r.view]; exact hsz
  have hcc : c'.v.contiguous = .ok true := by rw [← r.view]; exact hcg
  obtain ⟨w0, w1⟩ := contig_window gg hcg
  have e1 := reshape_go_alias (h := sg.heap) gg r.okG hs hsz hcg hgo
  -- the C side, real state
  have e2 : Nd.reshape sc.heap c s = .ok (sc.heap, .inr (if c.isC = true then cAliasArr c s else aliasArr c s)) := by
    by_cases hC : c.isC = true
    · rw [if_pos hC]
      exact reshape_c_alias_norm sc.heap n gc hs hszc hcc (by rw [← n.isC]; exact hC)
    · have hCf : c.isC = false := by simpa using hC
      have e : c' = c := n.eq_of_go hCf
      subst e
      rw [if_neg hC, ← ns.heap]
      exact reshape_go_alias gc r.okC hs hszc hcc hCf
  have nb := norm_aliasN n gc r.okC hcc hszc
  -- the new pair of the normal form
  have okN := arrOK_aliasN gc r.okC hcc hszc
  have hview : (aliasN c' s).v = rootView s 0 := by unfold aliasN; split <;> rfl
  have hsidN : (aliasN c' s).sid = c'.sid := by unfold aliasN; split <;> rfl
  have hbaseN : (aliasN c' s).base = c'.base + g.v.start := by
    rw [r.view]; unfold aliasN; split <;> rfl
  have rN : RelW sg.heap scN.heap (aliasArr g s) (aliasN c' s) := by
    refine ⟨by rw [hview]; rfl, reach_rootView hs hp, arrOK_alias gg r.okG hcg hsz, okN, ?_⟩
    have hh := relHeaps_contig r hcg
    intro p p0 p1
    have p1' : p < product s := p1
    have hsz' : product s = product g.v.dims := hsz
    have := hh p p0 (by omega)
    simp only [winOf, hsidN, hbaseN]
    exact this
  have hwin : winOf (aliasArr g s) (aliasN c' s) = ⟨g.sid, g.base + g.v.start, c'.sid, c'.base + g.v.start⟩ := by
    simp only [winOf, hsidN, hbaseN]; rfl
  have wN := world_pushD w hg hc' rN g.v.start hwin
  refine ⟨_, e1, e2, wN, ?_⟩
  rw [ns.heap]
  exact ns.push nb sc.heap

/-- `Reshape` in lock step up to normal forms, every request of the widened domain -/
theorem reshape_simO {sg sc scN : St α} (w : World sg scN) (ns : NormSt sc scN) {i : Nat} {g c c' : Arr}
    (hg : sg.arrs[i]? = some g) (hc' : scN.arrs[i]? = some c') (hc : sc.arrs[i]? = some c) (hgo : g.isC = false)
    {shape : Idx}
    (hdom : product shape ≠ g.v.size ∨ (product shape = g.v.size ∧ shape ≠ [] ∧ Pos shape)) :
    (Nd.reshape sg.heap g shape = .ok (sg.heap, .inl "size-mismatch") ∧
      Nd.reshape sc.heap c shape = .ok (sc.heap, .inl "size-mismatch")) ∨
    (∃ hg' hc' bg bc bN, Nd.reshape sg.heap g shape = .ok (hg', .inr bg) ∧
      Nd.reshape sc.heap c shape = .ok (hc', .inr bc) ∧ bg.isC = false ∧
      World ⟨hg', sg.arrs ++ [bg]⟩ ⟨hc', scN.arrs ++ [bN]⟩ ∧ NormSt ⟨hc', sc.arrs ++ [bc]⟩ ⟨hc', scN.arrs ++ [bN]⟩) := by
  have r := w.rel i g c' hg hc'
  have n := ns.norm i c c' hc hc'
  have gg := reach_geo r.reach
  have gc := reach_geo r.reachC
  rcases hdom with hne | ⟨hsz, hs, hp⟩
  · exact Or.inl ⟨reshape_mismatch _ g shape hne,
      reshape_mismatch _ c shape (by rw [n.size, ← r.view]; exact hne)⟩
  · right
    obtain ⟨b, hb⟩ := (contiguous_iff_geo gg).2
    cases b with
    | true =>
      obtain ⟨bc, e1, e2, wN, nN⟩ := reshape_contig_simO w ns hg hc' hc hgo hsz hs hp hb
      rw [ns.heap] at wN nN
      exact ⟨_, _, _, bc, _, e1, e2, rfl, wN, nN⟩
    | false =>
      have hszc : product shape = c'.v.size := by rw [← r.view]; exact hsz
      have hbc : c'.v.contiguous = .ok false := by rw [← r.view]; exact hb
      obtain ⟨vals, v1, v2, hlen⟩ := r.elems
      have hl' : (vals.length : Int) = product shape := by
        have := NdC02.product_pos gg.pos_dims
        rw [hlen, hsz]; simp only [View.size]; omega
      have e1 := reshape_copy (h := sg.heap) gg hs hsz hb v1
      have e2N := reshape_copy (h := scN.heap) gc hs hszc hbc v2
      -- the real C side: the same fresh Go-backed copy
      obtain ⟨bc, e2, hbcs⟩ := (reshape_norm scN.heap n gc shape).2.2 _ _ e2N
      have hbceq : bc = freshArr scN.heap vals shape := by
        rcases hbcs with e | ⟨_, _, habs, _⟩
        · exact e
        · simp [freshArr] at habs
      subst hbceq
      have rN := relW_fresh sg.heap scN.heap vals hs hp hl'
      have wN := w.alloc rN rfl rfl
      rw [ns.heap] at e2 wN
      refine ⟨_, _, _, _, _, e1, e2, rfl, wN, ?_⟩
      have := ns.push (Norm.refl (freshArr scN.heap vals shape)) (sc.heap ++ [vals])
      rw [ns.heap] at this
      exact this

/-! ### one step, whole programs -/

theorem WorldO.mk' {sg sc scN : St α} (hgo : ∀ (i : Nat) (g : Arr), sg.arrs[i]? = some g → g.isC = false)
    (w : World sg scN) (ns : NormSt sc scN) : WorldO sg sc := ⟨hgo, scN, w, ns⟩

theorem goSide_push {arrs : List Arr} (hgo : ∀ (i : Nat) (g : Arr), arrs[i]? = some g → g.isC = false) {b : Arr}
    (hb : b.isC = false) : ∀ (i : Nat) (g : Arr), (arrs ++ [b])[i]? = some g → g.isC = false := by
  intro i g h
  by_cases hi : i < arrs.length
  · rw [List.getElem?_append_left hi] at h; exact hgo i g h
  · have hlt := (List.getElem?_eq_some_iff.mp h).1
    simp only [List.length_append, List.length_cons, List.length_nil] at hlt
    have e : i = arrs.length := by omega
    subst e
    rw [List.getElem?_concat_length] at h
    injection h with h
    subst h
    exact hb

/-- **one step in lock step up to normal forms**: an in-domain request (widened domain) succeeds on both states with the
same observation, and the states stay in lock step up to normal forms -/
theorem step_simO {sg sc : St α} (wo : WorldO sg sc) {op : Op α} (ok : OpOK' sg.arrs op) :
    ∃ sg' sc' o, stepOp sg op = .ok (sg', o) ∧ stepOp sc op = .ok (sc', o) ∧ WorldO sg' sc' := by
  obtain ⟨hgo, scN, w, ns⟩ := wo
  have hh := ns.heap
  cases op with
  | slice i loc dims step =>
    obtain ⟨g, hg, hok⟩ := ok
    obtain ⟨c', hc', r⟩ := w.partner hg
    obtain ⟨c, hc, n⟩ := ns.partner hc'
    obtain ⟨g', c'', h1, h2, r', eg, ec, _, _⟩ := r.slice hok
    obtain ⟨cs, h3, ncs, _⟩ := (slice_norm n loc dims step).2 _ h2
    have hgo' : g'.isC = false := by rw [eg]; exact hgo i g hg
    refine ⟨{ sg with arrs := sg.arrs ++ [g'] }, { sc with arrs := sc.arrs ++ [cs] }, .unit, ?_, ?_,
      WorldO.mk' (goSide_push hgo hgo') (w.push hg hc' r' (by rw [eg, ec]; rfl)) ?_⟩
    · simp [stepOp, arrAt, hg, h1, bind, Except.bind, pure, Except.pure]
    · simp [stepOp, arrAt, hc, h3, bind, Except.bind, pure, Except.pure]
    · have := ns.push ncs sc.heap
      rw [← hh] at this ⊢
      exact this
  | get i loc =>
    obtain ⟨g, hg, hib⟩ := ok
    obtain ⟨c', hc', r⟩ := w.partner hg
    obtain ⟨c, hc, n⟩ := ns.partner hc'
    obtain ⟨x, h1, h2⟩ := r.get hib
    have e : Nd.get sc.heap c loc = .ok x := by
      rw [← hh, get_norm _ n (reach_geo r.reachC) (by rw [← r.view]; exact hib)]; exact h2
    refine ⟨sg, sc, .val x, ?_, ?_, WorldO.mk' hgo w ns⟩
    · simp [stepOp, arrAt, hg, h1, bind, Except.bind, pure, Except.pure]
    · simp [stepOp, arrAt, hc, e, bind, Except.bind, pure, Except.pure]
  | set i loc x =>
    obtain ⟨g, hg, hib⟩ := ok
    obtain ⟨c', hc', r⟩ := w.partner hg
    obtain ⟨c, hc, n⟩ := ns.partner hc'
    obtain ⟨hg', hcN, h1, h2, pw⟩ := r.setAll [loc] [x] (by intro i hi; simp at hi; subst hi; exact hib)
    have e1 : Nd.set sg.heap g loc x = .ok hg' := by
      simp only [NdC02.setAll, bind, Except.bind] at h1
      cases hs : Nd.set sg.heap g loc x with
      | error m => rw [hs] at h1; cases h1
      | ok h' => rw [hs] at h1; exact h1
    have e2 : Nd.set scN.heap c' loc x = .ok hcN := by
      simp only [NdC02.setAll, bind, Except.bind] at h2
      cases hs : Nd.set scN.heap c' loc x with
      | error m => rw [hs] at h2; cases h2
      | ok h' => rw [hs] at h2; exact h2
    have e : Nd.set sc.heap c loc x = .ok hcN := by
      rw [← hh, set_norm _ n (reach_geo r.reachC) (by rw [← r.view]; exact hib)]; exact e2
    refine ⟨{ sg with heap := hg' }, { sc with heap := hcN }, .unit, ?_, ?_, WorldO.mk' hgo (w.update hg hc' pw) (ns.setHeap hcN)⟩
    · simp [stepOp, arrAt, hg, e1, bind, Except.bind, pure, Except.pure]
    · simp [stepOp, arrAt, hc, e, bind, Except.bind, pure, Except.pure]
  | apply i loc dim step vals =>
    obtain ⟨g, hg, h0, h1, hok⟩ := ok
    obtain ⟨c', hc', r⟩ := w.partner hg
    obtain ⟨c, hc, n⟩ := ns.partner hc'
    obtain ⟨hg', hcN, e1, e2, pw⟩ := r.apply h0 h1 hok
    have hok' : SliceOK c'.v.dims loc (applyDims c' dim vals.length) (applySteps c' dim step) := by
      have a1 : applyDims c' dim vals.length = applyDims g dim vals.length := by simp only [applyDims, r.view]
      have a2 : applySteps c' dim step = applySteps g dim step := by simp only [applySteps, r.view]
      rw [a1, a2, ← r.view]; exact hok
    have e : Nd.apply sc.heap c loc dim step vals = .ok hcN := by
      rw [← hh, apply_norm _ n (reach_geo r.reachC) h0 (by rw [← r.view]; exact h1) hok']; exact e2
    refine ⟨{ sg with heap := hg' }, { sc with heap := hcN }, .unit, ?_, ?_, WorldO.mk' hgo (w.update hg hc' pw) (ns.setHeap hcN)⟩
    · simp [stepOp, arrAt, hg, e1, bind, Except.bind, pure, Except.pure]
    · simp [stepOp, arrAt, hc, e, bind, Except.bind, pure, Except.pure]
  | applySlice i j loc step =>
    obtain ⟨gd, gs, hgd, hgs, hne, hok⟩ := ok
    obtain ⟨cd', hcd', rd⟩ := w.partner hgd
    obtain ⟨cs', hcs', rs⟩ := w.partner hgs
    obtain ⟨cd, hcd, nd⟩ := ns.partner hcd'
    obtain ⟨cs, hcs, nsr⟩ := ns.partner hcs'
    have hneC := w.sid_ne hgd hcd' hgs hcs' hne
    obtain ⟨hg', hcN, e1, e2, pw⟩ := RelW.applySlice rd rs hne hneC hok
    have hok' : SliceOK cd'.v.dims loc cs'.v.dims (stepOr cd'.v.dims.length step) := by
      rw [← rd.view, ← rs.view]; exact hok
    have e : Nd.applySlice sc.heap cd loc step cs = .ok hcN := by
      rw [← hh, applySlice_norm _ nd nsr (reach_geo rd.reachC) (reach_geo rs.reachC) hok']; exact e2
    refine ⟨{ sg with heap := hg' }, { sc with heap := hcN }, .unit, ?_, ?_, WorldO.mk' hgo (w.update hgd hcd' pw) (ns.setHeap hcN)⟩
    · simp [stepOp, arrAt, hgd, hgs, e1, bind, Except.bind, pure, Except.pure]
    · simp [stepOp, arrAt, hcd, hcs, e, bind, Except.bind, pure, Except.pure]
  | copyFrom i j =>
    obtain ⟨gd, gs, hgd, hgs, hne, hsh⟩ := ok
    obtain ⟨cd', hcd', rd⟩ := w.partner hgd
    obtain ⟨cs', hcs', rs⟩ := w.partner hgs
    obtain ⟨cd, hcd, nd⟩ := ns.partner hcd'
    obtain ⟨cs, hcs, nsr⟩ := ns.partner hcs'
    have hneC := w.sid_ne hgd hcd' hgs hcs' hne
    obtain ⟨hg', hcN, e1, e2, pw⟩ := RelW.copyFrom rd rs hne hneC hsh
    have hsh' : cs'.v.dims = cd'.v.dims := by rw [← rd.view, ← rs.view]; exact hsh
    have e : Nd.copyFrom sc.heap cd cs = .ok hcN := by
      rw [← hh, copyFrom_norm _ nd nsr (reach_geo rd.reachC) (reach_geo rs.reachC) hsh']; exact e2
    refine ⟨{ sg with heap := hg' }, { sc with heap := hcN }, .unit, ?_, ?_, WorldO.mk' hgo (w.update hgd hcd' pw) (ns.setHeap hcN)⟩
    · simp [stepOp, arrAt, hgd, hgs, e1, bind, Except.bind, pure, Except.pure]
    · simp [stepOp, arrAt, hcd, hcs, e, bind, Except.bind, pure, Except.pure]
  | unroll i =>
    obtain ⟨g, hg⟩ := ok
    obtain ⟨c', hc', r⟩ := w.partner hg
    obtain ⟨c, hc, n⟩ := ns.partner hc'
    obtain ⟨slg, slc, vals, h1, h2, h3, h4, _⟩ := r.unroll
    have e : Nd.unroll sc.heap c = .ok slc := by
      rw [← hh, unroll_norm _ n (reach_geo r.reachC)]; exact h2
    have e4 : sliceVals sc.heap slc = .ok vals := by rw [← hh]; exact h4
    refine ⟨sg, sc, .vals vals, ?_, ?_, WorldO.mk' hgo w ns⟩
    · simp [stepOp, arrAt, hg, h1, h3, bind, Except.bind, pure, Except.pure]
    · simp [stepOp, arrAt, hc, e, e4, bind, Except.bind, pure, Except.pure]
  | contiguous i =>
    obtain ⟨g, hg⟩ := ok
    obtain ⟨c', hc', r⟩ := w.partner hg
    obtain ⟨c, hc, n⟩ := ns.partner hc'
    obtain ⟨b, hb⟩ := (contiguous_iff_geo (reach_geo r.reach)).2
    have hbc : c.v.contiguous = .ok b := by rw [n.contiguous, ← r.view]; exact hb
    refine ⟨sg, sc, .flag b, ?_, ?_, WorldO.mk' hgo w ns⟩
    · simp [stepOp, arrAt, hg, hb, bind, Except.bind, pure, Except.pure]
    · simp [stepOp, arrAt, hc, hbc, bind, Except.bind, pure, Except.pure]
  | extremum better i =>
    obtain ⟨g, hg⟩ := ok
    obtain ⟨c', hc', r⟩ := w.partner hg
    obtain ⟨c, hc, n⟩ := ns.partner hc'
    obtain ⟨v0, rest, _, _, h1, h2⟩ := r.extremum better
    have e : Nd.extremum better sc.heap c =
        .ok ((v0 :: rest).foldl (fun res v => if better v res then v else res) v0) := by
      rw [← hh, extremum_norm better _ n (reach_geo r.reachC)]; exact h2
    refine ⟨sg, sc, .val ((v0 :: rest).foldl (fun res v => if better v res then v else res) v0), ?_, ?_,
      WorldO.mk' hgo w ns⟩
    · simp [stepOp, arrAt, hg, h1, bind, Except.bind, pure, Except.pure]
    · simp [stepOp, arrAt, hc, e, bind, Except.bind, pure, Except.pure]
  | zipWithInto f i j =>
    obtain ⟨gd, gs, hgd, hgs, hne, hsh⟩ := ok
    obtain ⟨cd', hcd', rd⟩ := w.partner hgd
    obtain ⟨cs', hcs', rs⟩ := w.partner hgs
    obtain ⟨cd, hcd, nd⟩ := ns.partner hcd'
    obtain ⟨cs, hcs, nsr⟩ := ns.partner hcs'
    have hneC := w.sid_ne hgd hcd' hgs hcs' hne
    obtain ⟨hg', hcN, _, _, e1, e2, _, _, _, _, pw⟩ :=
      RelW.zipWithInto rd rs f (fun e => hne e.symm) (fun e => hneC e.symm) hsh
    have hsh' : cs'.v.dims = cd'.v.dims := by rw [← rd.view, ← rs.view]; exact hsh
    have e : Nd.zipWithInto f sc.heap cd cs = .ok hcN := by
      rw [← hh, zipWithInto_norm f _ nd nsr (reach_geo rd.reachC) (reach_geo rs.reachC) hsh']; exact e2
    refine ⟨{ sg with heap := hg' }, { sc with heap := hcN }, .unit, ?_, ?_, WorldO.mk' hgo (w.update hgd hcd' pw) (ns.setHeap hcN)⟩
    · simp [stepOp, arrAt, hgd, hgs, e1, bind, Except.bind, pure, Except.pure]
    · simp [stepOp, arrAt, hcd, hcs, e, bind, Except.bind, pure, Except.pure]
  | reshape i shape =>
    obtain ⟨g, hg, hdom⟩ := ok
    obtain ⟨c', hc', r⟩ := w.partner hg
    obtain ⟨c, hc, n⟩ := ns.partner hc'
    rcases reshape_simO w ns hg hc' hc (hgo i g hg) hdom with ⟨e1, e2⟩ | ⟨hg', hcN, bg, bc, bN, e1, e2, hbg, w', ns'⟩
    · refine ⟨sg, sc, .err "size-mismatch", ?_, ?_, WorldO.mk' hgo w ns⟩
      · simp [stepOp, arrAt, hg, e1, bind, Except.bind, pure, Except.pure]
      · simp [stepOp, arrAt, hc, e2, bind, Except.bind, pure, Except.pure]
    · refine ⟨⟨hg', sg.arrs ++ [bg]⟩, ⟨hcN, sc.arrs ++ [bc]⟩, .unit, ?_, ?_, WorldO.mk' (goSide_push hgo hbg) w' ns'⟩
      · simp [stepOp, arrAt, hg, e1, bind, Except.bind, pure, Except.pure]
      · simp [stepOp, arrAt, hc, e2, bind, Except.bind, pure, Except.pure]
  | reshapeFast i shape =>
    obtain ⟨g, hg, hdom⟩ := ok
    obtain ⟨c', hc', r⟩ := w.partner hg
    obtain ⟨c, hc, n⟩ := ns.partner hc'
    obtain ⟨b, hb⟩ := (contiguous_iff_geo (reach_geo r.reach)).2
    have hbc : c.v.contiguous = .ok b := by rw [n.contiguous, ← r.view]; exact hb
    cases b with
    | false =>
      have e1 := reshapeFast_noncontig (h := sg.heap) shape hb
      have e2 := reshapeFast_noncontig (h := sc.heap) shape hbc
      refine ⟨sg, sc, .err "not-contiguous", ?_, ?_, WorldO.mk' hgo w ns⟩
      · simp [stepOp, arrAt, hg, e1, bind, Except.bind, pure, Except.pure]
      · simp [stepOp, arrAt, hc, e2, bind, Except.bind, pure, Except.pure]
    | true =>
      have f1 := reshapeFast_contig (h := sg.heap) shape hb
      have f2 := reshapeFast_contig (h := sc.heap) shape hbc
      have hdom' : product shape ≠ g.v.size ∨ (product shape = g.v.size ∧ shape ≠ [] ∧ Pos shape) := by
        rcases hdom with h | h | h
        · rw [hb] at h; exact absurd h (by simp)
        · exact Or.inl h
        · exact Or.inr h
      rcases reshape_simO w ns hg hc' hc (hgo i g hg) hdom' with ⟨e1, e2⟩ | ⟨hg', hcN, bg, bc, bN, e1, e2, hbg, w', ns'⟩
      · refine ⟨sg, sc, .err "size-mismatch", ?_, ?_, WorldO.mk' hgo w ns⟩
        · simp [stepOp, arrAt, hg, f1, e1, bind, Except.bind, pure, Except.pure]
        · simp [stepOp, arrAt, hc, f2, e2, bind, Except.bind, pure, Except.pure]
      · refine ⟨⟨hg', sg.arrs ++ [bg]⟩, ⟨hcN, sc.arrs ++ [bc]⟩, .unit, ?_, ?_, WorldO.mk' (goSide_push hgo hbg) w' ns'⟩
        · simp [stepOp, arrAt, hg, f1, e1, bind, Except.bind, pure, Except.pure]
        · simp [stepOp, arrAt, hc, f2, e2, bind, Except.bind, pure, Except.pure]

/-- **whole programs in lock step up to normal forms** -/
theorem run_simO : ∀ (prog : List (Op α)) {sg sc : St α}, WorldO sg sc → ProgOK' sg prog →
    ∃ sg' sc' obs, run sg prog = .ok (sg', obs) ∧ run sc prog = .ok (sc', obs) ∧ WorldO sg' sc'
  | [], sg, sc, w, _ => ⟨sg, sc, [], rfl, rfl, w⟩
  | op :: ops, sg, sc, w, ok => by
    obtain ⟨sg1, sc1, o, h1, h2, w1⟩ := step_simO w ok.1
    obtain ⟨sg', sc', obs, r1, r2, w'⟩ := run_simO ops w1 (ok.2 sg1 o h1)
    exact ⟨sg', sc', o :: obs, by simp [run, h1, r1, bind, Except.bind, pure, Except.pure],
      by simp [run, h2, r2, bind, Except.bind, pure, Except.pure], w'⟩

/-- the initial states (the same buffers wrapped as Go slices / as C memory) are in lock step up to normal forms -/
theorem worldO_roots (bufs : Heap α) (shapes : List Idx) (ok : ShapesOK bufs shapes) :
    WorldO ⟨bufs, rootArrs bufs false shapes⟩ ⟨bufs, rootArrs bufs true shapes⟩ := by
  refine ⟨fun i g h => ?_, _, world_roots bufs shapes ok, NormSt.refl _⟩
  simp only [rootArrs_getElem?] at h
  cases hd : shapes[i]? with
  | none => simp [hd] at h
  | some d =>
    simp only [hd, Option.map_some, Option.some.injEq] at h
    subst h
    rfl

end
end OW.NdOff
