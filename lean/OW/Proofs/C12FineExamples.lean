import OW.Proofs.C12Fine
/-!
C12 helpers: concrete one-step runs of `instreamFineSediment` (main path) that take the branches `fine:remob`
(uncapped remobilisation from the channel store) and `fine:flood` (over-bank flow with floodplain deposition).
The parameters make every power of the transport-capacity formula equal to 1 (`outflow = slope = width = n = 1`), so
`stc(v) = 0.1/v·86400` and every number below is exact; they satisfy `FineRange`.
-/
namespace OW.C12
open OW OW.Kernels

/-- bank-full flow 2 m³/s (no flood at outflow 1), deposition capacity `stc(86400) = 0.1 t/d`, remobilisation capacity
`stc(8640) = 1 t/d`, channel-store capacity 1000 kg, Δt = 10 s -/
def fineRemobParams : InstreamFineSediment.Params ℝ := ⟨2, 0, 0, 1, 1, 1, 1, 1, 1, 1, 86400, 8640, 10⟩

/-- bank-full flow 0.5 m³/s (outflow 1 is over bank), `fineSedSettVelocityFlood·floodPlainArea = 0.5 = Qf`, otherwise as
`fineRemobParams` -/
def fineFloodParams : InstreamFineSediment.Params ℝ := ⟨0.5, 0.5, 1, 1, 1, 1, 1, 1, 1, 1, 86400, 8640, 10⟩

theorem fineRemobParams_range : FineRange fineRemobParams := by
  constructor <;> simp only [InstreamFineSediment.maxStorage, fineRemobParams] <;> realnum <;> norm_num

theorem fineFloodParams_range : FineRange fineFloodParams := by
  constructor <;> simp only [InstreamFineSediment.maxStorage, fineFloodParams] <;> realnum <;> norm_num

/-- `fine:noflood` + `fine:remob`: 50 kg in the water (0.05 t < 1 t/d), 1000 kg in the channel store, 100 m³ of water of
which 10 m³ leave. The step remobilises (1 − 0.05)·1000 = 950 kg ≤ 1000 kg (uncapped), the channel store drops to 50 kg,
the 1000 kg then in the water leave at 10 kg/m³: 10 kg/s downstream, 900 kg stay. -/
theorem fine_example_remob :
    InstreamFineSediment.classify fineRemobParams (InstreamFineSediment.start fineRemobParams (1000, 50))
      (0, 0, 0, 90, 1) = ["fine:noflood", "fine:remob"] ∧
    (InstreamFineSediment.run fineRemobParams (1000, 50) [(0, 0, 0, 90, 1)]).1 = (50, 900) ∧
    (InstreamFineSediment.run fineRemobParams (1000, 50) [(0, 0, 0, 90, 1)]).2.map
      (fun o => (o.loadDownstream, o.loadToFloodplain, o.loadToChannelDeposition, o.flushed)) = [(10, 0, -950, 0)] := by
  have hm : ¬ fineRemobParams.bankFullFlow ≤ 1e-8 := by simp only [fineRemobParams]; norm_num
  obtain ⟨hstep, hstart⟩ := fine_step_main fineRemobParams hm
  unfold InstreamFineSediment.run
  rw [hstep, hstart]
  simp only [scan, InstreamFineSediment.stepMain, InstreamFineSediment.classify, InstreamFineSediment.initStore,
    InstreamFineSediment.floodPlainDepositionEmperical, InstreamFineSediment.inChannelStorage, InstreamFineSediment.stc,
    InstreamFineSediment.maxStorage, fineRemobParams]
  realnum
  norm_num [Real.one_rpow]

/-- `fine:flood` + `fine:deposit`: 1000 kg in the water, empty channel store, outflow 1 > bank-full 0.5. Floodplain
deposition `1000·(Qf/Q)·(1 − e^(−v·A/Qf)) = 500·(1 − e⁻¹)` kg (> 0, reported as a rate: /Δt); of the rest, everything
above the 0.1 t/d capacity settles in the channel (`400 + 500·e⁻¹` kg ≤ capacity 1000 kg, uncapped), exactly 100 kg stay
in the water: 1 kg/s downstream, 90 kg stored. -/
theorem fine_example_flood :
    InstreamFineSediment.classify fineFloodParams (InstreamFineSediment.start fineFloodParams (0, 1000))
      (0, 0, 0, 90, 1) = ["fine:flood", "fine:deposit"] ∧
    (InstreamFineSediment.run fineFloodParams (0, 1000) [(0, 0, 0, 90, 1)]).1 = (400 + 500 * Real.exp (-1), 90) ∧
    (InstreamFineSediment.run fineFloodParams (0, 1000) [(0, 0, 0, 90, 1)]).2.map
      (fun o => (o.loadDownstream, o.loadToFloodplain, o.loadToChannelDeposition, o.flushed)) =
        [(1, 50 * (1 - Real.exp (-1)), 400 + 500 * Real.exp (-1), 0)] ∧
    0 < 50 * (1 - Real.exp (-1)) := by
  have hm : ¬ fineFloodParams.bankFullFlow ≤ 1e-8 := by simp only [fineFloodParams]; norm_num
  obtain ⟨hstep, hstart⟩ := fine_step_main fineFloodParams hm
  unfold InstreamFineSediment.run
  rw [hstep, hstart]
  simp only [scan, InstreamFineSediment.stepMain, InstreamFineSediment.classify, InstreamFineSediment.initStore,
    InstreamFineSediment.floodPlainDepositionEmperical, InstreamFineSediment.inChannelStorage, InstreamFineSediment.stc,
    InstreamFineSediment.maxStorage, fineFloodParams]
  realnum
  have he0 : 0 < Real.exp (-1) := Real.exp_pos _
  have he1 : Real.exp (-1) < 1 := by rw [Real.exp_lt_one_iff]; norm_num
  norm_num [Real.one_rpow]
  generalize Real.exp (-1) = e at *
  have h1 : ¬ (1000 < 500 * (1 - e)) := by linarith
  simp only [if_neg h1]
  have h2 : 1 / 10 < (1000 - 500 * (1 - e)) * (1 / 1000) := by linarith
  have h3 : (1000 - 500 * (1 - e)) * (1 / 1000) ≤ 11 / 10 := by linarith
  have h4 : min (((1000 - 500 * (1 - e)) * (1 / 1000) - 1 / 10) * 1000) 1000 =
      ((1000 - 500 * (1 - e)) * (1 / 1000) - 1 / 10) * 1000 := min_eq_left (by linarith)
  simp only [if_pos h2, if_pos h3, h4]
  exact ⟨trivial, ⟨by ring, by ring⟩, by ring, by ring, by ring⟩

end OW.C12
