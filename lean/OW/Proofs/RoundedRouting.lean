import OW.Proofs.Rounded
import OW.Kernels.StorageRouting
/-!
Helper lemmas for OW/Props/Rounded/C11.lean: the exits of StorageRouting's `calcOutflow` over rounded arithmetic (`RNum R`).
-/
namespace OW.Rounded.Routing
open OW OW.Kernels OW.Kernels.StorageRouting OW.Rounded

variable {R : Rounding}

/-- over `RNum R` nothing is NaN: `runRouting` never panics -/
theorem runRouting_ok (c : Ctx (RNum R)) (q : RNum R) : runRouting c q = .ok (rr c q) := by
  unfold runRouting
  simp only [RNum.isNaN_eq, Bool.false_eq_true, if_false]

/-- `outflow = max(0, newStorage − S) ⊘ Δt ≥ 0` -/
theorem rr_outflow_nonneg (c : Ctx (RNum R)) (q : RNum R) (hd : 0 ≤ c.duration.val) : 0 ≤ (rr c q).outflow.val := by
  simp only [rr]
  exact RNum.div_nonneg (by rw [RNum.gmax_val, RNum.nat_zero_val]; exact le_max_left _ _) hd

/-- `newStorage = max(…, 0) ≥ 0` -/
theorem newStorage_nonneg (c : Ctx (RNum R)) : 0 ≤ (newStorage c).val := by
  unfold newStorage; rw [RNum.gmax_val, RNum.sci_zero_val]; exact le_max_right _ _

/-- what every exit satisfies: outflow ≥ 0, and storage ≥ 0 provided the index storage is -/
def Good (c : Ctx (RNum R)) (r : CO (RNum R)) : Prop :=
  0 ≤ r.outflow.val ∧ ((∀ q, 0 ≤ (sIndex c q).val) → 0 ≤ r.storage.val)

/-- an exit that reports `runRouting`'s outflow and index storage is `Good` -/
theorem good_rr (c : Ctx (RNum R)) (q qi : RNum R) (tag : String) (hd : 0 ≤ c.duration.val) :
    Good c ⟨qi, (rr c q).outflow, (rr c q).sIndex, tag⟩ :=
  ⟨rr_outflow_nonneg c q hd, fun hS => hS q⟩

/-- the exits of the second half of `calcOutflow` -/
theorem solve_good (c : Ctx (RNum R)) (prevQi minQI mx : RNum R) (r : CO (RNum R)) (hd : 0 ≤ c.duration.val)
    (h : solve c prevQi minQI mx = .ok r) : Good c r := by
  unfold solve at h
  simp only [runRouting_ok] at h
  by_cases h1 : (rr c mx).massBalance < massBalanceLimit
  · rw [if_pos h1] at h
    cases h
    refine ⟨?_, fun _ => ?_⟩
    · rw [RNum.gmax_val, RNum.sci_zero_val]; exact le_max_left _ _
    · rw [RNum.gmax_val, RNum.sci_zero_val]; exact le_max_right _ _
  · rw [if_neg h1] at h
    split_ifs at h
    all_goals
      first
      | (cases h; exact good_rr c _ _ _ hd)
      | (split at h
         · cases h
         · split_ifs at h <;> (cases h; try exact good_rr c _ _ _ hd))

/-- the zero-bias set-up of `storageRouting` (`|bias| < 0.001`): `Klimit = k`, `Koffset = 0` -/
theorem setup_zero_bias (bias k x dt : RNum R) (hb : Num.abs bias < (0.001 : RNum R)) :
    setup bias k x dt = ⟨0.0, x, k, (if (1.0 : RNum R) < x then 1e37 else 0.0), 0.0⟩ := by
  unfold setup; rw [if_pos hb]

/-- index storage ≥ 0 for a context with `Klimit ≥ 0`, routing constant ≥ 0, dead storage ≥ 0 and `Koffset = 0` (the zero-bias
set-up), under every rounding (`q^m` idealised as correctly rounded; only its sign is used) -/
theorem sIndex_nonneg_zero_offset (c : Ctx (RNum R)) (hkl : 0 ≤ c.klimit.val) (hrc : 0 ≤ c.routingConstant.val)
    (hdead : 0 ≤ c.deadStorage.val) (hko : c.koffset.val = 0) (q : RNum R) : 0 ≤ (sIndex c q).val := by
  unfold sIndex
  split_ifs with h1 h2
  · exact hdead
  · rw [RNum.le_iff, RNum.sci_zero_val, not_le] at h1
    exact RNum.add_nonneg (RNum.mul_nonneg hkl h1.le) hdead
  · rw [RNum.le_iff, RNum.sci_zero_val, not_le] at h1
    apply RNum.add_nonneg _ hdead
    rw [RNum.sub_val, hko, sub_zero, (c.routingConstant * Num.pow q c.routingPower).rep]
    exact RNum.mul_nonneg hrc (by rw [RNum.pow_val]; exact R.rnd_nonneg (Real.rpow_nonneg h1.le _))

end OW.Rounded.Routing
