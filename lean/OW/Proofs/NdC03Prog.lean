import OW.Proofs.NdC03Reshape
/-!
Helper definitions and lemmas for C03: a small program fragment over a list of live arrays, interpreted on a state
(heap, arrays), and the lock-step simulation of two states whose arrays are pairwise related.

The fragment: `slice` (appends the new view to the list), `get`, `set`, `apply`, `applySlice`, `copyFrom`, `unroll`,
`contiguous`, `extremum`, `zipWithInto`, and `reshape` / `reshapeFast` (append their result; a returned error is an
observation) for requests with a size mismatch, on non-contiguous views (both sides copy), and on contiguous views that
start at address 0 (whole roots and their leading blocks). NOT in the fragment: a successful `Reshape` of a contiguous
view with `Start > 0` — its C-side result is a root view with a non-zero `Start`, which is outside the `Reach`
vocabulary the C01/C02 theorems quantify over (its one-step behaviour is in `NdC03Reshape.lean`).
-/
namespace OW.NdC03
open OW.Nd OW.NdC02
open OW.Props.C03 (Rel)

section
variable {α : Type}

/-- operations of the fragment; `i`, `j` index the list of live arrays (`i` = receiver, `j` = source) -/
inductive Op (α : Type) where
  | slice (i : Nat) (loc dims : Idx) (step : Option Idx)
  | get (i : Nat) (loc : Idx)
  | set (i : Nat) (loc : Idx) (x : α)
  | apply (i : Nat) (loc : Idx) (dim step : Int) (vals : List α)
  | applySlice (i j : Nat) (loc : Idx) (step : Option Idx)
  | copyFrom (i j : Nat)
  | unroll (i : Nat)
  | contiguous (i : Nat)
  | extremum (better : α → α → Bool) (i : Nat)
  | zipWithInto (f : α → α → α) (i j : Nat)
  | reshape (i : Nat) (shape : Idx)
  | reshapeFast (i : Nat) (shape : Idx)

/-- what the caller observes of one operation -/
inductive Obs (α : Type) where
  | unit
  | val (x : α)
  | vals (l : List α)
  | flag (b : Bool)
  | err (msg : String)
  deriving Repr, DecidableEq

/-- a state: the heap and the live arrays -/
structure St (α : Type) where
  heap : Heap α
  arrs : List Arr

def arrAt (s : St α) (i : Nat) : R Arr :=
  match s.arrs[i]? with
  | some a => .ok a
  | none => .error "no-array"

/-- one operation on one state (either back-end: the arrays carry their own `isC` flag) -/
def stepOp (s : St α) : Op α → R (St α × Obs α)
  | .slice i loc dims step => do
    let a ← arrAt s i
    let b ← Nd.slice a loc dims step
    pure ({ s with arrs := s.arrs ++ [b] }, .unit)
  | .get i loc => do
    let a ← arrAt s i
    let x ← Nd.get s.heap a loc
    pure (s, .val x)
  | .set i loc x => do
    let a ← arrAt s i
    let h ← Nd.set s.heap a loc x
    pure ({ s with heap := h }, .unit)
  | .apply i loc dim step vals => do
    let a ← arrAt s i
    let h ← Nd.apply s.heap a loc dim step vals
    pure ({ s with heap := h }, .unit)
  | .applySlice i j loc step => do
    let a ← arrAt s i
    let b ← arrAt s j
    let h ← Nd.applySlice s.heap a loc step b
    pure ({ s with heap := h }, .unit)
  | .copyFrom i j => do
    let a ← arrAt s i
    let b ← arrAt s j
    let h ← Nd.copyFrom s.heap a b
    pure ({ s with heap := h }, .unit)
  | .unroll i => do
    let a ← arrAt s i
    let sl ← Nd.unroll s.heap a
    let vs ← sliceVals s.heap sl
    pure (s, .vals vs)
  | .contiguous i => do
    let a ← arrAt s i
    let b ← a.v.contiguous
    pure (s, .flag b)
  | .extremum better i => do
    let a ← arrAt s i
    let x ← Nd.extremum better s.heap a
    pure (s, .val x)
  | .zipWithInto f i j => do
    let a ← arrAt s i
    let b ← arrAt s j
    let h ← Nd.zipWithInto f s.heap a b
    pure ({ s with heap := h }, .unit)
  | .reshape i shape => do
    let a ← arrAt s i
    let r ← Nd.reshape s.heap a shape
    match r.2 with
    | .inl e => pure ({ s with heap := r.1 }, .err e)
    | .inr b => pure (⟨r.1, s.arrs ++ [b]⟩, .unit)
  | .reshapeFast i shape => do
    let a ← arrAt s i
    let r ← Nd.reshapeFast s.heap a shape
    match r.2 with
    | .inl e => pure ({ s with heap := r.1 }, .err e)
    | .inr b => pure (⟨r.1, s.arrs ++ [b]⟩, .unit)

/-- a program: the first panic aborts -/
def run : St α → List (Op α) → R (St α × List (Obs α))
  | s, [] => .ok (s, [])
  | s, op :: ops => do
    let r ← stepOp s op
    let r' ← run r.1 ops
    pure (r'.1, r.2 :: r'.2)

/-- the request is in the domain of the C01/C02 theorems (in-bounds; two-array operations on different storages) -/
def OpOK (arrs : List Arr) : Op α → Prop
  | .slice i loc dims step => ∃ a, arrs[i]? = some a ∧ SliceOK a.v.dims loc dims (stepOr a.v.dims.length step)
  | .get i loc => ∃ a, arrs[i]? = some a ∧ InBounds loc a.v.dims
  | .set i loc _ => ∃ a, arrs[i]? = some a ∧ InBounds loc a.v.dims
  | .apply i loc dim step vals => ∃ a, arrs[i]? = some a ∧ 0 ≤ dim ∧ dim < a.v.dims.length ∧
      SliceOK a.v.dims loc (applyDims a dim vals.length) (applySteps a dim step)
  | .applySlice i j loc step => ∃ a b, arrs[i]? = some a ∧ arrs[j]? = some b ∧ b.sid ≠ a.sid ∧
      SliceOK a.v.dims loc b.v.dims (stepOr a.v.dims.length step)
  | .copyFrom i j => ∃ a b, arrs[i]? = some a ∧ arrs[j]? = some b ∧ b.sid ≠ a.sid ∧ b.v.dims = a.v.dims
  | .unroll i => ∃ a, arrs[i]? = some a
  | .contiguous i => ∃ a, arrs[i]? = some a
  | .extremum _ i => ∃ a, arrs[i]? = some a
  | .zipWithInto _ i j => ∃ a b, arrs[i]? = some a ∧ arrs[j]? = some b ∧ b.sid ≠ a.sid ∧ b.v.dims = a.v.dims
  | .reshape i shape => ∃ a, arrs[i]? = some a ∧ (product shape ≠ a.v.size ∨
      (product shape = a.v.size ∧ shape ≠ [] ∧ Pos shape ∧ (a.v.contiguous = .ok false ∨ a.v.start = 0)))
  | .reshapeFast i shape => ∃ a, arrs[i]? = some a ∧ (a.v.contiguous = .ok false ∨ product shape ≠ a.v.size ∨
      (product shape = a.v.size ∧ shape ≠ [] ∧ Pos shape ∧ a.v.start = 0))

/-- every request of the program is in the domain when it is issued (states followed along the run on `s`) -/
def ProgOK : St α → List (Op α) → Prop
  | _, [] => True
  | s, op :: ops => OpOK s.arrs op ∧ ∀ s' o, stepOp s op = .ok (s', o) → ProgOK s' ops

/-- the state after one operation (the state itself if the operation panics) -/
def next (s : St α) (op : Op α) : St α :=
  match stepOp s op with
  | .ok r => r.1
  | .error _ => s

/-- `ProgOK`, computed along the run -/
theorem progOK_cons {s : St α} {op : Op α} {ops : List (Op α)} (h1 : OpOK s.arrs op) (h2 : ProgOK (next s op) ops) :
    ProgOK s (op :: ops) := by
  refine ⟨h1, fun s' o h => ?_⟩
  simp only [next, h] at h2
  exact h2

/-- two states in lock step: the live arrays are pairwise related and pairwise over compatible windows -/
structure World (sg sc : St α) : Prop where
  len : sg.arrs.length = sc.arrs.length
  rel : ∀ (i : Nat) (g c : Arr), sg.arrs[i]? = some g → sc.arrs[i]? = some c → RelW sg.heap sc.heap g c
  compat : ∀ (i j : Nat) (g c g' c' : Arr), sg.arrs[i]? = some g → sc.arrs[i]? = some c → sg.arrs[j]? = some g' →
    sc.arrs[j]? = some c' → Compat (winOf g c) (winOf g' c')

theorem World.partner {sg sc : St α} (w : World sg sc) {i : Nat} {g : Arr} (hg : sg.arrs[i]? = some g) :
    ∃ c, sc.arrs[i]? = some c ∧ RelW sg.heap sc.heap g c := by
  have hi : i < sc.arrs.length := by rw [← w.len]; exact (List.getElem?_eq_some_iff.mp hg).1
  exact ⟨sc.arrs[i], List.getElem?_eq_getElem hi, w.rel i g _ hg (List.getElem?_eq_getElem hi)⟩

/-- paired writes through the windows of one live pair keep the two states in lock step -/
theorem World.update {sg sc : St α} (w : World sg sc) {i : Nat} {g c : Arr} (hg : sg.arrs[i]? = some g)
    (hc : sc.arrs[i]? = some c) {hg' hc' : Heap α} (pw : Paired (winOf g c) sg.heap sc.heap hg' hc') :
    World { sg with heap := hg' } { sc with heap := hc' } := by
  have r := w.rel i g c hg hc
  refine ⟨w.len, fun j g' c' h1 h2 => ?_, w.compat⟩
  exact pw.relW r.okG.base_nonneg r.okC.base_nonneg (w.rel j g' c' h1 h2) (w.compat i j g c g' c' hg hc h1 h2)

theorem append_pair_cases {β : Type} {la lb : List β} {a b x y : β} {i : Nat} (hl : la.length = lb.length)
    (h1 : (la ++ [a])[i]? = some x) (h2 : (lb ++ [b])[i]? = some y) :
    (la[i]? = some x ∧ lb[i]? = some y) ∨ (i = la.length ∧ x = a ∧ y = b) := by
  by_cases hi : i < la.length
  · rw [List.getElem?_append_left hi] at h1
    rw [List.getElem?_append_left (by omega)] at h2
    exact Or.inl ⟨h1, h2⟩
  · have hlt := (List.getElem?_eq_some_iff.mp h1).1
    simp only [List.length_append, List.length_cons, List.length_nil] at hlt
    have e : i = la.length := by omega
    subst e
    rw [List.getElem?_concat_length] at h1
    rw [hl, List.getElem?_concat_length] at h2
    injection h1 with h1
    injection h2 with h2
    exact Or.inr ⟨rfl, h1.symm, h2.symm⟩

/-- a new view pair over the windows of a live pair joins the lock step -/
theorem World.push {sg sc : St α} (w : World sg sc) {i : Nat} {g c g' c' : Arr} (hg : sg.arrs[i]? = some g)
    (hc : sc.arrs[i]? = some c) (r' : RelW sg.heap sc.heap g' c') (hw : winOf g' c' = winOf g c) :
    World { sg with arrs := sg.arrs ++ [g'] } { sc with arrs := sc.arrs ++ [c'] } := by
  refine ⟨by simp [w.len], ?_, ?_⟩
  · intro j a b h1 h2
    rcases append_pair_cases w.len h1 h2 with ⟨e1, e2⟩ | ⟨_, rfl, rfl⟩
    · exact w.rel j a b e1 e2
    · exact r'
  · intro j k a b a' b' h1 h2 h3 h4
    rcases append_pair_cases w.len h1 h2 with ⟨e1, e2⟩ | ⟨_, rfl, rfl⟩ <;>
      rcases append_pair_cases w.len h3 h4 with ⟨e3, e4⟩ | ⟨_, rfl, rfl⟩
    · exact w.compat j k a b a' b' e1 e2 e3 e4
    · rw [hw]; exact w.compat j i a b g c e1 e2 hg hc
    · rw [hw]; exact w.compat i k g c a' b' hg hc e3 e4
    · exact Compat.refl _

/-- a new pair over two newly allocated storages joins the lock step -/
theorem World.alloc {sg sc : St α} (w : World sg sc) {vg vc : List α} {g' c' : Arr}
    (r' : RelW (sg.heap ++ [vg]) (sc.heap ++ [vc]) g' c') (h1 : g'.sid = sg.heap.length) (h2 : c'.sid = sc.heap.length) :
    World ⟨sg.heap ++ [vg], sg.arrs ++ [g']⟩ ⟨sc.heap ++ [vc], sc.arrs ++ [c']⟩ := by
  have hold : ∀ (j : Nat) (a b : Arr), sg.arrs[j]? = some a → sc.arrs[j]? = some b → a.sid ≠ g'.sid ∧ b.sid ≠ c'.sid := by
    intro j a b e1 e2
    have r := w.rel j a b e1 e2
    have := arrOK_sid_lt r.okG
    have := arrOK_sid_lt r.okC
    exact ⟨by omega, by omega⟩
  refine ⟨by simp [w.len], ?_, ?_⟩
  · intro j a b e1 e2
    rcases append_pair_cases w.len e1 e2 with ⟨e1, e2⟩ | ⟨_, rfl, rfl⟩
    · exact (w.rel j a b e1 e2).append vg vc
    · exact r'
  · intro j k a b a' b' f1 f2 f3 f4
    rcases append_pair_cases w.len f1 f2 with ⟨e1, e2⟩ | ⟨_, rfl, rfl⟩ <;>
      rcases append_pair_cases w.len f3 f4 with ⟨e3, e4⟩ | ⟨_, rfl, rfl⟩
    · exact w.compat j k a b a' b' e1 e2 e3 e4
    · obtain ⟨n1, n2⟩ := hold j a b e1 e2
      exact Compat.of_ne (fun e => n1 e.symm) (fun e => n2 e.symm)
    · obtain ⟨n1, n2⟩ := hold k a' b' e3 e4
      exact Compat.of_ne n1 n2
    · exact Compat.refl _

/-- `Reshape` in lock step (requests of the fragment) -/
theorem reshape_sim {sg sc : St α} (w : World sg sc) {i : Nat} {g c : Arr} (hg : sg.arrs[i]? = some g)
    (hc : sc.arrs[i]? = some c) (r : RelW sg.heap sc.heap g c) {shape : Idx}
    (hdom : product shape ≠ g.v.size ∨
      (product shape = g.v.size ∧ shape ≠ [] ∧ Pos shape ∧ (g.v.contiguous = .ok false ∨ g.v.start = 0))) :
    (Nd.reshape sg.heap g shape = .ok (sg.heap, .inl "size-mismatch") ∧
      Nd.reshape sc.heap c shape = .ok (sc.heap, .inl "size-mismatch")) ∨
    (∃ hg' hc' bg bc, Nd.reshape sg.heap g shape = .ok (hg', .inr bg) ∧ Nd.reshape sc.heap c shape = .ok (hc', .inr bc) ∧
      World ⟨hg', sg.arrs ++ [bg]⟩ ⟨hc', sc.arrs ++ [bc]⟩) := by
  rcases hdom with hne | ⟨hsz, hs, hp, hd⟩
  · exact Or.inl ⟨reshape_mismatch _ g shape hne, reshape_mismatch _ c shape (by rw [← r.view]; exact hne)⟩
  · obtain ⟨hg', hc', bg, bc, e1, e2, r', hcase⟩ := r.reshape hsz hs hp hd
    refine Or.inr ⟨hg', hc', bg, bc, e1, e2, ?_⟩
    rcases hcase with ⟨rfl, rfl, hw⟩ | ⟨vals, rfl, rfl, s1, s2⟩
    · exact w.push hg hc r' hw
    · exact w.alloc r' s1 s2

/-- a pair of live arrays over different Go storages is over different C storages -/
theorem World.sid_ne {sg sc : St α} (w : World sg sc) {i j : Nat} {g c g' c' : Arr} (h1 : sg.arrs[i]? = some g)
    (h2 : sc.arrs[i]? = some c) (h3 : sg.arrs[j]? = some g') (h4 : sc.arrs[j]? = some c') (hne : g'.sid ≠ g.sid) :
    c'.sid ≠ c.sid := by
  have := (w.compat i j g c g' c' h1 h2 h3 h4).sid_iff
  simp only [winOf] at this
  exact fun e => hne (this.mpr e)

/-- **one step in lock step**: an in-domain request succeeds on both states with the same observation, and the
states stay in lock step -/
theorem step_sim {sg sc : St α} (w : World sg sc) {op : Op α} (ok : OpOK sg.arrs op) :
    ∃ sg' sc' o, stepOp sg op = .ok (sg', o) ∧ stepOp sc op = .ok (sc', o) ∧ World sg' sc' := by
  cases op with
  | slice i loc dims step =>
    obtain ⟨g, hg, hok⟩ := ok
    obtain ⟨c, hc, r⟩ := w.partner hg
    obtain ⟨g', c', h1, h2, r', eg, ec, _, _⟩ := r.slice hok
    refine ⟨_, _, .unit, ?_, ?_, w.push hg hc r' (by rw [eg, ec]; rfl)⟩
    · simp [stepOp, arrAt, hg, h1, bind, Except.bind, pure, Except.pure]
    · simp [stepOp, arrAt, hc, h2, bind, Except.bind, pure, Except.pure]
  | get i loc =>
    obtain ⟨g, hg, hib⟩ := ok
    obtain ⟨c, hc, r⟩ := w.partner hg
    obtain ⟨x, h1, h2⟩ := r.get hib
    refine ⟨sg, sc, .val x, ?_, ?_, w⟩
    · simp [stepOp, arrAt, hg, h1, bind, Except.bind, pure, Except.pure]
    · simp [stepOp, arrAt, hc, h2, bind, Except.bind, pure, Except.pure]
  | set i loc x =>
    obtain ⟨g, hg, hib⟩ := ok
    obtain ⟨c, hc, r⟩ := w.partner hg
    obtain ⟨hg', hc', h1, h2, pw⟩ := r.setAll [loc] [x] (by intro i hi; simp at hi; subst hi; exact hib)
    have e1 : Nd.set sg.heap g loc x = .ok hg' := by
      simp only [NdC02.setAll, bind, Except.bind] at h1
      cases hs : Nd.set sg.heap g loc x with
      | error m => rw [hs] at h1; cases h1
      | ok h' => rw [hs] at h1; exact h1
    have e2 : Nd.set sc.heap c loc x = .ok hc' := by
      simp only [NdC02.setAll, bind, Except.bind] at h2
      cases hs : Nd.set sc.heap c loc x with
      | error m => rw [hs] at h2; cases h2
      | ok h' => rw [hs] at h2; exact h2
    refine ⟨_, _, .unit, ?_, ?_, w.update hg hc pw⟩
    · simp [stepOp, arrAt, hg, e1, bind, Except.bind, pure, Except.pure]
    · simp [stepOp, arrAt, hc, e2, bind, Except.bind, pure, Except.pure]
  | apply i loc dim step vals =>
    obtain ⟨g, hg, h0, h1, hok⟩ := ok
    obtain ⟨c, hc, r⟩ := w.partner hg
    obtain ⟨hg', hc', e1, e2, pw⟩ := r.apply h0 h1 hok
    refine ⟨_, _, .unit, ?_, ?_, w.update hg hc pw⟩
    · simp [stepOp, arrAt, hg, e1, bind, Except.bind, pure, Except.pure]
    · simp [stepOp, arrAt, hc, e2, bind, Except.bind, pure, Except.pure]
  | applySlice i j loc step =>
    obtain ⟨gd, gs, hgd, hgs, hne, hok⟩ := ok
    obtain ⟨cd, hcd, rd⟩ := w.partner hgd
    obtain ⟨cs, hcs, rs⟩ := w.partner hgs
    have hneC := w.sid_ne hgd hcd hgs hcs hne
    obtain ⟨hg', hc', e1, e2, pw⟩ := RelW.applySlice rd rs hne hneC hok
    refine ⟨_, _, .unit, ?_, ?_, w.update hgd hcd pw⟩
    · simp [stepOp, arrAt, hgd, hgs, e1, bind, Except.bind, pure, Except.pure]
    · simp [stepOp, arrAt, hcd, hcs, e2, bind, Except.bind, pure, Except.pure]
  | copyFrom i j =>
    obtain ⟨gd, gs, hgd, hgs, hne, hsh⟩ := ok
    obtain ⟨cd, hcd, rd⟩ := w.partner hgd
    obtain ⟨cs, hcs, rs⟩ := w.partner hgs
    have hneC := w.sid_ne hgd hcd hgs hcs hne
    obtain ⟨hg', hc', e1, e2, pw⟩ := RelW.copyFrom rd rs hne hneC hsh
    refine ⟨_, _, .unit, ?_, ?_, w.update hgd hcd pw⟩
    · simp [stepOp, arrAt, hgd, hgs, e1, bind, Except.bind, pure, Except.pure]
    · simp [stepOp, arrAt, hcd, hcs, e2, bind, Except.bind, pure, Except.pure]
  | unroll i =>
    obtain ⟨g, hg⟩ := ok
    obtain ⟨c, hc, r⟩ := w.partner hg
    obtain ⟨slg, slc, vals, h1, h2, h3, h4, _⟩ := r.unroll
    refine ⟨sg, sc, .vals vals, ?_, ?_, w⟩
    · simp [stepOp, arrAt, hg, h1, h3, bind, Except.bind, pure, Except.pure]
    · simp [stepOp, arrAt, hc, h2, h4, bind, Except.bind, pure, Except.pure]
  | contiguous i =>
    obtain ⟨g, hg⟩ := ok
    obtain ⟨c, hc, r⟩ := w.partner hg
    obtain ⟨b, hb⟩ := (contiguous_iff_geo (reach_geo r.reach)).2
    have hbc : c.v.contiguous = .ok b := by rw [← r.view]; exact hb
    refine ⟨sg, sc, .flag b, ?_, ?_, w⟩
    · simp [stepOp, arrAt, hg, hb, bind, Except.bind, pure, Except.pure]
    · simp [stepOp, arrAt, hc, hbc, bind, Except.bind, pure, Except.pure]
  | extremum better i =>
    obtain ⟨g, hg⟩ := ok
    obtain ⟨c, hc, r⟩ := w.partner hg
    obtain ⟨v0, rest, _, _, h1, h2⟩ := r.extremum better
    refine ⟨sg, sc, .val ((v0 :: rest).foldl (fun res v => if better v res then v else res) v0), ?_, ?_, w⟩
    · simp [stepOp, arrAt, hg, h1, bind, Except.bind, pure, Except.pure]
    · simp [stepOp, arrAt, hc, h2, bind, Except.bind, pure, Except.pure]
  | zipWithInto f i j =>
    obtain ⟨gd, gs, hgd, hgs, hne, hsh⟩ := ok
    obtain ⟨cd, hcd, rd⟩ := w.partner hgd
    obtain ⟨cs, hcs, rs⟩ := w.partner hgs
    have hneC := w.sid_ne hgd hcd hgs hcs hne
    obtain ⟨hg', hc', _, _, e1, e2, _, _, _, _, pw⟩ :=
      RelW.zipWithInto rd rs f (fun e => hne e.symm) (fun e => hneC e.symm) hsh
    refine ⟨_, _, .unit, ?_, ?_, w.update hgd hcd pw⟩
    · simp [stepOp, arrAt, hgd, hgs, e1, bind, Except.bind, pure, Except.pure]
    · simp [stepOp, arrAt, hcd, hcs, e2, bind, Except.bind, pure, Except.pure]
  | reshape i shape =>
    obtain ⟨g, hg, hdom⟩ := ok
    obtain ⟨c, hc, r⟩ := w.partner hg
    rcases reshape_sim w hg hc r hdom with ⟨e1, e2⟩ | ⟨hg', hc', bg, bc, e1, e2, w'⟩
    · refine ⟨sg, sc, .err "size-mismatch", ?_, ?_, w⟩
      · simp [stepOp, arrAt, hg, e1, bind, Except.bind, pure, Except.pure]
      · simp [stepOp, arrAt, hc, e2, bind, Except.bind, pure, Except.pure]
    · refine ⟨_, _, .unit, ?_, ?_, w'⟩
      · simp [stepOp, arrAt, hg, e1, bind, Except.bind, pure, Except.pure]
      · simp [stepOp, arrAt, hc, e2, bind, Except.bind, pure, Except.pure]
  | reshapeFast i shape =>
    obtain ⟨g, hg, hdom⟩ := ok
    obtain ⟨c, hc, r⟩ := w.partner hg
    obtain ⟨b, hb⟩ := (contiguous_iff_geo (reach_geo r.reach)).2
    have hbc : c.v.contiguous = .ok b := by rw [← r.view]; exact hb
    cases b with
    | false =>
      have e1 := reshapeFast_noncontig (h := sg.heap) shape hb
      have e2 := reshapeFast_noncontig (h := sc.heap) shape hbc
      refine ⟨sg, sc, .err "not-contiguous", ?_, ?_, w⟩
      · simp [stepOp, arrAt, hg, e1, bind, Except.bind, pure, Except.pure]
      · simp [stepOp, arrAt, hc, e2, bind, Except.bind, pure, Except.pure]
    | true =>
      have f1 := reshapeFast_contig (h := sg.heap) shape hb
      have f2 := reshapeFast_contig (h := sc.heap) shape hbc
      have hdom' : product shape ≠ g.v.size ∨
          (product shape = g.v.size ∧ shape ≠ [] ∧ Pos shape ∧ (g.v.contiguous = .ok false ∨ g.v.start = 0)) := by
        rcases hdom with h | h | ⟨h1, h2, h3, h4⟩
        · rw [hb] at h; exact absurd h (by simp)
        · exact Or.inl h
        · exact Or.inr ⟨h1, h2, h3, Or.inr h4⟩
      rcases reshape_sim w hg hc r hdom' with ⟨e1, e2⟩ | ⟨hg', hc', bg, bc, e1, e2, w'⟩
      · refine ⟨sg, sc, .err "size-mismatch", ?_, ?_, w⟩
        · simp [stepOp, arrAt, hg, f1, e1, bind, Except.bind, pure, Except.pure]
        · simp [stepOp, arrAt, hc, f2, e2, bind, Except.bind, pure, Except.pure]
      · refine ⟨_, _, .unit, ?_, ?_, w'⟩
        · simp [stepOp, arrAt, hg, f1, e1, bind, Except.bind, pure, Except.pure]
        · simp [stepOp, arrAt, hc, f2, e2, bind, Except.bind, pure, Except.pure]

/-- **whole programs in lock step** -/
theorem run_sim : ∀ (prog : List (Op α)) {sg sc : St α}, World sg sc → ProgOK sg prog →
    ∃ sg' sc' obs, run sg prog = .ok (sg', obs) ∧ run sc prog = .ok (sc', obs) ∧ World sg' sc'
  | [], sg, sc, w, _ => ⟨sg, sc, [], rfl, rfl, w⟩
  | op :: ops, sg, sc, w, ok => by
    obtain ⟨sg1, sc1, o, h1, h2, w1⟩ := step_sim w ok.1
    obtain ⟨sg', sc', obs, r1, r2, w'⟩ := run_sim ops w1 (ok.2 sg1 o h1)
    exact ⟨sg', sc', o :: obs, by simp [run, h1, r1, bind, Except.bind, pure, Except.pure],
      by simp [run, h2, r2, bind, Except.bind, pure, Except.pure], w'⟩

/-! ### initial states -/

/-- the Go-backed root `arrayFromSlice(bufs[i], dims)` and the C-backed root `New<T>CArray(&bufs[i][0], dims)` -/
def rootArr (bufs : Heap α) (isC : Bool) (i : Nat) (dims : Idx) : Arr :=
  ⟨rootView dims 0, i, 0, ((bufs[i]?).getD []).length, isC⟩

/-- the roots over buffers `0, 1, …` with the given shapes -/
def rootArrs (bufs : Heap α) (isC : Bool) (shapes : List Idx) : List Arr :=
  shapes.zipIdx.map (fun p => rootArr bufs isC p.2 p.1)

theorem rootArrs_getElem? (bufs : Heap α) (isC : Bool) (shapes : List Idx) (i : Nat) :
    (rootArrs bufs isC shapes)[i]? = (shapes[i]?).map (fun d => rootArr bufs isC i d) := by
  simp [rootArrs, List.getElem?_zipIdx]
  cases shapes[i]? <;> simp

/-- the shapes fit their buffers (what `fromStore` / `fromC` need and the Go code does not check) -/
def ShapesOK (bufs : Heap α) (shapes : List Idx) : Prop :=
  ∀ (i : Nat) (d : Idx), shapes[i]? = some d → d ≠ [] ∧ Pos d ∧ product d ≤ 1073741824 ∧
    ∃ s : List α, bufs[i]? = some s ∧ product d ≤ s.length

theorem rootArr_spec {bufs : Heap α} {shapes : List Idx} (ok : ShapesOK bufs shapes) {i : Nat} {d : Idx}
    (hd : shapes[i]? = some d) :
    fromStore bufs i d = .ok (rootArr bufs false i d) ∧ fromC bufs i d = .ok (rootArr bufs true i d) ∧
    Reach (rootArr bufs false i d).v ∧ ArrOK bufs (rootArr bufs false i d) ∧ ArrOK bufs (rootArr bufs true i d) := by
  obtain ⟨hne, hpos, hbig, s, hs, hfit⟩ := ok i d hd
  obtain ⟨a, ha, rfl, hr, hok⟩ := arrOK_fromStore hne hpos hs hfit
  obtain ⟨a', ha', rfl, _, hok'⟩ := arrOK_fromC hne hpos hs hfit hbig
  have e1 : rootArr bufs false i d = ⟨rootView d 0, i, 0, s.length, false⟩ := by simp [rootArr, hs]
  have e2 : rootArr bufs true i d = ⟨rootView d 0, i, 0, s.length, true⟩ := by simp [rootArr, hs]
  rw [e1, e2]
  exact ⟨ha, ha', hr, hok, hok'⟩

/-- wrapping the same buffers once as Go slices and once as C memory gives two states in lock step -/
theorem world_roots (bufs : Heap α) (shapes : List Idx) (ok : ShapesOK bufs shapes) :
    World ⟨bufs, rootArrs bufs false shapes⟩ ⟨bufs, rootArrs bufs true shapes⟩ := by
  refine ⟨by simp [rootArrs], ?_, ?_⟩
  · intro i g c h1 h2
    simp only [rootArrs_getElem?] at h1 h2
    cases hd : shapes[i]? with
    | none => simp [hd] at h1
    | some d =>
      simp only [hd, Option.map_some, Option.some.injEq] at h1 h2
      subst h1; subst h2
      obtain ⟨_, _, hr, okg, okc⟩ := rootArr_spec ok hd
      exact ⟨rfl, hr, okg, okc, fun p _ _ => rfl⟩
  · intro i j g c g' c' h1 h2 h3 h4
    simp only [rootArrs_getElem?] at h1 h2 h3 h4
    cases hd : shapes[i]? with
    | none => simp [hd] at h1
    | some d =>
      cases hd' : shapes[j]? with
      | none => simp [hd'] at h3
      | some d' =>
        simp only [hd, hd', Option.map_some, Option.some.injEq] at h1 h2 h3 h4
        subst h1; subst h2; subst h3; subst h4
        by_cases e : j = i
        · exact Or.inl ⟨e, e, by simp [winOf, rootArr]⟩
        · exact Or.inr ⟨e, e⟩

end
end OW.NdC03
