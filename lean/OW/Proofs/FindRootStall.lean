import OW.Proofs.FindRoot
import Mathlib.Tactic.Positivity
import Mathlib.Tactic.FieldSimp
/-!
A family of functions on which `FindRoot` does NOT reach its tolerance within the iteration budget (exact arithmetic).

Situation: bracket `[0, hi]`, `f 0 = −T` with `T ≥ tol`, and `f t ≥ T` for every `t` of the bracket that the iteration can reach
(`t ≥ δ N`): the root sits in a tiny interval `(0, δ N)`. Then
* the lower end never moves (every trial has `f ≥ T > 0`), the returned candidate stays `(0, −T)` (`|f min| ≤ f max`),
* the Newton trial from `x = 0` is `T / f'(0)`, outside the bracket when `hi ≤ T / f'(0)`, hence never used,
* one iteration replaces the upper end `u` by `min (u/2) (u·T/(f u + T))` (halving trial, then the secant trial of the old bracket).
A certificate is a decreasing sequence `δ 0 ≥ … ≥ δ N > 0` with `δ (n+1) ≤ min (t/2) (t·T/(f t + T))` for all `t ∈ [δ n, hi]`.
-/
namespace OW.Proofs.FindRoot
open OW OW.Fn

/-- a trial with a non-negative value outside the tolerance that lies inside the bracket becomes the new upper end -/
theorem trialStep_upper (f : ℝ → ℝ) (tol conv x : ℝ) (s : Inner ℝ) (t : ℝ)
    (h1 : ¬ |f t| < tol) (h2 : ¬ f t < 0) (h3 : t < s.b.maxX) (h4 : s.b.minX ≤ t) (hc : conv ≤ 0) :
    trialStep f tol conv x s t =
      .inr { b := { s.b with maxX := t, maxDelta := f t }, hit := s.hit, evals := t :: s.evals } := by
  rcases trialStep_spec f tol conv x s t with ⟨ht, _⟩ | ⟨_, s', h', hev, hhit, hcase⟩
  · exact absurd ht h1
  · have hn : ¬ |x - t| < conv := by
      intro hh; have := abs_nonneg (x - t); linarith
    rw [if_neg hn] at hhit
    rw [h']
    rcases hcase with ⟨hneg, _⟩ | ⟨_, _, _, hb'⟩ | ⟨_, hc'⟩
    · exact absurd hneg h2
    · cases s'; simp only at hev hhit hb'; subst hev hhit hb'; rfl
    · rcases hc' with ⟨hneg, _⟩ | ⟨_, hn'⟩
      · exact absurd hneg h2
      · exact absurd ⟨h3, h4⟩ hn'

/-- … and one that is not below the current upper end is ignored -/
theorem trialStep_ignored (f : ℝ → ℝ) (tol conv x : ℝ) (s : Inner ℝ) (t : ℝ)
    (h1 : ¬ |f t| < tol) (h2 : ¬ f t < 0) (h3 : ¬ t < s.b.maxX) (hc : conv ≤ 0) :
    trialStep f tol conv x s t = .inr { b := s.b, hit := s.hit, evals := t :: s.evals } := by
  rcases trialStep_spec f tol conv x s t with ⟨ht, _⟩ | ⟨_, s', h', hev, hhit, hcase⟩
  · exact absurd ht h1
  · have hn : ¬ |x - t| < conv := by
      intro hh; have := abs_nonneg (x - t); linarith
    rw [if_neg hn] at hhit
    rw [h']
    rcases hcase with ⟨hneg, _⟩ | ⟨_, h3', _, _⟩ | ⟨hb', _⟩
    · exact absurd hneg h2
    · exact absurd h3' h3
    · cases s'; simp only at hev hhit hb'; subst hev hhit hb'; rfl

section stall
variable (f d : ℝ → ℝ) (tol conv T hi : ℝ) (N : Nat) (δ : Nat → ℝ)

/-- the loop state of a stalled search after `n` iterations -/
structure Stalled (n : Nat) (b : Bracket ℝ) : Prop where
  minX : b.minX = 0
  minD : b.minDelta = -T
  lo : δ n ≤ b.maxX
  hi : b.maxX ≤ hi
  maxD : b.maxDelta = f b.maxX

/-- the certificate -/
structure Cert : Prop where
  tol_pos : 0 < tol
  tol_le : tol ≤ T
  conv : conv ≤ 0
  pos : ∀ n, n ≤ N → 0 < δ n
  shrink : ∀ n, n < N → ∀ t, δ n ≤ t → t ≤ hi → δ (n + 1) ≤ t / 2 ∧ δ (n + 1) ≤ t * T / (f t + T)
  big : ∀ n, n ≤ N → ∀ t, δ n ≤ t → t ≤ hi → T ≤ f t
  newton : d 0 = 0 ∨ hi ≤ T / d 0

variable {f d tol conv T hi N δ}

/-- with the candidate at the lower end `(0, −T)` the Newton trial is not used: the trial list is halving + secant -/
theorem stalled_trials (hC : Cert f d tol conv T hi N δ) {n : Nat} {b : Bracket ℝ}
    (hS : Stalled f T hi δ n b) :
    trialXs (some d) 0 (-T) b = [halvingX b, secantX b] := by
  unfold trialXs
  simp only
  by_cases hd : d 0 = 0
  · have : Num.feq (d 0) (0.0 : ℝ) = true := by
      rw [RealNum.feq_eq]; rw [hd]; norm_num
    rw [this]; rfl
  · have hne : ¬ (Num.feq (d 0) (0.0 : ℝ) = true) := by
      rw [RealNum.feq_eq]; intro h; apply hd; rw [h]; norm_num
    have hfalse : Num.feq (d 0) (0.0 : ℝ) = false := by
      cases hb : Num.feq (d 0) (0.0 : ℝ) with
      | true => exact absurd hb hne
      | false => rfl
    rw [hfalse]
    simp only [Bool.not_false, if_true]
    have hnr : ¬ (b.minX < 0 - -T / d 0 ∧ 0 - -T / d 0 < b.maxX) := by
      rintro ⟨_, h2⟩
      rcases hC.newton with h0 | h0
      · exact hd h0
      · have e : (0:ℝ) - -T / d 0 = T / d 0 := by ring
        rw [e] at h2
        have := hS.hi
        linarith
    rw [if_neg hnr]

/-- one iteration of a stalled search: the upper end `u` becomes `min (u/2) (u·T/(f u + T))`, nothing else changes,
and the loop continues -/
theorem stalled_step (hC : Cert f d tol conv T hi N δ) {n : Nat} (hn : n < N) {b : Bracket ℝ}
    (hS : Stalled f T hi δ n b) (fuel : Nat) (ev dev : List ℝ) :
    ∃ b' ev' dev', Stalled f T hi δ (n + 1) b' ∧
      iterate f (some d) tol conv (fuel + 1) 0 (-T) b ev dev = iterate f (some d) tol conv fuel 0 (-T) b' ev' dev' := by
  have hTpos : 0 < T := lt_of_lt_of_le hC.tol_pos hC.tol_le
  have hδn : 0 < δ n := hC.pos n (le_of_lt hn)
  have hu : 0 < b.maxX := lt_of_lt_of_le hδn hS.lo
  have hfu : T ≤ f b.maxX := hC.big n (le_of_lt hn) _ hS.lo hS.hi
  obtain ⟨sh1, sh2⟩ := hC.shrink n hn _ hS.lo hS.hi
  have hδ1 : 0 < δ (n + 1) := hC.pos (n + 1) hn
  -- the two trials
  have ht1 : halvingX b = b.maxX / 2 := by rw [halvingX_eq, hS.minX]; ring
  have hden : 0 < f b.maxX + T := by linarith
  have ht2 : secantX b = b.maxX * T / (f b.maxX + T) := by
    rw [secantX_eq_raw b (by rw [hS.minX]; exact hu.le) (by rw [hS.minD]; linarith) (by rw [hS.maxD]; linarith)
      (by rw [hS.minD, hS.maxD]; linarith)]
    unfold secantRaw
    rw [hS.minX, hS.minD, hS.maxD, sub_neg_eq_add, sub_zero, eq_div_iff (ne_of_gt hden), sub_mul,
      div_mul_cancel₀ _ (ne_of_gt hden)]
    ring
  have ht1hi : b.maxX / 2 ≤ hi := by have := hS.hi; linarith
  have ht2le : b.maxX * T / (f b.maxX + T) ≤ b.maxX / 2 := by
    rw [div_le_iff₀ hden]
    nlinarith
  have ht2hi : b.maxX * T / (f b.maxX + T) ≤ hi := le_trans ht2le ht1hi
  have bigN : ∀ t, δ (n + 1) ≤ t → t ≤ hi → T ≤ f t := hC.big (n + 1) hn
  have hf1 : T ≤ f (b.maxX / 2) := bigN _ sh1 ht1hi
  have hf2 : T ≤ f (b.maxX * T / (f b.maxX + T)) := bigN _ sh2 ht2hi
  have ntol : ∀ t, T ≤ f t → ¬ |f t| < tol := by
    intro t h hh
    rw [abs_of_nonneg (by linarith)] at hh
    linarith [hC.tol_le]
  have nneg : ∀ t, T ≤ f t → ¬ f t < 0 := by intro t h hh; linarith
  -- trial 1 (halving) becomes the upper end
  have step1 := trialStep_upper f tol conv 0 { b := b, hit := 0, evals := ev } (b.maxX / 2)
    (ntol _ hf1) (nneg _ hf1) (by show b.maxX / 2 < b.maxX; linarith) (by show b.minX ≤ b.maxX / 2; rw [hS.minX]; linarith)
    hC.conv
  -- the resulting bracket
  by_cases hlt : b.maxX * T / (f b.maxX + T) < b.maxX / 2
  · -- trial 2 (secant) is below the halving point: it becomes the upper end
    have step2 := trialStep_upper f tol conv 0
      { b := { b with maxX := b.maxX / 2, maxDelta := f (b.maxX / 2) }, hit := 0, evals := b.maxX / 2 :: ev }
      (b.maxX * T / (f b.maxX + T)) (ntol _ hf2) (nneg _ hf2) hlt
      (by show b.minX ≤ _; rw [hS.minX]; positivity) hC.conv
    refine ⟨{ b with maxX := b.maxX * T / (f b.maxX + T), maxDelta := f (b.maxX * T / (f b.maxX + T)) },
      b.maxX * T / (f b.maxX + T) :: b.maxX / 2 :: ev, 0 :: dev, ⟨hS.minX, hS.minD, sh2, ht2hi, rfl⟩, ?_⟩
    conv_lhs => rw [iterate]
    simp only [stalled_trials hC hS, ht1, ht2, trialLoop, step1, step2, Option.isSome_some, if_true]
    have hp : pick { b with maxX := b.maxX * T / (f b.maxX + T), maxDelta := f (b.maxX * T / (f b.maxX + T)) }
        = (0, -T) := by
      unfold pick
      simp only [RealNum.abs_eq]
      rw [hS.minD, abs_neg, abs_of_pos hTpos, if_pos hf2, hS.minX]
    rw [hp]
    rfl
  · -- trial 2 is not below the halving point: ignored
    have step2 := trialStep_ignored f tol conv 0
      { b := { b with maxX := b.maxX / 2, maxDelta := f (b.maxX / 2) }, hit := 0, evals := b.maxX / 2 :: ev }
      (b.maxX * T / (f b.maxX + T)) (ntol _ hf2) (nneg _ hf2) hlt hC.conv
    refine ⟨{ b with maxX := b.maxX / 2, maxDelta := f (b.maxX / 2) },
      b.maxX * T / (f b.maxX + T) :: b.maxX / 2 :: ev, 0 :: dev, ⟨hS.minX, hS.minD, sh1, ht1hi, rfl⟩, ?_⟩
    conv_lhs => rw [iterate]
    simp only [stalled_trials hC hS, ht1, ht2, trialLoop, step1, step2, Option.isSome_some, if_true]
    have hp : pick { b with maxX := b.maxX / 2, maxDelta := f (b.maxX / 2) } = (0, -T) := by
      unfold pick
      simp only [RealNum.abs_eq]
      rw [hS.minD, abs_neg, abs_of_pos hTpos, if_pos hf1, hS.minX]
    rw [hp]
    rfl

/-- **a stalled search runs out of iterations** and returns the lower end `(0, −T)`: residual `T ≥ tol` -/
theorem stalled_iterate (hC : Cert f d tol conv T hi N δ) :
    ∀ (fuel n : Nat) (b : Bracket ℝ) (ev dev : List ℝ), n + fuel = N → Stalled f T hi δ n b →
      (iterate f (some d) tol conv fuel 0 (-T) b ev dev).exit = .fuel ∧
      (iterate f (some d) tol conv fuel 0 (-T) b ev dev).x = 0 ∧
      (iterate f (some d) tol conv fuel 0 (-T) b ev dev).delta = -T := by
  intro fuel
  induction fuel with
  | zero =>
    intro n b ev dev _ _
    simp only [iterate]
    exact ⟨trivial, trivial, trivial⟩
  | succ k ih =>
    intro n b ev dev hn hS
    obtain ⟨b', ev', dev', hS', heq⟩ := stalled_step hC (by omega : n < N) hS k ev dev
    rw [heq]
    exact ih (n + 1) b' ev' dev' (by omega) hS'

/-- the wrapper: `FindRoot` from `initialX = 0 = minX` on a certified function returns the lower end after all `N` iterations -/
theorem stalled_findRoot (hC : Cert f d tol conv T hi N δ) (hf0 : f 0 = -T) (h0 : δ 0 ≤ hi) :
    ∃ r, findRoot f (some d) 0 0 hi tol conv N = .ok r ∧ r.exit = .fuel ∧ r.x = 0 ∧ r.delta = -T := by
  have hTpos : 0 < T := lt_of_lt_of_le hC.tol_pos hC.tol_le
  have hfhi : T ≤ f hi := hC.big 0 (Nat.zero_le _) hi h0 (le_refl _)
  rw [findRoot_eq (by rw [hf0]; linarith) (by linarith), hf0]
  refine ⟨_, rfl, ?_⟩
  exact stalled_iterate hC N 0 ⟨0, -T, hi, f hi⟩ _ _ (by omega) ⟨rfl, rfl, h0, le_refl _, rfl⟩

end stall
end OW.Proofs.FindRoot
