import OW.Proofs.Rounded
import OW.Kernels.Storage
/-!
Helper lemmas for OW/Props/Rounded/C13.lean: the Storage kernel's spill block, one accepted sub-step and the two fuelled loops over
rounded arithmetic (`RNum R`).
-/
namespace OW.Rounded.Storage
open OW OW.Kernels OW.Kernels.Storage OW.Rounded

variable {R : Rounding}

/-- **spill block under rounding** (parallels `OW.Proofs.Storage.spill_spec` / `OW.Props.C13.substep_spill_only_above_full`): for a
non-negative updated volume `v` and full-supply volume, the spilled volume is non-negative, the volume after spilling is
non-negative and not above `v`, and the spilled volume is non-zero only above full supply. -/
theorem spill_spec_r (t : Tables (RNum R)) (v q sub : RNum R) (hv : 0 ≤ v.val) (hfull : 0 ≤ t.volCurveMax.val) :
    0 ≤ (spill t v q sub).1.val ∧ 0 ≤ (spill t v q sub).2.1.val ∧ (spill t v q sub).2.1.val ≤ v.val ∧
    ((spill t v q sub).1.val ≠ 0 → t.volCurveMax.val < v.val) ∧
    ((spill t v q sub).2.2 = true → t.volCurveMax.val < v.val) := by
  unfold spill
  split_ifs with h
  · simp only
    have h0 : 0 ≤ (Num.gmax (Num.gmin (Num.gmax (Num.gmin (v / t.volCurveMax) 2 * t.maxSpill - q) 0 * sub)
        (v - t.volCurveMax)) (0 : RNum R)).val := by
      rw [RNum.gmax_val, RNum.nat_zero_val]; exact le_max_right _ _
    have h1 : (Num.gmax (Num.gmin (Num.gmax (Num.gmin (v / t.volCurveMax) 2 * t.maxSpill - q) 0 * sub)
        (v - t.volCurveMax)) (0 : RNum R)).val ≤ v.val := by
      rw [RNum.gmax_val, RNum.gmin_val, RNum.nat_zero_val]
      exact max_le ((min_le_right _ _).trans (RNum.sub_le_self hfull)) hv
    exact ⟨h0, RNum.sub_nonneg h1, RNum.sub_le_self h0, fun _ => h, fun _ => h⟩
  · exact ⟨le_refl _, hv, le_refl _, fun hne => absurd rfl hne, fun hf => by simp at hf⟩

/-- one accepted sub-step: if the loop body returns, the new volume is non-negative (the body panics on a negative updated
volume, and the spill keeps it non-negative) -/
theorem outerBody_volume (t : Tables (RNum R)) (keep : Bool) (fi : Nat) (inflow demand rps pps netFlux : RNum R)
    (s s' : Loop (RNum R)) (hfull : 0 ≤ t.volCurveMax.val)
    (h : outerBody t keep fi inflow demand rps pps netFlux s = .ok s') : 0 ≤ s'.volume.val := by
  unfold outerBody at h
  simp only [bind, Except.bind] at h
  cases hE : releaseRate t demand s.volume with
  | error e => rw [hE] at h; cases h
  | ok est =>
    rw [hE] at h; simp only at h
    cases hA : cappedPiecewise t s.volume t.areas with
    | error e => rw [hA] at h; cases h
    | ok area =>
      rw [hA] at h; simp only at h
      cases hT : trial t inflow demand netFlux s.volume est area fi (Num.gmin s.timeRemaining (s.subtimestep * 2)) s.tags with
      | error e => rw [hT] at h; cases h
      | ok a =>
        rw [hT] at h; simp only at h
        by_cases hv : s.volume + (inflow + netFlux * a.avgArea - a.avgOutflow) * a.sub < 0
        · rw [if_pos hv] at h; cases h
        · rw [if_neg hv] at h
          simp only [pure, Except.pure, Except.ok.injEq] at h
          subst h
          rw [RNum.lt_iff, RNum.nat_zero_val, not_lt] at hv
          exact (spill_spec_r t _ a.avgOutflow a.sub hv hfull).2.1

/-- the `for timeRemaining > 0` loop: the volume at loop exit is non-negative -/
theorem outer_volume (t : Tables (RNum R)) (keep : Bool) (fi : Nat) (inflow demand rps pps netFlux : RNum R)
    (hfull : 0 ≤ t.volCurveMax.val) :
    ∀ (fo : Nat) (s r : Loop (RNum R)), outer t keep fi inflow demand rps pps netFlux fo s = .ok r →
      0 ≤ s.volume.val → 0 ≤ r.volume.val := by
  intro fo
  induction fo with
  | zero => intro s r h; simp [outer] at h
  | succ n ih =>
    intro s r h hs
    simp only [outer] at h
    split_ifs at h with hpos
    · cases hB : outerBody t keep fi inflow demand rps pps netFlux s with
      | error e => rw [hB] at h; cases h
      | ok s' =>
        rw [hB] at h; simp only at h
        exact ih s' r h (outerBody_volume t keep fi inflow demand rps pps netFlux s s' hfull hB)
    · cases h; exact hs

/-- **volume_nonneg, one timestep, under rounding** (parallels `OW.Props.C13.step_volume_nonneg`) -/
theorem step_volume_nonneg_r (t : Tables (RNum R)) (keep : Bool) (fo fi : Nat) (deltaT volume : RNum R) (tags : List String)
    (i : StepIn (RNum R)) (v' : RNum R) (tg : List String) (o : StepOut (RNum R))
    (hfull : 0 ≤ t.volCurveMax.val) (hv : 0 ≤ volume.val)
    (h : step t keep fo fi deltaT volume tags i = .ok (v', tg, o)) : 0 ≤ v'.val ∧ 0 ≤ o.volume.val := by
  obtain ⟨rainfall, pet, inflow, demand⟩ := i
  simp only [step, bind, Except.bind] at h
  split at h
  · cases h
  · rename_i r hr
    simp only [pure, Except.pure, Except.ok.injEq, Prod.mk.injEq] at h
    obtain ⟨rfl, _, rfl⟩ := h
    have := outer_volume t keep fi inflow demand _ _ _ hfull fo _ r hr hv
    exact ⟨this, this⟩

/-- the loop over the timesteps -/
theorem steps_volume_nonneg (t : Tables (RNum R)) (keep : Bool) (fo fi : Nat) (deltaT : RNum R) (hfull : 0 ≤ t.volCurveMax.val) :
    ∀ (ins : List (StepIn (RNum R))) (volume : RNum R) (tags : List String) (v' : RNum R) (tg : List String)
      (os : List (StepOut (RNum R))), 0 ≤ volume.val → steps t keep fo fi deltaT volume tags ins = .ok (v', tg, os) →
      0 ≤ v'.val ∧ ∀ o ∈ os, 0 ≤ o.volume.val := by
  intro ins
  induction ins with
  | nil =>
    intro volume tags v' tg os hv h
    simp only [steps, pure, Except.pure, Except.ok.injEq, Prod.mk.injEq] at h
    obtain ⟨rfl, _, rfl⟩ := h
    exact ⟨hv, fun o ho => by cases ho⟩
  | cons i rest ih =>
    intro volume tags v' tg os hv h
    simp only [steps, bind, Except.bind] at h
    cases hS : step t keep fo fi deltaT volume tags i with
    | error e => rw [hS] at h; cases h
    | ok r1 =>
      obtain ⟨v1, tg1, o1⟩ := r1
      rw [hS] at h; simp only at h
      cases hR : steps t keep fo fi deltaT v1 tg1 rest with
      | error e => rw [hR] at h; cases h
      | ok r2 =>
        obtain ⟨v2, tg2, os2⟩ := r2
        rw [hR] at h
        simp only [pure, Except.pure, Except.ok.injEq, Prod.mk.injEq] at h
        obtain ⟨rfl, _, rfl⟩ := h
        obtain ⟨a, b⟩ := step_volume_nonneg_r t keep fo fi deltaT volume tags i v1 tg1 o1 hfull hv hS
        obtain ⟨c, d⟩ := ih v1 tg1 v2 tg2 os2 a hR
        refine ⟨c, fun o ho => ?_⟩
        rcases List.mem_cons.mp ho with rfl | ho
        · exact b
        · exact d o ho

end OW.Rounded.Storage
