import OW.Proofs.C12Scan
import OW.Proofs.C12Lumped
import OW.Kernels.InstreamFineSediment
import Mathlib.Tactic.NormNum
import Mathlib.Tactic.LinearCombination
/-!
C12 helpers: `instreamFineSediment` (with `floodPlainDepositionEmperical`, `inChannelStorage`) over ℝ.
-/
namespace OW.C12
open OW OW.Kernels
open InstreamFineSediment (Params)

/-- Floodplain deposition is a fraction of the mass present. Divisors: `outflow` and `Qf = outflow − bankFullFlow`
are positive on the branch that divides (`outflow > bankFullFlow > 0`). -/
theorem fine_floodplain_bounds (q total bff vfl fpa : ℝ) (hbff : 0 < bff) (hvfl : 0 ≤ vfl) (hfpa : 0 ≤ fpa)
    (ht : 0 ≤ total) :
    0 ≤ InstreamFineSediment.floodPlainDepositionEmperical q total bff vfl fpa ∧
    InstreamFineSediment.floodPlainDepositionEmperical q total bff vfl fpa ≤ total := by
  unfold InstreamFineSediment.floodPlainDepositionEmperical
  simp only []
  split_ifs with h h2
  · realnum
    have h0 : ((0.0 : ℝ)) = 0 := by norm_num
    rw [h0]; exact ⟨le_refl _, ht⟩
  · exact ⟨ht, le_refl _⟩
  · realnum
    have h1 : ((1.0 : ℝ)) = 1 := by norm_num
    rw [h1] at h2 ⊢
    have hq : bff < q := by
      simp only [Bool.or_eq_true, decide_eq_true_eq, not_or, not_le] at h
      exact h.1
    have hqf : 0 < q - bff := by linarith
    have hqpos : 0 < q := by linarith
    have hprop0 : 0 ≤ (q - bff) / q := div_nonneg (le_of_lt hqf) (le_of_lt hqpos)
    have hprop1 : (q - bff) / q ≤ 1 := by rw [div_le_one hqpos]; linarith
    have hexp0 : 0 < Real.exp (-1 * (vfl * fpa / (q - bff))) := Real.exp_pos _
    have hexp1 : Real.exp (-1 * (vfl * fpa / (q - bff))) ≤ 1 := by
      rw [Real.exp_le_one_iff]
      have : 0 ≤ vfl * fpa / (q - bff) := div_nonneg (mul_nonneg hvfl hfpa) (le_of_lt hqf)
      linarith
    generalize (q - bff) / q = fprop at *
    generalize Real.exp (-1 * (vfl * fpa / (q - bff))) = e at *
    have hnn : 0 ≤ total * fprop * (1 - e) := mul_nonneg (mul_nonneg ht hprop0) (by linarith)
    exact ⟨hnn, not_lt.mp h2⟩

/-- the divisor of the transport-capacity formula is positive for positive velocity, width and roughness -/
theorem fine_stc_divisor_pos (v w n : ℝ) (hv : 0 < v) (hw : 0 < w) (hn : 0 < n) :
    0 < v * w ^ (0.4 : ℝ) * n ^ (0.6 : ℝ) :=
  mul_pos (mul_pos hv (Real.rpow_pos_of_pos hw _)) (Real.rpow_pos_of_pos hn _)

theorem fine_stc_nonneg (q slope v w n : ℝ) (hq : 0 ≤ q) (hs : 0 ≤ slope) (hv : 0 < v) (hw : 0 < w) (hn : 0 < n) :
    0 ≤ InstreamFineSediment.stc q slope v w n := by
  unfold InstreamFineSediment.stc
  realnum
  have hd := fine_stc_divisor_pos v w n hv hw hn
  have h1 : 0 ≤ q ^ (1.4 : ℝ) * slope ^ (1.3 : ℝ) := mul_nonneg (Real.rpow_nonneg hq _) (Real.rpow_nonneg hs _)
  exact mul_nonneg (div_nonneg (mul_nonneg (by norm_num) h1) (le_of_lt hd)) (by norm_num)

/-- Net channel deposition (negative = remobilisation): never more than the mass present, remobilisation never more
than the channel store holds, the store never exceeds its capacity by deposition, nothing happens without water. -/
theorem fine_inChannel_facts (q tv t1 cs w slope n vs vr maxS : ℝ) (hq : 0 ≤ q) (hsl : 0 ≤ slope) (hw : 0 < w)
    (hn : 0 < n) (hvs : 0 < vs) (hvr : 0 < vr) (ht1 : 0 ≤ t1) (hcs : 0 ≤ cs) (hmax : 0 ≤ maxS) :
    InstreamFineSediment.inChannelStorage q tv t1 cs w slope n vs vr maxS ≤ t1 ∧
    -(InstreamFineSediment.inChannelStorage q tv t1 cs w slope n vs vr maxS) ≤ cs ∧
    cs + InstreamFineSediment.inChannelStorage q tv t1 cs w slope n vs vr maxS ≤ max cs maxS ∧
    (tv ≤ 0 → InstreamFineSediment.inChannelStorage q tv t1 cs w slope n vs vr maxS = 0) := by
  unfold InstreamFineSediment.inChannelStorage
  simp only []
  have hq1 : (0:ℝ) ≤ q * 1 := by linarith
  split_ifs with h1 h2 h3
  · realnum
    have h0 : ((0.0 : ℝ)) = 0 := by norm_num
    rw [h0]
    exact ⟨ht1, by linarith, by simp, fun _ => rfl⟩
  · -- deposition
    realnum
    have e1 : ((1.0 : ℝ)) = 1 := by norm_num
    have e2 : ((0.001 : ℝ)) = 1 / 1000 := by norm_num
    have e3 : ((1000.0 : ℝ)) = 1000 := by norm_num
    simp only [e1, e2, e3] at h2 ⊢
    have hA := fine_stc_nonneg (q * 1) slope vs w n hq1 hsl hvs hw hn
    generalize InstreamFineSediment.stc (q * 1) slope vs w n = A at *
    have hlt : ¬ tv ≤ 0 := h1
    refine ⟨?_, ?_, ?_, fun h => absurd h hlt⟩
    · calc min ((1 * (t1 * (1 / 1000)) - A) * 1000) (maxS - 1 * cs)
          ≤ (1 * (t1 * (1 / 1000)) - A) * 1000 := min_le_left _ _
        _ ≤ t1 := by linarith
    · rcases min_choice ((1 * (t1 * (1 / 1000)) - A) * 1000) (maxS - 1 * cs) with hm | hm <;> rw [hm] <;> linarith
    · have : min ((1 * (t1 * (1 / 1000)) - A) * 1000) (maxS - 1 * cs) ≤ maxS - 1 * cs := min_le_right _ _
      have : cs + min ((1 * (t1 * (1 / 1000)) - A) * 1000) (maxS - 1 * cs) ≤ maxS := by linarith
      exact le_trans this (le_max_right _ _)
  · -- remobilisation
    realnum
    have e1 : ((1.0 : ℝ)) = 1 := by norm_num
    have e2 : ((0.001 : ℝ)) = 1 / 1000 := by norm_num
    have e3 : ((1000.0 : ℝ)) = 1000 := by norm_num
    simp only [e1, e2, e3] at h3 ⊢
    have _hdiv := fine_stc_divisor_pos vr w n hvr hw hn
    generalize InstreamFineSediment.stc (q * 1) slope vr w n = B at *
    have hlt : ¬ tv ≤ 0 := h1
    have hmin0 : 0 ≤ min ((B - 1 * (t1 * (1 / 1000))) * 1000) (1 * cs) := le_min (by linarith) (by linarith)
    have hmin1 : min ((B - 1 * (t1 * (1 / 1000))) * 1000) (1 * cs) ≤ 1 * cs := min_le_right _ _
    refine ⟨by linarith, by linarith, ?_, fun h => absurd h hlt⟩
    exact le_trans (by linarith) (le_max_left cs maxS)
  · realnum
    have h0 : ((0.0 : ℝ)) = 0 := by norm_num
    rw [h0]
    have hlt : ¬ tv ≤ 0 := h1
    exact ⟨ht1, by linarith, by simp, fun h => absurd h hlt⟩

/-- Parameter ranges under which the non-negativity statements hold (all physical: flows, velocities, areas and
geometry non-negative; the three divisors of the transport-capacity formula — settling velocity, remobilisation
velocity, width, roughness — strictly positive; a positive time step). -/
structure FineRange (p : Params ℝ) : Prop where
  bff : 0 ≤ p.bankFullFlow
  vfl : 0 ≤ p.fineSedSettVelocityFlood
  fpa : 0 ≤ p.floodPlainArea
  width : 0 < p.linkWidth
  slope : 0 ≤ p.linkSlope
  n : 0 < p.manningsN
  vs : 0 < p.fineSedSettVelocity
  vr : 0 < p.fineSedReMobVelocity
  maxS : 0 ≤ InstreamFineSediment.maxStorage p
  dt : 0 < p.durationInSeconds

/-- main path, one step, pure algebra: whatever the floodplain and channel exchanges are, the in-stream budget closes,
the channel store moves by the reported net deposition, and mass is dropped only when there is no water at all.
`durationInSeconds ≠ 0` is the divisor of `loadToFloodplain`; `totalVolume > 0` on the branch that divides by it. -/
theorem fine_stepMain_budget (p : Params ℝ) (cs s up lat loc vol q : ℝ) (hdt : p.durationInSeconds ≠ 0) :
    s + (up + lat + loc) * p.durationInSeconds =
      (InstreamFineSediment.stepMain p (cs, s) (up, lat, loc, vol, q)).1.2 +
      ((InstreamFineSediment.stepMain p (cs, s) (up, lat, loc, vol, q)).2.loadDownstream * p.durationInSeconds +
       (InstreamFineSediment.stepMain p (cs, s) (up, lat, loc, vol, q)).2.loadToFloodplain * p.durationInSeconds +
       (InstreamFineSediment.stepMain p (cs, s) (up, lat, loc, vol, q)).2.loadToChannelDeposition +
       (InstreamFineSediment.stepMain p (cs, s) (up, lat, loc, vol, q)).2.flushed) ∧
    (InstreamFineSediment.stepMain p (cs, s) (up, lat, loc, vol, q)).1.1 =
      cs + (InstreamFineSediment.stepMain p (cs, s) (up, lat, loc, vol, q)).2.loadToChannelDeposition ∧
    ((InstreamFineSediment.stepMain p (cs, s) (up, lat, loc, vol, q)).2.flushed ≠ 0 →
      vol + q * p.durationInSeconds ≤ 0) := by
  unfold InstreamFineSediment.stepMain
  simp only []
  realnum
  generalize InstreamFineSediment.floodPlainDepositionEmperical q (s + (up + lat + loc) * p.durationInSeconds)
    p.bankFullFlow p.fineSedSettVelocityFlood p.floodPlainArea = fp
  generalize InstreamFineSediment.inChannelStorage q (vol + q * p.durationInSeconds)
    (s + (up + lat + loc) * p.durationInSeconds - fp) cs p.linkWidth p.linkSlope p.manningsN
    p.fineSedSettVelocity p.fineSedReMobVelocity (InstreamFineSediment.maxStorage p) = net
  generalize p.durationInSeconds = dt at *
  have hfp : fp / dt * dt = fp := div_mul_cancel₀ _ hdt
  have h0 : ((0.0 : ℝ)) = 0 := by norm_num
  by_cases hv : 0 < vol + q * dt
  · simp only [if_pos hv]
    have hne : vol + q * dt ≠ 0 := ne_of_gt hv
    generalize hc : (s + (up + lat + loc) * dt - fp - net) / (vol + q * dt) = conc
    have key : conc * (vol + q * dt) = s + (up + lat + loc) * dt - fp - net := by
      rw [← hc]; exact div_mul_cancel₀ _ hne
    refine ⟨?_, trivial, fun hf => absurd rfl hf⟩
    rw [hfp]; linear_combination (-1 : ℝ) * key
  · simp only [if_neg hv]
    rw [h0]
    refine ⟨?_, trivial, fun _ => not_lt.mp hv⟩
    rw [hfp]; ring

/-- main path, one step, signs: for parameters in range, non-negative stores and inputs, everything reported is
non-negative, remobilisation is at most what the channel store holds and deposition respects the store's capacity. -/
theorem fine_stepMain_nonneg (p : Params ℝ) (hr : FineRange p) (hbff : 0 < p.bankFullFlow) (cs s up lat loc vol q : ℝ)
    (hcs : 0 ≤ cs) (hs : 0 ≤ s) (hup : 0 ≤ up) (hlat : 0 ≤ lat) (hloc : 0 ≤ loc) (hvol : 0 ≤ vol) (hq : 0 ≤ q) :
    0 ≤ (InstreamFineSediment.stepMain p (cs, s) (up, lat, loc, vol, q)).1.1 ∧
    0 ≤ (InstreamFineSediment.stepMain p (cs, s) (up, lat, loc, vol, q)).1.2 ∧
    0 ≤ (InstreamFineSediment.stepMain p (cs, s) (up, lat, loc, vol, q)).2.loadDownstream ∧
    0 ≤ (InstreamFineSediment.stepMain p (cs, s) (up, lat, loc, vol, q)).2.loadToFloodplain ∧
    0 ≤ (InstreamFineSediment.stepMain p (cs, s) (up, lat, loc, vol, q)).2.flushed ∧
    -(InstreamFineSediment.stepMain p (cs, s) (up, lat, loc, vol, q)).2.loadToChannelDeposition ≤ cs ∧
    (InstreamFineSediment.stepMain p (cs, s) (up, lat, loc, vol, q)).1.1 ≤ max cs (InstreamFineSediment.maxStorage p) := by
  have hT : 0 ≤ s + (up + lat + loc) * p.durationInSeconds := by
    have := mul_nonneg (add_nonneg (add_nonneg hup hlat) hloc) (le_of_lt hr.dt)
    linarith
  obtain ⟨fp0, fp1⟩ := fine_floodplain_bounds q (s + (up + lat + loc) * p.durationInSeconds) p.bankFullFlow
    p.fineSedSettVelocityFlood p.floodPlainArea hbff hr.vfl hr.fpa hT
  unfold InstreamFineSediment.stepMain
  simp only []
  realnum
  generalize InstreamFineSediment.floodPlainDepositionEmperical q (s + (up + lat + loc) * p.durationInSeconds)
    p.bankFullFlow p.fineSedSettVelocityFlood p.floodPlainArea = fp at *
  have hT1 : 0 ≤ s + (up + lat + loc) * p.durationInSeconds - fp := by linarith
  obtain ⟨n1, n2, n3, n4⟩ := fine_inChannel_facts q (vol + q * p.durationInSeconds)
    (s + (up + lat + loc) * p.durationInSeconds - fp) cs p.linkWidth p.linkSlope p.manningsN
    p.fineSedSettVelocity p.fineSedReMobVelocity (InstreamFineSediment.maxStorage p)
    hq hr.slope hr.width hr.n hr.vs hr.vr hT1 hcs hr.maxS
  generalize InstreamFineSediment.inChannelStorage q (vol + q * p.durationInSeconds)
    (s + (up + lat + loc) * p.durationInSeconds - fp) cs p.linkWidth p.linkSlope p.manningsN
    p.fineSedSettVelocity p.fineSedReMobVelocity (InstreamFineSediment.maxStorage p) = net at *
  have hdt := hr.dt
  generalize p.durationInSeconds = dt at *
  have h0 : ((0.0 : ℝ)) = 0 := by norm_num
  have hfpl : 0 ≤ fp / dt := div_nonneg fp0 (le_of_lt hdt)
  have hleft : 0 ≤ s + (up + lat + loc) * dt - fp - net := by linarith
  by_cases hv : 0 < vol + q * dt
  · simp only [if_pos hv]
    have hconc : 0 ≤ (s + (up + lat + loc) * dt - fp - net) / (vol + q * dt) := div_nonneg hleft (le_of_lt hv)
    exact ⟨by linarith, mul_nonneg hconc hvol, mul_nonneg hconc hq, hfpl, le_refl _, n2, n3⟩
  · simp only [if_neg hv]
    rw [h0]
    exact ⟨by linarith, le_refl _, le_refl _, hfpl, hleft, n2, n3⟩

/-! ### dispatch on the bank-full flow -/

theorem fine_lumped_iff (p : Params ℝ) : InstreamFineSediment.lumped p = true ↔ p.bankFullFlow ≤ 1e-8 := by
  unfold InstreamFineSediment.lumped
  rw [decide_eq_true_eq]

theorem fine_step_lumped (p : Params ℝ) (h : p.bankFullFlow ≤ 1e-8) :
    InstreamFineSediment.step p = InstreamFineSediment.stepLumped p ∧
    ∀ st, InstreamFineSediment.start p st = st := by
  have hL := (fine_lumped_iff p).mpr h
  unfold InstreamFineSediment.step InstreamFineSediment.start
  simp [hL]

theorem fine_step_main (p : Params ℝ) (h : ¬ p.bankFullFlow ≤ 1e-8) :
    InstreamFineSediment.step p = InstreamFineSediment.stepMain p ∧
    ∀ st, InstreamFineSediment.start p st = (InstreamFineSediment.initStore p st.1, st.2) := by
  have hL : InstreamFineSediment.lumped p = false := by
    cases hb : InstreamFineSediment.lumped p with
    | false => rfl
    | true => exact absurd ((fine_lumped_iff p).mp hb) h
  unfold InstreamFineSediment.step InstreamFineSediment.start
  simp [hL]

/-- the initial channel store the loop starts from is non-negative whatever the given state is
("negative = proportion of the maximum") -/
theorem fine_initStore_nonneg (p : Params ℝ) (hmax : 0 ≤ InstreamFineSediment.maxStorage p) (cs0 : ℝ) :
    0 ≤ InstreamFineSediment.initStore p cs0 := by
  unfold InstreamFineSediment.initStore
  split_ifs with h
  · realnum
    exact mul_nonneg (abs_nonneg _) hmax
  · realnum
    have h0 : ((0.0 : ℝ)) = 0 := by norm_num
    rw [h0] at h
    exact not_lt.mp h

/-- bank-full-flow-0 path, one step -/
theorem fine_stepLumped_facts (p : Params ℝ) (cs s up lat loc vol q : ℝ) :
    s + (up + lat + loc) * p.durationInSeconds =
      (InstreamFineSediment.stepLumped p (cs, s) (up, lat, loc, vol, q)).1.2 +
      ((InstreamFineSediment.stepLumped p (cs, s) (up, lat, loc, vol, q)).2.loadDownstream * p.durationInSeconds +
       (InstreamFineSediment.stepLumped p (cs, s) (up, lat, loc, vol, q)).2.loadToFloodplain * p.durationInSeconds +
       (InstreamFineSediment.stepLumped p (cs, s) (up, lat, loc, vol, q)).2.loadToChannelDeposition +
       (InstreamFineSediment.stepLumped p (cs, s) (up, lat, loc, vol, q)).2.flushed) ∧
    (InstreamFineSediment.stepLumped p (cs, s) (up, lat, loc, vol, q)).1.1 =
      cs + (InstreamFineSediment.stepLumped p (cs, s) (up, lat, loc, vol, q)).2.loadToChannelDeposition ∧
    ((InstreamFineSediment.stepLumped p (cs, s) (up, lat, loc, vol, q)).2.flushed ≠ 0 →
      q * p.durationInSeconds + vol < 0.01) ∧
    (0 ≤ p.durationInSeconds → 0 ≤ cs → 0 ≤ s → 0 ≤ up → 0 ≤ lat → 0 ≤ loc → 0 ≤ vol → 0 ≤ q →
      0 ≤ (InstreamFineSediment.stepLumped p (cs, s) (up, lat, loc, vol, q)).1.1 ∧
      0 ≤ (InstreamFineSediment.stepLumped p (cs, s) (up, lat, loc, vol, q)).1.2 ∧
      0 ≤ (InstreamFineSediment.stepLumped p (cs, s) (up, lat, loc, vol, q)).2.loadDownstream ∧
      0 ≤ (InstreamFineSediment.stepLumped p (cs, s) (up, lat, loc, vol, q)).2.loadToFloodplain ∧
      0 ≤ (InstreamFineSediment.stepLumped p (cs, s) (up, lat, loc, vol, q)).2.flushed ∧
      -(InstreamFineSediment.stepLumped p (cs, s) (up, lat, loc, vol, q)).2.loadToChannelDeposition ≤ cs ∧
      (InstreamFineSediment.stepLumped p (cs, s) (up, lat, loc, vol, q)).1.1 ≤ max cs (InstreamFineSediment.maxStorage p)) := by
  obtain ⟨h1, h2, h3⟩ := lumped_step 0 p.durationInSeconds s up (lat + loc) q vol
  unfold InstreamFineSediment.stepLumped
  simp only []
  realnum
  have h0 : ((0.0 : ℝ)) = 0 := by norm_num
  rw [h0]
  refine ⟨?_, by ring, h2, fun a b c d e f g h => ?_⟩
  · rw [← add_zero (up + lat + loc), show up + lat + loc + 0 = up + (lat + loc) + 0 by ring, h1]; ring
  · obtain ⟨n1, n2, n3⟩ := h3 (le_refl _) a c d (add_nonneg e f) h g
    exact ⟨b, n1, n2, le_refl _, n3, by linarith, le_max_left _ _⟩

end OW.C12
