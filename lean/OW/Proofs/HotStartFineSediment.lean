import OW.Proofs.HotStart
import OW.Proofs.C12Scan
import OW.Kernels.InstreamFineSediment
import Mathlib.Tactic.Linarith
import Mathlib.Tactic.NormNum
/-!
InstreamFineSediment at ℝ (C06): with a non-negative maximum channel storage the channel store stays non-negative, so the
"negative initial value = fraction of the maximum storage" conversion at the start of a call never fires on a carried state.
-/
set_option linter.unusedSimpArgs false
set_option linter.unusedVariables false
namespace OW.Proofs.FineHot
open OW OW.Kernels.InstreamFineSediment OW.C12

theorem inChannelStorage_store_nonneg (outflow totalVolume mass csf lw ls mn vs vr maxS : ℝ) (hc : 0 ≤ csf) (hm : 0 ≤ maxS) :
    0 ≤ csf + inChannelStorage outflow totalVolume mass csf lw ls mn vs vr maxS := by
  unfold inChannelStorage
  simp only
  have h0 : (0.0 : ℝ) = 0 := by norm_num
  have h1 : (1.0 : ℝ) = 1 := by norm_num
  split
  · realnum; simp only [h0]; linarith
  · split
    · rename_i hlt
      realnum
      simp only [h1, one_mul] at hlt ⊢
      generalize stc (outflow * 1) ls vs lw mn = sd at hlt ⊢
      have hpos : 0 ≤ (mass * 0.001 - sd) * 1000.0 := by
        have : (0:ℝ) ≤ 1000.0 := by norm_num
        exact mul_nonneg (by linarith) this
      rcases le_total ((mass * 0.001 - sd) * 1000.0) (maxS - csf) with h | h
      · rw [min_eq_left h]; linarith
      · rw [min_eq_right h]; linarith
    · split
      · realnum
        simp only [h1, one_mul]
        have := min_le_right ((stc (outflow * 1) ls vr lw mn - mass * 0.001) * 1000.0) csf
        linarith
      · realnum; simp only [h0]; linarith

theorem step_store_nonneg (P : Params ℝ) (hm : 0 ≤ maxStorage P) (st : ℝ × ℝ) (i : ℝ × ℝ × ℝ × ℝ × ℝ) (hc : 0 ≤ st.1) :
    0 ≤ (step P st i).1.1 := by
  obtain ⟨csf, tsm⟩ := st
  obtain ⟨i1, i2, i3, i4, i5⟩ := i
  simp only at hc
  unfold step
  split
  · simp only [stepLumped]; exact hc
  · simp only [stepMain]
    split <;> exact inChannelStorage_store_nonneg _ _ _ csf _ _ _ _ _ _ hc hm

theorem scan_store_nonneg (P : Params ℝ) (hm : 0 ≤ maxStorage P) :
    ∀ (xs : List (ℝ × ℝ × ℝ × ℝ × ℝ)) (st : ℝ × ℝ), 0 ≤ st.1 → 0 ≤ (scan (step P) st xs).1.1 := by
  intro xs
  induction xs with
  | nil => intro st h; exact h
  | cons x xs ih => intro st h; simp only [scan]; exact ih _ (step_store_nonneg P hm st x h)

theorem start_store_nonneg (P : Params ℝ) (hm : 0 ≤ maxStorage P) (hl : lumped P = false) (st : ℝ × ℝ) :
    0 ≤ (start P st).1 := by
  unfold start initStore
  simp only [hl, Bool.false_eq_true, if_false]
  have h0 : (0.0 : ℝ) = 0 := by norm_num
  split
  · realnum; exact mul_nonneg (abs_nonneg _) hm
  · rename_i h; realnum; rw [h0] at h; exact not_lt.mp h

/-- with a non-negative maximum storage the channel store is never negative after a call (main path) -/
theorem run_store_nonneg (P : Params ℝ) (hm : 0 ≤ maxStorage P) (hl : lumped P = false) (st : ℝ × ℝ)
    (xs : List (ℝ × ℝ × ℝ × ℝ × ℝ)) : 0 ≤ (run P st xs).1.1 :=
  scan_store_nonneg P hm xs _ (start_store_nonneg P hm hl st)
end OW.Proofs.FineHot
