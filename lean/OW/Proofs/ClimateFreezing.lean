import OW.Proofs.Climate
/-!
Verified numerics for C20 at the freezing point: the limit of the water branch of the Goff-Gratch formula as T → 0⁺
(`expWater (373.16 / 273.16)`, log₁₀ of vp / 101.325) is ABOVE the value of the ice branch at 0 (`expIce 1 = log₁₀ 0.0060273`).

Numerically: expWater(z₀) = −2.2198302576…, expIce(1) = −2.2198771916…, margin 4.69·10⁻⁵.  Every transcendental is enclosed by
a rational through an exact integer-power comparison (`10^p ≤ x^q ⇒ p/q ≤ log₁₀ x`), the rational numbers being convergents of
the continued fractions:
  log₁₀ z₀ ≥ 139/1026 (error 4·10⁻⁷),  log₁₀ 0.0060273 ≤ −2524/1137 (error 3·10⁻⁷),
  10^3.04 ≤ 1100 (true value 1096.4…), 10^(−1.28) ≥ 0.0524 (true value 0.05248…).
-/
namespace OW.Proofs.Climate
open OW OW.Kernels.Climate

/-- `10^p ≤ x^q` (natural powers) gives `p/q ≤ log₁₀ x` -/
theorem div_le_logb_of_pow_le {x : ℝ} (_hx : 0 < x) (p q : ℕ) (hq : 0 < q) (h : (10:ℝ) ^ p ≤ x ^ q) :
    (p:ℝ) / q ≤ Real.logb 10 x := by
  have h1 : Real.logb 10 ((10:ℝ) ^ p) ≤ Real.logb 10 (x ^ q) :=
    Real.logb_le_logb_of_le (by norm_num) (by positivity) h
  rw [Real.logb_pow, Real.logb_pow, Real.logb_self_eq_one (by norm_num)] at h1
  have hq' : (0:ℝ) < q := by exact_mod_cast hq
  rw [div_le_iff₀ hq']
  linarith

/-- `x^q ≤ 10^p` (natural powers) gives `log₁₀ x ≤ p/q` -/
theorem logb_le_div_of_pow_le {x : ℝ} (hx : 0 < x) (p q : ℕ) (hq : 0 < q) (h : x ^ q ≤ (10:ℝ) ^ p) :
    Real.logb 10 x ≤ (p:ℝ) / q := by
  have h1 : Real.logb 10 (x ^ q) ≤ Real.logb 10 ((10:ℝ) ^ p) :=
    Real.logb_le_logb_of_le (by norm_num) (by positivity) h
  rw [Real.logb_pow, Real.logb_pow, Real.logb_self_eq_one (by norm_num)] at h1
  have hq' : (0:ℝ) < q := by exact_mod_cast hq
  rw [le_div_iff₀ hq']
  linarith

/-- `10^y ≤ x` from `y ≤ p/q` and `10^p ≤ x^q` -/
theorem rpow_ten_le_of_pow_le {x y : ℝ} (hx : 0 < x) (p q : ℕ) (hq : 0 < q) (hy : y ≤ (p:ℝ) / q)
    (h : (10:ℝ) ^ p ≤ x ^ q) : (10:ℝ) ^ y ≤ x := by
  rw [← Real.le_logb_iff_rpow_le (by norm_num) hx]
  exact le_trans hy (div_le_logb_of_pow_le hx p q hq h)

/-- `x ≤ 10^y` from `p/q ≤ y` … stated for a negative exponent `y ≥ −p/q` with `x^q · 10^p ≤ 1` -/
theorem le_rpow_ten_neg_of_pow_le {x y : ℝ} (hx : 0 < x) (p q : ℕ) (hq : 0 < q) (hy : -((p:ℝ) / q) ≤ y)
    (h : x ^ q * (10:ℝ) ^ p ≤ 1) : x ≤ (10:ℝ) ^ y := by
  rw [← Real.logb_le_iff_le_rpow (by norm_num) hx]
  refine le_trans ?_ hy
  -- log₁₀ x ≤ −p/q  ⇔  p/q ≤ log₁₀ (1/x)
  have hinv : (p:ℝ) / q ≤ Real.logb 10 x⁻¹ := by
    apply div_le_logb_of_pow_le (inv_pos.mpr hx) p q hq
    rw [inv_pow, le_inv_comm₀ (by positivity) (by positivity)]
    rw [← one_div, le_div_iff₀ (by positivity)]
    exact h
  rw [Real.logb_inv] at hinv
  linarith

/-- z₀ = 373.16 / 273.16 as a reduced fraction -/
theorem z0_eq : (373.16:ℝ) / 273.16 = 9329 / 6829 := by norm_num

set_option exponentiation.threshold 6000 in
/-- log₁₀ z₀ ≥ 139/1026  (0.13547758… vs 0.13547798…) -/
theorem logb_z0_lower : (139:ℝ) / 1026 ≤ Real.logb 10 (373.16 / 273.16) := by
  have := div_le_logb_of_pow_le (x := (373.16:ℝ) / 273.16) (by norm_num) 139 1026 (by norm_num)
    (by rw [z0_eq, div_pow, le_div_iff₀ (by positivity)]; norm_num)
  simp only [Nat.cast_ofNat] at this
  exact this

set_option exponentiation.threshold 6000 in
/-- log₁₀ 0.0060273 ≤ −2524/1137  (−2.21987687… vs −2.21987719…) -/
theorem logb_b4_upper : Real.logb 10 0.0060273 ≤ -((2524:ℝ) / 1137) := by
  -- 0.0060273 = 60273 / 10^7 ;  (10^7/60273)^1137 ≥ 10^2524
  have hinv : ((2524:ℕ):ℝ) / (1137:ℕ) ≤ Real.logb 10 (0.0060273:ℝ)⁻¹ := by
    apply div_le_logb_of_pow_le (by norm_num) 2524 1137 (by norm_num)
    have e : (0.0060273:ℝ)⁻¹ = 10000000 / 60273 := by norm_num
    rw [e, div_pow, le_div_iff₀ (by positivity)]
    norm_num
  rw [Real.logb_inv] at hinv
  push_cast at hinv
  linarith

/-- **the numeric fact at the freezing point**: ice-branch exponent at 0 °C < limit of the water-branch exponent at 0⁺ -/
theorem expIce_one_lt_expWater_z0 : expIce 1 < expWater (373.16 / 273.16) := by
  have hI : expIce 1 = Real.logb 10 0.0060273 := by
    unfold expIce; rw [Real.logb_one]; norm_num
  rw [hI]
  unfold expWater
  have hL := logb_z0_lower
  have hB := logb_b4_upper
  -- 10^((1 − 1/z₀)·11.344) ≤ 1100
  have hP : (10:ℝ) ^ ((1 - 1 / ((373.16:ℝ) / 273.16)) * 11.344) ≤ 1100 := by
    apply rpow_ten_le_of_pow_le (by norm_num) 76 25 (by norm_num)
    · norm_num
    · norm_num
  -- 0.0524 ≤ 10^(−3.49149·(z₀ − 1))
  have hQ : (0.0524:ℝ) ≤ (10:ℝ) ^ (-3.49149 * ((373.16:ℝ) / 273.16 - 1)) := by
    apply le_rpow_ten_neg_of_pow_le (by norm_num) 32 25 (by norm_num)
    · norm_num
    · norm_num
  generalize Real.logb 10 ((373.16:ℝ) / 273.16) = l at hL ⊢
  generalize Real.logb 10 (0.0060273:ℝ) = b at hB ⊢
  generalize (10:ℝ) ^ ((1 - 1 / ((373.16:ℝ) / 273.16)) * 11.344) = P at hP ⊢
  generalize (10:ℝ) ^ (-3.49149 * ((373.16:ℝ) / 273.16 - 1)) = Q at hQ ⊢
  norm_num at hL hB ⊢
  linarith

end OW.Proofs.Climate
