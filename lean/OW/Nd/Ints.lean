/-
Integer index helpers of /repo/data/sliceops.go and /repo/data/arraysint.go (core Lean only).
Go `int` is `Int` (no overflow modelled); Go `/` and `%` truncate toward zero (`Int.tdiv`, `Int.tmod`);
a Go panic (index out of range, integer divide by zero) is `.error "<class>"`.
-/
namespace OW.Nd

abbrev Idx := List Int
abbrev R := Except String

def oob {α} : R α := .error "index-out-of-range"

/-- `Product` -/
def product : Idx → Int
  | [] => 1
  | x :: xs => x * product xs

/-- `Product` as the Go loop computes it (left fold); equal to `product` (theorem `productL_eq`) -/
def productL (ix : Idx) : Int := ix.foldl (· * ·) 1

/-- `dotProduct(lhs, rhs)`: loops over `len(lhs)`, indexes `rhs[i]` -/
def dotProduct : Idx → Idx → R Int
  | [], _ => .ok 0
  | _ :: _, [] => oob
  | a :: as, b :: bs => do let r ← dotProduct as bs; pure (a * b + r)

/-- `Multiply(lhs, rhs)`: result has `len(lhs)`, indexes `rhs[i]` -/
def multiply : Idx → Idx → R Idx
  | [], _ => .ok []
  | _ :: _, [] => oob
  | a :: as, b :: bs => do let r ← multiply as bs; pure (a * b :: r)

/-- `decrement` -/
def decrement (v : Idx) : Idx := v.map (· - 1)

/-- `Offsets(dims)` for non-empty dims: row-major strides -/
def offsetsT : Idx → Idx
  | [] => []
  | [_] => [1]
  | _ :: d2 :: rest =>
    let r := offsetsT (d2 :: rest)
    (r.headD 1 * d2) :: r

/-- `Offsets(dims)`; `res[len(dims)-1] = 1` panics on an empty list -/
def offsets (dims : Idx) : R Idx :=
  if dims.isEmpty then oob else .ok (offsetsT dims)

/-- `IDivMod(numerator, denominators, modulator)`: `(n / den[i]) % mod[i]` over `len(den)` -/
def idivmod (n : Int) : Idx → Idx → R Idx
  | [], _ => .ok []
  | d :: ds, ms =>
    if d = 0 then .error "int-div-zero"
    else match ms with
      | [] => oob
      | m :: ms' =>
        if m = 0 then .error "int-div-zero"
        else do let r ← idivmod n ds ms'; pure ((n.tdiv d).tmod m :: r)

/-- mixed-radix successor, front-aligned: returns the new vector and the carry out of position 0.
`Increment(vector, wrt)` for `len(vector) = len(wrt)`: the last position is incremented first. -/
def incCarry : Idx → Idx → Idx × Bool
  | v :: vs, w :: ws =>
    let (r, c) := incCarry vs ws
    if c then (if v + 1 ≥ w then (0 :: r, true) else ((v + 1) :: r, false)) else (v :: r, false)
  | vs, _ => (vs, true)

/-- `Increment(vector, wrt)` (returns the updated vector; Go updates in place).
Positions `i < len(wrt)` of `vector` are used; a shorter `vector` panics at once. -/
def increment (vector wrt : Idx) : R Idx :=
  if vector.length < wrt.length then oob
  else .ok ((incCarry (vector.take wrt.length) wrt).1 ++ vector.drop wrt.length)

/-- the loop of `Argmax` over `vector[1:]`: `i` = index in the whole vector of the head of the list -/
def argmaxLoop : Idx → Int → Int → Int → Int
  | [], _, _, res => res
  | v :: vs, i, maxFound, res =>
    if v > maxFound then argmaxLoop vs (i + 1) v i else argmaxLoop vs (i + 1) maxFound res

/-- `Argmax(vector)`; `vector[0]` panics on an empty list -/
def argmax : Idx → R Int
  | [] => oob
  | v :: vs => .ok (argmaxLoop vs 1 v 0)

/-- `Maximum(vector)` -/
def maximum : Idx → R Int
  | [] => oob
  | v :: vs => .ok (vs.foldl (fun r x => if r > x then r else x) v)

/-- `slice.Uniform(n, val)` -/
def uniform (n : Nat) (val : Int) : Idx := List.replicate n val

end OW.Nd
