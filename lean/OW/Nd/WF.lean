import OW.Nd.Array
/-
Vocabulary for the theorems about n-d arrays (core Lean only): which views the properties quantify over.

`Reach v`: `v` is the metadata of a root array with extents ≥ 1, or of an in-bounds slice (steps ≥ 1, extents ≥ 1,
`loc + (dims-1)*step` inside the parent) of such a view — "all chains of nested slices, stepped or not".
-/
namespace OW.Nd

/-- all entries ≥ 1 -/
def Pos (l : Idx) : Prop := ∀ x ∈ l, 1 ≤ x

/-- `SliceOK pdims loc dims step`: an in-bounds slice request on a view of extents `pdims`
(`step` already defaulted to ones when Go passes nil) -/
def SliceOK : Idx → Idx → Idx → Idx → Prop
  | [], [], [], [] => True
  | P :: ps, l :: ls, d :: ds, s :: ss => 0 ≤ l ∧ 1 ≤ d ∧ 1 ≤ s ∧ l + (d - 1) * s < P ∧ SliceOK ps ls ds ss
  | _, _, _, _ => False

/-- the step list Go uses: `nil` means all ones -/
def stepOr (n : Nat) : Option Idx → Idx
  | none => uniform n 1
  | some s => s

/-- a multi-index inside extents `dims` -/
def InBounds : Idx → Idx → Prop
  | [], [] => True
  | i :: is, d :: ds => 0 ≤ i ∧ i < d ∧ InBounds is ds
  | _, _ => False

/-- element-wise `loc + i * step` -/
def affine : Idx → Idx → Idx → Idx
  | l :: ls, i :: is, s :: ss => (l + i * s) :: affine ls is ss
  | _, _, _ => []

inductive Reach : View → Prop
  | root {dims : Idx} {v : View} (hne : dims ≠ []) (hpos : Pos dims) (h : View.root dims = .ok v) : Reach v
  | slice {v w : View} {loc dims : Idx} {step : Option Idx} (hv : Reach v)
      (ok : SliceOK v.dims loc dims (stepOr v.dims.length step))
      (h : v.sliceInto loc dims step = .ok w) : Reach w

/-- row-major rank of a multi-index inside `dims` -/
def ravel : Idx → Idx → Int
  | [], [] => 0
  | i :: is, _ :: ds => i * product ds + ravel is ds
  | _, _ => 0

/-- row-major multi-index of rank `k` inside `dims` (digits of `k` in the mixed radix `dims`) -/
def unravel (k : Int) : Idx → Idx
  | [] => []
  | _ :: ds => (k / product ds) :: unravel (k % product ds) ds

end OW.Nd
