import OW.Nd.Array
/-!
The C back-end of the `int` / `uint` instantiations (data/cdata/gen-arrays_c.go: `Impl *[1<<30]C.int`, `Set`:
`nd.Impl[i] = C.int(val)`, `Get`: `int(nd.Impl[i])`; likewise `C.uint`): the caller's buffer holds 32-BIT elements while the
Go-backed `[]int` / `[]uint` hold 64-bit ones. A write through a C-backed view therefore NARROWS: two's-complement wrap to
32 bits, read back sign-extended (`int`) or zero-extended (`uint`). The array model `OW/Nd/Array.lean` is generic in the
element type and stores values verbatim; the width of the C element type is modelled here, as a normalisation of the
C storages applied after every operation (narrowing is idempotent, so "normalise after each operation" = "narrow on each
write"). The six fixed-width instantiations use the same width on both back-ends: nothing to narrow there.

Finding KF-C01/C02/C03-c-int-width: outside the 32-bit range a C-backed `NDInt` / `NDUint` does not read back what was
written (`Set(1<<40+7)` reads back `7`), a Go-backed one does. The theorems of C01–C03 are about values every element
type of both back-ends can hold (`narrow32_id`).
-/
namespace OW.Nd

/-- `int(C.int(x))` (`signed`) resp. `uint(C.uint(x))` on a 64-bit platform -/
def narrow32 (signed : Bool) (x : Int) : Int :=
  let m := x % 4294967296
  if signed && decide (2147483648 ≤ m) then m - 4294967296 else m

/-- narrow every element of the C storages `cs` -/
def narrowHeap (signed : Bool) (cs : List Nat) (h : Heap Int) : Heap Int :=
  (h.zip (List.range h.length)).map fun (st, sid) => if cs.contains sid then st.map (narrow32 signed) else st

/-- values of the 32-bit range are stored verbatim (`int`: `[-2^31, 2^31)`) -/
theorem narrow32_id_signed (x : Int) (h0 : -2147483648 ≤ x) (h1 : x < 2147483648) : narrow32 true x = x := by
  unfold narrow32
  simp only [Bool.true_and, decide_eq_true_eq]
  split <;> omega

/-- … (`uint`: `[0, 2^32)`) -/
theorem narrow32_id_unsigned (x : Int) (h0 : 0 ≤ x) (h1 : x < 4294967296) : narrow32 false x = x := by
  unfold narrow32
  simp only [Bool.false_and, Bool.false_eq_true, if_false]
  omega

theorem narrow32_false_range (x : Int) : 0 ≤ narrow32 false x ∧ narrow32 false x < 4294967296 := by
  unfold narrow32
  simp only [Bool.false_and, Bool.false_eq_true, if_false]
  omega

theorem narrow32_true_range (x : Int) : -2147483648 ≤ narrow32 true x ∧ narrow32 true x < 2147483648 := by
  unfold narrow32
  simp only [Bool.true_and, decide_eq_true_eq]
  split <;> omega

/-- narrowing is idempotent: normalising the C storages after every operation is narrowing on every write -/
theorem narrow32_idem (s : Bool) (x : Int) : narrow32 s (narrow32 s x) = narrow32 s x := by
  cases s
  · exact narrow32_id_unsigned _ (narrow32_false_range x).1 (narrow32_false_range x).2
  · exact narrow32_id_signed _ (narrow32_true_range x).1 (narrow32_true_range x).2

/-- the witness of the finding: `Set(1<<40+7)` reads back `7` on a C-backed `NDInt`; `-2^35-1` reads back `-1`;
on a C-backed `NDUint` `2^40+7` reads back `7` -/
example : narrow32 true (1099511627776 + 7) = 7 ∧ narrow32 true (-34359738368 - 1) = -1 ∧
    narrow32 false (1099511627776 + 7) = 7 ∧ narrow32 true 2147483648 = -2147483648 ∧ narrow32 false 2147483648 = 2147483648 := by
  decide

end OW.Nd
