import OW.Nd.Ints
/-
`NdArrayTypeCommon` of /repo/data/arrays.go: the index algebra shared by both storage back-ends.
-/
namespace OW.Nd

structure View where
  orig : Idx      -- OriginalDims
  dims : Idx      -- Dims
  start : Int     -- Start
  offset : Idx    -- Offset      (strides of the root, per unit of root index)
  step : Idx      -- Step        (cumulative step)
  offStep : Idx   -- OffsetStep  (= Step ⊙ Offset)
  deriving Repr, DecidableEq, Inhabited

namespace View

def ndims (v : View) : Nat := v.dims.length

/-- `NewIndex(val)` -/
def newIndex (v : View) (val : Int) : Idx := uniform v.ndims val

/-- Σ loc[i]·offStep[i] over `len(loc)` -/
def indexAux : Idx → Idx → R Int
  | [], _ => .ok 0
  | _ :: _, [] => oob
  | l :: ls, o :: os => do let r ← indexAux ls os; pure (l * o + r)

/-- `Index(loc)` -/
def index (v : View) (loc : Idx) : R Int := do
  let r ← indexAux loc v.offStep
  pure (v.start + r)

/-- `Len(ax)` -/
def len (v : View) (ax : Nat) : R Int :=
  match v.dims[ax]? with
  | some d => .ok d
  | none => oob

/-- state of the `Contiguous` loop, processing index `i` (from `len(Dims)-1` down to 0) -/
def contigLoop (v : View) : Nat → Int → Bool → R Bool
  | 0, _, _ => .ok true
  | i + 1, co, must =>
    match v.dims[i]? with
    | none => oob
    | some d =>
      -- if nd.Dims[i] > 1 { … }
      let inner : R (Option Bool) :=
        if d > 1 then
          if must then .ok (some false)
          else match v.step[i]? with
            | none => oob
            | some s =>
              if s > 1 then .ok (some false)
              else match v.offset[i]? with
                | none => oob
                | some o => if o > co then .ok (some false) else .ok none
        else .ok none
      match inner with
      | .error e => .error e
      | .ok (some b) => .ok b
      | .ok none =>
        match v.orig[i]? with
        | none => oob
        | some od => contigLoop v i (co * d) (must || (d != od))

/-- `Contiguous()` -/
def contiguous (v : View) : R Bool := contigLoop v v.dims.length 1 false

/-- `SliceInto(dest, loc, dims, step)`; `step = none` is Go's `nil` -/
def sliceInto (v : View) (loc dims : Idx) (step : Option Idx) : R View := do
  let d ← dotProduct loc v.offStep
  let st ← match step with
    | none => pure v.step
    | some s => multiply v.step s
  let os ← multiply st v.offset
  pure { orig := v.orig, dims := dims, start := v.start + d, offset := v.offset, step := st, offStep := os }

/-- metadata of a fresh root array of shape `dims` (`arrayFromSlice`, and the result of `Reshape`) -/
def root (dims : Idx) (start : Int := 0) : R View := do
  let off ← offsets dims
  let st := uniform dims.length 1
  let os ← multiply st off
  pure { orig := dims, dims := dims, start := start, offset := off, step := st, offStep := os }

/-- number of elements `Product(Shape())` -/
def size (v : View) : Int := product v.dims

end View
end OW.Nd
