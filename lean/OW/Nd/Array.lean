import OW.Nd.View
/-
The two storage back-ends of the n-d arrays:
  Go back-end  /repo/data/arrays_go.go        `Impl []T`          (bounds-checked slice, fast paths, aliasing Unroll)
  C  back-end  /repo/data/cdata/arrays_c.go   `Impl *[1<<30]C.T`  (unchecked pointer, no fast paths, copying Unroll)
and the whole-array helpers of /repo/data/arrayops.go.

A heap is a list of storages; an array is a view plus the window `[base, base+len)` of one storage that its
`Impl` denotes (Go slices can be re-based by `Unroll`/`Reshape`; the C pointer never is: `base = 0`, `len` = the
caller's buffer length, which the real code does not know — an access outside it is reported as `oob-c`,
the memory-safety violation that C03 excludes).
-/
namespace OW.Nd

abbrev Heap (α : Type) := List (List α)

structure Arr where
  v : View
  sid : Nat
  base : Int
  len : Int
  isC : Bool
  deriving Repr, DecidableEq, Inhabited

/-- what `Unroll()` returns: a Go slice that aliases a window of a storage, or a freshly made one -/
inductive Slice (α : Type) where
  | alias (sid : Nat) (lo : Int) (n : Int) : Slice α
  | fresh (vals : List α) : Slice α

section
variable {α : Type}

def storeOf (h : Heap α) (sid : Nat) : R (List α) :=
  match h[sid]? with
  | some s => .ok s
  | none => .error "no-storage"

/-- capacity of the Go slice `Impl` (storages are allocated exactly) -/
def capOf (h : Heap α) (a : Arr) : R Int := do
  let s ← storeOf h a.sid
  pure ((s.length : Int) - a.base)

/-- `Impl[i]` read -/
def readAt (h : Heap α) (a : Arr) (i : Int) : R α := do
  let s ← storeOf h a.sid
  if a.isC then
    if 0 ≤ i ∧ i < 1073741824 then
      match (if 0 ≤ a.base + i then s[(a.base + i).toNat]? else none) with
      | some x => pure x
      | none => .error "oob-c"
    else oob
  else
    if 0 ≤ i ∧ i < a.len then
      match s[(a.base + i).toNat]? with
      | some x => pure x
      | none => .error "no-storage"
    else oob

def setStore (h : Heap α) (sid : Nat) (pos : Nat) (x : α) : Heap α :=
  h.modify sid (fun s => s.set pos x)

/-- `Impl[i] = x` -/
def writeAt (h : Heap α) (a : Arr) (i : Int) (x : α) : R (Heap α) := do
  let s ← storeOf h a.sid
  if a.isC then
    if 0 ≤ i ∧ i < 1073741824 then
      if 0 ≤ a.base + i ∧ a.base + i < s.length then pure (setStore h a.sid (a.base + i).toNat x)
      else .error "oob-c"
    else oob
  else
    if 0 ≤ i ∧ i < a.len then pure (setStore h a.sid (a.base + i).toNat x)
    else oob

/-- `Get(loc)` -/
def get (h : Heap α) (a : Arr) (loc : Idx) : R α := do
  let i ← a.v.index loc
  readAt h a i

/-- `Set(loc, val)` -/
def set (h : Heap α) (a : Arr) (loc : Idx) (x : α) : R (Heap α) := do
  let i ← a.v.index loc
  writeAt h a i x

/-- `Slice(loc, dims, step)`: same storage, same `Impl` -/
def slice (a : Arr) (loc dims : Idx) (step : Option Idx) : R Arr := do
  let v ← a.v.sliceInto loc dims step
  pure { a with v := v }

/-- Go slice expression `Impl[lo:hi]` bounds rule: `0 ≤ lo ≤ hi ≤ cap` -/
def subslice (h : Heap α) (a : Arr) (lo hi : Int) : R (Nat × Int × Int) := do
  let cap ← capOf h a
  if 0 ≤ lo ∧ lo ≤ hi ∧ hi ≤ cap then pure (a.sid, a.base + lo, hi - lo) else oob

/-- read the elements of a slice value -/
def sliceVals (h : Heap α) : Slice α → R (List α)
  | .fresh vs => .ok vs
  | .alias sid lo n => do
    let s ← storeOf h sid
    pure ((s.drop lo.toNat).take n.toNat)

/-- sequential write of `xs` at `lo, lo+1, …` of storage `sid` (no bounds problem by construction of the window) -/
def writeRun (h : Heap α) (sid : Nat) (lo : Nat) : List α → Heap α
  | [] => h
  | x :: xs => writeRun (setStore h sid lo x) sid (lo + 1) xs

/-- gather `res[i] = Get(IDivMod(i, Offsets(Dims), Dims))` for `i = from … length-1` -/
def gather (h : Heap α) (a : Arr) (offs : Idx) : Nat → Int → R (List α)
  | 0, _ => .ok []
  | n + 1, i => do
    let loc ← idivmod i offs a.v.dims
    let x ← get h a loc
    let rest ← gather h a offs n (i + 1)
    pure (x :: rest)

/-- the non-contiguous path of `Unroll()` (the only path of the C back-end) -/
def unrollGather (h : Heap α) (a : Arr) : R (List α) := do
  let length := a.v.size
  if length < 0 then .error "alloc"
  else
    let offs ← offsets a.v.dims
    gather h a offs length.toNat 0

/-- `Unroll()` -/
def unroll (h : Heap α) (a : Arr) : R (Slice α) := do
  if a.isC then
    let vs ← unrollGather h a
    pure (.fresh vs)
  else
    let c ← a.v.contiguous
    if c then
      let s := a.v.start
      let e ← a.v.index (decrement a.v.dims)
      let (sid, lo, n) ← subslice h a s (e + 1)
      pure (.alias sid lo n)
    else
      let vs ← unrollGather h a
      pure (.fresh vs)

/-- the `for pos := 0; pos < size; pos++ { body(idx); Increment(idx, shape) }` loop over a row-major index -/
def forIdx {σ : Type} (shape : Idx) (body : σ → Idx → R σ) : Nat → Idx → σ → R σ
  | 0, _, s => .ok s
  | n + 1, idx, s => do
    let s' ← body s idx
    let idx' ← increment idx shape
    forIdx shape body n idx' s'

/-- `Apply(loc, dim, step, vals)` -/
def apply (h : Heap α) (a : Arr) (loc : Idx) (dim : Int) (step : Int) (vals : List α) : R (Heap α) := do
  let n := a.v.ndims
  if dim < 0 ∨ dim ≥ n then oob   -- sliceDim[dim] = len(vals)
  else
    let d := dim.toNat
    let sliceDim := (uniform n 1).set d vals.length
    let sliceStep := (uniform n 1).set d step
    let loopPath : R (Heap α) := do
      match loc[d]? with
      | none => oob
      | some start =>
        let rec go (h : Heap α) (i : Int) : List α → R (Heap α)
          | [] => .ok h
          | x :: xs => do
            let h' ← set h a (loc.set d (start + i * step)) x
            go h' (i + 1) xs
        go h 0 vals
    if a.isC then loopPath
    else
      let sl ← slice a loc sliceDim (some sliceStep)
      let c ← sl.v.contiguous
      if c then
        let (sid, lo, _) ← subslice h sl sl.v.start (sl.v.start + vals.length)
        pure (writeRun h sid lo.toNat vals)
      else loopPath

/-- element-by-element copy `slice.Set(idx, vals.Get(idx))` in row-major order -/
def copyLoop (h : Heap α) (dst src : Arr) (shape : Idx) : R (Heap α) := do
  let size := product shape
  forIdx shape (fun h idx => do let x ← get h src idx; set h dst idx x) size.toNat (dst.v.newIndex 0) h

/-- `ApplySlice(loc, step, vals)` -/
def applySlice (h : Heap α) (a : Arr) (loc : Idx) (step : Option Idx) (vals : Arr) : R (Heap α) := do
  let shape := vals.v.dims
  let sl ← slice a loc shape step
  if a.isC then copyLoop h sl vals shape
  else
    let c ← sl.v.contiguous
    if c then
      -- copy(slice.Unroll(), vals.Unroll()): min length, memmove semantics
      let d ← unroll h sl
      let s ← unroll h vals
      let svals ← sliceVals h s
      match d with
      | .alias sid lo n => pure (writeRun h sid lo.toNat (svals.take n.toNat))
      | .fresh _ => pure h
    else copyLoop h sl vals shape

/-- `CopyFrom(other)` -/
def copyFrom (h : Heap α) (a : Arr) (other : Arr) : R (Heap α) :=
  applySlice h a (a.v.newIndex 0) none other

/-- allocate a new storage -/
def alloc (h : Heap α) (vals : List α) : Heap α × Nat := (h ++ [vals], h.length)

/-- materialise a `Slice` as the `Impl` of a new Go-backed array: (heap', sid, base, len) -/
def implOf (h : Heap α) : Slice α → Heap α × Nat × Int × Int
  | .alias sid lo n => (h, sid, lo, n)
  | .fresh vs => let (h', sid) := alloc h vs; (h', sid, 0, vs.length)

/-- `Reshape(newShape)`; `.ok (.inl msg)` = returned error -/
def reshape (h : Heap α) (a : Arr) (newShape : Idx) : R (Heap α × (String ⊕ Arr)) := do
  let size := product newShape
  let currentSize := a.v.size
  if size ≠ currentSize then pure (h, .inl "size-mismatch")
  else
    let reshapeToSeries ← (if newShape.length = 1 then do
        let m ← maximum a.v.dims
        pure (decide (m = newShape.length))
      else pure false : R Bool)
    let c ← a.v.contiguous
    if a.isC ∧ ¬ c ∧ ¬ reshapeToSeries then
      -- C back-end, non-contiguous: data.ArrayFromSlice(nd.Unroll(), newShape)  (a Go-backed copy)
      let vs ← unrollGather h a
      let (h', sid) := alloc h vs
      let v ← View.root newShape
      pure (h', .inr { v := v, sid := sid, base := 0, len := vs.length, isC := false })
    else if c ∨ ¬ reshapeToSeries then
      if a.isC then
        let v ← View.root newShape a.v.start
        pure (h, .inr { a with v := v })
      else
        let u ← unroll h a
        let (h', sid, base, len) := implOf h u
        let v ← View.root newShape
        pure (h', .inr { v := v, sid := sid, base := base, len := len, isC := false })
    else
      -- "Special case 1D" (unreachable for views made by in-bounds slicing of roots with extents ≥ 1)
      let sd ← argmax a.v.dims
      match a.v.step[sd.toNat]?, a.v.offset[sd.toNat]? with
      | some st, some off =>
        pure (h, .inr { a with v := { orig := a.v.orig, dims := newShape, start := a.v.start, step := [st], offset := [off], offStep := [st * off] } })
      | _, _ => oob

/-- `ReshapeFast(newShape)` -/
def reshapeFast (h : Heap α) (a : Arr) (newShape : Idx) : R (Heap α × (String ⊕ Arr)) := do
  let c ← a.v.contiguous
  if ¬ c then pure (h, .inl "not-contiguous") else reshape h a newShape

/-- `MustReshape(newShape)` -/
def mustReshape (h : Heap α) (a : Arr) (newShape : Idx) : R (Heap α × Arr) := do
  let (h', r) ← reshape h a newShape
  match r with
  | .inl e => .error e
  | .inr b => pure (h', b)

/-- `Get1(loc)` -/
def get1 (h : Heap α) (a : Arr) (loc : Int) : R α :=
  if a.v.dims.length = 1 then get h a [loc]
  else
    let rec mk : Idx → Idx
      | [] => []
      | d :: ds => if d > 1 then loc :: ds.map (fun _ => 0) else 0 :: mk ds
    get h a (mk a.v.dims)

/-- `Set1(loc, val)` -/
def set1 (h : Heap α) (a : Arr) (loc : Int) (x : α) : R (Heap α) := set h a [loc] x

/-- `Apply1(loc, step, vals)` -/
def apply1 (h : Heap α) (a : Arr) (loc step : Int) (vals : List α) : R (Heap α) :=
  let rec go (h : Heap α) (i : Int) : List α → R (Heap α)
    | [] => .ok h
    | x :: xs => do let h' ← set1 h a (loc + i * step) x; go h' (i + 1) xs
  go h 0 vals

/-- `Maximum()` / `Minimum()` with the strict comparison `better v res` -/
def extremum (better : α → α → Bool) (h : Heap α) (a : Arr) : R α := do
  let idx := a.v.newIndex 0
  let res ← get h a idx
  let shape := a.v.dims
  let size := product shape
  forIdx shape (fun res idx => do let v ← get h a idx; pure (if better v res then v else res)) size.toNat idx res

/-! ### /repo/data/arrayops.go -/

/-- sequential `for i := range destSlice { destSlice[i] = f destSlice[i] sourceSlice[i] }` on an ALIASING
destination slice (Go back-end): every write goes to the storage at once (and is seen by later reads of the source
if the two overlap). -/
def zipLoopAlias (f : α → α → α) (dsid : Nat) (dlo : Nat) (s : Slice α) : Heap α → Nat → Nat → R (Heap α)
  | h, _, 0 => .ok h
  | h, i, k + 1 => do
    let dstore ← storeOf h dsid
    let sv ← (match s with
      | .fresh vs => pure vs[i]?
      | .alias ssid slo sn => do
          let ss ← storeOf h ssid
          pure (if (i : Int) < sn then ss[slo.toNat + i]? else none) : R (Option α))
    match dstore[dlo + i]?, sv with
    | some dx, some sx => zipLoopAlias f dsid dlo s (setStore h dsid (dlo + i) (f dx sx)) (i + 1) k
    | _, _ => oob

/-- the same loop on a FRESH destination slice (C back-end `Unroll` is a copy): pure -/
def zipLoopFresh (f : α → α → α) : List α → List α → R (List α)
  | [], _ => .ok []
  | _ :: _, [] => oob
  | d :: ds, s :: ss => do let r ← zipLoopFresh f ds ss; pure (f d s :: r)

/-- `ApplyFunc1(dest, source, fn)` generalised to `dest[i] = f dest[i] source[i]`
(`ApplyFunc1`: `f _ s = fn s`; `AddTo`: `f d s = d + s`), including `storeUnrolled` (the computed values are written
back through a flat reshaped view of `dest`, which is what makes the result reach C-backed storage). -/
def zipWithInto (f : α → α → α) (h : Heap α) (dest source : Arr) : R (Heap α) := do
  let cd ← dest.v.contiguous
  let cs ← (if cd then source.v.contiguous else pure false : R Bool)
  if cd ∧ cs then
    let d ← unroll h dest
    let s ← unroll h source
    let (h1, vals) ← (match d with
      | .alias dsid dlo dn => do
        let h1 ← zipLoopAlias f dsid dlo.toNat s h 0 dn.toNat
        let vs ← sliceVals h1 (.alias dsid dlo dn)
        pure (h1, vs)
      | .fresh dv => do
        let sv ← sliceVals h s
        let vs ← zipLoopFresh f dv sv
        pure (h, vs) : R (Heap α × List α))
    -- storeUnrolled(dest, destSlice)
    if vals.isEmpty then pure h1
    else
      let (h2, r) ← reshapeFast h1 dest [vals.length]
      match r with
      | .inl e => .error e
      | .inr flat => apply h2 flat [0] 0 1 vals
  else
    let shape := dest.v.dims
    let size := product shape
    forIdx shape (fun h idx => do
      let dx ← get h dest idx
      let sx ← get h source idx
      set h dest idx (f dx sx)) size.toNat (dest.v.newIndex 0) h

/-! ### constructors -/

/-- `arrayFromSlice(data, dims)` (Go back-end) on an existing storage -/
def fromStore (h : Heap α) (sid : Nat) (dims : Idx) : R Arr := do
  let s ← storeOf h sid
  let v ← View.root dims
  pure { v := v, sid := sid, base := 0, len := s.length, isC := false }

/-- `NewArray(dims)`: `make([]T, Product(dims))` then `arrayFromSlice` -/
def newArray (zero : α) (h : Heap α) (dims : Idx) : R (Heap α × Arr) := do
  let size := product dims
  if size < 0 then .error "alloc"
  else
    let (h', sid) := alloc h (List.replicate size.toNat zero)
    let a ← fromStore h' sid dims
    pure (h', a)

/-- `New<T>CArray(ptr, dims)` on the caller's buffer `sid` -/
def fromC (h : Heap α) (sid : Nat) (dims : Idx) : R Arr := do
  let s ← storeOf h sid
  let v ← View.root dims
  pure { v := v, sid := sid, base := 0, len := s.length, isC := true }

end
end OW.Nd
