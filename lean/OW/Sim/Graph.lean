import OW.Kernels.Basic
/-
cmd/ow-sim — model graph, reference semantics and implementation-shaped semantics (core Lean only; property C07).

INPUT FILE (what `run_simulation` / `makeModelRefs` / `GetGeneration` read):
  /META/models              1-D fixed-length strings: the model types, in order (`modelNames`)
  /DIMENSIONS               a group (only listed)
  /LINKS                    uint32 [nLinks, 10]: src generation, src model, src node, src node within its generation,
                            src output variable, dest generation, dest model, dest node, dest node within its
                            generation, dest input variable
  /MODELS/<m>/batches       int32 [G]: CUMULATIVE node counts; generation g of model m is rows [batches[g-1], batches[g])
  /MODELS/<m>/parameters    float64 [nParameters, N]   (column = node)
  /MODELS/<m>/states        float64 [N, nStates]       (initial states)
  /MODELS/<m>/inputs        float64 [N, nInputs, T]    OPTIONAL; absent = zero inputs; T of the first model that has
                            this dataset is the simulation length
OUTPUT FILE (`WriteData`, `InitialiseOutputs`): per model with at least one node
  /MODELS/<m>/outputs [N, nOutputs, T] (unless excluded), /MODELS/<m>/inputs [N, nInputs, T] (final inputs, where
  requested; default: only for models whose first generation is empty), /MODELS/<m>/states [N, nStates] (final
  states, always); generation g is written at rows `generationLocation(g) = batches[g-1]`.

`refSem` is the SPECIFICATION: generations in order, every node run once, node input = stored input (or zeros) +
the outputs of all nodes linked to it (links read through their GLOBAL node columns, in link order).
`exec` is IMPLEMENTATION-SHAPED: lazily loaded generations keyed by (model, generation) with row ranges from
`batches`, the `nextLink` cursor with `linkGen > i → break`, `AddTo` of the source output row into the destination
input row (links read through their WITHIN-GENERATION columns), `WriteData` at `generationLocation`, `PurgeGeneration`.
The asynchronous writer goroutines appear as separate actions (`write g`, `purge k`) that a schedule interleaves with
the main loop's actions (`run i`, `links i`); `owsim` is the schedule in which every writer acts as early as it can.
The kernel is a parameter (`RunFn`); the driver instantiates it with the kernel models of `Kernels.find`.
-/
namespace OW.Sim
open OW

/-- one row of /LINKS (the ten columns LINK_SRC_GENERATION … LINK_DEST_VAR of main.go) -/
structure Link where
  srcGen : Nat
  srcModel : Nat
  srcNode : Nat
  srcGenNode : Nat
  srcVar : Nat
  destGen : Nat
  destModel : Nat
  destNode : Nat
  destGenNode : Nat
  destVar : Nat
deriving Repr, DecidableEq

/-- /MODELS/<name>/… of the input file; `params`, `states`, `inputs` are indexed by the node's global row -/
structure ModelData (α : Type) where
  name : String
  nInputs : Nat
  /-- number of output variables of the model TYPE (`len(Description().Outputs)`): the second extent of the `Outputs`
  array `modelGeneration.Run` allocates; `LINK_SRC_VAR` of a link must lie below it (`ValidGraph`) -/
  nOutputs : Nat
  batches : List Nat
  params : List (List α)
  states : List (List α)
  inputs : Option (List (List (List α)))

/-- the command-line flags -outputs-for, -no-outputs-for, -inputs-for, -no-inputs-for (lists of model names) -/
structure Selection where
  outputsFor : List String := []
  noOutputsFor : List String := []
  inputsFor : List String := []
  noInputsFor : List String := []

structure Graph (α : Type) where
  /-- third extent of the stored `inputs` datasets -/
  T : Nat
  models : List (ModelData α)
  links : List Link
  sel : Selection := {}

/-- result of running one node: output series (one per output variable), final state row, Go panic class if any -/
structure NodeRes (α : Type) where
  outputs : List (List α)
  states : List α
  err : Option String := none

/-- the kernel: model name, parameter column, input series, initial state row ↦ result -/
abbrev RunFn (α : Type) := String → List α → List (List α) → List α → NodeRes α

/-- what the output file holds for one node (one row of each dataset that is written for its model) -/
structure Row (α : Type) where
  inputs : Option (List (List α))
  outputs : Option (List (List α))
  states : List α
  err : Option String

structure ModelOut (α : Type) where
  name : String
  /-- the model's datasets exist in the output file -/
  created : Bool
  /-- `none` = row never written (still the fill value) -/
  rows : List (Option (Row α))

abbrev Result (α : Type) := List (ModelOut α)

variable {α : Type}

def emptyModel : ModelData α := ⟨"", 0, 0, [], [], [], none⟩

def Graph.model (g : Graph α) (m : Nat) : ModelData α := g.models.getD m emptyModel

/-- `genCount = len(ref.Generations)` of the last model of the loop in `makeModelRefs` -/
def Graph.genCount (g : Graph α) : Nat :=
  match g.models.getLast? with
  | some md => md.batches.length
  | none => 0

/-- `simLength`: taken from the first stored `inputs` dataset; 0 when no model has one -/
def Graph.simLen (g : Graph α) : Nat := if g.models.any (·.inputs.isSome) then g.T else 0

/-! ### row ranges of generations -/

/-- `genSlice[0]`, `generationLocation(g)` -/
def startOf (b : List Nat) (g : Nat) : Nat := if g = 0 then 0 else b.getD (g - 1) 0
/-- `genSlice[1] = Batches[g]` -/
def stopOf (b : List Nat) (g : Nat) : Nat := b.getD g 0
/-- `TotalRuns() = Batches[len-1]` -/
def totalOf (b : List Nat) : Nat := b.getD (b.length - 1) 0

def inGen (b : List Nat) (g r : Nat) : Prop := startOf b g ≤ r ∧ r < stopOf b g
instance (b : List Nat) (g r : Nat) : Decidable (inGen b g r) := by unfold inGen; infer_instance

/-! ### command-line selection (`writeFor`) -/

def writeFor (name : String) (incl excl : List String) (dflt : Bool) : Bool :=
  if incl.contains name then true else if excl.contains name then false else dflt

def writeOutputs (g : Graph α) (md : ModelData α) : Bool :=
  writeFor md.name g.sel.outputsFor g.sel.noOutputsFor true

/-- default: `ref.Batches[0] == 0` -/
def writeInputs (g : Graph α) (md : ModelData α) : Bool :=
  writeFor md.name g.sel.inputsFor g.sel.noInputsFor (md.batches.getD 0 0 == 0)

/-! ### series arithmetic shared by specification and implementation -/

/-- `AddToFloat64Array(dest, src)` on two series: `dest[i] += src[i]` -/
def addSeries [Add α] (d s : List α) : List α := List.zipWith (· + ·) d s

def modifyAt {β : Type} (f : β → β) : List β → Nat → List β
  | [], _ => []
  | x :: xs, 0 => f x :: xs
  | x :: xs, n + 1 => x :: modifyAt f xs n

/-- add series `s` to input variable `v` -/
def addAt [Add α] (ins : List (List α)) (v : Nat) (s : List α) : List (List α) :=
  modifyAt (fun d => addSeries d s) ins v

/-- the stored inputs of a node, or `NewArray3DFloat64(count, nInputs, SimLength)` (zeros) when the model has none -/
def baseInputs [Num α] (g : Graph α) (md : ModelData α) (r : Nat) : List (List α) :=
  match md.inputs with
  | some ins => ins.getD r []
  | none => List.replicate md.nInputs (zeros g.simLen)

def mkRow (g : Graph α) (md : ModelData α) (ins : List (List α)) (res : NodeRes α) : Row α :=
  { inputs := if writeInputs g md then some ins else none
    outputs := if writeOutputs g md then some res.outputs else none
    states := res.states
    err := res.err }

/-! ### SPECIFICATION: sequential reference semantics -/

/-- results of the nodes that have run: model index, global row ↦ (final inputs, result) -/
structure NodeDone (α : Type) where
  inputs : List (List α)
  res : NodeRes α

abbrev Done (α : Type) := Nat → Nat → NodeDone α

def noDone : Done α := fun _ _ => ⟨[], ⟨[], [], none⟩⟩

/-- the output series a link carries -/
def linkSeries (done : Done α) (l : Link) : List α :=
  (done l.srcModel l.srcNode).res.outputs.getD l.srcVar []

/-- input of node (m, r): stored input (or zeros) plus, in link order, the linked output of every link whose
destination is this node -/
def nodeInput [Num α] (g : Graph α) (done : Done α) (m r : Nat) : List (List α) :=
  g.links.foldl (fun ins l => if l.destModel = m ∧ l.destNode = r then addAt ins l.destVar (linkSeries done l) else ins)
    (baseInputs g (g.model m) r)

/-- run node (m, r) once with its own parameters and initial states -/
def runNodeAt [Num α] (run : RunFn α) (g : Graph α) (done : Done α) (m r : Nat) : NodeDone α :=
  let md := g.model m
  let ins := nodeInput g done m r
  ⟨ins, run md.name (md.params.getD r []) ins (md.states.getD r [])⟩

/-- one generation: every node whose row lies in the generation's range runs, reading only earlier results -/
def refGen [Num α] (run : RunFn α) (g : Graph α) (done : Done α) (gen : Nat) : Done α :=
  fun m r => if inGen (g.model m).batches gen r then runNodeAt run g done m r else done m r

def refDone [Num α] (run : RunFn α) (g : Graph α) (n : Nat) : Done α :=
  (List.range n).foldl (refGen run g) noDone

def refModelOut [Num α] (g : Graph α) (done : Done α) (m : Nat) (md : ModelData α) : ModelOut α :=
  { name := md.name
    created := decide (0 < totalOf md.batches)
    rows := (List.range (totalOf md.batches)).map fun r => some (mkRow g md (done m r).inputs (done m r).res) }

/-- the reference result: every node's outputs, final states (and final inputs where requested) at its global row -/
def refSem [Num α] (run : RunFn α) (g : Graph α) : Result α :=
  let done := refDone run g g.genCount
  (List.range g.models.length).map fun m => refModelOut g done m (g.model m)

/-! ### IMPLEMENTATION-SHAPED semantics -/

/-- `modelGeneration`: the arrays of one (model, generation), indexed by the row WITHIN the generation -/
structure GenData (α : Type) where
  count : Nat
  inputs : Nat → List (List α)
  states : Nat → List α
  params : Nat → List α
  /-- `Outputs` is nil until `Run` -/
  ran : Bool
  outputs : Nat → List (List α)
  errs : Nat → Option String

def upd {β : Type} (f : Nat → β) (i : Nat) (v : β) : Nat → β := fun j => if j = i then v else f j

def upd2 {β : Type} (f : Nat → Nat → β) (i j : Nat) (v : β) : Nat → Nat → β :=
  fun a b => if a = i ∧ b = j then v else f a b

structure SimState (α : Type) where
  /-- `modelReference.Generations[i]` per model: nil = not loaded (or purged) -/
  gens : Nat → Nat → Option (GenData α)
  nextLink : Nat
  /-- `outputsInitialised` per model -/
  initialised : Nat → Bool
  /-- output file: model index, global row ↦ written row -/
  file : Nat → Nat → Option (Row α)

def initState : SimState α := ⟨fun _ _ => none, 0, fun _ => false, fun _ _ => none⟩

/-- the loading branch of `GetGeneration` -/
def loadGeneration [Num α] (g : Graph α) (m gen : Nat) : GenData α :=
  let md := g.model m
  let start := startOf md.batches gen
  let count := stopOf md.batches gen - start
  if count = 0 then
    ⟨0, fun _ => [], fun _ => [], fun _ => [], false, fun _ => [], fun _ => none⟩
  else
    { count := count
      inputs := fun k => baseInputs g md (start + k)
      states := fun k => md.states.getD (start + k) []
      params := fun k => md.params.getD (start + k) []
      ran := false
      outputs := fun _ => []
      errs := fun _ => none }

/-- `GetGeneration(i)`: the cached generation, or load it from the file and cache it -/
def getGeneration [Num α] (g : Graph α) (s : SimState α) (m gen : Nat) : SimState α × GenData α :=
  match s.gens m gen with
  | some d => (s, d)
  | none =>
    let d := loadGeneration g m gen
    ({ s with gens := upd2 s.gens m gen (some d) }, d)

/-- `modelGeneration.Run`: every cell with its own parameter column, input rows and state row (C04) -/
def runGenData (run : RunFn α) (name : String) (d : GenData α) : GenData α :=
  if d.count = 0 then d
  else
    { d with
      ran := true
      outputs := fun k => (run name (d.params k) (d.inputs k) (d.states k)).outputs
      states := fun k => (run name (d.params k) (d.inputs k) (d.states k)).states
      errs := fun k => (run name (d.params k) (d.inputs k) (d.states k)).err }

/-- body of the loop over `modelNames` in `runGeneration` -/
def runModelGen [Num α] (run : RunFn α) (g : Graph α) (i : Nat) (s : SimState α) (m : Nat) : SimState α :=
  let (s, d) := getGeneration g s m i
  if d.count = 0 then s
  else { s with gens := upd2 s.gens m i (some (runGenData run (g.model m).name d)) }

def runGeneration [Num α] (run : RunFn α) (g : Graph α) (i : Nat) (s : SimState α) : SimState α :=
  (List.range g.models.length).foldl (runModelGen run g i) s

/-- one link: source generation and destination generation through `GetGeneration`, then
`AddToFloat64Array(destModel.Inputs[destIdx, destVar, :], srcModel.Outputs[srcIdx, srcVar, :])`, `nextLink++` -/
def applyLink [Num α] (g : Graph α) (s : SimState α) (l : Link) : SimState α :=
  let (s, src) := getGeneration g s l.srcModel l.srcGen
  let (s, dst) := getGeneration g s l.destModel l.destGen
  let srcData := (src.outputs l.srcGenNode).getD l.srcVar []
  let dst' := { dst with inputs := upd dst.inputs l.destGenNode (addAt (dst.inputs l.destGenNode) l.destVar srcData) }
  { s with gens := upd2 s.gens l.destModel l.destGen (some dst'), nextLink := s.nextLink + 1 }

/-- the PROCESS LINKS loop of generation `i` over the links from the cursor on: stop at the end of the table or at the
first link whose source generation is `> i` -/
def processLinksFrom [Num α] (g : Graph α) (i : Nat) : List Link → SimState α → SimState α
  | [], s => s
  | l :: rest, s => if l.srcGen > i then s else processLinksFrom g i rest (applyLink g s l)

def processLinks [Num α] (g : Graph α) (i : Nat) (s : SimState α) : SimState α :=
  processLinksFrom g i (g.links.drop s.nextLink) s

/-- what the output file "holds" for a row whose write killed the process with a nil-pointer panic: like a kernel panic
(`Row.err`, printed by the driver as `panic nil`), never a default value -/
def crashRow : Row α := ⟨none, none, [], some "nil"⟩

/-- `WriteData(generation)` for one model. A generation that has NOT run (`Outputs == nil`) is not skipped silently:
Go dereferences the nil `Outputs` (see the branch); only a never-run generation of a model whose outputs are already
initialised and not requested is written without touching `Outputs`. Under a protocol-respecting schedule (`write g`
after `run g`) the branch is dead (`OW/Proofs/SimGraph.lean: writeData_final`). -/
def writeData [Num α] (g : Graph α) (gen : Nat) (s : SimState α) (m : Nat) : SimState α :=
  let md := g.model m
  let (s, d) := getGeneration g s m gen
  if d.count = 0 then s
  else if !d.ran && (!(s.initialised m) || writeOutputs g md) then
    -- `gen.Outputs` is nil until `Run`: `gen.Outputs.Len(0)` (outputs not yet initialised) resp. `WriteSlice(gen.Outputs, …)`
    -- → `data.Shape()` (outputs requested) dereference a nil interface: the process dies (panic class "nil")
    let loc := startOf md.batches gen
    { s with
      initialised := upd s.initialised m true
      file := fun m' r => if m' = m ∧ loc ≤ r ∧ r < loc + d.count then some crashRow else s.file m' r }
  else
    let loc := startOf md.batches gen
    { s with
      initialised := upd s.initialised m true
      file := fun m' r =>
        if m' = m ∧ loc ≤ r ∧ r < loc + d.count then
          some (mkRow g md (d.inputs (r - loc)) ⟨d.outputs (r - loc), d.states (r - loc), d.errs (r - loc)⟩)
        else s.file m' r }

def writeGeneration [Num α] (g : Graph α) (gen : Nat) (s : SimState α) : SimState α :=
  (List.range g.models.length).foldl (writeData g gen) s

/-- `PurgeGeneration(prevG)` for every model -/
def purgeGeneration (g : Graph α) (k : Nat) (s : SimState α) : SimState α :=
  { s with gens := fun m gen => if gen = k ∧ m < g.models.length then none else s.gens m gen }

/-- actions of the main loop (`run`, `links`) and of the writer goroutines (`write`, `purge`) -/
inductive Act where
  | run (i : Nat)
  | links (i : Nat)
  | write (gen : Nat)
  | purge (k : Nat)
deriving Repr, DecidableEq

def exec [Num α] (run : RunFn α) (g : Graph α) (s : SimState α) : Act → SimState α
  | .run i => runGeneration run g i s
  | .links i => processLinks g i s
  | .write gen => writeGeneration g gen s
  | .purge k => purgeGeneration g k s

def execAll [Num α] (run : RunFn α) (g : Graph α) (acts : List Act) : SimState α :=
  acts.foldl (exec run g) initState

def fileModelOut (s : SimState α) (m : Nat) (md : ModelData α) : ModelOut α :=
  { name := md.name
    created := s.initialised m
    rows := (List.range (totalOf md.batches)).map fun r => s.file m r }

def resultOf (g : Graph α) (s : SimState α) : Result α :=
  (List.range g.models.length).map fun m => fileModelOut s m (g.model m)

/-- the schedule in which every writer acts as early as the protocol allows: W(i) is spawned after `run i`,
purges generation i-1 and writes generation i before the main loop processes the links of generation i -/
def earlySchedule (G : Nat) : List Act :=
  (List.range G).flatMap fun i =>
    [Act.run i] ++ (if i = 0 then [] else [Act.purge (i - 1)]) ++ [Act.write i, Act.links i]

/-- the schedule in which the main loop finishes before any writer acts -/
def lateSchedule (G : Nat) : List Act :=
  ((List.range G).flatMap fun i => [Act.run i, Act.links i]) ++
  ((List.range G).flatMap fun i => (if i = 0 then [] else [Act.purge (i - 1)]) ++ [Act.write i])

def owsimSched [Num α] (run : RunFn α) (g : Graph α) (acts : List Act) : Result α :=
  resultOf g (execAll run g acts)

def owsim [Num α] (run : RunFn α) (g : Graph α) : Result α := owsimSched run g (earlySchedule g.genCount)

/-! ### valid model-graph files -/

def MonoBatches (b : List Nat) : Prop := ∀ i, i < b.length - 1 → b.getD i 0 ≤ b.getD (i + 1) 0
instance (b : List Nat) : Decidable (MonoBatches b) := by unfold MonoBatches; infer_instance

def LinkOk (g : Graph α) (l : Link) : Prop :=
  l.srcGen < l.destGen ∧ l.destGen < g.genCount ∧
  l.srcModel < g.models.length ∧ l.destModel < g.models.length ∧
  l.srcGenNode < stopOf (g.model l.srcModel).batches l.srcGen - startOf (g.model l.srcModel).batches l.srcGen ∧
  l.destGenNode < stopOf (g.model l.destModel).batches l.destGen - startOf (g.model l.destModel).batches l.destGen ∧
  l.srcNode = startOf (g.model l.srcModel).batches l.srcGen + l.srcGenNode ∧
  l.destNode = startOf (g.model l.destModel).batches l.destGen + l.destGenNode ∧
  l.destVar < (g.model l.destModel).nInputs
instance (g : Graph α) (l : Link) : Decidable (LinkOk g l) := by unfold LinkOk; infer_instance

/-- links sorted by source generation -/
def SortedLinks : List Link → Prop
  | [] => True
  | l :: rest => (∀ l' ∈ rest, l.srcGen ≤ l'.srcGen) ∧ SortedLinks rest

instance : (ls : List Link) → Decidable (SortedLinks ls)
  | [] => isTrue trivial
  | l :: rest =>
    have := instDecidableSortedLinks rest
    by unfold SortedLinks; infer_instance

/-- shape well-formedness of one model's datasets: `parameters` has one column and `states` one row per node
(`[nParameters, N]`, `[N, nStates]`), a stored `inputs` dataset is `[N, nInputs, T]`. The model reads them with
`getD r []`; Go slices the datasets and dies on a short one. -/
def ShapeOk (g : Graph α) (md : ModelData α) : Prop :=
  md.params.length = totalOf md.batches ∧ md.states.length = totalOf md.batches ∧
  match md.inputs with
  | some ins => ins.length = totalOf md.batches ∧ ∀ row ∈ ins, row.length = md.nInputs ∧ ∀ ser ∈ row, ser.length = g.T
  | none => True
instance (g : Graph α) (md : ModelData α) : Decidable (ShapeOk g md) := by
  unfold ShapeOk; cases md.inputs <;> infer_instance

/-- a valid model-graph file: at least one generation; every model has one cumulative (non-decreasing) batch count per
generation; links sorted by source generation; every link goes to a strictly later generation and its indices are in
range and consistent (global node = start of its generation + node within the generation); and what the Go code needs
beyond that (the list-based model would silently read `[]`, Go panics or races):
* model names pairwise different — Go keys `models` by NAME (`map[string]*modelReference`): two entries of /META/models
  with one name share one `*modelGeneration`, run by two goroutines;
* `srcVar` of every link names an output variable of its source model type (`LinkOk` bounds `destVar` only);
* every dataset has the shape the batches and the model type prescribe (`ShapeOk`). -/
def ValidGraph (g : Graph α) : Prop :=
  1 ≤ g.genCount ∧
  (∀ m, m < g.models.length → (g.model m).batches.length = g.genCount ∧ MonoBatches (g.model m).batches) ∧
  SortedLinks g.links ∧
  (∀ l ∈ g.links, LinkOk g l) ∧
  (g.models.map (·.name)).Nodup ∧
  (∀ l ∈ g.links, l.srcVar < (g.model l.srcModel).nOutputs) ∧
  (∀ md ∈ g.models, ShapeOk g md)
instance (g : Graph α) : Decidable (ValidGraph g) := by unfold ValidGraph; infer_instance

end OW.Sim
