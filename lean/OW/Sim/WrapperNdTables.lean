import OW.Sim.WrapperNd
import OW.Sim.Wrapper
/-
The view-level goroutine body of the generated wrappers (pre/ow-specgen/generated_struct.got) for specs WITH
one-dimensional table parameters (core Lean only) — the extension of `cellStepNd` of `OW/Sim/WrapperNd.lean`, which
covers scalar-parameter specs.

Template, per parameter `X` of the spec, inside the goroutine of cell `i`:
  scalar               `x := m.X.Get1(i % m.X.Len1())`
  dimension parameter  `x := int(m.X.Get1(i % m.X.Len1()))`         (a scalar whose value is also a table length)
  table over `D`       `xNSets := shape[len(shape)-1]; x := m.X.Slice([]int{0, i % xNSets}, []int{d}, nil)`
                       where `d` is the cell's own value of dimension parameter `D` (`int(...)`, above)
and `m.X` is the `ApplyParameters` view `parameters.Slice([paramIdx,0],[paramSize,nSets],nil).MustReshape(newShape)`
with `paramSize = 1 * m.maxD`, `newShape = [m.maxD, nSets]`, `paramIdx += paramSize`.

The kernel reads a table `t` of own length `d` as `t.Get1(0) … t.Get1(d-1)` (`readTable`); as in `OW/Sim/Wrapper.lean`
the parameter column handed to the kernel function on lists is the concatenation of the scalars and the table columns
in spec order.
-/
namespace OW.Sim.WrapperNd
open OW OW.Nd OW.Sim

section
variable {α : Type} [Num α]

/-- `ApplyParameters`: the rows `(paramIdx, paramSize)` of the parameters of a spec, `paramIdx += paramSize` with
`paramSize = 1` for a scalar and `1 * m.max<D>` for a table over dimension parameter number `k` (`dims k = m.max<D>`,
the value `InitialiseDimensions` stored from `FindDimensions`) -/
def tplRows (dims : Nat → Nat) : ParamSpec → Nat → List (Nat × Nat)
  | [], _ => []
  | none :: rest, idx => (idx, 1) :: tplRows dims rest (idx + 1)
  | some k :: rest, idx => (idx, dims k) :: tplRows dims rest (idx + dims k)

/-- the value of `paramIdx` after the parameters of `spec` (the number of rows `ApplyParameters` consumes) -/
def tplEnd (dims : Nat → Nat) : ParamSpec → Nat → Nat
  | [], idx => idx
  | none :: rest, idx => tplEnd dims rest (idx + 1)
  | some k :: rest, idx => tplEnd dims rest (idx + dims k)

/-- decode the parameters of cell `i` through the template's views, in spec order; `ps` = the spec zipped with the
rows `(paramIdx, paramSize)` of `ApplyParameters`; `vals` = the scalar values decoded so far by parameter number (a
placeholder for tables), from which a table's own length `int(value of its dimension parameter)` is taken.
* scalar in row `row`: `scalarParam` (`ApplyParameters` view `[nSets]`, then `Get1(i % Len1())`);
* table in rows `row … row+size-1` over dimension parameter `k`: `tableParam` (`ApplyParameters` view `[size, nSets]`,
  then `Slice([0, i % nSets], [ownLen], nil)`), read by the kernel with `Get1(0) … Get1(ownLen-1)`. -/
def decodeNd (h : Heap α) (parameters : Arr) (i : Int) :
    List (Option Nat × (Nat × Nat)) → List α → List α → R (List α)
  | [], acc, _ => .ok acc
  | (none, (row, _)) :: rest, acc, vals => do
    let x ← scalarParam h parameters (row : Int) i
    decodeNd h parameters i rest (acc ++ [x]) (vals ++ [x])
  | (some k, (row, size)) :: rest, acc, vals => do
    let ownLen : Int := match vals[k]? with
      | some v => Num.toInt v
      | none => 0
    let (h1, t) ← tableParam h parameters (row : Int) (size : Int) ownLen i
    let col ← readTable h1 t ownLen.toNat
    decodeNd h parameters i rest (acc ++ col) (vals ++ [Num.zero])

/-- the goroutine body of cell `i` with an arbitrary parameter decoder `dec` (everything after the parameters is the
body of `cellStepNd`) -/
def cellStepNdG (kernel : List α → List (List α) → List α → KRes α) (dec : R (List α)) (nI : Nat)
    (h : Heap α) (inputs states outputs : Arr) (rd : RunDims) (i : Int) : R (Heap α) := do
  let p ← dec
  let (h1, sv) ← stateView h states i rd.numStates
  let st ← readView h1 sv
  let ins ← mapR (fun (k : Nat) => do
      let (h2, v) ← inputView h1 inputs i (k : Int) rd.numInputSequences (nI : Int) rd.inputLen
      readView h2 v) (List.range nI)
  let r ← kernel p ins st
  let h3 ← writeOutputs h1 outputs i rd.inputLen 0 r.outputs
  writeView h3 sv r.states

/-- what the goroutine of cell `i` does for a spec with scalar and table parameters laid out in rows `lay` -/
def cellStepNdT (kernel : List α → List (List α) → List α → KRes α) (spec : ParamSpec) (lay : List (Nat × Nat))
    (nI : Nat) (h : Heap α) (parameters inputs states outputs : Arr) (rd : RunDims) (i : Int) : R (Heap α) :=
  cellStepNdG kernel (decodeNd h parameters i (spec.zip lay) [] []) nI h inputs states outputs rd i

/-- the goroutines of cells `i, i+1, …` (`n` of them) executed one after the other (C05 is about why the order does not
matter), for a spec with table parameters -/
def runCellsNdT (kernel : List α → List (List α) → List α → KRes α) (spec : ParamSpec) (lay : List (Nat × Nat))
    (nI : Nat) (parameters inputs states outputs : Arr) (rd : RunDims) : Nat → Int → Heap α → R (Heap α)
  | 0, _, h => .ok h
  | n + 1, i, h => do
    let h1 ← cellStepNdT kernel spec lay nI h parameters inputs states outputs rd i
    runCellsNdT kernel spec lay nI parameters inputs states outputs rd n (i + 1) h1

/-- `Run(inputs, states, outputs)` for a spec with table parameters laid out in rows `lay` (by `ApplyParameters`, before
`Run`): the preamble, then one goroutine per cell `0 … numCells-1` -/
def runNdT (kernel : List α → List (List α) → List α → KRes α) (spec : ParamSpec) (lay : List (Nat × Nat)) (nI : Nat)
    (h : Heap α) (parameters inputs states outputs : Arr) : R (Heap α) := do
  let rd ← runDims inputs states outputs
  runCellsNdT kernel spec lay nI parameters inputs states outputs rd rd.numCells.toNat 0 h

end
end OW.Sim.WrapperNd
