import OW.Kernels.Basic
/-
List-level semantics of the generated model wrappers (pre/ow-specgen/generated_struct.got):
FindDimensions / ApplyParameters / InitialiseStates / Run over N cells, written with the same index
arithmetic as the template (`paramIdx += paramSize`, `i % nSets`, `i % numInputSequences`, per-cell table
length, writes confined to output rows/timesteps and state rows of the cells that run).

The kernel is a parameter (`KModel`): this model is about the glue. (C09 shows the 41 wrappers are the
template's expansion; the Nd-level view algebra the template uses is the subject of C01/C02.)
-/
namespace OW.Sim
open OW

/-- per parameter: `none` = scalar, `some k` = table whose length is the value of parameter number `k` -/
abbrev ParamSpec := List (Option Nat)

variable {α : Type} [Num α]

/-- maximum over a non-empty list as `Maximum()` computes it (strict `>` from the first element) -/
def maxOf : List α → Option α
  | [] => none
  | x :: xs => some (xs.foldl (fun r v => if r < v then v else r) x)

/-- `FindDimensions`: walk the parameters in order; a table occupies `int(max of its dimension parameter)` rows.
Returns, per parameter, (first row, number of rows). `.error` if the parameter array is too short. -/
def layout (spec : ParamSpec) (params : List (List α)) : Except String (List (Nat × Nat)) :=
  let rec go (ps : ParamSpec) (idx : Nat) (acc : List (Nat × Nat)) (maxv : List Int) : Except String (List (Nat × Nat)) :=
    match ps with
    | [] => .ok acc.reverse
    | p :: rest =>
      let size : Nat := match p with
        | none => 1
        | some k => (maxv.getD k 0).toNat
      let rows := (params.drop idx).take size
      if rows.length < size then .error "index-out-of-range"
      else
        -- maxValues[name] = Slice([idx,0],[size,nSets]).Maximum(); only dimension parameters are read back
        let m : Int := match maxOf rows.flatten with
          | some v => Num.toInt v
          | none => 0
        go rest (idx + size) ((idx, size) :: acc) (maxv ++ [m])
  go spec 0 [] []

/-- parameter column of cell `i`: scalar `params[row][i % nSets]`; table rows `row + r`, `r < own length` -/
def cellParams (spec : ParamSpec) (lay : List (Nat × Nat)) (params : List (List α)) (i : Nat) : Except String (List α) :=
  let rec go (ps : List (Option Nat × (Nat × Nat))) (acc : List α) (vals : List α) : Except String (List α) :=
    match ps with
    | [] => .ok acc
    | (p, (row, size)) :: rest =>
      match p with
      | none =>
        match params[row]? with
        | some r =>
          if r.length = 0 then .error "int-div-zero" else
          match r[i % r.length]? with
          | some v => go rest (acc ++ [v]) (vals ++ [v])
          | none => .error "index-out-of-range"
        | none => .error "index-out-of-range"
      | some k =>
        let own : Nat := (match vals[k]? with | some v => (Num.toInt v).toNat | none => 0)
        if own > size then .error "index-out-of-range" else
        let rows := (params.drop row).take own
        let col : List (Option α) := rows.map fun r => if r.length = 0 then none else r[i % r.length]?
        if col.any (·.isNone) then .error "index-out-of-range"
        else go rest (acc ++ col.filterMap id) (vals ++ [Num.zero])
  go (spec.zip lay) [] []

structure RunIn (α : Type) where
  params : List (List α)          -- [row][set]
  inputs : List (List (List α))   -- [block][input][t]
  states : Option (List (List α)) -- [cell][state]; none → InitialiseStates(n)
  nCells : Nat
  outputs : List (List (List α))  -- [cell][output][t] initial contents (zero or sentinel)

structure RunOut (α : Type) where
  outputs : List (List (List α))
  states : List (List α)

/-- overwrite the first `xs.length` elements of `row` -/
def overwrite (row xs : List α) : List α := xs.take row.length ++ row.drop xs.length

/-- `InitialiseStates(n)`: width from cell 0, every cell's own initial row written into it -/
def initStates (km : KModel α) (spec : ParamSpec) (lay : List (Nat × Nat)) (params : List (List α)) (n : Nat) :
    Except String (List (List α)) := do
  let rows ← (List.range n).mapM fun i => do
    let p ← cellParams spec lay params i
    km.init p
  match rows with
  | [] => pure []
  | r0 :: _ =>
    if rows.all (fun r => r.length = r0.length) then pure rows else .error "hetero-init"

/-- `Run(inputs, states, outputs)` for all cells; cell `i` uses input block `i % nBlocks` -/
def run (km : KModel α) (spec : ParamSpec) (x : RunIn α) : Except String (RunOut α) := do
  let lay ← layout spec x.params
  let states ← match x.states with
    | some s => pure s
    | none => initStates km spec lay x.params x.nCells
  let nBlocks := x.inputs.length
  if nBlocks = 0 then .error "int-div-zero" else
  let rec go (i : Nat) (cells : List (List α)) (outs : List (List (List α))) (accS : List (List α)) (accO : List (List (List α))) :
      Except String (RunOut α) :=
    match cells with
    | [] => .ok { outputs := accO.reverse ++ outs, states := accS.reverse }
    | st :: restS =>
      match outs with
      | [] => .error "index-out-of-range"
      | orow :: restO => do
        let p ← cellParams spec lay x.params i
        let ins := x.inputs[i % nBlocks]?.getD []
        let r ← km.run p ins st
        let newO := (orow.zip (r.outputs ++ List.replicate (orow.length - r.outputs.length) [])).map
          fun (old, new) => overwrite old new
        go (i + 1) restS restO (overwrite st r.states :: accS) (newO :: accO)
  go 0 states x.outputs [] []

end OW.Sim
