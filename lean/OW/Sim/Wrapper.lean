import OW.Kernels.Basic
/-
List-level semantics of the generated model wrappers (pre/ow-specgen/generated_struct.got):
FindDimensions / ApplyParameters / InitialiseStates / Run over N cells, written with the same index
arithmetic as the template (`paramIdx += paramSize`, `i % nSets`, `i % numInputSequences`, per-cell table
length, writes confined to output rows/timesteps and state rows of the cells that run).

The kernel is a parameter (`KModel`): this model is about the glue. (C09 shows the 41 wrappers are the
template's expansion; the Nd-level view algebra the template uses is the subject of C01/C02.)
-/
namespace OW.Sim
open OW

/-- per parameter: `none` = scalar, `some k` = table whose length is the value of parameter number `k` -/
abbrev ParamSpec := List (Option Nat)

variable {α : Type} [Num α]

/-- maximum over a non-empty list as `Maximum()` computes it (strict `>` from the first element) -/
def maxOf : List α → Option α
  | [] => none
  | x :: xs => some (xs.foldl (fun r v => if r < v then v else r) x)

/-- `FindDimensions`: walk the parameters in order; a table occupies `int(max of its dimension parameter)` rows.
Returns, per parameter, (first row, number of rows). `.error` if the parameter array is too short. -/
def layout (spec : ParamSpec) (params : List (List α)) : Except String (List (Nat × Nat)) :=
  let rec go (ps : ParamSpec) (idx : Nat) (acc : List (Nat × Nat)) (maxv : List Int) : Except String (List (Nat × Nat)) :=
    match ps with
    | [] => .ok acc.reverse
    | p :: rest =>
      let size : Nat := match p with
        | none => 1
        | some k => (maxv.getD k 0).toNat
      let rows := (params.drop idx).take size
      if rows.length < size then .error "index-out-of-range"
      else
        -- maxValues[name] = Slice([idx,0],[size,nSets]).Maximum(); only dimension parameters are read back
        let m : Int := match maxOf rows.flatten with
          | some v => Num.toInt v
          | none => 0
        go rest (idx + size) ((idx, size) :: acc) (maxv ++ [m])
  go spec 0 [] []

/-- parameter column of cell `i`: scalar `params[row][i % nSets]`; table rows `row + r`, `r < own length` -/
def cellParams (spec : ParamSpec) (lay : List (Nat × Nat)) (params : List (List α)) (i : Nat) : Except String (List α) :=
  let rec go (ps : List (Option Nat × (Nat × Nat))) (acc : List α) (vals : List α) : Except String (List α) :=
    match ps with
    | [] => .ok acc
    | (p, (row, size)) :: rest =>
      match p with
      | none =>
        match params[row]? with
        | some r =>
          if r.length = 0 then .error "int-div-zero" else
          match r[i % r.length]? with
          | some v => go rest (acc ++ [v]) (vals ++ [v])
          | none => .error "index-out-of-range"
        | none => .error "index-out-of-range"
      | some k =>
        let own : Nat := (match vals[k]? with | some v => (Num.toInt v).toNat | none => 0)
        if own > size then .error "index-out-of-range" else
        let rows := (params.drop row).take own
        let col : List (Option α) := rows.map fun r => if r.length = 0 then none else r[i % r.length]?
        if col.any (·.isNone) then .error "index-out-of-range"
        else go rest (acc ++ col.filterMap id) (vals ++ [Num.zero])
  go (spec.zip lay) [] []

structure RunIn (α : Type) where
  params : List (List α)          -- [row][set]
  inputs : List (List (List α))   -- [block][input][t]
  states : Option (List (List α)) -- [cell][state]; none → InitialiseStates(n)
  nCells : Nat
  outputs : List (List (List α))  -- [cell][output][t] initial contents (zero or sentinel)

structure RunOut (α : Type) where
  outputs : List (List (List α))
  states : List (List α)

/-- overwrite the first `xs.length` elements of `row` -/
def overwrite (row xs : List α) : List α := xs.take row.length ++ row.drop xs.length

/-- write `xs` into the flat buffer at `pos` (the contiguous `copy` of `ApplySlice`); past the end = Go slice panic -/
def writeFlat (buf : List α) (pos : Nat) (xs : List α) : Except String (List α) :=
  if pos + xs.length > buf.length then .error "index-out-of-range"
  else .ok (buf.take pos ++ xs ++ buf.drop (pos + xs.length))

def chunks (w : Nat) : Nat → List α → List (List α)
  | 0, _ => []
  | n + 1, l => l.take w :: chunks w n (l.drop w)

/-- `InitialiseStates(n)`: the array is `n × width(cell 0)`; every cell's own initial row is copied to the start of
its row with `ApplySlice` (a contiguous copy: a wider row runs on into the next row, or off the end = panic). -/
def initStates (km : KModel α) (spec : ParamSpec) (lay : List (Nat × Nat)) (params : List (List α)) (n : Nat) :
    Except String (List (List α)) := do
  let rows ← (List.range n).mapM fun i => do
    let p ← cellParams spec lay params i
    km.init p
  match rows with
  | [] => pure []
  | r0 :: _ =>
    let w := r0.length
    let rec fill (i : Nat) (rs : List (List α)) (buf : List α) : Except String (List α) :=
      match rs with
      | [] => .ok buf
      | r :: rest => do
        let buf' ← writeFlat buf (i * w) r
        fill (i + 1) rest buf'
    let buf ← fill 0 rows (List.replicate (n * w) Num.zero)
    pure (chunks w n buf)

/-- what the goroutine of cell `i` does: compute `i % nBlocks` (its FIRST statement: with no input block that is Go's
integer-divide-by-zero panic), decode its parameter column, take input block `i % nBlocks`, run the kernel
on its state row, write the outputs into the first timesteps of its output rows and the states into its state row -/
def cellStep (km : KModel α) (spec : ParamSpec) (lay : List (Nat × Nat)) (params : List (List α))
    (inputs : List (List (List α))) (i : Nat) (st : List α) (orow : List (List α)) :
    Except String (List α × List (List α)) :=
  if inputs.length = 0 then .error "int-div-zero" else do
  let p ← cellParams spec lay params i
  let ins := inputs[i % inputs.length]?.getD []
  let r ← km.run p ins st
  let newO := (orow.zip (r.outputs ++ List.replicate (orow.length - r.outputs.length) [])).map
    fun (old, new) => overwrite old new
  pure (overwrite st r.states, newO)

/-- cells `i, i+1, …` in order (the real code runs them concurrently; C05 is about why the order does not matter):
state rows `cells`, output rows `outs` (which may be more than there are cells: the surplus is left alone) -/
def runCells (km : KModel α) (spec : ParamSpec) (lay : List (Nat × Nat)) (params : List (List α))
    (inputs : List (List (List α))) : Nat → List (List α) → List (List (List α)) →
    Except String (List (List α) × List (List (List α)))
  | _, [], outs => .ok ([], outs)
  | _, _ :: _, [] => .error "index-out-of-range"
  | i, st :: restS, orow :: restO => do
    let (s', o') ← cellStep km spec lay params inputs i st orow
    let (ss, os) ← runCells km spec lay params inputs (i + 1) restS restO
    pure (s' :: ss, o' :: os)

/-- `Run(inputs, states, outputs)` for all cells; cell `i` uses input block `i % nBlocks` -/
def run (km : KModel α) (spec : ParamSpec) (x : RunIn α) : Except String (RunOut α) := do
  let lay ← layout spec x.params
  let states ← match x.states with
    | some s => pure s
    | none => initStates km spec lay x.params x.nCells
  -- no input block: every goroutine panics in `i % numInputSequences` (`cellStep`); with 0 cells nothing runs, no panic
  let (ss, os) ← runCells km spec lay x.params x.inputs 0 states x.outputs
  pure { outputs := os, states := ss }

end OW.Sim
