/-
C05, tie A: the structural rules that the goroutine-per-cell closures (generated `Run` methods, the wrapper template)
and the goroutine-per-model closure of ow-sim must obey, as a decidable check on facts extracted from the source by
/verif/harness/cmd/owrunfacts (go/parser + go/ast). Hand-written; the data is regenerated into OW/Gen/RunFacts.lean
on every run of the check. Core Lean only.

An `Event` is one use, inside the closure, of something shared between the goroutines — a variable captured from the
enclosing function, a package-level variable, a local that aliases one of these, or a view obtained from one with
`Slice` — other than a plain read. The rules are GENERAL (they mention no variable names and no positions):

* `sharedWrite`: an assignment to a shared variable or to an element/field of one, taking its address, or a call of a
  mutating array method (`Set Set1 Set2 Set3 Apply Apply1 ApplySlice CopyFrom`) — UNLESS the call is pinned to the
  goroutine's own cell: made through a view sliced at the closure's own cell parameter (`viewOwn`), or made on the
  captured array itself with a location whose cell coordinate is the closure's own cell parameter (`ownLit`:
  `[]int{i, …}`; `ownVec`: a goroutine-local vector created inside the closure whose cell coordinate was set to `i`).
* `sharedLoc`: a location vector shared between goroutines passed as `loc` (`Apply` temporarily mutates its `loc`,
  and the position vectors are written per cell: they must be declared inside the closure).
* `badArg`: a shared non-scalar variable handed to a callee, except in the read-only positions `Slice(_, dims, step)`,
  `ApplySlice(_, step, _)`, `Reshape/MustReshape/ReshapeFast(shape)`.
* loop variable: the closure gets the loop variable as a parameter and uses neither the loop variable itself nor a
  variable declared in the loop body.
* cell coverage (`cover`): how the cell indices reach the per-cell body. `direct`: the launch loop variable is passed
  to the closure as its cell parameter — one goroutine per index `0 … B-1` of the counted launch loop. `pool` (a bounded
  worker pool): the closure ranges at its top level over a channel of cell indices that the enclosing function made
  with the capacity of the fill bound `B`, filled by ONE counted loop `for j := 0; j < B; j++ { cells <- j }` (exactly
  `0 … B-1`, each once), closed before the launch loop — or that fill loop and the `close` are the whole body of a
  dedicated goroutine started before the launch loop (any capacity then) — and used for nothing else; the range variable is the cell index,
  the range body (no `break`/`continue`/`return`/`goto`) is the per-cell body; the worker count is at least 1 whenever
  `B` is (`runtime.GOMAXPROCS(0)`/`NumCPU()`/a positive literal, at most clamped by `if W > B { W = B }`). Every value
  sent on a channel is received exactly once (TRUSTED: Go channel semantics), so every index is handled by exactly one
  worker, once: a TASK of the C05 theorems is then a worker, its footprint the union of the rows of the cells it
  received — pairwise disjoint because the per-cell footprints are and no index reaches two workers.
* join, `chan` form: every path through the closure ends with exactly one send on the done channel and there is no
  `return`; the number of goroutines launched is a loop bound (or a counter incremented once next to the `go`
  statement) that is not modified from the launch loop on, and a later loop receives exactly that many times; the
  channel is used for nothing else. `waitGroup` form: a `sync.WaitGroup` declared in the enclosing function;
  `Add(n)` with `n` the launch count as a statement before the launch loop (or `Add(1)` next to each `go` statement,
  before it); exactly one `Done()` in the closure, as the last action of every path (or deferred as the closure's
  first statement — then `return`s are allowed); exactly one `Wait()`, a later statement of the list the launch loop is
  in, with nothing in between that could leave the function; the WaitGroup is used for nothing else.
* followed calls: a method of the module called in the closure (a named per-cell method `m.runCell(i, …)`, per-cell
  view helpers `views.Cell(i).States()` in another package), and a plain function that is handed something shared, is
  not judged by its call alone: the extractor walks its body as part of the task with the parameters bound to the
  classes of the arguments (cell index, shared array, goroutine-local vector, task-local struct with per-field
  knowledge) and its events are events of the site; what it returns is classified by its return statements.
  `whole` = a shared array reached through such a binding or through a field of a shared struct (like `captured`).
* callees: the plain functions reachable from the closure inside the repository assign to nothing but their own
  locals (no package-level scratch state).
-/
namespace OW.Sim.RunFactsCheck

inductive Root | captured | global | alias | viewOwn | viewShared | whole
  deriving DecidableEq, Repr
inductive Access | assign | elemAssign | addr | call | arg | send | recv
  deriving DecidableEq, Repr
inductive Meth | set | set1 | set2 | set3 | apply | apply1 | applySlice | copyFrom | slice | reshape | other
  deriving DecidableEq, Repr
inductive Loc | ownLit | ownVec | modLit | modVec | sharedVec | localOther | other | none
  deriving DecidableEq, Repr
inductive Kind | cells | models | template
  deriving DecidableEq, Repr
inductive LaunchForm | counted | counter | other
  deriving DecidableEq, Repr
inductive JoinForm | chan | waitGroup | none
  deriving DecidableEq, Repr
inductive CoverForm | direct | pool
  deriving DecidableEq, Repr

/-- the channel of cell indices of a worker pool (all `false` for a site that is not one) -/
structure Pool where
  buffered : Bool := false          -- made in the enclosing function with a capacity (or filled by a dedicated goroutine)
  fillOk : Bool := false            -- exactly one counted loop `for j := 0; j < B; j++ { cells <- j }` before the launch loop, no other send
  capMatches : Bool := false        -- the capacity is the fill bound `B` (or filled by a dedicated goroutine)
  closed : Bool := false            -- `close(cells)` between the fill loop and the launch loop (or last statement of the filler goroutine)
  rangeClean : Bool := false        -- `for i := range cells` at the top level of the worker, body without break/continue/return/goto
  otherChanUses : Nat := 0
  boundReassigned : Bool := false   -- a variable of `B` is assigned after the channel is made
  workersPositive : Bool := false   -- at least one worker whenever `B ≥ 1`
  deriving Repr

structure Event where
  line : Nat
  var : String
  root : Root
  scalar : Bool
  access : Access
  meth : Meth
  loc : Loc
  argPos : Nat
  isMethod : Bool
  isDoneChan : Bool
  deriving Repr

structure Site where
  file : String
  func : String
  kind : Kind
  cover : CoverForm := .direct
  pool : Pool := {}
  join : JoinForm := .chan
  doneDeferred : Bool := false      -- waitGroup: `defer wg.Done()` is the closure's first statement
  addOk : Bool := false             -- waitGroup: `Add(n)` before the launch loop / `Add(1)` next to the go statement
  cellParamBound : Bool
  capturesLoopVar : Bool
  loopBodyVarsCaptured : Nat
  unsupported : Nat
  hasChan : Bool
  sends : Nat
  sendTail : Bool
  returnsInClosure : Nat
  launch : LaunchForm
  goTopLevelOnce : Bool
  launchLoopClean : Bool
  countReassigned : Bool
  recvLoopFound : Bool
  sameBound : Bool
  recvPerIter : Nat
  recvLoopClean : Bool
  otherChanUses : Nat
  calleeWrites : Nat
  events : List Event
  deriving Repr

structure Facts where
  dimS : Int
  dimO : Int
  dimI : Int
  errors : Nat
  wrapperFiles : Nat
  wrapperSites : Nat
  templateVariants : Nat
  templateSites : Nat
  sites : List Site
  deriving Repr

def Meth.mutating : Meth → Bool
  | .set | .set1 | .set2 | .set3 | .apply | .apply1 | .applySlice | .copyFrom => true
  | _ => false

/-- the access is pinned to the goroutine's own cell -/
def Event.ownCell (e : Event) : Bool :=
  match e.root, e.loc with
  | .viewOwn, _ => true
  | .captured, .ownLit => true
  | .captured, .ownVec => true
  | .whole, .ownLit => true
  | .whole, .ownVec => true
  | _, _ => false

def Event.sharedWrite (e : Event) : Bool :=
  match e.access with
  | .assign | .elemAssign | .addr => true
  | .call => e.meth.mutating && !e.ownCell
  | _ => false

def Event.sharedLoc (e : Event) : Bool :=
  match e.access, e.loc with
  | .call, .sharedVec => true
  | _, _ => false

def Event.readOnlyArgPosition (e : Event) : Bool :=
  e.isMethod && (match e.meth with
    | .slice => e.argPos == 1 || e.argPos == 2
    | .applySlice => e.argPos == 1
    | .reshape => e.argPos == 0
    | _ => false)

def Event.badArg (e : Event) : Bool :=
  match e.access with
  | .arg => !e.scalar && !e.isDoneChan && !e.readOnlyArgPosition
  | _ => false

def Event.badChan (e : Event) : Bool :=
  match e.access with
  | .recv => true
  | .send => !e.isDoneChan
  | _ => false

def Event.ok (e : Event) : Bool := !e.sharedWrite && !e.sharedLoc && !e.badArg && !e.badChan

def Site.loopVarOk (s : Site) : Bool := s.cellParamBound && !s.capturesLoopVar && s.loopBodyVarsCaptured == 0

def Pool.ok (p : Pool) : Bool :=
  p.buffered && p.fillOk && p.capMatches && p.closed && p.rangeClean && p.otherChanUses == 0 && !p.boundReassigned &&
    p.workersPositive

/-- every cell index `0 … B-1` reaches the per-cell body exactly once -/
def Site.coverOk (s : Site) : Bool :=
  s.cellParamBound && (match s.cover with | .direct => true | .pool => s.pool.ok)

def Site.sendOk (s : Site) : Bool :=
  s.hasChan && s.sendTail &&
    (match s.join with
      | .chan => s.returnsInClosure == 0 && (match s.kind with | .models => decide (1 ≤ s.sends) | _ => s.sends == 1)
      | .waitGroup => (s.returnsInClosure == 0 || s.doneDeferred) && s.sends == 1
      | .none => false)

def Site.launchOk (s : Site) : Bool :=
  (match s.launch with | .other => false | _ => true) && s.goTopLevelOnce && s.launchLoopClean && !s.countReassigned

/-- `chan`: a later loop receives exactly the launch count; `waitGroup`: `Add` of the launch count, one `Wait()` after the
launch loop (`recvLoopFound` = the `Wait()` is there, `sameBound` = the `Add` count is the launch count) -/
def Site.recvOk (s : Site) : Bool :=
  s.recvLoopFound && s.sameBound && s.recvPerIter == 1 && s.recvLoopClean && s.otherChanUses == 0 &&
    (match s.join with | .chan => true | .waitGroup => s.addOk | .none => false)

def Site.ok (s : Site) : Bool :=
  s.events.all Event.ok && s.loopVarOk && s.coverOk && s.unsupported == 0 && s.sendOk && s.launchOk && s.recvOk &&
    s.calleeWrites == 0

/-- names of the rules a site violates (for the report) -/
def Site.violated (s : Site) : List String :=
  (if s.events.any Event.sharedWrite then ["shared-write"] else []) ++
  (if s.events.any Event.sharedLoc then ["shared-loc"] else []) ++
  (if s.events.any Event.badArg then ["shared-arg"] else []) ++
  (if s.events.any Event.badChan || !s.sendOk || !s.launchOk || !s.recvOk then ["join"] else []) ++
  (if !s.loopVarOk then ["loop-var"] else []) ++
  (if !s.coverOk && s.cellParamBound then ["cell-coverage"] else []) ++
  (if s.unsupported != 0 then ["unsupported"] else []) ++
  (if s.calleeWrites != 0 then ["callee-global-write"] else [])

def runFactsOk (f : Facts) : Bool :=
  f.dimS == 0 && f.dimO == 0 && f.dimI == 0 && f.errors == 0 &&
  f.wrapperFiles == f.wrapperSites && f.templateVariants == f.templateSites && decide (1 ≤ f.templateSites) &&
  f.sites.all Site.ok

/-- what `runFactsOk = true` gives: in every analysed closure no event is a shared write, no shared vector is used as
a location, the loop variable reaches the closure only as a parameter, every cell index reaches the per-cell body once
(directly or through the pool's channel), and the send / receive (Done / Add / Wait) counts match. -/
theorem runFactsOk_sound (f : Facts) (h : runFactsOk f = true) :
    ∀ s, s ∈ f.sites →
      (∀ e, e ∈ s.events → e.sharedWrite = false ∧ e.sharedLoc = false ∧ e.badArg = false ∧ e.badChan = false) ∧
      s.loopVarOk = true ∧ s.sendOk = true ∧ s.launchOk = true ∧ s.recvOk = true ∧ s.calleeWrites = 0 ∧
      s.coverOk = true := by
  intro s hs
  simp only [runFactsOk, Bool.and_eq_true, List.all_eq_true] at h
  have hsite := h.2 s hs
  simp only [Site.ok, Bool.and_eq_true, List.all_eq_true, beq_iff_eq] at hsite
  obtain ⟨⟨⟨⟨⟨⟨⟨he, hl⟩, hcov⟩, _⟩, hso⟩, hla⟩, hr⟩, hc⟩ := hsite
  refine ⟨?_, hl, hso, hla, hr, hc, hcov⟩
  intro e hee
  have := he e hee
  simp only [Event.ok, Bool.and_eq_true, Bool.not_eq_true'] at this
  exact ⟨this.1.1.1, this.1.1.2, this.1.2, this.2⟩

end OW.Sim.RunFactsCheck
